"""C08 — capability lookup semantics and totality (ncclient/capabilities.py).
Model: coq/Model/Caps.v; theorems: coq/Props/C08.v; spec: coq/Spec/CapsSpec.v."""
import itertools
ID = 'C08'
COQ_ROOTS = ['Props/C08.v', 'GenProps/Caps_consts.v']
RULE = ('URI lists from a segment grammar (well-formed in both URN forms, truncated after every segment, '
        'over-long, look-alikes by single-segment substitution/insertion/deletion, parameter strings incl. a=b=c, '
        'empty, repeated ?, duplicates, non-ASCII) x queries (every advertised URI, every shorthand the independent '
        'spec derives, near-misses). A case is (uri list, key); distinct = distinct (list,key); non-trivial = the list '
        'is non-empty and the key is non-empty.')
ASSUMES = ['str.split/partition/dict of CPython behave as modelled in Model/Base.v (split_on, dict_set); validated by every case',
           'strings are compared as UTF-8 octet lists (all separators are ASCII)']
TRUSTED = ['modelled, not verified: CPython str/dict built-ins']

PA = ['urn', 'ietf', 'params', 'netconf']
PB = ['urn', 'ietf', 'params', 'xml', 'ns', 'netconf']
ALPHA = ['urn', 'ietf', 'params', 'netconf', 'xml', 'ns', 'capability', 'base', 'x', '1', '']
PARAMS = ['', '?', '?a=b', '?a=b&c=d', '?a=b=c', '?a', '?=', '?a=b&a=c', '?a=b&junk&a=d&e=',
          '?basic-mode=explicit&also-supported=report-all,trim', '??a=b', '?a=b?c=d', '?&&', '?ké=v€', '?a=b&=c&d=']

# ---------- independent statement of the property (the oracle) ----------
def spec_shorthands(ns):
    segs = ns.split(':')
    for p in (PA, PB):
        if segs[:len(p)] == p:
            r = segs[len(p):]
            if len(r) >= 3 and r[0] == 'capability':
                return [':' + r[1], ':' + r[1] + ':' + r[2]]
            if len(r) >= 2 and r[0] == 'base':
                return [':base', ':base:' + r[1]]
    return []

def spec_params(uri):
    parts = uri.split('?')
    d = {}
    if len(parts) > 1:
        for p in parts[1].split('&'):
            kv = p.split('=')
            if len(kv) == 2: d[kv[0]] = kv[1]
    return parts[0], sorted(d.items())

def spec_lookup(uris, key):
    if key in uris:
        return ('found',) + spec_params(key)
    for u in uris:
        if key in spec_shorthands(u.split('?')[0]):
            return ('found',) + spec_params(u)
    return ('KeyError',)

# ---------- implementation ----------
def impl_lookup(uris, key):
    from ncclient.capabilities import Capabilities
    try:
        caps = Capabilities(uris)
        c = caps[key]
        r = ('found', c.namespace_uri, sorted(c.parameters.items()))
    except KeyError:
        r = ('KeyError',)
    except Exception as e:
        return ('exc', type(e).__name__)
    try:
        m = key in caps
    except Exception as e:
        return ('exc', type(e).__name__)
    if m != (r[0] == 'found'):
        return ('exc', 'contains-disagrees-with-getitem')
    return r

def model_decode(v):
    if v[0] == 0: return ('found', v[1].decode(), sorted((k.decode(), w.decode()) for k, w in v[2]))
    if v[0] == 1: return ('KeyError',)
    return ('exc', 'code%d' % v[1])

# ---------- generators ----------
def structured_uris():
    out = []
    forms = [PA + ['capability', 'x', '1'], PB + ['capability', 'x', '1'], PA + ['base', '1'], PB + ['base', '1'],
             PA + ['capability', 'x', '1', 'extra', 'more'], PB + ['base', '1', 'extra']]
    for f in forms:
        out.append(f)
        for i in range(len(f) + 1):
            out.append(f[:i])                               # truncations
        for i in range(len(f)):
            out.append(f[:i] + f[i + 1:])                   # deletions
            for a in ALPHA + [f[i] + 'x', 'x' + f[i], f[i][:-1], f[i].upper(), f[i] + ' ']:   # incl. near-misses of the segment itself
                out.append(f[:i] + [a] + f[i + 1:])         # substitutions
            for a in ALPHA:
                out.append(f[:i] + [a] + f[i:])             # insertions
    seen, res = set(), []
    for s in out:
        u = ':'.join(s)
        if u not in seen:
            seen.add(u); res.append(u)
    return res

def queries_for(uris, rng):
    qs = set(uris)
    for u in uris:
        ns = u.split('?')[0]
        qs.update(spec_shorthands(ns))
        segs = ns.split(':')
        for i in range(len(segs)):
            qs.add(':' + segs[i])
            if i + 1 < len(segs): qs.add(':' + segs[i] + ':' + segs[i + 1])
        qs.add(ns)
    qs.update([':x', ':x:1', ':base', ':base:1', ':x:', '::', ':', '', 'x', ':x:1:extra', ':capability', ':1'])
    return sorted(qs)

def run(ctx):
    rng = ctx.rng
    base = structured_uris()
    cases = []
    # (a) exhaustive over the structured single-URI space x derived queries
    for u in base:
        for q in queries_for([u], rng):
            cases.append(([u], q))
    # (b) parameter strings on well-formed and look-alike URIs
    wf = [':'.join(PA + ['capability', 'with-defaults', '1.0']), ':'.join(PB + ['capability', 'x', '1']),
          ':'.join(PA + ['base', '1.1']), 'http://example.com/mod', 'urn:ietf:params:foo:netconf:capability:x:1']
    for u in wf:
        for p in PARAMS:
            for q in queries_for([u + p], rng):
                cases.append(([u + p], q))
    # (c) random lists (order, duplicates, shadowing between full URIs and shorthands)
    n = 3000 if ctx.tier == 'quick' else 40000
    pool = base + [u + p for u in wf for p in PARAMS]
    for _ in range(n):
        k = rng.choice([0, 1, 2, 2, 3, 4, 6])
        uris = [rng.choice(pool) for _ in range(k)]
        if uris and rng.random() < 0.3: uris.append(rng.choice(uris))
        if rng.random() < 0.2: uris.append(rng.choice([':x', ':base', ':x:1']))   # a shorthand advertised verbatim
        qs = queries_for(uris, rng)
        shs = sorted({s for u in uris for s in spec_shorthands(u.split('?')[0])})
        for _q in range(4):
            r = rng.random()
            if r < 0.35 and uris: q = rng.choice(uris)
            elif r < 0.75 and shs: q = rng.choice(shs)
            else: q = rng.choice(qs)
            cases.append((uris, q))
    if ctx.tier == 'thorough':
        # all ordered pairs of a reduced structured set: first-match order
        small = [u for u in base if u.count(':') in (5, 6, 7, 8)][:60]
        for a, b in itertools.permutations(small, 2):
            for q in (':x', ':x:1', ':base', ':base:1'):
                cases.append(([a, b], q))
    ctx.exhaustive = False
    history_cases(ctx)
    calls = [[1, [u.encode() for u in uris], key.encode()] for uris, key in cases]
    outs = ctx.model.batch(calls) if ctx.model else [None] * len(cases)
    for (uris, key), mo in zip(cases, outs):
        case = {'uris': uris, 'key': key}
        im = impl_lookup(uris, key)
        sp = spec_lookup(uris, key)
        ctx.count(case, nontrivial=bool(uris) and key != '')
        ctx.hist('impl_outcome', im[0]); ctx.hist('n_uris', len(uris))
        ctx.hist('key_kind', 'full' if key in uris else ('shorthand' if sp[0] == 'found' else 'absent'))
        if ctx.evaluations % 997 == 1: ctx.sample({'case': case, 'impl': im})
        if mo is not None and model_decode(mo) != im:
            ctx.disagree(case, model_decode(mo), im, 'Caps.getitem vs Capabilities.__getitem__', theorem='C08_total/C08_lookup_*')
        if im != sp:
            ctx.fail(case, 'lookup of %r in %r: implementation %r, property says %r' % (key, uris, im, sp),
                     sig=None, expected=sp, actual=im)

# ---------- histories of add / remove ----------
def impl_history(uris, ops, key, probes=()):
    """probes: keys looked up (and tested for membership) before every operation of the history: a lookup is an
    observation, it must not change what later lookups answer (no memo that outlives an add/remove)"""
    from ncclient.capabilities import Capabilities
    try:
        caps = Capabilities(uris)
        for o, u in ops:
            for q in probes:
                try: caps[q]
                except KeyError: pass
                q in caps
            (caps.add if o == 'add' else caps.remove)(u)
        c = caps[key]
        r = ('found', c.namespace_uri, sorted(c.parameters.items()))
    except KeyError:
        r = ('KeyError',)
    except Exception as e:
        return ('exc', type(e).__name__)
    try:
        if (key in caps) != (r[0] == 'found'): return ('exc', 'contains-disagrees-with-getitem')
    except Exception as e:
        return ('exc', type(e).__name__)
    return r

def present_after(uris, ops):
    ks = []
    for u in uris:
        if u not in ks: ks.append(u)
    for o, u in ops:
        if o == 'add':
            if u not in ks: ks.append(u)
        else:
            ks = [k for k in ks if k != u]
    return ks

def history_cases(ctx):
    rng = ctx.rng
    pool = [':'.join(PA + ['base', '1.0']), ':'.join(PA + ['base', '1.1']), ':'.join(PB + ['base', '1.0']),
            ':'.join(PA + ['capability', 'candidate', '1.0']), ':'.join(PA + ['capability', 'candidate', '1.1']),
            ':'.join(PB + ['capability', 'candidate', '1.0']), ':'.join(PA + ['capability', 'x', '1']) + '?a=b', 'http://example.com/m?module=m']
    cases = []
    for _ in range(1200 if ctx.tier == 'quick' else 15000):
        uris = [rng.choice(pool) for _ in range(rng.randint(0, 4))]
        ops = [(rng.choice(['add', 'remove', 'remove']), rng.choice(pool)) for _ in range(rng.randint(1, 5))]
        ks = present_after(uris, ops)
        qs = sorted(set(ks + pool[:2] + [s for u in pool for s in spec_shorthands(u.split('?')[0])]))
        cases.append((uris, ops, rng.choice(qs)))
    calls = [[4, [u.encode() for u in uris], [[0 if o == 'add' else 1, u.encode()] for o, u in ops], key.encode()] for uris, ops, key in cases]
    outs = ctx.model.batch(calls) if ctx.model else [None] * len(cases)
    for (uris, ops, key), mo in zip(cases, outs):
        case = {'uris': uris, 'ops': [list(o) for o in ops], 'key': key}
        im = impl_history(uris, ops, key); sp = spec_lookup(present_after(uris, ops), key)
        qs = sorted(set([key] + [s for u in uris + [u for _, u in ops] for s in spec_shorthands(u.split('?')[0])] + [u for _, u in ops]))
        im2 = impl_history(uris, ops, key, probes=qs)
        if im2 != im:
            ctx.fail(dict(case, probes=qs), 'looking keys up during the history %r on %r changes the final lookup of %r: %r without, %r with the earlier lookups'
                     % (ops, uris, key, im, im2), sig=None, expected=im, actual=im2)
        ctx.count(case, nontrivial=True, key=['hist', uris, ops, key]); ctx.hist('history_outcome', im[0])
        if mo is not None and model_decode(mo) != im:
            ctx.disagree(case, model_decode(mo), im, 'Caps.caps_after/getitem vs Capabilities add/remove/__getitem__', theorem='C08_history')
        if im != sp:
            ctx.fail(case, 'after the history %r on %r, lookup of %r: implementation %r, property says %r' % (ops, uris, key, im, sp),
                     sig=None, expected=sp, actual=im)

def search(ctx, seeds):
    """Tie broke: look for an input on which the property itself fails (neighbours of the
    disagreeing cases first, then a larger random sweep)."""
    rng = ctx.rng
    pool = structured_uris()
    tries = [(c['uris'], c['key']) for c in seeds]
    for c in seeds:
        for u in c['uris']:
            for q in queries_for([u], rng): tries.append(([u], q))
    for _ in range(20000):
        uris = [rng.choice(pool) + rng.choice(PARAMS) for _ in range(rng.randint(0, 4))]
        qs = queries_for(uris, rng)
        tries.append((uris, rng.choice(qs)))
    for uris, key in tries:
        im, sp = impl_lookup(uris, key), spec_lookup(uris, key)
        if im != sp:
            return dict(case={'uris': uris, 'key': key}, what='implementation %r, property says %r' % (im, sp), expected=sp, actual=im, sig=None)
    return None

def reproduce(finding):
    w = finding['witness']
    if 'ops' in w:
        ops = [tuple(o) for o in w['ops']]
        return impl_history(w['uris'], ops, w['key']) != spec_lookup(present_after(w['uris'], ops), w['key'])
    return impl_lookup(w['uris'], w['key']) != spec_lookup(w['uris'], w['key'])

def replay(doc):
    c = doc['case']
    if 'ops' in c:
        ops = [tuple(o) for o in c['ops']]
        im, sp = impl_history(c['uris'], ops, c['key']), spec_lookup(present_after(c['uris'], ops), c['key'])
        print('case     :', c); print('expected :', sp); print('actual   :', im)
        return im == sp
    im, sp = impl_lookup(c['uris'], c['key']), spec_lookup(c['uris'], c['key'])
    print('case     :', c); print('expected :', sp); print('actual   :', im)
    return im == sp
