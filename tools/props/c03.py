"""C03 — decided on the session LTS (coq/Model/SessionLTS.v, coq/Props/C03.v); tie = trace validation of real
Session.run / RPC / RPCReplyListener threads under the deterministic scheduler (tools/harness/sched.py, lts.py)."""
import os, json, glob
from harness import lts_check
from vlib import paths
ID = 'C03'
RUNNER = 'LTS'
COQ_ROOTS = ['Props/C03.v', 'Props/C03_reuse.v', 'Props/E2E.v', 'GenProps/Session_consts.v']
RULE = ('A case is (scenario, schedule): client programs (sync/async requests, take_notification, await-disconnect), a scripted '
        'server (replies in any order, duplicates, unknown/missing ids, notifications, unknown messages, EOF/error) and the list of '
        'scheduler decisions at every synchronisation point (lock acquire, event set/wait, queue put/get, connected read, '
        'read/write/select, close). Small scenarios are enumerated depth-first with a pre-emption bound, larger ones are '
        'random. Distinct = distinct (scenario, decision list); non-trivial = at least one request was registered. '
        'Direct family reuse (real UnixSocketSession on a socketpair, free-running threads, scripted server with an independent reader): '
        'a case is a history of uses of API objects that are used more than once - the same LockContext entered again (in sequence, nested, '
        'from several threads, after a denied lock), the same operation repeated through one Manager (sync / pipelined), several Managers on '
        'one session, a Manager used for several with-blocks, an RPC object request()ed again (after its reply, while outstanding, after a '
        'time-out, asynchronously), and operations made through a Manager with a short time limit that TIME OUT and whose answer arrives later while '
        'requests of the same / other threads (sync, async, inside lock contexts, through other Managers) are outstanding '
        '- x the server\'s answer policy per arrival (at once / held / later than the time limit, ok / rpc-error) '
        'x profile x base 1.0/1.1.')
ASSUMES = ['CPython executes the code between two instrumented synchronisation points atomically with respect to the other managed threads (GIL + cooperative scheduler)',
           'uuid4 message-ids are unique (fresh-id oracle of the LTS; a trace violating it is rejected by the model)',
           'threading.Event/Lock/queue.Queue/selectors behave as the instrumented stand-ins (tools/harness/sched.py)']
TRUSTED = ['modelled, not verified: threading, queue, selectors, the in-memory transport; inbound framing is composed with the LTS (Props/E2E.v, byte-level replay of the recorded reads by tools/harness/e2e_check.py; the concrete classifier of message texts Model/Classify.v is a scanner, the theorems hold for every classifier), outbound framing is C02',
           'tools/harness/sched.py, lts.py, lts_check.py (scheduler, effect log -> label mapping, oracles)',
           'tools/harness/reuse.py (scripted server, one log shared by server and callers; every verdict is an order of log entries or a content mismatch, durations only give an early return time to show itself)']

def _corpus():
    out = []
    for f in sorted(glob.glob(os.path.join(paths.CORPUS, ID, '*.json'))):
        d = json.load(open(f))
        d['spec']['clients'] = [[tuple(op) for op in ops] for ops in d['spec']['clients']]
        d['spec']['server'] = [tuple(a) for a in d['spec']['server']]
        out.append(d)
    return out

# ---- direct family: API objects that are used more than once (tools/harness/reuse.py; model coq/Model/ApiReuse.v)
def _reuse_cases(tier, rng):
    from harness import reuse
    if tier == 'quick':
        return reuse.core_cases() + [reuse.gen_case(rng) for _ in range(30)] + [reuse.gen_timeout_case(rng) for _ in range(14)]
    return reuse.all_cases() + [reuse.gen_case(rng) for _ in range(400)] + [reuse.gen_timeout_case(rng) for _ in range(200)]

def _case_of(rec):
    return dict(check='reuse', **{k: v for k, v in rec.items() if not k.startswith('_')})

def run_reuse(ctx):
    from harness import reuse
    model = reuse.reuse_model(ctx)
    results = reuse.judge_many(_reuse_cases(ctx.tier, ctx.rng))
    outs = model.batch([reuse.model_call(rec['_uses'])[0] for _, rec in results]) if model is not None else [None] * len(results)
    for (f, rec), mo in zip(results, outs):
        case = _case_of(rec)
        ctx.count(case, nontrivial=rec['_wire'] > 1, key=['reuse', case])
        ctx.traces += 1
        ctx.hist('reuse', '%d thread(s)/%s/%s' % (len(case['threads']), case['profile'], '1.1' if case['base11'] else '1.0'))
        ctx.hist('reuse_calls', 'refused' if rec['_refused'] else 'all sent')
        if mo is not None:
            d = reuse.compare(rec['_uses'], mo)
            if d:
                ctx.disagree(case, 'Model/ApiReuse.v: which uses make a request of their own', d, 'uses of API objects vs the API model', theorem='C03_reuse_refused')
        if f and f.startswith('rig:'):
            ctx.note(f)
        elif f:
            ctx.fail(case, f, sig=None, expected='property %s' % ID, actual=f)

def run(ctx):
    q = ctx.tier == 'quick'
    run_reuse(ctx)
    lts_check.check(ctx, ID, n_random=500 if q else 6000, dfs_bound=2 if q else 3, dfs_cap=350 if q else 6000, corpus=_corpus())

def search(ctx, seeds):
    from harness import reuse
    for f, rec in reuse.judge_many(_reuse_cases('quick', ctx.rng)):
        if f and not f.startswith('rig:'):
            return dict(case=_case_of(rec), what=f, sig=None, expected='property %s' % ID, actual=f)
    return lts_check.search(ctx, ID, seeds)

def reproduce(finding):
    w = finding['witness']
    if w.get('check') == 'reuse':
        from harness import reuse
        return reuse.judge(w)[0]
    w['spec']['clients'] = [[tuple(op) for op in ops] for ops in w['spec']['clients']]
    w['spec']['server'] = [tuple(a) for a in w['spec']['server']]
    sc = lts_check.run_case(w['spec'], decisions=list(w['decisions']), rng_after=False)
    return lts_check.ORACLES[ID](sc) is not None

def replay(doc):
    if 'case' not in doc:                # a replay of kind "obligation": broken proofs / ties, model disagreements
        ok = not doc.get('broken')
        for b in doc.get('broken', []):
            print('broken    :', b.get('kind'), b.get('what') or b.get('file') or '', (b.get('log') or '')[-300:])
        seen = []
        for d in doc.get('correspondence', []):
            c = d.get('case', {})
            if c.get('check') == 'reuse' and c not in seen:
                seen.append(c)
                ok = replay({'case': c}) and ok
            elif c.get('check') != 'reuse':
                print('disagreement (not re-run here):', d.get('what'), '-', str(d.get('actual'))[:200]); ok = False
        return ok
    c = doc['case']
    if c.get('check') == 'reuse':
        from harness import reuse
        f, rec = reuse.judge(c)
        print('case      :', _case_of(rec))
        print('expected  : property %s holds (message-ids on the wire pairwise distinct; no call completes before the server answered '
              'its request; every call completes with the answer to its own request; the session survives)' % ID)
        print('actual    :', f or 'holds', {k: v for k, v in rec.items() if k in ('_calls', '_wire', '_refused')})
        model = reuse.reuse_model()
        if model is not None:
            d = reuse.compare(rec['_uses'], model.call(reuse.model_call(rec['_uses'])[0]))
            print('model     :', d or 'the calls did what Model/ApiReuse.v says (sent / refused)')
            if d and not f: return False
        return f is None
    return lts_check.replay(doc, ID)
