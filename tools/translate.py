#!/venv/bin/python
"""translate.py --repo <dir> [--out <dir>] [--check]

Re-reads the literal tables of the ncclient source tree under <dir> with Python's `ast`
module (ncclient is NEVER imported or executed) and writes them as Coq data to
coq/Gen/Gen_Const.v, Gen_Ops.v, Gen_Devices.v.  Files are rewritten only when their
content changes (so `make` stays incremental); the output is deterministic.

Fail-closed: a construct the translator does not understand where it expects a literal
table is an error `translate: <file>:<line>: <message>` and exit status 2; no Gen file
is written in that case.

Strings are emitted as octet lists (`list N`, UTF-8), never as Coq `string`.
The data layout is documented at the top of each generated file and in notes/translator.md.
"""
import ast, sys, os, argparse, hashlib, glob

HERE = os.path.dirname(os.path.abspath(__file__))
sys.path.insert(0, HERE)
from vlib.build import write_if_changed


class TranslateError(Exception):
    def __init__(self, path, node, msg):
        line = getattr(node, 'lineno', node if isinstance(node, int) else 0)
        Exception.__init__(self, '%s:%s: %s' % (path, line, msg))


# ----------------------------------------------------------------------------- Coq printing
SAFE = set('abcdefghijklmnopqrstuvwxyzABCDEFGHIJKLMNOPQRSTUVWXYZ0123456789 :._/-=,?#+[]<>!&%@{}|^$~;')

def comment_text(b):
    """Readable rendering of an octet string that is safe inside a Coq comment (no quotes,
    no comment delimiters: '(' ')' '*' and '"' are replaced)."""
    s = b.decode('utf-8', 'replace') if isinstance(b, (bytes, bytearray)) else str(b)
    out = ''.join(c if c in SAFE else ('\\n' if c == '\n' else '?') for c in s)
    return out[:100]

def to_bytes(v):
    if isinstance(v, bytes): return v
    if isinstance(v, str): return v.encode('utf-8')
    raise TypeError(v)

def cq_bytes(v):
    b = to_bytes(v)
    if not b: return '([] : bytes)'
    return '[' + ';'.join(str(x) for x in b) + ']%N'

def cq_list(items, ty=None):
    if not items:
        return '([] : list %s)' % ty if ty else '[]'
    return '[' + ';\n     '.join(items) + ']'

def cq_bytes_c(v):
    return '%s (* %s *)' % (cq_bytes(v), comment_text(to_bytes(v)))

def cq_bytes_list(vs):
    return cq_list([cq_bytes_c(v) for v in vs], 'bytes')

def cq_opt(x, ty):
    return '(None : option %s)' % ty if x is None else '(Some %s)' % x

def cq_bool(b):
    return 'true' if b else 'false'

def cq_pairs(pairs):
    return cq_list(['(%s, %s) (* %s -> %s *)' % (cq_bytes(k), cq_bytes(v), comment_text(to_bytes(k)), comment_text(to_bytes(v))) for k, v in pairs], '(bytes * bytes)')


# ----------------------------------------------------------------------------- ast helpers
def parse(path):
    try:
        return ast.parse(open(path, encoding='utf-8').read(), path)
    except SyntaxError as e:
        raise TranslateError(path, e.lineno or 0, 'syntax error: %s' % e.msg)

def strip_doc(body):
    if body and isinstance(body[0], ast.Expr) and isinstance(body[0].value, ast.Constant) and isinstance(body[0].value.value, str):
        return body[1:]
    return body

def digest(func):
    """Digest of a function body (docstring and formatting ignored)."""
    body = strip_doc(func.body)
    txt = '|'.join(ast.dump(s, annotate_fields=False, include_attributes=False) for s in body)
    return hashlib.sha256(txt.encode()).hexdigest()[:16]

def module_consts(path, tree):
    """name -> (kind, value, lineno) for module-level NAME = literal  (UPPER_CASE names).
    kinds: str, bytes, int, float, bool, re (re.compile(<literal>)); other right-hand sides are
    recorded as ('other', None) so that a REQUIRED name with such a value is an error."""
    out = {}
    for st in tree.body:
        if isinstance(st, ast.Assign) and len(st.targets) == 1 and isinstance(st.targets[0], ast.Name):
            name = st.targets[0].id
            if not name.replace('_', '').isalnum() or name != name.upper() or not name[0].isalpha():
                continue
            v = st.value
            if isinstance(v, ast.Constant) and isinstance(v.value, (str, bytes, bool, int, float)):
                k = type(v.value).__name__
                out[name] = (k, v.value, st.lineno)
            elif (isinstance(v, ast.Call) and isinstance(v.func, ast.Attribute) and v.func.attr == 'compile'
                  and isinstance(v.func.value, ast.Name) and v.func.value.id == 're'
                  and len(v.args) == 1 and not v.keywords and isinstance(v.args[0], ast.Constant)
                  and isinstance(v.args[0].value, (str, bytes))):
                out[name] = ('re', v.args[0].value, st.lineno)
            elif (isinstance(v, ast.Dict) and v.keys and all(isinstance(k, ast.Constant) and isinstance(k.value, str) for k in v.keys)
                  and all(isinstance(x, ast.Constant) and isinstance(x.value, str) for x in v.values)
                  and len({k.value for k in v.keys}) == len(v.keys)):
                out[name] = ('strdict', [(k.value, x.value) for k, x in zip(v.keys, v.values)], st.lineno)
            else:
                out[name] = ('other', None, st.lineno)
    return out

def imports_of(tree):
    """(explicit: name -> module, star: [module]) of a module's `from M import ...` statements."""
    explicit, star = {}, []
    for st in tree.body:
        if isinstance(st, ast.ImportFrom):
            mod = ('.' * st.level) + (st.module or '')
            for a in st.names:
                if a.name == '*': star.append(mod)
                else: explicit[a.asname or a.name] = (mod, a.name)
    return explicit, star


# ----------------------------------------------------------------------------- Gen_Const
CONST_FILES = [  # key, relative path, required names with required kinds
    ('session', 'ncclient/transport/session.py', {'MSG_DELIM': 'bytes', 'END_DELIM': 'bytes', 'TICK': 'float'}),
    ('parser', 'ncclient/transport/parser.py', {'MSG_DELIM': 'str', 'END_DELIM': 'str', 'BUF_SIZE': 'int', 'TICK': 'float', 'RE_NC11_DELIM': 're'}),
    ('ssh', 'ncclient/transport/ssh.py', {'BUF_SIZE': 'int'}),
    ('tls', 'ncclient/transport/tls.py', {'BUF_SIZE': 'int'}),
    ('unix', 'ncclient/transport/unixSocket.py', {'BUF_SIZE': 'int'}),
    ('xml', 'ncclient/xml_.py', {'BASE_NS_1_0': 'str', 'NETCONF_NOTIFICATION_NS': 'str', 'NETCONF_MONITORING_NS': 'str',
                                  'NETCONF_WITH_DEFAULTS_NS': 'str', 'XPATH_NAMESPACES': 'strdict'}),
]

CONST_DOC = '''(* Gen/Gen_Const.v  GENERATED by tools/translate.py from the source tree under test; do not edit.
   Regenerated on every ./check run; git-ignored.  Imports only NC.Model.Base.

   Layout.  For every module-level assignment  NAME = <literal>  (NAME in upper case) of
     session = ncclient/transport/session.py     parser = ncclient/transport/parser.py
     ssh     = ncclient/transport/ssh.py         tls    = ncclient/transport/tls.py
     unix    = ncclient/transport/unixSocket.py  xml    = ncclient/xml_.py
   one definition  <key>_<NAME> :
     str / bytes literal    -> bytes   (UTF-8 octets of a str, the octets of a bytes literal)
     int literal            -> N       (negative ints are not emitted)
     bool literal           -> bool
     float literal          -> <key>_<NAME>_text : bytes  (Python repr of the float) and
                               <key>_<NAME>_us : N       (the value in microseconds, when exact)
     re.compile(<literal>)  -> <key>_<NAME> : bytes       (the pattern text)
     {"k": "v", ...}        -> <key>_<NAME> : list (bytes * bytes)   (non-empty dict of str literals,
                               source order; e.g. xml_XPATH_NAMESPACES)
   plus one table per module  <key>_str_consts : list (bytes * bytes)  (name, value) of all
   str/bytes/re constants in source order, and  <key>_int_consts : list (bytes * N).
   Names that must exist with the stated kind (else the translator fails):
     session: MSG_DELIM END_DELIM (bytes) TICK (float);  parser: MSG_DELIM END_DELIM (str)
     BUF_SIZE (int) TICK (float) RE_NC11_DELIM (re);  ssh/tls/unix: BUF_SIZE (int);
     xml: BASE_NS_1_0 NETCONF_NOTIFICATION_NS NETCONF_MONITORING_NS NETCONF_WITH_DEFAULTS_NS (str),
     XPATH_NAMESPACES (dict of str).
   Right-hand sides that are not literals (e.g. MSG_DELIM_LEN = len(MSG_DELIM)) are not emitted. *)
'''

def gen_const(repo):
    out = [CONST_DOC, 'From NC Require Import Model.Base.\n']
    xml_consts = {}
    for key, rel, required in CONST_FILES:
        path = os.path.join(repo, rel)
        if not os.path.exists(path):
            raise TranslateError(path, 0, 'source file not found')
        consts = module_consts(path, parse(path))
        for name, kind in required.items():
            if name not in consts:
                raise TranslateError(path, 0, 'required constant %s not found as a module-level assignment' % name)
            if consts[name][0] != kind:
                raise TranslateError(path, consts[name][2], 'constant %s: expected a %s literal, found %s' % (name, kind, consts[name][0]))
        out.append('(* ---- %s : %s *)' % (key, rel))
        strs, ints = [], []
        for name, (kind, val, line) in consts.items():
            ident = '%s_%s' % (key, name)
            if kind in ('str', 'bytes', 're'):
                out.append('Definition %s : bytes := %s.  (* %s *)' % (ident, cq_bytes(val), comment_text(to_bytes(val))))
                strs.append((name, val))
                if key == 'xml' and kind == 'str': xml_consts[name] = val
            elif kind == 'strdict':
                out.append('Definition %s : list (bytes * bytes) :=\n  %s.' % (ident, cq_pairs(val)))
            elif kind == 'bool':
                out.append('Definition %s : bool := %s.' % (ident, cq_bool(val)))
            elif kind == 'int':
                if val >= 0:
                    out.append('Definition %s : N := %d%%N.' % (ident, val)); ints.append((name, val))
            elif kind == 'float':
                out.append('Definition %s_text : bytes := %s.  (* %s *)' % (ident, cq_bytes(repr(val)), comment_text(repr(val))))
                us = round(val * 1e6)
                if val >= 0 and abs(us - val * 1e6) < 1e-6:
                    out.append('Definition %s_us : N := %d%%N.' % (ident, us))
        out.append('Definition %s_str_consts : list (bytes * bytes) :=\n  %s.' % (key, cq_list(
            ['(%s, %s_%s)' % (cq_bytes(n), key, n) for n, _ in strs], '(bytes * bytes)')))
        out.append('Definition %s_int_consts : list (bytes * N) :=\n  %s.\n' % (key, cq_list(
            ['(%s, %s_%s)' % (cq_bytes(n), key, n) for n, _ in ints], '(bytes * N)')))
    return '\n'.join(out) + '\n', xml_consts


# ----------------------------------------------------------------------------- Gen_Ops
OPS_DOC = '''(* Gen/Gen_Ops.v  GENERATED by tools/translate.py from the source tree under test; do not edit.
   Regenerated on every ./check run; git-ignored.  Imports only NC.Model.Base.

   Layout.
   OPERATIONS : list (bytes * bytes)
       the dict literal OPERATIONS of ncclient/manager.py in source order:
       (manager method name, class name)   e.g. ("get_config", "GetConfig").
   OPERATIONS_modules : list (bytes * bytes)
       (manager method name, dotted module that defines the class), resolved through the
       imports of ncclient/operations/__init__.py.
   rpc_classes : list rpc_class
       every class deriving (transitively) from operations/rpc.py:RPC in
       ncclient/operations/*.py and ncclient/operations/third_party/*/rpc.py, RPC itself first,
       then by (module, source order):
         rc_module       dotted module name, e.g. "ncclient.operations.edit"
         rc_name         class name
         rc_base         (module, name) of its base class (RPC: ("", "object"))
         rc_depends_decl Some l when the class body assigns DEPENDS = [<str literals>], else None
         rc_depends      DEPENDS as seen through inheritance (the value attribute lookup gives)
         rc_reply_decl   Some name when the class body assigns REPLY_CLS = <Name>, else None
         rc_reply_cls    REPLY_CLS as seen through inheritance (class name)
   Lookup helpers: find_rpc module name, depends_of module name.
   fn_digests : list (bytes * bytes)
       ("<file stem>.<function>" or "<file stem>.<Class>.<method>", digest) for every top-level
       function and every method of every top-level class of the files in DIGEST_FILES of
       tools/translate.py (ncclient/manager.py, ncclient/xml_.py); digest = 16 hex digits of
       SHA-256 over the ast dump of the body (docstring and layout excluded); a second definition
       of the same name (property setter) is keyed "<name>#2".  A GenProps file pins
       with it the source text a hand-written model was made for:  fn_digest name : option bytes. *)
'''

DIGEST_FILES = ['ncclient/manager.py', 'ncclient/xml_.py']

def dotted(repo, path):
    rel = os.path.relpath(path, repo)
    return rel[:-3].replace(os.sep, '.')

def gen_ops(repo):
    opdir = os.path.join(repo, 'ncclient', 'operations')
    files = sorted(glob.glob(os.path.join(opdir, '*.py'))) + sorted(glob.glob(os.path.join(opdir, 'third_party', '*', 'rpc.py')))
    files = [f for f in files if os.path.basename(f) != '__init__.py']
    mods = {}    # dotted -> dict(path, tree, classes: name -> ClassDef (source order), explicit, star)
    for f in files:
        t = parse(f)
        ex, star = imports_of(t)
        classes = {}
        for st in t.body:
            if isinstance(st, ast.ClassDef):
                classes[st.name] = st
        mods[dotted(repo, f)] = dict(path=f, tree=t, classes=classes, explicit=ex, star=star)
    RPCMOD = 'ncclient.operations.rpc'
    if RPCMOD not in mods or 'RPC' not in mods[RPCMOD]['classes']:
        raise TranslateError(os.path.join(opdir, 'rpc.py'), 0, 'class RPC not found')

    def absmod(cur, m):
        if m.startswith('.'):
            lvl = len(m) - len(m.lstrip('.'))
            base = cur.split('.')[:-lvl]
            return '.'.join(base + ([m.lstrip('.')] if m.lstrip('.') else []))
        return m

    def resolve(cur, name, path, node):
        """(module, class) for a class name used in module `cur`, or None when it comes from a
        module outside ncclient.operations (not an RPC class by construction)."""
        m = mods[cur]
        if name in m['classes']:
            return (cur, name)
        if name in m['explicit']:
            src, orig = m['explicit'][name]
            src = absmod(cur, src)
            if src in mods and orig in mods[src]['classes']:
                return (src, orig)
            if src == 'ncclient.operations':
                # re-exported through the package: find through operations/__init__.py
                r = init_exports.get(orig)
                if r: return r
            return None
        for s in m['star']:
            s = absmod(cur, s)
            if s in mods and name in mods[s]['classes']:
                return (s, name)
        return None

    # exports of operations/__init__.py
    init_path = os.path.join(opdir, '__init__.py')
    init_tree = parse(init_path)
    iex, istar = imports_of(init_tree)
    init_exports = {}
    for nm, (src, orig) in iex.items():
        src = absmod('ncclient.operations.__init__', src) if src.startswith('.') else src
        if src in mods and orig in mods[src]['classes']:
            init_exports[nm] = (src, orig)

    info = {}   # (mod, name) -> dict or None (not an RPC class)
    def classify(key, stack=()):
        if key in info: return info[key]
        if key in stack:
            raise TranslateError(mods[key[0]]['path'], mods[key[0]]['classes'][key[1]], 'cyclic class hierarchy')
        mod, name = key
        cd = mods[mod]['classes'][name]
        path = mods[mod]['path']
        decl_dep = decl_rep = None
        for st in cd.body:
            if isinstance(st, ast.Assign) and len(st.targets) == 1 and isinstance(st.targets[0], ast.Name):
                if st.targets[0].id == 'DEPENDS':
                    if not (isinstance(st.value, ast.List) and all(isinstance(e, ast.Constant) and isinstance(e.value, str) for e in st.value.elts)):
                        raise TranslateError(path, st, 'DEPENDS of %s is not a list of string literals' % name)
                    decl_dep = [e.value for e in st.value.elts]
                if st.targets[0].id == 'REPLY_CLS':
                    if not isinstance(st.value, ast.Name):
                        raise TranslateError(path, st, 'REPLY_CLS of %s is not a plain class name' % name)
                    decl_rep = st.value.id
        if key == (RPCMOD, 'RPC'):
            if cd.bases:
                raise TranslateError(path, cd, 'RPC is expected to have no base class')
            if decl_dep is None or decl_rep is None:
                raise TranslateError(path, cd, 'RPC must declare DEPENDS and REPLY_CLS')
            info[key] = dict(base=('', 'object'), decl_dep=decl_dep, dep=decl_dep, decl_rep=decl_rep, rep=decl_rep, line=cd.lineno)
            return info[key]
        if len(cd.bases) == 0:
            info[key] = None; return None
        rpc_bases = []
        for b in cd.bases:
            if not isinstance(b, ast.Name):
                # e.g. module.Class: resolve only the simple form we understand
                raise TranslateError(path, cd, 'base class expression of %s is not a plain name' % name)
            r = resolve(mod, b.id, path, cd)
            if r is not None and classify(r, stack + (key,)) is not None:
                rpc_bases.append(r)
        if not rpc_bases:
            info[key] = None; return None
        if len(cd.bases) != 1:
            raise TranslateError(path, cd, 'RPC subclass %s uses multiple inheritance (not understood)' % name)
        b = info[rpc_bases[0]]
        info[key] = dict(base=rpc_bases[0], decl_dep=decl_dep, dep=decl_dep if decl_dep is not None else b['dep'],
                         decl_rep=decl_rep, rep=decl_rep if decl_rep is not None else b['rep'], line=cd.lineno)
        return info[key]

    order = [(RPCMOD, 'RPC')]
    for mod in sorted(mods):
        for name in mods[mod]['classes']:
            k = (mod, name)
            if classify(k) is not None and k not in order:
                order.append(k)

    # OPERATIONS of manager.py
    mpath = os.path.join(repo, 'ncclient', 'manager.py')
    mtree = parse(mpath)
    ops = None
    for st in mtree.body:
        if isinstance(st, ast.Assign) and len(st.targets) == 1 and isinstance(st.targets[0], ast.Name) and st.targets[0].id == 'OPERATIONS':
            if not isinstance(st.value, ast.Dict):
                raise TranslateError(mpath, st, 'OPERATIONS is not a dict literal')
            ops = []
            for k, v in zip(st.value.keys, st.value.values):
                if not (isinstance(k, ast.Constant) and isinstance(k.value, str)):
                    raise TranslateError(mpath, k or st, 'OPERATIONS key is not a string literal')
                if isinstance(v, ast.Attribute) and isinstance(v.value, ast.Name) and v.value.id == 'operations':
                    cname = v.attr
                else:
                    raise TranslateError(mpath, v, 'OPERATIONS[%r] is not of the form operations.<Class>' % k.value)
                if cname not in init_exports:
                    raise TranslateError(mpath, v, 'operations.%s is not exported by ncclient/operations/__init__.py as a class defined in ncclient/operations' % cname)
                if info.get(init_exports[cname]) is None:
                    raise TranslateError(mpath, v, 'operations.%s is not an RPC subclass' % cname)
                if any(k.value == n for n, _, _ in ops):
                    raise TranslateError(mpath, k, 'duplicate OPERATIONS key %r' % k.value)
                ops.append((k.value, cname, init_exports[cname][0]))
    if ops is None:
        raise TranslateError(mpath, 0, 'OPERATIONS not found')
    # any later mutation of OPERATIONS at module level is not understood
    for st in mtree.body:
        for n in ast.walk(st) if not isinstance(st, (ast.FunctionDef, ast.ClassDef)) else []:
            if isinstance(n, ast.Subscript) and isinstance(n.value, ast.Name) and n.value.id == 'OPERATIONS' and isinstance(n.ctx, (ast.Store, ast.Del)):
                raise TranslateError(mpath, n, 'module-level mutation of OPERATIONS is not understood')

    out = [OPS_DOC, 'From NC Require Import Model.Base.\n']
    out.append('Definition OPERATIONS : list (bytes * bytes) :=\n  %s.\n' % cq_list(
        ['(%s, %s)  (* %s -> %s *)' % (cq_bytes(n), cq_bytes(c), comment_text(n), comment_text(c)) for n, c, m in ops], '(bytes * bytes)'))
    out.append('Definition OPERATIONS_modules : list (bytes * bytes) :=\n  %s.\n' % cq_pairs([(n, m) for n, c, m in ops]))
    out.append('Record rpc_class : Type := mk_rpc_class {\n  rc_module : bytes;\n  rc_name : bytes;\n  rc_base : bytes * bytes;\n'
               '  rc_depends_decl : option (list bytes);\n  rc_depends : list bytes;\n  rc_reply_decl : option bytes;\n  rc_reply_cls : bytes }.\n')
    names = []
    for i, k in enumerate(order):
        d = info[k]
        ident = 'rpc_%d' % i
        names.append(ident)
        out.append('(* %s : %s  (line %d) DEPENDS = %s *)' % (comment_text(k[0]), comment_text(k[1]), d['line'], comment_text(repr(d['dep']))))
        out.append('Definition %s : rpc_class := mk_rpc_class\n  %s\n  %s\n  (%s, %s)\n  %s\n  %s\n  %s\n  %s.\n' % (
            ident, cq_bytes_c(k[0]), cq_bytes_c(k[1]), cq_bytes(d['base'][0]), cq_bytes_c(d['base'][1]),
            cq_opt(None if d['decl_dep'] is None else cq_bytes_list(d['decl_dep']), '(list bytes)'),
            cq_bytes_list(d['dep']),
            cq_opt(None if d['decl_rep'] is None else cq_bytes(d['decl_rep']), 'bytes'),
            cq_bytes(d['rep'])))
    out.append('Definition rpc_classes : list rpc_class :=\n  [%s].\n' % '; '.join(names))
    out.append('Definition find_rpc (m n : bytes) : option rpc_class :=\n'
               '  find (fun c => beq (rc_module c) m && beq (rc_name c) n) rpc_classes.\n')
    out.append('Definition depends_of (m n : bytes) : option (list bytes) :=\n'
               '  match find_rpc m n with Some c => Some (rc_depends c) | None => None end.\n')
    digs = []
    for rel in DIGEST_FILES:
        path = os.path.join(repo, rel)
        stem = os.path.basename(rel)[:-3]
        for st in parse(path).body:
            if isinstance(st, ast.FunctionDef):
                digs.append(('%s.%s' % (stem, st.name), digest(st)))
            elif isinstance(st, ast.ClassDef):
                for m in st.body:
                    if isinstance(m, ast.FunctionDef):
                        digs.append(('%s.%s.%s' % (stem, st.name, m.name), digest(m)))
    seen = {}
    for i, (k, d) in enumerate(digs):          # property getter/setter pairs share a name: x, x#2
        seen[k] = seen.get(k, 0) + 1
        if seen[k] > 1: digs[i] = ('%s#%d' % (k, seen[k]), d)
    out.append('Definition fn_digests : list (bytes * bytes) :=\n  %s.\n' % cq_pairs(digs))
    out.append('Definition fn_digest (name : bytes) : option bytes := dict_get name fn_digests.\n')
    known = {k: info[k] for k in order}
    return '\n'.join(out), known, mods


# ----------------------------------------------------------------------------- Gen_Devices
DEV_DOC = '''(* Gen/Gen_Devices.v  GENERATED by tools/translate.py from the source tree under test; do not edit.
   Regenerated on every ./check run; git-ignored.  Imports only NC.Model.Base.

   Layout.
   advertised : list (bytes * bytes)
       the dict literal supported_devices_cfg of ncclient/devices/__init__.py in source order:
       (device name, label).  get_supported_devices() returns its keys.
   mdh_class_fmt, mdh_module_fmt : bytes ; mdh_capitalize : bool ; mdh_default_name : bytes
       the two %-format strings of manager.make_device_handler
         class_name = "<mdh_class_fmt>" % device_name.capitalize()      (mdh_capitalize = true)
         devices_module_name = "<mdh_module_fmt>" % device_name
       and the default of device_params.get("name", <mdh_default_name>).
   getter A := Inherit | Literal a | Computed digest
       how a handler class defines a getter method:
         Inherit   the class does not define it (or only returns super().<same getter>() unchanged)
         Literal a the body is `return <literal>` (or the list/dict is built from literals by
                   x = [] / x.append(<lit>) / x[<lit>] = <Name> statements and returned)
         Computed d anything else; d = 16 hex digits of SHA-256 over the ast dump of the body
                   (docstring excluded).  These are modelled by hand in Model/Profiles.v and the
                   digest pins the source text the hand model was written for.
   handler records, one per class named *DeviceHandler found in ncclient/devices/<module>.py
   (sorted by module name; DefaultDeviceHandler is `h_default`):
     h_module            file stem, e.g. "nexus"
     h_class             class name, e.g. "NexusDeviceHandler"
     h_base              base class name (DefaultDeviceHandler: "object")
     h_defines           names of all methods defined in the class body, source order
     h_method_digests    (method name, digest) for every method of h_defines: 16 hex digits of
                         SHA-256 over the ast dump of the body (docstring and layout excluded);
                         lets a GenProps file pin the source text a hand model was written for
                         (method_digest h name : option bytes)
     h_exempt_errors     Some l when the class body assigns _EXEMPT_ERRORS = [<str literals>]
     h_base_capabilities Some l when the class body assigns _BASE_CAPABILITIES = [<str literals>]
     h_init_passthrough  true when __init__ is absent or only calls super().__init__(device_params,
                         ignore_errors) (optionally after warn(...) calls / followed by assignments
                         to self attributes whose name starts with "_" )
     h_capabilities      getter (list bytes)                    get_capabilities
     h_ns_dict           getter (list (option bytes * bytes))   get_xml_base_namespace_dict
                         (key None of the Python dict = Coq None; Names resolved through xml_.py)
     h_extra_prefix      getter (list (bytes * list (option bytes * bytes)))  get_xml_extra_prefix_kwargs
     h_qualify           getter bool                            perform_qualify_check
     h_subsystems        getter (list bytes)                    get_ssh_subsystem_names
     h_vendor_ops        getter (list (bytes * bytes))          add_additional_operations: (method name, class name)
     h_vendor_ops_modules list (bytes * bytes)                  (method name, dotted module defining the class)
   handlers : list handler ;  find_handler module : option handler.
   BASE_CAPABILITIES, DEFAULT_EXEMPT_ERRORS: the two class-level lists of DefaultDeviceHandler. *)
'''

GETTERS = [('get_capabilities', 'strlist'), ('get_xml_base_namespace_dict', 'nsdict'),
           ('get_xml_extra_prefix_kwargs', 'kwdict'), ('perform_qualify_check', 'bool'),
           ('get_ssh_subsystem_names', 'strlist'), ('add_additional_operations', 'opdict')]

def gen_devices(repo, xml_consts, rpc_known, op_mods):
    ddir = os.path.join(repo, 'ncclient', 'devices')
    ipath = os.path.join(ddir, '__init__.py')
    itree = parse(ipath)
    adv = None
    for st in itree.body:
        if isinstance(st, ast.Assign) and len(st.targets) == 1 and isinstance(st.targets[0], ast.Name) and st.targets[0].id == 'supported_devices_cfg':
            if not isinstance(st.value, ast.Dict):
                raise TranslateError(ipath, st, 'supported_devices_cfg is not a dict literal')
            adv = []
            for k, v in zip(st.value.keys, st.value.values):
                if not (isinstance(k, ast.Constant) and isinstance(k.value, str) and isinstance(v, ast.Constant) and isinstance(v.value, str)):
                    raise TranslateError(ipath, k or st, 'supported_devices_cfg entry is not "name": "label"')
                if any(k.value == n for n, _ in adv):
                    raise TranslateError(ipath, k, 'duplicate device name %r' % k.value)
                adv.append((k.value, v.value))
    if adv is None:
        raise TranslateError(ipath, 0, 'supported_devices_cfg not found')
    # get_supported_devices must return the keys of that table
    fn = [st for st in itree.body if isinstance(st, ast.FunctionDef) and st.name == 'get_supported_devices']
    if len(fn) != 1:
        raise TranslateError(ipath, 0, 'get_supported_devices not found')
    want = "Return(Call(Name('tuple', Load()), [Call(Attribute(Name('supported_devices_cfg', Load()), 'keys', Load()), [], [])], []))"
    body = strip_doc(fn[0].body)
    if len(body) != 1 or ast.dump(body[0], annotate_fields=False) != want:
        raise TranslateError(ipath, fn[0], 'get_supported_devices is not `return tuple(supported_devices_cfg.keys())`')

    # make_device_handler format strings
    mpath = os.path.join(repo, 'ncclient', 'manager.py')
    mtree = parse(mpath)
    mdh = [st for st in mtree.body if isinstance(st, ast.FunctionDef) and st.name == 'make_device_handler']
    if len(mdh) != 1:
        raise TranslateError(mpath, 0, 'make_device_handler not found')
    cls_fmt = mod_fmt = default_name = None; cap = None
    for st in ast.walk(mdh[0]):
        if isinstance(st, ast.Assign) and len(st.targets) == 1 and isinstance(st.targets[0], ast.Name):
            t, v = st.targets[0].id, st.value
            if t in ('class_name', 'devices_module_name'):
                if not (isinstance(v, ast.BinOp) and isinstance(v.op, ast.Mod) and isinstance(v.left, ast.Constant) and isinstance(v.left.value, str)
                        and v.left.value.count('%s') == 1 and v.left.value.count('%') == 1):
                    raise TranslateError(mpath, st, '%s is not "<text with one %%s>" %% <expr>' % t)
                r = v.right
                if isinstance(r, ast.Name) and r.id == 'device_name':
                    c = False
                elif (isinstance(r, ast.Call) and isinstance(r.func, ast.Attribute) and r.func.attr == 'capitalize' and not r.args
                      and isinstance(r.func.value, ast.Name) and r.func.value.id == 'device_name'):
                    c = True
                else:
                    raise TranslateError(mpath, st, 'argument of the %s format is neither device_name nor device_name.capitalize()' % t)
                if t == 'class_name': cls_fmt, cap = v.left.value, c
                else:
                    if c: raise TranslateError(mpath, st, 'module name built from a capitalised device name is not understood')
                    mod_fmt = v.left.value
            if t == 'device_name':
                want = ("Call(Attribute(Name('device_params', Load()), 'get', Load()), [Constant('name'), Constant(")
                d = ast.dump(v, annotate_fields=False)
                if not (d.startswith(want) and isinstance(v.args[1], ast.Constant) and isinstance(v.args[1].value, str)):
                    raise TranslateError(mpath, st, 'device_name is not device_params.get("name", "<default>")')
                default_name = v.args[1].value
    if None in (cls_fmt, mod_fmt, default_name):
        raise TranslateError(mpath, mdh[0], 'make_device_handler: class_name / devices_module_name / device_name assignments not found')

    # handler classes
    handlers = []
    for f in sorted(glob.glob(os.path.join(ddir, '*.py'))):
        stem = os.path.basename(f)[:-3]
        if stem == '__init__': continue
        tree = parse(f)
        ex, star = imports_of(tree)
        for cd in tree.body:
            if not (isinstance(cd, ast.ClassDef) and cd.name.endswith('DeviceHandler')):
                continue
            if stem == 'default':
                if cd.bases: raise TranslateError(f, cd, 'DefaultDeviceHandler is expected to have no base class')
                base = 'object'
            else:
                if len(cd.bases) != 1 or not isinstance(cd.bases[0], ast.Name):
                    raise TranslateError(f, cd, 'handler class %s: exactly one plain base class expected' % cd.name)
                base = cd.bases[0].id
            h = dict(module=stem, cls=cd.name, base=base, defines=[], exempt=None, basecaps=None, init_pass=True,
                     getters={g: ('inherit', None) for g, _ in GETTERS}, ops_modules=[], line=cd.lineno)
            for st in cd.body:
                if isinstance(st, ast.FunctionDef):
                    h['defines'].append(st.name)
                elif isinstance(st, ast.Assign) and len(st.targets) == 1 and isinstance(st.targets[0], ast.Name):
                    nm = st.targets[0].id
                    if nm in ('_EXEMPT_ERRORS', '_BASE_CAPABILITIES'):
                        if not (isinstance(st.value, ast.List) and all(isinstance(e, ast.Constant) and isinstance(e.value, str) for e in st.value.elts)):
                            raise TranslateError(f, st, '%s of %s is not a list of string literals' % (nm, cd.name))
                        h['exempt' if nm == '_EXEMPT_ERRORS' else 'basecaps'] = [e.value for e in st.value.elts]
                    else:
                        raise TranslateError(f, st, 'class-level assignment %s in %s is not understood' % (nm, cd.name))
                elif isinstance(st, ast.Expr) and isinstance(st.value, ast.Constant):
                    pass      # docstring / stray string
                elif isinstance(st, ast.Pass):
                    pass
                else:
                    raise TranslateError(f, st, 'statement in the body of %s is not understood' % cd.name)
            fns = {st.name: st for st in cd.body if isinstance(st, ast.FunctionDef)}
            h['digests'] = [(st.name, digest(st)) for st in cd.body if isinstance(st, ast.FunctionDef)]
            if len(fns) != len(h['defines']):
                raise TranslateError(f, cd, 'method defined twice in %s' % cd.name)
            if '__init__' in fns and stem != 'default':
                h['init_pass'] = init_passthrough(fns['__init__'], cd.name)
            for g, kind in GETTERS:
                if g in fns:
                    h['getters'][g] = classify_getter(f, fns[g], kind, cd.name, xml_consts)
            # resolve vendor operation classes
            kind, val = h['getters']['add_additional_operations']
            if kind == 'literal':
                for opname, cname in val:
                    r = resolve_op_class(f, fns['add_additional_operations'], cname, ex, star, op_mods, rpc_known)
                    h['ops_modules'].append((opname, r))
            handlers.append(h)
    dflt = [h for h in handlers if h['module'] == 'default' and h['cls'] == 'DefaultDeviceHandler']
    if len(dflt) != 1:
        raise TranslateError(os.path.join(ddir, 'default.py'), 0, 'DefaultDeviceHandler not found')
    d = dflt[0]
    if d['exempt'] is None or d['basecaps'] is None:
        raise TranslateError(os.path.join(ddir, 'default.py'), d['line'], 'DefaultDeviceHandler must declare _EXEMPT_ERRORS and _BASE_CAPABILITIES')
    for g, _ in GETTERS:
        if d['getters'][g][0] == 'inherit':
            raise TranslateError(os.path.join(ddir, 'default.py'), d['line'], 'DefaultDeviceHandler does not define %s' % g)

    out = [DEV_DOC, 'From NC Require Import Model.Base.\n']
    out.append('Definition advertised : list (bytes * bytes) :=\n  %s.\n' % cq_list(
        ['(%s, %s)' % (cq_bytes(n), cq_bytes(l)) for n, l in adv], '(bytes * bytes)'))
    out.append('Definition advertised_names : list bytes := map fst advertised.  (* %s *)\n' % comment_text(' '.join(n for n, _ in adv)))
    out.append('Definition mdh_class_fmt : bytes := %s.  (* %s *)' % (cq_bytes(cls_fmt), comment_text(cls_fmt)))
    out.append('Definition mdh_module_fmt : bytes := %s.  (* %s *)' % (cq_bytes(mod_fmt), comment_text(mod_fmt)))
    out.append('Definition mdh_capitalize : bool := %s.' % cq_bool(cap))
    out.append('Definition mdh_default_name : bytes := %s.  (* %s *)\n' % (cq_bytes(default_name), comment_text(default_name)))
    out.append('Inductive getter (A : Type) : Type :=\n| Inherit : getter A\n| Literal : A -> getter A\n| Computed : bytes -> getter A.\n'
               'Arguments Inherit {A}.\nArguments Literal {A} _.\nArguments Computed {A} _.\n')
    out.append('Definition nsdict := list (option bytes * bytes).\n')
    out.append('Record handler : Type := mk_handler {\n  h_module : bytes;\n  h_class : bytes;\n  h_base : bytes;\n  h_defines : list bytes;\n  h_method_digests : list (bytes * bytes);\n'
               '  h_exempt_errors : option (list bytes);\n  h_base_capabilities : option (list bytes);\n  h_init_passthrough : bool;\n'
               '  h_capabilities : getter (list bytes);\n  h_ns_dict : getter nsdict;\n  h_extra_prefix : getter (list (bytes * nsdict));\n'
               '  h_qualify : getter bool;\n  h_subsystems : getter (list bytes);\n  h_vendor_ops : getter (list (bytes * bytes));\n'
               '  h_vendor_ops_modules : list (bytes * bytes) }.\n')

    def cq_nsdict(d):
        return cq_list(['(%s, %s) (* %s -> %s *)' % (cq_opt(None if k is None else cq_bytes(k), 'bytes'), cq_bytes(v), comment_text(str(k)), comment_text(v)) for k, v in d], '(option bytes * bytes)')
    def cq_getter(g, ty, pr):
        kind, val = g
        if kind == 'inherit': return '(Inherit : getter %s)' % ty
        if kind == 'computed': return '(Computed %s (* %s *) : getter %s)' % (cq_bytes(val), val, ty)
        return '(Literal %s : getter %s)' % (pr(val), ty)
    names = []
    for h in handlers:
        ident = 'h_' + h['module'] if h['cls'].lower() == h['module'] + 'devicehandler' else 'h_%s_%s' % (h['module'], h['cls'])
        names.append(ident)
        G = h['getters']
        out.append('(* ncclient/devices/%s.py : %s (line %d) *)' % (comment_text(h['module']), comment_text(h['cls']), h['line']))
        out.append('Definition %s : handler := mk_handler\n  %s\n  %s\n  %s\n  %s\n  %s\n  %s\n  %s\n  %s\n  %s\n  %s\n  %s\n  %s\n  %s\n  %s\n  %s.\n' % (
            ident, cq_bytes_c(h['module']), cq_bytes_c(h['cls']), cq_bytes_c(h['base']), cq_bytes_list(h['defines']),
            cq_pairs(h['digests']),
            cq_opt(None if h['exempt'] is None else cq_bytes_list(h['exempt']), '(list bytes)'),
            cq_opt(None if h['basecaps'] is None else cq_bytes_list(h['basecaps']), '(list bytes)'),
            cq_bool(h['init_pass']),
            cq_getter(G['get_capabilities'], '(list bytes)', cq_bytes_list),
            cq_getter(G['get_xml_base_namespace_dict'], 'nsdict', cq_nsdict),
            cq_getter(G['get_xml_extra_prefix_kwargs'], '(list (bytes * nsdict))',
                      lambda kw: cq_list(['(%s, %s)' % (cq_bytes(k), cq_nsdict(v)) for k, v in kw], '(bytes * nsdict)')),
            cq_getter(G['perform_qualify_check'], 'bool', cq_bool),
            cq_getter(G['get_ssh_subsystem_names'], '(list bytes)', cq_bytes_list),
            cq_getter(G['add_additional_operations'], '(list (bytes * bytes))', cq_pairs),
            cq_pairs(h['ops_modules'])))
    out.append('Definition handlers : list handler :=\n  [%s].\n' % '; '.join(names))
    out.append('Definition find_handler (m : bytes) : option handler :=\n  find (fun h => beq (h_module h) m) handlers.\n')
    out.append('Definition method_digest (h : handler) (name : bytes) : option bytes := dict_get name (h_method_digests h).\n')
    out.append('Definition BASE_CAPABILITIES : list bytes :=\n  match h_base_capabilities h_default with Some l => l | None => [] end.\n')
    out.append('Definition DEFAULT_EXEMPT_ERRORS : list bytes :=\n  match h_exempt_errors h_default with Some l => l | None => [] end.\n')
    return '\n'.join(out)


def init_passthrough(fn, cname):
    """__init__(self, device_params, ignore_errors=None) that only forwards to super().__init__."""
    a = fn.args
    if [x.arg for x in a.args] != ['self', 'device_params', 'ignore_errors'] or a.vararg or a.kwarg or a.kwonlyargs:
        return False
    if len(a.defaults) not in (1, 2) or not all(isinstance(d, ast.Constant) and d.value is None for d in a.defaults):
        return False
    seen_super = False
    for st in strip_doc(fn.body):
        if isinstance(st, ast.Expr) and isinstance(st.value, ast.Call):
            c = st.value
            if isinstance(c.func, ast.Name) and c.func.id == 'warn':
                continue
            f = c.func
            if (isinstance(f, ast.Attribute) and f.attr == '__init__' and isinstance(f.value, ast.Call)
                    and isinstance(f.value.func, ast.Name) and f.value.func.id == 'super'
                    and [ast.dump(x, annotate_fields=False) for x in c.args] == ["Name('device_params', Load())", "Name('ignore_errors', Load())"]
                    and not c.keywords and not seen_super):
                seen_super = True
                continue
            return False
        if isinstance(st, ast.Assign) and seen_super and len(st.targets) == 1 and isinstance(st.targets[0], ast.Attribute) \
                and isinstance(st.targets[0].value, ast.Name) and st.targets[0].value.id == 'self' and st.targets[0].attr.startswith('_'):
            continue
        return False
    return seen_super


def classify_getter(path, fn, kind, cname, xml_consts):
    a = fn.args
    if [x.arg for x in a.args] != ['self'] or a.vararg or a.kwarg or a.kwonlyargs:
        raise TranslateError(path, fn, '%s.%s: getter with arguments other than self is not understood' % (cname, fn.name))
    body = strip_doc(fn.body)

    def lit_str(e):
        if isinstance(e, ast.Constant) and isinstance(e.value, str): return e.value
        if isinstance(e, ast.Name) and e.id in xml_consts: return xml_consts[e.id]
        return None
    def lit_nsdict(e):
        if not isinstance(e, ast.Dict): return None
        out = []
        for k, v in zip(e.keys, e.values):
            if isinstance(k, ast.Constant) and (k.value is None or isinstance(k.value, str)): kk = k.value
            else: return None
            vv = lit_str(v)
            if vv is None: return None
            if any(kk == k0 for k0, _ in out): return None
            out.append((kk, vv))
        return out
    def lit_value(e):
        if kind == 'strlist':
            if isinstance(e, ast.List):
                vs = [lit_str(x) for x in e.elts]
                return None if None in vs else vs
            return None
        if kind == 'nsdict':
            return lit_nsdict(e)
        if kind == 'kwdict':
            if isinstance(e, ast.Dict):
                out = []
                for k, v in zip(e.keys, e.values):
                    if not (isinstance(k, ast.Constant) and isinstance(k.value, str)): return None
                    d = lit_nsdict(v)
                    if d is None: return None
                    out.append((k.value, d))
                return out
            return None
        if kind == 'bool':
            return e.value if isinstance(e, ast.Constant) and isinstance(e.value, bool) else None
        if kind == 'opdict':
            if isinstance(e, ast.Dict):
                out = []
                for k, v in zip(e.keys, e.values):
                    if not (isinstance(k, ast.Constant) and isinstance(k.value, str) and isinstance(v, ast.Name)): return None
                    if any(k.value == k0 for k0, _ in out): return None
                    out.append((k.value, v.id))
                return out
            return None
        raise AssertionError(kind)

    # 1. return <literal>
    if len(body) == 1 and isinstance(body[0], ast.Return) and body[0].value is not None:
        v = lit_value(body[0].value)
        if v is not None:
            return ('literal', v)
    # 2. x = <literal>; x.append(<lit>) / x[<lit>] = Name ...; return x
    if (len(body) >= 2 and isinstance(body[0], ast.Assign) and len(body[0].targets) == 1 and isinstance(body[0].targets[0], ast.Name)
            and isinstance(body[-1], ast.Return) and isinstance(body[-1].value, ast.Name) and body[-1].value.id == body[0].targets[0].id):
        x = body[0].targets[0].id
        acc = lit_value(body[0].value)
        ok = acc is not None
        if ok:
            acc = list(acc)
            for st in body[1:-1]:
                if (kind == 'strlist' and isinstance(st, ast.Expr) and isinstance(st.value, ast.Call) and isinstance(st.value.func, ast.Attribute)
                        and st.value.func.attr == 'append' and isinstance(st.value.func.value, ast.Name) and st.value.func.value.id == x
                        and len(st.value.args) == 1 and not st.value.keywords and lit_str(st.value.args[0]) is not None):
                    acc.append(lit_str(st.value.args[0]))
                elif (kind == 'opdict' and isinstance(st, ast.Assign) and len(st.targets) == 1 and isinstance(st.targets[0], ast.Subscript)
                        and isinstance(st.targets[0].value, ast.Name) and st.targets[0].value.id == x
                        and isinstance(st.targets[0].slice, ast.Constant) and isinstance(st.targets[0].slice.value, str)
                        and isinstance(st.value, ast.Name)):
                    k = st.targets[0].slice.value
                    if any(k == k0 for k0, _ in acc):
                        acc = [(k0, st.value.id if k0 == k else v0) for k0, v0 in acc]
                    else:
                        acc.append((k, st.value.id))
                else:
                    ok = False; break
        if ok:
            return ('literal', acc)
        # 3. x = super(C, self).<same>(); return x
        v = body[0].value
        if (len(body) == 2 and isinstance(v, ast.Call) and not v.args and not v.keywords and isinstance(v.func, ast.Attribute)
                and v.func.attr == fn.name and isinstance(v.func.value, ast.Call) and isinstance(v.func.value.func, ast.Name)
                and v.func.value.func.id == 'super'):
            return ('inherit', None)
    # 4. computed
    return ('computed', digest(fn))


def resolve_op_class(path, fn, cname, explicit, star, op_mods, rpc_known):
    cands = []
    if cname in explicit:
        m, orig = explicit[cname]
        cands.append((m, orig))
    for s in star:
        if s in op_mods and cname in op_mods[s]['classes']:
            cands.append((s, cname))
    for m, orig in cands:
        if (m, orig) in rpc_known:
            return m
    raise TranslateError(path, fn, 'vendor operation class %s is not an RPC subclass found through the imports of this module' % cname)


import re as _re
from vlib.build import FORBIDDEN as FORBIDDEN_WORDS
def strip_coq_comments(text):
    return _re.sub(r'\(\*.*?\*\)', lambda m: '\n' * m.group(0).count('\n'), text, flags=_re.S)

# ----------------------------------------------------------------------------- Gen_Lits
LITS_DOC = """(* Gen/Gen_Lits.v  GENERATED by tools/translate.py from the source tree under test; do not edit.
   Regenerated on every ./check run; git-ignored.  Imports only NC.Model.Base.

   The literal harvest: for every function of every file in LIT_FILES of tools/translate.py (all of
   ncclient/**/*.py except _version.py) the constants that occur in it, in SOURCE ORDER (line, column):
     key   "<path below ncclient/ without .py, / as .>.<function>"  or  "....<Class>.<method>"
           module-level  NAME = lambda ...  counts as function NAME;
           "....<Class>.__class__"  = the statements of a class body that are not methods or nested classes;
           "<module>.__module__"    = the module-level statements that are not functions, classes or imports;
           a second definition of the same name in the same scope (property setter) is keyed "<name>#2".
     L_<id> : list bytes   the str / bytes constants (UTF-8 octets of a str): default values of the
                           parameters first, then the body.  Docstrings and any other statement
                           that consists of a bare string are NOT included, nor are the arguments of
                           logger.<level>(...) / <x>.logger.<level>(...) calls (text of log records).
                           Parts of f-strings are.  The keyword NAMES of calls to the element constructors
                           (new_ele, new_ele_ns, new_ele_nsmap, sub_ele, sub_ele_ns, Element, SubElement), other
                           than attrs / nsmap / ns / parser / attrib, are harvested as strings at the position of the
                           keyword: they are the names of the XML attributes  (new_ele("filter", type=type)).
     I_<id> : list N       the int constants (bool excluded; a negative number  -3  appears as 3),
                           emitted only when there is at least one.
     F_<id> : list bytes   the float constants as Python repr text, only when there is at least one.
     D_<id> : list (bytes * bytes)   (parameter name, default) for the parameters of a def that have a default,
                           in signature order; a constant default is written as Python's repr (True, None, 'xml',
                           830), any other as its source text (PORT_NETCONF_DEFAULT, operations.RaiseMode.ALL);
                           only when there is at least one.
     R_<id> : list bytes   the references to named constants, as text and in source order: every maximal dotted
                           name in load position whose last component is UPPER_CASE (e.g. "operations.RaiseMode.ALL",
                           "MSG_DELIM", "PORT_NETCONF_DEFAULT"; parameter defaults included), only when there is one.
     <id> = key with every character outside [A-Za-z0-9_] replaced by _  (the translator fails when two keys collide).
   Tables:  fn_lits : list (bytes * list bytes),  fn_nums : list (bytes * list N),  fn_flts, fn_refs, fn_defaults  (key, value)
   and  fn_lits_of key : option (list bytes),  fn_nums_of key : option (list N).
   A theorem  L_<id> = [model constants ...]  in coq/GenProps ties the literals a hand-written model
   copied to the ones the function has now; a function that disappeared makes L_<id> undefined. *)
"""

def lit_files(repo):
    base = os.path.join(repo, 'ncclient')
    fs = sorted(glob.glob(os.path.join(base, '**', '*.py'), recursive=True))
    return [f for f in fs if os.path.basename(f) != '_version.py']

def modkey(repo, path):
    rel = os.path.relpath(path, os.path.join(repo, 'ncclient'))[:-3].replace(os.sep, '.')
    return rel[:-len('.__init__')] + '.__init__' if rel.endswith('.__init__') else rel

def is_bare_string(st):
    return isinstance(st, ast.Expr) and isinstance(st.value, ast.Constant) and isinstance(st.value.value, (str, bytes))

LOG_METHODS = ('debug', 'info', 'warning', 'warn', 'error', 'critical', 'exception', 'log')
def is_log_call(n):
    """logger.<level>(...) / self.logger.<level>(...) / <x>.logger.<level>(...): the text of log records is not harvested."""
    if not (isinstance(n, ast.Call) and isinstance(n.func, ast.Attribute) and n.func.attr in LOG_METHODS):
        return False
    r = n.func.value
    return (isinstance(r, ast.Name) and r.id == 'logger') or (isinstance(r, ast.Attribute) and r.attr == 'logger')

ELEMENT_CTORS = ('new_ele', 'new_ele_ns', 'new_ele_nsmap', 'sub_ele', 'sub_ele_ns', 'Element', 'SubElement')
ELEMENT_CTOR_OWN_KEYWORDS = ('attrs', 'nsmap', 'ns', 'parser', 'attrib')
def callee_name(c):
    return c.func.attr if isinstance(c.func, ast.Attribute) else c.func.id if isinstance(c.func, ast.Name) else None

def harvest(path, nodes, skip=()):
    """(strs, ints, floats) of the constants below the given ast nodes, in source order; bare string
    statements (docstrings) and the sub-trees listed in `skip` are left out."""
    skip = set(id(x) for x in skip)
    found = []
    def visit(n):
        if id(n) in skip or is_bare_string(n) or is_log_call(n):
            return
        if isinstance(n, ast.Constant):
            v = n.value
            if isinstance(v, bool) or v is None or v is Ellipsis:
                return
            if isinstance(v, (str, bytes, int, float)):
                found.append(((n.lineno, n.col_offset, len(found)), v))
            else:
                raise TranslateError(path, n, 'constant of type %s: not understood' % type(v).__name__)
            return
        if isinstance(n, ast.Call) and callee_name(n) in ELEMENT_CTORS:
            # new_ele("filter", type=type): the keyword IS the XML attribute name
            for kw in n.keywords:
                if kw.arg is not None and kw.arg not in ELEMENT_CTOR_OWN_KEYWORDS:
                    found.append(((kw.lineno, kw.col_offset, len(found)), kw.arg))
        for c in ast.iter_child_nodes(n):
            visit(c)
    for n in nodes:
        visit(n)
    found.sort(key=lambda t: t[0])
    strs = [v for _, v in found if isinstance(v, (str, bytes))]
    ints = [v for _, v in found if isinstance(v, int)]
    flts = [repr(v) for _, v in found if isinstance(v, float)]
    return strs, ints, flts

def dotted_name(n):
    if isinstance(n, ast.Name): return n.id
    if isinstance(n, ast.Attribute):
        b = dotted_name(n.value)
        return None if b is None else b + '.' + n.attr
    return None

def is_const_name(s):
    return len(s) > 1 and s == s.upper() and s[0].isalpha() and s.replace('_', '').isalnum()

def harvest_refs(nodes, skip=()):
    """The references to named constants below the given nodes, in source order: every maximal dotted name
    (a.b.C or C) in load position whose last component is written in UPPER_CASE (two characters or more), as text."""
    skip = set(id(x) for x in skip)
    found = []
    def visit(n):
        if id(n) in skip or is_bare_string(n) or is_log_call(n):
            return
        if isinstance(n, (ast.Name, ast.Attribute)) and isinstance(n.ctx, ast.Load):
            d = dotted_name(n)
            if d is not None:
                if is_const_name(d.split('.')[-1]):
                    found.append(((n.lineno, n.col_offset, len(found)), d))
                return
        for c in ast.iter_child_nodes(n):
            visit(c)
    for n in nodes:
        visit(n)
    found.sort(key=lambda t: t[0])
    return [d for _, d in found]

def fn_parts(fn):
    """The ast nodes of a def / lambda whose constants are harvested: parameter defaults, then body."""
    a = fn.args
    parts = list(a.defaults) + [d for d in a.kw_defaults if d is not None]
    if isinstance(fn, ast.Lambda):
        return parts + [fn.body]
    return parts + list(fn.body)

def defs_below(st):
    """def statements nested in a compound module-level statement (if / try), not looking inside defs or classes."""
    out = []
    def walk(n):
        for c in ast.iter_child_nodes(n):
            if isinstance(c, (ast.FunctionDef, ast.AsyncFunctionDef)):
                out.append(c)
            elif not isinstance(c, ast.ClassDef):
                walk(c)
    walk(st)
    return out

def scopes_of(path, tree, mk):
    """[(key, nodes, skip, line)] for one module, source order of the definitions."""
    out = []
    def add_scope(prefix, body, rest_name, line0):
        seen = {}
        def fresh(name):
            seen[name] = seen.get(name, 0) + 1
            return name if seen[name] == 1 else '%s#%d' % (name, seen[name])
        rest, skip = [], []
        for st in body:
            if isinstance(st, (ast.FunctionDef, ast.AsyncFunctionDef)):
                out.append(('%s.%s' % (prefix, fresh(st.name)), fn_parts(st), (), st.lineno))
            elif (isinstance(st, ast.Assign) and len(st.targets) == 1 and isinstance(st.targets[0], ast.Name)
                  and isinstance(st.value, ast.Lambda)):
                out.append(('%s.%s' % (prefix, fresh(st.targets[0].id)), fn_parts(st.value), (), st.lineno))
            elif isinstance(st, ast.ClassDef):
                add_scope('%s.%s' % (prefix, fresh(st.name)), st.body, '__class__', st.lineno)
            elif isinstance(st, (ast.Import, ast.ImportFrom)):
                pass
            else:
                # e.g.  try: import x / except ImportError: def f(...)  — such defs get their own key
                for sub in defs_below(st):
                    out.append(('%s.%s' % (prefix, fresh(sub.name)), fn_parts(sub), (), sub.lineno))
                    skip.append(sub)
                rest.append(st)
        out.append(('%s.%s' % (prefix, rest_name), rest, skip, line0))
    add_scope(mk, tree.body, '__module__', 1)
    return out

def signature_defaults(path, tree, mk):
    """key -> [(parameter name, text of its default)] for the def statements scopes_of gives a key (not lambdas):
    a constant is written as Python's repr (True, None, 'xml', 830), anything else as ast.unparse gives it
    (PORT_NETCONF_DEFAULT, operations.RaiseMode.ALL)."""
    out = {}
    def text(d):
        return repr(d.value) if isinstance(d, ast.Constant) else ast.unparse(d)
    def add_scope(prefix, body):
        seen = {}
        def fresh(name):
            seen[name] = seen.get(name, 0) + 1
            return name if seen[name] == 1 else '%s#%d' % (name, seen[name])
        def one(st):
            a = st.args
            pos = a.posonlyargs + a.args
            rows = [(p.arg, text(d)) for p, d in zip(pos[len(pos) - len(a.defaults):], a.defaults)]
            rows += [(p.arg, text(d)) for p, d in zip(a.kwonlyargs, a.kw_defaults) if d is not None]
            out['%s.%s' % (prefix, fresh(st.name))] = rows
        for st in body:
            if isinstance(st, (ast.FunctionDef, ast.AsyncFunctionDef)):
                one(st)
            elif (isinstance(st, ast.Assign) and len(st.targets) == 1 and isinstance(st.targets[0], ast.Name)
                  and isinstance(st.value, ast.Lambda)):
                fresh(st.targets[0].id)
            elif isinstance(st, ast.ClassDef):
                add_scope('%s.%s' % (prefix, fresh(st.name)), st.body)
            elif not isinstance(st, (ast.Import, ast.ImportFrom)):
                for sub in defs_below(st):
                    one(sub)
    add_scope(mk, tree.body)
    return out

def ident_of(key):
    return ''.join(c if (c.isalnum() and c.isascii()) or c == '_' else '_' for c in key)

def cq_nlist(ns):
    return '[' + ';'.join(str(x) for x in ns) + ']%N' if ns else '([] : list N)'

def gen_lits(repo):
    out = [LITS_DOC, 'From NC Require Import Model.Base.\n']
    idents = {}
    lits_tab, nums_tab, flts_tab, refs_tab, dfl_tab = [], [], [], [], []
    for f in lit_files(repo):
        tree = parse(f)
        mk = modkey(repo, f)
        out.append('(* ---- %s *)' % os.path.relpath(f, repo))
        defaults_of = signature_defaults(f, tree, mk)
        for key, nodes, skip, line in scopes_of(f, tree, mk):
            strs, ints, flts = harvest(f, nodes, skip)
            if key.endswith(('.__module__', '.__class__')) and not (strs or ints or flts or harvest_refs(nodes, skip)):
                continue
            idn = ident_of(key)
            if idn in idents:
                raise TranslateError(f, line, 'the identifier of %s collides with the one of %s' % (key, idents[idn]))
            idents[idn] = key
            if any(i < 0 for i in ints):
                raise TranslateError(f, line, 'negative int constant in %s' % key)
            out.append('Definition L_%s : list bytes :=  (* %s, line %d *)\n  %s.' % (idn, comment_text(key), line, cq_bytes_list(strs)))
            lits_tab.append('(%s, L_%s)' % (cq_bytes(key), idn))
            if ints:
                out.append('Definition I_%s : list N := %s.' % (idn, cq_nlist(ints)))
                nums_tab.append('(%s, I_%s)' % (cq_bytes(key), idn))
            if flts:
                out.append('Definition F_%s : list bytes := %s.' % (idn, cq_bytes_list(flts)))
                flts_tab.append('(%s, F_%s)' % (cq_bytes(key), idn))
            dfl = defaults_of.get(key)
            if dfl:
                out.append('Definition D_%s : list (bytes * bytes) :=\n  %s.' % (idn, cq_pairs(dfl)))
                dfl_tab.append('(%s, D_%s)' % (cq_bytes(key), idn))
            refs = harvest_refs(nodes, skip)
            if refs:
                out.append('Definition R_%s : list bytes :=\n  %s.' % (idn, cq_bytes_list(refs)))
                refs_tab.append('(%s, R_%s)' % (cq_bytes(key), idn))
    out.append('\nDefinition fn_lits : list (bytes * list bytes) :=\n  %s.' % cq_list(lits_tab, '(bytes * list bytes)'))
    out.append('Definition fn_nums : list (bytes * list N) :=\n  %s.' % cq_list(nums_tab, '(bytes * list N)'))
    out.append('Definition fn_flts : list (bytes * list bytes) :=\n  %s.' % cq_list(flts_tab, '(bytes * list bytes)'))
    out.append('Definition fn_defaults : list (bytes * list (bytes * bytes)) :=\n  %s.' % cq_list(dfl_tab, '(bytes * list (bytes * bytes))'))
    out.append('Definition fn_refs : list (bytes * list bytes) :=\n  %s.' % cq_list(refs_tab, '(bytes * list bytes)'))
    out.append('Definition fn_lits_of (k : bytes) : option (list bytes) := dict_get k fn_lits.')
    out.append('Definition fn_nums_of (k : bytes) : option (list N) := dict_get k fn_nums.')
    return '\n'.join(out) + '\n'


# ----------------------------------------------------------------------------- Gen_Tables
TABLES_DOC = """(* Gen/Gen_Tables.v  GENERATED by tools/translate.py from the source tree under test; do not edit.
   Regenerated on every ./check run; git-ignored.  Imports only NC.Model.Base.

   1. The exception hierarchy, from the  class X(Y, ...)  statements of every file of ncclient (not _version.py).
      A class is an exception class when one of its bases is (by its last dotted component) a Python
      built-in exception or another exception class of ncclient; two exception classes with the same
      name in different modules are an error of the translator.
        exc_classes : list (bytes * (bytes * list bytes))   (class name, (dotted module, base names as written,
                       last dotted component)), by module and source order
        exc_bases name : list bytes
        exc_derives a b : bool      a is b, or a base of a derives from b  (= issubclass(a, b); names that are
                       not ncclient classes, e.g. "Exception", have no bases)
        exc_subclasses b : list bytes   the names of exc_classes that derive from b, in table order
   2. RPCError.tag_to_attr of operations/rpc.py (a class-level dict  qualify("<tag>"): "<attr>"):
        rpcerror_tag_to_attr_local : list (bytes * bytes)   (tag, attribute), source order
        rpcerror_tag_to_attr       : list (bytes * bytes)   ("{<ns>}<tag>", attribute) where <ns> is the default
                       namespace of xml_.qualify, which must be  lambda tag, ns=<CONST>: tag if ns is None else "{%s}%s" % (ns, tag)
        xml_qualify_default_ns : bytes     the value of that constant of xml_.py
   3. validate_args_calls : list (bytes * (bytes * list bytes))
        every call  util.validate_args('<arg name>', <expr>, [<str literals>])  /  validate_args(...)  in
        ncclient/operations/**: (key of the enclosing function as in Gen_Lits, (arg name, allowed values)), source order.
        A call whose first argument is not a string literal or whose third is not a list of string literals is an error.
   4. Class-level constants  NAME = <int | str literal>  (upper-case NAME) of every class of ncclient:
        K_<id> : N  or  bytes,   class_int_consts : list (bytes * N),  class_str_consts : list (bytes * bytes)
        keyed "<module>.<Class>.<NAME>" (module path below ncclient/), e.g. operations.rpc.RaiseMode.ALL.
   5. assert_calls : list (bytes * list bytes)
        for every function of ncclient/operations/** that calls  self._assert(<str literal>) : the literals, source order
        (a call with another kind of argument is listed in assert_calls_dynamic : list bytes, the function keys). *)
"""

import builtins as _bi
BUILTIN_EXC = sorted(n for n in dir(_bi) if isinstance(getattr(_bi, n), type) and issubclass(getattr(_bi, n), BaseException))

def last_component(path, node, cls):
    if isinstance(node, ast.Name): return node.id
    if isinstance(node, ast.Attribute): return node.attr
    raise TranslateError(path, node, 'base class expression of %s is neither a name nor a dotted name' % cls)

def gen_tables(repo, xml_consts):
    out = [TABLES_DOC, 'From NC Require Import Model.Base.\n']
    trees = [(f, modkey(repo, f), parse(f)) for f in lit_files(repo)]
    # ---- 1. exception hierarchy
    classes = []     # (path, mod, ClassDef, [base last components])
    for f, mk, t in trees:
        for n in ast.walk(t):
            if isinstance(n, ast.ClassDef):
                if n.keywords:
                    raise TranslateError(f, n, 'class %s has keyword arguments in its bases (metaclass?): not understood' % n.name)
                classes.append((f, mk, n, [last_component(f, b, n.name) for b in n.bases]))
    exc = {}
    changed = True
    while changed:
        changed = False
        for f, mk, n, bases in classes:
            if (mk, n.name) in exc: continue
            if any(b in BUILTIN_EXC or any(k[1] == b for k in exc) for b in bases):
                exc[(mk, n.name)] = (f, n, bases); changed = True
    byname = {}
    for (mk, name), (f, n, bases) in exc.items():
        if name in byname:
            raise TranslateError(f, n, 'exception class %s is defined in two modules (%s and %s): the hierarchy by name would be ambiguous' % (name, byname[name], mk))
        byname[name] = mk
    rows = []
    for f, mk, n, bases in classes:
        if (mk, n.name) in exc:
            rows.append('(%s, (%s, %s))  (* %s.%s : %s *)' % (cq_bytes(n.name), cq_bytes('ncclient.' + mk), '[' + '; '.join(cq_bytes(b) for b in bases) + ']',
                                                          comment_text(mk), comment_text(n.name), comment_text(', '.join(bases))))
    if not rows:
        raise TranslateError(os.path.join(repo, 'ncclient'), 0, 'no exception class found')
    out.append('Definition exc_classes : list (bytes * (bytes * list bytes)) :=\n  %s.' % cq_list(rows))
    out.append("""Definition exc_bases (a : bytes) : list bytes := match dict_get a exc_classes with Some (_, l) => l | None => [] end.
Fixpoint exc_derives_fuel (n : nat) (a b : bytes) : bool :=
  match n with
  | O => false
  | S n' => beq a b || existsb (fun p => exc_derives_fuel n' p b) (exc_bases a)
  end.
Definition exc_derives (a b : bytes) : bool := exc_derives_fuel (S (length exc_classes)) a b.
Definition exc_subclasses (b : bytes) : list bytes := filter (fun a => exc_derives a b) (map fst exc_classes).
""")
    # ---- 2. RPCError.tag_to_attr and xml_.qualify
    xpath = os.path.join(repo, 'ncclient', 'xml_.py')
    q = None
    for st in parse(xpath).body:
        if isinstance(st, ast.Assign) and len(st.targets) == 1 and isinstance(st.targets[0], ast.Name) and st.targets[0].id == 'qualify':
            q = st
        if isinstance(st, ast.FunctionDef) and st.name == 'qualify':
            raise TranslateError(xpath, st, 'qualify is a def, expected the lambda  tag, ns=<CONST>: tag if ns is None else "{%s}%s" % (ns, tag)')
    if q is None:
        raise TranslateError(xpath, 0, 'qualify not found')
    lam = q.value
    want = 'IfExp(Compare(Name(\'ns\', Load()), [Is()], [Constant(None)]), Name(\'tag\', Load()), BinOp(Constant(\'{%s}%s\'), Mod(), Tuple([Name(\'ns\', Load()), Name(\'tag\', Load())], Load())))'
    if not (isinstance(lam, ast.Lambda) and [a.arg for a in lam.args.args] == ['tag', 'ns'] and len(lam.args.defaults) == 1
            and isinstance(lam.args.defaults[0], ast.Name) and not lam.args.vararg and not lam.args.kwarg and not lam.args.kwonlyargs
            and ast.dump(lam.body, annotate_fields=False) == want):
        raise TranslateError(xpath, q, 'qualify is not  lambda tag, ns=<CONST>: tag if ns is None else "{%s}%s" % (ns, tag)')
    qns_name = lam.args.defaults[0].id
    if qns_name not in xml_consts:
        raise TranslateError(xpath, q, 'default namespace %s of qualify is not a string constant of xml_.py' % qns_name)
    qns = xml_consts[qns_name]
    out.append('Definition xml_qualify_default_ns : bytes := %s.  (* %s = %s *)' % (cq_bytes(qns), qns_name, comment_text(qns)))
    rpath = os.path.join(repo, 'ncclient', 'operations', 'rpc.py')
    rtree = parse(rpath)
    t2a = None
    for st in rtree.body:
        if isinstance(st, ast.ClassDef) and st.name == 'RPCError':
            for c in st.body:
                if isinstance(c, ast.Assign) and len(c.targets) == 1 and isinstance(c.targets[0], ast.Name) and c.targets[0].id == 'tag_to_attr':
                    t2a = c
    if t2a is None:
        raise TranslateError(rpath, 0, 'RPCError.tag_to_attr not found as a class-level assignment')
    if not isinstance(t2a.value, ast.Dict):
        raise TranslateError(rpath, t2a, 'RPCError.tag_to_attr is not a dict literal')
    ex, star = imports_of(rtree)
    if not ('qualify' in ex and ex['qualify'][0].endswith('xml_')) and not any(m.endswith('xml_') for m in star):
        raise TranslateError(rpath, t2a, 'qualify in operations/rpc.py does not come from ncclient.xml_')
    pairs = []
    for k, v in zip(t2a.value.keys, t2a.value.values):
        if not (isinstance(k, ast.Call) and isinstance(k.func, ast.Name) and k.func.id == 'qualify' and len(k.args) == 1 and not k.keywords
                and isinstance(k.args[0], ast.Constant) and isinstance(k.args[0].value, str)):
            raise TranslateError(rpath, k or t2a, 'a key of RPCError.tag_to_attr is not qualify("<literal>")')
        if not (isinstance(v, ast.Constant) and isinstance(v.value, str)):
            raise TranslateError(rpath, v, 'a value of RPCError.tag_to_attr is not a string literal')
        pairs.append((k.args[0].value, v.value))
    if len({k for k, _ in pairs}) != len(pairs):
        raise TranslateError(rpath, t2a, 'RPCError.tag_to_attr has a repeated key')
    out.append('Definition rpcerror_tag_to_attr_local : list (bytes * bytes) :=\n  %s.' % cq_pairs(pairs))
    out.append('Definition rpcerror_tag_to_attr : list (bytes * bytes) :=\n  %s.\n' % cq_pairs([('{%s}%s' % (qns, k), v) for k, v in pairs]))
    # ---- 3. validate_args calls, 5. _assert calls  (ncclient/operations/**)
    va, asserts, dyn = [], [], []
    for f, mk, t in trees:
        if not mk.startswith('operations.'): continue
        for key, nodes, skip, line in scopes_of(f, t, mk):
            skipids = set(id(x) for x in skip)
            mine = []
            def walk(n):
                if id(n) in skipids: return
                if isinstance(n, ast.Call): mine.append(n)
                for c in ast.iter_child_nodes(n): walk(c)
            for n in nodes: walk(n)
            mine.sort(key=lambda c: (c.lineno, c.col_offset))
            lits = []
            for c in mine:
                fname = c.func.attr if isinstance(c.func, ast.Attribute) else c.func.id if isinstance(c.func, ast.Name) else None
                if fname == 'validate_args':
                    if not (len(c.args) == 3 and not c.keywords and isinstance(c.args[0], ast.Constant) and isinstance(c.args[0].value, str)
                            and isinstance(c.args[2], (ast.List, ast.Tuple))
                            and all(isinstance(e, ast.Constant) and isinstance(e.value, str) for e in c.args[2].elts)):
                        raise TranslateError(f, c, "validate_args call is not of the form validate_args('<name>', <value>, [<string literals>])")
                    va.append((key, c.args[0].value, [e.value for e in c.args[2].elts]))
                if fname == '_assert' and isinstance(c.func, ast.Attribute):
                    if len(c.args) == 1 and not c.keywords and isinstance(c.args[0], ast.Constant) and isinstance(c.args[0].value, str):
                        lits.append(c.args[0].value)
                    elif key not in dyn:
                        dyn.append(key)
            if lits:
                asserts.append((key, lits))
    out.append('Definition validate_args_calls : list (bytes * (bytes * list bytes)) :=\n  %s.' % cq_list(
        ['(%s, (%s, %s))  (* %s %s *)' % (cq_bytes(k), cq_bytes(a), '[' + '; '.join(cq_bytes(x) for x in l) + ']', comment_text(k), comment_text(a + ': ' + ', '.join(l)))
         for k, a, l in va], '(bytes * (bytes * list bytes))'))
    out.append('Definition assert_calls : list (bytes * list bytes) :=\n  %s.' % cq_list(
        ['(%s, %s)  (* %s: %s *)' % (cq_bytes(k), '[' + '; '.join(cq_bytes(x) for x in l) + ']', comment_text(k), comment_text(' '.join(l))) for k, l in asserts],
        '(bytes * list bytes)'))
    out.append('Definition assert_calls_dynamic : list bytes :=\n  %s.\n' % cq_bytes_list(dyn))
    # ---- 4. class-level constants
    ints, strs, seen = [], [], {}
    for f, mk, t in trees:
        def classes_in(body, prefix):
            for st in body:
                if isinstance(st, ast.ClassDef):
                    yield prefix + st.name, st
                    for x in classes_in(st.body, prefix + st.name + '.'): yield x
        for cname, cd in classes_in(t.body, ''):
            for st in cd.body:
                if (isinstance(st, ast.Assign) and len(st.targets) == 1 and isinstance(st.targets[0], ast.Name)
                        and st.targets[0].id == st.targets[0].id.upper() and st.targets[0].id[0].isalpha()
                        and isinstance(st.value, ast.Constant) and not isinstance(st.value.value, bool)
                        and isinstance(st.value.value, (int, str))):
                    key = '%s.%s.%s' % (mk, cname, st.targets[0].id)
                    idn = ident_of(key)
                    if idn in seen:
                        raise TranslateError(f, st, 'the identifier of %s collides with the one of %s' % (key, seen[idn]))
                    seen[idn] = key
                    v = st.value.value
                    if isinstance(v, int):
                        if v < 0: continue
                        out.append('Definition K_%s : N := %d%%N.' % (idn, v)); ints.append((key, idn))
                    else:
                        out.append('Definition K_%s : bytes := %s.' % (idn, cq_bytes_c(v))); strs.append((key, idn))
    out.append('Definition class_int_consts : list (bytes * N) :=\n  %s.' % cq_list(['(%s, K_%s)' % (cq_bytes(k), i) for k, i in ints], '(bytes * N)'))
    out.append('Definition class_str_consts : list (bytes * bytes) :=\n  %s.' % cq_list(['(%s, K_%s)' % (cq_bytes(k), i) for k, i in strs], '(bytes * bytes)'))
    return '\n'.join(out) + '\n'


# ----------------------------------------------------------------------------- main
def main():
    ap = argparse.ArgumentParser()
    ap.add_argument('--repo', default=os.environ.get('VERIF_REPO', '/repo'))
    ap.add_argument('--out', default=os.path.join(os.path.dirname(HERE), 'coq', 'Gen'))
    ap.add_argument('--check', action='store_true', help='do not write; exit 1 if a Gen file would change')
    a = ap.parse_args()
    repo = os.path.abspath(a.repo)
    try:
        const_v, xml_consts = gen_const(repo)
        ops_v, rpc_known, op_mods = gen_ops(repo)
        dev_v = gen_devices(repo, xml_consts, rpc_known, op_mods)
        lits_v = gen_lits(repo)
        tables_v = gen_tables(repo, xml_consts)
        for name, text in (('Gen_Lits.v', lits_v), ('Gen_Tables.v', tables_v)):
            for i, line in enumerate(strip_coq_comments(text).split('\n'), 1):
                if FORBIDDEN_WORDS.search(line):
                    raise TranslateError(name, i, 'generated text contains a word the vernacular guard forbids: %s' % line.strip()[:80])
    except TranslateError as e:
        print('translate: %s' % e)
        sys.exit(2)
    changed = []
    for name, text in (('Gen_Const.v', const_v), ('Gen_Ops.v', ops_v), ('Gen_Devices.v', dev_v), ('Gen_Lits.v', lits_v), ('Gen_Tables.v', tables_v)):
        p = os.path.join(a.out, name)
        if a.check:
            try: same = open(p).read() == text
            except FileNotFoundError: same = False
            if not same: changed.append(name)
        elif write_if_changed(p, text):
            changed.append(name)
    print('translate: ok (%s)' % (', '.join(changed) + ' rewritten' if changed else 'no change'))
    if a.check and changed:
        sys.exit(1)

if __name__ == '__main__':
    main()
