#!/venv/bin/python
"""seed_eval.py <PID> <outdir> [A B ...] — confirm a seeded change delivered by an independent sub-agent and run
the property's check against it.

For each change X in outdir (X.diff, X_demo.py, X_meta.json):
  1. in the scratch worktree (parent of outdir): apply, run the 274-test suite (must pass), run the demo (must exit 1),
     revert, run the demo (must exit 0);
  2. apply to /repo, run `./check PID` (quick, and thorough if quick misses it), revert /repo straight afterwards;
  3. store it as /verif/seeded/PID-X/{patch.diff, demo.py, meta.json} with what was run and what the check said.
Other properties' checks can be run against the same change with --also C01,C02."""
import sys, os, json, subprocess, shutil, argparse, re
V = os.path.dirname(os.path.dirname(os.path.abspath(__file__)))

def sh(cmd, cwd=None, timeout=3600, env=None):
    p = subprocess.run(cmd, shell=True, cwd=cwd, stdout=subprocess.PIPE, stderr=subprocess.STDOUT, text=True, timeout=timeout, env=env)
    return p.returncode, p.stdout

def main():
    ap = argparse.ArgumentParser()
    ap.add_argument('pid'); ap.add_argument('outdir'); ap.add_argument('names', nargs='*')
    ap.add_argument('--also', default=''); ap.add_argument('--no-thorough', action='store_true'); ap.add_argument('--suffix', default='')
    a = ap.parse_args()
    wt = os.path.dirname(os.path.abspath(a.outdir.rstrip('/')))
    names = a.names or sorted({f[:-5] for f in os.listdir(a.outdir) if f.endswith('.diff')})
    for x in names:
        diff = os.path.join(a.outdir, x + '.diff'); demo = os.path.join(a.outdir, x + '_demo.py')
        meta_p = os.path.join(a.outdir, x + '_meta.json')
        meta = json.load(open(meta_p)) if os.path.exists(meta_p) else {}
        res = {'confirmed': False}
        sh('git checkout -- .', cwd=wt)
        env = dict(os.environ, PYTHONPATH=wt, PYTHONHASHSEED='0')
        rc, out = sh('git apply %s' % diff, cwd=wt)
        if rc != 0:
            print(x, 'diff does not apply:', out[-300:]); continue
        rc, out = sh('/venv/bin/python -m pytest -q -p no:cacheprovider 2>&1 | tail -2', cwd=wt, env=env)
        res['tests_with_change'] = out.strip().split('\n')[-1]
        rc1, out1 = sh('/venv/bin/python %s' % demo, cwd=wt, env=env, timeout=600)
        res['demo_with_change'] = rc1
        sh('git checkout -- .', cwd=wt)
        rc0, out0 = sh('/venv/bin/python %s' % demo, cwd=wt, env=env, timeout=600)
        res['demo_without_change'] = rc0
        res['confirmed'] = ('274 passed' in res['tests_with_change']) and rc1 != 0 and rc0 == 0
        print('%s-%s: tests=%r demo_with=%d demo_without=%d confirmed=%s' % (a.pid, x, res['tests_with_change'], rc1, rc0, res['confirmed']))
        if not res['confirmed']:
            print(out1[-400:]); continue
        # run the checks against /repo with the change applied
        checks = {}
        sh('git -C /repo checkout -- .')
        rc, out = sh('git -C /repo apply %s' % diff)
        if rc != 0:
            print('  does not apply to /repo:', out[-200:]); continue
        try:
            for pid in [a.pid] + [p for p in a.also.split(',') if p]:
                rc, out = sh('./check %s --tier quick 2>&1 | tail -4' % pid, cwd=V)
                line = next((l for l in out.split('\n') if l.startswith('VIOLATION')), '')
                checks[pid] = {'quick_rc': rc, 'quick': line or out.strip().split('\n')[-1][-200:]}
                if not line and not a.no_thorough and pid == a.pid:
                    rc, out = sh('./check %s --tier thorough 2>&1 | tail -4' % pid, cwd=V, timeout=7200)
                    line = next((l for l in out.split('\n') if l.startswith('VIOLATION')), '')
                    checks[pid]['thorough'] = line or out.strip().split('\n')[-1][-200:]
                print('  check %s: %s' % (pid, checks[pid]))
                m = re.search(r'replay=(\S+)', line or '')
                if m and os.path.exists(m.group(1)):
                    try:
                        d = json.load(open(m.group(1)))
                        checks[pid]['replay_what'] = str(d.get('what') or d.get('note'))[:300]
                        checks[pid]['found_by'] = d.get('found_by')
                    except Exception:
                        pass
                    os.remove(m.group(1))
        finally:
            sh('git -C /repo checkout -- .')
            sh('git checkout -- evidence', cwd=V)      # evidence written while the change was applied is not evidence
        dst = os.path.join(V, 'seeded', '%s-%s%s' % (a.pid, x, a.suffix))
        os.makedirs(dst, exist_ok=True)
        shutil.copy(diff, os.path.join(dst, 'patch.diff')); shutil.copy(demo, os.path.join(dst, 'demo.py'))
        meta.update(property=a.pid, confirmed=res, checks=checks,
                    ran=(meta.get('ran') or []) + ['seed_eval: suite with change: %s; demo exit with/without change: %d/%d' % (res['tests_with_change'], rc1, rc0)])
        json.dump(meta, open(os.path.join(dst, 'meta.json'), 'w'), indent=1)

if __name__ == '__main__':
    main()
