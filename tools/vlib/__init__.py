"""vlib — shared machinery of /verif checks (build, model runner, evidence, findings)."""
