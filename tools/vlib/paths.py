import os, sys
VERIF = os.path.dirname(os.path.dirname(os.path.dirname(os.path.abspath(__file__))))
REPO = os.environ.get('VERIF_REPO', '/repo')
COQ = os.path.join(VERIF, 'coq')
OCAML = os.path.join(VERIF, 'ocaml')
BIN = os.path.join(VERIF, 'bin')
EVID = os.path.join(VERIF, 'evidence')
REPLAYS = os.path.join(VERIF, 'replays')
CORPUS = os.path.join(VERIF, 'corpus')
RUN = os.path.join(VERIF, 'run')
NCPU = int(os.environ.get('VERIF_JOBS', os.cpu_count() or 4))

def use_repo():
    """Make `import ncclient` resolve to the tree under test (VERIF_REPO or /repo)."""
    if REPO in sys.path:
        sys.path.remove(REPO)
    sys.path.insert(0, REPO)
    os.environ['NCCLIENT_VERIF'] = '1'
