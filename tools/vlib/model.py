"""Talk to an extracted model runner. Values: int -> n, bytes -> b<hex>, list/tuple -> [ ... ]."""
import subprocess, os
from .paths import BIN

def enc(v):
    if isinstance(v, bool): return 'n1' if v else 'n0'
    if isinstance(v, int): return 'n%d' % v
    if isinstance(v, (bytes, bytearray)): return 'b' + bytes(v).hex()
    if isinstance(v, str): return 'b' + v.encode('utf-8', 'surrogatepass').hex()
    if isinstance(v, (list, tuple)): return '[ ' + ' '.join(enc(x) for x in v) + ' ]' if v else '[ ]'
    raise TypeError(type(v))

def dec(s):
    toks = s.split()
    def pv(i):
        t = toks[i]
        if t == '[':
            out = []; i += 1
            while toks[i] != ']':
                v, i = pv(i); out.append(v)
            return out, i + 1
        if t[0] == 'n': return int(t[1:]), i + 1
        if t[0] == 'b': return bytes.fromhex(t[1:]), i + 1
        raise ValueError(s[:200])
    v, _ = pv(0)
    return v

def coq_val(v):
    """A decoded value in Coq concrete syntax (for the in-Coq cross-check of the extracted runner)."""
    if isinstance(v, bool): return '(VN %d)' % (1 if v else 0)
    if isinstance(v, int): return '(VN %d)' % v
    if isinstance(v, (bytes, bytearray)): return '(VB [%s])' % ';'.join(str(b) for b in bytes(v))
    if isinstance(v, str): return coq_val(v.encode('utf-8', 'surrogatepass'))
    if isinstance(v, (list, tuple)): return '(VL [%s])' % ';'.join(coq_val(x) for x in v)
    raise TypeError(type(v))

class Model:
    def __init__(self, pid):
        self.pid = pid
        self.path = os.path.join(BIN, 'modelrun_%s' % pid)
        self.sample = []          # (call, result) pairs kept for the in-Coq cross-check
        self.seen = 0
    def batch(self, calls, stack_mb=4096):
        """Evaluate a list of calls; returns list of decoded results (or '!…' strings)."""
        if not calls: return []
        inp = '\n'.join(enc(c) for c in calls) + '\n'
        p = subprocess.run('ulimit -s %d 2>/dev/null || ulimit -s unlimited; exec %s' % (stack_mb * 1024, self.path),
                           shell=True, input=inp, stdout=subprocess.PIPE, stderr=subprocess.PIPE, text=True)
        lines = p.stdout.split('\n')
        if lines and lines[-1] == '': lines.pop()
        if len(lines) != len(calls):
            raise RuntimeError('model runner returned %d lines for %d calls (rc=%s): %s' % (len(lines), len(calls), p.returncode, p.stderr[:500]))
        outs = [l if l.startswith('!') else dec(l) for l in lines]
        import random
        rnd = random.Random(self.seen)
        for c, l, o in zip(calls, lines, outs):
            self.seen += 1
            if l.startswith('!') or len(l) > 1500: continue
            ec = enc(c)
            if len(ec) > 1500: continue
            if len(self.sample) < 40: self.sample.append((c, o))
            elif rnd.random() < 40.0 / self.seen: self.sample[rnd.randrange(40)] = (c, o)
        return outs
    def call(self, c):
        return self.batch([c])[0]
