"""Coq / OCaml build steps. Everything runs under flock(coq/.lock) and a shell timeout."""
import os, re, subprocess, fcntl, time, glob, hashlib
from .paths import VERIF, COQ, OCAML, BIN, NCPU

SRC_DIRS = ['Model', 'Spec', 'Proofs', 'Props', 'Glue', 'Gen', 'GenProps']
FORBIDDEN = re.compile(r'\b(Admitted|admit|Axiom|Axioms|Parameter|Parameters|Conjecture|Hypothesis|Variable|Variables|Hypotheses)\b|Unset\s+Guard|bypass_check|type-in-type|impredicative-set|Admit\s+Obligations|native_compute')
STMT = re.compile(r'^\s*(Theorem|Lemma|Example|Corollary|Fact|Proposition|Remark)\s+(\w+)', re.M)

class Lock:
    def __enter__(self):
        os.makedirs(COQ, exist_ok=True)
        self.f = open(os.path.join(COQ, '.lock'), 'w')
        fcntl.flock(self.f, fcntl.LOCK_EX)
        return self
    def __exit__(self, *a):
        fcntl.flock(self.f, fcntl.LOCK_UN); self.f.close()

def v_files():
    out = []
    for d in SRC_DIRS:
        out += sorted(glob.glob(os.path.join(COQ, d, '*.v')))
    return [os.path.relpath(p, COQ) for p in out]

def write_if_changed(path, text):
    try:
        if open(path).read() == text:
            return False
    except FileNotFoundError:
        pass
    os.makedirs(os.path.dirname(path), exist_ok=True)
    tmp = path + '.tmp%d' % os.getpid()
    open(tmp, 'w').write(text); os.replace(tmp, path)
    return True

def ensure_makefile():
    files = v_files()
    proj = '-Q . NC\n' + '\n'.join(files) + '\n'
    changed = write_if_changed(os.path.join(COQ, '_CoqProject'), proj)
    mk = os.path.join(COQ, 'Makefile')
    if changed or not os.path.exists(mk):
        subprocess.run(['coq_makefile', '-f', '_CoqProject', '-o', 'Makefile'], cwd=COQ, check=True,
                       stdout=subprocess.DEVNULL, stderr=subprocess.DEVNULL)

def sh(cmd, cwd, timeout):
    t0 = time.time()
    try:
        p = subprocess.run(cmd, cwd=cwd, stdout=subprocess.PIPE, stderr=subprocess.STDOUT, timeout=timeout, text=True, errors='replace')
        return p.returncode, p.stdout, time.time() - t0
    except subprocess.TimeoutExpired as e:
        return 124, (e.stdout or '') + '\nTIMEOUT', time.time() - t0

def make(targets, timeout=1500):
    """Full .vo build of the given targets (never -vos/-vok). Returns (ok, log, cmd)."""
    ensure_makefile()
    cmd = ['make', '-j%d' % NCPU, '-k'] + list(targets)
    rc, out, dt = sh(cmd, COQ, timeout)
    return rc == 0, out, 'cd coq && ' + ' '.join(cmd)

def imports_of(rel):
    txt = open(os.path.join(COQ, rel)).read()
    txt = re.sub(r'\(\*.*?\*\)', '', txt, flags=re.S)
    deps = []
    for m in re.finditer(r'From\s+NC\s+Require\s+(?:Import|Export)\s+([\w.\s]+?)\.(?:\s|$)', txt):
        for name in m.group(1).split():
            deps.append(name.replace('.', '/') + '.v')
    return deps

def closure(roots):
    seen, todo = [], list(roots)
    while todo:
        f = todo.pop()
        if f in seen or not os.path.exists(os.path.join(COQ, f)):
            continue
        seen.append(f)
        todo += imports_of(f)
    return sorted(seen)

def statements(files):
    n = 0; names = []
    for f in files:
        txt = open(os.path.join(COQ, f)).read()
        txt = re.sub(r'\(\*.*?\*\)', '', txt, flags=re.S)
        for m in STMT.finditer(txt):
            n += 1; names.append(f + ':' + m.group(2))
    return n, names

def guard_scan(files=None):
    """Forbidden vernacular anywhere in the development (comments stripped)."""
    bad = []
    for f in (files or v_files() + [os.path.relpath(p, COQ) for p in glob.glob(os.path.join(COQ, 'Extract', '*.v'))]):
        txt = open(os.path.join(COQ, f)).read()
        txt = re.sub(r'\(\*.*?\*\)', lambda m: ' ' * 0 + '\n' * m.group(0).count('\n'), txt, flags=re.S)
        for i, line in enumerate(txt.split('\n'), 1):
            m = FORBIDDEN.search(line)
            if m and not re.search(r'\bSection\b', line):
                # Variable/Hypothesis are legal only inside a Section: checked separately
                if m.group(1) in ('Variable', 'Variables', 'Hypothesis', 'Hypotheses') and in_section(txt, i):
                    continue
                bad.append('%s:%d: %s' % (f, i, line.strip()))
    return bad

def in_section(txt, lineno):
    depth = 0
    for i, line in enumerate(txt.split('\n'), 1):
        if i >= lineno: break
        if re.match(r'\s*Section\s+\w+', line): depth += 1
        if re.match(r'\s*End\s+\w+', line) and depth > 0: depth -= 1
    return depth > 0

def assumptions(props_rel, timeout=600):
    """Re-compile one Props file and return (ok, [(theorem, report)], raw)."""
    rc, out, dt = sh(['coqc', '-Q', '.', 'NC', props_rel], COQ, timeout)
    txt = open(os.path.join(COQ, props_rel)).read()
    names = re.findall(r'Print Assumptions\s+(\w+)\s*\.', txt)
    blocks = []
    cur = None
    for line in out.split('\n'):
        if line.startswith('Closed under the global context'):
            blocks.append('Closed under the global context'); cur = None
        elif line.startswith('Axioms:'):
            cur = ['Axioms:']; blocks.append(cur)
        elif cur is not None and line.strip():
            cur.append(line.rstrip())
    blocks = [b if isinstance(b, str) else '\n'.join(b) for b in blocks]
    pairs = list(zip(names, blocks))
    ok = rc == 0 and len(blocks) == len(names)
    return ok, pairs, out

def build_runner(pid, timeout=900):
    """Extract Glue/<pid>_glue.run to OCaml and link bin/modelrun_<pid> (only when stale)."""
    os.makedirs(BIN, exist_ok=True)
    ex = os.path.join(COQ, 'Extract', 'Ex_%s.v' % pid)
    glue_vo = os.path.join(COQ, 'Glue', '%s_glue.vo' % pid)
    binp = os.path.join(BIN, 'modelrun_%s' % pid)
    stamp = binp + '.stamp'
    if not os.path.exists(glue_vo):
        return False, 'missing ' + glue_vo
    h = hashlib.sha256()
    for p in [glue_vo, ex, os.path.join(OCAML, 'driver.ml.in')]:
        h.update(open(p, 'rb').read())
    dig = h.hexdigest()
    if os.path.exists(binp) and os.path.exists(stamp) and open(stamp).read() == dig:
        return True, 'up to date'
    rc, out, _ = sh(['coqc', '-Q', COQ, 'NC', ex], OCAML, timeout)
    if rc != 0:
        return False, out
    drv = open(os.path.join(OCAML, 'driver.ml.in')).read().replace('@EX@', 'Ex_%s' % pid)
    open(os.path.join(OCAML, 'drv_%s.ml' % pid), 'w').write(drv)
    rc, out2, _ = sh(['ocamlfind', 'ocamlopt', '-w', '-a', '-o', binp, 'ex_%s.mli' % pid, 'ex_%s.ml' % pid, 'drv_%s.ml' % pid], OCAML, timeout)
    if rc != 0:
        return False, out + out2
    open(stamp, 'w').write(dig)
    return True, out + out2

def crosscheck_in_coq(runner, sample, timeout=900):
    """Evaluate Glue/<runner>_glue.run inside Coq (vm_compute) on calls the extracted OCaml runner answered and
    require the same results: validates extraction + ocaml/driver.ml.in. Returns (ok, n, log)."""
    from .model import coq_val
    if not sample:
        return True, 0, 'no sample'
    os.makedirs(os.path.join(COQ, 'Xcheck'), exist_ok=True)
    rel = os.path.join('Xcheck', 'X_%s_%d.v' % (runner, os.getpid()))
    lines = ['From NC Require Import Model.Base Glue.%s_glue.' % runner, 'Open Scope N_scope.']
    for i, (c, o) in enumerate(sample):
        lines.append('Example xc_%d : run %s = %s.\nProof. vm_compute. reflexivity. Qed.' % (i, coq_val(c), coq_val(o)))
    open(os.path.join(COQ, rel), 'w').write('\n'.join(lines) + '\n')
    rc, out, dt = sh(['coqc', '-Q', '.', 'NC', rel], COQ, timeout)
    for ext in ('.v', '.vo', '.glob', '.vok', '.vos'):
        try: os.remove(os.path.join(COQ, rel[:-2] + ext))
        except OSError: pass
    try: os.remove(os.path.join(COQ, 'Xcheck', '.' + os.path.basename(rel)[:-2] + '.aux'))
    except OSError: pass
    return rc == 0, len(sample), out[-1500:]

def coqchk(roots, timeout=1500):
    """Independent re-check of the compiled Props files and everything they depend on; prints the axioms."""
    mods = ['NC.' + r[:-2].replace('/', '.') for r in roots]
    rc, out, dt = sh(['coqchk', '-silent', '-o', '-Q', '.', 'NC'] + mods, COQ, timeout)
    return rc == 0, out[-3000:]
