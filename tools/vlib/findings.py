import json, os
from .paths import VERIF

def load():
    p = os.path.join(VERIF, 'known_findings.json')
    if not os.path.exists(p): return []
    return json.load(open(p))

def open_for(pid):
    return [f for f in load() if f.get('property') == pid and f.get('status') == 'open']

def covered(pid, sig):
    return sig is not None and any(f.get('sig') == sig for f in open_for(pid))
