"""Run context handed to a property plugin: counting, sampling, disagreement/failure recording."""
import json, random, collections, hashlib, time

class Ctx:
    def __init__(self, pid, tier, seed, model):
        self.pid, self.tier, self.seed, self.model = pid, tier, seed, model
        self.rng = random.Random(seed)
        self.evaluations = 0
        self.nontrivial = set()
        self.samples = []
        self.hists = collections.defaultdict(collections.Counter)
        self.disagreements = []     # correspondence breaks: model != implementation
        self.failures = []          # property statement false on the implementation
        self.notes = []
        self.extra = {}
        self.exhaustive = False
        self.traces = 0
        self.t0 = time.time()
    # -- coverage bookkeeping
    def count(self, case=None, nontrivial=True, key=None):
        """One case was evaluated on model and implementation. `key` (or the case itself)
        identifies it for the distinct/non-trivial count."""
        self.evaluations += 1
        if nontrivial:
            k = key if key is not None else case
            self.nontrivial.add(hashlib.blake2b(json.dumps(k, sort_keys=True, default=repr).encode(), digest_size=8).digest())
    def sample(self, case, every=None):
        if len(self.samples) < 8:
            self.samples.append(case)
    def hist(self, name, key, n=1):
        self.hists[name][str(key)] += n
    def note(self, s):
        self.notes.append(s)
    # -- outcomes
    def disagree(self, case, model_out, impl_out, what, theorem=None):
        self.disagreements.append(dict(case=case, expected=model_out, actual=impl_out, what=what, theorem=theorem))
    def fail(self, case, what, sig=None, expected=None, actual=None):
        """The property sentence itself is false on this concrete implementation run."""
        self.failures.append(dict(case=case, what=what, sig=sig, expected=expected, actual=actual))
    def elapsed(self):
        return time.time() - self.t0
