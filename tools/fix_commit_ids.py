#!/venv/bin/python
"""Rewrite the commit ids in findings.d/*.json to the ids the fix commits have on /repo's main branch
(fix commits are cherry-picked from builders' worktree branches, which changes their id)."""
import json, glob, os, subprocess
V = os.path.dirname(os.path.dirname(os.path.abspath(__file__)))
def git(*a):
    return subprocess.run(['git', '-C', '/repo'] + list(a), stdout=subprocess.PIPE, stderr=subprocess.DEVNULL, text=True).stdout
main = {}
for line in git('log', '--format=%h\t%s', 'main').strip().split('\n'):
    h, s = line.split('\t', 1); main.setdefault(s, h)
n = 0
for f in sorted(glob.glob(os.path.join(V, 'findings.d', '*.json'))):
    d = json.load(open(f)); ch = False
    for e in d:
        c = e.get('commit')
        if not c: continue
        if git('merge-base', '--is-ancestor', c, 'main') == '' and subprocess.run(['git', '-C', '/repo', 'merge-base', '--is-ancestor', c, 'main']).returncode == 0:
            continue
        subj = git('show', '-s', '--format=%s', c).strip()
        new = main.get(subj)
        if new and new != c[:len(new)]:
            for k in ('commit', 'fixed', 'what'):
                if isinstance(e.get(k), str): e[k] = e[k].replace(c, new)
            ch = True; n += 1
        elif not new:
            print('WARNING: no commit on main with subject of', c, 'in', os.path.basename(f))
    if ch: open(f, 'w').write(json.dumps(d, indent=1) + '\n')
print('rewrote', n, 'commit ids')
