#!/venv/bin/python
"""setup: build the whole framework from files on disk (offline).
translate tables from /repo -> full .vo build of every Coq file -> extract and link every model runner."""
import sys, os, glob, subprocess
sys.path.insert(0, os.path.dirname(os.path.abspath(__file__)))
from vlib import paths, build

def main():
    with build.Lock():
        tr = os.path.join(paths.VERIF, 'tools', 'translate.py')
        if os.path.exists(tr):
            subprocess.run([sys.executable, tr, '--repo', paths.REPO], check=True)
        build.ensure_makefile()
        files = build.v_files()
        ok, log, cmd = build.make([f[:-2] + '.vo' for f in files], timeout=3000)
        if not ok:
            print(log[-6000:]); print('setup: Coq build FAILED'); sys.exit(1)
        bad = build.guard_scan()
        if bad:
            print('\n'.join(bad)); print('setup: forbidden vernacular'); sys.exit(1)
        for g in sorted(glob.glob(os.path.join(paths.COQ, 'Glue', '*_glue.v'))):
            pid = os.path.basename(g)[:-len('_glue.v')]
            rok, rlog = build.build_runner(pid)
            print('runner', pid, 'ok' if rok else 'FAILED')
            if not rok:
                print(rlog[-3000:]); sys.exit(1)
    extra = os.path.join(paths.VERIF, 'tools', 'setup_extra.sh')
    if os.path.exists(extra):
        subprocess.run(['sh', extra], check=True, cwd=paths.VERIF)
    print('setup: ok (%d Coq files)' % len(files))

if __name__ == '__main__':
    main()
