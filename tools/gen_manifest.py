#!/venv/bin/python
"""Assemble MANIFEST.json from manifest.d/C*.json fragments (one per claimed property) and
manifest.d/_na.json (reasons for properties not claimed)."""
import json, os, glob
V = os.path.dirname(os.path.dirname(os.path.abspath(__file__)))
props = [json.loads(l)['id'] for l in open(os.path.join(V, 'properties.jsonl'))]
checks = []
for p in props:
    f = os.path.join(V, 'manifest.d', p + '.json')
    if os.path.exists(f):
        c = json.load(open(f))
        c.setdefault('property_id', p)
        c.setdefault('quick_cmd', './check %s --tier quick' % p)
        c.setdefault('thorough_cmd', './check %s --tier thorough' % p)
        c.setdefault('evidence_file', '/verif/evidence/%s.json' % p)
        c.setdefault('replay_cmd_template', './check %s --replay {path}' % p)
        c.setdefault('engine', 'coq-proof+correspondence')
        checks.append(c)
na_reason = json.load(open(os.path.join(V, 'manifest.d', '_na.json')))
claimed = {c['property_id'] for c in checks}
na = [dict(property_id=p, reason=na_reason.get(p, na_reason.get('*', 'no check built yet'))) for p in props if p not in claimed]
hdr = json.load(open(os.path.join(V, 'manifest.d', '_header.json')))
hdr['checks'] = checks
hdr['not_applicable'] = na
open(os.path.join(V, 'MANIFEST.json'), 'w').write(json.dumps(hdr, indent=1) + '\n')
print('MANIFEST.json: %d checks, %d not claimed' % (len(checks), len(na)))
# known_findings.json = concatenation of findings.d/*.json (the committed known-findings file read by every check)
allf = []
for f in sorted(glob.glob(os.path.join(V, 'findings.d', '*.json'))):
    allf += json.load(open(f))
open(os.path.join(V, 'known_findings.json'), 'w').write(json.dumps(allf, indent=1) + '\n')
print('known_findings.json: %d entries (%d open)' % (len(allf), sum(1 for x in allf if x.get('status') == 'open')))
