#!/venv/bin/python
"""tie_bite.py [inventory.md [constant ...]]   (development helper; not run by ./check)
For every row of the inventory (notes/tie.md) with status b: perturb the model constant in a scratch copy of coq/ and check that
`make` of at least one of the tie files named in the row fails.  Prints the rows whose ties do NOT bite."""
import re, os, sys, subprocess, shutil
HERE=os.path.dirname(os.path.abspath(__file__))
SRC=os.path.join(os.path.dirname(HERE),'coq'); DST=os.environ.get('TIE_BITE_DIR','/tmp/tie-bite-coq')
INV=sys.argv[1] if len(sys.argv)>1 else os.path.join(os.path.dirname(HERE),'notes','tie.md')
ONLY=set(sys.argv[2:])
if os.path.exists(DST): shutil.rmtree(DST)
shutil.copytree(SRC, DST, symlinks=True)
rows=[]
mod=None
for l in open(INV):
    m=re.match(r'### (\w+)/(\w+)\.v', l)
    if m: mod=(m.group(1), m.group(2)); continue
    m=re.match(r'\| (\d+) \| `(\w+)` \| `(.*)` \| (.*) \| (b\*?|n/a|c|a) \| (.*) \|$', l.rstrip('\n'))
    if m and m.group(5)=='b' and (not ONLY or m.group(2) in ONLY):
        rows.append((mod, int(m.group(1)), m.group(2), m.group(3), m.group(6)))
print(len(rows),'rows with status b')
bad=[]
for (d, mname), line, name, shown, ties in rows:
    rel='%s/%s.v'%(d,mname)
    path=os.path.join(DST, rel)
    orig=open(path).read()
    lines=orig.split('\n')
    L=lines[line-1]
    if ('Definition %s'%name) not in L:
        print('?? cannot locate', rel, line, name); continue
    if 'lit "' in L and re.search(r'Definition %s\b[^"]*lit "'%name, L):
        newL=re.sub(r'(Definition %s\b[^"]*lit ")'%name, r'\1Z', L, count=1)
    else:
        # numeric / list constant: change the first number after := (comments left alone); a list of names: swap the
        # first two; a multi-line list of literals: change the first literal on the following lines
        code = re.sub(r'\(\*.*?\*\)', '', L)
        comment = L[len(code):] if L.startswith(code) else ''
        head, sep, tail = code.partition('Definition %s'%name)
        i = tail.index(':=')
        t2 = re.sub(r'(\d+)', lambda m: str(int(m.group(1))+1), tail[i:], count=1)
        if t2 == tail[i:]:
            t2 = re.sub(r'\[(\w+); (\w+)', r'[\2; \1', tail[i:], count=1)
        if t2 == tail[i:]:
            done = False
            for j in range(line, min(line+4, len(lines))):
                if 'lit "' in lines[j]:
                    lines[j] = lines[j].replace('lit "', 'lit "Z', 1); done = True; break
            if not done:
                print('?? cannot perturb', rel, line, name, L[:80]); continue
            newL = L
        else:
            newL = head + sep + tail[:i] + t2
    lines[line-1]=newL
    open(path,'w').write('\n'.join(lines))
    files=sorted(set(re.findall(r'(\w+_consts|C16_tables)\.', ties)))
    if not files:
        # reason text naming theorems like Framing_consts.gen_msg_delim
        files=sorted(set(re.findall(r'(\w+_consts)\b', ties)))
    targets=['GenProps/%s.vo'%f for f in files]
    p=subprocess.run(['make','-j4','-k']+targets, cwd=DST, stdout=subprocess.PIPE, stderr=subprocess.STDOUT, text=True)
    bites = p.returncode != 0 and 'File "./GenProps/' in p.stdout
    model_broke = ('Model/' in p.stdout and 'Error' in p.stdout and 'GenProps' not in p.stdout.split('Error')[0][-200:])
    if not bites:
        bad.append((rel,line,name)); print('NO BITE', rel, line, name, targets)
    open(path,'w').write(orig)
    # restore timestamps-driven rebuild: touching is implicit (file rewritten); rebuild lazily next round
print('rows:',len(rows),'not biting:',len(bad))
for b in bad: print('  ',b)
