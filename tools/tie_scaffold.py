#!/venv/bin/python
"""tie_scaffold.py --repo <dir> <spec.json>   (development helper; not run by ./check)

Prints the text of tie theorems for coq/GenProps/<X>_consts.v:  for every key of the literal harvest
(coq/Gen/Gen_Lits.v, see notes/translator.md) named in the spec, the equation
    L_<id> = [ <model constant> ; ... ]
in which every string is written as the model constant that holds it (a `Definition c := Eval compute in
lit "..."` of one of the model files named in the spec, first file first) or, when no model constant
holds it, as an in-line `lit "..."`.  The output is a DRAFT: it is reviewed and pasted by hand; which model
constant a source literal is tied to is a human decision (the theorem is then checked by Coq on every run).

spec = {"models": ["Model/Caps.v", ...], "keys": ["capabilities._abbreviate", ...], "nums": [...keys...]}
"""
import sys, os, re, json, ast, argparse
HERE = os.path.dirname(os.path.abspath(__file__))
sys.path.insert(0, HERE)
import translate as T

def model_consts(coq, rels):
    m = {}
    for rel in rels:
        mod = os.path.basename(rel)[:-2]
        txt = open(os.path.join(coq, rel)).read()
        for name, s in re.findall(r'Definition\s+(\w+)\s*(?::\s*bytes\s*)?:=\s*Eval compute in\s+lit\s+"((?:[^"]|"")*)"%string', txt):
            m.setdefault(s.replace('""', '"'), []).append('%s.%s' % (mod, name))
    return m

def coq_lit(s):
    if isinstance(s, bytes):
        s = s.decode('latin-1')
    if s and all(32 <= ord(c) < 127 for c in s):
        return 'lit "%s"%%string' % s.replace('"', '""')
    b = s.encode('utf-8')
    return ('[' + ';'.join(str(x) for x in b) + ']%N') if b else '([] : bytes)'

def main():
    ap = argparse.ArgumentParser()
    ap.add_argument('--repo', default=os.environ.get('VERIF_REPO', '/repo'))
    ap.add_argument('spec')
    a = ap.parse_args()
    spec = json.load(open(a.spec))
    coq = os.path.join(os.path.dirname(HERE), 'coq')
    consts = model_consts(coq, spec['models'])
    scopes = {}
    for f in T.lit_files(a.repo):
        tree = T.parse(f)
        for key, nodes, skip, line in T.scopes_of(f, tree, T.modkey(a.repo, f)):
            scopes[key] = (f, nodes, skip, line)
    for key in spec['keys']:
        if key not in scopes:
            print('(* MISSING %s *)' % key); continue
        f, nodes, skip, line = scopes[key]
        strs, ints, flts = T.harvest(f, nodes, skip)
        idn = T.ident_of(key)
        items = []
        for s in strs:
            k = s.decode('latin-1') if isinstance(s, bytes) else s
            items.append(consts[k][0] if k in consts else coq_lit(s))
        print('(* %s:%d  %s *)' % (os.path.relpath(f, a.repo), line, key))
        print('Theorem tie_%s : L_%s =\n  [%s].' % (idn, idn, ';\n   '.join(items)) if items else 'Theorem tie_%s : L_%s = [].' % (idn, idn))
        print('Proof. tie. Qed.\nPrint Assumptions tie_%s.' % idn)
        if key in spec.get('nums', []) and ints:
            print('Theorem tie_nums_%s : I_%s = [%s]%%N.' % (idn, idn, ';'.join(map(str, ints))))
            print('Proof. tie. Qed.\nPrint Assumptions tie_nums_%s.' % idn)
        print()

if __name__ == '__main__':
    main()
