(* GenProps/Framing_consts.v — re-proved on every run from coq/Gen/Gen_Const.v, which tools/translate.py regenerates
   from the source under test: the literal constants the framing models (C01, C02, C14) were written for are the ones
   the code has NOW. A changed delimiter, buffer size or header regular expression breaks these by computation. *)
From Coq Require Import String.
From NC Require Import Model.Base Model.Lit Gen.Gen_Const Model.Framing10 Model.Framing11 Model.Writer.

Theorem gen_msg_delim :
  session_MSG_DELIM = Writer.MSG_DELIM /\ parser_MSG_DELIM = delim10 /\ length parser_MSG_DELIM = DELIM10_LEN.
Proof. vm_compute. repeat split; reflexivity. Qed.
Print Assumptions gen_msg_delim.

Theorem gen_end_delim :
  session_END_DELIM = Writer.END_DELIM /\ parser_END_DELIM = [Framing11.LF; Framing11.HASH; Framing11.HASH; Framing11.LF].
Proof. vm_compute. split; reflexivity. Qed.
Print Assumptions gen_end_delim.

(* every transport reads at most 4096 octets per read *)
Theorem gen_buf_size :
  parser_BUF_SIZE = 4096 /\ ssh_BUF_SIZE = 4096 /\ tls_BUF_SIZE = 4096 /\ unix_BUF_SIZE = 4096.
Proof. vm_compute. repeat split; reflexivity. Qed.
Print Assumptions gen_buf_size.

(* the chunk-header recogniser of Model/Framing11.v was written for exactly these two pattern texts *)
Theorem gen_header_regex :
  parser_RE_NC11_DELIM = lit "\n(?:#([0-9]+)|(##))\n"%string /\
  parser_RE_NC11_DELIM_PREFIX = lit "\n(?:#(?:[0-9]+|#)?)?"%string.
Proof. vm_compute. split; reflexivity. Qed.
Print Assumptions gen_header_regex.
