(* GenProps/Gating_consts.v — literal ties of Model/Gating.v (properties C09 and C07).
   Re-proved on every run from the tables tools/translate.py regenerates from the source under test:
     Gen_Tables.assert_calls          every  self._assert("<capability>")  of ncclient/operations/**, per function
     Gen_Tables.validate_args_calls   every  validate_args('<name>', value, [<allowed>])  call
     Gen_Ops.rpc_classes              the DEPENDS lists of the RPC classes (as attribute lookup sees them)
     Gen_Lits                         the literals of the with-defaults helpers and of datastore_or_url
   They equal the capability names, enumerations and dependency lists Gating.v was written with (notes/tie.md). *)
From Coq Require Import String List.
From NC Require Import Model.Base Model.Lit Gen.Gen_Ops Gen.Gen_Lits Gen.Gen_Tables GenProps.TieTac.
From NC Require Import Model.Caps Model.Gating.
Import ListNotations.
Set Printing Width 400.

(* the capability checks written inside request() bodies, function by function, in source order — the SAssert steps of
   body_steps / wd_steps (EditConfig: test_option, 'test-only', 'rollback-on-error', format 'url';  Commit: confirmed, and persist_id
   when not confirmed;  Get / GetConfig: with_defaults;  the Junos Commit: confirmed;  the SR OS Commit: as the standard one) *)
Theorem tie_assert_calls : assert_calls =
  [ (lit "operations.edit.EditConfig.request"%string, [s_k_validate; s_k_validate11; s_k_rollback; s_k_url]);
    (lit "operations.edit.Commit.request"%string, [s_k_confirmed; s_k_confirmed]);
    (lit "operations.retrieve.Get.request"%string, [s_k_wd]);
    (lit "operations.retrieve.GetConfig.request"%string, [s_k_wd]);
    (lit "operations.third_party.juniper.rpc.Commit.request"%string, [s_k_confirmed]);
    (lit "operations.third_party.sros.rpc.Commit.request"%string, [s_k_confirmed; s_k_confirmed]) ].
Proof. tie. Qed.
Print Assumptions tie_assert_calls.

(* the only _assert with a computed argument is the DEPENDS loop of RPC.__init__ (Gating.construct) *)
Theorem tie_assert_calls_dynamic : assert_calls_dynamic = [lit "operations.rpc.RPC.__init__"%string].
Proof. tie. Qed.
Print Assumptions tie_assert_calls_dynamic.

(* the enumerations validate_args checks: DEFAULT_OPS, TEST_OPTS, ERROR_OPTS of Gating.v (the fourth call is the Junos
   load_configuration format check, modelled in VendorBuilders.v and tied again in Vendor_consts.v) *)
Theorem tie_validate_args_calls : validate_args_calls =
  [ (lit "operations.edit.EditConfig.request"%string, (lit "default_operation"%string, DEFAULT_OPS));
    (lit "operations.edit.EditConfig.request"%string, (lit "test_option"%string, TEST_OPTS));
    (lit "operations.edit.EditConfig.request"%string, (lit "error_option"%string, ERROR_OPTS));
    (lit "operations.third_party.juniper.rpc.LoadConfiguration.request"%string,
       (lit "format"%string, [lit "xml"%string; lit "text"%string; lit "json"%string])) ].
Proof. tie. Qed.
Print Assumptions tie_validate_args_calls.

(* the branch tests of EditConfig.request on literal values: test_option == 'test-only', error_option == "rollback-on-error",
   format == 'xml' / 'text' / 'url'  (positions in the harvest of the function; the whole list is tied in Builders_consts.v) *)
Theorem tie_editconfig_branch_values :
  nth 0 L_operations_edit_EditConfig_request [] = s_f_xml /\
  nth 14 L_operations_edit_EditConfig_request [] = s_test_only /\
  nth 21 L_operations_edit_EditConfig_request [] = s_rollback_on_error /\
  nth 24 L_operations_edit_EditConfig_request [] = s_f_xml /\
  nth 27 L_operations_edit_EditConfig_request [] = s_f_text /\
  nth 30 L_operations_edit_EditConfig_request [] = s_f_url /\
  length L_operations_edit_EditConfig_request = 34%nat.
Proof. tie. Qed.
Print Assumptions tie_editconfig_branch_values.

(* class-level DEPENDS, as attribute lookup sees them: Gating.class_deps *)
Definition dep (m n : string) : option (list bytes) := depends_of (lit m) (lit n).
Theorem tie_depends :
  dep "ncclient.operations.edit" "Validate" = Some (class_deps (CValidate (SrcInline None))) /\
  dep "ncclient.operations.edit" "Commit" = Some (class_deps (CCommit VStd false false false false None None)) /\
  dep "ncclient.operations.third_party.juniper.rpc" "Commit" = Some (class_deps (CCommit VJunos false false false false None None)) /\
  dep "ncclient.operations.third_party.sros.rpc" "Commit" = Some (class_deps (CCommit VSros false false false false None None)) /\
  dep "ncclient.operations.edit" "CancelCommit" = Some (class_deps (CCancelCommit None)) /\
  dep "ncclient.operations.edit" "DiscardChanges" = Some (class_deps CDiscardChanges) /\
  dep "ncclient.operations.subscribe" "CreateSubscription" = Some (class_deps (CCreateSubscription None)) /\
  dep "ncclient.operations.flowmon" "PoweroffMachine" = Some (class_deps CPoweroff) /\
  dep "ncclient.operations.flowmon" "RebootMachine" = Some (class_deps CReboot).
Proof. tie. Qed.
Print Assumptions tie_depends.

(* ... and no other RPC class of the source tree has a non-empty DEPENDS *)
Theorem tie_depends_others :
  map (fun c => (rc_module c, rc_name c)) (filter (fun c => match rc_depends c with [] => false | _ => true end) rpc_classes) =
  [ (lit "ncclient.operations.edit"%string, lit "Validate"%string);
    (lit "ncclient.operations.edit"%string, lit "Commit"%string);
    (lit "ncclient.operations.edit"%string, lit "CancelCommit"%string);
    (lit "ncclient.operations.edit"%string, lit "DiscardChanges"%string);
    (lit "ncclient.operations.flowmon"%string, lit "PoweroffMachine"%string);
    (lit "ncclient.operations.flowmon"%string, lit "RebootMachine"%string);
    (lit "ncclient.operations.subscribe"%string, lit "CreateSubscription"%string);
    (lit "ncclient.operations.third_party.juniper.rpc"%string, lit "Commit"%string);
    (lit "ncclient.operations.third_party.sros.rpc"%string, lit "Commit"%string) ].
Proof. tie. Qed.
Print Assumptions tie_depends_others.

(* util.datastore_or_url:  "://" in loc,  capcheck(":url"),  sub_ele(node, "url")  — ds_steps *)
Theorem tie_operations_util_datastore_or_url : L_operations_util_datastore_or_url = [s_css; s_k_url; lit "url"%string].
Proof. tie. Qed.
Print Assumptions tie_operations_util_datastore_or_url.

(* retrieve._get_valid_with_defaults_modes: capabilities[":with-defaults"], parameters["basic-mode"], the error text,
   parameters.get("also-supported"), .split(",")  — Gating.with_defaults *)
Theorem tie_operations_retrieve__get_valid_with_defaults_modes : L_operations_retrieve__get_valid_with_defaults_modes =
  [s_k_wd; s_basic_mode;
   lit "Invalid 'with-defaults' capability URI advertised by the server; missing 'basic-mode' parameter"%string;
   s_also_supported; [COMMA]].
Proof. tie. Qed.
Print Assumptions tie_operations_retrieve__get_valid_with_defaults_modes.
