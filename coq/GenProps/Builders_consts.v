(* GenProps/Builders_consts.v — literal ties of Model/Builders.v and Model/Gating.v (property C07; the
   capability-check literals alone are tied again, from the structured tables, in Gating_consts.v for C09).
   Re-proved on every run from coq/Gen/Gen_Lits.v, which tools/translate.py regenerates from the source under
   test: for every request builder of the standard operations, the string literals of the function (default
   values of parameters first, then the body, in source order; docstrings and log texts excluded) are the
   constants the models were written with: element and attribute names, the enumerations handed to
   validate_args, the capability names handed to _assert, the texts of the local errors.  A changed, added or
   removed literal breaks the tie of that function by computation (notes/tie.md).  Literals the models do not
   hold as a constant of their own (default argument values, error texts) are written in line. *)
From Coq Require Import String List.
From NC Require Import Model.Base Model.Lit Gen.Gen_Const Gen.Gen_Lits GenProps.TieTac.
From NC Require Import Model.Caps Model.Gating Model.Builders.
From NC Require Import Gen.Gen_Devices.
Import ListNotations.
Set Printing Width 400.

(* the namespaces the builders name are the constants of xml_.py *)
Theorem tie_builders_namespaces :
  xml_BASE_NS_1_0 = NS_BASE /\ xml_NETCONF_NOTIFICATION_NS = NS_NOTIF /\ xml_NETCONF_MONITORING_NS = NS_MON /\
  xml_NETCONF_WITH_DEFAULTS_NS = NS_WD.
Proof. tie. Qed.
Print Assumptions tie_builders_namespaces.

(* ncclient/operations/edit.py:32  operations.edit.EditConfig.request
   (format='xml', target='candidate' are the defaults of the parameters; the three enumerations are the lists of Gating.v) *)
Theorem tie_operations_edit_EditConfig_request : L_operations_edit_EditConfig_request =
  [Gating.s_f_xml;
   lit "candidate"%string;
   Builders.s_edit_config;
   Builders.s_target;
   lit "default_operation"%string] ++ Gating.DEFAULT_OPS ++     (* validate_args('default_operation', ..., ["merge", "replace", "none"]) *)
  [Builders.s_default_operation;
   lit "test_option"%string] ++ Gating.TEST_OPTS ++
  [Gating.s_k_validate;
   Gating.s_test_only;
   Gating.s_k_validate11;
   Builders.s_test_option;
   lit "error_option"%string] ++ Gating.ERROR_OPTS ++
  [Gating.s_rollback_on_error;
   Gating.s_k_rollback;
   Builders.s_error_option;
   Gating.s_f_xml;
   Builders.s_config;
   Builders.s_config;
   Gating.s_f_text;
   Builders.s_config_text;
   Builders.s_configuration_text;
   Builders.s_url;
   Gating.s_k_url;
   Builders.s_url;
   lit "Invalid URL."%string].
Proof. tie. Qed.
Print Assumptions tie_operations_edit_EditConfig_request.

(* ncclient/operations/edit.py:82  operations.edit.DeleteConfig.request *)
Theorem tie_operations_edit_DeleteConfig_request : L_operations_edit_DeleteConfig_request =
  [Builders.s_delete_config;
   Builders.s_target].
Proof. tie. Qed.
Print Assumptions tie_operations_edit_DeleteConfig_request.

(* ncclient/operations/edit.py:96  operations.edit.CopyConfig.request *)
Theorem tie_operations_edit_CopyConfig_request : L_operations_edit_CopyConfig_request =
  [Builders.s_copy_config;
   Builders.s_target;
   lit "<"%string;
   Builders.s_source;
   Builders.s_source;
   Builders.s_source].
Proof. tie. Qed.
Print Assumptions tie_operations_edit_CopyConfig_request.

(* ncclient/operations/edit.py:123  operations.edit.Validate.request *)
Theorem tie_operations_edit_Validate_request : L_operations_edit_Validate_request =
  [lit "candidate"%string;
   Builders.s_validate;
   Builders.s_source;
   Builders.s_config;
   Builders.s_config;
   Builders.s_source].
Proof. tie. Qed.
Print Assumptions tie_operations_edit_Validate_request.

(* ncclient/operations/edit.py:118  operations.edit.Validate.__class__ *)
Theorem tie_operations_edit_Validate___class__ : L_operations_edit_Validate___class__ =
  [Gating.s_k_validate].
Proof. tie. Qed.
Print Assumptions tie_operations_edit_Validate___class__.

(* ncclient/operations/edit.py:145  operations.edit.Commit.request *)
Theorem tie_operations_edit_Commit_request : L_operations_edit_Commit_request =
  [Builders.s_commit;
   lit "Invalid operation as persist cannot be present with persist-id"%string;
   Gating.s_k_confirmed;
   Builders.s_confirmed;
   Builders.s_confirm_timeout;
   Builders.s_persist;
   Gating.s_k_confirmed;
   Builders.s_persist_id].
Proof. tie. Qed.
Print Assumptions tie_operations_edit_Commit_request.

(* ncclient/operations/edit.py:140  operations.edit.Commit.__class__ *)
Theorem tie_operations_edit_Commit___class__ : L_operations_edit_Commit___class__ =
  [Gating.s_k_candidate].
Proof. tie. Qed.
Print Assumptions tie_operations_edit_Commit___class__.

(* ncclient/operations/edit.py:179  operations.edit.CancelCommit.request *)
Theorem tie_operations_edit_CancelCommit_request : L_operations_edit_CancelCommit_request =
  [Builders.s_cancel_commit;
   Builders.s_persist_id].
Proof. tie. Qed.
Print Assumptions tie_operations_edit_CancelCommit_request.

(* ncclient/operations/edit.py:174  operations.edit.CancelCommit.__class__ *)
Theorem tie_operations_edit_CancelCommit___class__ : L_operations_edit_CancelCommit___class__ =
  [Gating.s_k_candidate;
   Gating.s_k_confirmed].
Proof. tie. Qed.
Print Assumptions tie_operations_edit_CancelCommit___class__.

(* ncclient/operations/edit.py:196  operations.edit.DiscardChanges.request *)
Theorem tie_operations_edit_DiscardChanges_request : L_operations_edit_DiscardChanges_request =
  [Builders.s_discard_changes].
Proof. tie. Qed.
Print Assumptions tie_operations_edit_DiscardChanges_request.

(* ncclient/operations/edit.py:191  operations.edit.DiscardChanges.__class__ *)
Theorem tie_operations_edit_DiscardChanges___class__ : L_operations_edit_DiscardChanges___class__ =
  [Gating.s_k_candidate].
Proof. tie. Qed.
Print Assumptions tie_operations_edit_DiscardChanges___class__.

(* ncclient/operations/flowmon.py: PC_URN, the namespace of the two power-control operations *)
Theorem tie_operations_flowmon___module__ : L_operations_flowmon___module__ = [Builders.NS_PC].
Proof. tie. Qed.
Print Assumptions tie_operations_flowmon___module__.

(* ncclient/operations/flowmon.py:29  operations.flowmon.PoweroffMachine.request *)
Theorem tie_operations_flowmon_PoweroffMachine_request : L_operations_flowmon_PoweroffMachine_request =
  [Builders.s_poweroff].
Proof. tie. Qed.
Print Assumptions tie_operations_flowmon_PoweroffMachine_request.

(* ncclient/operations/flowmon.py:23  operations.flowmon.PoweroffMachine.__class__ *)
Theorem tie_operations_flowmon_PoweroffMachine___class__ : L_operations_flowmon_PoweroffMachine___class__ =
  [Gating.s_k_poweroff].
Proof. tie. Qed.
Print Assumptions tie_operations_flowmon_PoweroffMachine___class__.

(* ncclient/operations/flowmon.py:38  operations.flowmon.RebootMachine.request *)
Theorem tie_operations_flowmon_RebootMachine_request : L_operations_flowmon_RebootMachine_request =
  [Builders.s_reboot].
Proof. tie. Qed.
Print Assumptions tie_operations_flowmon_RebootMachine_request.

(* ncclient/operations/flowmon.py:32  operations.flowmon.RebootMachine.__class__ *)
Theorem tie_operations_flowmon_RebootMachine___class__ : L_operations_flowmon_RebootMachine___class__ =
  [Gating.s_k_reboot].
Proof. tie. Qed.
Print Assumptions tie_operations_flowmon_RebootMachine___class__.

(* ncclient/operations/lock.py:28  operations.lock.Lock.request *)
Theorem tie_operations_lock_Lock_request : L_operations_lock_Lock_request =
  [lit "candidate"%string;
   Builders.s_lock;
   Builders.s_target].
Proof. tie. Qed.
Print Assumptions tie_operations_lock_Lock_request.

(* ncclient/operations/lock.py:42  operations.lock.Unlock.request *)
Theorem tie_operations_lock_Unlock_request : L_operations_lock_Unlock_request =
  [lit "candidate"%string;
   Builders.s_unlock;
   Builders.s_target].
Proof. tie. Qed.
Print Assumptions tie_operations_lock_Unlock_request.

(* ncclient/operations/retrieve.py:72  operations.retrieve.Get.request *)
Theorem tie_operations_retrieve_Get_request : L_operations_retrieve_Get_request =
  [Builders.s_get;
   Gating.s_k_wd].
Proof. tie. Qed.
Print Assumptions tie_operations_retrieve_Get_request.

(* ncclient/operations/retrieve.py:94  operations.retrieve._append_with_defaults_mode *)
Theorem tie_operations_retrieve__append_with_defaults_mode : L_operations_retrieve__append_with_defaults_mode =
  [Builders.s_with_defaults].
Proof. tie. Qed.
Print Assumptions tie_operations_retrieve__append_with_defaults_mode.

(* ncclient/operations/retrieve.py:104  operations.retrieve._validate_with_defaults_mode *)
Theorem tie_operations_retrieve__validate_with_defaults_mode : L_operations_retrieve__validate_with_defaults_mode =
  [lit "Invalid 'with-defaults' mode '{provided}'; the server only supports the following: {options}"%string;
   lit ", "%string].
Proof. tie. Qed.
Print Assumptions tie_operations_retrieve__validate_with_defaults_mode.

(* ncclient/operations/retrieve.py:118  operations.retrieve._get_valid_with_defaults_modes *)
Theorem tie_operations_retrieve__get_valid_with_defaults_modes : L_operations_retrieve__get_valid_with_defaults_modes =
  [Gating.s_k_wd;
   Gating.s_basic_mode;
   lit "Invalid 'with-defaults' capability URI advertised by the server; missing 'basic-mode' parameter"%string;
   Gating.s_also_supported;
   lit ","%string].
Proof. tie. Qed.
Print Assumptions tie_operations_retrieve__get_valid_with_defaults_modes.

(* ncclient/operations/retrieve.py:147  operations.retrieve.GetConfig.request *)
Theorem tie_operations_retrieve_GetConfig_request : L_operations_retrieve_GetConfig_request =
  [Builders.s_get_config;
   Builders.s_source;
   Gating.s_k_wd].
Proof. tie. Qed.
Print Assumptions tie_operations_retrieve_GetConfig_request.

(* ncclient/operations/retrieve.py:177  operations.retrieve.GetSchema.request *)
Theorem tie_operations_retrieve_GetSchema_request : L_operations_retrieve_GetSchema_request =
  [Builders.s_get_schema;
   Builders.s_identifier;
   Builders.s_version;
   Builders.s_format].
Proof. tie. Qed.
Print Assumptions tie_operations_retrieve_GetSchema_request.

(* ncclient/operations/retrieve.py:210  operations.retrieve.Dispatch.request *)
Theorem tie_operations_retrieve_Dispatch_request : L_operations_retrieve_Dispatch_request =
  [Builders.s_source].
Proof. tie. Qed.
Print Assumptions tie_operations_retrieve_Dispatch_request.

(* ncclient/operations/rpc.py:306  operations.rpc.RPC.__init__ *)
Theorem tie_operations_rpc_RPC___init__ : L_operations_rpc_RPC___init__ =
  [lit "session"%string].
Proof. tie. Qed.
Print Assumptions tie_operations_rpc_RPC___init__.

(* ncclient/operations/rpc.py:340  operations.rpc.RPC._wrap *)
Theorem tie_operations_rpc_RPC__wrap : L_operations_rpc_RPC__wrap =
  [Builders.s_rpc;
   Builders.s_message_id].
Proof. tie. Qed.
Print Assumptions tie_operations_rpc_RPC__wrap.

(* ncclient/operations/rpc.py:393  operations.rpc.RPC._assert *)
Theorem tie_operations_rpc_RPC__assert : L_operations_rpc_RPC__assert =
  [lit "Server does not support [%s]"%string].
Proof. tie. Qed.
Print Assumptions tie_operations_rpc_RPC__assert.

(* ncclient/operations/rpc.py:487  operations.rpc.GenericRPC.request *)
Theorem tie_operations_rpc_GenericRPC_request : L_operations_rpc_GenericRPC_request =
  [Builders.s_target;
   Builders.s_source;
   Builders.s_config;
   Builders.s_config].
Proof. tie. Qed.
Print Assumptions tie_operations_rpc_GenericRPC_request.

(* ncclient/operations/session.py:25  operations.session.CloseSession.request *)
Theorem tie_operations_session_CloseSession_request : L_operations_session_CloseSession_request =
  [Builders.s_close_session].
Proof. tie. Qed.
Print Assumptions tie_operations_session_CloseSession_request.

(* ncclient/operations/session.py:41  operations.session.KillSession.request *)
Theorem tie_operations_session_KillSession_request : L_operations_session_KillSession_request =
  [Builders.s_kill_session;
   Builders.s_session_id].
Proof. tie. Qed.
Print Assumptions tie_operations_session_KillSession_request.

(* ncclient/operations/subscribe.py:27  operations.subscribe.CreateSubscription.request *)
Theorem tie_operations_subscribe_CreateSubscription_request : L_operations_subscribe_CreateSubscription_request =
  [Builders.s_create_subscription;
   Builders.s_stream;
   Builders.s_filter;
   Builders.s_startTime;
   lit "You must provide start_time if you provide stop_time"%string;
   Builders.s_stopTime].
Proof. tie. Qed.
Print Assumptions tie_operations_subscribe_CreateSubscription_request.

(* ncclient/operations/subscribe.py:22  operations.subscribe.CreateSubscription.__class__ *)
Theorem tie_operations_subscribe_CreateSubscription___class__ : L_operations_subscribe_CreateSubscription___class__ =
  [Gating.s_k_notification].
Proof. tie. Qed.
Print Assumptions tie_operations_subscribe_CreateSubscription___class__.

(* ncclient/operations/util.py:24  operations.util.one_of *)
Theorem tie_operations_util_one_of : L_operations_util_one_of =
  [lit "Too many parameters"%string;
   lit "Insufficient parameters"%string].
Proof. tie. Qed.
Print Assumptions tie_operations_util_one_of.

(* ncclient/operations/util.py:35  operations.util.datastore_or_url *)
Theorem tie_operations_util_datastore_or_url : L_operations_util_datastore_or_url =
  [Gating.s_css;
   Gating.s_k_url;
   Builders.s_url].
Proof. tie. Qed.
Print Assumptions tie_operations_util_datastore_or_url.

(* ncclient/operations/util.py:51  operations.util.build_filter *)
Theorem tie_operations_util_build_filter : L_operations_util_build_filter =
  [Builders.s_xpath;
   Builders.s_filter; Builders.s_type;          (* new_ele_nsmap("filter", ns, type=type): the keyword is the attribute name *)
   Builders.s_select;
   Builders.s_filter; Builders.s_type;
   Builders.s_select;
   Builders.s_subtree;
   Builders.s_filter; Builders.s_type;
   lit "Invalid filter type"%string;
   Builders.s_filter; Builders.s_type;
   Builders.s_subtree;
   Builders.s_filter;
   Builders.s_filter;
   Builders.s_filter;
   Builders.s_xpath;
   lit ":xpath"%string].     (* capcheck(":xpath"): build_filter is called without capcheck by every builder (Gating.v has no :xpath check) *)
Proof. tie. Qed.
Print Assumptions tie_operations_util_build_filter.

(* ncclient/operations/util.py:84  operations.util.validate_args *)
Theorem tie_operations_util_validate_args : L_operations_util_validate_args =
  [lit "Invalid value ""%s"" in ""%s"" element"%string].
Proof. tie. Qed.
Print Assumptions tie_operations_util_validate_args.

(* ncclient/operations/util.py:90  operations.util.url_validator *)
Theorem tie_operations_util_url_validator : L_operations_util_url_validator = [].
Proof. tie. Qed.
Print Assumptions tie_operations_util_url_validator.


(* ---- the device profiles' hook on the finished <edit-config> element (Builders.transform_edit_config) ----
   ncclient/devices/iosxe.py:44  devices.iosxe.IosxeDeviceHandler.transform_edit_config
       nodes = node.findall("./config"); if len(nodes) == 1: nodes[0].tag = '{%s}%s' % (BASE_NS_1_0, 'config')
   The path "./config" (direct children, no namespace), the count 1, the index 0 and the new name are the constants of
   Builders.iosxe_transform / is_bare_config / to_base_config; the log text is excluded by the translator. *)
Theorem tie_devices_iosxe_transform_edit_config :
  L_devices_iosxe_IosxeDeviceHandler_transform_edit_config = [lit "./config"%string; lit "{%s}%s"%string; Builders.s_config]
  /\ I_devices_iosxe_IosxeDeviceHandler_transform_edit_config = [1; 0]%N
  /\ R_devices_iosxe_IosxeDeviceHandler_transform_edit_config = [lit "BASE_NS_1_0"%string].
Proof. tie. Qed.
Print Assumptions tie_devices_iosxe_transform_edit_config.

(* which profiles have a hook of their own, and the source text the model of each was written for: DefaultDeviceHandler
   (`return node`, inherited by 12 profiles) and IosxeDeviceHandler.  A hook added to another profile, or a changed body,
   breaks this tie: the model [transform_edit_config] (identity unless p_iosxe) must then be revisited. *)
Definition s_transform_edit_config := Eval compute in lit "transform_edit_config"%string.
Theorem tie_transform_edit_config_definers :
  map h_module (filter (fun h => mem_bytes s_transform_edit_config (h_defines h)) handlers) = [lit "default"%string; lit "iosxe"%string]
  /\ L_devices_default_DefaultDeviceHandler_transform_edit_config = []
  /\ method_digest h_default s_transform_edit_config = Some (lit "9c1d4d1441905e63"%string)
  /\ method_digest h_iosxe s_transform_edit_config = Some (lit "df8c22a0a6def2ef"%string).
Proof. tie. Qed.
Print Assumptions tie_transform_edit_config_definers.
