(* GenProps/LockCtx_consts.v — literal ties of Model/LockCtx.v (property C13).
   Re-proved on every run from coq/Gen/Gen_Lits.v / Gen_Tables.v, regenerated from the source under test:
   LockContext.__enter__ / __exit__ build their Lock / Unlock with raise_mode=RaiseMode.ERRORS (the MODE_ERRORS of
   LockCtx.exec), and Lock / Unlock build <lock>/<unlock> with a <target>.  notes/tie.md. *)
From Coq Require Import String List.
From NC Require Import Model.Base Model.Lit Gen.Gen_Lits Gen.Gen_Tables GenProps.TieTac.
From NC Require Import Model.RpcErrors Model.LockCtx.
Import ListNotations.
Set Printing Width 400.

Theorem tie_operations_lock_LockContext :
  R_operations_lock_LockContext___enter__ = [lit "RaiseMode.ERRORS"%string] /\
  R_operations_lock_LockContext___exit__ = [lit "RaiseMode.ERRORS"%string] /\
  K_operations_rpc_RaiseMode_ERRORS = MODE_ERRORS /\
  L_operations_lock_LockContext___enter__ = [] /\ L_operations_lock_LockContext___exit__ = [] /\
  I_operations_lock_LockContext___exit__ = [0]%N.       (* args[0] is None *)
Proof. tie. Qed.
Print Assumptions tie_operations_lock_LockContext.

(* Lock.request / Unlock.request (target="candidate" is the default of the parameter) *)
Theorem tie_operations_lock_requests :
  L_operations_lock_Lock_request = [lit "candidate"%string; lit "lock"%string; lit "target"%string] /\
  L_operations_lock_Unlock_request = [lit "candidate"%string; lit "unlock"%string; lit "target"%string].
Proof. tie. Qed.
Print Assumptions tie_operations_lock_requests.
