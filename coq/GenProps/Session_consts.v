(* GenProps/Session_consts.v — the exception hierarchy the session model relies on (Model/SessionLTS.v: properties
   C03, C04, C11 and the session clause of C14).
   Re-proved on every run from coq/Gen/Gen_Tables.v, which tools/translate.py regenerates from the `class X(Y)`
   statements of the source under test.  SessionLTS.is_transport decides what Session.run broadcasts when the
   closing flag is set (`isinstance(e, TransportError)`): it must be the subclass relation the code has NOW.
   notes/tie.md. *)
From Coq Require Import String List.
From NC Require Import Model.Base Model.Lit Gen.Gen_Tables GenProps.TieTac.
From NC Require Import Model.SessionLTS.
Import ListNotations.
Set Printing Width 400.

(* the exception codes of SessionLTS.v that stand for ncclient classes (3 = "any other exception", e.g. UnicodeDecodeError,
   and 99 = internal are not ncclient classes) *)
Definition exc_codes : list (exc * bytes) :=
  [ (1, lit "SessionCloseError"%string); (2, lit "OperationError"%string); (4, lit "TimeoutExpiredError"%string);
    (5, lit "TransportError"%string); (6, lit "NetconfFramingError"%string) ].
Definition s_TransportError : bytes := lit "TransportError"%string.

(* is_transport e  =  issubclass(<class of code e>, TransportError), for every code that names an ncclient class *)
Theorem tie_is_transport :
  map (fun p => is_transport (fst p)) exc_codes = map (fun p => exc_derives (snd p) s_TransportError) exc_codes.
Proof. tie. Qed.
Print Assumptions tie_is_transport.

Corollary tie_is_transport_each : forall e name, In (e, name) exc_codes -> is_transport e = exc_derives name s_TransportError.
Proof.
  intros e name H. unfold exc_codes in H. cbn [In] in H.
  repeat (destruct H as [H | H]; [inversion H; subst; vm_compute; reflexivity | ]). contradiction.
Qed.
Print Assumptions tie_is_transport_each.

(* codes that are not ncclient classes are not TransportErrors, in the model and in the table *)
Theorem tie_is_transport_other :
  is_transport 3 = false /\ exc_derives (lit "UnicodeDecodeError"%string) s_TransportError = false /\
  exc_derives (lit "Exception"%string) s_TransportError = false.
Proof. tie. Qed.
Print Assumptions tie_is_transport_other.

(* the whole relation, pinned: every exception class of ncclient with its bases, and the classes below TransportError *)
Theorem tie_exc_hierarchy :
  map (fun r => (fst r, snd (snd r))) exc_classes =
  [ (lit "NCClientError"%string, [lit "Exception"%string]);
    (lit "_InvalidParameter"%string, [lit "Exception"%string]);
    (lit "OperationError"%string, [lit "NCClientError"%string]);
    (lit "TimeoutExpiredError"%string, [lit "NCClientError"%string]);
    (lit "MissingCapabilityError"%string, [lit "NCClientError"%string]);
    (lit "WithDefaultsError"%string, [lit "OperationError"%string]);
    (lit "RPCError"%string, [lit "OperationError"%string]);
    (lit "TransportError"%string, [lit "NCClientError"%string]);
    (lit "SessionError"%string, [lit "NCClientError"%string]);
    (lit "AuthenticationError"%string, [lit "TransportError"%string]);
    (lit "PermissionError"%string, [lit "TransportError"%string]);
    (lit "SessionCloseError"%string, [lit "TransportError"%string]);
    (lit "SSHError"%string, [lit "TransportError"%string]);
    (lit "SSHUnknownHostError"%string, [lit "SSHError"%string]);
    (lit "NetconfFramingError"%string, [lit "TransportError"%string]);
    (lit "TLSError"%string, [lit "TransportError"%string]);
    (lit "UnixSocketError"%string, [lit "TransportError"%string]);
    (lit "SAXFilterXMLNotFoundError"%string, [lit "OperationError"%string]);
    (lit "XMLError"%string, [lit "NCClientError"%string]) ].
Proof. tie. Qed.
Print Assumptions tie_exc_hierarchy.

Theorem tie_transport_subclasses : exc_subclasses s_TransportError =
  [ lit "TransportError"%string; lit "AuthenticationError"%string; lit "PermissionError"%string;
    lit "SessionCloseError"%string; lit "SSHError"%string; lit "SSHUnknownHostError"%string;
    lit "NetconfFramingError"%string; lit "TLSError"%string; lit "UnixSocketError"%string ].
Proof. tie. Qed.
Print Assumptions tie_transport_subclasses.
