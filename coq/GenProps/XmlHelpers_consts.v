(* GenProps/XmlHelpers_consts.v — literal ties of Model/XmlHelpers.v (properties C10, C17).
   Re-proved on every run from the tables tools/translate.py regenerates from the source under test (Gen_Lits:
   literals per function of ncclient/xml_.py in source order; Gen_Const: its constants).  notes/tie.md. *)
From Coq Require Import String List.
From NC Require Import Model.Base Model.Lit Gen.Gen_Const Gen.Gen_Lits Gen.Gen_Tables GenProps.TieTac.
From NC Require Import Model.XmlHelpers.
Import ListNotations.
Set Printing Width 400.

(* new_ele / sub_ele qualify with BASE_NS_1_0 (the default namespace of qualify); none of the element constructors
   has a literal of its own *)
Theorem tie_xml_base_ns :
  xml_BASE_NS_1_0 = BASE_NS /\ xml_qualify_default_ns = BASE_NS /\ L_xml__qualify = [lit "{%s}%s"%string] /\
  L_xml__new_ele = [] /\ L_xml__new_ele_ns = [] /\ L_xml__new_ele_nsmap = [] /\ L_xml__sub_ele = [] /\ L_xml__sub_ele_ns = [].
Proof. tie. Qed.
Print Assumptions tie_xml_base_ns.

(* to_xml(ele, encoding="UTF-8"):  xml.decode('UTF-8') if xml.startswith(b'<?xml')
                                   else '<?xml version="1.0" encoding="%s"?>%s' % (encoding, xml.decode('UTF-8')) *)
Theorem tie_xml__to_xml : L_xml__to_xml =
  [lit "UTF-8"%string; lit "UTF-8"%string; XML_PFX; DECL_A ++ lit "%s"%string ++ DECL_B ++ lit "%s"%string; lit "UTF-8"%string].
Proof. tie. Qed.
Print Assumptions tie_xml__to_xml.

(* to_ele: x.encode('UTF-8');  parse_root: raw.encode('UTF-8'), events=('start',) *)
Theorem tie_xml__to_ele_parse_root :
  L_xml__to_ele = [lit "UTF-8"%string] /\ L_xml__parse_root = [lit "UTF-8"%string; lit "start"%string].
Proof. tie. Qed.
Print Assumptions tie_xml__to_ele_parse_root.

(* validated_element: the two XMLError texts *)
Theorem tie_xml__validated_element : L_xml__validated_element =
  [lit "Element [%s] does not meet requirement"%string; lit "Element [%s] does not have required attributes"%string].
Proof. tie. Qed.
Print Assumptions tie_xml__validated_element.

(* NCElement: remove_namespaces encodes to UTF-8; the other modelled methods have no literal *)
Theorem tie_xml__NCElement :
  L_xml__NCElement___init__ = [] /\ L_xml__NCElement_xpath = [] /\ L_xml__NCElement_find = [] /\
  L_xml__NCElement_tostring = [] /\ L_xml__NCElement_data_xml = [] /\ L_xml__NCElement_remove_namespaces = [lit "UTF-8"%string].
Proof. tie. Qed.
Print Assumptions tie_xml__NCElement.

(* parent_ns / yang_action / replace_namespace *)
Theorem tie_xml__yang_action :
  L_xml__parent_ns = [] /\ L_xml__yang_action = [lit "action"%string; lit "xmlns"%string] /\ L_xml__replace_namespace = [].
Proof. tie. Qed.
Print Assumptions tie_xml__yang_action.
