(* GenProps/HelloWait_consts.v — literal ties of Model/HelloWait.v (property C05, the timeout clause).
   Re-proved on every run from the tables tools/translate.py regenerates from the source under test (notes/tie.md).
   The model's numbers are milliseconds; the source's are seconds. *)
From Coq Require Import String List NArith.
From NC Require Import Model.Base Model.Lit Gen.Gen_Const Gen.Gen_Lits GenProps.TieTac.
From NC Require Import Model.HelloWait.
Import ListNotations.
Set Printing Width 400.

(* Session._post_connect(self, timeout=60): the default, and the value `timeout is None` is replaced by *)
Theorem tie_hello_default :
  D_transport_session_Session__post_connect = [(lit "timeout"%string, lit "60"%string)] /\
  firstn 2 I_transport_session_Session__post_connect = [60; 60]%N /\
  default_hello_ms = (1000 * 60)%N.
Proof. tie. Qed.
Print Assumptions tie_hello_default.

(* SSHSession.connect: timeout=None (third parameter after host, port); TLSSession.connect: timeout=DEFAULT_TLS_TIMEOUT
   (ninth); UnixSocketSession.connect(path=None, timeout=DEFAULT_TIMEOUT); Manager.__init__(..., timeout=30) *)
Theorem tie_connect_timeout_defaults :
  nth 1 D_transport_ssh_SSHSession_connect ([], []) = (lit "timeout"%string, lit "None"%string) /\
  nth 8 D_transport_tls_TLSSession_connect ([], []) = (lit "timeout"%string, lit "DEFAULT_TLS_TIMEOUT"%string) /\
  default_tls_ms = (1000 * tls_DEFAULT_TLS_TIMEOUT)%N /\
  D_transport_unixSocket_UnixSocketSession_connect =
    [(lit "path"%string, lit "None"%string); (lit "timeout"%string, lit "DEFAULT_TIMEOUT"%string)] /\
  default_uds_ms = (1000 * unix_DEFAULT_TIMEOUT)%N /\
  nth 0 D_manager_Manager___init__ ([], []) = (lit "timeout"%string, lit "30"%string) /\
  default_manager_ms = (1000 * 30)%N.
Proof. tie. Qed.
Print Assumptions tie_connect_timeout_defaults.

(* _extract_manager_params: kwds.pop("manager_params", {}), then the four uses of the key 'timeout' *)
Theorem tie_manager__extract_manager_params : L_manager__extract_manager_params =
  [lit "manager_params"%string; lit "timeout"%string; lit "timeout"%string; lit "timeout"%string; lit "timeout"%string].
Proof. tie. Qed.
Print Assumptions tie_manager__extract_manager_params.
