(* GenProps/Negotiate_consts.v — literal ties of Model/Negotiate.v (property C05).
   Re-proved on every run from the tables tools/translate.py regenerates from the source under test
   (Gen_Lits: literals per function in source order; Gen_Devices: class-level lists of the device handlers;
   Gen_Const / Gen_Tables: constants of xml_.py and the default namespace of qualify).  notes/tie.md. *)
From Coq Require Import String List.
From NC Require Import Model.Base Model.Lit Gen.Gen_Const Gen.Gen_Lits Gen.Gen_Tables Gen.Gen_Devices GenProps.TieTac.
From NC Require Import Model.Caps Model.Negotiate.
Import ListNotations.
Set Printing Width 400.

(* transport/session.py Session._post_connect: the error text of the timeout, then
   `':base:1.1' in self._server_capabilities and ':base:1.1' in self._client_capabilities` (after the F13 repair) *)
Theorem tie_transport_session_Session__post_connect : L_transport_session_Session__post_connect =
  [lit "Capability exchange timed out"%string; k11; k11].
Proof. tie. Qed.
Print Assumptions tie_transport_session_Session__post_connect.

(* HelloHandler.callback: tag == qualify("hello") or tag == "hello" *)
Theorem tie_transport_session_HelloHandler_callback : L_transport_session_HelloHandler_callback = [t_hello; t_hello].
Proof. tie. Qed.
Print Assumptions tie_transport_session_HelloHandler_callback.

(* HelloHandler.build: {"nsmap": ...}, new_ele("hello"), sub_ele(hello, "capabilities"), sub_ele(caps, "capability") *)
Theorem tie_transport_session_HelloHandler_build : L_transport_session_HelloHandler_build =
  [lit "nsmap"%string; t_hello; t_capabilities; t_capability].
Proof. tie. Qed.
Print Assumptions tie_transport_session_HelloHandler_build.

(* HelloHandler.parse: the three `child.tag == qualify(x) or child.tag == x` tests, in the order of the model's parse_loop;
   sid starts as the int 0 (SidDefault) *)
Theorem tie_transport_session_HelloHandler_parse : L_transport_session_HelloHandler_parse =
  [t_session_id; t_session_id; t_capabilities; t_capabilities; t_capability; t_capability].
Proof. tie. Qed.
Print Assumptions tie_transport_session_HelloHandler_parse.
Theorem tie_nums_transport_session_HelloHandler_parse : I_transport_session_HelloHandler_parse = [0]%N.
Proof. tie. Qed.
Print Assumptions tie_nums_transport_session_HelloHandler_parse.

(* qualify(tag) = "{" + BASE_NS_1_0 + "}" + tag : the model's base_ns_braced *)
Theorem tie_qualify_base_ns : base_ns_braced = [123] ++ xml_qualify_default_ns ++ [125] /\ xml_qualify_default_ns = xml_BASE_NS_1_0 /\
  L_xml__qualify = [lit "{%s}%s"%string].
Proof. tie. Qed.
Print Assumptions tie_qualify_base_ns.

(* devices/default.py: _BASE_CAPABILITIES is the model's base_caps; get_capabilities has no literal of its own *)
Theorem tie_base_capabilities : BASE_CAPABILITIES = base_caps /\ L_devices_default_DefaultDeviceHandler_get_capabilities = [].
Proof. tie. Qed.
Print Assumptions tie_base_capabilities.

(* the five get_capabilities bodies that do not inherit the default one *)
Theorem tie_devices_alu_AluDeviceHandler_get_capabilities : L_devices_alu_AluDeviceHandler_get_capabilities = [uri_b10].
Proof. tie. Qed.
Print Assumptions tie_devices_alu_AluDeviceHandler_get_capabilities.
Theorem tie_devices_huawei_HuaweiDeviceHandler_get_capabilities : L_devices_huawei_HuaweiDeviceHandler_get_capabilities = huawei_caps.
Proof. tie. Qed.
Print Assumptions tie_devices_huawei_HuaweiDeviceHandler_get_capabilities.
Theorem tie_devices_huaweiyang_HuaweiyangDeviceHandler_get_capabilities :
  L_devices_huaweiyang_HuaweiyangDeviceHandler_get_capabilities = [uri_b10; uri_b11].
Proof. tie. Qed.
Print Assumptions tie_devices_huaweiyang_HuaweiyangDeviceHandler_get_capabilities.
(* c[0] = "urn:ietf:params:xml:ns:netconf:base:1.0" *)
Theorem tie_devices_nexus_NexusDeviceHandler_get_capabilities :
  L_devices_nexus_NexusDeviceHandler_get_capabilities = [uri_b10x] /\ I_devices_nexus_NexusDeviceHandler_get_capabilities = [0]%N.
Proof. tie. Qed.
Print Assumptions tie_devices_nexus_NexusDeviceHandler_get_capabilities.
(* additional = [...]; if self.device_params.get('config_mode') == ConfigMode.PRIVATE: additional.append('urn:nokia.com:nc:pc') *)
Theorem tie_devices_sros_SrosDeviceHandler_get_capabilities :
  L_devices_sros_SrosDeviceHandler_get_capabilities = sros_caps ++ [lit "config_mode"%string; sros_private].
Proof. tie. Qed.
Print Assumptions tie_devices_sros_SrosDeviceHandler_get_capabilities.
