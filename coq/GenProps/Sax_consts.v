(* GenProps/Sax_consts.v — literal ties of Model/SaxFilter.v (property C18).
   Re-proved on every run from coq/Gen/Gen_Lits.v and Gen_Const.v, which tools/translate.py regenerates from the
   source under test: the literals of ncclient/transport/third_party/junos/parser.py (class SAXParser, escape,
   quoteattr), function by function and in source order, are the tag names, entity texts, quote characters and
   output formats the model was written with (notes/tie.md). *)
From Coq Require Import String List.
From NC Require Import Model.Base Model.Lit Gen.Gen_Const Gen.Gen_Lits GenProps.TieTac.
From NC Require Import Model.SaxFilter.
Import ListNotations.
Set Printing Width 400.

(* escape(data): & -> &amp;   > -> &gt;   < -> &lt;   \r -> &#13;   (esc1, in this order) *)
Theorem tie_transport_third_party_junos_parser_escape : L_transport_third_party_junos_parser_escape =
  [[38]; s_amp; [62]; s_gt; [60]; s_lt; [13]; s_cr].
Proof. tie. Qed.
Print Assumptions tie_transport_third_party_junos_parser_escape.

(* quoteattr(data): entities {'\n': '&#10;', '\r': '&#13;', '\t': '&#9;'} (qesc1);  if '"' in data: if "'" in data:
   '"%s"' % data.replace('"', "&quot;")  else "'%s'" % data  else '"%s"' % data *)
Theorem tie_transport_third_party_junos_parser_quoteattr : L_transport_third_party_junos_parser_quoteattr =
  [[10]; s_lf; [13]; s_cr; [9]; s_tab; [DQ]; [SQ]; [DQ] ++ lit "%s"%string ++ [DQ]; [DQ]; s_quot;
   [SQ] ++ lit "%s"%string ++ [SQ]; [DQ] ++ lit "%s"%string ++ [DQ]].
Proof. tie. Qed.
Print Assumptions tie_transport_third_party_junos_parser_quoteattr.

(* SAXParser.startElement: tag in ['rpc-reply', 'nc:rpc-reply'] (is_reply), tag == 'nc:rpc-reply' (nc_namespace = BASE_NS_1_0),
   attributes._attrs['message-id'], hasattr(..., '_filter_xml'), the error text, namespaces={"nc": ...},
   '<{}>\n' (OBare), '<{}{}>' (OStart), again the reply tags, '<{}{}>' *)
Theorem tie_transport_third_party_junos_parser_SAXParser_startElement : L_transport_third_party_junos_parser_SAXParser_startElement =
  [s_reply; s_ncreply; s_ncreply; s_msgid; lit "_filter_xml"%string; lit "Unknown 'message-id': %s"%string; s_nc;
   [60] ++ lit "{}"%string ++ [62; 10]; [60] ++ lit "{}{}"%string ++ [62]; [60] ++ lit "{}{}"%string ++ [62];
   s_reply; s_ncreply; [60] ++ lit "{}{}"%string ++ [62]].
Proof. tie. Qed.
Print Assumptions tie_transport_third_party_junos_parser_SAXParser_startElement.

(* the namespace "nc:" stands for: "{" + BASE_NS_1_0 + "}" *)
Theorem tie_sax_base_clark : s_base_clark = [123] ++ xml_BASE_NS_1_0 ++ [125].
Proof. tie. Qed.
Print Assumptions tie_sax_base_clark.

(* endElement: '</{}>\n' twice (OEnd);  characters: '{}' (OText);  _write_buffer: attrs = '', ' {}={}' (render_attrs) *)
Theorem tie_transport_third_party_junos_parser_SAXParser_write :
  L_transport_third_party_junos_parser_SAXParser_endElement =
    [[60; 47] ++ lit "{}"%string ++ [62; 10]; [60; 47] ++ lit "{}"%string ++ [62; 10]] /\
  L_transport_third_party_junos_parser_SAXParser_characters = [lit "{}"%string] /\
  L_transport_third_party_junos_parser_SAXParser__write_buffer = [[]; [32] ++ lit "{}"%string ++ [61] ++ lit "{}"%string] /\
  L_transport_third_party_junos_parser_SAXParser___init__ = [].
Proof. tie. Qed.
Print Assumptions tie_transport_third_party_junos_parser_SAXParser_write.

(* SaxFilter.v writes the character codes of these literals in line (esc1, qesc1, render1, render_attrs).  The model
   FUNCTIONS are evaluated here on the source literals themselves: escaping each key of the replacement tables gives the
   entity next to it, and rendering a sample name / text / attribute gives the source's format string with "{}" filled in. *)
Definition fill (fmt arg : bytes) : bytes :=
  match find_sub (lit "{}"%string) fmt with Some (a, b) => a ++ arg ++ b | None => fmt end.
Definition fill_pct (fmt arg : bytes) : bytes :=
  match find_sub (lit "%s"%string) fmt with Some (a, b) => a ++ arg ++ b | None => fmt end.
Definition smp : bytes := lit "ab"%string.
Theorem tie_sax_functions_on_samples :
  let e := L_transport_third_party_junos_parser_escape in
  let q := L_transport_third_party_junos_parser_quoteattr in
  let st := L_transport_third_party_junos_parser_SAXParser_startElement in
  let en := L_transport_third_party_junos_parser_SAXParser_endElement in
  let ch := L_transport_third_party_junos_parser_SAXParser_characters in
  let wb := L_transport_third_party_junos_parser_SAXParser__write_buffer in
  map (fun i => escape (nth (2 * i) e [])) [0; 1; 2; 3]%nat = map (fun i => nth (2 * i + 1) e []) [0; 1; 2; 3]%nat /\
  map (fun i => flat_map qesc1 (nth (2 * i) q [])) [0; 1; 2]%nat = map (fun i => nth (2 * i + 1) q []) [0; 1; 2]%nat /\
  quoteattr smp = fill_pct (nth 12 q []) smp /\                                       (* '"%s"' *)
  render1 (OBare smp) = fill (nth 7 st []) smp /\                                      (* '<{}>\n' *)
  render1 (OStart smp []) = fill (fill (nth 8 st []) smp) [] /\                        (* '<{}{}>' *)
  render1 (OEnd smp) = fill (nth 0 en []) smp /\                                       (* '</{}>\n' *)
  render1 (OText smp) = fill (nth 0 ch []) smp /\                                      (* '{}' *)
  render_attrs [(smp, smp)] = fill (fill (nth 1 wb []) smp) (quoteattr smp).           (* ' {}={}' *)
Proof. cbv zeta. tie. Qed.
Print Assumptions tie_sax_functions_on_samples.
