(* GenProps/C16_tables.v — C16 over the tables regenerated from the source on every run.

   Part 1 (definitions) links Gen/Gen_Devices.v, Gen_Ops.v, Gen_Const.v to the model of
   Model/Profiles.v: [profile_of] turns a handler record into a model profile, resolving
   inherited getters against DefaultDeviceHandler and mapping each COMPUTED getter to the
   hand-written rule through the digest of the source text the rule was written for.  A
   computed getter with an unknown digest, a handler not deriving from DefaultDeviceHandler,
   or an __init__ that is not a plain forwarder yields [None] (and breaks C16_tables_modelled).
   Part 2: theorems proved by computation over these finite shipped tables, and the
   instances of the general theorems of Props/C16.v for the shipped classes. *)
From Coq Require Import String.
From NC Require Import Model.Base Model.Lit Model.Profiles Spec.ProfilesSpec Proofs.BaseFacts Proofs.ProfilesProofs.
From NC Require Import Gen.Gen_Const Gen.Gen_Ops Gen.Gen_Devices.

(* ---------------- Part 1: link ---------------- *)
(* digests of the method bodies the hand-written rules of Model/Profiles.v were written for *)
Definition dg_caps_default := Eval compute in lit "b090db8626eed879"%string.   (* default.get_capabilities *)
Definition dg_caps_huawei := Eval compute in lit "822e13b007a2784c"%string.
Definition dg_caps_nexus := Eval compute in lit "b63db1c84e29a3d7"%string.
Definition dg_caps_sros := Eval compute in lit "7c235284d1387364"%string.
Definition dg_pfx_plain := Eval compute in lit "48be5dd6955b778c"%string.      (* d = {}; d.update(base dict); {"nsmap": d} *)
Definition dg_pfx_hpcomware := Eval compute in lit "9e3ce3b285ccb962"%string.
Definition dg_pfx_nexus := Eval compute in lit "355372bbd259412b"%string.
Definition dg_pfx_ericsson := Eval compute in lit "a8472d29c5f6f746"%string.
Definition dg_ericsson_check := Eval compute in lit "4f413cf1711a66b2"%string. (* ericsson.check_device_params *)
Definition dg_sub_nexus := Eval compute in lit "3b13a2b98b8eabba"%string.
Definition dg_default_init := Eval compute in lit "b07f1830f53d66c3"%string.   (* default.__init__: ignore_errors or self._EXEMPT_ERRORS *)
Definition dg_default_init_f7 := Eval compute in lit "982860a90823539a"%string. (* default.__init__ after the F7 repair (C06):
                                                 list(self._EXEMPT_ERRORS) + list(ignore_errors or []) *)
Definition dg_default_ncparams := Eval compute in lit "ec8e863d05e5272d"%string. (* default.add_additional_netconf_params (repaired) *)
Definition dg_make_device_handler := Eval compute in lit "45e5db3e2d3a3c30"%string.
Definition dg_manager_init := Eval compute in lit "bbab89db87638032"%string.
Definition dg_manager_getattr := Eval compute in lit "f1ac8fe752bcfe1e"%string.
Definition dg_xpath := Eval compute in lit "7994ad6288b36975"%string.          (* NCElement.xpath (repaired, F18) *)

Definition s_DefaultDeviceHandler := Eval compute in lit "DefaultDeviceHandler"%string.
Definition s_default := Eval compute in lit "default"%string.
Definition s_check_device_params := Eval compute in lit "check_device_params"%string.
Definition s___init__ := Eval compute in lit "__init__"%string.

Definition caps_rule_of (g : getter (list bytes)) : option caps_rule :=
  match g with
  | Literal l => Some (CapsLit l)
  | Computed d =>
      if beq d dg_caps_default then Some CapsBase
      else if beq d dg_caps_huawei then Some CapsHuawei
      else if beq d dg_caps_nexus then Some CapsNexus
      else if beq d dg_caps_sros then Some CapsSros
      else None
  | Inherit => None
  end.

Definition prefix_rule_of (h : handler) (g : getter (list (bytes * Gen_Devices.nsdict))) : option prefix_rule :=
  match g with
  | Literal l => Some (PfxLit l)
  | Computed d =>
      if beq d dg_pfx_plain then Some (PfxNsmap [])
      else if beq d dg_pfx_hpcomware then Some (PfxNsmap hpcomware_extra_ns)
      else if beq d dg_pfx_nexus then Some (PfxNsmap nexus_extra_ns)
      else if beq d dg_pfx_ericsson then
        match method_digest h s_check_device_params with
        | Some d' => if beq d' dg_ericsson_check then Some PfxEricsson else None
        | None => None
        end
      else None
  | Inherit => None
  end.

Definition subsys_rule_of (g : getter (list bytes)) : option subsys_rule :=
  match g with
  | Literal l => Some (SubLit l)
  | Computed d => if beq d dg_sub_nexus then Some SubNexus else None
  | Inherit => None
  end.

Definition inherit {A} (dflt g : getter A) : getter A := match g with Inherit => dflt | _ => g end.
Definition lit_of {A} (g : getter A) : option A := match g with Literal a => Some a | _ => None end.

(* (name, class) + (name, module) -> (name, (class, module)) *)
Definition zip_ops (ops mods : list (bytes * bytes)) : option (list (bytes * opcls)) :=
  fold_right (fun nc acc =>
                match acc, dict_get (fst nc) mods with
                | Some l, Some m => Some ((fst nc, (snd nc, m)) :: l)
                | _, _ => None
                end) (Some []) ops.

Definition opt_or {A} (o : option A) (d : A) : A := match o with Some a => a | None => d end.

(* methods a subclass must not override for the model's constructor story to apply *)
Definition ctor_methods : list bytes := Eval compute in
  [lit "add_additional_netconf_params"%string; lit "is_rpc_error_exempt"%string].

(* which of the two known texts of DefaultDeviceHandler.__init__ the tree has *)
Definition exempt_append : option bool :=
  match method_digest h_default s___init__ with
  | Some d => if beq d dg_default_init then Some false else if beq d dg_default_init_f7 then Some true else None
  | None => None
  end.

Definition profile_of (h : handler) : option profile :=
  let d := h_default in
  let is_default := beq (h_class h) s_DefaultDeviceHandler in
  if negb (is_default || beq (h_base h) s_DefaultDeviceHandler) then None
  else if negb (h_init_passthrough h) then None
  else if negb is_default && existsb (fun m => mem_bytes m (h_defines h)) ctor_methods then None
  else
    match caps_rule_of (inherit (h_capabilities d) (h_capabilities h)),
          lit_of (inherit (h_ns_dict d) (h_ns_dict h)),
          prefix_rule_of h (inherit (h_extra_prefix d) (h_extra_prefix h)),
          lit_of (inherit (h_qualify d) (h_qualify h)),
          subsys_rule_of (inherit (h_subsystems d) (h_subsystems h)),
          lit_of (inherit (h_vendor_ops d) (h_vendor_ops h)), exempt_append with
    | Some c, Some ns, Some px, Some q, Some sb, Some vops, Some ea =>
        match zip_ops vops (h_vendor_ops_modules h) with
        | Some v =>
            Some (mk_profile (h_module h) (h_class h)
                    (opt_or (h_base_capabilities h) BASE_CAPABILITIES)
                    (opt_or (h_exempt_errors h) DEFAULT_EXEMPT_ERRORS) ea
                    c ns px q sb v)
        | None => None
        end
    | _, _, _, _, _, _, _ => None
    end.

Definition shipped_opt : list (option profile) := map profile_of handlers.
Definition shipped : list profile :=
  flat_map (fun o => match o with Some p => [p] | None => [] end) shipped_opt.

Definition std_ops : list (bytes * opcls) :=
  opt_or (zip_ops OPERATIONS OPERATIONS_modules) [].

Definition shipped_naming : naming := mk_naming mdh_class_fmt mdh_capitalize mdh_default_name.
Definition shipped_globals : globals := mk_globals shipped_naming shipped std_ops xml_XPATH_NAMESPACES.

(* the functions outside ncclient/devices that the model transcribes are the ones it was written for *)
Definition pinned_functions : list (bytes * bytes) := Eval compute in
  [ (lit "manager.make_device_handler"%string, dg_make_device_handler);
    (lit "manager.Manager.__init__"%string, dg_manager_init);
    (lit "manager.Manager.__getattr__"%string, dg_manager_getattr);
    (lit "xml_.NCElement.xpath"%string, dg_xpath) ].
Definition opt_beqb (o : option bytes) (b : bytes) : bool := match o with Some x => beq x b | None => false end.

(* ---------------- Part 2: theorems over the shipped tables ---------------- *)

(* Every handler class found in ncclient/devices is covered by the model (14 classes), and the
   transcribed functions are unchanged. *)
Theorem C16_tables_modelled :
  forallb (fun o => match o with Some _ => true | None => false end) shipped_opt = true /\
  length shipped = length handlers /\
  forallb (fun nd => opt_beqb (fn_digest (fst nd)) (snd nd)) pinned_functions = true /\
  exempt_append <> None /\
  opt_beqb (method_digest h_default (lit "add_additional_netconf_params"%string)) dg_default_ncparams = true /\
  length std_ops = length OPERATIONS.
Proof. vm_compute. repeat split; try reflexivity. discriminate. Qed.
Print Assumptions C16_tables_modelled.

(* make_device_handler builds "<Name>DeviceHandler" in "ncclient.devices.<name>", default "default" *)
Theorem C16_tables_naming :
  mdh_class_fmt = lit "%sDeviceHandler"%string /\ mdh_module_fmt = lit "ncclient.devices.%s"%string /\
  mdh_capitalize = true /\ mdh_default_name = lit "default"%string.
Proof. vm_compute. repeat split; reflexivity. Qed.
Print Assumptions C16_tables_naming.

(* Every advertised device name yields its profile: the class named <Name>DeviceHandler in module <name>;
   no name is advertised twice; and no name at all yields the default profile. *)
Definition resolves_to_own (n : bytes) : Prop :=
  exists p, make_handler shipped_naming shipped (Some n) = Ok p /\
            pr_module p = n /\ pr_class p = capitalize n ++ lit "DeviceHandler"%string.

Theorem C16_tables_names_resolve :
  Forall resolves_to_own advertised_names /\ nodupb advertised_names = true /\
  exists p, make_handler shipped_naming shipped None = Ok p /\ pr_class p = s_DefaultDeviceHandler.
Proof.
  split; [|split; [vm_compute; reflexivity|]].
  - unfold advertised_names. repeat (constructor; [eexists; vm_compute; repeat split; reflexivity|]). constructor.
  - eexists. vm_compute. split; reflexivity.
Qed.
Print Assumptions C16_tables_names_resolve.

(* Side conditions of Props/C16.v hold for every shipped class (in particular every literal
   capability list contains urn:ietf:params:netconf:base:1.0 or :1.1) ... *)
Lemma shipped_wf : forallb (fun p => wf_caps p && wf_subsys p && nodupb (map fst (pr_vendor p))) shipped = true.
Proof. vm_compute. reflexivity. Qed.

(* ... hence: for every shipped class, all device_params and all user additions, the client capability
   list is computed without an exception and contains a base URI *)
Theorem C16_tables_base_uri : forall p, In p shipped -> forall dp user,
  exists l, capabilities p dp user = Ok l /\ has_base l = true.
Proof.
  intros p Hin dp user. apply c16_base_uri.
  pose proof (proj1 (forallb_forall _ _) shipped_wf p Hin) as H.
  apply andb_true_iff in H. destruct H as [H _]. apply andb_true_iff in H. tauto.
Qed.
Print Assumptions C16_tables_base_uri.

(* ... and the subsystem candidates are duplicate-free, preferred (nexus) or "netconf" first *)
Theorem C16_tables_subsystems : forall p, In p shipped -> forall dp,
  NoDup (subsystems p dp) /\ hd_error (subsystems p dp) = Some (first_subsystem p dp).
Proof.
  intros p Hin dp. apply c16_subsystems_all.
  pose proof (proj1 (forallb_forall _ _) shipped_wf p Hin) as H.
  apply andb_true_iff in H. destruct H as [H _]. apply andb_true_iff in H. tauto.
Qed.
Print Assumptions C16_tables_subsystems.

(* Vendor tables against manager.OPERATIONS, through the modelled Manager.__getattr__: for every shipped
   class and EVERY name, a name of the vendor table resolves to the vendor class (also when OPERATIONS has
   the same name), any other name of OPERATIONS resolves to the standard class. *)
Theorem C16_tables_vendor_precedence : forall p, In p shipped -> forall name,
  (forall c, dict_get name (pr_vendor p) = Some c -> resolve (manager_vendor p) std_ops name = Vendor c) /\
  (forall c, dict_get name (pr_vendor p) = None -> dict_get name std_ops = Some c ->
             resolve (manager_vendor p) std_ops name = Standard c).
Proof.
  intros p Hin name.
  pose proof (proj1 (forallb_forall _ _) shipped_wf p Hin) as H.
  apply andb_true_iff in H. destruct H as [_ Hnd].
  split; intros c Hc.
  - destruct (c16_vendor_callable p std_ops name) as [c' Hc'].
    { apply dict_get_In in Hc. change name with (fst (name, c)). now apply in_map. }
    rewrite Hc'. f_equal.
    (* the vendor keys are distinct, so update keeps each binding *)
    unfold resolve in Hc'. destruct (dict_get name (manager_vendor p)) as [c2|] eqn:E; [|destruct (dict_get name std_ops); discriminate].
    injection Hc' as <-. unfold manager_vendor in E. rewrite dict_get_update in E. simpl in E.
    destruct (dict_get name (rev (pr_vendor p))) as [c3|] eqn:E3; [|discriminate]. injection E as <-.
    apply dict_get_In in E3, Hc. apply in_rev in E3.
    clear - Hnd E3 Hc. induction (pr_vendor p) as [|[k v] l IH]; [contradiction|].
    simpl in Hnd. apply andb_true_iff in Hnd. destruct Hnd as [Hk Hl].
    destruct E3 as [E3|E3], Hc as [Hc|Hc]; try congruence.
    + injection E3 as -> ->. exfalso. apply (in_map fst) in Hc. simpl in Hc.
      apply mem_bytes_In in Hc. rewrite Hc in Hk. discriminate.
    + injection Hc as -> ->. exfalso. apply (in_map fst) in E3. simpl in E3.
      apply mem_bytes_In in E3. rewrite E3 in Hk. discriminate.
    + auto.
  - intros Hs. apply c16_standard_callable; [|exact Hs]. now apply dict_get_None.
Qed.
Print Assumptions C16_tables_vendor_precedence.

(* The finite content of the above, as computed on the shipped tables: every standard name stays
   resolvable under every shipped profile (to the vendor class exactly when the vendor table has it);
   every vendor and standard class is a known RPC subclass of Gen_Ops. *)
Definition opcls_eqb (a b : opcls) : bool := beq (fst a) (fst b) && beq (snd a) (snd b).
Definition is_rpc (c : opcls) : bool := match find_rpc (snd c) (fst c) with Some _ => true | None => false end.

Theorem C16_tables_operations :
  forallb (fun p =>
    forallb (fun n =>
      match resolve (manager_vendor p) std_ops n, dict_get n (pr_vendor p), dict_get n std_ops with
      | Vendor c, Some v, _ => opcls_eqb c v
      | Standard c, None, Some s => opcls_eqb c s
      | _, _, _ => false
      end) (map fst std_ops ++ map fst (pr_vendor p))
    && forallb (fun kv => is_rpc (snd kv)) (pr_vendor p)) shipped = true /\
  forallb (fun kv => is_rpc (snd kv)) std_ops = true /\
  nodupb (map fst std_ops) = true.
Proof. vm_compute. repeat split; reflexivity. Qed.
Print Assumptions C16_tables_operations.

(* Isolation for the shipped tables: instance of Props/C16.C16_isolated. *)
Theorem C16_tables_isolated : forall i h, isolated false shipped_globals i h.
Proof. intros i h. apply c16_isolated. Qed.
Print Assumptions C16_tables_isolated.

(* Constants: both copies of the 1.0 and 1.1 delimiters agree and are the RFC ones; all four buffer
   sizes are 4096; the chunk-header pattern is the one text, in both copies; select tick 0.1 s. *)
Theorem C16_tables_constants :
  session_MSG_DELIM = parser_MSG_DELIM /\ session_MSG_DELIM = lit "]]>]]>"%string /\
  session_END_DELIM = parser_END_DELIM /\ session_END_DELIM = [10; 35; 35; 10] /\
  parser_BUF_SIZE = 4096 /\ ssh_BUF_SIZE = 4096 /\ tls_BUF_SIZE = 4096 /\ unix_BUF_SIZE = 4096 /\
  parser_RE_NC11_DELIM = ssh_RE_NC11_DELIM /\
  parser_RE_NC11_DELIM = [92;110] ++ lit "(?:#([0-9]+)|(##))"%string ++ [92;110] /\
  session_TICK_us = 100000 /\ parser_TICK_us = 100000 /\
  xml_BASE_NS_1_0 = nexus_base.
Proof. vm_compute. repeat split; reflexivity. Qed.
Print Assumptions C16_tables_constants.

(* non-vacuity: the shipped tables are what one expects to see *)
Example ex_tables_shape :
  length shipped = 14%nat /\ length advertised_names = 13%nat /\ length std_ops = 19%nat /\
  map (fun p => length (pr_vendor p)) shipped = [3; 0; 0; 0; 0; 7; 5; 2; 0; 1; 0; 9; 1; 2]%nat.
Proof. vm_compute. repeat split; reflexivity. Qed.

(* junos and sros shadow standard operations; the vendor class wins *)
Example ex_tables_shadowing :
  map (fun p => (pr_module p, filter (fun n => match dict_get n std_ops with Some _ => true | None => false end) (map fst (pr_vendor p))))
      (filter (fun p => existsb (fun n => match dict_get n std_ops with Some _ => true | None => false end) (map fst (pr_vendor p))) shipped)
  = [ (lit "junos"%string, [lit "rpc"%string; lit "commit"%string]); (lit "sros"%string, [lit "commit"%string]) ].
Proof. vm_compute. reflexivity. Qed.
