(* GenProps/Writer_consts.v — literal ties of Model/Writer.v (send branch of Session.run; properties C01, C02, C05, C14).
   Re-proved on every run from coq/Gen/Gen_Lits.v / Gen_Tables.v, regenerated from the source under test.
   (MSG_DELIM, END_DELIM, BUF_SIZE and the chunk-header patterns are tied in Framing_consts.v.)  notes/tie.md. *)
From Coq Require Import String List.
From NC Require Import Model.Base Model.Lit Gen.Gen_Const Gen.Gen_Lits Gen.Gen_Tables GenProps.TieTac.
From NC Require Import Model.Writer.
Import ListNotations.
Set Printing Width 400.

(* Session.run: start_delim(n) = b'\n#%i\n' % n  (Writer.start_delim: LF, HASH, the decimal digits, LF), then the three
   frame layouts  b"%s%s" % (data, MSG_DELIM)  [hello],  b"%s%s%s" % (start_delim(len(data)), data, END_DELIM)  [base:1.1],
   b"%s%s" % (data, MSG_DELIM)  [base:1.0]  (Writer.frame) *)
Theorem tie_transport_session_Session_run : L_transport_session_Session_run =
  [[LF; HASH] ++ lit "%i"%string ++ [LF]; lit "%s%s"%string; lit "%s%s%s"%string; lit "%s%s"%string].
Proof. tie. Qed.
Print Assumptions tie_transport_session_Session_run.

(* NetconfBase.BASE_10 / BASE_11: the two values `self._base` is compared with *)
Theorem tie_netconf_base : K_transport_session_NetconfBase_BASE_10 = 1%N /\ K_transport_session_NetconfBase_BASE_11 = 2%N.
Proof. tie. Qed.
Print Assumptions tie_netconf_base.

(* `n <= 0` in the write loop (Writer: Accept 0 and Neg end the frame with SessionCloseError) *)
Theorem tie_nums_transport_session_Session_run : I_transport_session_Session_run = [0]%N.
Proof. tie. Qed.
Print Assumptions tie_nums_transport_session_Session_run.
