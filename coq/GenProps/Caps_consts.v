(* GenProps/Caps_consts.v — literal ties of Model/Caps.v (properties C05, C07, C08, C09).
   Re-proved on every run from coq/Gen/Gen_Lits.v, which tools/translate.py regenerates from the source under
   test: the string and number literals of ncclient/capabilities.py, function by function and in source order,
   equal the constants the model was written with.  A changed prefix component, separator or index breaks the
   tie of that function by computation (notes/tie.md). *)
From Coq Require Import String List.
From NC Require Import Model.Base Model.Lit Gen.Gen_Lits GenProps.TieTac Model.Caps.
Import ListNotations.
Set Printing Width 400.

(* capabilities.py _abbreviate:  uri.split(":"), the two prefixes, "capability", ":" + name, ":" + name + ":" + version,
   "base", ":base", ":base" + ":" + rest[1] *)
Theorem tie_capabilities__abbreviate : L_capabilities__abbreviate =
  [[COLON]] ++ prefix_a ++ prefix_b ++
  [s_capability; [COLON]; [COLON]; [COLON]; s_base; COLON :: s_base; COLON :: s_base; [COLON]].
Proof. tie. Qed.
Print Assumptions tie_capabilities__abbreviate.

(* len(rest) >= 3, rest[0], rest[1], rest[2], len(rest) >= 2, rest[0], rest[1]  —  the bounds and indices of abbrev_with *)
Theorem tie_nums_capabilities__abbreviate : I_capabilities__abbreviate = [3;0;1;2;2;0;1]%N.
Proof. tie. Qed.
Print Assumptions tie_nums_capabilities__abbreviate.

(* Capability.from_uri: uri.split("?"), split_uri[0], split_uri[1] *)
Theorem tie_capabilities_Capability_from_uri : L_capabilities_Capability_from_uri = [[QMARK]].
Proof. tie. Qed.
Print Assumptions tie_capabilities_Capability_from_uri.
Theorem tie_nums_capabilities_Capability_from_uri : I_capabilities_Capability_from_uri = [0;1]%N.
Proof. tie. Qed.
Print Assumptions tie_nums_capabilities_Capability_from_uri.

(* _parse_parameter_string: string.split("&") (the text of the log record is not harvested) *)
Theorem tie_capabilities__parse_parameter_string : L_capabilities__parse_parameter_string = [[AMP]].
Proof. tie. Qed.
Print Assumptions tie_capabilities__parse_parameter_string.

(* _Parameter.from_string: string.split("=") *)
Theorem tie_capabilities__Parameter_from_string : L_capabilities__Parameter_from_string = [[EQ]].
Proof. tie. Qed.
Print Assumptions tie_capabilities__Parameter_from_string.

(* the container methods the model follows statement by statement contain no literal at all *)
Theorem tie_capabilities_Capabilities_no_literals :
  L_capabilities_Capabilities___init__ = [] /\ L_capabilities_Capabilities___contains__ = [] /\
  L_capabilities_Capabilities___getitem__ = [] /\ L_capabilities_Capabilities_add = [] /\
  L_capabilities_Capabilities_remove = [] /\ L_capabilities_Capability_get_abbreviations = [].
Proof. tie. Qed.
Print Assumptions tie_capabilities_Capabilities_no_literals.
