(* GenProps/Profiles_consts.v — literal ties of the hand-modelled getters of Model/Profiles.v (property C16).
   GenProps/C16_tables.v selects the hand-written model of a computed getter by the DIGEST of its body; this file ties
   the literals those models copied one by one (Gen_Lits: literals per function, in source order), so that a changed
   subsystem name, capability URI or namespace is reported with the name of the getter.  notes/tie.md. *)
From Coq Require Import String List.
From NC Require Import Model.Base Model.Lit Gen.Gen_Const Gen.Gen_Lits Gen.Gen_Tables Gen.Gen_Devices GenProps.TieTac.
From NC Require Import Model.Profiles.
Import ListNotations.
Set Printing Width 400.

(* SSH subsystem names: default ["netconf"]; nexus device_params.get("ssh_subsystem_name"), ["netconf", "xmlagent"] *)
Theorem tie_ssh_subsystem_names :
  L_devices_default_DefaultDeviceHandler_get_ssh_subsystem_names = [s_netconf] /\
  L_devices_nexus_NexusDeviceHandler_get_ssh_subsystem_names = [lit "ssh_subsystem_name"%string; s_netconf; s_xmlagent].
Proof. tie. Qed.
Print Assumptions tie_ssh_subsystem_names.

(* computed capability lists: nexus c[0] = base namespace; huawei and sros append their lists; sros adds the private-mode
   capability when device_params['config_mode'] == ConfigMode.PRIVATE ('private') *)
Theorem tie_computed_capabilities :
  L_devices_nexus_NexusDeviceHandler_get_capabilities = [nexus_base] /\
  L_devices_huawei_HuaweiDeviceHandler_get_capabilities = huawei_extra /\
  L_devices_sros_SrosDeviceHandler_get_capabilities = sros_extra ++ [lit "config_mode"%string; sros_pc] /\
  K_devices_sros_ConfigMode_PRIVATE = s_private /\
  nth 0 BASE_CAPABILITIES [] = base_1_0 /\ nth 1 BASE_CAPABILITIES [] = base_1_1.
Proof. tie. Qed.
Print Assumptions tie_computed_capabilities.

(* DefaultDeviceHandler.__init__: the wildcard "*" of the exempt-error patterns (Profiles.starts_star / ends_star) *)
Theorem tie_devices_default_DefaultDeviceHandler___init__ :
  L_devices_default_DefaultDeviceHandler___init__ = [[STAR]; [STAR]; [STAR]].
Proof. tie. Qed.
Print Assumptions tie_devices_default_DefaultDeviceHandler___init__.

(* computed namespace dictionaries ({"nsmap": d}) *)
Theorem tie_computed_prefix_kwargs :
  L_devices_nexus_NexusDeviceHandler_get_xml_extra_prefix_kwargs =
    flat_map (fun kv => [match fst kv with Some k => k | None => [] end; snd kv]) nexus_extra_ns ++ [s_nsmap] /\
  L_devices_hpcomware_HpcomwareDeviceHandler_get_xml_extra_prefix_kwargs =
    flat_map (fun kv => [match fst kv with Some k => k | None => [] end; snd kv]) hpcomware_extra_ns ++ [s_nsmap] /\
  L_devices_ericsson_EricssonDeviceHandler_get_xml_extra_prefix_kwargs = [s_nsmap] /\
  L_devices_default_DefaultDeviceHandler_get_xml_extra_prefix_kwargs = [].
Proof. tie. Qed.
Print Assumptions tie_computed_prefix_kwargs.
