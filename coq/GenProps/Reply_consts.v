(* GenProps/Reply_consts.v — literal ties of Model/ReplyView.v and Model/NsStrip.v (property C10).
   Re-proved on every run from the tables tools/translate.py regenerates from the source under test (Gen_Lits:
   literals per function in source order; Gen_Const: constants of xml_.py).  notes/tie.md. *)
From Coq Require Import String List.
From NC Require Import Model.Base Model.Lit Gen.Gen_Const Gen.Gen_Lits Gen.Gen_Tables GenProps.TieTac.
From NC Require Import Model.XmlHelpers Model.ReplyView.
Import ListNotations.
Set Printing Width 400.

(* RPCReply.parse: root.find(qualify("ok")), root.find('.//' + qualify('rpc-error'))  — n_ok, n_err in the base namespace *)
Theorem tie_operations_rpc_RPCReply_parse :
  L_operations_rpc_RPCReply_parse = [s_ok; lit ".//"%string; s_err] /\ xml_qualify_default_ns = BASE_NS.
Proof. tie. Qed.
Print Assumptions tie_operations_rpc_RPCReply_parse.

(* GetReply._parsing_hook: root.find(qualify("data"))  — n_data *)
Theorem tie_operations_retrieve_GetReply__parsing_hook : L_operations_retrieve_GetReply__parsing_hook = [s_data].
Proof. tie. Qed.
Print Assumptions tie_operations_retrieve_GetReply__parsing_hook.

(* GetSchemaReply._parsing_hook: root.find(qualify("data", NETCONF_MONITORING_NS))  — n_sdata *)
Theorem tie_operations_retrieve_GetSchemaReply__parsing_hook :
  L_operations_retrieve_GetSchemaReply__parsing_hook = [s_data] /\ xml_NETCONF_MONITORING_NS = NCM_NS.
Proof. tie. Qed.
Print Assumptions tie_operations_retrieve_GetSchemaReply__parsing_hook.

(* RPCReplyListener.callback: tag == qualify("rpc-reply") (n_reply); the other literals of the function are the
   notification tag, the attribute name and the two error texts *)
Theorem tie_operations_rpc_RPCReplyListener_callback : L_operations_rpc_RPCReplyListener_callback =
  [s_reply; lit "notification"%string; lit "message-id"%string;
   lit "Could not find 'message-id' attribute in <rpc-reply>"%string; lit "message-id"%string;
   lit "Unknown 'message-id': %s"%string].
Proof. tie. Qed.
Print Assumptions tie_operations_rpc_RPCReplyListener_callback.

(* the reply transforms NsStrip.v models as tree functions.  alu: remove_namespaces splits tags at "}";  sros and default:
   no literal;  junos: the XSLT stylesheet below is the text NsStrip.junos_xslt was written for (three templates:
   "/|comment()|processing-instruction()" copied, "*" renamed to local-name(), "@*" renamed to local-name()) —
   an edit of the stylesheet breaks this tie and the model has to be re-read against it. *)
Theorem tie_devices_alu_remove_namespaces :
  L_devices_alu_remove_namespaces = [[125]] /\ L_devices_alu_AluDeviceHandler_transform_reply = [] /\
  L_devices_sros_SrosDeviceHandler_transform_reply = [] /\ L_devices_default_DefaultDeviceHandler_transform_reply = [].
Proof. tie. Qed.
Print Assumptions tie_devices_alu_remove_namespaces.

Definition junos_stylesheet : bytes := Eval compute in
  (lit "<xsl:stylesheet version=""1.0"" xmlns:xsl=""http://www.w3.org/1999/XSL/Transform"">"%string ++ [10] ++
   lit "        <xsl:output method=""xml"" indent=""no""/>"%string ++ [10] ++
   [] ++ [10] ++
   lit "        <xsl:template match=""/|comment()|processing-instruction()"">"%string ++ [10] ++
   lit "            <xsl:copy>"%string ++ [10] ++
   lit "                <xsl:apply-templates/>"%string ++ [10] ++
   lit "            </xsl:copy>"%string ++ [10] ++
   lit "        </xsl:template>"%string ++ [10] ++
   [] ++ [10] ++
   lit "        <xsl:template match=""*"">"%string ++ [10] ++
   lit "            <xsl:element name=""{local-name()}"">"%string ++ [10] ++
   lit "                <xsl:apply-templates select=""@*|node()""/>"%string ++ [10] ++
   lit "            </xsl:element>"%string ++ [10] ++
   lit "        </xsl:template>"%string ++ [10] ++
   [] ++ [10] ++
   lit "        <xsl:template match=""@*"">"%string ++ [10] ++
   lit "            <xsl:attribute name=""{local-name()}"">"%string ++ [10] ++
   lit "                <xsl:value-of select="".""/>"%string ++ [10] ++
   lit "            </xsl:attribute>"%string ++ [10] ++
   lit "        </xsl:template>"%string ++ [10] ++
   lit "        </xsl:stylesheet>"%string ++ [10] ++
   lit "        "%string).
Theorem tie_devices_junos_JunosDeviceHandler_transform_reply :
  L_devices_junos_JunosDeviceHandler_transform_reply = [junos_stylesheet; lit "UTF-8"%string].
Proof. tie. Qed.
Print Assumptions tie_devices_junos_JunosDeviceHandler_transform_reply.
