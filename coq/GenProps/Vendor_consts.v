(* GenProps/Vendor_consts.v — literal ties of Model/VendorBuilders.v (property C07, vendor operations).
   Re-proved on every run from coq/Gen/Gen_Lits.v, which tools/translate.py regenerates from the source under
   test: for every request builder of ncclient/operations/third_party/*/rpc.py the string literals of the
   function (default values of the parameters first, then the body, in source order; docstrings and log texts
   excluded) are the constants the model was written with — element and attribute names, namespaces, format
   names, capability names, error texts.  Literals the model does not hold as a constant of its own (default
   argument values, error texts, format strings) are written in line (notes/tie.md). *)
From Coq Require Import String List.
From NC Require Import Model.Base Model.Lit Gen.Gen_Const Gen.Gen_Lits Gen.Gen_Tables GenProps.TieTac.
From NC Require Import Model.Caps Model.Gating Model.Builders Model.VendorBuilders.
Import ListNotations.
Set Printing Width 400.

(* the namespaces the vendor builders take from xml_.py (YANG_NS_1_0, SROS_GLOBAL_OPS_NS, HW_PRIVATE_NS, NXOS_1_0);
   the two written in the rpc.py files themselves (sros augments, cisco-ia) are in the harvests below *)
Theorem tie_vendor_namespaces :
  xml_YANG_NS_1_0 = NS_YANG /\ xml_SROS_GLOBAL_OPS_NS = NS_SROS_OPS /\ xml_HW_PRIVATE_NS = NS_HW /\ xml_NXOS_1_0 = NS_NXOS.
Proof. tie. Qed.
Print Assumptions tie_vendor_namespaces.

(* ncclient/operations/third_party/alu/rpc.py:10  operations.third_party.alu.rpc.ShowCLI.request *)
Theorem tie_operations_third_party_alu_rpc_ShowCLI_request : L_operations_third_party_alu_rpc_ShowCLI_request =
  [Builders.s_get;
   Builders.s_filter;
   VendorBuilders.s_oper_cli_block;
   VendorBuilders.s_cli_show].
Proof. tie. Qed.
Print Assumptions tie_operations_third_party_alu_rpc_ShowCLI_request.

(* ncclient/operations/third_party/alu/rpc.py:25  operations.third_party.alu.rpc.GetConfiguration.request *)
Theorem tie_operations_third_party_alu_rpc_GetConfiguration_request : L_operations_third_party_alu_rpc_GetConfiguration_request =
  [VendorBuilders.s_xml;
   Builders.s_get_config;
   Builders.s_source;
   VendorBuilders.s_running;
   VendorBuilders.s_xml;
   Builders.s_subtree;
   VendorBuilders.s_cli;
   Builders.s_filter;
   VendorBuilders.s_config_cli_block;
   VendorBuilders.s_cli_info_detail;
   VendorBuilders.s_cli_info;
   VendorBuilders.s_cli_info_detail;
   VendorBuilders.s_cli_info].
Proof. tie. Qed.
Print Assumptions tie_operations_third_party_alu_rpc_GetConfiguration_request.

(* ncclient/operations/third_party/alu/rpc.py:62  operations.third_party.alu.rpc.LoadConfiguration.request *)
Theorem tie_operations_third_party_alu_rpc_LoadConfiguration_request : L_operations_third_party_alu_rpc_LoadConfiguration_request =
  [VendorBuilders.s_xml;
   VendorBuilders.s_running;
   Builders.s_edit_config;
   Builders.s_config;
   VendorBuilders.s_xml;
   Builders.s_target;
   VendorBuilders.s_cli;
   Builders.s_target;
   VendorBuilders.s_config_cli_block;
   Builders.s_default_operation].
Proof. tie. Qed.
Print Assumptions tie_operations_third_party_alu_rpc_LoadConfiguration_request.

(* ncclient/operations/third_party/h3c/rpc.py:13  operations.third_party.h3c.rpc.GetBulk.request *)
Theorem tie_operations_third_party_h3c_rpc_GetBulk_request : L_operations_third_party_h3c_rpc_GetBulk_request =
  [VendorBuilders.s_get_bulk].
Proof. tie. Qed.
Print Assumptions tie_operations_third_party_h3c_rpc_GetBulk_request.

(* ncclient/operations/third_party/h3c/rpc.py:29  operations.third_party.h3c.rpc.GetBulkConfig.request *)
Theorem tie_operations_third_party_h3c_rpc_GetBulkConfig_request : L_operations_third_party_h3c_rpc_GetBulkConfig_request =
  [VendorBuilders.s_get_bulk_config;
   Builders.s_source].
Proof. tie. Qed.
Print Assumptions tie_operations_third_party_h3c_rpc_GetBulkConfig_request.

(* ncclient/operations/third_party/h3c/rpc.py:45  operations.third_party.h3c.rpc.CLI.request *)
Theorem tie_operations_third_party_h3c_rpc_CLI_request : L_operations_third_party_h3c_rpc_CLI_request =
  [VendorBuilders.s_CLI].
Proof. tie. Qed.
Print Assumptions tie_operations_third_party_h3c_rpc_CLI_request.

(* ncclient/operations/third_party/h3c/rpc.py:57  operations.third_party.h3c.rpc.Action.request *)
Theorem tie_operations_third_party_h3c_rpc_Action_request : L_operations_third_party_h3c_rpc_Action_request =
  [VendorBuilders.s_action].
Proof. tie. Qed.
Print Assumptions tie_operations_third_party_h3c_rpc_Action_request.

(* ncclient/operations/third_party/h3c/rpc.py:63  operations.third_party.h3c.rpc.Save.request *)
Theorem tie_operations_third_party_h3c_rpc_Save_request : L_operations_third_party_h3c_rpc_Save_request =
  [VendorBuilders.s_save;
   VendorBuilders.s_file].
Proof. tie. Qed.
Print Assumptions tie_operations_third_party_h3c_rpc_Save_request.

(* ncclient/operations/third_party/h3c/rpc.py:70  operations.third_party.h3c.rpc.Load.request *)
Theorem tie_operations_third_party_h3c_rpc_Load_request : L_operations_third_party_h3c_rpc_Load_request =
  [VendorBuilders.s_load;
   VendorBuilders.s_file].
Proof. tie. Qed.
Print Assumptions tie_operations_third_party_h3c_rpc_Load_request.

(* ncclient/operations/third_party/h3c/rpc.py:77  operations.third_party.h3c.rpc.Rollback.request *)
Theorem tie_operations_third_party_h3c_rpc_Rollback_request : L_operations_third_party_h3c_rpc_Rollback_request =
  [VendorBuilders.s_rollback;
   VendorBuilders.s_file].
Proof. tie. Qed.
Print Assumptions tie_operations_third_party_h3c_rpc_Rollback_request.

(* ncclient/operations/third_party/hpcomware/rpc.py:7  operations.third_party.hpcomware.rpc.DisplayCommand.request *)
Theorem tie_operations_third_party_hpcomware_rpc_DisplayCommand_request : L_operations_third_party_hpcomware_rpc_DisplayCommand_request =
  [[10]%N;
   VendorBuilders.s_CLI;
   VendorBuilders.s_Execution].
Proof. tie. Qed.
Print Assumptions tie_operations_third_party_hpcomware_rpc_DisplayCommand_request.

(* ncclient/operations/third_party/hpcomware/rpc.py:26  operations.third_party.hpcomware.rpc.ConfigCommand.request *)
Theorem tie_operations_third_party_hpcomware_rpc_ConfigCommand_request : L_operations_third_party_hpcomware_rpc_ConfigCommand_request =
  [[10]%N;
   VendorBuilders.s_CLI;
   VendorBuilders.s_Configuration].
Proof. tie. Qed.
Print Assumptions tie_operations_third_party_hpcomware_rpc_ConfigCommand_request.

(* ncclient/operations/third_party/hpcomware/rpc.py:47  operations.third_party.hpcomware.rpc.Action.request *)
Theorem tie_operations_third_party_hpcomware_rpc_Action_request : L_operations_third_party_hpcomware_rpc_Action_request =
  [VendorBuilders.s_action].
Proof. tie. Qed.
Print Assumptions tie_operations_third_party_hpcomware_rpc_Action_request.

(* ncclient/operations/third_party/hpcomware/rpc.py:54  operations.third_party.hpcomware.rpc.Save.request *)
Theorem tie_operations_third_party_hpcomware_rpc_Save_request : L_operations_third_party_hpcomware_rpc_Save_request =
  [VendorBuilders.s_save;
   VendorBuilders.s_file].
Proof. tie. Qed.
Print Assumptions tie_operations_third_party_hpcomware_rpc_Save_request.

(* ncclient/operations/third_party/hpcomware/rpc.py:61  operations.third_party.hpcomware.rpc.Rollback.request *)
Theorem tie_operations_third_party_hpcomware_rpc_Rollback_request : L_operations_third_party_hpcomware_rpc_Rollback_request =
  [VendorBuilders.s_rollback;
   VendorBuilders.s_file].
Proof. tie. Qed.
Print Assumptions tie_operations_third_party_hpcomware_rpc_Rollback_request.

(* ncclient/operations/third_party/huawei/rpc.py:10  operations.third_party.huawei.rpc.CLI.request *)
Theorem tie_operations_third_party_huawei_rpc_CLI_request : L_operations_third_party_huawei_rpc_CLI_request =
  [VendorBuilders.s_execute_cli;
   VendorBuilders.s_xmlns].
Proof. tie. Qed.
Print Assumptions tie_operations_third_party_huawei_rpc_CLI_request.

(* ncclient/operations/third_party/huawei/rpc.py:23  operations.third_party.huawei.rpc.Action.request *)
Theorem tie_operations_third_party_huawei_rpc_Action_request : L_operations_third_party_huawei_rpc_Action_request =
  [VendorBuilders.s_execute_action;
   VendorBuilders.s_xmlns].
Proof. tie. Qed.
Print Assumptions tie_operations_third_party_huawei_rpc_Action_request.

(* ncclient/operations/third_party/iosxe/rpc.py:7  operations.third_party.iosxe.rpc.SaveConfig.request *)
Theorem tie_operations_third_party_iosxe_rpc_SaveConfig_request : L_operations_third_party_iosxe_rpc_SaveConfig_request =
  [VendorBuilders.s_save_config;
   VendorBuilders.NS_CISCO_IA].
Proof. tie. Qed.
Print Assumptions tie_operations_third_party_iosxe_rpc_SaveConfig_request.

(* ncclient/operations/third_party/juniper/rpc.py:12  operations.third_party.juniper.rpc.GetConfiguration.request *)
Theorem tie_operations_third_party_juniper_rpc_GetConfiguration_request : L_operations_third_party_juniper_rpc_GetConfiguration_request =
  [VendorBuilders.s_xml;
   VendorBuilders.s_get_configuration;
   Builders.s_format;
   VendorBuilders.s_xml].
Proof. tie. Qed.
Print Assumptions tie_operations_third_party_juniper_rpc_GetConfiguration_request.

(* ncclient/operations/third_party/juniper/rpc.py:22  operations.third_party.juniper.rpc.LoadConfiguration.request *)
Theorem tie_operations_third_party_juniper_rpc_LoadConfiguration_request : L_operations_third_party_juniper_rpc_LoadConfiguration_request =
  [VendorBuilders.s_xml;
   Gating.s_merge;
   lit "candidate"%string;
   [10]%N;
   VendorBuilders.s_set;
   VendorBuilders.s_text;
   Builders.s_format] ++ VendorBuilders.JUNOS_LOAD_FORMATS ++      (* validate_args('format', format, ["xml", "text", "json"])  (fix 4913cf2) *)
  [VendorBuilders.s_load_configuration;
   VendorBuilders.s_action;
   Builders.s_format;
   VendorBuilders.s_xml;
   VendorBuilders.s_configuration;
   VendorBuilders.s_json;
   VendorBuilders.s_configuration_json;
   VendorBuilders.s_text;
   VendorBuilders.s_set;
   Builders.s_configuration_text;
   VendorBuilders.s_set;
   VendorBuilders.s_text;
   VendorBuilders.s_configuration_set].
Proof. tie. Qed.
Print Assumptions tie_operations_third_party_juniper_rpc_LoadConfiguration_request.

(* ncclient/operations/third_party/juniper/rpc.py:44  operations.third_party.juniper.rpc.CompareConfiguration.request *)
Theorem tie_operations_third_party_juniper_rpc_CompareConfiguration_request : L_operations_third_party_juniper_rpc_CompareConfiguration_request =
  [VendorBuilders.s_text;
   VendorBuilders.s_get_configuration;
   VendorBuilders.s_compare;
   VendorBuilders.s_rollback;
   Builders.s_format;
   VendorBuilders.s_rollback].
Proof. tie. Qed.
Print Assumptions tie_operations_third_party_juniper_rpc_CompareConfiguration_request.
Theorem tie_nums_operations_third_party_juniper_rpc_CompareConfiguration_request : I_operations_third_party_juniper_rpc_CompareConfiguration_request = [0]%N.
Proof. tie. Qed.
Print Assumptions tie_nums_operations_third_party_juniper_rpc_CompareConfiguration_request.

(* ncclient/operations/third_party/juniper/rpc.py:50  operations.third_party.juniper.rpc.ExecuteRpc.request *)
Theorem tie_operations_third_party_juniper_rpc_ExecuteRpc_request : L_operations_third_party_juniper_rpc_ExecuteRpc_request = [].
Proof. tie. Qed.
Print Assumptions tie_operations_third_party_juniper_rpc_ExecuteRpc_request.

(* ncclient/operations/third_party/juniper/rpc.py:58  operations.third_party.juniper.rpc.Command.request *)
Theorem tie_operations_third_party_juniper_rpc_Command_request : L_operations_third_party_juniper_rpc_Command_request =
  [VendorBuilders.s_xml;
   VendorBuilders.s_command;
   Builders.s_format].
Proof. tie. Qed.
Print Assumptions tie_operations_third_party_juniper_rpc_Command_request.

(* ncclient/operations/third_party/juniper/rpc.py:65  operations.third_party.juniper.rpc.Reboot.request *)
Theorem tie_operations_third_party_juniper_rpc_Reboot_request : L_operations_third_party_juniper_rpc_Reboot_request =
  [VendorBuilders.s_request_reboot].
Proof. tie. Qed.
Print Assumptions tie_operations_third_party_juniper_rpc_Reboot_request.

(* ncclient/operations/third_party/juniper/rpc.py:71  operations.third_party.juniper.rpc.Halt.request *)
Theorem tie_operations_third_party_juniper_rpc_Halt_request : L_operations_third_party_juniper_rpc_Halt_request =
  [VendorBuilders.s_request_halt].
Proof. tie. Qed.
Print Assumptions tie_operations_third_party_juniper_rpc_Halt_request.

(* ncclient/operations/third_party/juniper/rpc.py:81  operations.third_party.juniper.rpc.Commit.request *)
Theorem tie_operations_third_party_juniper_rpc_Commit_request : L_operations_third_party_juniper_rpc_Commit_request =
  [VendorBuilders.s_commit_configuration;
   ([] : bytes);
   lit "'Commit confirmed' and 'commit at' are mutually exclusive."%string;
   Gating.s_k_confirmed;
   Builders.s_confirmed;
   Builders.s_confirm_timeout;
   VendorBuilders.s_at_time;
   VendorBuilders.s_log;
   VendorBuilders.s_synchronize;
   VendorBuilders.s_check].
Proof. tie. Qed.
Print Assumptions tie_operations_third_party_juniper_rpc_Commit_request.

(* ncclient/operations/third_party/juniper/rpc.py:76  operations.third_party.juniper.rpc.Commit.__class__ *)
Theorem tie_operations_third_party_juniper_rpc_Commit___class__ : L_operations_third_party_juniper_rpc_Commit___class__ =
  [Gating.s_k_candidate].
Proof. tie. Qed.
Print Assumptions tie_operations_third_party_juniper_rpc_Commit___class__.

(* ncclient/operations/third_party/juniper/rpc.py:127  operations.third_party.juniper.rpc.Rollback.request *)
Theorem tie_operations_third_party_juniper_rpc_Rollback_request : L_operations_third_party_juniper_rpc_Rollback_request =
  [VendorBuilders.s_load_configuration;
   VendorBuilders.s_rollback].
Proof. tie. Qed.
Print Assumptions tie_operations_third_party_juniper_rpc_Rollback_request.
Theorem tie_nums_operations_third_party_juniper_rpc_Rollback_request : I_operations_third_party_juniper_rpc_Rollback_request = [0]%N.
Proof. tie. Qed.
Print Assumptions tie_nums_operations_third_party_juniper_rpc_Rollback_request.

(* ncclient/operations/third_party/nexus/rpc.py:7  operations.third_party.nexus.rpc.ExecCommand.request *)
Theorem tie_operations_third_party_nexus_rpc_ExecCommand_request : L_operations_third_party_nexus_rpc_ExecCommand_request =
  [VendorBuilders.s_exec_command;
   VendorBuilders.s_cmd].
Proof. tie. Qed.
Print Assumptions tie_operations_third_party_nexus_rpc_ExecCommand_request.

(* ncclient/operations/third_party/sros/rpc.py:6  operations.third_party.sros.rpc.global_operations *)
Theorem tie_operations_third_party_sros_rpc_global_operations : L_operations_third_party_sros_rpc_global_operations =
  [VendorBuilders.s_global_operations;
   VendorBuilders.s_xmlns].
Proof. tie. Qed.
Print Assumptions tie_operations_third_party_sros_rpc_global_operations.

(* ncclient/operations/third_party/sros/rpc.py:23  operations.third_party.sros.rpc.MdCliRawCommand.request *)
Theorem tie_operations_third_party_sros_rpc_MdCliRawCommand_request : L_operations_third_party_sros_rpc_MdCliRawCommand_request =
  [VendorBuilders.s_md_cli_raw_command;
   VendorBuilders.s_md_cli_input_line].
Proof. tie. Qed.
Print Assumptions tie_operations_third_party_sros_rpc_MdCliRawCommand_request.

(* ncclient/operations/third_party/sros/rpc.py:35  operations.third_party.sros.rpc.Commit.request *)
Theorem tie_operations_third_party_sros_rpc_Commit_request : L_operations_third_party_sros_rpc_Commit_request =
  [Builders.s_commit;
   VendorBuilders.s_comment;
   VendorBuilders.s_xmlns;
   VendorBuilders.NS_SROS_AUG;
   lit "Invalid operation as persist cannot be present with persist-id"%string;
   Gating.s_k_confirmed;
   Builders.s_confirmed;
   Builders.s_confirm_timeout;
   Builders.s_persist;
   Gating.s_k_confirmed;
   Builders.s_persist_id].
Proof. tie. Qed.
Print Assumptions tie_operations_third_party_sros_rpc_Commit_request.

(* ncclient/operations/third_party/sros/rpc.py:30  operations.third_party.sros.rpc.Commit.__class__ *)
Theorem tie_operations_third_party_sros_rpc_Commit___class__ : L_operations_third_party_sros_rpc_Commit___class__ =
  [Gating.s_k_candidate].
Proof. tie. Qed.
Print Assumptions tie_operations_third_party_sros_rpc_Commit___class__.

