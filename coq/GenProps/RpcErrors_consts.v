(* GenProps/RpcErrors_consts.v — literal ties of Model/RpcErrors.v (properties C06, C13).
   Re-proved on every run from the tables tools/translate.py regenerates from the source under test:
     Gen_Tables.rpcerror_tag_to_attr   RPCError.tag_to_attr with its keys qualified as xml_.qualify does
     Gen_Tables.K_operations_rpc_RaiseMode_*   the three raise modes
     Gen_Lits                          literals of RPCError.__init__, RPCReply.parse, RPC._request,
                                       DefaultDeviceHandler.__init__ / is_rpc_error_exempt
   They equal the tags, severities, fall-back texts, separators and mode numbers the model was written with
   (notes/tie.md). *)
From Coq Require Import String List.
From NC Require Import Model.Base Model.Lit Gen.Gen_Const Gen.Gen_Lits Gen.Gen_Tables GenProps.TieTac.
From NC Require Import Model.RpcErrors.
Import ListNotations.
Set Printing Width 400.

(* RPCError.tag_to_attr: the qualified child tags set_field tests, in the order of the record fields of rpc_error
   (e_type e_tag e_app_tag e_severity e_info e_path e_message), and the attribute each one fills *)
Theorem tie_rpcerror_tag_to_attr : rpcerror_tag_to_attr =
  [ (q_error_type, lit "_type"%string); (q_error_tag, lit "_tag"%string); (q_error_app_tag, lit "_app_tag"%string);
    (q_error_severity, lit "_severity"%string); (q_error_info, lit "_info"%string); (q_error_path, lit "_path"%string);
    (q_error_message, lit "_message"%string) ].
Proof. tie. Qed.
Print Assumptions tie_rpcerror_tag_to_attr.

(* ... the class body has no other literal than that dict (local names and attributes alternate) *)
Theorem tie_operations_rpc_RPCError___class__ : L_operations_rpc_RPCError___class__ =
  flat_map (fun kv => [fst kv; snd kv]) rpcerror_tag_to_attr_local.
Proof. tie. Qed.
Print Assumptions tie_operations_rpc_RPCError___class__.

(* RPCError.__init__:  attr != "_info" (error-info is kept as serialised XML: ser_of);  'undefined';  the fall-back message;
   the dict keys;  self._severity = 'warning';  "\n".join;  "%s: %s";  ... == 'error';  self._severity = 'error' *)
Theorem tie_operations_rpc_RPCError___init__ : L_operations_rpc_RPCError___init__ =
  [lit "_info"%string; s_undefined; s_no_message; lit "severity"%string; lit "message"%string; s_warning; [NL];
   lit "%s"%string ++ s_colon_space ++ lit "%s"%string;
   lit "severity"%string; lit "message"%string; lit "severity"%string; s_error; s_error].
Proof. tie. Qed.
Print Assumptions tie_operations_rpc_RPCError___init__.

(* RPCReply.parse: root.find(qualify("ok")), root.find('.//' + qualify('rpc-error')) *)
Theorem tie_operations_rpc_RPCReply_parse :
  L_operations_rpc_RPCReply_parse = [lit "ok"%string; lit ".//"%string; lit "rpc-error"%string] /\
  q_ok = [123] ++ xml_qualify_default_ns ++ [125] ++ lit "ok"%string /\
  q_rpc_error = [123] ++ xml_qualify_default_ns ++ [125] ++ lit "rpc-error"%string /\
  xml_qualify_default_ns = xml_BASE_NS_1_0.
Proof. tie. Qed.
Print Assumptions tie_operations_rpc_RPCReply_parse.

(* RaiseMode.NONE / ERRORS / ALL *)
Theorem tie_raise_modes :
  K_operations_rpc_RaiseMode_NONE = MODE_NONE /\ K_operations_rpc_RaiseMode_ERRORS = MODE_ERRORS /\
  K_operations_rpc_RaiseMode_ALL = MODE_ALL /\ I_operations_rpc_RaiseMode___class__ = [MODE_NONE; MODE_ERRORS; MODE_ALL].
Proof. tie. Qed.
Print Assumptions tie_raise_modes.

(* RPC._request: error.severity == "error" (sev_is_error), len(errors) > 1 (single / aggregate), the timeout text *)
Theorem tie_operations_rpc_RPC__request :
  L_operations_rpc_RPC__request = [s_error; lit "ncclient timed out while waiting for an rpc reply."%string] /\
  I_operations_rpc_RPC__request = [1]%N.
Proof. tie. Qed.
Print Assumptions tie_operations_rpc_RPC__request.

(* the references to the raise modes: RPC._request tests  raise_mode == RaiseMode.ALL  or  (raise_mode == RaiseMode.ERRORS and ...)
   (decide);  _extract_errors_params defaults raise_mode to operations.RaiseMode.ALL and ignore_errors to [] (extract_errors_params),
   as does Manager.__init__ *)
Theorem tie_raise_mode_references :
  R_operations_rpc_RPC__request = [lit "RaiseMode.ALL"%string; lit "RaiseMode.ERRORS"%string] /\
  R_manager__extract_errors_params = [lit "operations.RaiseMode.ALL"%string] /\
  nth 0 R_manager_Manager___init__ [] = lit "operations.RaiseMode.ALL"%string /\
  extract_errors_params None None = ([], K_operations_rpc_RaiseMode_ALL).
Proof. tie. Qed.
Print Assumptions tie_raise_mode_references.

(* manager._extract_errors_params: the three dictionary keys *)
Theorem tie_manager__extract_errors_params : L_manager__extract_errors_params =
  [lit "errors_params"%string; lit "ignore_errors"%string; lit "raise_mode"%string].
Proof. tie. Qed.
Print Assumptions tie_manager__extract_errors_params.

(* DefaultDeviceHandler.__init__: the wildcard "*" of classify1 (startswith / endswith / startswith) and the slices
   e[1:-1], e[1:], e[:-1] *)
Theorem tie_devices_default_DefaultDeviceHandler___init__ :
  L_devices_default_DefaultDeviceHandler___init__ = [[STAR]; [STAR]; [STAR]] /\
  I_devices_default_DefaultDeviceHandler___init__ = [1;1;1;1]%N.
Proof. tie. Qed.
Print Assumptions tie_devices_default_DefaultDeviceHandler___init__.

(* is_rpc_error_exempt: error_text = 'no error given' when the message is None *)
Theorem tie_devices_default_DefaultDeviceHandler_is_rpc_error_exempt :
  L_devices_default_DefaultDeviceHandler_is_rpc_error_exempt = [s_no_error_given].
Proof. tie. Qed.
Print Assumptions tie_devices_default_DefaultDeviceHandler_is_rpc_error_exempt.
