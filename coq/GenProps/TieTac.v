(* GenProps/TieTac.v — the one tactic of the literal ties (notes/tie.md).
   A tie is an equation  <generated literal> = <the model's copy>  between closed terms; it is
   decided by computation.  When the source under test changed the literal, the proof fails with a
   one-line message that names the generated constant, so the replay of the resulting VIOLATION
   shows which literal of which function moved (tools/check.py keeps the `File ...` and the
   `...Error...` lines of the build log).  Files that use it start with `Set Printing Width 400.` *)
Ltac tie1 :=
  lazymatch goal with
  | |- ?L = _ => first [ vm_compute; reflexivity | fail 1 "TieError:" L "(generated from the source under test) differs from the copy the model was written for" ]
  | |- ?G => first [ vm_compute; reflexivity | fail 1 "TieError:" G "no longer holds of the tables generated from the source" ]
  end.
(* conjunctions are split first, so that the message names the one equation that broke *)
Ltac tie := repeat (lazymatch goal with |- _ /\ _ => split end); tie1.
