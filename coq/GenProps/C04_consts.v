(* GenProps/C04_consts.v — literals of the source under test that C04's model relies on beyond GenProps/Session_consts.v.
   Re-proved on every run from coq/Gen/Gen_Lits.v (tools/translate.py).  notes/tie.md. *)
From Coq Require Import String List.
From NC Require Import Model.Base Model.Lit Gen.Gen_Lits GenProps.TieTac.
Import ListNotations.
Set Printing Width 400.

(* The queues of a session are created without a bound: SessionLTS.LPut (the `self._q.put(message)` of Session.send) is
   enabled whenever the caller got that far, it never blocks - the bounded wait is the ONLY blocking point of a
   synchronous call (Props/C04.v C04_bounded_wait).  Session.__init__ holds no number literal at all (integer or
   float) and refers to one constant, the default base. *)
Theorem tie_session_queues_unbounded :
  fn_nums_of (lit "transport.session.Session.__init__"%string) = None /\
  dict_get (lit "transport.session.Session.__init__"%string) fn_refs = Some [lit "NetconfBase.BASE_10"%string] /\
  dict_get (lit "transport.session.Session.__init__"%string) fn_flts = None.
Proof. tie. Qed.
Print Assumptions tie_session_queues_unbounded.

(* Session.send itself: no literal but the refusal text, no number (no timeout handed to put()) *)
Theorem tie_session_send :
  fn_lits_of (lit "transport.session.Session.send"%string) = Some [lit "Not connected to NETCONF server"%string] /\
  fn_nums_of (lit "transport.session.Session.send"%string) = None.
Proof. tie. Qed.
Print Assumptions tie_session_send.
