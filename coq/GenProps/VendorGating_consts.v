(* GenProps/VendorGating_consts.v — literal ties of Model/VendorGating.v (property C09, vendor classes).
   Re-proved on every run from the tables tools/translate.py regenerates from the source under test:
     Gen_Ops.rpc_classes      the DEPENDS list of every RPC class (as attribute lookup sees it)
     Gen_Tables.assert_calls  every  self._assert("<capability>")  call, per function
     Gen_Lits                 the string literals of each request() body and of util.datastore_or_url
   They say: of the 30 classes under ncclient/operations/third_party only the Junos and SR OS Commit have a
   DEPENDS entry or call self._assert themselves (both are Gating.CCommit); the datastore argument of alu
   get_configuration is the literal 'running'; alu load_configuration selects on 'xml' / 'cli'; datastore_or_url tests
   "://" and asks for ":url" (VendorGating.vg_deps, vg_steps). *)
From Coq Require Import String List.
From NC Require Import Model.Base Model.Lit Gen.Gen_Ops Gen.Gen_Lits Gen.Gen_Tables GenProps.TieTac.
From NC Require Import Model.Caps Model.Gating Model.VendorGating.
Import ListNotations.
Set Printing Width 400.

Definition tp_mod (v : string) : bytes := lit ("ncclient.operations.third_party." ++ v ++ ".rpc")%string.
Definition is_third_party (m : bytes) : bool := prefixb (lit "ncclient.operations.third_party."%string) m.
Definition is_third_party_fn (f : bytes) : bool := prefixb (lit "operations.third_party."%string) f.

(* DEPENDS of all the vendor classes: empty except for the two Commit classes *)
Theorem tie_vendor_depends :
  map (fun c => (rc_module c, rc_name c, rc_depends c)) (filter (fun c => is_third_party (rc_module c)) rpc_classes) =
  [ (tp_mod "alu", lit "ShowCLI"%string, []); (tp_mod "alu", lit "GetConfiguration"%string, []);
    (tp_mod "alu", lit "LoadConfiguration"%string, []);
    (tp_mod "h3c", lit "GetBulk"%string, []); (tp_mod "h3c", lit "GetBulkConfig"%string, []); (tp_mod "h3c", lit "CLI"%string, []);
    (tp_mod "h3c", lit "Action"%string, []); (tp_mod "h3c", lit "Save"%string, []); (tp_mod "h3c", lit "Load"%string, []);
    (tp_mod "h3c", lit "Rollback"%string, []);
    (tp_mod "hpcomware", lit "DisplayCommand"%string, []); (tp_mod "hpcomware", lit "ConfigCommand"%string, []);
    (tp_mod "hpcomware", lit "Action"%string, []); (tp_mod "hpcomware", lit "Save"%string, []); (tp_mod "hpcomware", lit "Rollback"%string, []);
    (tp_mod "huawei", lit "CLI"%string, []); (tp_mod "huawei", lit "Action"%string, []);
    (tp_mod "iosxe", lit "SaveConfig"%string, []);
    (tp_mod "juniper", lit "GetConfiguration"%string, []); (tp_mod "juniper", lit "LoadConfiguration"%string, []);
    (tp_mod "juniper", lit "CompareConfiguration"%string, []); (tp_mod "juniper", lit "ExecuteRpc"%string, []);
    (tp_mod "juniper", lit "Command"%string, []); (tp_mod "juniper", lit "Reboot"%string, []); (tp_mod "juniper", lit "Halt"%string, []);
    (tp_mod "juniper", lit "Commit"%string, [s_k_candidate]); (tp_mod "juniper", lit "Rollback"%string, []);
    (tp_mod "nexus", lit "ExecCommand"%string, []);
    (tp_mod "sros", lit "MdCliRawCommand"%string, []); (tp_mod "sros", lit "Commit"%string, [s_k_candidate]) ].
Proof. tie. Qed.
Print Assumptions tie_vendor_depends.

(* the only vendor functions that call self._assert with a literal are the two Commit.request *)
Theorem tie_vendor_assert_calls :
  filter (fun e => is_third_party_fn (fst e)) assert_calls =
  [ (lit "operations.third_party.juniper.rpc.Commit.request"%string, [s_k_confirmed]);
    (lit "operations.third_party.sros.rpc.Commit.request"%string, [s_k_confirmed; s_k_confirmed]) ].
Proof. tie. Qed.
Print Assumptions tie_vendor_assert_calls.

(* util.datastore_or_url: the "://" test, the capability it asks for, the <url> child *)
Theorem tie_datastore_or_url : L_operations_util_datastore_or_url = [s_css; s_k_url; lit "url"%string].
Proof. tie. Qed.
Print Assumptions tie_datastore_or_url.

(* the literals the vendor programs were written with occur in the request() bodies *)
Theorem tie_vendor_gating_literals :
  mem_bytes s_vg_running L_operations_third_party_alu_rpc_GetConfiguration_request = true
  /\ contains s_vg_running s_css = false
  /\ mem_bytes s_f_xml L_operations_third_party_alu_rpc_LoadConfiguration_request = true
  /\ mem_bytes s_vg_cli L_operations_third_party_alu_rpc_LoadConfiguration_request = true
  /\ mem_bytes (lit "target"%string) L_operations_third_party_alu_rpc_LoadConfiguration_request = true
  /\ mem_bytes (lit "source"%string) L_operations_third_party_h3c_rpc_GetBulkConfig_request = true.
Proof. tie. Qed.
Print Assumptions tie_vendor_gating_literals.
