(* GenProps/Connect_consts.v — the connection defaults and the literals the abstractions of Model/Auth.v stand for
   (property C15), re-proved on every run from coq/Gen/Gen_Lits.v / Gen_Const.v (regenerated from the source under test).
   Model/Auth.v holds no string or number of the source: its configuration record (c_verify, c_allow_agent,
   c_look_for_keys, pin, ...) is filled by the harness from the arguments it passes, and "[host]:port", the default key
   files and the pinned-key classes are abstract selectors (HHostPort, MDefaultKey i, PinBad).  What is pinned here is
   what those abstractions were read from: the defaults of SSHSession.connect / TLSSession.connect / Manager.__init__,
   the default ports, the "[%s]:%s" known_hosts name used for the lookup and for the check, the order of the key
   classes tried for a pinned key and of the default key files.  A change of one of them is reported with the name
   of the function (notes/tie.md). *)
From Coq Require Import String List.
From NC Require Import Model.Base Model.Lit Gen.Gen_Const Gen.Gen_Lits GenProps.TieTac.
Import ListNotations.
Set Printing Width 400.

(* SSHSession.connect: port=PORT_NETCONF_DEFAULT (830); verification, agent and key search are ON by default *)
Theorem tie_defaults_transport_ssh_SSHSession_connect :
  ssh_PORT_NETCONF_DEFAULT = 830%N /\
  D_transport_ssh_SSHSession_connect =
  [ (lit "port"%string, lit "PORT_NETCONF_DEFAULT"%string); (lit "timeout"%string, lit "None"%string);
    (lit "unknown_host_cb"%string, lit "default_unknown_host_cb"%string); (lit "username"%string, lit "None"%string);
    (lit "password"%string, lit "None"%string); (lit "key_filename"%string, lit "None"%string);
    (lit "allow_agent"%string, lit "True"%string); (lit "hostkey_verify"%string, lit "True"%string);
    (lit "hostkey_b64"%string, lit "None"%string); (lit "look_for_keys"%string, lit "True"%string);
    (lit "ssh_config"%string, lit "None"%string); (lit "sock_fd"%string, lit "None"%string);
    (lit "bind_addr"%string, lit "None"%string); (lit "sock"%string, lit "None"%string);
    (lit "keepalive"%string, lit "None"%string); (lit "environment"%string, lit "None"%string) ].
Proof. tie. Qed.
Print Assumptions tie_defaults_transport_ssh_SSHSession_connect.

(* the literals of SSHSession.connect Auth.v abstracts: the key classes tried for hostkey_b64 in this order, the
   known_hosts name "[%s]:%s" % (host, port) (lookup at l.305-312 and check), the subsystem channel name *)
Theorem tie_transport_ssh_SSHSession_connect_selectors :
  map (fun i => nth i L_transport_ssh_SSHSession_connect []) [13; 14; 15; 16; 18; 20; 21]%nat =
  [ lit "DSSKey"%string; lit "Ed25519Key"%string; lit "RSAKey"%string; lit "ECDSAKey"%string;
    lit "[%s]:%s"%string; lit "[%s]:%s"%string; lit "%s-subsystem-%s"%string ] /\
  length L_transport_ssh_SSHSession_connect = 23%nat.
Proof. tie. Qed.
Print Assumptions tie_transport_ssh_SSHSession_connect_selectors.

(* SSHSession._auth: the default key files, in the order MDefaultKey i enumerates them *)
Theorem tie_transport_ssh_SSHSession__auth : L_transport_ssh_SSHSession__auth =
  [ lit "utf-8"%string; lit ".pub"%string; lit ".pub"%string;
    lit "~/.ssh/id_rsa"%string; lit "~/.ssh/id_dsa"%string; lit "~/.ssh/id_ecdsa"%string; lit "~/.ssh/id_ed25519"%string;
    lit "~/ssh/id_rsa"%string; lit "~/ssh/id_dsa"%string; lit "~/ssh/id_ecdsa"%string; lit "~/ssh/id_ed25519"%string;
    lit "No authentication methods available"%string ].
Proof. tie. Qed.
Print Assumptions tie_transport_ssh_SSHSession__auth.

(* TLSSession.connect: port 6513, host-name checking ON, timeout 120 *)
Theorem tie_defaults_transport_tls_TLSSession_connect :
  tls_DEFAULT_TLS_NETCONF_PORT = 6513%N /\ tls_DEFAULT_TLS_TIMEOUT = 120%N /\
  D_transport_tls_TLSSession_connect =
  [ (lit "host"%string, lit "None"%string); (lit "port"%string, lit "DEFAULT_TLS_NETCONF_PORT"%string);
    (lit "keyfile"%string, lit "None"%string); (lit "certfile"%string, lit "None"%string); (lit "ca_certs"%string, lit "None"%string);
    (lit "protocol"%string, lit "None"%string); (lit "check_hostname"%string, lit "True"%string);
    (lit "server_hostname"%string, lit "None"%string); (lit "timeout"%string, lit "DEFAULT_TLS_TIMEOUT"%string) ] /\
  nth 2 R_transport_tls_TLSSession_connect [] = lit "CERT_REQUIRED"%string.
Proof. tie. Qed.
Print Assumptions tie_defaults_transport_tls_TLSSession_connect.

(* manager.py: Manager(session, device_handler, timeout=30, raise_mode=operations.RaiseMode.ALL); call_home listens on 4334 *)
Theorem tie_defaults_manager :
  D_manager_Manager___init__ = [ (lit "timeout"%string, lit "30"%string); (lit "raise_mode"%string, lit "operations.RaiseMode.ALL"%string) ] /\
  I_manager_Manager___init__ = [30]%N /\ I_manager_call_home = [4334; 10]%N /\ unix_DEFAULT_TIMEOUT = 120%N.
Proof. tie. Qed.
Print Assumptions tie_defaults_manager.
