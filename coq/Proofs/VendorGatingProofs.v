(* VendorGatingProofs.v — C09 for the vendor classes.  Every vendor call performs exactly the
   program of a standard call ([embed]); the statements then follow from GatingProofs. *)
From Coq Require Import String List Bool.
From NC Require Import Model.Base Model.Lit Model.Caps Model.Xml Model.Gating Model.VendorGating.
From NC Require Import Spec.CapsSpec Spec.GatingSpec Spec.VendorGatingSpec Proofs.BaseFacts Proofs.CapsProofs Proofs.GatingProofs.
Import ListNotations.

Lemma perform_is_prog s c : perform s c = perform_prog s (class_deps c) (steps_of c).
Proof. reflexivity. Qed.

(* the standard call that runs the same program *)
Definition embed (c : vgcall) : call :=
  match c with
  | GALoadConfiguration fmt tgt (Some v) dop =>
      if alu_builds_target fmt then CRpc None (Some tgt) None v dop else CUngated dop
  | GALoadConfiguration _ _ None dop => CUngated dop
  | GAGetConfiguration body => CUngated body
  | GHGetBulkConfig src flt => CGetConfig src flt None
  | GPlain _ body => CUngated body
  end.

Lemma embed_deps c : vg_deps c = class_deps (embed c).
Proof.
  destruct c as [fmt tgt [v|] dop| | |]; simpl; try reflexivity.
  now destruct (alu_builds_target fmt).
Qed.

Lemma embed_steps c : vg_steps c = steps_of (embed c).
Proof.
  destruct c as [fmt tgt [v|] dop|body|src flt|k body]; unfold steps_of; simpl; rewrite ?app_nil_r; try reflexivity.
  unfold alu_builds_target.
  destruct (beq fmt s_f_xml); simpl; [now rewrite ?app_nil_r, <- ?app_assoc|].
  destruct (beq fmt s_vg_cli); simpl; now rewrite ?app_nil_r, <- ?app_assoc.
Qed.

Lemma vperform_embed s c : vperform s c = perform s (embed c).
Proof. unfold vperform. now rewrite perform_is_prog, embed_deps, embed_steps. Qed.

Lemma embed_needs c : needs (embed c) = vneeds c.
Proof.
  destruct c as [fmt tgt [v|] dop|body|src flt|k body]; simpl; rewrite ?app_nil_r; try reflexivity.
  destruct (alu_builds_target fmt); simpl; now rewrite ?app_nil_r.
Qed.

Lemma embed_wellformed c : wellformed (embed c) = vwellformed c.
Proof.
  destruct c as [fmt tgt [v|] dop|body|src flt|k body]; simpl; try reflexivity.
  destruct (alu_builds_target fmt); simpl; [|reflexivity].
  now rewrite andb_assoc.
Qed.

Lemma embed_wd c : wd_of (embed c) = None.
Proof.
  destruct c as [fmt tgt [v|] dop|body|src flt|k body]; simpl; try reflexivity.
  now destruct (alu_builds_target fmt).
Qed.

Lemma c09_vendor_refused : forall (uris : list bytes) (c : vgcall) (k : bytes),
  In k (vneeds c) -> ~ advertised uris k ->
  exists e, snd (vperform (SCaps (caps_of uris)) c) = Exn e
            /\ count_send (fst (vperform (SCaps (caps_of uris)) c)) = 0%nat
            /\ (vwellformed c = true -> e = MissingCapability).
Proof.
  intros uris c k Hin Hna. rewrite vperform_embed, <- embed_wellformed. rewrite <- embed_needs in Hin.
  exact (c09_refused uris (embed c) k Hin Hna).
Qed.

Lemma c09_vendor_allowed : forall (uris : list bytes) (c : vgcall),
  vwellformed c = true -> (forall k, In k (vneeds c) -> advertised uris k) ->
  snd (vperform (SCaps (caps_of uris)) c) = Sent
  /\ count_send (fst (vperform (SCaps (caps_of uris)) c)) = 1%nat.
Proof.
  intros uris c W Hall. rewrite vperform_embed. apply c09_allowed.
  - now rewrite embed_wellformed.
  - now rewrite embed_needs.
  - intros norm H. rewrite embed_wd in H. discriminate.
Qed.

Lemma c09_vendor_send_once : forall (s : sess) (c : vgcall),
  match snd (vperform s c) with
  | Sent => count_send (fst (vperform s c)) = 1%nat
  | Exn _ => count_send (fst (vperform s c)) = 0%nat
  end.
Proof. intros s c. rewrite vperform_embed. apply c09_send_once. Qed.

(* a vendor call without a URL argument is sent whatever the server advertises *)
Lemma c09_vendor_ungated : forall (uris : list bytes) (c : vgcall),
  vneeds c = [] -> vwellformed c = true ->
  snd (vperform (SCaps (caps_of uris)) c) = Sent
  /\ count_send (fst (vperform (SCaps (caps_of uris)) c)) = 1%nat.
Proof.
  intros uris c N W. apply c09_vendor_allowed; [exact W|]. rewrite N. intros k [].
Qed.

(* the capability tests a vendor call performs are exactly its documented needs, in order *)
Lemma c09_vendor_needs_exact : forall c, vwellformed c = true -> asserts (vg_steps c) = vneeds c.
Proof.
  intros c W. rewrite embed_steps, <- embed_needs. rewrite <- embed_wellformed in W.
  pose proof (needs_exact (embed c) W) as E. rewrite <- embed_deps in E. simpl in E.
  unfold steps_of. rewrite asserts_app, embed_wd. simpl. rewrite embed_wd in E. simpl in E. exact E.
Qed.

Lemma embed_wire c : wire_of (embed c) = vwire_of c.
Proof.
  destruct c as [fmt tgt [v|] dop|body|src flt|k body]; simpl; rewrite ?app_nil_r; try reflexivity.
  unfold alu_builds_target. destruct (beq fmt s_f_xml); simpl; [now rewrite ?app_nil_r|].
  destruct (beq fmt s_vg_cli); simpl; now rewrite ?app_nil_r.
Qed.

(* a vendor request that went out carries no capability-dependent construct the server did not advertise *)
Lemma c09_vendor_wire_backed : forall (uris : list bytes) (c : vgcall) (w : wire) (k : bytes),
  snd (vperform (SCaps (caps_of uris)) c) = Sent -> In w (vwire_of c) -> In k (wire_needs w) -> advertised uris k.
Proof.
  intros uris c w k H Hw Hk. rewrite vperform_embed in H. rewrite <- embed_wire in Hw.
  exact (c09_wire_backed uris (embed c) w k H Hw Hk).
Qed.
