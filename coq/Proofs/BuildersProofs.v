(* BuildersProofs.v — envelope, schema conformance, enumerated-argument rejection and
   verbatim carriage of caller strings for Model/Builders.v. *)
From Coq Require Import String.
From NC Require Import Model.Base Model.Lit Model.Xml Model.Gating Model.Builders Spec.Rfc6241Schema Proofs.BaseFacts.

Ltac inv H :=
  repeat (match type of H with
  | pbind ?x _ = POk _ => let E := fresh "E" in destruct x eqn:E; cbn [pbind] in H; [|discriminate H]
  | (if ?b then _ else _) = POk _ => let E := fresh "B" in destruct b eqn:E; try discriminate H
  | match ?x with _ => _ end = POk _ => let E := fresh "M" in destruct x eqn:E; try discriminate H
  | PErr _ = POk _ => discriminate H
  end).

(* ---------- pieces ---------- *)
Definition piece (q : qname) (l : list tree) : Prop :=
  l = [] \/ exists a cs, l = [Elem q a cs].

Lemma text_children_ok s cs : text_children s = POk cs -> cs = match s with [] => [] | _ => [Text s] end.
Proof. unfold text_children. destruct (xml_chars_ok s); [|discriminate]. now intros [= <-]. Qed.

Lemma leaf_ok q s t : leaf q s = POk t -> t = Elem q [] (match s with [] => [] | _ => [Text s] end).
Proof. unfold leaf. intros H. inv H. apply text_children_ok in E. subst. now injection H as <-. Qed.

Lemma oleaf_ok q o l : oleaf q o = POk l ->
  match o with None => l = [] | Some s => l = [Elem q [] (match s with [] => [] | _ => [Text s] end)] end.
Proof.
  destruct o as [s|]; cbn; intros H; [|now injection H as <-].
  inv H. apply leaf_ok in E. subst. now injection H as <-.
Qed.

Lemma oleaf_piece q o l : oleaf q o = POk l -> piece q l.
Proof. intros H. apply oleaf_ok in H. destruct o; subst; [right; eauto|left; reflexivity]. Qed.

Lemma enum_node_ok q o al l : enum_node q o al = POk l ->
  match o with None => l = [] | Some s => mem_bytes s al = true /\ l = [Elem q [] (match s with [] => [] | _ => [Text s] end)] end.
Proof.
  destruct o as [s|]; cbn; intros H; [|now injection H as <-].
  inv H. apply leaf_ok in E. subst. split; [reflexivity|]. now injection H as <-.
Qed.
Lemma enum_node_piece q o al l : enum_node q o al = POk l -> piece q l.
Proof. intros H. apply enum_node_ok in H. destruct o; [destruct H as [_ ->]; right; eauto|subst; left; reflexivity]. Qed.

Lemma wd_node_ok o l : wd_node o = POk l ->
  match o with None => l = [] | Some s => mem_bytes s WD_MODES = true /\ l = [Elem (qn NS_WD s_with_defaults) [] (match s with [] => [] | _ => [Text s] end)] end.
Proof.
  destruct o as [s|]; cbn; intros H; [|now injection H as <-].
  inv H. apply leaf_ok in E. subst. split; [reflexivity|]. now injection H as <-.
Qed.
Lemma wd_node_piece o l : wd_node o = POk l -> piece (qn NS_WD s_with_defaults) l.
Proof. intros H. apply wd_node_ok in H. destruct o; [destruct H as [_ ->]; right; eauto|subst; left; reflexivity]. Qed.

Lemma ds_node_ok wha d t : ds_node wha d = POk t ->
  exists loc lx, d = DsStr loc lx /\
    t = Elem (b_ wha) [] [if contains loc s_css then Elem (b_ s_url) [] (match loc with [] => [] | _ => [Text loc] end)
                          else Elem (b_ loc) [] []].
Proof.
  destruct d as [loc lx|e]; cbn; [|discriminate]. intros H. exists loc, lx. split; [reflexivity|].
  destruct (contains loc s_css).
  - inv H. apply leaf_ok in E. subst. now injection H as <-.
  - destruct lx; [|discriminate]. now injection H as <-.
Qed.
Lemma ods_node_piece wha o l : ods_node wha o = POk l -> piece (b_ wha) l.
Proof.
  destruct o as [d|]; cbn; intros H; [|injection H as <-; left; reflexivity].
  inv H. apply ds_node_ok in E as (loc & lx & _ & ->). injection H as <-. right; eauto.
Qed.

Lemma root_in_one t q : root_in t [q] = true -> exists a cs, t = Elem q a cs.
Proof.
  destruct t as [q' a cs|s]; cbn; [|discriminate]. rewrite orb_false_r. unfold qname_eqb.
  intros H. apply andb_prop in H as [H1 H2]. apply beq_eq in H1. apply beq_eq in H2.
  destruct q', q; cbn in *; subst. eauto.
Qed.

Lemma build_filter_elem f t : build_filter f = POk t -> exists q a cs, t = Elem q a cs.
Proof.
  destruct f as [t0|sel|ts|t0|e]; cbn; intros H.
  - injection H as <-; eauto.
  - destruct (xml_chars_ok sel); [injection H as <-; eauto|discriminate].
  - injection H as <-; eauto.
  - destruct (root_in t0 [a_ s_filter; b_ s_filter; n_ s_filter]) eqn:B; [|discriminate].
    injection H as <-. destruct t0; [eauto|discriminate B].
  - discriminate.
Qed.

Lemma ofilter_piece o l : raw_root_ok o = true -> ofilter o = POk l -> piece (b_ s_filter) l.
Proof.
  destruct o as [f|]; cbn; intros R H; [|injection H as <-; left; reflexivity].
  inv H. injection H as <-. right.
  destruct f as [t0|sel|ts|t0|e]; cbn in E.
  - injection E as <-; eauto.
  - destruct (xml_chars_ok sel); [injection E as <-; eauto|discriminate].
  - injection E as <-; eauto.
  - apply root_in_one in R as (a & cs & ->). cbn in E. injection E as <-. eauto.
  - discriminate.
Qed.

(* ---------- fits on concatenations of pieces: computed per operation ---------- *)
Lemma child_names_app a b : child_names (a ++ b) = child_names a ++ child_names b.
Proof. unfold child_names. apply flat_map_app. Qed.
Lemma has_text_app a b : has_text (a ++ b) = has_text a || has_text b.
Proof. unfold has_text. apply existsb_app. Qed.

Ltac split_piece H := destruct H as [->|(? & ? & ->)].

(* ---------- the profiles' hook on the finished <edit-config> element ---------- *)
Lemma to_base_not_bare t : is_bare_config t = false -> to_base_config t = t.
Proof. destruct t as [q a cs|s]; cbn; [intros ->|]; reflexivity. Qed.

Lemma not_bare_list l : forallb (fun t => negb (is_bare_config t)) l = true ->
  map to_base_config l = l /\ filter is_bare_config l = [].
Proof.
  induction l as [|t l IH]; cbn [forallb map filter]; [split; reflexivity|].
  intros H. apply andb_prop in H as [H1 H2]. apply negb_true_iff in H1. destruct (IH H2) as [M F].
  rewrite H1, M, F, (to_base_not_bare t H1). split; reflexivity.
Qed.

(* when the only child that can be an un-namespaced <config> is the last one, the hook is [to_base_config] on it *)
Lemma iosxe_transform_last q a pre c :
  forallb (fun t => negb (is_bare_config t)) pre = true -> (length c <= 1)%nat ->
  iosxe_transform (Elem q a (pre ++ c)) = Elem q a (pre ++ map to_base_config c).
Proof.
  intros P L. destruct (not_bare_list pre P) as [M F].
  unfold iosxe_transform. rewrite filter_app, F. cbn [app].
  destruct c as [|t [|t2 c2]]; [reflexivity| |cbn in L; exfalso; inversion L as [|? L2]; inversion L2].
  cbn [filter map]. destruct (is_bare_config t) eqn:B.
  - rewrite map_app, M. reflexivity.
  - rewrite (to_base_not_bare t B). reflexivity.
Qed.

Lemma piece_not_bare l ps : piece (b_ l) ps -> forallb (fun t => negb (is_bare_config t)) ps = true.
Proof. intros [->|(a & cs & ->)]; reflexivity. Qed.

Lemma cfg_children_nodes p cfg : cfg_children p cfg = let* c := cfg_nodes cfg in POk (map (iosxe_patch p) c).
Proof.
  assert (N : forall l a cs, iosxe_patch p (Elem (b_ l) a cs) = Elem (b_ l) a cs \/ l = s_config).
  { intros l a cs. unfold iosxe_patch, to_base_config. destruct (p_iosxe p); [|left; reflexivity].
    destruct (qname_eqb (b_ l) (a_ s_config)) eqn:Q; [discriminate Q|left; reflexivity]. }
  destruct cfg as [t|s|s ok| |e]; cbn [cfg_children cfg_nodes].
  - destruct (config_node t); reflexivity.
  - destruct (leaf (b_ s_configuration_text) s); cbn [pbind map]; [|reflexivity].
    destruct (N s_config_text [] [t]) as [->|X]; [reflexivity|discriminate X].
  - destruct ok; [|reflexivity]. destruct (leaf (b_ s_url) s) as [t|e] eqn:E; cbn [pbind map]; [|reflexivity].
    apply leaf_ok in E. subst t. destruct (N s_url [] (match s with [] => [] | _ => [Text s] end)) as [->|X]; [reflexivity|discriminate X].
  - reflexivity.
  - reflexivity.
Qed.

Lemma cfg_nodes_short cfg c : cfg_nodes cfg = POk c -> (length c <= 1)%nat.
Proof.
  destruct cfg as [t|s|s ok| |e]; cbn [cfg_nodes]; intros H; inv H; try (injection H as <-; cbn; auto).
Qed.

(* EditConfig.request as the specification tables read it: the request without the hook, the caller's element patched *)
Definition edit_config_patched (p : profile) (tgt : dsarg) (dop top eop : option bytes) (cfg : cfgarg) : pres tree :=
  let* t := ds_node s_target tgt in
  let* d := enum_node (b_ s_default_operation) dop DEFAULT_OPS in
  let* o := enum_node (b_ s_test_option) top TEST_OPTS in
  let* e := enum_node (b_ s_error_option) eop ERROR_OPTS in
  let* c := cfg_children p cfg in
  POk (Elem (b_ s_edit_config) [] (t :: d ++ o ++ e ++ c)).

Lemma edit_config_node_eq p tgt dop top eop cfg :
  edit_config_node p tgt dop top eop cfg = edit_config_patched p tgt dop top eop cfg.
Proof.
  unfold edit_config_node, edit_config_patched. rewrite cfg_children_nodes.
  destruct (ds_node s_target tgt) as [t|x] eqn:Et; cbn [pbind]; [|reflexivity].
  destruct (enum_node (b_ s_default_operation) dop DEFAULT_OPS) as [d|x] eqn:Ed; cbn [pbind]; [|reflexivity].
  destruct (enum_node (b_ s_test_option) top TEST_OPTS) as [o|x] eqn:Eo; cbn [pbind]; [|reflexivity].
  destruct (enum_node (b_ s_error_option) eop ERROR_OPTS) as [e|x] eqn:Ee; cbn [pbind]; [|reflexivity].
  destruct (cfg_nodes cfg) as [c|x] eqn:Ec; cbn [pbind]; [|reflexivity].
  f_equal. unfold transform_edit_config, iosxe_patch. destruct (p_iosxe p); [|now rewrite map_id].
  assert (X : forall c', t :: d ++ o ++ e ++ c' = ((([t] ++ d) ++ o) ++ e) ++ c') by (intros; now rewrite <- !app_assoc).
  rewrite !X. apply iosxe_transform_last; [|eapply cfg_nodes_short; eassumption].
  rewrite !forallb_app. apply ds_node_ok in Et as (loc & lx & _ & ->).
  apply enum_node_piece, piece_not_bare in Ed. apply enum_node_piece, piece_not_bare in Eo.
  apply enum_node_piece, piece_not_bare in Ee. rewrite Ed, Eo, Ee. reflexivity.
Qed.

(* the hook in general (any tree, whatever its children are): the element's own name, attributes, the number and order of
   its children survive; a child is either untouched or an un-namespaced <config> that became {base}config with the
   same attributes and the same content; and with no or several such children nothing at all changes *)
Lemma to_base_hook_child c : hook_child c (to_base_config c).
Proof.
  destruct c as [q a k|s]; cbn; [|left; reflexivity].
  destruct (qname_eqb q (a_ s_config)) eqn:Q; [|left; reflexivity].
  right. exists a, k. split; [|reflexivity]. unfold qname_eqb in Q. apply andb_prop in Q as [Q1 Q2].
  apply beq_eq in Q1. apply beq_eq in Q2. destruct q; cbn in *; subst. reflexivity.
Qed.

Lemma c07_hook_frame : forall p q a cs,
  exists cs', transform_edit_config p (Elem q a cs) = Elem q a cs' /\ Forall2 hook_child cs cs'
    /\ (length (filter is_bare_config cs) <> 1%nat -> cs' = cs)
    /\ (p_iosxe p = false -> cs' = cs).
Proof.
  intros p q a cs.
  assert (Same : Forall2 hook_child cs cs) by (induction cs; constructor; [left; reflexivity|assumption]).
  unfold transform_edit_config. destruct (p_iosxe p).
  2:{ exists cs. repeat split; auto. }
  unfold iosxe_transform. destruct (filter is_bare_config cs) as [|x [|y l]] eqn:F.
  - exists cs. repeat split; auto.
  - exists (map to_base_config cs). split; [reflexivity|]. split; [|split; [cbn; congruence|discriminate]].
    clear. induction cs; cbn; constructor; [apply to_base_hook_child|assumption].
  - exists cs. repeat split; auto.
Qed.

(* ... and on the request EditConfig.request builds: it is the request of the same call under a profile without the hook,
   except that the caller's own un-namespaced <config> ROOT is in the base namespace; whatever is below that root is the same *)
Lemma c07_hook_root_only : forall p tgt dop top eop cfg op,
  op_node p (OEditConfig tgt dop top eop cfg) = POk op ->
  exists pre c, cfg_nodes cfg = POk c /\ (length c <= 1)%nat
    /\ op_node {| p_ns := p_ns p; p_iosxe := false |} (OEditConfig tgt dop top eop cfg) = POk (Elem (b_ s_edit_config) [] (pre ++ c))
    /\ op = Elem (b_ s_edit_config) [] (pre ++ map (iosxe_patch p) c).
Proof.
  intros p tgt dop top eop cfg op. cbn [op_node]. rewrite !edit_config_node_eq. unfold edit_config_patched.
  rewrite !cfg_children_nodes.
  destruct (ds_node s_target tgt) as [t|x] eqn:Et; cbn [pbind]; [|discriminate].
  destruct (enum_node (b_ s_default_operation) dop DEFAULT_OPS) as [d|x] eqn:Ed; cbn [pbind]; [|discriminate].
  destruct (enum_node (b_ s_test_option) top TEST_OPTS) as [o|x] eqn:Eo; cbn [pbind]; [|discriminate].
  destruct (enum_node (b_ s_error_option) eop ERROR_OPTS) as [e|x] eqn:Ee; cbn [pbind]; [|discriminate].
  destruct (cfg_nodes cfg) as [c|x] eqn:Ec; cbn [pbind]; [|discriminate].
  intros [= <-]. exists (t :: d ++ o ++ e), c. split; [reflexivity|]. split; [eapply cfg_nodes_short; eassumption|].
  unfold iosxe_patch at 1. cbn [p_iosxe]. rewrite map_id.
  split; cbn [app]; now rewrite <- !app_assoc.
Qed.

(* ---------- the operation element ---------- *)
Lemma cmd_node_elem c extra t : cmd_node c extra = POk t -> exists q a cs, t = Elem q a cs.
Proof.
  destruct c as [n lx|[q a cs|s]]; cbn; intros H; inv H; injection H as <-; eauto.
Qed.

Lemma op_node_elem p c t : op_node p c = POk t -> exists q a cs, t = Elem q a cs.
Proof.
  destruct c; cbn [op_node]; try (rewrite edit_config_node_eq; unfold edit_config_patched); intros H; inv H;
    try (injection H as <-; eauto); try (eapply cmd_node_elem; eassumption).
Qed.

Lemma adopt_elem t : (exists q a cs, t = Elem q a cs) -> exists q a cs, adopt t = Elem q a cs.
Proof. intros (q & a & cs & ->). cbn. eauto. Qed.

Lemma c07_envelope : forall p mid c t,
  build p mid c = Built t -> exists op, envelope mid t op.
Proof.
  intros p mid c t. unfold build. destruct (op_node p c) as [op|e] eqn:E; [|discriminate].
  intros [= <-]. apply op_node_elem in E. unfold wrap, envelope. destruct (p_ns p).
  - exists op. split; [reflexivity|exact E].
  - exists (adopt op). split; [reflexivity|now apply adopt_elem].
Qed.

(* ---------- enumerated arguments ---------- *)
Lemma out_of_ok o al : match o with None => True | Some s => mem_bytes s al = true end -> out_of o al = false.
Proof. destruct o; cbn; [intros ->; reflexivity|reflexivity]. Qed.

Lemma c07_enum_reject : forall p mid c,
  enum_violation c = true -> exists e, build p mid c = Refused e.
Proof.
  intros p mid c V. unfold build. destruct (op_node p c) as [op|e] eqn:E; [exfalso|eauto].
  destruct c; cbn [enum_violation] in V; try discriminate; cbn [op_node] in E;
    try (rewrite edit_config_node_eq in E; unfold edit_config_patched in E); inv E.
  - (* get *) apply wd_node_ok in E1. rewrite out_of_ok in V; [discriminate|]. destruct wd; [apply E1|exact I].
  - (* get_config *) apply wd_node_ok in E2. rewrite out_of_ok in V; [discriminate|]. destruct wd; [apply E2|exact I].
  - (* edit_config *)
    apply enum_node_ok in E1. apply enum_node_ok in E2. apply enum_node_ok in E3.
    rewrite !out_of_ok in V; [discriminate| | |].
    + destruct eop; [apply E3|exact I].
    + destruct top; [apply E2|exact I].
    + destruct dop; [apply E1|exact I].
Qed.

(* ---------- schema conformance (prefixed envelope, qualified caller roots) ---------- *)
Lemma base_not_bare q l l' : qname_eqb q (b_ l) = true -> qname_eqb q (a_ l') = false.
Proof.
  unfold qname_eqb. intros H. apply andb_prop in H as [H _]. apply beq_eq in H.
  destruct q as [ns lo]; cbn in *. subst. reflexivity.
Qed.

Lemma cfg_children_piece p cfg l :
  match cfg with CfgXml t => root_in t [b_ s_config] = true | _ => True end ->
  cfg_children p cfg = POk l ->
  piece (b_ s_config) l \/ piece (b_ s_url) l \/ piece (b_ s_config_text) l.
Proof.
  destruct cfg as [t|s|s ok| |e]; cbn; intros R H.
  - apply root_in_one in R as (a & cs & ->). cbn in H. injection H as <-. left. right.
    unfold iosxe_patch. destruct (p_iosxe p); cbn; eauto.
  - inv H. injection H as <-. right; right; right; eauto.
  - inv H. apply leaf_ok in E. subst. injection H as <-. right; left; right; eauto.
  - injection H as <-. left; left; reflexivity.
  - discriminate.
Qed.

Ltac pieces :=
  repeat match goal with
  | H : oleaf _ _ = POk _ |- _ => apply oleaf_piece in H
  | H : enum_node _ _ _ = POk _ |- _ => apply enum_node_piece in H
  | H : wd_node _ = POk _ |- _ => apply wd_node_piece in H
  | H : ods_node _ _ = POk _ |- _ => apply ods_node_piece in H
  | H : ds_node _ _ = POk _ |- _ => apply ds_node_ok in H as (? & ? & _ & ->)
  | H : leaf _ _ = POk _ |- _ => apply leaf_ok in H; subst
  end.
Ltac cases :=
  repeat match goal with
  | H : piece _ _ |- _ => destruct H as [->|(? & ? & ->)]
  | H : _ \/ _ |- _ => destruct H as [H|H]
  end.
Ltac done_conf := eexists; split; [reflexivity|split; reflexivity].

Lemma c07_conforms : forall p mid c t,
  p_ns p = Prefixed -> roots_qualified c = true -> build p mid c = Built t ->
  exists op, envelope mid t op /\ conforms c op.
Proof.
  intros p mid c t Pn R. unfold build. destruct (op_node p c) as [op|e] eqn:E; [|discriminate].
  intros [= <-]. exists op. split.
  { unfold wrap, envelope. rewrite Pn. split; [reflexivity|]. eapply op_node_elem; eassumption. }
  unfold conforms. destruct c; cbn [schema_of]; cbn [op_node] in E;
    try (rewrite edit_config_node_eq in E; unfold edit_config_patched in E); cbn [roots_qualified] in R; try exact I.
  - (* get *) inv E. injection E as <-. apply (ofilter_piece _ _ R) in E0. pieces. cases; done_conf.
  - (* get_config *) inv E. injection E as <-. apply (ofilter_piece _ _ R) in E1. pieces. cases; done_conf.
  - (* edit_config *) inv E. injection E as <-.
    apply cfg_children_piece in E4; [|destruct cfg; auto]. pieces. cases; done_conf.
  - (* copy_config *) inv E. injection E as <-. pieces.
    destruct src as [d|xx|e]; [pieces; done_conf| |discriminate].
    apply root_in_one in R as (a & cs & ->). cbn in E1. injection E1 as <-. done_conf.
  - (* delete_config *) inv E. injection E as <-. pieces. done_conf.
  - (* lock *) destruct lx; [|discriminate]. injection E as <-. done_conf.
  - (* unlock *) destruct lx; [|discriminate]. injection E as <-. done_conf.
  - (* validate *) inv E. injection E as <-.
    destruct src as [d|xx|e]; [pieces; done_conf| |discriminate].
    inv E0. injection E0 as <-. done_conf.
  - (* commit *)
    destruct (nonempty persist && nonempty persist_id); [discriminate|]. inv E. injection E as <-.
    destruct confirmed.
    + inv E0. injection E0 as <-. destruct (nonempty persist_id); [|injection E1 as <-]; pieces; cases; done_conf.
    + injection E0 as <-. destruct (nonempty persist_id); [|injection E1 as <-]; pieces; cases; done_conf.
  - (* cancel_commit *) inv E. injection E as <-. pieces. cases; done_conf.
  - (* discard *) injection E as <-. done_conf.
  - (* close *) injection E as <-. done_conf.
  - (* kill *) inv E. injection E as <-. pieces. done_conf.
  - (* create_subscription *) inv E. injection E as <-.
    assert (F : piece (n_ s_filter) l0).
    { destruct f as [xx|]; [|injection E1 as <-; left; reflexivity].
      inv E1. injection E1 as <-. right; eauto. }
    assert (S : piece (n_ s_stopTime) l2).
    { destruct stop as [xx|]; [|injection E3 as <-; left; reflexivity].
      destruct start; [|discriminate]. now apply oleaf_piece in E3. }
    clear E1 E3. pieces. cases; done_conf.
  - (* get_schema *) inv E. injection E as <-. pieces. cases; done_conf.
  - (* poweroff *) injection E as <-. done_conf.
  - (* reboot *) injection E as <-. done_conf.
Qed.

(* ---------- caller strings are carried verbatim (the two constructions every builder uses) ---------- *)
Lemma c07_carries_leaf : forall q s t,
  leaf q s = POk t -> xml_chars_ok s = true /\ t = Elem q [] (match s with [] => [] | _ => [Text s] end)
                      /\ (s <> [] -> texts t = [s]).
Proof.
  intros q s t H. split.
  - unfold leaf, text_children in H. destruct (xml_chars_ok s); [reflexivity|discriminate].
  - apply leaf_ok in H. subst. split; [reflexivity|]. intros N. destruct s; [congruence|reflexivity].
Qed.

Lemma c07_carries_ds : forall wha d t,
  ds_node wha d = POk t ->
  exists loc lx, d = DsStr loc lx /\
    (if contains loc s_css then texts t = (match loc with [] => [] | _ => [loc] end) /\ locals t = [wha; s_url]
     else lx = true /\ locals t = [wha; loc] /\ texts t = []).
Proof.
  intros wha d t H. destruct d as [loc lx|e]; [|discriminate]. exists loc, lx. split; [reflexivity|].
  cbn in H. destruct (contains loc s_css).
  - inv H. apply leaf_ok in E. subst. injection H as <-. split; destruct loc; reflexivity.
  - destruct lx; [|discriminate]. injection H as <-. repeat split; reflexivity.
Qed.
