(* Framing10Proofs.v — the buffer-based 1.0 scanner (Model/Framing10.v) simulates the
   byte-at-a-time reference automaton ref10 (Spec/RefFraming.v), read by read. *)
From NC Require Import Model.Base Model.Utf8 Model.Framing10 Model.Framing11 Spec.RefFraming.
From NC Require Import Proofs.ListFacts Proofs.Utf8Facts.

Local Notation delim := delim10.

Definition live (a : bytes) : r10 := {| acc10 := a; rdead10 := false |}.

Lemma ref10_cons s x l : ref10 s (x :: l) =
  let '(s1, e1) := ref10_step s x in let '(s2, e2) := ref10 s1 l in (s2, e1 ++ e2).
Proof. reflexivity. Qed.

Lemma ref10_dead s l : rdead10 s = true -> ref10 s l = (s, []).
Proof.
  intros H. induction l as [|x l IH]; [reflexivity|].
  rewrite ref10_cons. unfold ref10_step. rewrite H. rewrite IH. reflexivity.
Qed.

Lemma ref_none : forall seg acc, ~ occurs delim (acc ++ seg) -> ref10 (live acc) seg = (live (acc ++ seg), []).
Proof.
  induction seg as [|x seg IH]; intros acc H.
  - simpl. now rewrite app_nil_r.
  - rewrite ref10_cons. unfold ref10_step. cbn [live rdead10 acc10].
    destruct (find_sub delim (acc ++ [x])) as [[m r]|] eqn:F.
    + exfalso. apply H. apply find_some in F. destruct F as [F _].
      replace (acc ++ x :: seg) with ((acc ++ [x]) ++ seg) by (now rewrite <- app_assoc).
      apply occurs_app_l. rewrite F. now exists m, r.
    + fold (live (acc ++ [x])). rewrite IH by (now rewrite <- app_assoc).
      now rewrite <- app_assoc.
Qed.

(* the outcome of a completed frame *)
Definition frame_out (m : bytes) (k : r10 * list pevent) : r10 * list pevent :=
  match decode_strict m with
  | Some t => (fst k, Deliver (strip t) :: snd k)
  | None => ({| acc10 := m ++ delim; rdead10 := true |}, [Raise K_UNICODE])
  end.

Lemma ref_some : forall seg acc m rest, ~ occurs delim acc ->
  find_sub delim (acc ++ seg) = Some (m, rest) ->
  ref10 (live acc) seg = frame_out m (ref10 rinit10 rest).
Proof.
  induction seg as [|x seg IH]; intros acc m rest Hn F.
  - rewrite app_nil_r in F. exfalso. apply Hn. apply find_some in F. destruct F as [F _]. rewrite F. now exists m, rest.
  - rewrite ref10_cons. unfold ref10_step. cbn [live rdead10 acc10].
    destruct (find_sub delim (acc ++ [x])) as [[m1 r1]|] eqn:F1.
    + pose proof (find_app _ _ seg _ _ F1) as F2. rewrite <- app_assoc in F2. simpl in F2.
      rewrite F in F2. injection F2 as -> ->.
      apply find_some in F1. destruct F1 as [F1 _].
      destruct r1 as [|y0 r1'].
      * cbn [app]. unfold frame_out. rewrite app_nil_r in F1.
        destruct (decode_strict m1) as [t|].
        -- change {| acc10 := []; rdead10 := false |} with rinit10.
           destruct (ref10 rinit10 seg) as [s2 e2]. reflexivity.
        -- rewrite ref10_dead by reflexivity. rewrite F1. reflexivity.
      * exfalso. destruct (@exists_last _ (y0 :: r1')) as [r0 [y E]]; [discriminate|].
        rewrite E in F1. rewrite !app_assoc in F1. apply app_inj_tail in F1. destruct F1 as [F1 _].
        apply Hn. rewrite F1. exists m1, r0. now rewrite <- !app_assoc.
    + fold (live (acc ++ [x])). rewrite (IH (acc ++ [x]) m rest); [destruct (frame_out m (ref10 rinit10 rest)); reflexivity| |].
      * apply find_none; auto.
      * now rewrite <- app_assoc.
Qed.

(* --- blank vs delimiter --- *)
Lemma bblank_In l : bblank l = true -> forall x, In x l -> is_bws x = true.
Proof. unfold bblank. rewrite forallb_forall. auto. Qed.

Lemma occurs_blank_prefix : forall ws l p q, bblank ws = true -> ws ++ l = p ++ delim ++ q ->
  exists p', p = ws ++ p' /\ l = p' ++ delim ++ q.
Proof.
  induction ws as [|w ws IH]; intros l p q Hb H.
  - exists p. auto.
  - cbn [bblank forallb] in Hb. apply andb_true_iff in Hb. destruct Hb as [Hw Hb].
    destruct p as [|c p].
    + simpl in H. injection H as -> _. discriminate.
    + simpl in H. injection H as <- H. destruct (IH _ _ _ Hb H) as [p' [-> ->]]. exists p'. auto.
Qed.

Lemma blank_no_occ l : bblank l = true -> ~ occurs delim l.
Proof.
  intros Hb [p [q H]]. assert (is_bws 93%N = true); [|discriminate].
  apply (bblank_In _ Hb). rewrite H. apply in_or_app. right. simpl. auto.
Qed.

Lemma find_blank_prefix ws l m rest : bblank ws = true -> find_sub delim l = Some (m, rest) ->
  find_sub delim (ws ++ l) = Some (ws ++ m, rest).
Proof.
  revert l m rest. induction ws as [|w ws IH]; intros l m rest Hb F; [exact F|].
  cbn [bblank forallb] in Hb. apply andb_true_iff in Hb. destruct Hb as [Hw Hb].
  change ((w :: ws) ++ l) with (w :: ws ++ l). cbn [find_sub].
  replace (prefixb delim (w :: ws ++ l)) with false.
  - rewrite (IH _ _ _ Hb F). reflexivity.
  - unfold delim10. cbn [prefixb]. destruct (N.eqb_spec 93 w) as [<-|]; [discriminate|reflexivity].
Qed.

(* --- look-back: 6 = |delim| octets suffice --- *)
Lemma lookback b s p : ~ occurs delim b -> (p <= length b - DELIM10_LEN)%nat ->
  (occurs delim (skipn p (b ++ s)) <-> occurs delim (b ++ s)).
Proof.
  unfold DELIM10_LEN. intros Hn Hp. split.
  - intros H. rewrite <- (firstn_skipn p (b ++ s)). now apply occurs_app_r.
  - intros [u [v H]].
    destruct (le_lt_dec (length u + 6) (length b)) as [L|L].
    + exfalso. apply Hn. exists u, (firstn (length b - length u - 6) v).
      assert (E: b = firstn (length b) (b ++ s)) by (rewrite firstn_app, Nat.sub_diag, firstn_all; simpl; now rewrite app_nil_r).
      rewrite E at 1. rewrite H. rewrite firstn_app. rewrite (firstn_all2 u) by lia.
      f_equal. rewrite firstn_app. change (length delim) with 6%nat.
      rewrite (firstn_all2 delim) by (simpl; lia). f_equal; try (f_equal; simpl; lia).
    + assert (Lp : (p <= length u)%nat) by lia.
      exists (skipn p u), v. rewrite H. rewrite skipn_app.
      replace (p - length u)%nat with 0%nat by lia. reflexivity.
Qed.

(* --- simulation --- *)
Definition R (st : pst10) (rs : r10) : Prop :=
  if dead10 st then rdead10 rs = true
  else rdead10 rs = false /\ exists ws, bblank ws = true /\ acc10 rs = ws ++ buf10 st.
Definition Inv (st : pst10) : Prop :=
  dead10 st = false -> ~ occurs delim (buf10 st) /\ (pos10 st <= length (buf10 st) - DELIM10_LEN)%nat.

Lemma frame_out_blank ws m k : bblank ws = true -> frame_out (ws ++ m) k =
  match decode_strict m with
  | Some t => (fst k, Deliver (strip t) :: snd k)
  | None => ({| acc10 := (ws ++ m) ++ delim; rdead10 := true |}, [Raise K_UNICODE])
  end.
Proof.
  intros Hb. unfold frame_out. pose proof (decode_strip_blank_prefix ws m Hb) as D.
  unfold decode_strip in D. unfold decode_strict in *. rewrite utf8_valid_blank_prefix in * by exact Hb.
  destruct (utf8_valid m); [|reflexivity]. injection D as D. now rewrite D.
Qed.

Lemma inner : forall f rest, (length rest < f)%nat ->
  forall st' evs, parse10 f rest 0 = (st', evs) ->
  exists rs', ref10 rinit10 rest = (rs', evs) /\ R st' rs' /\ Inv st'.
Proof.
  induction f as [|f IH]; intros rest Hl st' evs H; [lia|].
  cbn [parse10] in H. rewrite skipn_O in H.
  destruct (contains rest delim) eqn:C.
  - apply contains_occurs in C.
    destruct (find_sub delim rest) as [[m r2]|] eqn:F; [|apply find_none in F; contradiction].
    pose proof (find_some _ _ _ _ F) as [E _].
    assert (Lr : (length r2 < f)%nat). { rewrite E in Hl. rewrite !app_length in Hl. simpl in Hl. lia. }
    assert (RS : ref10 rinit10 rest = frame_out m (ref10 rinit10 r2)).
    { apply (ref_some rest [] m r2); [intros [p [q X]]; destruct p; discriminate | exact F]. }
    rewrite RS. unfold frame_out.
    destruct (decode_strict m) as [t|] eqn:D.
    + destruct (bblank r2) eqn:B.
      * injection H as <- <-. exists (live r2). split; [|split].
        -- change rinit10 with (live []). rewrite ref_none by (simpl; now apply blank_no_occ). reflexivity.
        -- unfold R. cbn. split; [reflexivity|]. exists r2. now rewrite app_nil_r.
        -- intros _. cbn. split; [intros [p [q X]]; destruct p; discriminate | lia].
      * destruct (parse10 f r2 0) as [st2 evs2] eqn:P. injection H as <- <-.
        destruct (IH r2 Lr _ _ P) as [rs' [H1 [H2 H3]]].
        exists rs'. rewrite H1. cbn. auto.
    + injection H as <- <-. eexists. split; [reflexivity|]. split; [reflexivity|]. intros X; discriminate.
  - injection H as <- <-.
    assert (N0 : ~ occurs delim rest). { intros O. apply contains_occurs in O. congruence. }
    exists (live rest). split; [|split].
    + change rinit10 with (live []). rewrite ref_none by exact N0. reflexivity.
    + unfold R. cbn. split; [reflexivity|]. exists []. auto.
    + intros _. cbn. split; [exact N0 | lia].
Qed.

Lemma feed_sim10 st rs seg st' evs : R st rs -> Inv st -> feed10 st seg = (st', evs) ->
  exists rs', ref10 rs seg = (rs', evs) /\ R st' rs' /\ Inv st'.
Proof.
  intros HR HI H. unfold feed10 in H. unfold R in HR.
  destruct (dead10 st) eqn:Dd.
  - injection H as <- <-. exists rs. rewrite ref10_dead by exact HR. unfold R. rewrite Dd. split; [reflexivity|].
    split; [exact HR|]. intros X; congruence.
  - destruct HR as [Hd [ws [Hb Hacc]]]. destruct (HI Dd) as [Hn Hp].
    destruct seg as [|x0 seg0]; [injection H as <- <-; exists rs; split; [reflexivity|]; split;
      [unfold R; rewrite Dd; eauto | exact HI]|].
    remember (x0 :: seg0) as seg eqn:Eseg. clear Eseg.
    assert (Ers : rs = live (ws ++ buf10 st)). { destruct rs as [a d]. cbn in *. subst. reflexivity. }
    subst rs. clear Hd Hacc.
    cbn [parse10] in H.
    assert (Hacc : ~ occurs delim (ws ++ buf10 st)).
    { intros [p [q X]]. destruct (occurs_blank_prefix _ _ _ _ Hb X) as [p' [_ X']]. apply Hn. now exists p', q. }
    destruct (contains (skipn (pos10 st) (buf10 st ++ seg)) delim) eqn:C.
    + apply contains_occurs in C. apply (lookback _ _ _ Hn Hp) in C.
      destruct (find_sub delim (buf10 st ++ seg)) as [[m r2]|] eqn:F; [|apply find_none in F; contradiction].
      pose proof (find_blank_prefix ws _ _ _ Hb F) as F'. rewrite app_assoc in F'.
      pose proof (ref_some seg (ws ++ buf10 st) (ws ++ m) r2 Hacc F') as RS.
      pose proof (find_some _ _ _ _ F) as [E _].
      rewrite RS. rewrite frame_out_blank by exact Hb.
      destruct (decode_strict m) as [t|] eqn:D.
      * destruct (bblank r2) eqn:B.
        -- injection H as <- <-. exists (live r2). split; [|split].
           ++ change rinit10 with (live []). rewrite ref_none by (simpl; now apply blank_no_occ). reflexivity.
           ++ unfold R. cbn. split; [reflexivity|]. exists r2. now rewrite app_nil_r.
           ++ intros _. cbn. split; [intros [p [q X]]; destruct p; discriminate | lia].
        -- destruct (parse10 (length (buf10 st ++ seg)) r2 0) as [st2 evs2] eqn:P. injection H as <- <-.
           assert (Lr : (length r2 < length (buf10 st ++ seg))%nat). { rewrite E at 1. rewrite !app_length. simpl. lia. }
           destruct (inner _ r2 Lr _ _ P) as [rs' [H1 [H2 H3]]].
           exists rs'. rewrite H1. cbn. auto.
      * injection H as <- <-. eexists. split; [reflexivity|]. split; [reflexivity|]. intros X; discriminate.
    + injection H as <- <-.
      assert (N0 : ~ occurs delim (buf10 st ++ seg)).
      { intros O. apply (lookback _ _ _ Hn Hp) in O. apply contains_occurs in O. congruence. }
      assert (N1 : ~ occurs delim ((ws ++ buf10 st) ++ seg)).
      { rewrite <- app_assoc. intros [p [q X]]. destruct (occurs_blank_prefix _ _ _ _ Hb X) as [p' [_ X']]. apply N0. now exists p', q. }
      exists (live ((ws ++ buf10 st) ++ seg)). split; [|split].
      * now apply ref_none.
      * unfold R. cbn. split; [reflexivity|]. exists ws. split; [auto|]. now rewrite app_assoc.
      * intros _. cbn. split; [exact N0 | unfold DELIM10_LEN; lia].
Qed.

Lemma R_init10 : R init10 rinit10 /\ Inv init10.
Proof.
  split.
  - unfold R. cbn. split; [reflexivity|]. exists []. auto.
  - intros _. cbn. split; [intros [p [q X]]; destruct p; discriminate | lia].
Qed.
