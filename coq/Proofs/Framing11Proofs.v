(* Framing11Proofs.v — the buffer-based 1.1 chunk parser (Model/Framing11.v) simulates the
   byte-at-a-time reference automaton ref11 (Spec/RefFraming.v), read by read.
   Shape (DESIGN App. D): batch equivalence with residual — processing a buffer from scratch
   yields the reference run's events, and the saved-back buffer/fragments reproduce the
   reference state silently. *)
From NC Require Import Model.Base Model.Utf8 Model.Framing10 Model.Framing11 Spec.RefFraming.
From NC Require Import Proofs.ListFacts.

Definition rl (m : bytes) (h : h11) : r11 := {| hs := h; msg11 := m |}.

Lemma ref11_cons s x l : ref11 s (x :: l) =
  let '(s1, e1) := ref11_step s x in let '(s2, e2) := ref11 s1 l in (s2, e1 ++ e2).
Proof. reflexivity. Qed.

Lemma ref11_dead m l : ref11 (rl m Dead) l = (rl m Dead, []).
Proof.
  induction l as [|x l IH]; [reflexivity|].
  rewrite ref11_cons. unfold ref11_step. cbn [rl hs]. rewrite IH. reflexivity.
Qed.

(* a silent step: no event *)
Lemma ref11_quiet s x s' l : ref11_step s x = (s', []) -> ref11 s (x :: l) = ref11 s' l.
Proof. intros H. rewrite ref11_cons, H. destruct (ref11 s' l). reflexivity. Qed.

Lemma ref11_err s x m l : ref11_step s x = (rl m Dead, [Raise K_FRAMING]) ->
  ref11 s (x :: l) = (rl m Dead, [Raise K_FRAMING]).
Proof. intros H. rewrite ref11_cons, H, ref11_dead. reflexivity. Qed.

(* ---- digits ---- *)
Lemma span_digits_spec : forall l ds r, span_digits l = (ds, r) ->
  l = ds ++ r /\ forallb is_digit ds = true /\
  match r with [] => True | c :: _ => is_digit c = false end.
Proof.
  induction l as [|d l IH]; intros ds r H; cbn [span_digits] in H.
  - injection H as <- <-. auto.
  - destruct (is_digit d) eqn:D.
    + destruct (span_digits l) as [ds' r'] eqn:S. injection H as <- <-.
      destruct (IH _ _ eq_refl) as [-> [H1 H2]]. cbn [forallb]. rewrite D, H1. auto.
    + injection H as <- <-. cbn. auto.
Qed.

Lemma digit_not_lf_hash d : is_digit d = true -> (d =? LF) = false /\ (d =? HASH) = false.
Proof.
  unfold is_digit, in_rng, LF, HASH. intros H. apply andb_true_iff in H as [H1 H2].
  apply N.leb_le in H1, H2. split; apply N.eqb_neq; lia.
Qed.

Lemma ref11_digits : forall ds m n rest, forallb is_digit ds = true ->
  ref11 (rl m (HD n)) (ds ++ rest) = ref11 (rl m (HD (fold_left digit_step ds n))) rest.
Proof.
  induction ds as [|d ds IH]; intros m n rest H; [reflexivity|].
  cbn [forallb] in H. apply andb_true_iff in H as [Hd H].
  cbn [app fold_left]. rewrite (ref11_quiet _ _ (rl m (HD (digit_step n d)))).
  - now apply IH.
  - unfold ref11_step. cbn [rl hs msg11]. now rewrite Hd.
Qed.

(* ---- chunk body ---- *)
Lemma ref11_body_full : forall l k m rest, N.of_nat (length l) = k -> 1 <= k ->
  ref11 (rl m (Body k)) (l ++ rest) = ref11 (rl (m ++ l) H0) rest.
Proof.
  induction l as [|x l IH]; intros k m rest Hk H1.
  - cbn in Hk. lia.
  - cbn [app]. destruct l as [|y l'].
    + cbn in Hk. subst k. rewrite (ref11_quiet _ _ (rl (m ++ [x]) H0)); [reflexivity|].
      unfold ref11_step. cbn [rl hs msg11]. reflexivity.
    + rewrite (ref11_quiet _ _ (rl (m ++ [x]) (Body (k - 1)))).
      * rewrite (IH (k - 1) (m ++ [x]) rest).
        -- now rewrite <- app_assoc.
        -- cbn [length] in *. lia.
        -- cbn [length] in *. lia.
      * unfold ref11_step. cbn [rl hs msg11].
        destruct (k <=? 1) eqn:E; [apply N.leb_le in E; cbn [length] in Hk; lia|reflexivity].
Qed.

Lemma ref11_body_part : forall l k m, N.of_nat (length l) < k ->
  ref11 (rl m (Body k)) l = (rl (m ++ l) (Body (k - N.of_nat (length l))), []).
Proof.
  induction l as [|x l IH]; intros k m Hk.
  - cbn. rewrite N.sub_0_r, app_nil_r. reflexivity.
  - rewrite (ref11_quiet _ _ (rl (m ++ [x]) (Body (k - 1)))).
    + rewrite IH by (cbn [length] in Hk; lia). rewrite <- app_assoc. cbn [app length].
      do 3 f_equal. lia.
    + unfold ref11_step. cbn [rl hs msg11].
      destruct (k <=? 1) eqn:E; [apply N.leb_le in E; cbn [length] in Hk; lia|reflexivity].
Qed.

(* ---- what match_hdr recognises ---- *)
Lemma match_hdr_end l after : match_hdr l = HEnd after -> l = LF :: HASH :: HASH :: LF :: after.
Proof.
  unfold match_hdr. destruct l as [|a [|b r]]; try discriminate.
  destruct (N.eqb_spec a LF) as [->|]; [|discriminate]. destruct (N.eqb_spec b HASH) as [->|]; [|discriminate].
  cbn [andb]. destruct (span_digits r) as [ds r'] eqn:S. destruct ds as [|d0 ds].
  - destruct r as [|c [|d after']]; try discriminate.
    destruct (N.eqb_spec c HASH) as [->|]; [|discriminate]. destruct (N.eqb_spec d LF) as [->|]; [|discriminate].
    cbn [andb]. intros [= ->]. reflexivity.
  - destruct r' as [|c after']; [discriminate|]. destruct (c =? LF); discriminate.
Qed.

Lemma match_hdr_chunk l n after : match_hdr l = HChunk n after ->
  exists ds, ds <> [] /\ forallb is_digit ds = true /\ n = digits_val ds /\ l = LF :: HASH :: ds ++ LF :: after.
Proof.
  unfold match_hdr. destruct l as [|a [|b r]]; try discriminate.
  destruct (N.eqb_spec a LF) as [->|]; [|discriminate]. destruct (N.eqb_spec b HASH) as [->|]; [|discriminate].
  cbn [andb]. destruct (span_digits r) as [ds r'] eqn:S. apply span_digits_spec in S as [-> [Hd _]].
  destruct ds as [|d0 ds].
  - cbn [app]. destruct r' as [|c [|d after']]; try discriminate. destruct ((c =? HASH) && (d =? LF)); discriminate.
  - destruct r' as [|c after']; [discriminate|]. destruct (N.eqb_spec c LF) as [->|]; [|discriminate].
    intros [= <- <-]. exists (d0 :: ds). repeat split; auto. discriminate.
Qed.

(* the reference automaton over a complete chunk header *)
Lemma ref11_header m ds rest : ds <> [] -> forallb is_digit ds = true ->
  ref11 (rl m H0) (LF :: HASH :: ds ++ LF :: rest) =
  ref11 (rl m (if digits_val ds =? 0 then H0 else Body (digits_val ds))) rest.
Proof.
  intros Hne Hd. destruct ds as [|d ds]; [congruence|]. cbn [forallb] in Hd. apply andb_true_iff in Hd as [Hd0 Hd].
  rewrite (ref11_quiet _ _ (rl m H1)) by reflexivity.
  rewrite (ref11_quiet _ _ (rl m H2)) by reflexivity.
  cbn [app]. destruct (digit_not_lf_hash _ Hd0) as [_ Nh].
  rewrite (ref11_quiet _ _ (rl m (HD (digit_step 0 d)))).
  2:{ unfold ref11_step. cbn [rl hs msg11]. now rewrite Nh, Hd0. }
  rewrite ref11_digits by exact Hd.
  unfold digits_val. cbn [fold_left].
  apply ref11_quiet. unfold ref11_step. cbn [rl hs msg11].
  assert (is_digit LF = false) as -> by reflexivity. reflexivity.
Qed.

Lemma ref11_end m rest : ref11 (rl m H0) (LF :: HASH :: HASH :: LF :: rest) =
  match decode_strict m with
  | Some t => let '(s, e) := ref11 rinit11 rest in (s, Deliver t :: e)
  | None => (rl m Dead, [Raise K_UNICODE])
  end.
Proof.
  rewrite (ref11_quiet _ _ (rl m H1)) by reflexivity.
  rewrite (ref11_quiet _ _ (rl m H2)) by reflexivity.
  rewrite (ref11_quiet _ _ (rl m HE)) by reflexivity.
  rewrite ref11_cons. unfold ref11_step. cbn [rl hs msg11]. change (LF =? LF) with true. cbv iota.
  destruct (decode_strict m) as [t|].
  - change {| hs := H0; msg11 := [] |} with rinit11. destruct (ref11 rinit11 rest). reflexivity.
  - fold (rl m Dead). rewrite ref11_dead. reflexivity.
Qed.

(* ---- a head that is neither a delimiter nor the beginning of one ---- *)
Definition alive (s : r11) : Prop := dead_r11 s = false.

Lemma ref11_prefix m l : match_hdr l = HNone -> delim_prefix l = true ->
  exists h, h <> Dead /\ ref11 (rl m H0) l = (rl m h, []).
Proof.
  intros Hm Hp. unfold delim_prefix in Hp. destruct l as [|a r]; [discriminate|].
  apply andb_true_iff in Hp as [Ha Hp]. apply N.eqb_eq in Ha. subst a.
  destruct r as [|b r2].
  - exists H1. split; [discriminate|reflexivity].
  - apply andb_true_iff in Hp as [Hb Hp]. apply N.eqb_eq in Hb. subst b.
    destruct r2 as [|c r3].
    + exists H2. split; [discriminate|reflexivity].
    + apply orb_true_iff in Hp as [Hp|Hp].
      * apply andb_true_iff in Hp as [Hc Hp]. apply N.eqb_eq in Hc. subst c.
        destruct r3; [|discriminate]. exists HE. split; [discriminate|reflexivity].
      * rewrite (ref11_quiet _ _ (rl m H1)) by reflexivity.
        rewrite (ref11_quiet _ _ (rl m H2)) by reflexivity.
        cbn [forallb] in Hp. apply andb_true_iff in Hp as [Hc Hp].
        destruct (digit_not_lf_hash _ Hc) as [_ Nh].
        rewrite (ref11_quiet _ _ (rl m (HD (digit_step 0 c)))).
        2:{ unfold ref11_step. cbn [rl hs msg11]. now rewrite Nh, Hc. }
        rewrite <- (app_nil_r r3). rewrite ref11_digits by exact Hp.
        eexists. split; [|reflexivity]. discriminate.
Qed.

Lemma ref11_garbage m l : l <> [] -> match_hdr l = HNone -> delim_prefix l = false ->
  ref11 (rl m H0) l = (rl m Dead, [Raise K_FRAMING]).
Proof.
  intros Hne Hm Hp. destruct l as [|a r]; [congruence|]. clear Hne.
  destruct (N.eqb_spec a LF) as [->|Na].
  2:{ apply ref11_err. unfold ref11_step. cbn [rl hs msg11]. apply N.eqb_neq in Na. now rewrite Na. }
  destruct r as [|b r2]; [discriminate|].
  rewrite (ref11_quiet _ _ (rl m H1)) by reflexivity.
  destruct (N.eqb_spec b HASH) as [->|Nb].
  2:{ apply ref11_err. unfold ref11_step. cbn [rl hs msg11]. apply N.eqb_neq in Nb. now rewrite Nb. }
  rewrite (ref11_quiet _ _ (rl m H2)) by reflexivity.
  unfold match_hdr in Hm. change ((LF =? LF) && (HASH =? HASH)) with true in Hm. cbv iota in Hm.
  destruct (span_digits r2) as [ds r'] eqn:S. pose proof (span_digits_spec _ _ _ S) as [E [Hd Hc]].
  destruct ds as [|d0 ds].
  - cbn [app] in E. subst r'. destruct r2 as [|c r3]; [discriminate|].
    assert (Dc : is_digit c = false) by exact Hc.
    destruct (N.eqb_spec c HASH) as [->|Nc].
    + destruct r3 as [|d after]; [discriminate|].
      rewrite (ref11_quiet _ _ (rl m HE)) by reflexivity.
      destruct (N.eqb_spec d LF) as [->|Nd]; [discriminate|].
      apply ref11_err. unfold ref11_step. cbn [rl hs msg11]. apply N.eqb_neq in Nd. now rewrite Nd.
    + apply ref11_err. unfold ref11_step. cbn [rl hs msg11]. apply N.eqb_neq in Nc. now rewrite Nc, Dc.
  - subst r2. cbn [forallb] in Hd. apply andb_true_iff in Hd as [Hd0 Hd].
    destruct (digit_not_lf_hash _ Hd0) as [_ Nh]. cbn [app].
    rewrite (ref11_quiet _ _ (rl m (HD (digit_step 0 d0)))).
    2:{ unfold ref11_step. cbn [rl hs msg11]. now rewrite Nh, Hd0. }
    rewrite ref11_digits by exact Hd.
    destruct r' as [|c after].
    + exfalso. cbn [delim_prefix] in Hp. change (LF =? LF) with true in Hp. change (HASH =? HASH) with true in Hp.
      cbn [andb] in Hp. rewrite app_nil_r in Hp. cbn [forallb] in Hp. rewrite Hd0, Hd in Hp.
      rewrite orb_true_r in Hp. discriminate.
    + destruct (N.eqb_spec c LF) as [->|Nc]; [discriminate|].
      apply ref11_err. unfold ref11_step. cbn [rl hs msg11]. apply N.eqb_neq in Nc. now rewrite Hc, Nc.
Qed.

(* ---- batch equivalence with residual ---- *)
Definition R11 (st : pst11) (rs : r11) : Prop :=
  if dead11 st then dead_r11 rs = true
  else dead_r11 rs = false /\ ref11 (rl (frags11 st) H0) (buf11 st) = (rs, []).

Lemma batch11 : forall f data frags st evs, (length data < f)%nat ->
  parse11 f data frags = (st, evs) ->
  exists rs, ref11 (rl frags H0) data = (rs, evs) /\ R11 st rs.
Proof.
  induction f as [|f IH]; intros data frags st evs Hl H; [lia|].
  cbn [parse11] in H. destruct data as [|x0 data0].
  { injection H as <- <-. exists (rl frags H0). split; [reflexivity|]. unfold R11. cbn. auto. }
  remember (x0 :: data0) as data eqn:Ed.
  assert (Hne : data <> []) by (subst; discriminate). clear Ed x0 data0.
  destruct (match_hdr data) as [|after|n after] eqn:M.
  - destruct (delim_prefix data) eqn:P.
    + injection H as <- <-. destruct (ref11_prefix frags data M P) as [h [Hh Hr]].
      exists (rl frags h). split; [exact Hr|]. unfold R11. cbn [dead11 frags11 buf11].
      split; [destruct h; try reflexivity; congruence | exact Hr].
    + injection H as <- <-. exists (rl frags Dead). split; [now apply ref11_garbage|]. reflexivity.
  - apply match_hdr_end in M. subst data. rewrite ref11_end.
    destruct (decode_strict frags) as [t|].
    + destruct (parse11 f after []) as [st2 evs2] eqn:P. injection H as <- <-.
      destruct (IH after [] st2 evs2) as [rs [H1 H2]]; [cbn [length] in Hl; lia | exact P|].
      exists rs. change (rl [] H0) with rinit11 in H1. rewrite H1. auto.
    + injection H as <- <-. exists (rl frags Dead). split; reflexivity.
  - apply match_hdr_chunk in M as [ds [Dne [Dd [-> ->]]]].
    rewrite ref11_header by assumption.
    destruct (digits_val ds <=? N.of_nat (length after)) eqn:Le.
    + apply N.leb_le in Le. set (n := digits_val ds) in *.
      assert (Ln : (N.to_nat n <= length after)%nat) by lia.
      assert (Hlen : (length (skipn (N.to_nat n) after) < f)%nat).
      { rewrite skipn_length. cbn [length] in Hl. rewrite app_length in Hl. cbn [length] in Hl. lia. }
      destruct (IH _ _ _ _ Hlen H) as [rs [H1 H2]].
      exists rs. split; [|exact H2]. rewrite <- H1.
      rewrite <- (firstn_skipn (N.to_nat n) after) at 1.
      destruct (N.eqb_spec n 0) as [Z|NZ].
      * rewrite Z. cbn [N.to_nat firstn skipn app]. now rewrite app_nil_r.
      * apply ref11_body_full; [rewrite firstn_length; lia | lia].
    + apply N.leb_gt in Le. injection H as <- <-. set (n := digits_val ds) in *.
      assert (NZ : (n =? 0) = false) by (apply N.eqb_neq; lia).
      eexists. split.
      * rewrite NZ. apply ref11_body_part. exact Le.
      * unfold R11. cbn [dead11 frags11 buf11]. split; [reflexivity|].
        rewrite ref11_header by assumption. fold n. rewrite NZ. apply ref11_body_part. exact Le.
Qed.

Lemma feed_sim11 st rs seg st' evs : R11 st rs -> feed11 st seg = (st', evs) ->
  exists rs', ref11 rs seg = (rs', evs) /\ R11 st' rs'.
Proof.
  intros HR H. unfold feed11 in H. unfold R11 in HR. destruct (dead11 st) eqn:Dd.
  - injection H as <- <-. exists rs. split; [|unfold R11; now rewrite Dd].
    destruct rs as [h m]. unfold dead_r11 in HR. cbn in HR. destruct h; try discriminate. apply ref11_dead.
  - destruct HR as [Ha Hr]. destruct seg as [|x0 seg0].
    { injection H as <- <-. exists rs. split; [reflexivity|]. unfold R11. rewrite Dd. auto. }
    remember (x0 :: seg0) as seg eqn:Es. clear Es x0 seg0.
    destruct (batch11 _ _ _ _ _ (Nat.lt_succ_diag_r _) H) as [rs' [H1 H2]].
    exists rs'. split; [|exact H2].
    unfold ref11 in H1. rewrite run_bytes_app in H1. fold ref11 in H1. rewrite Hr in H1.
    destruct (ref11 rs seg) as [s2 e2]. cbn [app] in H1. exact H1.
Qed.

Lemma R_init11 : R11 init11 rinit11.
Proof. unfold R11. cbn. auto. Qed.
