(* BaseFacts.v — lemmas about the shared vocabulary of Model/Base.v *)
From NC Require Import Model.Base.

Lemma beq_refl a : beq a a = true.
Proof. induction a as [|x a IH]; simpl; [reflexivity|]. now rewrite N.eqb_refl, IH. Qed.

Lemma beq_eq a b : beq a b = true <-> a = b.
Proof.
  split.
  - revert b; induction a as [|x a IH]; intros [|y b]; simpl; try discriminate; auto.
    intros H. apply andb_true_iff in H as [H1 H2]. apply N.eqb_eq in H1. f_equal; auto.
  - intros ->. apply beq_refl.
Qed.

Lemma beq_neq a b : beq a b = false <-> a <> b.
Proof.
  split.
  - intros H E. apply beq_eq in E. congruence.
  - intros H. destruct (beq a b) eqn:E; [|reflexivity]. apply beq_eq in E. contradiction.
Qed.

Lemma beq_sym a b : beq a b = beq b a.
Proof.
  destruct (beq a b) eqn:E.
  - apply beq_eq in E; subst. symmetry; apply beq_refl.
  - symmetry. apply beq_neq. apply beq_neq in E. congruence.
Qed.

Lemma list_beq_eq (a b : list bytes) : list_beq beq a b = true <-> a = b.
Proof.
  split.
  - revert b; induction a as [|x a IH]; intros [|y b]; simpl; try discriminate; auto.
    intros H. apply andb_true_iff in H as [H1 H2]. apply beq_eq in H1. f_equal; auto.
  - intros ->. induction b as [|y b IH]; simpl; [reflexivity|]. now rewrite beq_refl, IH.
Qed.

Lemma mem_bytes_In x l : mem_bytes x l = true <-> In x l.
Proof.
  induction l as [|y l IH]; simpl; [split; [discriminate|tauto]|].
  rewrite orb_true_iff, IH, beq_eq. split; intros [H|H]; auto.
Qed.

Lemma split_on_nonempty c s : split_on c s <> [].
Proof.
  induction s as [|x s IH]; simpl; [discriminate|].
  destruct (N.eqb x c); [discriminate|]. destruct (split_on c s); discriminate.
Qed.

Lemma dict_get_set_same {V} k (v : V) d : dict_get k (dict_set k v d) = Some v.
Proof.
  induction d as [|[k' v'] d IH]; simpl.
  - now rewrite beq_refl.
  - destruct (beq k k') eqn:E; simpl; rewrite E; auto.
Qed.

Lemma dict_get_set_other {V} k k' (v : V) d :
  k <> k' -> dict_get k (dict_set k' v d) = dict_get k d.
Proof.
  intros Hn. induction d as [|[k2 v2] d IH]; simpl.
  - apply beq_neq in Hn. now rewrite Hn.
  - destruct (beq k' k2) eqn:E; simpl.
    + apply beq_eq in E; subst k2. apply beq_neq in Hn. now rewrite Hn.
    + destruct (beq k k2); auto.
Qed.

Lemma dict_get_In {V} k (d : list (bytes * V)) v : dict_get k d = Some v -> In (k, v) d.
Proof.
  induction d as [|[k' v'] d IH]; simpl; [discriminate|].
  destruct (beq k k') eqn:E.
  - apply beq_eq in E; subst. intros [= ->]. auto.
  - auto.
Qed.

Lemma dict_get_None {V} k (d : list (bytes * V)) : dict_get k d = None <-> ~ In k (map fst d).
Proof.
  induction d as [|[k' v'] d IH]; simpl; [tauto|].
  destruct (beq k k') eqn:E.
  - apply beq_eq in E; subst. split; [discriminate|]. intros H; exfalso; apply H; auto.
  - apply beq_neq in E. rewrite IH. split; [intros H [H1|H1]; [congruence|auto]|tauto].
Qed.

(* keys after dict_set: unchanged when present, appended when absent *)
Lemma keys_dict_set {V} k (v : V) d :
  map fst (dict_set k v d) =
  if mem_bytes k (map fst d) then map fst d else map fst d ++ [k].
Proof.
  induction d as [|[k' v'] d IH]; simpl; [reflexivity|].
  destruct (beq k k') eqn:E; simpl; [reflexivity|].
  rewrite IH. destruct (mem_bytes k (map fst d)); reflexivity.
Qed.
