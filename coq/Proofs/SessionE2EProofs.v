(* SessionE2EProofs.v — the composed model refines the session LTS, its inbound labels are a function of
   the stream (C01), and the label-history facts of the LTS that carry C03/C04/C11 over to octets. *)
From NC Require Import Model.Base Model.Utf8 Model.Framing10 Model.Framing11 Model.SessionLTS Model.SessionE2E.
From NC Require Import Spec.RefFraming Spec.E2ESpec.
From NC Require Import Proofs.ListFacts Proofs.FramingProofs Proofs.SessionLTSProofs.

(* ---------- label history of the LTS ---------- *)
Lemma step_qualify s l s' : step s l = Some s' -> qualify s' = qualify s.
Proof.
  intros H. destruct l; inv_step H; simpl; auto.
  all: try (destruct (qualify s); simpl; auto).
Qed.

Lemma step_rlog s l s' : step s l = Some s' ->
  rlog s' = rlog s \/
  exists i, rlog s' = rlog s ++ [i] /\ (l = LRecv 0 i \/ (l = LRecv 3 i /\ qualify s = false)).
Proof.
  intros H. destruct l; inv_step H; simpl; auto.
  all: right; exists arg; split; [reflexivity|].
  all: repeat match goal with H : (_ =? _) = true |- _ => apply N.eqb_eq in H; subst end; auto.
Qed.

Lemma run_qualify : forall ls s s', run s ls = Some s' -> qualify s' = qualify s.
Proof.
  induction ls as [|l ls IH]; intros s s' H; simpl in H; [now injection H as <-|].
  destruct (step s l) as [s1|] eqn:E; [|discriminate].
  rewrite (IH _ _ H). eapply step_qualify; eauto.
Qed.

Lemma run_rlog : forall ls s s' i, run s ls = Some s' -> In i (rlog s') ->
  In i (rlog s) \/ In (LRecv 0 i) ls \/ (qualify s = false /\ In (LRecv 3 i) ls).
Proof.
  induction ls as [|l ls IH]; intros s s' i H Hi; simpl in H; [injection H as <-; auto|].
  destruct (step s l) as [s1|] eqn:E; [|discriminate].
  destruct (IH _ _ _ H Hi) as [H1|[H1|[H1 H2]]].
  - destruct (step_rlog _ _ _ E) as [R|(j & R & Hl)].
    + rewrite R in H1. auto.
    + rewrite R in H1. apply in_app_or in H1 as [H1|[<-|[]]]; auto.
      destruct Hl as [->|[-> Q]]; simpl; auto.
  - simpl; auto.
  - rewrite (step_qualify _ _ _ E) in H1. simpl; auto.
Qed.

Lemma step_notifs s l s' : step s l = Some s' -> recv_notifs s' = recv_notifs s ++ notif_of l.
Proof.
  intros H. destruct l; inv_step H; simpl; rewrite ?app_nil_r; auto.
  all: try (destruct (qualify s); simpl; rewrite ?app_nil_r; auto).
  all: try (rewrite E0; simpl; rewrite ?app_nil_r; auto).
Qed.

Lemma run_notifs : forall ls s s', run s ls = Some s' -> recv_notifs s' = recv_notifs s ++ notif_args ls.
Proof.
  induction ls as [|l ls IH]; intros s s' H; simpl in H.
  - injection H as <-. simpl. now rewrite app_nil_r.
  - destruct (step s l) as [s1|] eqn:E; [|discriminate].
    rewrite (IH _ _ H), (step_notifs _ _ _ E). unfold notif_args. simpl. now rewrite app_assoc.
Qed.

Lemma left_loop_step s l s' : step s l = Some s' -> left_loop (pc s) = true -> left_loop (pc s') = true.
Proof.
  intros H He. destruct l; inv_step H; simpl in *; try assumption; try congruence.
  all: try (destruct (qualify s); simpl; congruence).
  all: try (rewrite ?E in He; simpl in He; congruence).
  all: try (apply is_idle_true in E; rewrite E in He; simpl in He; congruence).
Qed.

Lemma run_left_loop : forall ls s s', run s ls = Some s' -> left_loop (pc s) = true -> left_loop (pc s') = true.
Proof.
  induction ls as [|l ls IH]; intros s s' H Hl; simpl in H; [now injection H as <-|].
  destruct (step s l) as [s1|] eqn:E; [|discriminate]. eapply IH; eauto. eapply left_loop_step; eauto.
Qed.

Definition fatal (l : label) : bool := match l with LRaise _ | LReadEof => true | _ => false end.

Lemma step_fatal s l s' : step s l = Some s' -> fatal l = true -> left_loop (pc s') = true.
Proof. intros H Hf. destruct l; try discriminate; inv_step H; reflexivity. Qed.

Lemma run_fatal : forall ls s s', run s ls = Some s' -> existsb fatal ls = true -> left_loop (pc s') = true.
Proof.
  induction ls as [|l ls IH]; intros s s' H Hf; simpl in *; [discriminate|].
  destruct (step s l) as [s1|] eqn:E; [|discriminate].
  apply orb_true_iff in Hf as [Hf|Hf]; [|eauto].
  eapply run_left_loop; eauto. eapply step_fatal; eauto.
Qed.

(* ---------- framing state of the session's base ---------- *)
Lemma feed_all_P10 : forall segs a,
  feed_all pfeed (P10 a) segs = (P10 (fst (feed_all feed10 a segs)), snd (feed_all feed10 a segs)).
Proof.
  induction segs as [|seg segs IH]; intros a; [reflexivity|].
  cbn [feed_all pfeed]. destruct (feed10 a seg) as [a1 e]. rewrite IH.
  destruct (feed_all feed10 a1 segs). reflexivity.
Qed.
Lemma feed_all_P11 : forall segs a,
  feed_all pfeed (P11 a) segs = (P11 (fst (feed_all feed11 a segs)), snd (feed_all feed11 a segs)).
Proof.
  induction segs as [|seg segs IH]; intros a; [reflexivity|].
  cbn [feed_all pfeed]. destruct (feed11 a seg) as [a1 e]. rewrite IH.
  destruct (feed_all feed11 a1 segs). reflexivity.
Qed.

(* C01 lifted to the session's parser: the events depend on the concatenation of the reads only *)
Lemma pevents_stream b11 segs : events pfeed (pinit b11) segs = stream_events b11 (concat segs).
Proof.
  unfold events, pinit, stream_events. destruct b11.
  - rewrite feed_all_P11. cbn [snd]. apply c01_seg_indep11.
  - rewrite feed_all_P10. cbn [snd]. apply c01_seg_indep10.
Qed.

Lemma events_cons {S} (feed : S -> bytes -> S * list pevent) st seg segs :
  events feed st (seg :: segs) = snd (feed st seg) ++ events feed (fst (feed st seg)) segs.
Proof.
  unfold events. cbn [feed_all]. destruct (feed st seg) as [st1 e]. cbn [fst snd].
  destruct (feed_all feed st1 segs) as [st2 es]. reflexivity.
Qed.

Lemma nil_b_true {A} (l : list A) : nil_b l = true -> l = [].
Proof. destruct l; [reflexivity|discriminate]. Qed.

Section E2E.
Variable classify : bytes -> N * N.
Notation ev_label := (ev_label classify).
Notation ev_labels := (ev_labels classify).
Notation estep := (estep classify).
Notation erun := (erun classify).

Lemma ev_label_msg e : is_msg (ev_label e) = true.
Proof. destruct e as [m|k]; simpl; [destruct (classify m)|]; reflexivity. Qed.

Lemma inbound_msg l : inbound l = false -> is_msg l = false.
Proof. destruct l; simpl; congruence. Qed.

(* one effect of the composed model = at most one effect of the LTS *)
Ltac des H := match type of H with context [match ?x with _ => _ end] =>
                let E := fresh "E" in destruct x eqn:E; try discriminate H end.

Lemma estep_lts s l s' a : estep s l = Some (s', a) -> run (lts s) a = Some (lts s').
Proof.
  unfold SessionE2E.estep. intros H. destruct l as [seg| |l].
  - destruct seg as [|x seg]; repeat des H; injection H as <- <-; cbn [run lts]; rewrite ?E0; reflexivity.
  - repeat des H. injection H as <- <-. cbn [run lts]. now rewrite E0.
  - repeat des H. injection H as <- <-. cbn [run lts]. now rewrite E0.
Qed.

Lemma erun_refines : forall t s s' ls, erun s t = Some (s', ls) -> run (lts s) ls = Some (lts s').
Proof.
  induction t as [|l t IH]; intros s s' ls H; simpl in H.
  - injection H as <- <-. reflexivity.
  - destruct (estep s l) as [[s1 a]|] eqn:E; [|discriminate].
    destruct (erun s1 t) as [[s2 b]|] eqn:E2; [|discriminate].
    injection H as <- <-. rewrite run_app, (estep_lts _ _ _ _ E). eapply IH; eauto.
Qed.

(* the message labels that took place, followed by those of the parse call in progress, are the labels of
   the events the parser produced for the reads so far *)
Lemma erun_msgs : forall t s s' ls, erun s t = Some (s', ls) ->
  filter is_msg ls ++ ev_labels (pend s') = ev_labels (pend s ++ events pfeed (par s) (reads t)) /\
  par s' = fst (feed_all pfeed (par s) (reads t)).
Proof.
  induction t as [|l t IH]; intros s s' ls H; simpl in H.
  - injection H as <- <-. simpl. unfold events. simpl. now rewrite app_nil_r.
  - destruct (estep s l) as [[s1 a]|] eqn:E; [|discriminate].
    destruct (erun s1 t) as [[s2 b]|] eqn:E2; [|discriminate].
    injection H as <- <-. destruct (IH _ _ _ E2) as [IH1 IH2]. clear IH.
    rewrite filter_app, <- app_assoc, IH1, IH2. clear IH1 IH2 E2.
    unfold SessionE2E.estep in E. destruct l as [seg| |l].
    + destruct seg as [|x seg].
      * destruct (nil_b (pend s)) eqn:N; [|discriminate].
        destruct (step (lts s) LReadEof) as [y|]; [|discriminate].
        injection E as <- <-. apply nil_b_true in N. rewrite N. simpl. auto.
      * destruct (is_idle (pc (lts s)) && nil_b (pend s)) eqn:G; [|discriminate].
        apply andb_true_iff in G as [_ N]. apply nil_b_true in N.
        destruct (pfeed (par s) (x :: seg)) as [p' evs] eqn:F. injection E as <- <-.
        cbn [reads]. rewrite events_cons. cbn [feed_all]. rewrite F, N. cbn [fst snd lts par pend filter app].
        destruct (feed_all pfeed p' (reads t)). auto.
    + destruct (pend s) as [|e r]; [discriminate|].
      destruct (step (lts s) (ev_label e)) as [y|]; [|discriminate].
      injection E as <- <-. cbn [filter]. rewrite ev_label_msg. simpl. auto.
    + destruct (inbound l) eqn:I; [discriminate|]. cbn [orb] in E.
      destruct (loop_label (pc (lts s)) l && negb (nil_b (pend s))); [discriminate|].
      destruct (step (lts s) l) as [y|]; [|discriminate].
      injection E as <- <-. cbn [filter]. rewrite (inbound_msg _ I). simpl. auto.
Qed.

(* an end-of-file read shows as the label LReadEof *)
Lemma erun_eof : forall t s s' ls, erun s t = Some (s', ls) -> saw_eof t = true -> In LReadEof ls.
Proof.
  induction t as [|l t IH]; intros s s' ls H He; simpl in *; [discriminate|].
  destruct (estep s l) as [[s1 a]|] eqn:E; [|discriminate].
  destruct (erun s1 t) as [[s2 b]|] eqn:E2; [|discriminate].
  injection H as <- <-. apply in_or_app. apply orb_true_iff in He as [He|He]; [left|right; eauto].
  destruct l as [[|x seg]| |l]; try discriminate.
  unfold SessionE2E.estep in E. destruct (nil_b (pend s)); [|discriminate].
  destruct (step (lts s) LReadEof); [|discriminate]. injection E as <- <-. simpl; auto.
Qed.

(* ---------- the end-to-end statements ---------- *)
Lemma e2e_refines q b11 t s ls : erun (einit q b11) t = Some (s, ls) -> run (init q) ls = Some (lts s).
Proof. intros H. apply erun_refines in H. exact H. Qed.

Lemma e2e_reach q b11 t s ls : erun (einit q b11) t = Some (s, ls) -> reach (lts s).
Proof. intros H. exists q, ls. eapply e2e_refines; eauto. Qed.

Lemma e2e_segmentation_independent q b11 t s ls : erun (einit q b11) t = Some (s, ls) ->
  filter is_msg ls ++ ev_labels (pend s) = ev_labels (stream_events b11 (concat (reads t))).
Proof.
  intros H. destruct (erun_msgs _ _ _ _ H) as [H1 _]. rewrite H1. cbn [einit pend par app].
  now rewrite pevents_stream.
Qed.

Lemma e2e_same_stream_same_labels q1 q2 b11 t1 t2 s1 s2 ls1 ls2 :
  erun (einit q1 b11) t1 = Some (s1, ls1) -> erun (einit q2 b11) t2 = Some (s2, ls2) ->
  concat (reads t1) = concat (reads t2) ->
  filter is_msg ls1 ++ ev_labels (pend s1) = filter is_msg ls2 ++ ev_labels (pend s2).
Proof.
  intros H1 H2 Hc. rewrite (e2e_segmentation_independent _ _ _ _ _ H1), (e2e_segmentation_independent _ _ _ _ _ H2).
  now rewrite Hc.
Qed.

Lemma in_filter_msg l ls : In l ls -> is_msg l = true -> In l (filter is_msg ls).
Proof. intros H1 H2. apply filter_In. auto. Qed.

Lemma in_ev_labels k a evs : In (LRecv k a) (ev_labels evs) -> exists m, In (Deliver m) evs /\ classify m = (k, a).
Proof.
  unfold SessionE2E.ev_labels. intros H. apply in_map_iff in H as ([m|c] & He & Hin); simpl in He.
  - exists m. split; [exact Hin|]. destruct (classify m) as [k' a']. now injection He as -> ->.
  - discriminate.
Qed.

Lemma e2e_reply_to_its_request q b11 t s ls rid r i :
  erun (einit q b11) t = Some (s, ls) -> rq (lts s) rid = Some r ->
  r_reply r = Some i \/ r_st r = CDone (OReply i) ->
  i = r_id r /\
  exists m, In (Deliver m) (stream_events b11 (concat (reads t))) /\
            (classify m = (0, i) \/ (classify m = (3, i) /\ q = false)).
Proof.
  intros H Hq Hr. pose proof (e2e_reach _ _ _ _ _ H) as HR.
  assert (Hrep : r_reply r = Some i).
  { destruct Hr as [Hr|Hr]; [exact Hr|]. destruct (reach_Inv _ HR) as [_ HB]. eapply (b_done _ HB); eauto. }
  split; [eapply c03_own_reply; eauto|].
  pose proof (c03_reply_was_received _ _ _ _ HR Hq Hrep) as Hlog.
  pose proof (e2e_segmentation_independent _ _ _ _ _ H) as Hseg.
  destruct (run_rlog _ _ _ _ (e2e_refines _ _ _ _ _ H) Hlog) as [[]|[Hin|[Hqf Hin]]].
  - apply in_filter_msg in Hin; [|reflexivity].
    assert (Hin2 : In (LRecv 0 i) (ev_labels (stream_events b11 (concat (reads t))))).
    { rewrite <- Hseg. apply in_or_app; auto. }
    apply in_ev_labels in Hin2 as (m & Hm & Hc). eauto.
  - apply in_filter_msg in Hin; [|reflexivity].
    assert (Hin2 : In (LRecv 3 i) (ev_labels (stream_events b11 (concat (reads t))))).
    { rewrite <- Hseg. apply in_or_app; auto. }
    apply in_ev_labels in Hin2 as (m & Hm & Hc). simpl in Hqf. eauto.
Qed.

Lemma existsb_filter_msg ls : existsb fatal (filter is_msg ls) = true -> existsb fatal ls = true.
Proof.
  intros H. apply existsb_exists in H as (l & Hin & Hf). apply filter_In in Hin as [Hin _].
  apply existsb_exists. eauto.
Qed.

Lemma raised_fatal evs : raised evs = true -> existsb fatal (ev_labels evs) = true.
Proof.
  unfold raised. intros H. apply existsb_exists in H as ([m|k] & Hin & Hf); [discriminate|].
  apply existsb_exists. exists (ev_label (Raise k)). split; [|reflexivity].
  unfold SessionE2E.ev_labels. apply in_map. exact Hin.
Qed.

Lemma e2e_loss_fails_all q b11 t s ls :
  erun (einit q b11) t = Some (s, ls) ->
  (raised (stream_events b11 (concat (reads t))) = true /\ pend s = []) \/ saw_eof t = true ->
  left_loop (pc (lts s)) = true /\
  (pc (lts s) = WClosed \/ pc (lts s) = WExited ->
   connected (lts s) = false /\
   forall rid r, rq (lts s) rid = Some r -> In rid (wrote (lts s)) -> r_reply r = None ->
                 r_error r <> None /\ r_ev r = true).
Proof.
  intros H Hloss. pose proof (e2e_reach _ _ _ _ _ H) as HR. pose proof (e2e_refines _ _ _ _ _ H) as Hrun.
  split.
  - eapply run_fatal; [exact Hrun|]. destruct Hloss as [[Hr Hp]|He].
    + apply existsb_filter_msg. pose proof (e2e_segmentation_independent _ _ _ _ _ H) as Hseg.
      rewrite Hp in Hseg. cbn [SessionE2E.ev_labels map] in Hseg. rewrite app_nil_r in Hseg. rewrite Hseg.
      apply raised_fatal. exact Hr.
    + apply existsb_exists. exists LReadEof. split; [|reflexivity]. eapply erun_eof; eauto.
  - intros Hpc. split; [eapply c04_disconnected; eauto|].
    intros rid r Hq Hw Hn. eapply c04_all_failed; eauto.
Qed.

Lemma notif_args_app a b : notif_args (a ++ b) = notif_args a ++ notif_args b.
Proof. unfold notif_args. apply flat_map_app. Qed.

Lemma notif_args_filter ls : notif_args (filter is_msg ls) = notif_args ls.
Proof.
  induction ls as [|l ls IH]; [reflexivity|]. cbn [filter]. destruct (is_msg l) eqn:M.
  - unfold notif_args in *. cbn [flat_map]. now rewrite IH.
  - unfold notif_args in *. cbn [flat_map]. rewrite IH. destruct l; try discriminate; reflexivity.
Qed.

Lemma e2e_notifications_in_order q b11 t s ls :
  erun (einit q b11) t = Some (s, ls) ->
  taken (lts s) ++ nq (lts s) ++ pend_notif (pc (lts s)) ++ notif_args (ev_labels (pend s))
  = notif_args (ev_labels (stream_events b11 (concat (reads t)))).
Proof.
  intros H. rewrite <- (e2e_segmentation_independent _ _ _ _ _ H), notif_args_app, notif_args_filter.
  rewrite <- (app_nil_l (notif_args ls)).
  change (@nil N) with (recv_notifs (init q)). rewrite <- (run_notifs _ _ _ (e2e_refines _ _ _ _ _ H)).
  rewrite <- (c11_queue_history _ (e2e_reach _ _ _ _ _ H)). now rewrite <- !app_assoc.
Qed.
End E2E.

(* ---------- the worker alone ---------- *)
Lemma listN_eqb_refl l : listN_eqb l l = true.
Proof. induction l as [|x l IH]; simpl; [reflexivity|]. now rewrite N.eqb_refl. Qed.

Lemma wnext_step s l : wnext s = Some l -> exists s', step s l = Some s' /\ (wmeasure s' < wmeasure s)%nat.
Proof.
  unfold wnext, wmeasure. destruct (pc s) eqn:P; try discriminate.
  - intros [= <-]. unfold step. rewrite P, N.eqb_refl. eexists; split; [reflexivity|]. simpl. lia.
  - intros [= <-]. unfold step. rewrite P, N.eqb_refl. destruct (tget id (table s)) eqn:T.
    + eexists; split; [reflexivity|]. simpl. lia.
    + eexists; split; [reflexivity|]. simpl. lia.
  - intros [= <-]. unfold step. rewrite P, Nat.eqb_refl. eexists; split; [reflexivity|]. simpl. lia.
  - intros [= <-]. unfold step. rewrite P, N.eqb_refl. eexists; split; [reflexivity|]. simpl. lia.
  - intros [= <-]. unfold step. rewrite P, N.eqb_refl. eexists; split; [reflexivity|]. simpl. lia.
  - destruct (skipok s) eqn:K; intros [= <-]; unfold step; rewrite P.
    + cbn [N.eqb]. rewrite K. eexists; split; [reflexivity|]. simpl. lia.
    + rewrite listN_eqb_refl. eexists; split; [reflexivity|]. simpl. rewrite map_length. lia.
  - intros [= <-]. unfold step. rewrite P. eexists; split; [reflexivity|]. simpl. lia.
  - destruct rids as [|r rest]; intros [= <-]; unfold step; rewrite P.
    + cbn [N.eqb]. eexists; split; [reflexivity|]. simpl. lia.
    + rewrite Nat.eqb_refl. eexists; split; [reflexivity|]. simpl. lia.
  - intros [= <-]. unfold step. rewrite P. eexists; split; [reflexivity|]. simpl. lia.
Qed.

Lemma settle_run : forall f s, run s (settle_labels f s) = Some (settle f s).
Proof.
  induction f as [|f IH]; intros s; [reflexivity|]. cbn [settle settle_labels].
  destruct (wnext s) as [l|]; [|reflexivity].
  destruct (step s l) as [s'|] eqn:E; [|reflexivity]. cbn [run]. rewrite E. apply IH.
Qed.

Lemma wmeasure_0 s : wmeasure s = 0%nat -> pc s = WIdle \/ pc s = WExited.
Proof. unfold wmeasure. destruct (pc s); auto; discriminate. Qed.

Lemma settle_done : forall f s, (wmeasure s <= f)%nat -> pc (settle f s) = WIdle \/ pc (settle f s) = WExited.
Proof.
  induction f as [|f IH]; intros s Hm.
  - apply wmeasure_0. simpl. lia.
  - cbn [settle]. destruct (wnext s) as [l|] eqn:W.
    + destruct (wnext_step _ _ W) as (s' & E & Hlt). rewrite E. apply IH. lia.
    + unfold wnext in W. destruct (pc s) eqn:P; auto; try discriminate.
      * destruct (skipok s); discriminate.
      * destruct rids; discriminate.
Qed.

Lemma settle_fuel_ok s : (wmeasure s <= settle_fuel s)%nat.
Proof. unfold wmeasure, settle_fuel. destruct (pc s); lia. Qed.

(* after a dispatch the worker, left alone, is idle again or has exited: [serve] never stops half-way *)
Lemma settle_complete s : pc (settle (settle_fuel s) s) = WIdle \/ pc (settle (settle_fuel s) s) = WExited.
Proof. apply settle_done, settle_fuel_ok. Qed.

Lemma settle_labels_err : forall f s, left_loop (pc s) = true -> Forall worker_err_label (settle_labels f s).
Proof.
  induction f as [|f IH]; intros s Hl; [constructor|]. cbn [settle_labels].
  destruct (wnext s) as [l|] eqn:W; [|constructor].
  destruct (step s l) as [s'|] eqn:E; [|constructor]. constructor.
  - unfold wnext in W. destruct (pc s) eqn:P; try discriminate; try (injection W as <-; exact I).
    + destruct (skipok s); injection W as <-; exact I.
    + destruct rids; injection W as <-; exact I.
  - apply IH. eapply left_loop_step; eauto.
Qed.

Lemma left_loop_exits s : left_loop (pc s) = true ->
  exists ws s', Forall worker_err_label ws /\ run s ws = Some s' /\ pc s' = WExited.
Proof.
  intros Hl. exists (settle_labels (settle_fuel s) s), (settle (settle_fuel s) s).
  split; [apply settle_labels_err; exact Hl|]. split; [apply settle_run|].
  destruct (settle_complete s) as [H|H]; [|exact H].
  pose proof (run_left_loop _ _ _ (settle_run (settle_fuel s) s) Hl) as H2. rewrite H in H2. discriminate.
Qed.

Section E2E2.
Variable classify : bytes -> N * N.

(* worker effects of the error path are accepted by the composed model whenever the LTS accepts them *)
Lemma erun_EL_err : forall ws s x, left_loop (pc (lts s)) = true -> Forall worker_err_label ws ->
  run (lts s) ws = Some x ->
  erun classify s (map EL ws) = Some ({| lts := x; par := par s; pend := pend s |}, ws).
Proof.
  induction ws as [|l ws IH]; intros s x Hl Hw H; simpl in H.
  - injection H as <-. destruct s; reflexivity.
  - destruct (step (lts s) l) as [s1|] eqn:E; [|discriminate].
    apply Forall_cons_iff in Hw as [Hw1 Hw2].
    cbn [map erun]. unfold estep.
    assert (Hi : inbound l = false) by (destruct l; try reflexivity; destruct Hw1).
    assert (Hp : loop_label (pc (lts s)) l = false).
    { destruct l; try reflexivity; try destruct Hw1. simpl. destruct (pc (lts s)); try reflexivity; discriminate. }
    rewrite Hi, Hp, E. cbn [orb andb].
    rewrite (IH {| lts := s1; par := par s; pend := pend s |} x); auto.
    cbn [lts]. eapply left_loop_step; eauto.
Qed.

Lemma e2e_loss_completes s : left_loop (pc (lts s)) = true ->
  exists ws s' ls, Forall worker_err_label ws /\ erun classify s (map EL ws) = Some (s', ls) /\ pc (lts s') = WExited.
Proof.
  intros Hl. destruct (left_loop_exits _ Hl) as (ws & x & Hw & Hr & Hx).
  exists ws, {| lts := x; par := par s; pend := pend s |}, ws. split; [exact Hw|]. split; [|exact Hx].
  apply erun_EL_err; auto.
Qed.

(* ---- serving a stream with the clients quiet ---- *)
Notation serve_events := (serve_events classify).

Lemma serve_events_stuck evs s : is_idle (pc s) = false -> serve_events s evs = s.
Proof. intros H. destruct evs; simpl; [reflexivity|]. now rewrite H. Qed.

Lemma serve_events_app : forall a b s, serve_events s (a ++ b) = serve_events (serve_events s a) b.
Proof.
  induction a as [|e a IH]; intros b s; [reflexivity|]. cbn [app SessionE2E.serve_events].
  destruct (is_idle (pc s)) eqn:I.
  - destruct (step s (ev_label classify e)); apply IH.
  - now rewrite serve_events_stuck.
Qed.

Lemma serve_lts : forall segs s, pend s = [] ->
  lts (serve classify s segs) = serve_events (lts s) (events pfeed (par s) segs).
Proof.
  induction segs as [|seg segs IH]; intros s Hp; [reflexivity|]. cbn [serve]. rewrite Hp. cbn [nil_b].
  rewrite andb_true_r. destruct (is_idle (pc (lts s))) eqn:I.
  - rewrite events_cons. destruct (pfeed (par s) seg) as [p' evs]. rewrite IH by reflexivity.
    cbn [lts par fst snd]. now rewrite serve_events_app.
  - now rewrite serve_events_stuck.
Qed.

Lemma e2e_serve_stream b11 s0 segs :
  serve_stream classify s0 (pinit b11) segs = serve_events s0 (stream_events b11 (concat segs)).
Proof. unfold serve_stream. rewrite serve_lts by reflexivity. cbn [lts par]. now rewrite pevents_stream. Qed.

Lemma e2e_serve_segmentation_independent b11 s0 segs1 segs2 :
  concat segs1 = concat segs2 ->
  serve_stream classify s0 (pinit b11) segs1 = serve_stream classify s0 (pinit b11) segs2.
Proof. intros H. now rewrite !e2e_serve_stream, H. Qed.
End E2E2.
