(* SaxProofs.v — lemmas for C18 (Model/SaxFilter.v against Spec/Projection.v). *)
From Coq Require Import String.
From NC Require Import Model.Base Model.Lit Model.SaxFilter Spec.Projection.

(* ------------------------------------------------------------------ switch signal *)
Lemma c18_nofilter_switch_step : forall e s top a id,
  is_reply top = true -> dict_get s_msgid a = Some id -> has_listener e = true ->
  dict_get id (table e) = Some None ->
  step e s (Start top a) = Raise ESwitch [].
Proof.
  intros e s top a id Hr Hm Hl Ht. cbn [step]. unfold start.
  rewrite Hr, Hm, Hl, Ht. reflexivity.
Qed.
