(* SaxProofs.v — lemmas for C18 (Model/SaxFilter.v against Spec/Projection.v). *)
From Coq Require Import String.
From NC Require Import Model.Base Model.Lit Model.SaxFilter Spec.Projection Proofs.BaseFacts.

(* ------------------------------------------------------------------ generic facts about exec / runb *)
Lemma escape_app a b : escape (a ++ b) = escape a ++ escape b.
Proof. unfold escape. apply flat_map_app. Qed.

Lemma render_app a b : render (a ++ b) = render a ++ render b.
Proof. unfold render. apply flat_map_app. Qed.

Lemma runb_cons e s ev r :
  runb e s (ev :: r) =
  match step e s ev with
  | Done s' o => let (b, oc) := runb e s' r in (render o ++ b, oc)
  | Raise x o => (render o, Raised x)
  end.
Proof.
  unfold runb. cbn [exec]. destruct (step e s ev) as [s' o|x o]; [|reflexivity].
  destruct (exec e s' r) as [o' oc]. rewrite render_app. reflexivity.
Qed.

Lemma exec_app e : forall l1 l2 s,
  exec e s (l1 ++ l2) =
  let (o1, oc) := exec e s l1 in
  match oc with
  | Fin s' => let (o2, oc2) := exec e s' l2 in (o1 ++ o2, oc2)
  | Raised x => (o1, Raised x)
  end.
Proof.
  induction l1 as [|ev l1 IH]; intros l2 s; cbn [exec app].
  - destruct (exec e s l2); reflexivity.
  - destruct (step e s ev) as [s' o|x o]; [|reflexivity].
    rewrite IH. destruct (exec e s' l1) as [o1 [s''|x]]; [|reflexivity].
    destruct (exec e s'' l2). rewrite app_assoc. reflexivity.
Qed.

Lemma exec_app_fin e l1 l2 s s' o1 o2 oc :
  exec e s l1 = (o1, Fin s') -> exec e s' l2 = (o2, oc) -> exec e s (l1 ++ l2) = (o1 ++ o2, oc).
Proof. intros H1 H2. rewrite exec_app, H1, H2. reflexivity. Qed.

(* ------------------------------------------------------------------ C18_chars_split *)
Lemma runb_chars2 e s a b r :
  runb e s (Chars (a ++ b) :: r) = runb e s (Chars a :: Chars b :: r).
Proof.
  rewrite (runb_cons e s (Chars (a ++ b))), (runb_cons e s (Chars a)). cbn [step]. unfold chars.
  destruct (curtag s) eqn:Hc; rewrite runb_cons; cbn [step]; unfold chars; rewrite Hc;
    destruct (runb e s r) as [o oc]; cbn [render flat_map render1];
    rewrite ?app_nil_r, ?escape_app, ?app_assoc; reflexivity.
Qed.

Lemma runb_chars_nil e s r : runb e s (Chars [] :: r) = runb e s r.
Proof.
  rewrite runb_cons. cbn [step]. unfold chars.
  destruct (curtag s); destruct (runb e s r); reflexivity.
Qed.

Lemma runb_cons_chars e s a l : runb e s (cons_chars a l) = runb e s (Chars a :: l).
Proof.
  unfold cons_chars. destruct l as [|[n at_|n|b] r].
  - destruct a; [rewrite runb_chars_nil|]; reflexivity.
  - destruct a; [rewrite runb_chars_nil|]; reflexivity.
  - destruct a; [rewrite runb_chars_nil|]; reflexivity.
  - apply runb_chars2.
Qed.

Lemma runb_canon e : forall evs s, runb e s (canon evs) = runb e s evs.
Proof.
  induction evs as [|ev r IH]; intro s; [reflexivity|].
  destruct ev as [n a|n|c]; cbn [canon].
  - rewrite !runb_cons. destruct (step e s (Start n a)); [rewrite IH|]; reflexivity.
  - rewrite !runb_cons. destruct (step e s (End n)); [rewrite IH|]; reflexivity.
  - rewrite runb_cons_chars, !runb_cons. destruct (step e s (Chars c)); [rewrite IH|]; reflexivity.
Qed.

Lemma c18_chars_split : forall e s evs1 evs2,
  canon evs1 = canon evs2 -> runb e s evs1 = runb e s evs2.
Proof. intros e s evs1 evs2 H. rewrite <- (runb_canon e evs1), <- (runb_canon e evs2), H. reflexivity. Qed.

Lemma c18_chars_split_at : forall e s pre a b post,
  runb e s (pre ++ Chars (a ++ b) :: post) = runb e s (pre ++ Chars a :: Chars b :: post).
Proof.
  intros e s pre; revert s. induction pre as [|ev pre IH]; intros s a b post; cbn [app].
  - apply runb_chars2.
  - rewrite !runb_cons. destruct (step e s ev); [rewrite IH|]; reflexivity.
Qed.

(* ------------------------------------------------------------------ C18_nofilter_switch *)
Lemma c18_nofilter_switch_step : forall e s top a id,
  is_reply top = true -> dict_get s_msgid a = Some id -> has_listener e = true ->
  dict_get id (table e) = Some None ->
  step e s (Start top a) = Raise ESwitch [].
Proof.
  intros e s top a id Hr Hm Hl Ht. cbn [step]. unfold start.
  rewrite Hr, Hm, Hl, Ht. reflexivity.
Qed.

(* ------------------------------------------------------------------ C18_projection_partial *)
Fixpoint xt_ind' (P : xt -> Prop) (HT : forall c, P (T c))
  (HE : forall n a ks, Forall P ks -> P (E n a ks)) (t : xt) : P t :=
  match t with
  | T c => HT c
  | E n a ks => HE n a ks ((fix go (l : list xt) : Forall P l :=
                              match l with
                              | [] => Forall_nil P
                              | k :: l' => Forall_cons k (xt_ind' P HT HE k) (go l')
                              end) ks)
  end.

Lemma ev_E n a ks : ev (E n a ks) = Start n a :: flat_map ev ks ++ [End n].
Proof.
  reflexivity.
Qed.

(* what the projection keeps of one child *)
Definition pk (f : ftree) (k : xt) : list xt :=
  match k with
  | T c => [T c]
  | E m _ _ => match find_f m (fkids f) with Some f' => [proj k f'] | None => [] end
  end.

Lemma proj_E n a ks f : proj (E n a ks) f = E n a (flat_map (pk f) ks).
Proof.
  reflexivity.
Qed.

Lemma names_avoid_E bad n a ks :
  names_avoid bad (E n a ks) = negb (mem_bytes n bad) && forallb (names_avoid bad) ks.
Proof.
  reflexivity.
Qed.

Lemma drop_blank_app a b : drop_blank (a ++ b) = drop_blank a ++ drop_blank b.
Proof. unfold drop_blank. apply filter_app. Qed.

Lemma oes_app a b : oes (a ++ b) = oes a ++ oes b.
Proof. unfold oes. apply flat_map_app. Qed.

Lemma find_f_tag m : forall l f, find_f m l = Some f -> beq (ftag f) m = true.
Proof.
  induction l as [|g l IH]; intros f H; [discriminate|]. cbn [find_f] in H.
  destruct (beq (ftag g) m) eqn:Hb; [inversion H; subst; exact Hb | apply IH; exact H].
Qed.

Lemma split_colon_plain : forall m, has_colon m = false -> split_colon m = None.
Proof.
  induction m as [|x m IH]; intro H; [reflexivity|]. cbn [has_colon] in H. cbn [split_colon].
  apply orb_false_iff in H. destruct H as [Hx Hm]. rewrite Hx, (IH Hm). reflexivity.
Qed.

Lemma resolve_plain b m : has_colon m = false -> resolve b m = Some m.
Proof. intro H. unfold resolve. rewrite (split_colon_plain m H). reflexivity. Qed.

(* --- a skipped subtree leaves no trace --- *)
Section Skip.
  Variables (e : env) (c : ftree) (rest : list ftree) (rt : option bytes) (rd : nat)
            (m : bytes) (D : list bytes) (v nc : bool).
  Let sk := mkst (c :: rest) rt rd false (Some m) D v nc.

  Lemma clash_facts n : mem_bytes n (clash m (ftag c) D) = false ->
    beq m n = false /\ beq (ftag c) n = false /\ is_reply n = false /\ mem_bytes n D = false.
  Proof.
    unfold clash. cbn [mem_bytes]. intro H.
    apply orb_false_iff in H. destruct H as [H1 H].
    apply orb_false_iff in H. destruct H as [H2 H].
    apply orb_false_iff in H. destruct H as [H3 H].
    apply orb_false_iff in H. destruct H as [H4 H5].
    repeat split.
    - rewrite beq_sym. exact H1.
    - rewrite beq_sym. exact H2.
    - unfold is_reply. rewrite H3, H4. reflexivity.
    - exact H5.
  Qed.

  Lemma skip_tree : forall t, names_avoid (clash m (ftag c) D) t = true ->
    exec e sk (ev t) = ([], Fin sk).
  Proof.
    induction t as [ch|n a ks IH] using xt_ind'; intro H.
    - reflexivity.
    - rewrite names_avoid_E in H. apply andb_true_iff in H. destruct H as [Hn Hks].
      apply negb_true_iff in Hn. destruct (clash_facts n Hn) as [Hm [Hc [Hr HD]]].
      rewrite ev_E.
      assert (Hkids : exec e sk (flat_map ev ks) = ([], Fin sk)).
      { clear Hn Hm Hc Hr HD. induction ks as [|k ks IHks]; [reflexivity|].
        cbn [forallb] in Hks. apply andb_true_iff in Hks. destruct Hks as [Hk Hks].
        inversion IH as [|k' ks' IHk IHrest]; subst.
        cbn [flat_map]. rewrite (exec_app_fin e (ev k) (flat_map ev ks) sk sk [] [] (Fin sk)); auto. }
      change (Start n a :: flat_map ev ks ++ [End n]) with ([Start n a] ++ flat_map ev ks ++ [End n]).
      rewrite (exec_app_fin e [Start n a] (flat_map ev ks ++ [End n]) sk sk [] [] (Fin sk)); [reflexivity| |].
      + cbn [exec step]. unfold start. rewrite Hr. reflexivity.
      + rewrite (exec_app_fin e (flat_map ev ks) [End n] sk sk [] [] (Fin sk)); [reflexivity|exact Hkids|].
        cbn [exec step]. unfold endel, sk. cbn [ign dtags cur roottag rootdepth validate ncns].
        rewrite Hm, HD, Hc. reflexivity.
  Qed.

  Lemma skip_kids : forall ks, Forall (fun k => names_avoid (clash m (ftag c) D) k = true) ks ->
    exec e sk (flat_map ev ks) = ([], Fin sk).
  Proof.
    induction ks as [|k ks IH]; intro H; [reflexivity|].
    inversion H as [|k' ks' Hk Hks]; subst. cbn [flat_map].
    rewrite (exec_app_fin e (ev k) (flat_map ev ks) sk sk [] [] (Fin sk)); auto using skip_tree.
  Qed.
End Skip.

Scheme WFm_mut := Minimality for WFm Sort Prop
  with WFks_mut := Minimality for WFks Sort Prop.

Lemma blank_nl : is_blank [10] = true.
Proof. reflexivity. Qed.

Lemma db_ostart m a : drop_blank (oes [OStart m a]) = [Start m a]. Proof. reflexivity. Qed.
Lemma db_oend m : drop_blank (oes [OEnd m]) = [End m]. Proof. reflexivity. Qed.
Lemma db_start m a : drop_blank [Start m a] = [Start m a]. Proof. reflexivity. Qed.
Lemma db_end m : drop_blank [End m] = [End m]. Proof. reflexivity. Qed.

Section Kept.
  Variables (e : env) (D : list bytes).

  Definition kstate (f : ftree) (rest : list ftree) (rt : option bytes) (rd : nat) (ct nc : bool) : st :=
    mkst (f :: rest) rt rd ct None D false nc.

  Lemma start_kept f rest rt rd ct nc m a f' :
    beq (ftag f) m = false -> has_colon m = false -> is_reply m = false ->
    find_f m (fkids f) = Some f' ->
    start e (kstate f rest rt rd ct nc) m a = Done (kstate f' (f :: rest) rt rd true nc) [OStart m a].
  Proof.
    intros Hb Hc Hr Hf. unfold start, kstate. rewrite Hr.
    cbn [ign cur roottag rootdepth validate ncns curtag dtags].
    rewrite Hb, andb_false_r, (resolve_plain nc m Hc), Hf. reflexivity.
  Qed.

  Lemma start_skipped f rest rt rd ct nc m a :
    beq (ftag f) m = false -> has_colon m = false -> is_reply m = false ->
    find_f m (fkids f) = None ->
    start e (kstate f rest rt rd ct nc) m a = Done (mkst (f :: rest) rt rd false (Some m) D false nc) [].
  Proof.
    intros Hb Hc Hr Hf. unfold start, kstate. rewrite Hr.
    cbn [ign cur roottag rootdepth validate ncns curtag dtags].
    rewrite Hb, andb_false_r, (resolve_plain nc m Hc), Hf. reflexivity.
  Qed.

  Lemma end_kept f' f rest rt rd ct nc m :
    mem_bytes m D = false -> beq (ftag f') m = true ->
    endel (kstate f' (f :: rest) rt rd ct nc) m = Done (kstate f rest rt rd false nc) [OEnd m].
  Proof.
    intros HD Hb. unfold endel, kstate. cbn [ign cur roottag rootdepth validate ncns curtag dtags].
    rewrite HD, Hb. reflexivity.
  Qed.

  Lemma end_skipped f rest rt rd nc m :
    mem_bytes m D = false -> beq (ftag f) m = false ->
    endel (mkst (f :: rest) rt rd false (Some m) D false nc) m = Done (kstate f rest rt rd false nc) [].
  Proof.
    intros HD Hb. unfold endel, kstate. cbn [ign cur roottag rootdepth validate ncns curtag dtags].
    rewrite beq_refl, HD, Hb. reflexivity.
  Qed.

  Definition Qk (f : ftree) (seen : bool) (ks : list xt) : Prop :=
    forall rest rt rd nc, exists o ct',
      exec e (kstate f rest rt rd (negb seen) nc) (flat_map ev ks) = (o, Fin (kstate f rest rt rd ct' nc)) /\
      drop_blank (oes o) = drop_blank (flat_map ev (flat_map (pk f) ks)).

  Definition Pk (f : ftree) (t : xt) : Prop := forall n a ks, t = E n a ks -> Qk f false ks.

  Lemma kept_kids : forall f seen ks, WFks D f seen ks -> Qk f seen ks.
  Proof.
    apply (WFks_mut D Pk Qk).
    - intros f n a ks _ IH n' a' ks' Heq. inversion Heq; subst. exact IH.
    - intros f seen rest rt rd nc. exists [], (negb seen). split; reflexivity.
    - intros f seen c l Hblank _ IH rest rt rd nc.
      destruct (IH rest rt rd nc) as [o [ct' [Hex Hdb]]].
      cbn [flat_map]. destruct seen.
      + exists o, ct'. split.
        * unfold kstate in *. cbn [negb] in *. cbn [ev app exec step]. unfold chars. cbn [curtag].
          rewrite Hex. reflexivity.
        * rewrite Hdb. cbn [pk app flat_map ev]. unfold drop_blank. cbn [filter keep].
          rewrite (Hblank eq_refl). reflexivity.
      + exists (OText c :: o), ct'. split.
        * unfold kstate in *. cbn [negb] in *. cbn [ev app exec step]. unfold chars. cbn [curtag].
          rewrite Hex. reflexivity.
        * cbn [oes flat_map oe pk app ev]. unfold drop_blank. cbn [filter].
          fold (oes o). fold (drop_blank (oes o)). rewrite Hdb. reflexivity.
    - intros f seen m a ks f' l [Hb [Hc [HD Hr]]] Hf _ IHm _ IHl rest rt rd nc.
      destruct (IHm m a ks eq_refl (f :: rest) rt rd nc) as [o1 [ct1 [Hex1 Hdb1]]].
      destruct (IHl rest rt rd nc) as [o2 [ct2 [Hex2 Hdb2]]].
      exists ([OStart m a] ++ o1 ++ [OEnd m] ++ o2), ct2. split.
      + cbn [flat_map]. rewrite ev_E.
        change (Start m a :: flat_map ev ks ++ [End m]) with ([Start m a] ++ flat_map ev ks ++ [End m]).
        rewrite <- !app_assoc.
        eapply exec_app_fin.
        { cbn [exec step]. rewrite (start_kept f rest rt rd (negb seen) nc m a f' Hb Hc Hr Hf). reflexivity. }
        eapply exec_app_fin. { exact Hex1. }
        eapply exec_app_fin.
        { cbn [exec step]. rewrite (end_kept f' f rest rt rd ct1 nc m HD (find_f_tag m _ _ Hf)). reflexivity. }
        exact Hex2.
      + rewrite !oes_app, !drop_blank_app. cbn [flat_map pk]. rewrite Hf.
        cbn [app flat_map]. rewrite proj_E, ev_E.
        change (Start m a :: flat_map ev (flat_map (pk f') ks) ++ [End m])
          with ([Start m a] ++ flat_map ev (flat_map (pk f') ks) ++ [End m]).
        rewrite !drop_blank_app, Hdb1, Hdb2, db_ostart, db_oend, db_start, db_end.
        rewrite <- !app_assoc. reflexivity.
    - intros f seen m a ks l [Hb [Hc [HD Hr]]] Hf Hav _ IHl rest rt rd nc.
      destruct (IHl rest rt rd nc) as [o2 [ct2 [Hex2 Hdb2]]].
      exists o2, ct2. split.
      + cbn [flat_map]. rewrite ev_E.
        change (Start m a :: flat_map ev ks ++ [End m]) with ([Start m a] ++ flat_map ev ks ++ [End m]).
        rewrite <- !app_assoc.
        change o2 with ([] ++ [] ++ [] ++ o2).
        eapply exec_app_fin.
        { cbn [exec step]. rewrite (start_skipped f rest rt rd (negb seen) nc m a Hb Hc Hr Hf). reflexivity. }
        eapply exec_app_fin. { apply skip_kids. exact Hav. }
        eapply exec_app_fin.
        { cbn [exec step]. rewrite (end_skipped f rest rt rd nc m HD Hb). reflexivity. }
        exact Hex2.
      + cbn [flat_map pk]. rewrite Hf. cbn [app]. exact Hdb2.
  Qed.
End Kept.

Section Top.
  Variables (e : env) (top : bytes) (f : ftree) (nc : bool).
  Hypothesis Htop : is_reply top = true.
  Hypothesis Hroot : is_reply (ftag f) = false.

  Definition tstate (first : bool) : st :=
    mkst [f] (Some (ftag f)) 1%nat false None (if first then [top] else [top; ftag f]) first nc.

  Lemma beq_root_top : beq (ftag f) top = false.
  Proof.
    destruct (beq (ftag f) top) eqn:Hb; [|reflexivity].
    apply beq_eq in Hb. rewrite Hb in Hroot. rewrite Hroot in Htop. discriminate.
  Qed.

  Lemma start_root first a :
    start e (tstate first) (ftag f) a = Done (kstate [top; ftag f] f [] (Some (ftag f)) 1%nat true nc) [OStart (ftag f) a].
  Proof.
    unfold start, tstate. rewrite Hroot.
    cbn [ign cur roottag rootdepth validate ncns curtag dtags length Nat.eqb].
    rewrite beq_refl. cbn [andb]. destruct first; cbn [negb app]; reflexivity.
  Qed.

  Lemma end_root ct :
    endel (kstate [top; ftag f] f [] (Some (ftag f)) 1%nat ct nc) (ftag f) = Done (tstate false) [OEnd (ftag f)].
  Proof.
    unfold endel, kstate, tstate. cbn [ign cur roottag rootdepth validate ncns curtag dtags mem_bytes].
    rewrite beq_refl, orb_true_r. reflexivity.
  Qed.

  Definition Rtop (first : bool) (ks : list xt) : Prop :=
    exists o first',
      exec e (tstate first) (flat_map ev ks) = (o, Fin (tstate first')) /\
      drop_blank (oes o) = drop_blank (flat_map ev (flat_map (pk (FN top [f])) ks)).

  Lemma top_kids : forall first ks, WFtop top f first ks -> Rtop first ks.
  Proof.
    intros first ks H. induction H as [first | first c l Hblank _ IH | first a ks l Hks _ IH | m a ks l Hok Hf Hav _ IH].
    - exists [], first. split; reflexivity.
    - destruct IH as [o [first' [Hex Hdb]]]. exists o, first'. split.
      + cbn [flat_map ev app exec step]. unfold chars, tstate at 1. cbn [curtag].
        fold (tstate first). rewrite Hex. reflexivity.
      + rewrite Hdb. cbn [pk app flat_map ev]. unfold drop_blank. cbn [filter keep]. rewrite Hblank. reflexivity.
    - destruct IH as [o2 [first' [Hex2 Hdb2]]].
      destruct (kept_kids e [top; ftag f] f false ks Hks [] (Some (ftag f)) 1%nat nc) as [o1 [ct1 [Hex1 Hdb1]]].
      exists ([OStart (ftag f) a] ++ o1 ++ [OEnd (ftag f)] ++ o2), first'. split.
      + cbn [flat_map]. rewrite ev_E.
        change (Start (ftag f) a :: flat_map ev ks ++ [End (ftag f)])
          with ([Start (ftag f) a] ++ flat_map ev ks ++ [End (ftag f)]).
        rewrite <- !app_assoc.
        eapply exec_app_fin. { cbn [exec step]. rewrite start_root. reflexivity. }
        eapply exec_app_fin. { exact Hex1. }
        eapply exec_app_fin. { cbn [exec step]. rewrite end_root. reflexivity. }
        exact Hex2.
      + rewrite !oes_app, !drop_blank_app. cbn [flat_map pk fkids find_f]. rewrite beq_refl.
        cbn [app flat_map]. rewrite proj_E, ev_E.
        change (Start (ftag f) a :: flat_map ev (flat_map (pk f) ks) ++ [End (ftag f)])
          with ([Start (ftag f) a] ++ flat_map ev (flat_map (pk f) ks) ++ [End (ftag f)]).
        rewrite !drop_blank_app, Hdb1, Hdb2, db_ostart, db_oend, db_start, db_end.
        rewrite <- !app_assoc. reflexivity.
    - destruct IH as [o2 [first' [Hex2 Hdb2]]]. destruct Hok as [Hb [Hc [HD Hr]]].
      exists o2, first'. split.
      + cbn [flat_map]. rewrite ev_E.
        change (Start m a :: flat_map ev ks ++ [End m]) with ([Start m a] ++ flat_map ev ks ++ [End m]).
        rewrite <- !app_assoc.
        change o2 with ([] ++ [] ++ [] ++ o2).
        eapply exec_app_fin.
        { cbn [exec step].
          change (tstate false) with (kstate [top; ftag f] f [] (Some (ftag f)) 1%nat false nc).
          rewrite (start_skipped e [top; ftag f] f [] (Some (ftag f)) 1%nat false nc m a Hb Hc Hr Hf). reflexivity. }
        eapply exec_app_fin. { apply skip_kids. exact Hav. }
        eapply exec_app_fin.
        { cbn [exec step]. rewrite (end_skipped [top; ftag f] f [] (Some (ftag f)) 1%nat nc m HD Hb). reflexivity. }
        exact Hex2.
      + cbn [flat_map pk fkids find_f]. rewrite Hb. cbn [app]. exact Hdb2.
  Qed.

  Lemma end_top first : endel (tstate first) top =
    Done (mkst [f] (Some (ftag f)) 1%nat false None (if first then [top] else [top; ftag f]) first nc) [OEnd top].
  Proof.
    unfold endel, tstate. cbn [ign cur roottag rootdepth validate ncns curtag dtags].
    destruct first; cbn [mem_bytes]; rewrite beq_refl; reflexivity.
  Qed.
End Top.

Lemma c18_projection_partial : forall e f doc, wf_reply e f doc ->
  exists o s', exec e init (ev doc) = (o, Fin s') /\
               drop_blank (oes o) = drop_blank (ev (project f doc)).
Proof.
  intros e f doc [[top [a [ks [id [Hdoc [Htop [Hmsg [Hl [Htab Hwf]]]]]]]]] Hroot [Hn1 Hn2]].
  subst doc.
  set (nc := false || beq top s_ncreply).
  assert (Hstart : start e init top a = Done (tstate top f nc true) [OStart top a]).
  { unfold start, init. rewrite Htop, Hmsg, Hl, Htab.
    cbn [negb ign cur roottag rootdepth validate ncns curtag dtags length Nat.eqb].
    rewrite (beq_root_top top f Htop Hroot). cbn [andb].
    unfold is_reply in Htop. apply orb_true_iff in Htop. destruct Htop as [Ht|Ht]; apply beq_eq in Ht; subst top.
    - change (resolve (false || beq s_reply s_ncreply) s_reply) with (Some s_reply).
      cbv beta iota. rewrite Hn1. reflexivity.
    - change (resolve (false || beq s_ncreply s_ncreply) s_ncreply) with (Some (s_base_clark ++ s_reply)).
      cbv beta iota. rewrite Hn2. reflexivity. }
  destruct (top_kids e top f nc Hroot true ks Hwf) as [o [first' [Hex Hdb]]].
  exists ([OStart top a] ++ o ++ [OEnd top]),
         (mkst [f] (Some (ftag f)) 1%nat false None (if first' then [top] else [top; ftag f]) first' nc).
  split.
  - rewrite ev_E.
    change (Start top a :: flat_map ev ks ++ [End top]) with ([Start top a] ++ flat_map ev ks ++ [End top]).
    eapply exec_app_fin. { cbn [exec step]. rewrite Hstart. reflexivity. }
    eapply exec_app_fin. { exact Hex. }
    cbn [exec step]. rewrite end_top. reflexivity.
  - unfold project. cbn [xname]. rewrite proj_E, ev_E.
    change (Start top a :: flat_map ev (flat_map (pk (FN top [f])) ks) ++ [End top])
      with ([Start top a] ++ flat_map ev (flat_map (pk (FN top [f])) ks) ++ [End top]).
    rewrite !oes_app, !drop_blank_app, Hdb, db_ostart, db_oend, db_start, db_end. reflexivity.
Qed.

Lemma c18_nofilter_switch_doc : forall e top a ks id,
  is_reply top = true -> dict_get s_msgid a = Some id -> has_listener e = true ->
  dict_get id (table e) = Some None ->
  runb e init (ev (E top a ks)) = ([], Raised ESwitch).
Proof.
  intros e top a ks id Hr Hm Hl Ht. rewrite ev_E, runb_cons.
  rewrite (c18_nofilter_switch_step e init top a id Hr Hm Hl Ht). reflexivity.
Qed.

(* ------------------------------------------------------------------ C18_filter_no_switch (round 4) *)
(* The decision "this request has a filter" is the table entry alone: a filter of ANY shape (in particular a single
   leaf, [FN n []], which as an lxml element is falsy) never yields the switch signal, in any handler state. *)
Lemma c18_filter_no_switch : forall e s top a id f o,
  is_reply top = true -> dict_get s_msgid a = Some id -> has_listener e = true ->
  dict_get id (table e) = Some (Some f) ->
  step e s (Start top a) <> Raise ESwitch o.
Proof.
  intros e s top a id f o Hr Hm Hl Ht. cbn [step]. unfold start.
  rewrite Hr, Hm, Hl, Ht. cbn [negb cur ign validate roottag].
  repeat match goal with
         | |- context [match ?x with _ => _ end] => destruct x
         | |- context [if ?x then _ else _] => destruct x
         end; discriminate.
Qed.
