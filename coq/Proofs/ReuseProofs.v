(* ReuseProofs.v — (1) every request record goes into the out queue at most once, so the message-ids written to the
   transport are pairwise distinct in every reachable state of Model/SessionLTS.v; (2) every history of uses of API
   objects (Model/ApiReuse.v) is a behaviour of the LTS in which every accepted use is a request record of its own. *)
From Coq Require Import Lia.
From NC Require Import Model.Base Model.SessionLTS Proofs.SessionLTSProofs Model.ApiReuse.

(* ---------- (1) put at most once ---------- *)
Definition sent_st (c : cstate) : Prop := match c with CReg | CChecked => False | _ => True end.

Record InvW (s : st) : Prop := {
  w_nodup : NoDup (wrote s ++ outq s);
  w_sent : forall rid r, In rid (wrote s ++ outq s) -> rq s rid = Some r -> sent_st (r_st r)
}.

Lemma InvW_init q : InvW (init q).
Proof. constructor; simpl; [constructor|intros rid r []]. Qed.

Lemma st_is_eq r c : st_is r c = true -> r_st r = c.
Proof. unfold st_is. destruct (r_st r), c; intros H; try discriminate; reflexivity. Qed.

Lemma sent_upd_other (s : st) rid f x r :
  (forall y r0, In y (wrote s ++ outq s) -> rq s y = Some r0 -> sent_st (r_st r0)) ->
  (forall r0, sent_st (r_st r0) -> sent_st (r_st (f r0))) ->
  In x (wrote s ++ outq s) -> nth_error (upd (reqs s) rid f) x = Some r -> sent_st (r_st r).
Proof.
  intros Hs Hf Hin H. rewrite nth_upd in H. destruct (Nat.eqb rid x).
  - destruct (nth_error (reqs s) x) as [r0|] eqn:E; simpl in H; [|discriminate]. injection H as <-.
    apply Hf. eapply Hs; eauto.
  - eapply Hs; eauto.
Qed.

Lemma InvW_step s l s' : InvA s -> InvW s -> step s l = Some s' -> InvW s'.
Proof.
  intros HA [Hnd Hs] H.
  destruct l; inv_step H; simpl.
  all: try (constructor; simpl; assumption).
  all: try (destruct (qualify s); constructor; simpl; assumption).
  - (* LReg *) apply reg_guard in E as (-> & _ & _). constructor; simpl; [assumption|].
    intros x r Hin Hr. unfold rq in Hr; simpl in Hr. apply nth_app_new in Hr as [[Hr _]|[Hx _]].
    + eapply Hs; eauto.
    + exfalso. apply in_app_iff in Hin as [Hin|Hin]; [apply (a_wrote _ HA) in Hin|apply (a_outq _ HA) in Hin]; lia.
  - (* LChk true *) apply andb_true_iff in E0 as [E0 _]. apply st_is_eq in E0.
    constructor; simpl; [assumption|]. intros x r' Hin Hr. unfold rq in Hr; simpl in Hr.
    rewrite nth_upd in Hr. destruct (Nat.eqb_spec rid x) as [->|Hne].
    + exfalso. specialize (Hs x r Hin E). rewrite E0 in Hs. exact Hs.
    + eapply Hs; eauto.
  - (* LChk false *) apply andb_true_iff in E0 as [E0 _]. apply st_is_eq in E0.
    constructor; simpl; [assumption|]. intros x r' Hin Hr. unfold rq in Hr; simpl in Hr.
    rewrite nth_upd in Hr. destruct (Nat.eqb_spec rid x) as [->|Hne].
    + exfalso. specialize (Hs x r Hin E). rewrite E0 in Hs. exact Hs.
    + eapply Hs; eauto.
  - (* LPut *) apply st_is_eq in E0.
    assert (Hnot : ~ In rid (wrote s ++ outq s)).
    { intros Hin. specialize (Hs rid r Hin E). rewrite E0 in Hs. exact Hs. }
    constructor; simpl.
    + rewrite app_assoc. apply NoDup_app_one_nat; assumption.
    + intros x r' Hin Hr. unfold rq in Hr; simpl in Hr. rewrite nth_upd in Hr.
      destruct (Nat.eqb_spec rid x) as [->|Hne].
      * rewrite E in Hr. simpl in Hr. injection Hr as <-. exact I.
      * rewrite app_assoc in Hin. apply in_app_iff in Hin as [Hin|[Hin|[]]]; [eapply Hs; eauto|congruence].
  - (* LWaitRes *) constructor; simpl; [assumption|]. intros x r' Hin Hr. unfold rq in Hr; simpl in Hr.
    rewrite nth_upd in Hr. destruct (Nat.eqb rid x).
    + destruct (nth_error (reqs s) x); simpl in Hr; [|discriminate]. injection Hr as <-. exact I.
    + eapply Hs; eauto.
  - (* LDeq *) apply Nat.eqb_eq in E1; subst n. constructor; simpl.
    + rewrite <- app_assoc. exact Hnd.
    + intros x r' Hin Hr. rewrite <- app_assoc in Hin. eapply Hs; eauto.
  - (* LEvSetReply *) constructor; simpl; [assumption|]. intros x r' Hin Hr. unfold rq in Hr; simpl in Hr.
    eapply sent_upd_other with (f := set_reply id); [exact Hs|intros r0 H0; exact H0|exact Hin|exact Hr].
  - (* LEvSetErr *) constructor; simpl; [assumption|]. intros x r' Hin Hr. unfold rq in Hr; simpl in Hr.
    eapply sent_upd_other with (f := set_error e); [exact Hs|intros r0 H0; exact H0|exact Hin|exact Hr].
Qed.

Lemma reach_InvW s : reach s -> InvW s.
Proof.
  intros Hr. pose proof Hr as (q & ls & H).
  assert (HAW : InvA s /\ InvW s).
  { eapply (run_inv (fun s => InvA s /\ InvW s)); [|split; [apply InvA_init|apply InvW_init]|exact H].
    intros s0 l s1 [HA HW] Hst. split; [eapply InvA_step|eapply InvW_step]; eauto. }
  tauto.
Qed.

Lemma NoDup_app_l {A} (l1 l2 : list A) : NoDup (l1 ++ l2) -> NoDup l1.
Proof.
  induction l1 as [|x l1 IH]; simpl; intros H; [constructor|].
  inversion H; subst. constructor; [|auto]. intros Hin. apply H2. apply in_app_iff; auto.
Qed.

(* each request record is written at most once ... *)
Lemma c03_written_once s : reach s -> NoDup (wrote s).
Proof. intros H. apply reach_InvW in H as [Hnd _]. eapply NoDup_app_l; eauto. Qed.

(* ... and is in the out queue only while it is not yet written *)
Lemma c03_put_once s : reach s -> NoDup (wrote s ++ outq s).
Proof. intros H. apply reach_InvW in H as [Hnd _]. exact Hnd. Qed.

(* the sentence of the property: two writes that carry one message-id are one write *)
Lemma c03_wire_ids_unique s i j a b ra rb :
  reach s ->
  nth_error (wrote s) i = Some a -> nth_error (wrote s) j = Some b ->
  rq s a = Some ra -> rq s b = Some rb -> r_id ra = r_id rb -> i = j.
Proof.
  intros Hr Hi Hj Ha Hb He.
  assert (a = b) by (eapply ids_inj; eauto; apply a_ids; apply reach_InvA; assumption). subst b.
  eapply (proj1 (NoDup_nth_error (wrote s)) (c03_written_once s Hr)).
  - apply nth_error_Some. congruence.
  - congruence.
Qed.

(* a second send of a record that was put is not a behaviour: [step] refuses the LPut (and the LChk before it) *)
Lemma c03_no_resend s rid : reach s -> In rid (wrote s ++ outq s) -> forall b, step s (LChk rid b) = None /\ step s (LPut rid) = None.
Proof.
  intros Hr Hin b. apply reach_InvW in Hr as [_ Hs]. unfold step.
  destruct (nth_error (reqs s) rid) as [r|] eqn:E; [|split; reflexivity].
  specialize (Hs rid r Hin E). unfold st_is. destruct (r_st r); simpl in *; try contradiction; split; reflexivity.
Qed.

(* ---------- (2) histories of API uses are behaviours of the LTS ---------- *)
Lemma id_of_inj a b : id_of a = id_of b -> a = b.
Proof. unfold id_of. lia. Qed.

Record Inv2 (n : nat) (op : bool) (w : list nat) (F : nat -> Prop) (s : st) : Prop := {
  i_len : length (reqs s) = n;
  i_ids : forall rid r, rq s rid = Some r -> r_id r = id_of rid;
  i_conn : connected s = op;
  i_pc : pc s = WIdle;
  i_outq : outq s = w;
  i_wrote : wrote s = [];
  i_fresh : forall rid, F rid -> exists r, rq s rid = Some r /\ r_st r = CReg
}.

Lemma Inv2_weaken n op w (F F' : nat -> Prop) s : (forall r, F' r -> F r) -> Inv2 n op w F s -> Inv2 n op w F' s.
Proof. intros HF [H1 H2 H3 H4 H5 H6 H7]. constructor; auto. Qed.

Lemma Inv2_lt n op w F s rid : Inv2 n op w F s -> F rid -> (rid < n)%nat.
Proof.
  intros HI HF. destruct (i_fresh _ _ _ _ _ HI rid HF) as (r & Hr & _).
  rewrite <- (i_len _ _ _ _ _ HI). apply nth_error_Some. unfold rq in Hr. congruence.
Qed.

Lemma L_reg n op w F s : Inv2 n op w F s ->
  exists s', step s (LReg n (id_of n)) = Some s' /\ Inv2 (S n) op w (fun r => F r \/ r = n) s'.
Proof.
  intros HI. pose proof HI as [H1 H2 H3 H4 H5 H6 H7].
  assert (Hfresh : memN (id_of n) (map r_id (reqs s)) = false).
  { destruct (memN (id_of n) (map r_id (reqs s))) eqn:E; [|reflexivity]. exfalso.
    apply memN_In in E. apply in_map_iff in E as (r & Hid & Hin).
    apply In_nth_error in Hin as (k & Hk). pose proof (H2 k r Hk) as Hidk.
    assert (k = n) by (apply id_of_inj; congruence).
    assert (k < length (reqs s))%nat by (apply nth_error_Some; congruence). lia. }
  unfold step. rewrite H1, Nat.eqb_refl, Hfresh, H4. simpl. eexists; split; [reflexivity|].
  constructor; simpl; auto.
  - rewrite app_length; simpl; lia.
  - intros rid r Hr. unfold rq in Hr; simpl in Hr. apply nth_app_new in Hr as [[Hr _]|[-> ->]]; [eauto|].
    simpl. congruence.
  - intros rid [Hf| ->].
    + destruct (H7 rid Hf) as (r & Hr & Hst). exists r. split; [|assumption].
      unfold rq in *; simpl. rewrite nth_error_app1; [assumption|]. apply nth_error_Some; congruence.
    + exists {| r_id := id_of n; r_st := CReg; r_reply := None; r_error := None; r_ev := false |}.
      split; [|reflexivity]. unfold rq; simpl. rewrite nth_error_app2 by lia.
      rewrite H1, Nat.sub_diag. reflexivity.
Qed.

Lemma L_chk n op w F s rid : Inv2 n op w F s -> F rid ->
  exists s', step s (LChk rid op) = Some s' /\ Inv2 n op w (fun r => F r /\ r <> rid) s' /\
             exists r, rq s' rid = Some r /\ r_st r = (if op then CChecked else CDone (OExc 5)).
Proof.
  intros HI HF. pose proof HI as [H1 H2 H3 H4 H5 H6 H7].
  destruct (H7 rid HF) as (r & Hr & Hst). unfold rq in Hr.
  unfold step. rewrite Hr. unfold st_is. rewrite Hst, H3, Bool.eqb_reflx. simpl.
  eexists; split; [reflexivity|]. split.
  - constructor; simpl; auto.
    + rewrite length_upd; assumption.
    + intros x r' Hx. unfold rq in Hx; simpl in Hx. apply rq_upd_id in Hx as (r0 & Hr0 & Hid); [|intros; apply set_st_id].
      rewrite <- Hid. eauto.
    + intros x [Hf Hne]. destruct (H7 x Hf) as (r0 & Hr0 & Hst0). exists r0. split; [|assumption].
      unfold rq in *; simpl. rewrite nth_upd_other by congruence. assumption.
  - eexists. split; [unfold rq; simpl; rewrite nth_upd_same, Hr; reflexivity|]. reflexivity.
Qed.

Lemma L_put n w F s rid r : Inv2 n true w F s -> rq s rid = Some r -> r_st r = CChecked -> ~ F rid ->
  exists s', step s (LPut rid) = Some s' /\ Inv2 n true (w ++ [rid]) F s'.
Proof.
  intros HI Hr Hst HnF. pose proof HI as [H1 H2 H3 H4 H5 H6 H7]. unfold rq in Hr.
  unfold step. rewrite Hr. unfold st_is. rewrite Hst.
  eexists; split; [reflexivity|].
  constructor; simpl; auto.
  - rewrite length_upd; assumption.
  - intros x r' Hx. unfold rq in Hx; simpl in Hx. apply rq_upd_id in Hx as (r0 & Hr0 & Hid); [|intros; apply set_st_id].
    rewrite <- Hid. eauto.
  - congruence.
  - intros x Hf. destruct (H7 x Hf) as (r0 & Hr0 & Hst0). exists r0. split; [|assumption].
    unfold rq in *; simpl. rewrite nth_upd_other; [assumption|]. intros ->. contradiction.
Qed.

Lemma L_send_open n w F s rid : Inv2 n true w F s -> F rid ->
  exists s', run s [LChk rid true; LPut rid] = Some s' /\ Inv2 n true (w ++ [rid]) (fun r => F r /\ r <> rid) s'.
Proof.
  intros HI HF. destruct (L_chk _ _ _ _ _ _ HI HF) as (s1 & Hs1 & HI1 & r & Hr & Hst).
  destruct (L_put _ _ _ _ _ _ HI1 Hr Hst) as (s2 & Hs2 & HI2); [tauto|].
  exists s2. cbn [run]. rewrite Hs1, Hs2. auto.
Qed.

Lemma L_send_closed n w F s rid : Inv2 n false w F s -> F rid ->
  exists s', run s [LChk rid false] = Some s' /\ Inv2 n false w (fun r => F r /\ r <> rid) s'.
Proof.
  intros HI HF. destruct (L_chk _ _ _ _ _ _ HI HF) as (s1 & Hs1 & HI1 & _).
  exists s1. cbn [run]. rewrite Hs1. auto.
Qed.

Lemma L_close n op w F s : Inv2 n op w F s -> exists s', step s (LClose 1) = Some s' /\ Inv2 n false w F s'.
Proof.
  intros [H1 H2 H3 H4 H5 H6 H7]. eexists; split; [reflexivity|]. constructor; simpl; auto.
Qed.

Definition unused (a : ast) (rid : nat) : Prop := (exists o, oget o (a_objs a) = Some rid) /\ memnat rid (a_used a) = false.
Definition Rel (a : ast) (s : st) : Prop := Inv2 (a_next a) (a_open a) (a_wire a) (unused a) s.

Lemma Rel_init q : Rel ast0 (init q).
Proof.
  constructor; simpl; auto.
  - intros rid r H. unfold rq in H; simpl in H. destruct rid; discriminate.
  - intros rid [[o Ho] _]. discriminate.
Qed.

Lemma ause_step_ok a s u a' o ls : Rel a s -> ause_step a u = (a', o, ls) ->
  exists s', run s ls = Some s' /\ Rel a' s'.
Proof.
  unfold Rel. intros HI H.
  assert (Hlt : forall r, unused a r -> r <> a_next a).
  { intros r Hr. pose proof (Inv2_lt _ _ _ _ _ _ HI Hr). lia. }
  destruct u; cbn [ause_step] in H.
  - (* UOp *) destruct (a_open a) eqn:Eo; injection H as <- <- <-.
    + destruct (L_reg _ _ _ _ _ HI) as (s1 & Hs1 & HI1).
      destruct (L_send_open _ _ _ _ (a_next a) HI1) as (s2 & Hs2 & HI2); [auto|].
      exists s2. cbn [run] in *. rewrite Hs1. split; [exact Hs2|].
      eapply Inv2_weaken; [|exact HI2]. unfold unused; simpl. intros r Hr. split; [left; exact Hr|apply Hlt; exact Hr].
    + destruct (L_reg _ _ _ _ _ HI) as (s1 & Hs1 & HI1).
      destruct (L_send_closed _ _ _ _ (a_next a) HI1) as (s2 & Hs2 & HI2); [auto|].
      exists s2. cbn [run] in *. rewrite Hs1. split; [exact Hs2|].
      eapply Inv2_weaken; [|exact HI2]. unfold unused; simpl. intros r Hr. split; [left; exact Hr|apply Hlt; exact Hr].
  - (* UNew *) destruct (oget o0 (a_objs a)) eqn:Eg; injection H as <- <- <-.
    + exists s. auto.
    + destruct (L_reg _ _ _ _ _ HI) as (s1 & Hs1 & HI1). exists s1. cbn [run]. rewrite Hs1. split; [reflexivity|].
      eapply Inv2_weaken; [|exact HI1]. unfold unused; simpl. intros r [[o' Ho'] Hu].
      destruct (N.eqb o' o0); [injection Ho' as <-; right; reflexivity|left; eauto].
  - (* UReq *) destruct (oget o0 (a_objs a)) as [rid|] eqn:Eg; [|injection H as <- <- <-; exists s; auto].
    destruct (memnat rid (a_used a)) eqn:Eu; [injection H as <- <- <-; exists s; auto|].
    assert (HF : unused a rid) by (split; eauto).
    assert (Hw : forall r, unused {| a_next := a_next a; a_objs := a_objs a; a_used := rid :: a_used a; a_open := a_open a; a_wire := a_wire a |} r -> unused a r /\ r <> rid).
    { unfold unused; simpl. intros r [Ho Hm]. apply Bool.orb_false_iff in Hm as [Hne Hm]. apply Nat.eqb_neq in Hne. auto. }
    destruct (a_open a) eqn:Eo; injection H as <- <- <-.
    + destruct (L_send_open _ _ _ _ rid HI HF) as (s2 & Hs2 & HI2). exists s2. split; [exact Hs2|].
      eapply Inv2_weaken; [|exact HI2]. intros r Hr. apply Hw. exact Hr.
    + destruct (L_send_closed _ _ _ _ rid HI HF) as (s2 & Hs2 & HI2). exists s2. split; [exact Hs2|].
      eapply Inv2_weaken; [|exact HI2]. intros r Hr. apply Hw. exact Hr.
  - (* UMgrExit *) destruct (a_open a) eqn:Eo; injection H as <- <- <-.
    + destruct (L_reg _ _ _ _ _ HI) as (s1 & Hs1 & HI1).
      destruct (L_send_open _ _ _ _ (a_next a) HI1) as (s2 & Hs2 & HI2); [auto|].
      destruct (L_close _ _ _ _ _ HI2) as (s3 & Hs3 & HI3).
      exists s3. split.
      { change (run s ([LReg (a_next a) (id_of (a_next a))] ++ [LChk (a_next a) true; LPut (a_next a)] ++ [LClose 1]) = Some s3).
        rewrite run_app. cbn [run]. rewrite Hs1. rewrite run_app, Hs2. cbn [run]. rewrite Hs3. reflexivity. }
      eapply Inv2_weaken; [|exact HI3]. unfold unused; simpl. intros r Hr. split; [left; exact Hr|apply Hlt; exact Hr].
    + destruct (L_reg _ _ _ _ _ HI) as (s1 & Hs1 & HI1).
      destruct (L_send_closed _ _ _ _ (a_next a) HI1) as (s2 & Hs2 & HI2); [auto|].
      destruct (L_close _ _ _ _ _ HI2) as (s3 & Hs3 & HI3).
      exists s3. split.
      { change (run s ([LReg (a_next a) (id_of (a_next a))] ++ [LChk (a_next a) false] ++ [LClose 1]) = Some s3).
        rewrite run_app. cbn [run]. rewrite Hs1. rewrite run_app, Hs2. cbn [run]. rewrite Hs3. reflexivity. }
      eapply Inv2_weaken; [|exact HI3]. unfold unused; simpl. intros r Hr. split; [left; exact Hr|apply Hlt; exact Hr].
Qed.

Lemma ause_run_ok h : forall a s a' os ls, Rel a s -> ause_run a h = (a', os, ls) ->
  exists s', run s ls = Some s' /\ Rel a' s'.
Proof.
  induction h as [|u h IH]; intros a s a' os ls HR H; cbn [ause_run] in H.
  - injection H as <- <- <-. exists s. auto.
  - destruct (ause_step a u) as [[a1 o] l1] eqn:E1. destruct (ause_run a1 h) as [[a2 os2] l2] eqn:E2.
    injection H as <- <- <-.
    destruct (ause_step_ok _ _ _ _ _ _ HR E1) as (s1 & Hs1 & HR1).
    destruct (IH _ _ _ _ _ HR1 E2) as (s2 & Hs2 & HR2).
    exists s2. rewrite run_app, Hs1. auto.
Qed.

(* every history of uses is a behaviour of the session LTS; what it put into the out queue is what the API model says *)
Lemma c03_reuse_accepted q h :
  exists s, run (init q) (api_labels h) = Some s /\ reach s /\
            outq s = api_wire h /\ connected s = a_open (api_state h) /\ length (reqs s) = a_next (api_state h) /\
            (forall rid r, rq s rid = Some r -> r_id r = id_of rid).
Proof.
  unfold api_labels, api_wire, api_state. destruct (ause_run ast0 h) as [[a' os] ls] eqn:E. simpl.
  destruct (ause_run_ok h _ _ _ _ _ (Rel_init q) E) as (s & Hs & [H1 H2 H3 H4 H5 H6 H7]).
  exists s. repeat split; auto. exists q, ls. exact Hs.
Qed.

(* the records put by a history are pairwise distinct: every accepted use is a request of its own *)
Lemma c03_reuse_wire_nodup h : NoDup (api_wire h).
Proof.
  destruct (c03_reuse_accepted true h) as (s & Hs & Hr & Ho & _).
  pose proof (c03_put_once s Hr) as Hnd. rewrite <- Ho.
  clear - Hnd. induction (wrote s) as [|x l IH]; simpl in Hnd; [assumption|]. inversion Hnd; auto.
Qed.

Definition sent_rids (os : list aout) : list nat := flat_map (fun o => match o with ASent r => [r] | _ => [] end) os.

Lemma ause_run_wire h : forall a a' os ls, ause_run a h = (a', os, ls) -> a_wire a' = a_wire a ++ sent_rids os.
Proof.
  induction h as [|u h IH]; intros a a' os ls H; cbn [ause_run] in H.
  - injection H as <- <- <-. simpl. rewrite app_nil_r. reflexivity.
  - destruct (ause_step a u) as [[a1 o] l1] eqn:E1. destruct (ause_run a1 h) as [[a2 os2] l2] eqn:E2.
    injection H as <- <- <-. rewrite (IH _ _ _ _ E2).
    assert (a_wire a1 = a_wire a ++ sent_rids [o]).
    { destruct u; cbn [ause_step] in E1.
      - destruct (a_open a); injection E1 as <- <- <-; simpl; auto using app_nil_r.
      - destruct (oget o0 (a_objs a)); injection E1 as <- <- <-; simpl; auto using app_nil_r.
      - destruct (oget o0 (a_objs a)); [|injection E1 as <- <- <-; simpl; auto using app_nil_r].
        destruct (memnat n (a_used a)); [injection E1 as <- <- <-; simpl; auto using app_nil_r|].
        destruct (a_open a); injection E1 as <- <- <-; simpl; auto using app_nil_r.
      - destruct (a_open a); injection E1 as <- <- <-; simpl; auto using app_nil_r. }
    rewrite H. unfold sent_rids. cbn [flat_map]. rewrite app_nil_r, app_assoc. reflexivity.
Qed.

(* the callers that were told "sent" are exactly the records on the wire, in order: no two callers share a record *)
Lemma c03_reuse_sent_distinct h : sent_rids (api_outs h) = api_wire h /\ NoDup (sent_rids (api_outs h)).
Proof.
  assert (H : sent_rids (api_outs h) = api_wire h).
  { unfold api_outs, api_wire, api_state. destruct (ause_run ast0 h) as [[a' os] ls] eqn:E. simpl.
    rewrite (ause_run_wire _ _ _ _ _ E). reflexivity. }
  split; [exact H|]. rewrite H. apply c03_reuse_wire_nodup.
Qed.

(* when exactly a use is refused: the session is closed, or request() on an application-held object that was
   requested before (or on a name that does not exist / a name built twice: not histories) *)
Lemma c03_reuse_refused a u a' ls : ause_step a u = (a', ARefused, ls) ->
  a_open a = false \/
  (exists o, u = UReq o /\ (oget o (a_objs a) = None \/ exists rid, oget o (a_objs a) = Some rid /\ memnat rid (a_used a) = true)) \/
  (exists o, u = UNew o /\ oget o (a_objs a) <> None).
Proof.
  destruct u; cbn [ause_step]; intros H.
  - destruct (a_open a); [discriminate|auto].
  - destruct (oget o (a_objs a)) eqn:E; [|discriminate]. right; right. exists o. split; [reflexivity|congruence].
  - destruct (oget o (a_objs a)) as [rid|] eqn:E; [|right; left; eauto].
    destruct (memnat rid (a_used a)) eqn:Eu; [right; left; exists o; split; [reflexivity|right; eauto]|].
    destruct (a_open a); [discriminate|auto].
  - destruct (a_open a); [discriminate|auto].
Qed.

(* the seeded kind of change (the object behind a use is kept and requested again) is not a behaviour: after any
   history, with any further activity of the session thread and the peer, a second send of a record that was put is refused *)
Lemma c03_reuse_resend_refused q h ls s rid :
  run (init q) (api_labels h ++ ls) = Some s -> In rid (api_wire h) -> run s (resend rid) = None.
Proof.
  intros Hrun Hin. assert (Hr : reach s) by (exists q, (api_labels h ++ ls); exact Hrun).
  assert (Hin' : In rid (wrote s ++ outq s)).
  { rewrite run_app in Hrun. destruct (c03_reuse_accepted q h) as (s0 & Hs0 & Hr0 & Ho & _). rewrite Hs0 in Hrun.
    assert (Hin0 : In rid (wrote s0 ++ outq s0)) by (apply in_app_iff; right; rewrite Ho; exact Hin).
    clear - Hrun Hin0. revert s0 Hrun Hin0. induction ls as [|l ls IH]; intros s0 Hrun Hin0; cbn [run] in Hrun.
    - injection Hrun as <-. exact Hin0.
    - destruct (step s0 l) as [s1|] eqn:E; [|discriminate]. apply (IH s1 Hrun).
      clear - E Hin0. destruct l; inv_step E; simpl; try assumption; try (destruct (qualify s0); simpl; assumption).
      + rewrite app_assoc. apply in_app_iff. auto.
      + apply Nat.eqb_eq in E2; subst n. rewrite <- app_assoc. exact Hin0. }
  destruct (c03_no_resend s rid Hr Hin' true) as [Hc _]. unfold resend. cbn [run]. rewrite Hc. reflexivity.
Qed.
