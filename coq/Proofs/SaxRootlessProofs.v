(* Proofs/SaxRootlessProofs.v — the Junos SAX handler (Model/SaxFilter.v) on a message that is not a reply.
   `_root` and `_cur` are None until a reply start tag sets both; a start tag met while `_root is None` (the document
   element of a <notification>, ...) raises the switch signal before anything is written, in every handler state without
   a root: the driver (Model/JunosParse.v) then hands the whole message to DOM parsing, as for a reply to a request
   without filter. *)
From NC Require Import Model.Base Model.SaxFilter.

(* "_root is None implies _cur is None" *)
Definition rootless_inv (s : st) : Prop := roottag s = None -> cur s = [] /\ ign s = None.

Lemma rootless_inv_init : rootless_inv init.
Proof. intros _. split; reflexivity. Qed.

Lemma start_rootless : forall e s tag a,
  roottag s = None -> cur s = [] -> ign s = None -> is_reply tag = false ->
  start e s tag a = Raise ESwitch [].
Proof.
  intros e s tag a Hr Hc Hi Ht. unfold start. rewrite Ht. cbv beta iota zeta. rewrite Hi, Hc, Hr. reflexivity.
Qed.

Lemma rootless_inv_step : forall e s ev s' o,
  rootless_inv s -> step e s ev = Done s' o -> rootless_inv s'.
Proof.
  intros e s ev s' o Hinv Hstep Hr'.
  destruct ev as [tag a|tag|c]; cbn [step] in Hstep.
  - (* Start *)
    unfold start in Hstep.
    destruct (is_reply tag) eqn:Ht.
    + destruct (dict_get s_msgid a) as [id|]; [|discriminate].
      destruct (negb (has_listener e)); [discriminate|].
      destruct (dict_get id (table e)) as [[f|]|]; try discriminate.
      cbn [ign cur roottag rootdepth validate ncns curtag dtags] in Hstep.
      (* the reply branch sets the root: every continuation keeps roottag = Some _ *)
      destruct (ign s) as [i|].
      * injection Hstep as Hs _. subst s'. cbn [roottag] in Hr'. discriminate.
      * repeat match type of Hstep with
               | context [if ?c then _ else _] => destruct c
               | context [match ?x with _ => _ end] => destruct x
               end; try discriminate;
        injection Hstep as Hs _; subst s'; cbn [roottag] in Hr'; discriminate.
    + destruct (ign s) as [i|] eqn:Hi.
      * injection Hstep as Hs _. subst s'. destruct (Hinv Hr') as [_ Hn]. rewrite Hi in Hn. discriminate.
      * destruct (cur s) as [|c rest] eqn:Hc.
        { destruct (roottag s); discriminate. }
        destruct (roottag s) as [rt|] eqn:Hr.
        { repeat match type of Hstep with
                 | context [if ?c then _ else _] => destruct c
                 | context [match ?x with _ => _ end] => destruct x
                 end; try discriminate;
          injection Hstep as Hs _; subst s'; cbn [roottag] in Hr'; discriminate. }
        destruct (Hinv Hr) as [Hn _]. rewrite Hc in Hn. discriminate.
  - (* End *)
    unfold endel in Hstep.
    destruct (mem_bytes tag (dtags s)).
    + injection Hstep as Hs _. subst s'. cbn [roottag cur ign] in *.
      destruct (Hinv Hr') as [Hc Hi]. rewrite Hi. split; [exact Hc|reflexivity].
    + destruct (cur s) as [|c rest] eqn:Hc; [discriminate|].
      assert (Hrs : roottag s = None).
      { destruct (beq (ftag c) tag); injection Hstep as Hs _; subst s'; exact Hr'. }
      destruct (Hinv Hrs) as [Hn _]. rewrite Hc in Hn. discriminate.
  - (* Chars *)
    unfold chars in Hstep. destruct (curtag s); injection Hstep as Hs _; subst s'; exact (Hinv Hr').
Qed.

(* the document element of a message that is not a reply, in a fresh handler *)
Lemma c11_sax_nonreply_switch : forall e tag a,
  is_reply tag = false -> step e init (Start tag a) = Raise ESwitch [].
Proof. intros e tag a Ht. cbn [step]. apply start_rootless; auto. Qed.

(* ... and in every state the handler can be in before it has seen a reply element *)
Lemma c11_sax_rootless_switch : forall e s tag a,
  rootless_inv s -> roottag s = None -> is_reply tag = false ->
  step e s (Start tag a) = Raise ESwitch [].
Proof.
  intros e s tag a Hinv Hr Ht. destruct (Hinv Hr) as [Hc Hi]. cbn [step]. apply start_rootless; auto.
Qed.

Lemma rootless_inv_exec : forall e evs s o s',
  rootless_inv s -> exec e s evs = (o, Fin s') -> rootless_inv s'.
Proof.
  intros e evs. induction evs as [|ev r IH]; intros s o s' Hinv Hex; cbn [exec] in Hex.
  - injection Hex as _ Hs. subst s'. exact Hinv.
  - destruct (step e s ev) as [s1 o1|x o1] eqn:Hst; [|discriminate].
    destruct (exec e s1 r) as [o2 oc] eqn:Hr. injection Hex as _ Hoc. subst oc.
    eapply IH; [eapply rootless_inv_step; eauto|exact Hr].
Qed.

(* a whole message whose document element is not a reply: switch signal, nothing written *)
Lemma c11_sax_nonreply_doc : forall e tag a rest,
  is_reply tag = false -> runb e init (Start tag a :: rest) = ([], Raised ESwitch).
Proof.
  intros e tag a rest Ht. unfold runb. cbn [exec]. rewrite (c11_sax_nonreply_switch e tag a Ht). reflexivity.
Qed.
