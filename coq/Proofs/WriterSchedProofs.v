(* WriterSchedProofs.v — invariants of the submitters/worker transition system of Model/WriterSched.v and the
   statements of Props/C02.v named C02_sched_... (all interleavings, all write answers). *)
From Coq Require Import Lia.
From NC Require Import Model.Base Model.Writer Spec.WireSpec Proofs.BaseFacts Proofs.WriterProofs Model.WriterSched.

Local Open Scope nat_scope.

(* ------------------------------------------------------------------ small facts *)
Lemma base_eqb_eq a b : base_eqb a b = true -> a = b.
Proof. destruct a, b; cbn; congruence. Qed.
Lemma werr_eqb_eq a b : werr_eqb a b = true -> a = b.
Proof. destruct a, b; cbn; intros H; try discriminate; apply beq_eq in H; congruence. Qed.

Lemma nth_error_upd_same {A} (x : A) : forall l t y, nth_error l t = Some y -> nth_error (upd_nth t x l) t = Some x.
Proof. induction l as [|a l IH]; intros [|t] y H; cbn in *; try discriminate; eauto. Qed.
Lemma nth_error_upd_other {A} (x : A) : forall l t t', t' <> t -> nth_error (upd_nth t x l) t' = nth_error l t'.
Proof. induction l as [|a l IH]; intros [|t] [|t'] H; cbn; try reflexivity; try congruence. apply IH. congruence. Qed.

Lemma frames_app a b : frames (a ++ b) = frames a ++ frames b.
Proof. unfold frames. rewrite map_app, concat_app. reflexivity. Qed.
Lemma frames_one e : frames [e] = e_frame e.
Proof. unfold frames. cbn. apply app_nil_r. Qed.

Ltac inv_step H :=
  unfold wstep in H; cbv zeta in H;
  repeat match type of H with
         | context [match ?x with _ => _ end] => destruct x eqn:?; try discriminate
         end;
  try discriminate; injection H as <-.

(* ------------------------------------------------------------------ the invariant *)
Definition held (w : wpc) : list entry :=
  match w with
  | PPend e | PClr e | PBase e | PWr e _ | PRaised e _ | PClosing e | PDone e => [e]
  | _ => []
  end.
Definition failed_pc (w : wpc) : bool :=
  match w with PRaised _ _ | PClosing _ | PDone _ => true | _ => false end.

(* the frame of e is being written: `partial` is on the wire, `u` is what is still to be offered *)
Definition mid (s : wstate) (done : list entry) (e : entry) (u : bytes) : Prop :=
  exists partial, ws_wire s = frames done ++ partial /\ e_frame e = partial ++ u /\ u <> [].

Definition wire_ok (s : wstate) (done : list entry) : Prop :=
  match ws_w s with
  | PWr e data => mid s done e data /\ ws_err s = None
  | PRaised e x => ws_err s = Some x /\ mid s done e (unsent_of_err x)
  | PClosing e | PDone e => exists x, ws_err s = Some x /\ mid s done e (unsent_of_err x)
  | _ => ws_wire s = frames done /\ ws_err s = None
  end.

Record Inv (s : wstate) : Prop := {
  inv_pending : ws_pending s = false;
  inv_split : exists done, ws_puts s = done ++ held (ws_w s) ++ ws_q s /\ length done = ws_ndone s /\ wire_ok s done;
  inv_tags : Forall (fun e => e_tag e = ws_base s) (ws_q s);
  inv_htag : forall e, ws_w s = PPend e \/ ws_w s = PBase e -> e_tag e = ws_base s;
  inv_noclr : forall e, ws_w s <> PClr e;
  inv_ne : ws_w s = PRdy \/ ws_w s = PGet -> ws_q s <> [] }.

Lemma inv_init b progs : Inv (winit b false progs).
Proof.
  constructor; cbn; try tauto; try discriminate.
  - exists []. cbn. auto.
  - constructor.
  - intros e [H|H]; discriminate.
  - intros [H|H]; discriminate.
Qed.

Ltac fin done :=
  try solve [ exists done; cbn; auto ];
  try solve [ intros ? [X|X]; discriminate X ];
  try solve [ intros ? X; discriminate X ];
  try solve [ intros [X|X]; discriminate X ].
Ltac wpc Hw := unfold wire_ok in Hw; match goal with E : ws_w _ = _ |- _ => rewrite E in * end; cbn [held app] in *.

Lemma inv_step s l s' : Inv s -> wstep s l = Some s' -> Inv s'.
Proof.
  intros [Hp (done & Hs & Hl & Hw) Ht Hh Hc Hn] H.
  destruct l.
  - (* LChk *) inv_step H; constructor; cbn; auto; exists done; unfold wire_ok, mid in *; cbn; auto.
  - (* LPut *) inv_step H. match goal with E : beq _ _ = true |- _ => apply beq_eq in E; subst end.
    constructor; cbn; auto.
    + exists done. rewrite Hs, <- !app_assoc. repeat split; auto.
    + apply Forall_app. split; [exact Ht|]. constructor; [reflexivity|constructor].
    + intros X. apply Hn in X. destruct (ws_q s); [congruence|discriminate].
  - (* LSetBase *) inv_step H. constructor; cbn; auto.
    + exists done. rewrite Heql. repeat split; auto.
    + rewrite Heql. constructor.
    + intros e [X|X]; rewrite X in *; discriminate.
    + intros X. exfalso. apply (Hn X). reflexivity.
  - (* LEmpty *) inv_step H; wpc Hw; constructor; cbn; auto; fin done.
    intros _ X. rewrite X in *. discriminate.
  - (* LReady *) inv_step H; wpc Hw; constructor; cbn; auto; fin done.
  - (* LGet *) inv_step H; wpc Hw; constructor; cbn; auto; fin done.
    + inversion Ht; auto.
    + intros e0 [X|X]; inversion X; subst. inversion Ht; auto.
  - (* LPendRd *) inv_step H; wpc Hw;
    match goal with E : Bool.eqb _ _ = true |- _ => apply Bool.eqb_prop in E; rewrite Hp in E; try discriminate E end.
    constructor; cbn; auto; fin done.
    intros e0 [X|X]; inversion X; subst. apply Hh. auto.
  - (* LPendClr *) inv_step H. exfalso. eapply Hc. reflexivity.
  - (* LBaseRd *) inv_step H; wpc Hw.
    match goal with E : base_eqb _ _ = true |- _ => apply base_eqb_eq in E; subst b end.
    constructor; cbn; auto; fin done.
    destruct Hw as [Hw He]. exists done. repeat split; auto.
    exists []. cbn. rewrite app_nil_r. repeat split; auto.
    + unfold e_frame. rewrite (Hh e); auto.
    + apply frame_nonempty.
  - (* LWrite *) inv_step H; wpc Hw; destruct Hw as [(partial & Hw1 & Hw2 & Hw3) He];
    unfold wfail; constructor; cbn; auto; fin done.
    all: try solve [ exists done; repeat split; auto; exists partial; cbn; auto ].
    + (* the frame is complete *)
      match goal with E : skipn _ data = [] |- _ => rename E into Hk end.
      assert (Hd : firstn (N.to_nat n) data = data).
      { rewrite <- (firstn_skipn (N.to_nat n) data) at 2. rewrite Hk. symmetry. apply app_nil_r. }
      exists (done ++ [e]). rewrite Hd, <- app_assoc. cbn. repeat split; auto.
      * rewrite app_length. cbn. lia.
      * rewrite frames_app, frames_one, Hw1, Hw2, <- app_assoc. reflexivity.
    + (* a short write: the unsent tail is offered next *)
      match goal with E : skipn _ data = _ :: _ |- _ => rename E into Hk end.
      exists done. repeat split; auto. exists (partial ++ firstn (N.to_nat n) data). cbn. repeat split.
      * rewrite Hw1, app_assoc. reflexivity.
      * rewrite <- Hk, <- app_assoc, firstn_skipn. exact Hw2.
      * discriminate.
  - (* LSelect *) inv_step H; wpc Hw; constructor; cbn; auto; fin done.
  - (* LDispErr *) inv_step H; wpc Hw; constructor; cbn; auto; fin done.
    match goal with E : werr_eqb _ _ = true |- _ => apply werr_eqb_eq in E; subst end.
    exists done. cbn. repeat split; auto. unfold wire_ok, mid in *. cbn. destruct Hw as [He Hm]. eauto.
  - (* LClose *) inv_step H; wpc Hw; constructor; cbn; auto; fin done.
Qed.

Lemma inv_run : forall ls s s', Inv s -> wrun s ls = Some s' -> Inv s'.
Proof.
  induction ls as [|l r IH]; cbn; intros s s' Hi H.
  - injection H as <-; auto.
  - destruct (wstep s l) eqn:E; [|discriminate]. eapply IH; [eapply inv_step; eauto|exact H].
Qed.

Lemma wrun_app : forall ls1 ls2 s,
  wrun s (ls1 ++ ls2) = match wrun s ls1 with Some s1 => wrun s1 ls2 | None => None end.
Proof.
  induction ls1 as [|l r IH]; cbn; intros; [reflexivity|]. destruct (wstep s l); [apply IH|reflexivity].
Qed.

(* ------------------------------------------------------------------ what is on the wire *)
Lemma inv_shape s : Inv s ->
  exists done partial rest, ws_puts s = done ++ rest /\ ws_wire s = frames done ++ partial /\
    (partial = [] \/ exists e rest', rest = e :: rest' /\ strict_prefix_of partial (e_frame e)).
Proof.
  intros [_ (done & Hs & _ & Hw) _ _ _ _]. unfold wire_ok in Hw.
  destruct (ws_w s) eqn:W; cbn [held app] in Hs.
  1-3,8: exists done, [], (ws_q s); rewrite app_nil_r; destruct Hw; auto.
  1-3: exists done, [], (e :: ws_q s); rewrite app_nil_r; destruct Hw; auto.
  - destruct Hw as [(p & H1 & H2 & H3) _]. exists done, p, (e :: ws_q s). repeat split; auto.
    right. exists e, (ws_q s). split; auto. exists data. auto.
  - destruct Hw as [_ (p & H1 & H2 & H3)]. exists done, p, (e :: ws_q s). repeat split; auto.
    right. exists e, (ws_q s). split; auto. exists (unsent_of_err x). auto.
  - destruct Hw as (x & _ & p & H1 & H2 & H3). exists done, p, (e :: ws_q s). repeat split; auto.
    right. exists e, (ws_q s). split; auto. exists (unsent_of_err x). auto.
  - destruct Hw as (x & _ & p & H1 & H2 & H3). exists done, p, (e :: ws_q s). repeat split; auto.
    right. exists e, (ws_q s). split; auto. exists (unsent_of_err x). auto.
Qed.

Lemma shape_prefix_of puts wire done partial rest :
  puts = done ++ rest -> wire = frames done ++ partial ->
  (partial = [] \/ exists (e : entry) rest', rest = e :: rest' /\ strict_prefix_of partial (e_frame e)) ->
  prefix_of wire (frames puts).
Proof.
  intros -> -> [->|(e & r' & -> & u & _ & Hu)]; rewrite frames_app.
  - exists (frames rest). rewrite app_nil_r. reflexivity.
  - exists (u ++ frames r'). change (e :: r') with ([e] ++ r'). rewrite frames_app, frames_one, Hu, <- !app_assoc. reflexivity.
Qed.

(* ------------------------------------------------------------------ failure *)
Lemma inv_err_failed s u : Inv s -> ws_err s = Some u -> failed_pc (ws_w s) = true.
Proof.
  intros [_ (done & _ & _ & Hw) _ _ _ _] He. unfold wire_ok in Hw.
  destruct (ws_w s); try reflexivity; destruct Hw; congruence.
Qed.

Lemma failed_step s l s' : wstep s l = Some s' -> failed_pc (ws_w s) = true ->
  failed_pc (ws_w s') = true /\ ws_wire s' = ws_wire s /\ ws_err s' = ws_err s.
Proof.
  intros H F. destruct l; inv_step H; cbn in *; try discriminate; auto;
  match goal with E : ws_w s = _ |- _ => rewrite E in F; try discriminate F end.
Qed.

Lemma failed_run : forall ls s s', wrun s ls = Some s' -> failed_pc (ws_w s) = true ->
  ws_wire s' = ws_wire s /\ ws_err s' = ws_err s.
Proof.
  induction ls as [|l r IH]; cbn; intros s s' H F.
  - injection H as <-; auto.
  - destruct (wstep s l) eqn:E; [|discriminate]. destruct (failed_step _ _ _ E F) as (F' & W & X).
    destruct (IH _ _ H F') as [W' X']. split; congruence.
Qed.

Lemma inv_failure_shape s u : Inv s -> ws_err s = Some u ->
  exists done e rest partial, ws_puts s = done ++ e :: rest /\ ws_wire s = frames done ++ partial /\
    e_frame e = partial ++ unsent_of_err u /\ unsent_of_err u <> [].
Proof.
  intros [_ (done & Hs & _ & Hw) _ _ _ _] He. unfold wire_ok in Hw.
  destruct (ws_w s) eqn:W; cbn [held app] in Hs; try (destruct Hw; congruence).
  - destruct Hw as [E (p & H1 & H2 & H3)]. assert (x = u) by congruence. subst. exists done, e, (ws_q s), p. auto.
  - destruct Hw as (x & E & p & H1 & H2 & H3). assert (x = u) by congruence. subst. exists done, e, (ws_q s), p. auto.
  - destruct Hw as (x & E & p & H1 & H2 & H3). assert (x = u) by congruence. subst. exists done, e, (ws_q s), p. auto.
Qed.

(* the error value is only ever produced by a refused write *)
Lemma err_step s l s' : wstep s l = Some s' -> accepted_write l = true -> ws_err s = None -> ws_err s' = None.
Proof. intros H A E. destruct l; inv_step H; cbn in *; auto; try discriminate.
 rewrite Heqb0 in A. discriminate.
Qed.

Lemma err_run : forall ls s s', wrun s ls = Some s' -> forallb accepted_write ls = true -> ws_err s = None -> ws_err s' = None.
Proof.
  induction ls as [|l r IH]; cbn; intros s s' H A E.
  - injection H as <-; auto.
  - destruct (wstep s l) eqn:X; [|discriminate]. apply andb_prop in A as [A1 A2]. eapply IH; eauto using err_step.
Qed.

(* ------------------------------------------------------------------ the ghost put log is the trace's puts *)
Lemma lputs_cons l r : lputs (l :: r) = lputs [l] ++ lputs r.
Proof. destruct l; reflexivity. Qed.

Lemma puts_step s l s' : wstep s l = Some s' ->
  exists more, ws_puts s' = ws_puts s ++ more /\ map put_of more = lputs [l] /\ ws_ndone s <= ws_ndone s'.
Proof.
  intros H. destruct l; inv_step H; cbn; try (exists []; rewrite app_nil_r; auto; fail).
  match goal with E : beq _ _ = true |- _ => apply beq_eq in E; subst end.
  eexists. split; [reflexivity|]. auto.
Qed.

Lemma puts_run : forall ls s s', wrun s ls = Some s' ->
  exists more, ws_puts s' = ws_puts s ++ more /\ map put_of more = lputs ls /\ ws_ndone s <= ws_ndone s'.
Proof.
  induction ls as [|l r IH]; cbn [wrun]; intros s s' H.
  - injection H as <-. exists []. rewrite app_nil_r. auto.
  - destruct (wstep s l) eqn:E; [|discriminate].
    destruct (puts_step _ _ _ E) as (m1 & P1 & L1 & N1). destruct (IH _ _ H) as (m2 & P2 & L2 & N2).
    exists (m1 ++ m2). rewrite P2, P1, <- app_assoc, map_app, L1, L2, (lputs_cons l r). repeat split; auto. lia.
Qed.

(* ------------------------------------------------------------------ program order of each submitter *)
Definition thr_msgs (t : nat) (l : list entry) : list bytes :=
  map e_msg (filter (fun e => Nat.eqb (e_thr e) t) l).
Definition prog_at (s : wstate) (t : nat) : list bytes :=
  match nth_error (ws_subs s) t with Some x => sb_prog x | None => [] end.
Definition order_inv (progs : list (list bytes)) (s : wstate) : Prop :=
  forall t, nth t progs [] = thr_msgs t (ws_puts s) ++ prog_at s t.

Lemma of_thread_put_of t l : of_thread t (map put_of l) = thr_msgs t l.
Proof.
  unfold of_thread, thr_msgs. induction l as [|e l IH]; cbn; [reflexivity|].
  unfold put_of at 1. cbn. destruct (Nat.eqb (e_thr e) t); cbn; rewrite IH; reflexivity.
Qed.

Lemma thr_msgs_app t a b : thr_msgs t (a ++ b) = thr_msgs t a ++ thr_msgs t b.
Proof. unfold thr_msgs. rewrite filter_app, map_app. reflexivity. Qed.

Lemma order_init b pend progs : order_inv progs (winit b pend progs).
Proof.
  intros t. unfold prog_at. cbn. revert t. induction progs as [|p r IH]; intros [|t]; cbn; auto.
Qed.

Lemma order_step progs s l s' : order_inv progs s -> wstep s l = Some s' -> order_inv progs s'.
Proof.
  intros O H. destruct l; try (inv_step H; exact O).
  - (* LChk *) inv_step H; intros t0; specialize (O t0); unfold prog_at in *; cbn;
    (destruct (Nat.eq_dec t0 t) as [->|N];
     [ erewrite nth_error_upd_same by eassumption; match goal with E : nth_error _ t = _ |- _ => rewrite E in O end; exact O
     | rewrite nth_error_upd_other by exact N; exact O ]).
  - (* LPut *) inv_step H. match goal with E : beq _ _ = true |- _ => apply beq_eq in E; subst end.
    intros t0; specialize (O t0); unfold prog_at in *; cbn [ws_puts ws_subs set_puts set_q set_subs]. rewrite thr_msgs_app. unfold thr_msgs at 2. cbn [filter map e_thr fst snd e_msg].
    destruct (Nat.eq_dec t0 t) as [->|N].
    + erewrite nth_error_upd_same by eassumption. rewrite Nat.eqb_refl. cbn.
      match goal with E : nth_error _ t = _ |- _ => rewrite E in O end. cbn in O. rewrite O, <- app_assoc. reflexivity.
    + rewrite nth_error_upd_other by exact N. replace (Nat.eqb t t0) with false by (symmetry; apply Nat.eqb_neq; congruence).
      cbn. rewrite app_nil_r. exact O.
Qed.

Lemma order_run progs : forall ls s s', order_inv progs s -> wrun s ls = Some s' -> order_inv progs s'.
Proof.
  induction ls as [|l r IH]; cbn; intros s s' O H.
  - injection H as <-; auto.
  - destruct (wstep s l) eqn:E; [|discriminate]. eapply IH; [eapply order_step; eauto|exact H].
Qed.

(* ------------------------------------------------------------------ the put log in terms of the trace alone *)
Definition base_after (b : base) (l : label) : base := match l with LSetBase b' => b' | _ => b end.
Lemma lentries_cons b l r : lentries b (l :: r) = lentries b [l] ++ lentries (base_after b l) r.
Proof. destruct l; reflexivity. Qed.

Lemma entries_step s l s' : wstep s l = Some s' ->
  ws_puts s' = ws_puts s ++ lentries (ws_base s) [l] /\ ws_base s' = base_after (ws_base s) l.
Proof.
  intros H. destruct l; inv_step H; cbn; rewrite ?app_nil_r; auto.
  match goal with E : beq _ _ = true |- _ => apply beq_eq in E; subst end. auto.
Qed.

Lemma entries_run : forall ls s s', wrun s ls = Some s' -> ws_puts s' = ws_puts s ++ lentries (ws_base s) ls.
Proof.
  induction ls as [|l r IH]; cbn [wrun]; intros s s' H.
  - injection H as <-. cbn. rewrite app_nil_r. reflexivity.
  - destruct (wstep s l) eqn:E; [|discriminate]. destruct (entries_step _ _ _ E) as [P B].
    rewrite (IH _ _ H), P, B, (lentries_cons _ l r), app_assoc. reflexivity.
Qed.

(* ------------------------------------------------------------------ statements of Props/C02.v *)
Lemma c02_sched_wire_prefix : forall b progs ls s, wrun (winit b false progs) ls = Some s ->
  prefix_of (ws_wire s) (frames (lentries b ls)) /\
  exists done partial rest, lentries b ls = done ++ rest /\ ws_wire s = frames done ++ partial /\
    (partial = [] \/ exists e rest', rest = e :: rest' /\ strict_prefix_of partial (e_frame e)).
Proof.
  intros b progs ls s H. pose proof (entries_run _ _ _ H) as P. cbn in P.
  pose proof (inv_run _ _ _ (inv_init b progs) H) as I.
  destruct (inv_shape _ I) as (done & partial & rest & H1 & H2 & H3). rewrite P in H1.
  split; [eapply shape_prefix_of; eauto|]. exists done, partial, rest. auto.
Qed.

Lemma c02_sched_drained : forall b progs ls s, wrun (winit b false progs) ls = Some s ->
  ws_q s = [] -> (ws_w s = PTop \/ ws_w s = PSel) -> ws_wire s = frames (lentries b ls).
Proof.
  intros b progs ls s H Q W. pose proof (entries_run _ _ _ H) as P. cbn in P.
  destruct (inv_run _ _ _ (inv_init b progs) H) as [_ (done & Hs & _ & Hw) _ _ _ _].
  unfold wire_ok in Hw. rewrite Q in Hs. destruct W as [W|W]; rewrite W in *; cbn in Hs; rewrite app_nil_r in Hs;
  destruct Hw as [Hw _]; rewrite Hw; congruence.
Qed.

Lemma c02_sched_failure : forall b progs ls s u, wrun (winit b false progs) ls = Some s -> ws_err s = Some u ->
  (exists done e rest partial, lentries b ls = done ++ e :: rest /\ ws_wire s = frames done ++ partial /\
     e_frame e = partial ++ unsent_of_err u /\ unsent_of_err u <> []) /\
  (forall ls' s', wrun s ls' = Some s' -> ws_wire s' = ws_wire s /\ ws_err s' = Some u).
Proof.
  intros b progs ls s u H E. pose proof (entries_run _ _ _ H) as P. cbn in P.
  pose proof (inv_run _ _ _ (inv_init b progs) H) as I. split.
  - destruct (inv_failure_shape _ _ I E) as (done & e & rest & p & H1 & H2). rewrite P in H1. eauto 8.
  - intros ls' s' H'. destruct (failed_run _ _ _ H' (inv_err_failed _ _ I E)). split; congruence.
Qed.

Lemma c02_sched_no_spurious_failure : forall b progs ls s, wrun (winit b false progs) ls = Some s ->
  forallb accepted_write ls = true -> ws_err s = None.
Proof. intros b progs ls s H A. eapply err_run; eauto. Qed.

Lemma c02_sched_program_order : forall b progs ls s t, wrun (winit b false progs) ls = Some s ->
  exists rest, nth t progs [] = of_thread t (lputs ls) ++ rest.
Proof.
  intros b progs ls s t H. destruct (puts_run _ _ _ H) as (more & P & L & _). cbn in P.
  pose proof (order_run progs _ _ _ (order_init b false progs) H t) as O.
  exists (prog_at s t). rewrite <- L, of_thread_put_of, <- P. exact O.
Qed.
