(* WriterSchedProofs.v — invariants of the submitters/worker transition system of Model/WriterSched.v and the
   statements of Props/C02.v named C02_sched_... (all interleavings, all write answers). *)
From Coq Require Import Lia.
From NC Require Import Model.Base Model.Writer Spec.WireSpec Proofs.BaseFacts Proofs.WriterProofs Model.WriterSched.

Local Open Scope nat_scope.

(* ------------------------------------------------------------------ small facts *)
Lemma base_eqb_eq a b : base_eqb a b = true -> a = b.
Proof. destruct a, b; cbn; congruence. Qed.
Lemma werr_eqb_eq a b : werr_eqb a b = true -> a = b.
Proof. destruct a, b; cbn; intros H; try discriminate; apply beq_eq in H; congruence. Qed.

Lemma nth_error_upd_same {A} (x : A) : forall l t y, nth_error l t = Some y -> nth_error (upd_nth t x l) t = Some x.
Proof. induction l as [|a l IH]; intros [|t] y H; cbn in *; try discriminate; eauto. Qed.
Lemma nth_error_upd_other {A} (x : A) : forall l t t', t' <> t -> nth_error (upd_nth t x l) t' = nth_error l t'.
Proof. induction l as [|a l IH]; intros [|t] [|t'] H; cbn; try reflexivity; try congruence. apply IH. congruence. Qed.

Lemma frames_app a b : frames (a ++ b) = frames a ++ frames b.
Proof. unfold frames. rewrite map_app, concat_app. reflexivity. Qed.
Lemma frames_one e : frames [e] = e_frame e.
Proof. unfold frames. cbn. apply app_nil_r. Qed.

Ltac inv_step H :=
  unfold wstep in H; cbv zeta in H;
  repeat match type of H with
         | context [match ?x with _ => _ end] => destruct x eqn:?; try discriminate
         end;
  try discriminate; injection H as <-.

(* ------------------------------------------------------------------ the invariant *)
Definition held (w : wpc) : list entry :=
  match w with
  | PPend e | PClr e | PBase e | PWr e _ | PRaised e _ | PClosing e | PDone e => [e]
  | _ => []
  end.
Definition failed_pc (w : wpc) : bool :=
  match w with PRaised _ _ | PClosing _ | PDone _ => true | _ => false end.

(* the frame of e is being written: `partial` is on the wire, `u` is what is still to be offered *)
Definition mid (s : wstate) (done : list entry) (e : entry) (u : bytes) : Prop :=
  exists partial, ws_wire s = frames done ++ partial /\ e_frame e = partial ++ u /\ u <> [].

Definition wire_ok (s : wstate) (done : list entry) : Prop :=
  match ws_w s with
  | PWr e data => mid s done e data /\ ws_err s = None
  | PRaised e x => ws_err s = Some x /\ mid s done e (unsent_of_err x)
  | PClosing e | PDone e => exists x, ws_err s = Some x /\ mid s done e (unsent_of_err x)
  | _ => ws_wire s = frames done /\ ws_err s = None
  end.

Record Inv (s : wstate) : Prop := {
  inv_pending : ws_pending s = false;
  inv_split : exists done, ws_puts s = done ++ held (ws_w s) ++ ws_q s /\ length done = ws_ndone s /\ wire_ok s done;
  inv_tags : Forall (fun e => e_tag e = ws_base s) (ws_q s);
  inv_htag : forall e, ws_w s = PPend e \/ ws_w s = PBase e -> e_tag e = ws_base s;
  inv_noclr : forall e, ws_w s <> PClr e;
  inv_ne : ws_w s = PRdy \/ ws_w s = PGet -> ws_q s <> [] }.

Lemma inv_init b progs : Inv (winit b false progs).
Proof.
  constructor; cbn; try tauto; try discriminate.
  - exists []. cbn. auto.
  - constructor.
  - intros e [H|H]; discriminate.
  - intros [H|H]; discriminate.
Qed.

Ltac fin done :=
  try solve [ exists done; cbn; auto ];
  try solve [ intros ? [X|X]; discriminate X ];
  try solve [ intros ? X; discriminate X ];
  try solve [ intros [X|X]; discriminate X ].
Ltac wpc Hw := unfold wire_ok in Hw; match goal with E : ws_w _ = _ |- _ => rewrite E in * end; cbn [held app] in *.

Lemma inv_step s l s' : Inv s -> wstep s l = Some s' -> Inv s'.
Proof.
  intros [Hp (done & Hs & Hl & Hw) Ht Hh Hc Hn] H.
  destruct l.
  - (* LChk *) inv_step H; constructor; cbn; auto; exists done; unfold wire_ok, mid in *; cbn; auto.
  - (* LPut *) inv_step H. match goal with E : beq _ _ = true |- _ => apply beq_eq in E; subst end.
    constructor; cbn; auto.
    + exists done. rewrite Hs, <- !app_assoc. repeat split; auto.
    + apply Forall_app. split; [exact Ht|]. constructor; [reflexivity|constructor].
    + intros X. apply Hn in X. destruct (ws_q s); [congruence|discriminate].
  - (* LSetBase *) inv_step H. constructor; cbn; auto.
    + exists done. rewrite Heql. repeat split; auto.
    + rewrite Heql. constructor.
    + intros e [X|X]; rewrite X in *; discriminate.
    + intros X. exfalso. apply (Hn X). reflexivity.
  - (* LEmpty *) inv_step H; wpc Hw; constructor; cbn; auto; fin done.
    intros _ X. rewrite X in *. discriminate.
  - (* LReady *) inv_step H; wpc Hw; constructor; cbn; auto; fin done.
  - (* LGet *) inv_step H; wpc Hw; constructor; cbn; auto; fin done.
    + inversion Ht; auto.
    + intros e0 [X|X]; inversion X; subst. inversion Ht; auto.
  - (* LPendRd *) inv_step H; wpc Hw;
    match goal with E : Bool.eqb _ _ = true |- _ => apply Bool.eqb_prop in E; rewrite Hp in E; try discriminate E end.
    constructor; cbn; auto; fin done.
    intros e0 [X|X]; inversion X; subst. apply Hh. auto.
  - (* LPendClr *) inv_step H. exfalso. eapply Hc. reflexivity.
  - (* LBaseRd *) inv_step H; wpc Hw.
    match goal with E : base_eqb _ _ = true |- _ => apply base_eqb_eq in E; subst b end.
    constructor; cbn; auto; fin done.
    destruct Hw as [Hw He]. exists done. repeat split; auto.
    exists []. cbn. rewrite app_nil_r. repeat split; auto.
    + unfold e_frame. rewrite (Hh e); auto.
    + apply frame_nonempty.
  - (* LWrite *) inv_step H; wpc Hw; destruct Hw as [(partial & Hw1 & Hw2 & Hw3) He];
    unfold wfail; constructor; cbn; auto; fin done.
    all: try solve [ exists done; repeat split; auto; exists partial; cbn; auto ].
    + (* the frame is complete *)
      match goal with E : skipn _ data = [] |- _ => rename E into Hk end.
      assert (Hd : firstn (N.to_nat n) data = data).
      { rewrite <- (firstn_skipn (N.to_nat n) data) at 2. rewrite Hk. symmetry. apply app_nil_r. }
      exists (done ++ [e]). rewrite Hd, <- app_assoc. cbn. repeat split; auto.
      * rewrite app_length. cbn. lia.
      * rewrite frames_app, frames_one, Hw1, Hw2, <- app_assoc. reflexivity.
    + (* a short write: the unsent tail is offered next *)
      match goal with E : skipn _ data = _ :: _ |- _ => rename E into Hk end.
      exists done. repeat split; auto. exists (partial ++ firstn (N.to_nat n) data). cbn. repeat split.
      * rewrite Hw1, app_assoc. reflexivity.
      * rewrite <- Hk, <- app_assoc, firstn_skipn. exact Hw2.
      * discriminate.
  - (* LSelect *) inv_step H; wpc Hw; constructor; cbn; auto; fin done.
  - (* LDispErr *) inv_step H; wpc Hw; constructor; cbn; auto; fin done.
    match goal with E : werr_eqb _ _ = true |- _ => apply werr_eqb_eq in E; subst end.
    exists done. cbn. repeat split; auto. unfold wire_ok, mid in *. cbn. destruct Hw as [He Hm]. eauto.
  - (* LClose *) inv_step H; wpc Hw; constructor; cbn; auto; fin done.
Qed.

Lemma inv_run : forall ls s s', Inv s -> wrun s ls = Some s' -> Inv s'.
Proof.
  induction ls as [|l r IH]; cbn; intros s s' Hi H.
  - injection H as <-; auto.
  - destruct (wstep s l) eqn:E; [|discriminate]. eapply IH; [eapply inv_step; eauto|exact H].
Qed.

Lemma wrun_app : forall ls1 ls2 s,
  wrun s (ls1 ++ ls2) = match wrun s ls1 with Some s1 => wrun s1 ls2 | None => None end.
Proof.
  induction ls1 as [|l r IH]; cbn; intros; [reflexivity|]. destruct (wstep s l); [apply IH|reflexivity].
Qed.

(* ------------------------------------------------------------------ what is on the wire *)
Lemma inv_shape s : Inv s ->
  exists done partial rest, ws_puts s = done ++ rest /\ ws_wire s = frames done ++ partial /\
    (partial = [] \/ exists e rest', rest = e :: rest' /\ strict_prefix_of partial (e_frame e)).
Proof.
  intros [_ (done & Hs & _ & Hw) _ _ _ _]. unfold wire_ok in Hw.
  destruct (ws_w s) eqn:W; cbn [held app] in Hs.
  1-3,8: exists done, [], (ws_q s); rewrite app_nil_r; destruct Hw; auto.
  1-3: exists done, [], (e :: ws_q s); rewrite app_nil_r; destruct Hw; auto.
  - destruct Hw as [(p & H1 & H2 & H3) _]. exists done, p, (e :: ws_q s). repeat split; auto.
    right. exists e, (ws_q s). split; auto. exists data. auto.
  - destruct Hw as [_ (p & H1 & H2 & H3)]. exists done, p, (e :: ws_q s). repeat split; auto.
    right. exists e, (ws_q s). split; auto. exists (unsent_of_err x). auto.
  - destruct Hw as (x & _ & p & H1 & H2 & H3). exists done, p, (e :: ws_q s). repeat split; auto.
    right. exists e, (ws_q s). split; auto. exists (unsent_of_err x). auto.
  - destruct Hw as (x & _ & p & H1 & H2 & H3). exists done, p, (e :: ws_q s). repeat split; auto.
    right. exists e, (ws_q s). split; auto. exists (unsent_of_err x). auto.
Qed.

Lemma shape_prefix_of puts wire done partial rest :
  puts = done ++ rest -> wire = frames done ++ partial ->
  (partial = [] \/ exists (e : entry) rest', rest = e :: rest' /\ strict_prefix_of partial (e_frame e)) ->
  prefix_of wire (frames puts).
Proof.
  intros -> -> [->|(e & r' & -> & u & _ & Hu)]; rewrite frames_app.
  - exists (frames rest). rewrite app_nil_r. reflexivity.
  - exists (u ++ frames r'). change (e :: r') with ([e] ++ r'). rewrite frames_app, frames_one, Hu, <- !app_assoc. reflexivity.
Qed.

(* ------------------------------------------------------------------ failure *)
Lemma inv_err_failed s u : Inv s -> ws_err s = Some u -> failed_pc (ws_w s) = true.
Proof.
  intros [_ (done & _ & _ & Hw) _ _ _ _] He. unfold wire_ok in Hw.
  destruct (ws_w s); try reflexivity; destruct Hw; congruence.
Qed.

Lemma failed_step s l s' : wstep s l = Some s' -> failed_pc (ws_w s) = true ->
  failed_pc (ws_w s') = true /\ ws_wire s' = ws_wire s /\ ws_err s' = ws_err s.
Proof.
  intros H F. destruct l; inv_step H; cbn in *; try discriminate; auto;
  match goal with E : ws_w s = _ |- _ => rewrite E in F; try discriminate F end.
Qed.

Lemma failed_run : forall ls s s', wrun s ls = Some s' -> failed_pc (ws_w s) = true ->
  ws_wire s' = ws_wire s /\ ws_err s' = ws_err s.
Proof.
  induction ls as [|l r IH]; cbn; intros s s' H F.
  - injection H as <-; auto.
  - destruct (wstep s l) eqn:E; [|discriminate]. destruct (failed_step _ _ _ E F) as (F' & W & X).
    destruct (IH _ _ H F') as [W' X']. split; congruence.
Qed.

Lemma inv_failure_shape s u : Inv s -> ws_err s = Some u ->
  exists done e rest partial, ws_puts s = done ++ e :: rest /\ ws_wire s = frames done ++ partial /\
    e_frame e = partial ++ unsent_of_err u /\ unsent_of_err u <> [].
Proof.
  intros [_ (done & Hs & _ & Hw) _ _ _ _] He. unfold wire_ok in Hw.
  destruct (ws_w s) eqn:W; cbn [held app] in Hs; try (destruct Hw; congruence).
  - destruct Hw as [E (p & H1 & H2 & H3)]. assert (x = u) by congruence. subst. exists done, e, (ws_q s), p. auto.
  - destruct Hw as (x & E & p & H1 & H2 & H3). assert (x = u) by congruence. subst. exists done, e, (ws_q s), p. auto.
  - destruct Hw as (x & E & p & H1 & H2 & H3). assert (x = u) by congruence. subst. exists done, e, (ws_q s), p. auto.
Qed.

(* the error value is only ever produced by a refused write *)
Lemma err_step s l s' : wstep s l = Some s' -> accepted_write l = true -> ws_err s = None -> ws_err s' = None.
Proof. intros H A E. destruct l; inv_step H; cbn in *; auto; try discriminate.
 rewrite Heqb0 in A. discriminate.
Qed.

Lemma err_run : forall ls s s', wrun s ls = Some s' -> forallb accepted_write ls = true -> ws_err s = None -> ws_err s' = None.
Proof.
  induction ls as [|l r IH]; cbn; intros s s' H A E.
  - injection H as <-; auto.
  - destruct (wstep s l) eqn:X; [|discriminate]. apply andb_prop in A as [A1 A2]. eapply IH; eauto using err_step.
Qed.

(* ------------------------------------------------------------------ the ghost put log is the trace's puts *)
Lemma lputs_cons l r : lputs (l :: r) = lputs [l] ++ lputs r.
Proof. destruct l; reflexivity. Qed.

Lemma puts_step s l s' : wstep s l = Some s' ->
  exists more, ws_puts s' = ws_puts s ++ more /\ map put_of more = lputs [l] /\ ws_ndone s <= ws_ndone s'.
Proof.
  intros H. destruct l; inv_step H; cbn; try (exists []; rewrite app_nil_r; auto; fail).
  match goal with E : beq _ _ = true |- _ => apply beq_eq in E; subst end.
  eexists. split; [reflexivity|]. auto.
Qed.

Lemma puts_run : forall ls s s', wrun s ls = Some s' ->
  exists more, ws_puts s' = ws_puts s ++ more /\ map put_of more = lputs ls /\ ws_ndone s <= ws_ndone s'.
Proof.
  induction ls as [|l r IH]; cbn [wrun]; intros s s' H.
  - injection H as <-. exists []. rewrite app_nil_r. auto.
  - destruct (wstep s l) eqn:E; [|discriminate].
    destruct (puts_step _ _ _ E) as (m1 & P1 & L1 & N1). destruct (IH _ _ H) as (m2 & P2 & L2 & N2).
    exists (m1 ++ m2). rewrite P2, P1, <- app_assoc, map_app, L1, L2, (lputs_cons l r). repeat split; auto. lia.
Qed.

(* ------------------------------------------------------------------ program order of each submitter *)
Definition thr_msgs (t : nat) (l : list entry) : list bytes :=
  map e_msg (filter (fun e => Nat.eqb (e_thr e) t) l).
Definition prog_at (s : wstate) (t : nat) : list bytes :=
  match nth_error (ws_subs s) t with Some x => sb_prog x | None => [] end.
Definition order_inv (progs : list (list bytes)) (s : wstate) : Prop :=
  forall t, nth t progs [] = thr_msgs t (ws_puts s) ++ prog_at s t.

Lemma of_thread_put_of t l : of_thread t (map put_of l) = thr_msgs t l.
Proof.
  unfold of_thread, thr_msgs. induction l as [|e l IH]; cbn; [reflexivity|].
  unfold put_of at 1. cbn. destruct (Nat.eqb (e_thr e) t); cbn; rewrite IH; reflexivity.
Qed.

Lemma thr_msgs_app t a b : thr_msgs t (a ++ b) = thr_msgs t a ++ thr_msgs t b.
Proof. unfold thr_msgs. rewrite filter_app, map_app. reflexivity. Qed.

Lemma order_init b pend progs : order_inv progs (winit b pend progs).
Proof.
  intros t. unfold prog_at. cbn. revert t. induction progs as [|p r IH]; intros [|t]; cbn; auto.
Qed.

Lemma order_step progs s l s' : order_inv progs s -> wstep s l = Some s' -> order_inv progs s'.
Proof.
  intros O H. destruct l; try (inv_step H; exact O).
  - (* LChk *) inv_step H; intros t0; specialize (O t0); unfold prog_at in *; cbn;
    (destruct (Nat.eq_dec t0 t) as [->|N];
     [ erewrite nth_error_upd_same by eassumption; match goal with E : nth_error _ t = _ |- _ => rewrite E in O end; exact O
     | rewrite nth_error_upd_other by exact N; exact O ]).
  - (* LPut *) inv_step H. match goal with E : beq _ _ = true |- _ => apply beq_eq in E; subst end.
    intros t0; specialize (O t0); unfold prog_at in *; cbn [ws_puts ws_subs set_puts set_q set_subs]. rewrite thr_msgs_app. unfold thr_msgs at 2. cbn [filter map e_thr fst snd e_msg].
    destruct (Nat.eq_dec t0 t) as [->|N].
    + erewrite nth_error_upd_same by eassumption. rewrite Nat.eqb_refl. cbn.
      match goal with E : nth_error _ t = _ |- _ => rewrite E in O end. cbn in O. rewrite O, <- app_assoc. reflexivity.
    + rewrite nth_error_upd_other by exact N. replace (Nat.eqb t t0) with false by (symmetry; apply Nat.eqb_neq; congruence).
      cbn. rewrite app_nil_r. exact O.
Qed.

Lemma order_run progs : forall ls s s', order_inv progs s -> wrun s ls = Some s' -> order_inv progs s'.
Proof.
  induction ls as [|l r IH]; cbn; intros s s' O H.
  - injection H as <-; auto.
  - destruct (wstep s l) eqn:E; [|discriminate]. eapply IH; [eapply order_step; eauto|exact H].
Qed.

(* ------------------------------------------------------------------ the put log in terms of the trace alone *)
Definition base_after (b : base) (l : label) : base := match l with LSetBase b' => b' | _ => b end.
Lemma lentries_cons b l r : lentries b (l :: r) = lentries b [l] ++ lentries (base_after b l) r.
Proof. destruct l; reflexivity. Qed.

Lemma entries_step s l s' : wstep s l = Some s' ->
  ws_puts s' = ws_puts s ++ lentries (ws_base s) [l] /\ ws_base s' = base_after (ws_base s) l.
Proof.
  intros H. destruct l; inv_step H; cbn; rewrite ?app_nil_r; auto.
  match goal with E : beq _ _ = true |- _ => apply beq_eq in E; subst end. auto.
Qed.

Lemma entries_run : forall ls s s', wrun s ls = Some s' -> ws_puts s' = ws_puts s ++ lentries (ws_base s) ls.
Proof.
  induction ls as [|l r IH]; cbn [wrun]; intros s s' H.
  - injection H as <-. cbn. rewrite app_nil_r. reflexivity.
  - destruct (wstep s l) eqn:E; [|discriminate]. destruct (entries_step _ _ _ E) as [P B].
    rewrite (IH _ _ H), P, B, (lentries_cons _ l r), app_assoc. reflexivity.
Qed.

(* ------------------------------------------------------------------ statements of Props/C02.v *)
Lemma c02_sched_wire_prefix : forall b progs ls s, wrun (winit b false progs) ls = Some s ->
  prefix_of (ws_wire s) (frames (lentries b ls)) /\
  exists done partial rest, lentries b ls = done ++ rest /\ ws_wire s = frames done ++ partial /\
    (partial = [] \/ exists e rest', rest = e :: rest' /\ strict_prefix_of partial (e_frame e)).
Proof.
  intros b progs ls s H. pose proof (entries_run _ _ _ H) as P. cbn in P.
  pose proof (inv_run _ _ _ (inv_init b progs) H) as I.
  destruct (inv_shape _ I) as (done & partial & rest & H1 & H2 & H3). rewrite P in H1.
  split; [eapply shape_prefix_of; eauto|]. exists done, partial, rest. auto.
Qed.

Lemma c02_sched_drained : forall b progs ls s, wrun (winit b false progs) ls = Some s ->
  ws_q s = [] -> (ws_w s = PTop \/ ws_w s = PSel) -> ws_wire s = frames (lentries b ls).
Proof.
  intros b progs ls s H Q W. pose proof (entries_run _ _ _ H) as P. cbn in P.
  destruct (inv_run _ _ _ (inv_init b progs) H) as [_ (done & Hs & _ & Hw) _ _ _ _].
  unfold wire_ok in Hw. rewrite Q in Hs. destruct W as [W|W]; rewrite W in *; cbn in Hs; rewrite app_nil_r in Hs;
  destruct Hw as [Hw _]; rewrite Hw; congruence.
Qed.

Lemma c02_sched_failure : forall b progs ls s u, wrun (winit b false progs) ls = Some s -> ws_err s = Some u ->
  (exists done e rest partial, lentries b ls = done ++ e :: rest /\ ws_wire s = frames done ++ partial /\
     e_frame e = partial ++ unsent_of_err u /\ unsent_of_err u <> []) /\
  (forall ls' s', wrun s ls' = Some s' -> ws_wire s' = ws_wire s /\ ws_err s' = Some u).
Proof.
  intros b progs ls s u H E. pose proof (entries_run _ _ _ H) as P. cbn in P.
  pose proof (inv_run _ _ _ (inv_init b progs) H) as I. split.
  - destruct (inv_failure_shape _ _ I E) as (done & e & rest & p & H1 & H2). rewrite P in H1. eauto 8.
  - intros ls' s' H'. destruct (failed_run _ _ _ H' (inv_err_failed _ _ I E)). split; congruence.
Qed.

Lemma c02_sched_no_spurious_failure : forall b progs ls s, wrun (winit b false progs) ls = Some s ->
  forallb accepted_write ls = true -> ws_err s = None.
Proof. intros b progs ls s H A. eapply err_run; eauto. Qed.

Lemma c02_sched_program_order : forall b progs ls s t, wrun (winit b false progs) ls = Some s ->
  exists rest, nth t progs [] = of_thread t (lputs ls) ++ rest.
Proof.
  intros b progs ls s t H. destruct (puts_run _ _ _ H) as (more & P & L & _). cbn in P.
  pose proof (order_run progs _ _ _ (order_init b false progs) H t) as O.
  exists (prog_at s t). rewrite <- L, of_thread_put_of, <- P. exact O.
Qed.

(* ------------------------------------------------------------------ progress: a step bound for every interleaving *)
Definition Qc (l : list entry) : nat := fold_right (fun e a => 6 + length (e_frame e) + a) 0 l.
Lemma cost_Qc l : cost l = Qc l + 2.
Proof. unfold cost, Qc. induction l as [|e l IH]; cbn [fold_right]; [reflexivity|]. rewrite IH. lia. Qed.
Lemma Qc_app a b : Qc (a ++ b) = Qc a + Qc b.
Proof. unfold Qc. induction a as [|e a IH]; cbn [fold_right app]; [reflexivity|]. rewrite IH. lia. Qed.
Lemma Qc_firstn j l : Qc (firstn j l) <= Qc l.
Proof. rewrite <- (firstn_skipn j l) at 2. rewrite Qc_app. lia. Qed.

(* the entries among the first k puts that are not yet written completely *)
Definition pl (k : nat) (s : wstate) : list entry := firstn (k - ws_ndone s) (held (ws_w s) ++ ws_q s).
(* worker steps already spent on the head of that list since the select before it *)
Definition progress (w : wpc) : nat :=
  match w with
  | PSel => 0 | PTop => 1 | PRdy => 2 | PGet => 3 | PPend _ => 4 | PClr _ | PBase _ => 5
  | PWr e data => 6 + (length (e_frame e) - length data)
  | _ => 0
  end.
Definition todo (k : nat) (s : wstate) : nat := Qc (pl k s) + 1 - progress (ws_w s).

Definition wl (l : label) : nat := if is_wlabel l then 1 else 0.
Definition nr (l : label) : nat := match l with LReady false => 3 | _ => 0 end.

Ltac proj := cbn [ws_ndone ws_w ws_q ws_puts ws_base ws_wire ws_err ws_conn ws_pending ws_subs set_subs set_q set_puts set_w
                     set_base set_wire set_ndone set_err set_conn set_pending wfail] in *.
Ltac calc := unfold Qc in *; cbn [held app firstn fold_right progress] in *.

Lemma todo_step k s l s' : Inv s -> ws_err s = None -> k <= length (ws_puts s) ->
  wstep s l = Some s' -> accepted_write l = true ->
  k <= ws_ndone s' \/ todo k s' + wl l <= todo k s + nr l.
Proof.
  intros I E Hk H A. destruct (le_lt_dec k (ws_ndone s)) as [Le|Lt].
  { left. destruct (puts_step _ _ _ H) as (_ & _ & _ & N). lia. }
  destruct I as [Hp (done & Hs & Hl & Hw) Ht Hh Hc Hn].
  assert (Hlen : k - ws_ndone s <= length (held (ws_w s) ++ ws_q s)).
  { rewrite Hs, app_length in Hk. lia. }
  unfold todo, pl. remember (k - ws_ndone s) as j eqn:Ej. destruct j as [|j]; [lia|].
  destruct l; cbn [wl nr is_wlabel].
  - (* LChk *) inv_step H; right; proj; rewrite <- Ej; lia.
  - (* LPut *) inv_step H. right. proj. rewrite <- Ej.
    rewrite app_assoc, firstn_app. replace (S j - length (held (ws_w s) ++ ws_q s)) with 0 by lia.
    cbn [firstn]. rewrite app_nil_r. lia.
  - (* LSetBase *) inv_step H; right; proj; rewrite <- Ej; rewrite ?Heql; lia.
  - (* LEmpty *) inv_step H; wpc Hw; proj; rewrite <- ?Ej.
    + destruct (ws_q s); [cbn in Hlen; lia|discriminate].
    + right. destruct (ws_q s); [discriminate|]. calc. lia.
  - (* LReady *) inv_step H; wpc Hw; proj; rewrite <- ?Ej; right;
    (destruct (ws_q s); [exfalso; apply Hn; auto|]); calc; lia.
  - (* LGet *) inv_step H; wpc Hw; proj; rewrite <- ?Ej. right. calc. lia.
  - (* LPendRd *) inv_step H; wpc Hw; proj; rewrite <- ?Ej;
    match goal with X : Bool.eqb _ _ = true |- _ => apply Bool.eqb_prop in X; rewrite Hp in X; try discriminate X end.
    right. calc. lia.
  - (* LPendClr *) inv_step H. exfalso. eapply Hc. reflexivity.
  - (* LBaseRd *) inv_step H; wpc Hw; proj; rewrite <- ?Ej.
    match goal with X : base_eqb _ _ = true |- _ => apply base_eqb_eq in X; subst b end.
    right. calc. rewrite <- (Hh e) by auto. fold (e_frame e). lia.
  - (* LWrite *) inv_step H; wpc Hw; proj; rewrite <- ?Ej; cbn [accepted_write] in A; try discriminate A;
    try (rewrite Heqb0 in A; discriminate A).
    all: destruct Hw as [(partial & Hw1 & Hw2 & Hw3) _].
    all: assert (Lf : length (e_frame e) = length partial + length data) by (rewrite Hw2, app_length; reflexivity).
    all: assert (Ld : 1 <= length data) by (destruct data; [congruence|cbn; lia]).
    + right. replace (k - S (ws_ndone s)) with j by lia. calc. lia.
    + right. calc.
      assert (Lk : length (n0 :: l) = length data - N.to_nat n) by (rewrite <- Heql; apply skipn_length).
      assert (Ln : 1 <= N.to_nat n) by (apply N.eqb_neq in Heqb0; lia).
      cbn [length] in *. lia.
  - (* LSelect *) inv_step H; wpc Hw; proj; rewrite <- ?Ej. right. calc. lia.
  - (* LDispErr *) inv_step H; wpc Hw. destruct Hw; congruence.
  - (* LClose *) inv_step H; wpc Hw. destruct Hw as (x & X & _); congruence.
Qed.

Lemma wsteps_cons l r : wsteps (l :: r) = wl l + wsteps r.
Proof. unfold wsteps, wl. cbn [filter]. destruct (is_wlabel l); reflexivity. Qed.
Lemma notready_cons l r : 3 * notready (l :: r) = nr l + 3 * notready r.
Proof. unfold notready, nr. cbn [filter]. destruct l as [| | | |[|]| | | | | | | |]; cbn [length]; lia. Qed.

Lemma todo_run k : forall ls s s', Inv s -> ws_err s = None -> k <= length (ws_puts s) ->
  wrun s ls = Some s' -> forallb accepted_write ls = true ->
  k <= ws_ndone s' \/ todo k s' + wsteps ls <= todo k s + 3 * notready ls.
Proof.
  induction ls as [|l r IH]; cbn [wrun forallb]; intros s s' I E Hk H A.
  - injection H as <-. right. cbn. lia.
  - destruct (wstep s l) eqn:X; [|discriminate]. apply andb_prop in A as [A1 A2].
    destruct (puts_step _ _ _ X) as (m1 & P1 & _ & _). destruct (puts_run _ _ _ H) as (_ & _ & _ & N2).
    destruct (todo_step k _ _ _ I E Hk X A1) as [L|R]; [left; lia|].
    assert (Hk1 : k <= length (ws_puts w)) by (rewrite P1, app_length; lia).
    destruct (IH _ _ (inv_step _ _ _ I X) (err_step _ _ _ X A1 E) Hk1 H A2) as [L|R2]; [left; exact L|].
    right. rewrite wsteps_cons, notready_cons. lia.
Qed.

Lemma inv_wire_done s : Inv s ->
  exists done p, ws_puts s = done ++ held (ws_w s) ++ ws_q s /\ length done = ws_ndone s /\ ws_wire s = frames done ++ p.
Proof.
  intros [_ (done & Hs & Hl & Hw) _ _ _ _]. unfold wire_ok, mid in Hw. exists done.
  destruct (ws_w s); try (exists []; rewrite app_nil_r; destruct Hw; auto; fail).
  - destruct Hw as [(p & H1 & _) _]. eauto.
  - destruct Hw as [_ (p & H1 & _)]. eauto.
  - destruct Hw as (x & _ & p & H1 & _). eauto.
  - destruct Hw as (x & _ & p & H1 & _). eauto.
Qed.

Lemma todo_le_cost k s : Inv s -> todo k s + 1 < cost (ws_puts s) + 1.
Proof.
  intros [_ (done & Hs & _ & _) _ _ _ _]. unfold todo, pl. rewrite cost_Qc, Hs, Qc_app.
  pose proof (Qc_firstn (k - ws_ndone s) (held (ws_w s) ++ ws_q s)). lia.
Qed.

Lemma c02_sched_eventually : forall b progs ls s ls2 s',
  wrun (winit b false progs) ls = Some s -> ws_err s = None ->
  wrun s ls2 = Some s' -> forallb accepted_write ls2 = true ->
  cost (lentries b ls) + 3 * notready ls2 <= wsteps ls2 ->
  exists more, ws_wire s' = frames (lentries b ls) ++ more.
Proof.
  intros b progs ls s ls2 s' H E H2 A C.
  pose proof (entries_run _ _ _ H) as P. cbn in P. rewrite <- P in *.
  pose proof (inv_run _ _ _ (inv_init b progs) H) as I.
  pose proof (inv_run _ _ _ I H2) as I'.
  destruct (todo_run (length (ws_puts s)) _ _ _ I E (le_n _) H2 A) as [L|R].
  - destruct (inv_wire_done _ I') as (done & p & Hs & Hl & Hw).
    destruct (puts_run _ _ _ H2) as (more & P2 & _ & _).
    assert (D : done = ws_puts s ++ skipn (length (ws_puts s)) done).
    { rewrite <- (firstn_skipn (length (ws_puts s)) done) at 1. f_equal.
      assert (F : firstn (length (ws_puts s)) (ws_puts s') = ws_puts s).
      { rewrite P2, firstn_app, Nat.sub_diag, firstn_all. cbn. apply app_nil_r. }
      rewrite Hs, firstn_app in F. replace (length (ws_puts s) - length done) with 0 in F by lia.
      cbn in F. rewrite app_nil_r in F. exact F. }
    rewrite Hw, D, frames_app, <- app_assoc. eauto.
  - pose proof (todo_le_cost (length (ws_puts s)) s I). lia.
Qed.

(* ------------------------------------------------------------------ after close(): send refuses *)
Definition not_checked (s : wstate) (t : nat) : Prop :=
  forall x, nth_error (ws_subs s) t = Some x -> sb_pc x <> SChecked.

Lemma closed_step s l s' t : wstep s l = Some s' -> ws_conn s = false -> not_checked s t ->
  ws_conn s' = false /\ not_checked s' t /\ thr_msgs t (ws_puts s') = thr_msgs t (ws_puts s).
Proof.
  intros H C N. destruct l; try (inv_step H; cbn; auto; fail).
  - (* LChk *) inv_step H; cbn; repeat split; auto; intros x X; cbn in X;
    match goal with E : Bool.eqb _ _ = true |- _ => apply Bool.eqb_prop in E; rewrite C in E; try discriminate E end;
    (destruct (Nat.eq_dec t t0) as [->|D];
     [ erewrite nth_error_upd_same in X by eassumption; injection X as <-; cbn; discriminate
     | rewrite nth_error_upd_other in X by exact D; exact (N x X) ]).
  - (* LPut *) inv_step H. proj. destruct (Nat.eq_dec t t0) as [->|D].
    + exfalso. eapply N; [eassumption|reflexivity].
    + repeat split; auto.
      * intros x X. cbn in X. rewrite nth_error_upd_other in X by exact D. exact (N x X).
      * rewrite thr_msgs_app. unfold thr_msgs at 2. cbn [filter map e_thr fst snd e_msg].
        replace (Nat.eqb t0 t) with false by (symmetry; apply Nat.eqb_neq; congruence). cbn. apply app_nil_r.
Qed.

Lemma c02_sched_closed_refuses : forall ls s s' t, wrun s ls = Some s' -> ws_conn s = false -> not_checked s t ->
  of_thread t (map put_of (ws_puts s')) = of_thread t (map put_of (ws_puts s)).
Proof.
  intros ls s s' t. rewrite !of_thread_put_of. revert s s'.
  induction ls as [|l r IH]; cbn [wrun]; intros s s' H C N.
  - injection H as <-. reflexivity.
  - destruct (wstep s l) eqn:E; [|discriminate]. destruct (closed_step _ _ _ t E C N) as (C' & N' & T).
    rewrite (IH _ _ H C' N'). exact T.
Qed.
