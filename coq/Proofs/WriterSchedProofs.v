(* WriterSchedProofs.v — invariants of the submitters/worker transition system of Model/WriterSched.v and the
   statements of Props/C02.v named C02_sched_... (all interleavings, all write answers). *)
From Coq Require Import Lia.
From NC Require Import Model.Base Model.Writer Spec.WireSpec Proofs.BaseFacts Proofs.WriterProofs Model.WriterSched.

Local Open Scope nat_scope.

(* ------------------------------------------------------------------ small facts *)
Lemma base_eqb_eq a b : base_eqb a b = true -> a = b.
Proof. destruct a, b; cbn; congruence. Qed.
Lemma werr_eqb_eq a b : werr_eqb a b = true -> a = b.
Proof. destruct a, b; cbn; intros H; try discriminate; apply beq_eq in H; congruence. Qed.

Lemma nth_error_upd_same {A} (x : A) : forall l t y, nth_error l t = Some y -> nth_error (upd_nth t x l) t = Some x.
Proof. induction l as [|a l IH]; intros [|t] y H; cbn in *; try discriminate; eauto. Qed.
Lemma nth_error_upd_other {A} (x : A) : forall l t t', t' <> t -> nth_error (upd_nth t x l) t' = nth_error l t'.
Proof. induction l as [|a l IH]; intros [|t] [|t'] H; cbn; try reflexivity; try congruence. apply IH. congruence. Qed.

Lemma frames_app a b : frames (a ++ b) = frames a ++ frames b.
Proof. unfold frames. rewrite map_app, concat_app. reflexivity. Qed.
Lemma frames_one e : frames [e] = e_frame e.
Proof. unfold frames. cbn. apply app_nil_r. Qed.

Ltac inv_step H :=
  unfold wstep in H; cbv zeta in H;
  repeat match type of H with
         | context [match ?x with _ => _ end] => destruct x eqn:?; try discriminate
         end;
  try discriminate; injection H as <-.

(* ------------------------------------------------------------------ the invariant *)
Definition held (w : wpc) : list entry :=
  match w with
  | PPend e | PClr e | PBase e | PWr e _ | PRaised e _ | PClosing e | PDone e => [e]
  | _ => []
  end.
Definition failed_pc (w : wpc) : bool :=
  match w with PRaised _ _ | PClosing _ | PDone _ => true | _ => false end.

(* the frame of e is being written: `partial` is on the wire, `u` is what is still to be offered *)
Definition mid (s : wstate) (done : list entry) (e : entry) (u : bytes) : Prop :=
  exists partial, ws_wire s = frames done ++ partial /\ e_frame e = partial ++ u /\ u <> [].

Definition wire_ok (s : wstate) (done : list entry) : Prop :=
  match ws_w s with
  | PWr e data => mid s done e data /\ ws_err s = None
  | PRaised e x => ws_err s = Some x /\ mid s done e (unsent_of_err x)
  | PClosing e | PDone e => exists x, ws_err s = Some x /\ mid s done e (unsent_of_err x)
  | _ => ws_wire s = frames done /\ ws_err s = None
  end.

Record Inv (s : wstate) : Prop := {
  inv_pending : ws_pending s = false;
  inv_split : exists done, ws_puts s = done ++ held (ws_w s) ++ ws_q s /\ length done = ws_ndone s /\ wire_ok s done;
  inv_tags : Forall (fun e => e_tag e = ws_base s) (ws_q s);
  inv_htag : forall e, ws_w s = PPend e \/ ws_w s = PBase e -> e_tag e = ws_base s;
  inv_noclr : forall e, ws_w s <> PClr e;
  inv_ne : ws_w s = PRdy \/ ws_w s = PGet -> ws_q s <> [] }.

Lemma inv_init b progs : Inv (winit b false progs).
Proof.
  constructor; cbn; try tauto; try discriminate.
  - exists []. cbn. auto.
  - constructor.
  - intros e [H|H]; discriminate.
  - intros [H|H]; discriminate.
Qed.

Ltac fin done :=
  try solve [ exists done; cbn; auto ];
  try solve [ intros ? [X|X]; discriminate X ];
  try solve [ intros ? X; discriminate X ];
  try solve [ intros [X|X]; discriminate X ].
Ltac wpc Hw := unfold wire_ok in Hw; match goal with E : ws_w _ = _ |- _ => rewrite E in * end; cbn [held app] in *.

Lemma inv_step s l s' : Inv s -> wstep s l = Some s' -> Inv s'.
Proof.
  intros [Hp (done & Hs & Hl & Hw) Ht Hh Hc Hn] H.
  destruct l.
  - (* LChk *) inv_step H; constructor; cbn; auto; exists done; unfold wire_ok, mid in *; cbn; auto.
  - (* LPut *) inv_step H. match goal with E : beq _ _ = true |- _ => apply beq_eq in E; subst end.
    constructor; cbn; auto.
    + exists done. rewrite Hs, <- !app_assoc. repeat split; auto.
    + apply Forall_app. split; [exact Ht|]. constructor; [reflexivity|constructor].
    + intros X. apply Hn in X. destruct (ws_q s); [congruence|discriminate].
  - (* LSetBase *) inv_step H. constructor; cbn; auto.
    + exists done. rewrite Heql. repeat split; auto.
    + rewrite Heql. constructor.
    + intros e [X|X]; rewrite X in *; discriminate.
    + intros X. exfalso. apply (Hn X). reflexivity.
  - (* LEmpty *) inv_step H; wpc Hw; constructor; cbn; auto; fin done.
    intros _ X. rewrite X in *. discriminate.
  - (* LReady *) inv_step H; wpc Hw; constructor; cbn; auto; fin done.
  - (* LGet *) inv_step H; wpc Hw; constructor; cbn; auto; fin done.
    + inversion Ht; auto.
    + intros e0 [X|X]; inversion X; subst. inversion Ht; auto.
  - (* LPendRd *) inv_step H; wpc Hw;
    match goal with E : Bool.eqb _ _ = true |- _ => apply Bool.eqb_prop in E; rewrite Hp in E; try discriminate E end.
    constructor; cbn; auto; fin done.
    intros e0 [X|X]; inversion X; subst. apply Hh. auto.
  - (* LPendClr *) inv_step H. exfalso. eapply Hc. reflexivity.
  - (* LBaseRd *) inv_step H; wpc Hw.
    match goal with E : base_eqb _ _ = true |- _ => apply base_eqb_eq in E; subst b end.
    constructor; cbn; auto; fin done.
    destruct Hw as [Hw He]. exists done. repeat split; auto.
    exists []. cbn. rewrite app_nil_r. repeat split; auto.
    + unfold e_frame. rewrite (Hh e); auto.
    + apply frame_nonempty.
  - (* LWrite *) inv_step H; wpc Hw; destruct Hw as [(partial & Hw1 & Hw2 & Hw3) He];
    unfold wfail; constructor; cbn; auto; fin done.
    all: try solve [ exists done; repeat split; auto; exists partial; cbn; auto ].
    + (* the frame is complete *)
      match goal with E : skipn _ data = [] |- _ => rename E into Hk end.
      assert (Hd : firstn (N.to_nat n) data = data).
      { rewrite <- (firstn_skipn (N.to_nat n) data) at 2. rewrite Hk. symmetry. apply app_nil_r. }
      exists (done ++ [e]). rewrite Hd, <- app_assoc. cbn. repeat split; auto.
      * rewrite app_length. cbn. lia.
      * rewrite frames_app, frames_one, Hw1, Hw2, <- app_assoc. reflexivity.
    + (* a short write: the unsent tail is offered next *)
      match goal with E : skipn _ data = _ :: _ |- _ => rename E into Hk end.
      exists done. repeat split; auto. exists (partial ++ firstn (N.to_nat n) data). cbn. repeat split.
      * rewrite Hw1, app_assoc. reflexivity.
      * rewrite <- Hk, <- app_assoc, firstn_skipn. exact Hw2.
      * discriminate.
  - (* LSelect *) inv_step H; wpc Hw; constructor; cbn; auto; fin done.
  - (* LDispErr *) inv_step H; wpc Hw; constructor; cbn; auto; fin done.
    match goal with E : werr_eqb _ _ = true |- _ => apply werr_eqb_eq in E; subst end.
    exists done. cbn. repeat split; auto. unfold wire_ok, mid in *. cbn. destruct Hw as [He Hm]. eauto.
  - (* LClose *) inv_step H; wpc Hw; constructor; cbn; auto; fin done.
Qed.
