From Coq Require Import Lia.
From NC Require Import Model.Base Model.XTree Model.XmlHelpers Model.XmlHistory Proofs.BaseFacts.

(* XmlHistoryProofs.v - C17: histories of helper calls on one caller-owned tree.
   Observers (to_xml, to_ele, validated_element) leave the tree as it is, so a history can be read
   without them; what any call returns depends on the documented in-place edits before it only;
   an in-place edit changes the element it is given and nothing beside it. *)

(* ---------- lxml child indexing ---------- *)
Lemma lx_nth_not_text : forall l i x, lx_nth i l = Some x -> is_text x = false.
Proof.
  induction l as [|a l IH]; intros i x H; cbn [lx_nth] in H; [discriminate|].
  destruct (is_text a) eqn:Ha.
  - exact (IH _ _ H).
  - destruct i as [|j]; [injection H as <-; exact Ha|exact (IH _ _ H)].
Qed.

(* only that child changes: what stands before it and after it (its tail, its siblings) stays *)
Lemma lx_update_nth_local : forall l i f l',
  lx_update_nth i f l = Some l' ->
  exists l1 x y l2, l = l1 ++ x :: l2 /\ l' = l1 ++ y :: l2 /\ f x = Some y /\ lx_nth i l = Some x.
Proof.
  induction l as [|a l IH]; intros i f l' H; cbn [lx_update_nth] in H; [discriminate|].
  cbn [lx_nth]. destruct (is_text a) eqn:Ha.
  - destruct (lx_update_nth i f l) as [r|] eqn:E; cbn [option_map] in H; [|discriminate].
    injection H as <-. destruct (IH _ _ _ E) as (l1 & x & y & l2 & -> & -> & Hf & Hn).
    exists (a :: l1), x, y, l2. repeat split; auto.
  - destruct i as [|j].
    + destruct (f a) as [y|] eqn:Fa; cbn [option_map] in H; [|discriminate].
      injection H as <-. exists [], a, y, l. repeat split; auto.
    + destruct (lx_update_nth j f l) as [r|] eqn:E; cbn [option_map] in H; [|discriminate].
      injection H as <-. destruct (IH _ _ _ E) as (l1 & x & y & l2 & -> & -> & Hf & Hn).
      exists (a :: l1), x, y, l2. repeat split; auto.
Qed.

Lemma lx_update_nth_spec : forall l i f l',
  lx_update_nth i f l = Some l' ->
  (forall x y, f x = Some y -> is_text y = is_text x) ->
  exists x y, lx_nth i l = Some x /\ f x = Some y /\ lx_nth i l' = Some y /\
              (forall j, j <> i -> lx_nth j l' = lx_nth j l).
Proof.
  induction l as [|a l IH]; intros i f l' H Hk; cbn [lx_update_nth] in H; [discriminate|].
  cbn [lx_nth]. destruct (is_text a) eqn:Ha.
  - destruct (lx_update_nth i f l) as [r|] eqn:E; cbn [option_map] in H; [|discriminate].
    injection H as <-. destruct (IH _ _ _ E Hk) as (x & y & H1 & H2 & H3 & H4).
    exists x, y. cbn [lx_nth]. rewrite Ha. repeat split; auto.
  - destruct i as [|j].
    + destruct (f a) as [y|] eqn:Fa; cbn [option_map] in H; [|discriminate].
      injection H as <-. exists a, y. cbn [lx_nth].
      assert (Hy : is_text y = false) by (rewrite (Hk _ _ Fa); exact Ha). rewrite Hy.
      repeat split; auto. intros [|j'] Hne; [congruence|reflexivity].
    + destruct (lx_update_nth j f l) as [r|] eqn:E; cbn [option_map] in H; [|discriminate].
      injection H as <-. destruct (IH _ _ _ E Hk) as (x & y & H1 & H2 & H3 & H4).
      exists x, y. cbn [lx_nth]. rewrite Ha. repeat split; auto.
      intros [|j'] Hne; [reflexivity|]. apply H4. congruence.
Qed.

(* ---------- in-place edits at a path ---------- *)
Definition keeps_kind (f : list decl -> mnode -> option mnode) : Prop :=
  forall sc s s', f sc s = Some s' -> is_text s' = is_text s.

Lemma lx_update_at_keeps_kind : forall p f, keeps_kind f -> keeps_kind (lx_update_at p f).
Proof.
  intros [|i p] f Hk sc s s' H; cbn [lx_update_at] in H; [exact (Hk _ _ _ H)|].
  destruct s as [n pf ds a k| | |]; try discriminate.
  destruct (lx_update_nth i (lx_update_at p f (ds ++ sc)) k); [|discriminate].
  injection H as <-. reflexivity.
Qed.

(* the element found at the path is edited, and found there afterwards *)
Lemma lx_update_at_same : forall p f sc t t',
  keeps_kind f -> lx_update_at p f sc t = Some t' ->
  exists s sc' s', lx_get_at p t = Some s /\ f sc' s = Some s' /\ lx_get_at p t' = Some s'.
Proof.
  induction p as [|i p IH]; intros f sc t t' Hk H; cbn [lx_update_at] in H.
  - exists t, sc, t'. cbn [lx_get_at]. auto.
  - destruct t as [n pf ds a k| | |]; try discriminate.
    destruct (lx_update_nth i (lx_update_at p f (ds ++ sc)) k) as [k'|] eqn:E; [|discriminate].
    injection H as <-.
    destruct (lx_update_nth_spec _ _ _ _ E) as (x & y & H1 & H2 & H3 & _).
    { intros x y Hxy. exact (lx_update_at_keeps_kind p f Hk _ _ _ Hxy). }
    destruct (IH _ _ _ _ Hk H2) as (s & sc' & s' & G1 & G2 & G3).
    exists s, sc', s'. cbn [lx_get_at]. rewrite H1, H3. auto.
Qed.

(* nothing beside the element that was handed over changes: every element whose path parts ways with
   the edited one is the same afterwards - with all its text, tails, attributes and declarations *)
Lemma lx_update_at_frame : forall p q f sc t t',
  keeps_kind f -> lx_update_at p f sc t = Some t' -> diverge p q = true ->
  lx_get_at q t' = lx_get_at q t.
Proof.
  induction p as [|i p IH]; intros q f sc t t' Hk H Hd; cbn [diverge] in Hd; [discriminate|].
  destruct q as [|j q]; [discriminate|].
  cbn [lx_update_at] in H. destruct t as [n pf ds a k| | |]; try discriminate.
  destruct (lx_update_nth i (lx_update_at p f (ds ++ sc)) k) as [k'|] eqn:E; [|discriminate].
  injection H as <-.
  destruct (lx_update_nth_spec _ _ _ _ E) as (x & y & H1 & H2 & H3 & H4).
  { intros x y Hxy. exact (lx_update_at_keeps_kind p f Hk _ _ _ Hxy). }
  cbn [lx_get_at]. destruct (Nat.eqb i j) eqn:Eij.
  - apply PeanoNat.Nat.eqb_eq in Eij. subst j. rewrite H1, H3. exact (IH _ _ _ _ _ Hk H2 Hd).
  - apply PeanoNat.Nat.eqb_neq in Eij. rewrite (H4 j); [reflexivity|congruence].
Qed.

(* on the way down every ancestor keeps its name, binding, declarations and attributes, and its
   children list changes in the one child on the path only *)
Lemma lx_update_at_ancestor : forall i p f sc n pf ds a k t',
  lx_update_at (i :: p) f sc (ME n pf ds a k) = Some t' ->
  exists l1 x y l2, k = l1 ++ x :: l2 /\ t' = ME n pf ds a (l1 ++ y :: l2) /\
                    lx_update_at p f (ds ++ sc) x = Some y /\ lx_nth i k = Some x.
Proof.
  intros i p f sc n pf ds a k t' H. cbn [lx_update_at] in H.
  destruct (lx_update_nth i (lx_update_at p f (ds ++ sc)) k) as [k'|] eqn:E; [|discriminate].
  injection H as <-.
  destruct (lx_update_nth_local _ _ _ _ E) as (l1 & x & y & l2 & -> & -> & Hf & Hn).
  exists l1, x, y, l2. auto.
Qed.

(* ---------- the helpers ---------- *)
Lemma is_text_replace_ns o n s : is_text (replace_ns o n s) = is_text s.
Proof. destruct s; reflexivity. Qed.

Lemma keeps_kind_mutation : forall op f, mutation op = Some f -> keeps_kind f.
Proof.
  intros op f H sc s s' Hs. destruct op; cbn [mutation] in H; try discriminate; injection H as <-.
  - unfold f_replace in Hs. injection Hs as <-. apply is_text_replace_ns.
  - unfold f_sub_ele, sub_ele_node, append_child in Hs. destruct s; try discriminate. injection Hs as <-. reflexivity.
  - unfold f_sub_ele_ns, sub_ele_ns_node, append_child in Hs. destruct s; try discriminate. injection Hs as <-. reflexivity.
Qed.

Lemma mutation_observer op : mutation op = None <-> is_observer op = true.
Proof. destruct op; cbn; split; intro H; try reflexivity; discriminate. Qed.

Section WithSerialiser.
Variable ser : mnode -> bytes -> bytes.

(* (1) an observer returns the caller's tree as it was *)
Lemma c17_observer_frame : forall t op t' o,
  is_observer op = true -> hstep ser t op = Some (t', o) -> t' = t.
Proof.
  intros t op t' o Ho H. apply mutation_observer in Ho. unfold hstep in H. rewrite Ho in H.
  destruct (lx_get_at (hop_path op) t); [|discriminate]. injection H as <- _. reflexivity.
Qed.

(* ... and reports on the element it was given: the node at the path, which never includes the
   text that follows it in its parent *)
Lemma c17_observer_result : forall t op t' o,
  is_observer op = true -> hstep ser t op = Some (t', o) ->
  exists s, lx_get_at (hop_path op) t = Some s /\ o = observe ser op s.
Proof.
  intros t op t' o Ho H. apply mutation_observer in Ho. unfold hstep in H. rewrite Ho in H.
  destruct (lx_get_at (hop_path op) t) as [s|]; [|discriminate]. injection H as _ <-. exists s. auto.
Qed.

(* (2) a history ends in the tree its in-place edits alone produce *)
Lemma c17_history_erase : forall ops t t' os,
  hrun ser t ops = Some (t', os) -> exists os', hrun ser t (mutators ops) = Some (t', os').
Proof.
  induction ops as [|op r IH]; intros t t' os H; cbn [hrun] in H.
  - injection H as <- <-. exists []. reflexivity.
  - destruct (hstep ser t op) as [[t1 o]|] eqn:S1; [|discriminate].
    destruct (hrun ser t1 r) as [[t2 os2]|] eqn:R; [|discriminate].
    injection H as <- <-. destruct (IH _ _ _ R) as (os' & Hos').
    unfold mutators. cbn [filter]. destruct (is_observer op) eqn:Ho; cbn [negb].
    + rewrite <- (c17_observer_frame _ _ _ _ Ho S1). exists os'. exact Hos'.
    + exists (o :: os'). cbn [hrun]. rewrite S1. fold (mutators r). rewrite Hos'. reflexivity.
Qed.

(* (3) what any call returns - and the tree it leaves - is what it returns after the in-place edits
   that precede it, whatever was looked at in between and in whatever order *)
Lemma c17_result_after_mutators : forall ops1 op ops2 t t' os,
  hrun ser t (ops1 ++ op :: ops2) = Some (t', os) ->
  exists t1 os1 t2 o, hrun ser t (mutators ops1) = Some (t1, os1) /\
                      hstep ser t1 op = Some (t2, o) /\ nth_error os (length ops1) = Some o.
Proof.
  induction ops1 as [|a ops1 IH]; intros op ops2 t t' os H.
  - cbn [app hrun] in H. destruct (hstep ser t op) as [[t2 o]|] eqn:S1; [|discriminate].
    destruct (hrun ser t2 ops2) as [[t3 os3]|]; [|discriminate]. injection H as <- <-.
    exists t, [], t2, o. auto.
  - cbn [app hrun] in H. destruct (hstep ser t a) as [[ta oa]|] eqn:Sa; [|discriminate].
    destruct (hrun ser ta (ops1 ++ op :: ops2)) as [[tb osb]|] eqn:R; [|discriminate].
    injection H as <- <-. destruct (IH _ _ _ _ _ R) as (t1 & os1 & t2 & o & G1 & G2 & G3).
    unfold mutators. cbn [filter length nth_error]. destruct (is_observer a) eqn:Ho; cbn [negb].
    + rewrite <- (c17_observer_frame _ _ _ _ Ho Sa). exists t1, os1, t2, o. auto.
    + exists t1, (oa :: os1), t2, o. cbn [hrun]. rewrite Sa. fold (mutators ops1). rewrite G1. auto.
Qed.

(* (4) a history of observers: the tree is untouched and every result is the one the same call gives
   on the untouched tree alone, so no result depends on the order of the calls *)
Lemma c17_pure_history : forall ops t t' os,
  Forall (fun op => is_observer op = true) ops -> hrun ser t ops = Some (t', os) ->
  t' = t /\ Forall2 (fun op o => hstep ser t op = Some (t, o)) ops os.
Proof.
  induction ops as [|op r IH]; intros t t' os Hall H; cbn [hrun] in H.
  - injection H as <- <-. auto.
  - destruct (hstep ser t op) as [[t1 o]|] eqn:S1; [|discriminate].
    destruct (hrun ser t1 r) as [[t2 os2]|] eqn:R; [|discriminate]. injection H as <- <-.
    inversion Hall as [|? ? Ho Hr]; subst.
    pose proof (c17_observer_frame _ _ _ _ Ho S1) as ->.
    destruct (IH _ _ _ Hr R) as (-> & HF). split; [reflexivity|]. constructor; assumption.
Qed.

(* (5) any call leaves every element beside the one it was given as it was *)
Lemma c17_step_frame : forall t op t' o q,
  hstep ser t op = Some (t', o) -> diverge (hop_path op) q = true -> lx_get_at q t' = lx_get_at q t.
Proof.
  intros t op t' o q H Hd. unfold hstep in H. destruct (mutation op) as [f|] eqn:Hm.
  - destruct (lx_update_at (hop_path op) f [] t) as [t1|] eqn:U; [|discriminate]. injection H as <- _.
    exact (lx_update_at_frame _ _ _ _ _ _ (keeps_kind_mutation _ _ Hm) U Hd).
  - destruct (lx_get_at (hop_path op) t); [|discriminate]. injection H as <- _. reflexivity.
Qed.

(* (6) replace_namespace on an element of the tree = replace_ns of that element, in its place *)
Lemma c17_replace_at : forall t p o n t' x,
  hstep ser t (HReplace p o n) = Some (t', x) ->
  exists s, lx_get_at p t = Some s /\ lx_get_at p t' = Some (replace_ns o n s).
Proof.
  intros t p o n t' x H. unfold hstep in H. cbn [mutation hop_path] in H.
  destruct (lx_update_at p (f_replace o n) [] t) as [t1|] eqn:U; [|discriminate]. injection H as <- _.
  destruct (lx_update_at_same _ _ _ _ _ (keeps_kind_mutation (HReplace p o n) _ eq_refl) U) as (s & sc' & s' & G1 & G2 & G3).
  unfold f_replace in G2. injection G2 as <-. exists s. auto.
Qed.

(* (7) sub_ele / sub_ele_ns on an element of the tree: the element keeps everything it had and gets
   one new last child without children *)
Lemma c17_sub_ele_at : forall t p tag a t' x,
  hstep ser t (HSubEle p tag a) = Some (t', x) ->
  exists n pf ds atts k sc,
    lx_get_at p t = Some (ME n pf ds atts k) /\
    lx_get_at p t' = Some (ME n pf ds atts (k ++ [mk_elem (ds ++ sc) [] (parent_ns (ME n pf ds atts k)) tag a])).
Proof.
  intros t p tag a t' x H. unfold hstep in H. cbn [mutation hop_path] in H.
  destruct (lx_update_at p (f_sub_ele tag a) [] t) as [t1|] eqn:U; [|discriminate]. injection H as <- _.
  destruct (lx_update_at_same _ _ _ _ _ (keeps_kind_mutation (HSubEle p tag a) _ eq_refl) U) as (s & sc' & s' & G1 & G2 & G3).
  unfold f_sub_ele, sub_ele_node, append_child in G2. destruct s as [n pf ds atts k| | |]; try discriminate.
  injection G2 as <-. exists n, pf, ds, atts, k, sc'. auto.
Qed.

Lemma c17_sub_ele_ns_at : forall t p tag u a t' x,
  hstep ser t (HSubEleNs p tag u a) = Some (t', x) ->
  exists n pf ds atts k sc,
    lx_get_at p t = Some (ME n pf ds atts k) /\
    lx_get_at p t' = Some (ME n pf ds atts (k ++ [mk_elem (ds ++ sc) [] u tag a])).
Proof.
  intros t p tag u a t' x H. unfold hstep in H. cbn [mutation hop_path] in H.
  destruct (lx_update_at p (f_sub_ele_ns tag u a) [] t) as [t1|] eqn:U; [|discriminate]. injection H as <- _.
  destruct (lx_update_at_same _ _ _ _ _ (keeps_kind_mutation (HSubEleNs p tag u a) _ eq_refl) U) as (s & sc' & s' & G1 & G2 & G3).
  unfold f_sub_ele_ns, sub_ele_ns_node, append_child in G2. destruct s as [n pf ds atts k| | |]; try discriminate.
  injection G2 as <-. exists n, pf, ds, atts, k, sc'. auto.
Qed.

(* htrace is hrun told step by step *)
Lemma last_default_irrelevant {A} : forall (l : list A) a d d', last (a :: l) d = last (a :: l) d'.
Proof. induction l as [|b l IH]; intros a d d'; [reflexivity|]. cbn [last] in *. apply IH. Qed.

Lemma c17_trace_run : forall ops t t' os,
  hrun ser t ops = Some (t', os) ->
  map snd (htrace ser t ops) = os /\ last (map fst (htrace ser t ops)) t = t'.
Proof.
  induction ops as [|op r IH]; intros t t' os H; cbn [hrun] in H.
  - injection H as <- <-. auto.
  - destruct (hstep ser t op) as [[t1 o]|] eqn:S1; [|discriminate].
    destruct (hrun ser t1 r) as [[t2 os2]|] eqn:R; [|discriminate]. injection H as <- <-.
    cbn [htrace]. rewrite S1. cbn [map fst snd]. destruct (IH _ _ _ R) as (E1 & E2). rewrite E1. split; [reflexivity|].
    destruct (htrace ser t1 r) as [|h tl] eqn:HT; [cbn [map last] in *; exact E2|].
    cbn [map] in *. rewrite <- E2. cbn [last]. apply last_default_irrelevant.
Qed.
End WithSerialiser.
