(* JunosSaxProofs.v — the SAX instance of the driver meets the two conditions of the segmentation theorem:
   the handler's _root, once set, stays set; a new handler has none. *)
From NC Require Import Model.Base Model.Utf8 Model.Framing10 Model.SaxFilter Model.JunosParse Model.JunosSax.
From NC Require Import Proofs.JunosParseProofs.

Definition has_root (s : SaxFilter.st) : Prop := roottag s <> None.

Ltac dm H := match type of H with context [match ?t with _ => _ end] => let E := fresh "E" in destruct t eqn:E end.

Lemma start_root e s tag a s' o : start e s tag a = Done s' o -> has_root s -> has_root s'.
Proof.
  unfold start, has_root. intros H R.
  match type of H with context [match ?t with inl _ => _ | inr _ => _ end] => destruct t as [s1|x] eqn:E1 end;
    [|discriminate H].
  assert (roottag s1 <> None) as R1.
  { repeat (dm E1; try discriminate E1); injection E1 as <-; cbn; congruence. }
  clear E1. repeat (dm H; try discriminate H); try (injection H as <- _); cbn; congruence.
Qed.

Lemma step_root e s ev s' o : step e s ev = Done s' o -> has_root s -> has_root s'.
Proof.
  destruct ev as [n a|n|c]; cbn [step].
  - apply start_root.
  - unfold endel, has_root. intros H R. repeat (dm H; try discriminate H); injection H as <- _; cbn; exact R.
  - unfold chars, has_root. intros H R. dm H; injection H as <- _; exact R.
Qed.

Lemma exec_root e : forall evs s o s', exec e s evs = (o, Fin s') -> has_root s -> has_root s'.
Proof.
  induction evs as [|ev evs IH]; intros s o s' H R; cbn [exec] in H.
  - injection H as _ <-. exact R.
  - destruct (step e s ev) as [s1 o1|x o1] eqn:E; [|discriminate].
    destruct (exec e s1 evs) as [o2 oc] eqn:E2. injection H as _ ->. eapply IH; eauto. eapply step_root; eauto.
Qed.

Lemma sx_mono : forall w x c x' o, sx_step w x c = XOk x' o -> sx_rooted x = true -> sx_rooted x' = true.
Proof.
  intros w [scr hs] c x' o H R. unfold sx_step in H. cbn [fst snd] in H.
  destruct scr as [|[evs|] scr']; try discriminate.
  destruct (exec _ hs evs) as [o1 [hs'|ex]] eqn:E.
  - injection H as <- _. unfold sx_rooted in *. cbn [snd] in *.
    assert (has_root hs) as HR by (unfold has_root; destruct (roottag hs); [discriminate|discriminate R]).
    pose proof (exec_root _ _ _ _ _ E HR) as HR'. unfold has_root in HR'. destruct (roottag hs'); [reflexivity|congruence].
  - destruct ex; discriminate.
Qed.

Lemma sx_new_unrooted : forall w, sx_rooted (sx_new w) = false.
Proof. reflexivity. Qed.

Lemma c18_segmentation_independent_sax : forall s stream cuts, sx_run s (segments stream cuts) = sx_run s [stream].
Proof. intros. apply c18_segmentation_independent; [exact sx_mono | exact sx_new_unrooted]. Qed.

Lemma c18_delimiter_never_parsed_sax : forall w reads, reads <> [] ->
  cov (rev (fed (sx_run (sx_init w) reads))) (frames (concat reads)).
Proof. intros. apply c18_delimiter_never_parsed; [exact sx_mono | exact sx_new_unrooted | assumption]. Qed.
