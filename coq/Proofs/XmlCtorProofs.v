From NC Require Import Model.Base Model.XTree Model.XmlHelpers Spec.XmlHelpersSpec Proofs.BaseFacts.
From NC Require Import Proofs.XmlReplaceProofs.

(* XmlCtorProofs.v - C17: new_ele / new_ele_ns / sub_ele / sub_ele_ns build, on the
   namespace-resolved view, exactly the element the specification names, and keep the
   binding invariant wfb. *)

(* ---------- (f) default namespace of a scope ---------- *)
Lemma own_default_app ds sc :
  own_default (ds ++ sc) =
  match own_default ds with Some x => Some x | None => own_default sc end.
Proof.
  induction ds as [|[[|] u] ds IH]; cbn [app own_default].
  - reflexivity.
  - exact IH.
  - reflexivity.
Qed.

Lemma scope_default_app : forall ds sc,
  scope_default (ds ++ sc) = eff_default (scope_default sc) ds.
Proof.
  intros ds sc. unfold scope_default, eff_default. rewrite own_default_app.
  destruct (own_default ds); reflexivity.
Qed.

(* ---------- (g) attribute bindings are prefixed ---------- *)
Lemma bind_attrs_prefixed : forall sc a d, In d (bind_attrs sc a) -> fst d = true.
Proof.
  intros sc a. revert sc.
  induction a as [|[[[u|] l] v] a IH]; intros sc d Hin; cbn [bind_attrs] in Hin.
  - destruct Hin.
  - destruct (has_prefix_for sc u).
    + apply (IH sc d Hin).
    + destruct Hin as [<-|Hin]; [reflexivity|]. apply (IH _ d Hin).
  - apply (IH sc d Hin).
Qed.

Lemma own_default_prefixed l1 l2 :
  (forall e, In e l1 -> fst e = true) -> own_default (l1 ++ l2) = own_default l2.
Proof.
  induction l1 as [|[b u] l1 IH]; intros Hall; cbn [app]; [reflexivity|].
  assert (Hb : b = true) by (apply (Hall (b, u)); left; reflexivity).
  subst b. cbn [own_default]. apply IH. intros e He. apply Hall. right. exact He.
Qed.

Lemma own_default_prefixed_nil l :
  (forall e, In e l -> fst e = true) -> own_default l = None.
Proof.
  intros Hall. rewrite <- (app_nil_r l). rewrite (own_default_prefixed l [] Hall). reflexivity.
Qed.

Lemma own_default_bind_attrs sc a : own_default (bind_attrs sc a) = None.
Proof. apply own_default_prefixed_nil. apply bind_attrs_prefixed. Qed.

Lemma eff_default_prefixed d l :
  (forall e, In e l -> fst e = true) -> eff_default d l = d.
Proof.
  intros Hall. unfold eff_default. rewrite (own_default_prefixed_nil l Hall). reflexivity.
Qed.

(* ---------- (h) an element bound through the default namespace ---------- *)
Lemma first_binding_seen sc u : first_binding sc u true <> Some false.
Proof.
  induction sc as [|[[|] v] sc IH]; cbn [first_binding].
  - discriminate.
  - destruct (beq v u); [discriminate|exact IH].
  - exact IH.
Qed.

Lemma first_binding_default : forall sc u,
  u <> [] -> first_binding sc u false = Some false -> scope_default sc = Some u.
Proof.
  intros sc u Hu. induction sc as [|[[|] v] sc IH]; cbn [first_binding]; intros H.
  - discriminate H.
  - destruct (beq v u); [discriminate H|].
    unfold scope_default in *. cbn [own_default]. apply IH. exact H.
  - destruct (beq v u) eqn:E.
    + apply beq_eq in E. subst v. unfold scope_default. cbn [own_default].
      destruct u as [|c u]; [contradiction|reflexivity].
    + exfalso. apply (first_binding_seen sc u). exact H.
Qed.

(* ---------- the element made by mk_elem ---------- *)
Lemma mk_elem_resolve_None sc d tag a :
  resolve d (mk_elem sc [] None tag a) = Elem (d, tag) (attrs_of_dict a []) [] /\
  wfb d (mk_elem sc [] None tag a) = true.
Proof.
  unfold mk_elem. cbn [app resolve wfb map forallb negb andb].
  rewrite (eff_default_prefixed d _ (bind_attrs_prefixed sc (attrs_of_dict a []))).
  split; reflexivity.
Qed.

Lemma mk_elem_resolve_Some sc d x tag a :
  x <> [] -> scope_default sc = d ->
  resolve d (mk_elem sc [] (Some x) tag a) = Elem (Some x, tag) (attrs_of_dict a []) [] /\
  wfb d (mk_elem sc [] (Some x) tag a) = true.
Proof.
  intros Hx Hd. unfold mk_elem, bind_elem. cbn [app].
  assert (Hxb : beq x [] = false) by (apply beq_neq; exact Hx).
  destruct (first_binding sc x false) as [pf|] eqn:E.
  - cbn [app resolve wfb map forallb].
    rewrite (eff_default_prefixed d _ (bind_attrs_prefixed sc (attrs_of_dict a []))).
    split; [reflexivity|].
    rewrite Hxb. cbn [negb andb]. rewrite andb_true_r.
    destruct pf; [reflexivity|]. cbn [orb].
    apply (first_binding_default sc x Hx) in E. rewrite <- Hd, E. apply ns_eqb_refl.
  - cbn [app resolve wfb map forallb].
    split; [reflexivity|].
    rewrite Hxb. reflexivity.
Qed.

(* ---------- (i) node level ---------- *)
Lemma forallb_snoc {A} (f : A -> bool) l x :
  forallb f (l ++ [x]) = forallb f l && f x.
Proof.
  induction l as [|y l IH]; cbn [app forallb].
  - now rewrite andb_true_r.
  - rewrite IH. now rewrite andb_assoc.
Qed.

Lemma snoc_eq {A} (l : list A) x y : x = y -> l ++ [x] = l ++ [y].
Proof. intros ->. reflexivity. Qed.

Lemma sub_ele_node_resolve : forall sc d tag a p p',
  scope_default sc = d -> wfb d p = true -> sub_ele_node sc tag a p = Some p' ->
  x_sub_ele tag a (resolve d p) = Some (resolve d p') /\ wfb d p' = true.
Proof.
  intros sc d tag a p p' Hd Hw Hs.
  destruct p as [[u l] pf ds atts k|s|s|x y]; try discriminate Hs.
  unfold sub_ele_node, append_child in Hs. injection Hs as <-.
  assert (Hd' : scope_default (ds ++ sc) = eff_default d ds)
    by (rewrite scope_default_app, Hd; reflexivity).
  cbn [wfb] in Hw. apply andb_true_iff in Hw. destruct Hw as [Hu Hk].
  cbn [resolve x_sub_ele wfb fst parent_ns].
  rewrite map_app, forallb_snoc. cbn [map]. rewrite Hk, Hu. cbn [andb].
  destruct pf.
  - destruct u as [x|]; [|discriminate Hu].
    apply andb_true_iff in Hu. destruct Hu as [Hx _].
    apply negb_true_iff in Hx. apply beq_neq in Hx.
    destruct (mk_elem_resolve_Some (ds ++ sc) (eff_default d ds) x tag a Hx Hd') as [Hr Hwc].
    split; [|exact Hwc]. f_equal. f_equal. apply snoc_eq. symmetry. exact Hr.
  - destruct (mk_elem_resolve_None (ds ++ sc) (eff_default d ds) tag a) as [Hr Hwc].
    split; [|exact Hwc]. f_equal. f_equal. apply snoc_eq.
    etransitivity; [|symmetry; exact Hr].
    destruct u as [x|]; [|reflexivity].
    apply andb_true_iff in Hu. destruct Hu as [_ Hu]. cbn [orb] in Hu.
    apply ns_eqb_eq in Hu. f_equal. f_equal. exact Hu.
Qed.

Lemma sub_ele_ns_node_resolve : forall sc d tag u a p p',
  scope_default sc = d -> wfb d p = true -> u <> [] ->
  sub_ele_ns_node sc tag (Some u) a p = Some p' ->
  x_sub_ele_ns tag u a (resolve d p) = Some (resolve d p') /\ wfb d p' = true.
Proof.
  intros sc d tag u a p p' Hd Hw Hne Hs.
  destruct p as [[u0 l] pf ds atts k|s|s|x y]; try discriminate Hs.
  unfold sub_ele_ns_node, append_child in Hs. injection Hs as <-.
  assert (Hd' : scope_default (ds ++ sc) = eff_default d ds)
    by (rewrite scope_default_app, Hd; reflexivity).
  cbn [wfb] in Hw. apply andb_true_iff in Hw. destruct Hw as [Hu Hk].
  cbn [resolve x_sub_ele_ns wfb fst].
  rewrite map_app, forallb_snoc. cbn [map]. rewrite Hk, Hu. cbn [andb].
  destruct (mk_elem_resolve_Some (ds ++ sc) (eff_default d ds) u tag a Hne Hd') as [Hr Hwc].
  split; [|exact Hwc]. f_equal. f_equal. apply snoc_eq. symmetry. exact Hr.
Qed.

(* ---------- (j) lifting along a path ---------- *)
Lemma update_nth_map (F : mnode -> option mnode) (G : xnode -> option xnode)
      (r : mnode -> xnode) (w : mnode -> bool) :
  (forall c c', w c = true -> F c = Some c' -> G (r c) = Some (r c') /\ w c' = true) ->
  forall i k k', forallb w k = true -> update_nth i F k = Some k' ->
  update_nth i G (map r k) = Some (map r k') /\ forallb w k' = true.
Proof.
  intros HFG i k. revert i.
  induction k as [|c k IH]; intros i k' Hw Hup.
  - destruct i; discriminate Hup.
  - cbn [forallb] in Hw. apply andb_true_iff in Hw. destruct Hw as [Hc Hk].
    destruct i as [|j]; cbn [update_nth map] in Hup |- *.
    + destruct (F c) as [c'|] eqn:EF; [|discriminate Hup]. injection Hup as <-.
      destruct (HFG c c' Hc EF) as [HG Hc'].
      rewrite HG. cbn [map forallb]. rewrite Hc', Hk. split; reflexivity.
    + destruct (update_nth j F k) as [r0|] eqn:EU; [|discriminate Hup]. injection Hup as <-.
      destruct (IH j r0 Hk EU) as [HG Hr0].
      rewrite HG. cbn [map forallb]. rewrite Hc, Hr0. split; reflexivity.
Qed.

Lemma update_at_resolve :
  forall (f : list decl -> mnode -> option mnode) (g : xnode -> option xnode),
  (forall sc d p p', scope_default sc = d -> wfb d p = true -> f sc p = Some p' ->
     g (resolve d p) = Some (resolve d p') /\ wfb d p' = true) ->
  forall path sc d t t', scope_default sc = d -> wfb d t = true ->
    update_at path f sc t = Some t' ->
    xupdate_at path g (resolve d t) = Some (resolve d t') /\ wfb d t' = true.
Proof.
  intros f g Hfg path.
  induction path as [|i path IH]; intros sc d t t' Hd Hw Hup.
  - cbn [update_at xupdate_at] in Hup |- *. apply (Hfg sc d t t' Hd Hw Hup).
  - destruct t as [[u l] pf ds a k|s|s|x y]; cbn [update_at] in Hup; try discriminate Hup.
    destruct (update_nth i (update_at path f (ds ++ sc)) k) as [k'|] eqn:EU; [|discriminate Hup].
    injection Hup as <-.
    assert (Hd' : scope_default (ds ++ sc) = eff_default d ds)
      by (rewrite scope_default_app, Hd; reflexivity).
    cbn [wfb] in Hw. apply andb_true_iff in Hw. destruct Hw as [Hu Hk].
    destruct (update_nth_map (update_at path f (ds ++ sc)) (xupdate_at path g)
                (resolve (eff_default d ds)) (wfb (eff_default d ds))
                (fun c c' Hc Hcu => IH (ds ++ sc) (eff_default d ds) c c' Hd' Hc Hcu)
                i k k' Hk EU) as [HG Hk'].
    cbn [resolve xupdate_at wfb]. rewrite HG, Hu, Hk'. split; reflexivity.
Qed.

(* ---------- (k) the constructors ---------- *)
Lemma c17_ctor_sub_ele : forall path tag a t t',
  wfb None t = true -> sub_ele_at path tag a t = Some t' ->
  xupdate_at path (x_sub_ele tag a) (resolve None t) = Some (resolve None t') /\
  wfb None t' = true.
Proof.
  intros path tag a t t' Hw Hs. unfold sub_ele_at in Hs.
  apply (update_at_resolve (fun sc => sub_ele_node sc tag a) (x_sub_ele tag a)
           (fun sc d p p' => sub_ele_node_resolve sc d tag a p p')
           path [] None t t' eq_refl Hw Hs).
Qed.

Lemma c17_ctor_sub_ele_ns : forall path tag u a t t',
  wfb None t = true -> u <> [] -> sub_ele_ns_at path tag (Some u) a t = Some t' ->
  xupdate_at path (x_sub_ele_ns tag u a) (resolve None t) = Some (resolve None t') /\
  wfb None t' = true.
Proof.
  intros path tag u a t t' Hw Hne Hs. unfold sub_ele_ns_at in Hs.
  apply (update_at_resolve (fun sc => sub_ele_ns_node sc tag (Some u) a) (x_sub_ele_ns tag u a)
           (fun sc d p p' Hd Hwp Hf => sub_ele_ns_node_resolve sc d tag u a p p' Hd Hwp Hne Hf)
           path [] None t t' eq_refl Hw Hs).
Qed.

Lemma BASE_NS_nonempty : BASE_NS <> [].
Proof. unfold BASE_NS. discriminate. Qed.

Lemma c17_ctor_new : forall tag a,
  resolve None (new_ele tag a) = Elem (Some BASE_NS, tag) (attrs_of_dict a []) [] /\
  wfb None (new_ele tag a) = true.
Proof.
  intros tag a. unfold new_ele.
  apply (mk_elem_resolve_Some [] None BASE_NS tag a BASE_NS_nonempty eq_refl).
Qed.

Lemma c17_ctor_new_ns : forall tag u a, u <> [] ->
  resolve None (new_ele_ns tag (Some u) a) = Elem (Some u, tag) (attrs_of_dict a []) [] /\
  wfb None (new_ele_ns tag (Some u) a) = true.
Proof.
  intros tag u a Hu. unfold new_ele_ns.
  apply (mk_elem_resolve_Some [] None u tag a Hu eq_refl).
Qed.
