From Coq Require Import Lia.
From NC Require Import Model.Base Model.XTree Model.XmlHelpers Model.XmlSession Spec.XmlSessionSpec Proofs.BaseFacts.

(* XmlSessionProofs.v - C17: several constructor programs in ONE process.
   No constructor call writes to the default objects or to the caller's dictionaries, so in a process that
   started with empty defaults every tree is the tree its own program specifies: the calls that made other
   trees (with keyword attributes, with the caller's re-used dictionaries, with attrs omitted) do not show. *)

Lemma update_nth_spec : forall A (l : list A) i f l',
  update_nth i f l = Some l' ->
  exists x y, nth_error l i = Some x /\ f x = Some y /\ nth_error l' i = Some y /\
              (forall j, j <> i -> nth_error l' j = nth_error l j) /\ length l' = length l.
Proof.
  induction l as [|a l IH]; intros i f l' H.
  - destruct i; discriminate.
  - destruct i as [|i]; cbn [update_nth] in H.
    + destruct (f a) as [y|] eqn:Fa; [|discriminate]. injection H as <-.
      exists a, y. repeat split; auto. intros [|j] Hj; [congruence|reflexivity].
    + destruct (update_nth i f l) as [r|] eqn:E; [|discriminate]. injection H as <-.
      destruct (IH _ _ _ E) as (x & y & H1 & H2 & H3 & H4 & H5).
      exists x, y. repeat split; auto.
      * intros [|j] Hj; [reflexivity|]. cbn [nth_error]. apply H4. congruence.
      * cbn [length]. congruence.
Qed.

Lemma nth_error_snoc : forall A (l : list A) x j,
  nth_error (l ++ [x]) j = if Nat.eqb (length l) j then Some x else nth_error l j.
Proof.
  induction l as [|a l IH]; intros x j; cbn [app length].
  - destruct j as [|j]; cbn; [reflexivity|]. destruct j; reflexivity.
  - destruct j as [|j]; cbn [nth_error Nat.eqb]; [reflexivity|]. apply IH.
Qed.

(* ---------- the store: defaults and caller dictionaries ---------- *)
Lemma sstep_dflt : forall st op st', sstep st op = Some st' -> s_dflt st' = s_dflt st.
Proof.
  intros st op st' H. destruct op; cbn [sstep] in H;
    try (injection H as <-; reflexivity);
    match type of H with option_map _ ?x = _ => destruct x; [injection H as <-; reflexivity|discriminate] end.
Qed.

Lemma sstep_dicts : forall st op st', sstep st op = Some st' -> s_dicts st' = caller_set (s_dicts st) op.
Proof.
  intros st op st' H. destruct op as [tag a kw|tag u a kw|tag m a kw|t p tag a kw|t p tag u a kw|i k v];
    cbn [sstep] in H; cbn [caller_set];
    try (injection H as <-; reflexivity).
  - destruct (update_nth t _ (s_trees st)); [injection H as <-; reflexivity|discriminate].
  - destruct (update_nth t _ (s_trees st)); [injection H as <-; reflexivity|discriminate].
  - destruct (dict_set i k v (s_dicts st)) as [ds|] eqn:D; [injection H as <-; reflexivity|discriminate].
Qed.

(* whatever is constructed, with whatever arguments: the default objects are what they were and the
   caller's dictionaries are what the caller's own assignments made them *)
Lemma c17_session_store : forall ops st st',
  srun st ops = Some st' ->
  s_dflt st' = s_dflt st /\ s_dicts st' = caller_dicts (s_dicts st) ops.
Proof.
  induction ops as [|op r IH]; intros st st' H; cbn [srun] in H.
  - injection H as <-. split; reflexivity.
  - destruct (sstep st op) as [st1|] eqn:E; [|discriminate].
    destruct (IH _ _ H) as [H1 H2]. split.
    + rewrite H1. exact (sstep_dflt _ _ _ E).
    + rewrite H2, (sstep_dicts _ _ _ E). reflexivity.
Qed.

Lemma call_attrs_pristine : forall st c a kw,
  pristine st -> call_attrs st c a kw = spec_attrs (s_dicts st) a kw.
Proof.
  intros st c a kw P. unfold call_attrs, spec_attrs.
  replace (arg_value st c a) with (spec_value (s_dicts st) a); [reflexivity|].
  destruct a; cbn [arg_value spec_value]; auto; symmetry; apply P.
Qed.

Lemma pristine_step : forall st op st', pristine st -> sstep st op = Some st' -> pristine st'.
Proof. intros st op st' P E c. rewrite (sstep_dflt _ _ _ E). apply P. Qed.

(* ---------- one call and the other trees ---------- *)
Lemma c17_session_step_frame : forall st op st' j,
  sstep st op = Some st' -> sop_tree op <> Some j -> (j < length (s_trees st))%nat ->
  nth_error (s_trees st') j = nth_error (s_trees st) j.
Proof.
  intros st op st' j H Hn Hj.
  destruct op as [tag a kw|tag u a kw|tag m a kw|t p tag a kw|t p tag u a kw|i k v]; cbn [sstep] in H; cbn [sop_tree] in Hn.
  1-3: injection H as <-; cbn [s_trees with_trees]; rewrite nth_error_snoc;
       destruct (Nat.eqb_spec (length (s_trees st)) j); [lia|reflexivity].
  - destruct (update_nth t _ (s_trees st)) as [ts|] eqn:U; [|discriminate]. injection H as <-. cbn [s_trees with_trees].
    destruct (update_nth_spec _ _ _ _ _ U) as (x & y & _ & _ & _ & H4 & _). apply H4. congruence.
  - destruct (update_nth t _ (s_trees st)) as [ts|] eqn:U; [|discriminate]. injection H as <-. cbn [s_trees with_trees].
    destruct (update_nth_spec _ _ _ _ _ U) as (x & y & _ & _ & _ & H4 & _). apply H4. congruence.
  - destruct (dict_set i k v (s_dicts st)); [injection H as <-; reflexivity|discriminate].
Qed.

(* ---------- every tree is the tree its own program specifies ---------- *)
Lemma c17_session_independent : forall ops st st' j,
  pristine st -> srun st ops = Some st' ->
  nth_error (s_trees st') j =
  fold_left lstep (own j (length (s_trees st)) (s_dicts st) ops) (nth_error (s_trees st) j).
Proof.
  induction ops as [|op r IH]; intros st st' j P H; cbn [srun] in H.
  - injection H as <-. reflexivity.
  - destruct (sstep st op) as [st1|] eqn:E; [|discriminate].
    rewrite (IH _ _ j (pristine_step _ _ _ P E) H). clear IH H.
    destruct op as [tag a kw|tag u a kw|tag m a kw|t p tag a kw|t p tag u a kw|i k v]; cbn [sstep] in E; cbn [own].
    1-3: injection E as <-; cbn [s_trees s_dicts with_trees]; rewrite app_length, fold_left_app; cbn [length];
         replace (length (s_trees st) + 1)%nat with (S (length (s_trees st))) by lia;
         f_equal; rewrite nth_error_snoc, (call_attrs_pristine _ _ _ _ P);
         destruct (Nat.eqb (length (s_trees st)) j); reflexivity.
    + rewrite (call_attrs_pristine _ _ _ _ P) in E.
      destruct (update_nth t _ (s_trees st)) as [ts|] eqn:U; [|discriminate]. injection E as <-.
      cbn [s_trees s_dicts with_trees].
      destruct (update_nth_spec _ _ _ _ _ U) as (x & y & H1 & H2 & H3 & H4 & H5).
      rewrite H5, fold_left_app. f_equal.
      destruct (Nat.eqb_spec t j) as [->|Ne]; cbn [only_if fold_left].
      * rewrite H1, H3. cbn [lstep]. symmetry. exact H2.
      * apply H4. congruence.
    + rewrite (call_attrs_pristine _ _ _ _ P) in E.
      destruct (update_nth t _ (s_trees st)) as [ts|] eqn:U; [|discriminate]. injection E as <-.
      cbn [s_trees s_dicts with_trees].
      destruct (update_nth_spec _ _ _ _ _ U) as (x & y & H1 & H2 & H3 & H4 & H5).
      rewrite H5, fold_left_app. f_equal.
      destruct (Nat.eqb_spec t j) as [->|Ne]; cbn [only_if fold_left].
      * rewrite H1, H3. cbn [lstep]. symmetry. exact H2.
      * apply H4. congruence.
    + destruct (dict_set i k v (s_dicts st)) as [ds|] eqn:D; [|discriminate]. injection E as <-.
      cbn [s_trees s_dicts caller_set]. rewrite D. reflexivity.
Qed.

(* a process that starts with no trees: tree j is its program run alone *)
Lemma c17_session_alone : forall ops dflt dicts st' j,
  pristine (mkS dflt dicts []) -> srun (mkS dflt dicts []) ops = Some st' ->
  nth_error (s_trees st') j = fold_left lstep (own j 0 dicts ops) None.
Proof.
  intros ops dflt dicts st' j P H. rewrite (c17_session_independent _ _ _ j P H). cbn [s_trees s_dicts length].
  destruct j; reflexivity.
Qed.

(* the trace the runner reports is srun *)
Lemma last_cons_default : forall A (l : list A) a d, last (a :: l) d = last l a.
Proof.
  induction l as [|b l IH]; intros a d; [reflexivity|].
  change (last (a :: b :: l) d) with (last (b :: l) d). rewrite (IH b d), (IH b a). reflexivity.
Qed.

Lemma c17_session_trace : forall ops st st',
  srun st ops = Some st' -> last (strace st ops) st = st' /\ length (strace st ops) = length ops.
Proof.
  induction ops as [|op r IH]; intros st st' H; cbn [srun strace] in *.
  - injection H as <-. split; reflexivity.
  - destruct (sstep st op) as [st1|] eqn:E; [|discriminate].
    destruct (IH _ _ H) as [H1 H2]. split.
    + rewrite last_cons_default. exact H1.
    + cbn [length]. rewrite H2. reflexivity.
Qed.
