(* ListFacts.v — occurrence / first-occurrence facts about Base.prefixb, find_sub, contains,
   and the event-collecting fold [run_bytes]. *)
From NC Require Import Model.Base Model.Utf8 Model.Framing10 Model.Framing11 Spec.RefFraming.

Lemma prefixb_spec p : forall l, prefixb p l = true <-> exists q, l = p ++ q.
Proof.
  induction p as [|a p IH]; intros l; simpl.
  - split; eauto.
  - destruct l as [|b l]; simpl.
    + split; [discriminate | intros [q H]; discriminate].
    + rewrite andb_true_iff, N.eqb_eq, IH. split.
      * intros [-> [q ->]]. eauto.
      * intros [q H]. injection H as -> ->. eauto.
Qed.

Definition occurs (d l : bytes) : Prop := exists p q, l = p ++ d ++ q.

Lemma skipn_app_len {A} (d q : list A) : skipn (length d) (d ++ q) = q.
Proof. induction d; simpl; auto. Qed.

Lemma find_some d : forall l p q, find_sub d l = Some (p, q) ->
  l = p ++ d ++ q /\ (forall p1 q1, l = p1 ++ d ++ q1 -> (length p <= length p1)%nat).
Proof.
  induction l as [|b l IH]; intros p q H.
  - simpl in H. destruct (prefixb d []) eqn:E; [|discriminate].
    injection H as <- <-. apply prefixb_spec in E. destruct E as [q E].
    split.
    + simpl. rewrite E at 1. rewrite E. rewrite skipn_app_len. auto.
    + intros. simpl. lia.
  - cbn [find_sub] in H. destruct (prefixb d (b :: l)) eqn:E.
    + injection H as <- <-. apply prefixb_spec in E. destruct E as [q E].
      split.
      * simpl. rewrite E. rewrite skipn_app_len. auto.
      * intros; simpl; lia.
    + destruct (find_sub d l) as [[p' q']|] eqn:F; [|discriminate].
      injection H as <- <-. destruct (IH _ _ eq_refl) as [H1 H2]. split.
      * simpl. congruence.
      * intros p1 q1 H. destruct p1 as [|c p1]; simpl in H.
        -- assert (prefixb d (b :: l) = true); [|congruence]. apply prefixb_spec; eauto.
        -- injection H as -> H. simpl. apply le_n_S. eapply H2; eauto.
Qed.

Lemma find_none d : forall l, find_sub d l = None <-> ~ occurs d l.
Proof.
  induction l as [|b l IH].
  - simpl. destruct (prefixb d []) eqn:E.
    + split; [discriminate|]. intros H. exfalso. apply H.
      apply prefixb_spec in E. destruct E as [q E]. exists [], q. simpl. auto.
    + split; auto. intros _ [p [q H]].
      assert (prefixb d [] = true); [|congruence].
      apply prefixb_spec. destruct p; simpl in H; [eauto|discriminate].
  - cbn [find_sub]. destruct (prefixb d (b :: l)) eqn:E.
    + split; [discriminate|]. intros H. exfalso. apply H.
      apply prefixb_spec in E. destruct E as [q E]. exists [], q. simpl. auto.
    + destruct (find_sub d l) as [[p q]|] eqn:F.
      * split; [discriminate|]. intros H. exfalso.
        apply find_some in F. destruct F as [F _].
        apply H. exists (b :: p), q. simpl. congruence.
      * split; auto. intros _ [p' [q' H']].
        destruct p' as [|c p']; simpl in H'.
        -- assert (prefixb d (b :: l) = true); [|congruence]. apply prefixb_spec; eauto.
        -- injection H' as -> H'. assert (G : ~ occurs d l) by (apply IH; auto).
           apply G. exists p', q'. auto.
Qed.

Lemma contains_occurs d : forall l, contains l d = true <-> occurs d l.
Proof.
  induction l as [|b l IH]; cbn [contains].
  - rewrite orb_false_r, prefixb_spec. split.
    + intros [q H]. exists [], q. exact H.
    + intros [p [q H]]. destruct p; simpl in H; [eauto|discriminate].
  - rewrite orb_true_iff, prefixb_spec, IH. split.
    + intros [[q H]|[p [q H]]].
      * exists [], q. exact H.
      * exists (b :: p), q. simpl. congruence.
    + intros [p [q H]]. destruct p as [|c p]; simpl in H.
      * left. eauto.
      * right. injection H as -> H. exists p, q. exact H.
Qed.

Lemma prefixb_app p l s : prefixb p l = true -> prefixb p (l ++ s) = true.
Proof. rewrite !prefixb_spec. intros [q ->]. exists (q ++ s). now rewrite app_assoc. Qed.

Lemma find_app d : forall l s p q, find_sub d l = Some (p, q) -> find_sub d (l ++ s) = Some (p, q ++ s).
Proof.
  induction l as [|b l IH]; intros s p q H.
  - simpl in H. destruct (prefixb d []) eqn:E; [|discriminate]. injection H as <- <-.
    apply prefixb_spec in E. destruct E as [q E]. destruct d; [|discriminate].
    simpl. destruct s; reflexivity.
  - cbn [find_sub] in H. destruct (prefixb d (b :: l)) eqn:E.
    + injection H as <- <-. change ((b :: l) ++ s) with (b :: l ++ s) at 1.
      cbn [find_sub]. change (b :: l ++ s) with ((b :: l) ++ s). rewrite (prefixb_app _ _ s E).
      f_equal. f_equal. apply prefixb_spec in E. destruct E as [q E]. rewrite E.
      rewrite <- app_assoc. now rewrite !skipn_app_len.
    + destruct (find_sub d l) as [[p' q']|] eqn:F; [|discriminate]. injection H as <- <-.
      change ((b :: l) ++ s) with (b :: l ++ s). cbn [find_sub].
      destruct (prefixb d (b :: l ++ s)) eqn:E2.
      * apply find_some in F. destruct F as [F _].
        apply prefixb_spec in E2. destruct E2 as [q2 E2].
        assert (prefixb d (b :: l) = true); [|congruence].
        apply prefixb_spec. subst l.
        assert (L: (length d <= length (b :: p' ++ d ++ q'))%nat) by (simpl; rewrite !app_length; lia).
        exists (skipn (length d) (b :: p' ++ d ++ q')).
        rewrite <- (firstn_skipn (length d) (b :: p' ++ d ++ q')) at 1. f_equal.
        assert (H : firstn (length d) ((b :: p' ++ d ++ q') ++ s) = d).
        { change ((b :: p' ++ d ++ q') ++ s) with (b :: (p' ++ d ++ q') ++ s). rewrite E2.
          rewrite firstn_app, Nat.sub_diag, firstn_all. simpl. now rewrite app_nil_r. }
        rewrite firstn_app in H.
        replace (length d - length (b :: p' ++ d ++ q'))%nat with 0%nat in H by lia.
        simpl firstn at 2 in H. now rewrite app_nil_r in H.
      * rewrite (IH s _ _ eq_refl). reflexivity.
Qed.

Lemma occurs_app_l d l s : occurs d l -> occurs d (l ++ s).
Proof. intros [p [q ->]]. exists p, (q ++ s). now rewrite <- !app_assoc. Qed.
Lemma occurs_app_r d l s : occurs d l -> occurs d (s ++ l).
Proof. intros [p [q ->]]. exists (s ++ p), q. now rewrite <- !app_assoc. Qed.

(* ---- run_bytes ---- *)
Lemma run_bytes_app {S} (step : S -> byte -> S * list pevent) : forall a b s,
  run_bytes step s (a ++ b) =
  let '(s1, e1) := run_bytes step s a in
  let '(s2, e2) := run_bytes step s1 b in (s2, e1 ++ e2).
Proof.
  induction a as [|x a IH]; intros b s; simpl.
  - destruct (run_bytes step s b); reflexivity.
  - destruct (step s x) as [s1 e1]. rewrite IH.
    destruct (run_bytes step s1 a) as [s2 e2]. destruct (run_bytes step s2 b) as [s3 e3].
    now rewrite app_assoc.
Qed.

Lemma deliveries_app a b : deliveries (a ++ b) = deliveries a ++ deliveries b.
Proof. induction a as [|[m|k] a IH]; simpl; auto. now rewrite IH. Qed.
