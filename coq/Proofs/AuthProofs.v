(* AuthProofs.v — lemmas and final statements for C15 (Model/Auth.v against Spec/AuthSpec.v). *)
From NC Require Import Model.Base Model.Auth Spec.AuthSpec.

(* ------------------------------------------------------------------ lists *)
Lemma app_split_notin {A} (a b pre post : list A) (e : A) :
  a ++ b = pre ++ e :: post -> ~ In e a -> exists pre', pre = a ++ pre' /\ b = pre' ++ e :: post.
Proof.
  revert pre. induction a as [|x a IH]; intros pre H Hn.
  - exists pre. split; [reflexivity | exact H].
  - destruct pre as [|y pre].
    + simpl in H. inversion H; subst. exfalso. apply Hn. left; reflexivity.
    + simpl in H. inversion H; subst.
      destruct (IH pre H2) as [pre' [Hp Hb]].
      * intros Hi. apply Hn. right; exact Hi.
      * exists pre'. split; [simpl; now rewrite Hp | exact Hb].
Qed.

Lemma none_of_app P a b : none_of P a -> none_of P b -> none_of P (a ++ b).
Proof. intros Ha Hb e Hi. apply in_app_or in Hi as [Hi|Hi]; [now apply Ha | now apply Hb]. Qed.

Lemma none_of_cons P e a : ~ P e -> none_of P a -> none_of P (e :: a).
Proof. intros He Ha x [<-|Hi]; [exact He | now apply Ha]. Qed.

Lemma none_of_nil P : none_of P [].
Proof. intros e []. Qed.

(* nothing P in the prefix [a], and [a] holds a Q-event: every P-event of a ++ b is preceded *)
Lemma preceded_by_app P Q a b :
  none_of P a -> (exists q, In q a /\ Q q) -> preceded_by P Q (a ++ b).
Proof.
  intros Hn [q [Hq HQ]] pre e post Heq HP.
  destruct (app_split_notin a b pre post e Heq) as [pre' [-> _]].
  - intros Hi. exact (Hn e Hi HP).
  - exists q. split; [apply in_or_app; now left | exact HQ].
Qed.

Lemma preceded_by_none P Q tr : none_of P tr -> preceded_by P Q tr.
Proof.
  intros Hn pre e post -> HP. exfalso. apply (Hn e); [|exact HP].
  apply in_or_app. right. left. reflexivity.
Qed.

(* ------------------------------------------------------------------ known_hosts *)
Lemma hsel_eqb_eq a b : hsel_eqb a b = true <-> a = b.
Proof. destruct a, b; simpl; split; intros H; try reflexivity; try discriminate. Qed.

Lemma key_eqb_eq a b : key_eqb a b = true <-> a = b.
Proof.
  destruct a as [a1 a2], b as [b1 b2]. unfold key_eqb; simpl.
  rewrite andb_true_iff, !N.eqb_eq. split.
  - intros [-> ->]. reflexivity.
  - intros H. inversion H. auto.
Qed.

Lemma under_In s k kh : In k (under s kh) <-> In (s, k) kh.
Proof.
  unfold under. rewrite in_map_iff. split.
  - intros [[s' k'] [Hk Hf]]. simpl in Hk. subst k'. apply filter_In in Hf as [Hi He].
    simpl in He. apply hsel_eqb_eq in He. now subst.
  - intros Hi. exists (s, k). split; [reflexivity|]. apply filter_In. split; [exact Hi|].
    simpl. now apply hsel_eqb_eq.
Qed.

Lemma first_of_type_In t ks k : first_of_type t ks = Some k -> In k ks /\ fst k = t.
Proof.
  induction ks as [|x ks IH]; simpl; [discriminate|].
  destruct (N.eqb (fst x) t) eqn:E.
  - intros H. inversion H; subst. apply N.eqb_eq in E. auto.
  - intros H. destruct (IH H). auto.
Qed.

(* a successful check names a key that is in the table under that name *)
Lemma kh_check_In kh s k : kh_check kh s k = true -> In (s, k) kh.
Proof.
  unfold kh_check. destruct (first_of_type (fst k) (under s kh)) as [k'|] eqn:E; [|discriminate].
  intros Hb. apply N.eqb_eq in Hb. apply first_of_type_In in E as [Hi Ht].
  apply under_In in Hi. destruct k as [t b], k' as [t' b']. simpl in *. now subst.
Qed.

Lemma kh_set_host_In k kh e : In e (kh_set_host k kh) -> In e kh \/ e = (HHost, k).
Proof.
  induction kh as [|[s k'] r IH]; simpl.
  - intros [<-|[]]. now right.
  - destruct (hsel_eqb s HHost && N.eqb (fst k') (fst k)) eqn:E.
    + apply andb_true_iff in E as [Es _]. apply hsel_eqb_eq in Es. subst s.
      intros [<-|Hi]; [now right | left; now right].
    + intros [<-|Hi]; [left; now left|]. destruct (IH Hi) as [H|H]; [left; now right | now right].
Qed.

(* what the write-through update can put into the table: only "[host]:port" keys, under "host" *)
Definition kh_inv (kh : list kh_entry) (e : kh_entry) : Prop :=
  In e kh \/ (fst e = HHost /\ In (HHostPort, snd e) kh).

Lemma kh_prefer_update_inv kh e : In e (kh_prefer_update kh) -> kh_inv kh e.
Proof.
  unfold kh_prefer_update. destruct (under HHost kh) as [|x xs]; [intros H; now left|].
  set (f := fun acc t => match first_of_type t (under HHostPort kh) with
                         | Some k => kh_set_host k acc | None => acc end).
  assert (G : forall ts acc, (forall e, In e acc -> kh_inv kh e) ->
                             forall e, In e (fold_left f ts acc) -> kh_inv kh e).
  { induction ts as [|t ts IH]; intros acc Hacc e0; simpl; [apply Hacc|].
    apply IH. intros e1 H1. unfold f in H1.
    destruct (first_of_type t (under HHostPort kh)) as [k|] eqn:E; [|now apply Hacc].
    apply kh_set_host_In in H1 as [H1| ->]; [now apply Hacc|].
    right. simpl. split; [reflexivity|]. apply first_of_type_In in E as [Hi _]. now apply under_In. }
  apply G. intros e1 H1. now left.
Qed.

Lemma kh_check_update_file kh s k :
  (s = HHost \/ s = HHostPort) -> kh_check (kh_prefer_update kh) s k = true ->
  In (HHost, k) kh \/ In (HHostPort, k) kh.
Proof.
  intros Hs Hc. apply kh_check_In in Hc. apply kh_prefer_update_inv in Hc as [Hi|[_ Hi]].
  - destruct Hs as [-> | ->]; auto.
  - simpl in Hi. auto.
Qed.

(* ------------------------------------------------------------------ host-key phase *)
Lemma known_how_justified c o h : known_how c (o_server_key o) = Some h -> justified c o h.
Proof.
  unfold known_how, kh_at_check. destruct (c_pin c) as [| |p] eqn:Ep.
  - destruct (kh_check _ HHost _) eqn:E1.
    + intros H; inversion H; subst. simpl. split; [exact Ep|]. split; [now left|].
      apply (kh_check_update_file _ HHost); auto.
    + destruct (kh_check _ HHostPort _) eqn:E2; [|discriminate].
      intros H; inversion H; subst. simpl. split; [exact Ep|]. split; [now right|].
      apply (kh_check_update_file _ HHostPort); auto.
  - discriminate.
  - destruct (key_eqb p (o_server_key o)) eqn:E; [|discriminate].
    intros H; inversion H; subst. simpl. apply key_eqb_eq in E. now rewrite Ep, E.
Qed.

(* the model's verdict is the specification's "the callback in force accepts (dialled host,
   presented key)" *)
Lemma cb_verdict_spec c o : cb_verdict c o = callback_accepts c o.
Proof.
  unfold cb_verdict, callback_accepts, callback_in_force, cb_host.
  destruct (c_profile_cb c); [reflexivity|]. destruct (c_user_cb c); reflexivity.
Qed.

Lemma cb_events_only c o e : In e (cb_events c o) -> e = CallbackAsked HHost (o_server_key o).
Proof.
  unfold cb_events, cb_host. destruct (c_profile_cb c); [intros []|].
  destruct (c_user_cb c); [|intros []]. intros [<-|[]]. reflexivity.
Qed.

(* the caller's callback is invoked exactly when it is in force *)
Lemma cb_events_asked c o :
  c_profile_cb c = false -> c_user_cb c = true -> cb_events c o = [CallbackAsked HHost (o_server_key o)].
Proof. unfold cb_events, cb_host. intros -> ->. reflexivity. Qed.

Lemma hostkey_phase_events c o e :
  In e (fst (hostkey_phase c o)) -> e = CallbackAsked HHost (o_server_key o) \/ exists h, e = HostKeyAccepted h.
Proof.
  unfold hostkey_phase. destruct (c_verify c); [|intros []].
  destruct (known_how c (o_server_key o)) as [h|].
  - simpl. intros [<-|[]]. right. now exists h.
  - destruct (cb_verdict c o); simpl.
    + intros Hi. apply in_app_or in Hi as [Hi|[<-|[]]].
      * left. now apply (cb_events_only c o).
      * right. now exists ByCallback.
    + intros Hi. left. now apply (cb_events_only c o).
Qed.

Lemma hostkey_phase_not_sensitive c o : none_of sensitive (fst (hostkey_phase c o)).
Proof.
  intros e Hi Hs. apply hostkey_phase_events in Hi as [->|[h ->]]; exact Hs.
Qed.

Lemma hostkey_phase_justified c o h :
  In (HostKeyAccepted h) (fst (hostkey_phase c o)) -> justified c o h.
Proof.
  unfold hostkey_phase. destruct (c_verify c); [|intros []].
  destruct (known_how c (o_server_key o)) as [h'|] eqn:E.
  - simpl. intros [H|[]]. inversion H; subst. now apply known_how_justified.
  - destruct (cb_verdict c o) eqn:Ecb; simpl.
    + intros Hi. apply in_app_or in Hi as [Hi|[H|[]]].
      * apply cb_events_only in Hi. discriminate.
      * inversion H; subst. simpl. now rewrite <- cb_verdict_spec.
    + intros Hi. apply cb_events_only in Hi. discriminate.
Qed.

Lemma hostkey_phase_accepted c o :
  c_verify c = true -> snd (hostkey_phase c o) = true ->
  exists q, In q (fst (hostkey_phase c o)) /\ is_accept q.
Proof.
  unfold hostkey_phase. intros -> .
  destruct (known_how c (o_server_key o)) as [h|].
  - intros _. exists (HostKeyAccepted h). simpl. auto.
  - destruct (cb_verdict c o); simpl; [|discriminate].
    intros _. exists (HostKeyAccepted ByCallback). split; [|exact I].
    apply in_or_app. right. now left.
Qed.

Lemma known_how_not_cb c k : known_how c k <> Some ByCallback.
Proof.
  unfold known_how. destruct (c_pin c) as [| |p]; [|discriminate|].
  - destruct (kh_check _ HHost k); [discriminate|]. destruct (kh_check _ HHostPort k); discriminate.
  - destruct (key_eqb p k); discriminate.
Qed.

Lemma unjustified_known_how c o : unjustified c o -> known_how c (o_server_key o) = None.
Proof.
  unfold unjustified. intros [_ Hu].
  destruct (known_how c (o_server_key o)) as [h|] eqn:E; [|reflexivity].
  exfalso. assert (J := known_how_justified c o h E). destruct h as [s| |]; simpl in J.
  - destruct J as [Ep [_ Hin]]. rewrite Ep in Hu. destruct Hu as [H1 H2]. destruct Hin; auto.
  - rewrite J in Hu. now apply Hu.
  - exact (known_how_not_cb c _ E).
Qed.

Lemma hostkey_phase_unjustified c o :
  c_verify c = true -> unjustified c o -> snd (hostkey_phase c o) = false.
Proof.
  intros Hv Hu. unfold hostkey_phase. rewrite Hv, (unjustified_known_how c o Hu).
  rewrite cb_verdict_spec. destruct Hu as [-> _]. reflexivity.
Qed.

(* ------------------------------------------------------------------ _auth cascade *)
Lemma run_auth_events plan : forall loads auths e,
  In e (fst (run_auth plan loads auths)) -> is_attempt e.
Proof.
  induction plan as [|[m|m] rest IH]; intros loads auths e; simpl; [intros []| |].
  - destruct (hd_or false loads).
    + destruct (hd_or false auths).
      * simpl. intros [<-|[]]. exact I.
      * destruct (run_auth rest (tl loads) (tl auths)) as [t r] eqn:E. simpl.
        intros [<-|Hi]; [exact I|]. apply (IH (tl loads) (tl auths)). now rewrite E.
    + apply IH.
  - destruct (hd_or false auths).
    + simpl. intros [<-|[]]. exact I.
    + destruct (run_auth rest loads (tl auths)) as [t r] eqn:E. simpl.
      intros [<-|Hi]; [exact I|]. apply (IH loads (tl auths)). now rewrite E.
Qed.

Lemma run_auth_no_session plan loads auths : none_of session_event (fst (run_auth plan loads auths)).
Proof. intros e Hi Hs. apply run_auth_events in Hi. destruct e; simpl in *; contradiction. Qed.

(* success means a granted attempt is the last event; failure means none was granted *)
Lemma run_auth_true plan : forall loads auths,
  snd (run_auth plan loads auths) = true ->
  exists q, In q (fst (run_auth plan loads auths)) /\ is_auth_ok q.
Proof.
  induction plan as [|[m|m] rest IH]; intros loads auths; simpl; [discriminate| |].
  - destruct (hd_or false loads).
    + destruct (hd_or false auths).
      * intros _. exists (AuthAttempt m true). simpl. auto.
      * destruct (run_auth rest (tl loads) (tl auths)) as [t r] eqn:E. simpl. intros Hr.
        destruct (IH (tl loads) (tl auths)) as [q [Hq HQ]]; [now rewrite E|].
        rewrite E in Hq. exists q. simpl. auto.
    + apply IH.
  - destruct (hd_or false auths).
    + intros _. exists (AuthAttempt m true). simpl. auto.
    + destruct (run_auth rest loads (tl auths)) as [t r] eqn:E. simpl. intros Hr.
      destruct (IH loads (tl auths)) as [q [Hq HQ]]; [now rewrite E|].
      rewrite E in Hq. exists q. simpl. auto.
Qed.

Lemma all_refused_hd auths : all_refused auths -> hd_or false auths = false.
Proof. destruct auths as [|b r]; [reflexivity|]. intros H. simpl. apply H. now left. Qed.

Lemma all_refused_tl auths : all_refused auths -> all_refused (tl auths).
Proof. destruct auths as [|b r]; [auto|]. intros H x Hx. apply H. now right. Qed.

Lemma run_auth_refused plan : forall loads auths,
  all_refused auths ->
  snd (run_auth plan loads auths) = false /\ none_of is_auth_ok (fst (run_auth plan loads auths)).
Proof.
  induction plan as [|[m|m] rest IH]; intros loads auths Ha; simpl.
  - split; [reflexivity | apply none_of_nil].
  - rewrite (all_refused_hd auths Ha). destruct (hd_or false loads).
    + destruct (run_auth rest (tl loads) (tl auths)) as [t r] eqn:E. simpl.
      destruct (IH (tl loads) (tl auths) (all_refused_tl _ Ha)) as [H1 H2]. rewrite E in H1, H2.
      split; [exact H1|]. apply none_of_cons; [simpl; auto | exact H2].
    + now apply IH.
  - rewrite (all_refused_hd auths Ha).
    destruct (run_auth rest loads (tl auths)) as [t r] eqn:E. simpl.
    destruct (IH loads (tl auths) (all_refused_tl _ Ha)) as [H1 H2]. rewrite E in H1, H2.
    split; [exact H1|]. apply none_of_cons; [simpl; auto | exact H2].
Qed.

(* ------------------------------------------------------------------ subsystem phase *)
Lemma run_subsystems_events fb names : forall opens subs hk e,
  In e (fst (run_subsystems fb names opens subs hk)) -> session_event e.
Proof.
  induction names as [|n rest IH]; intros opens subs hk e; simpl; [intros []|].
  destruct (hd_or false opens).
  - destruct (hd_or false subs).
    + simpl. intros [<-|[<-|[<-|[]]]]; exact I.
    + destruct fb.
      * simpl. intros [<-|[<-|[<-|[<-|[]]]]]; exact I.
      * destruct (run_subsystems false rest (tl opens) (tl subs) hk) as [t r] eqn:E. simpl.
        intros [<-|[<-|Hi]]; try exact I. apply (IH (tl opens) (tl subs) hk). now rewrite E.
  - simpl. intros [<-|[]]. exact I.
Qed.

Lemma run_subsystems_ok fb names : forall opens subs hk,
  snd (run_subsystems fb names opens subs hk) = Ok ->
  In SendHello (fst (run_subsystems fb names opens subs hk)).
Proof.
  induction names as [|n rest IH]; intros opens subs hk; simpl; [discriminate|].
  destruct (hd_or false opens); [|discriminate].
  destruct (hd_or false subs).
  - simpl. auto.
  - destruct fb.
    + simpl. auto.
    + destruct (run_subsystems false rest (tl opens) (tl subs) hk) as [t r] eqn:E. simpl.
      intros Hr. right; right. specialize (IH (tl opens) (tl subs) hk). rewrite E in IH. now apply IH.
Qed.

Lemma session_event_sensitive e : session_event e -> sensitive e.
Proof. destruct e; simpl; auto. Qed.
Lemma is_attempt_sensitive e : is_attempt e -> sensitive e.
Proof. destruct e; simpl; auto. Qed.

(* ------------------------------------------------------------------ ssh_connect, unfolded once *)
(* The five ways connect ends, with the shape of the trace in each. *)
Inductive ssh_shape (c : ssh_cfg) (o : ssh_oracle) : trace * result -> Prop :=
| sh_pin  : c_pin c = PinBad -> ssh_shape c o ([], Exn SSHError)
| sh_kex  : c_pin c <> PinBad -> o_kex_ok o = false -> ssh_shape c o ([StartClient], Exn SSHError)
| sh_host : c_pin c <> PinBad -> o_kex_ok o = true -> snd (hostkey_phase c o) = false ->
            ssh_shape c o (StartClient :: fst (hostkey_phase c o), Exn (SSHUnknownHost HHost (o_server_key o)))
| sh_auth : forall t2, c_pin c <> PinBad -> o_kex_ok o = true -> snd (hostkey_phase c o) = true ->
            run_auth (auth_plan c o) (o_loads o) (o_auths o) = (t2, false) ->
            ssh_shape c o (StartClient :: fst (hostkey_phase c o) ++ t2, Exn Authentication)
| sh_sess : forall t2 t3 r, c_pin c <> PinBad -> o_kex_ok o = true -> snd (hostkey_phase c o) = true ->
            run_auth (auth_plan c o) (o_loads o) (o_auths o) = (t2, true) ->
            run_subsystems (c_exec_fallback c) (c_subsystems c) (o_opens o) (o_subs o) (o_hello_ok o) = (t3, r) ->
            ssh_shape c o (StartClient :: fst (hostkey_phase c o) ++ t2 ++ t3, r).

Lemma ssh_connect_shape c o : ssh_shape c o (ssh_connect c o).
Proof.
  unfold ssh_connect.
  assert (K : c_pin c = PinBad \/ c_pin c <> PinBad) by (destruct (c_pin c); [right|left|right]; congruence).
  destruct K as [K|K]; [rewrite K; now apply sh_pin|].
  assert (E : forall X : trace * result, match c_pin c with PinBad => ([], Exn SSHError) | _ => X end = X)
    by (intros X; destruct (c_pin c); congruence).
  rewrite E. clear E.
  destruct (o_kex_ok o) eqn:Ek; simpl; [|now apply sh_kex].
  destruct (hostkey_phase c o) as [t1 acc] eqn:Eh.
  destruct acc; simpl.
  - destruct (run_auth (auth_plan c o) (o_loads o) (o_auths o)) as [t2 authed] eqn:Ea.
    destruct authed; simpl.
    + destruct (run_subsystems _ _ _ _ _) as [t3 r] eqn:Es.
      replace t1 with (fst (hostkey_phase c o)) by now rewrite Eh.
      eapply sh_sess; eauto. now rewrite Eh.
    + replace t1 with (fst (hostkey_phase c o)) by now rewrite Eh.
      eapply sh_auth; eauto. now rewrite Eh.
  - replace t1 with (fst (hostkey_phase c o)) by now rewrite Eh.
    apply sh_host; auto. now rewrite Eh.
Qed.

Lemma start_not_sensitive : ~ sensitive StartClient.
Proof. simpl. auto. Qed.

(* ------------------------------------------------------------------ C15_verify_first *)
Lemma c15_verify_first : forall (c : ssh_cfg) (o : ssh_oracle),
  c_verify c = true ->
  preceded_by sensitive is_accept (fst (ssh_connect c o)) /\
  (forall h, In (HostKeyAccepted h) (fst (ssh_connect c o)) -> justified c o h).
Proof.
  intros c o Hv. destruct (ssh_connect_shape c o) as [Hp|Hp Hk|Hp Hk Hh|t2 Hp Hk Hh Ha|t2 t3 r Hp Hk Hh Ha Hs]; simpl.
  - split; [apply preceded_by_none, none_of_nil | intros h []].
  - split.
    + apply preceded_by_none, none_of_cons; [exact start_not_sensitive | apply none_of_nil].
    + intros h [H|[]]. discriminate.
  - split.
    + apply preceded_by_none, none_of_cons; [exact start_not_sensitive | apply hostkey_phase_not_sensitive].
    + intros h [H|Hi]; [discriminate | now apply hostkey_phase_justified].
  - split.
    + change (StartClient :: fst (hostkey_phase c o) ++ t2)
        with ((StartClient :: fst (hostkey_phase c o)) ++ t2).
      apply preceded_by_app.
      * apply none_of_cons; [exact start_not_sensitive | apply hostkey_phase_not_sensitive].
      * destruct (hostkey_phase_accepted c o Hv Hh) as [q [Hq HQ]]. exists q. split; [now right | exact HQ].
    + intros h [H|Hi]; [discriminate|]. apply in_app_or in Hi as [Hi|Hi]; [now apply hostkey_phase_justified|].
      exfalso. assert (Hx := run_auth_events (auth_plan c o) (o_loads o) (o_auths o) (HostKeyAccepted h)).
      rewrite Ha in Hx. exact (Hx Hi).
  - split.
    + change (StartClient :: fst (hostkey_phase c o) ++ t2 ++ t3)
        with ((StartClient :: fst (hostkey_phase c o)) ++ (t2 ++ t3)).
      apply preceded_by_app.
      * apply none_of_cons; [exact start_not_sensitive | apply hostkey_phase_not_sensitive].
      * destruct (hostkey_phase_accepted c o Hv Hh) as [q [Hq HQ]]. exists q. split; [now right | exact HQ].
    + intros h [H|Hi]; [discriminate|]. apply in_app_or in Hi as [Hi|Hi]; [now apply hostkey_phase_justified|].
      exfalso. apply in_app_or in Hi as [Hi|Hi].
      * assert (Hx := run_auth_events (auth_plan c o) (o_loads o) (o_auths o) (HostKeyAccepted h)).
        rewrite Ha in Hx. exact (Hx Hi).
      * assert (Hx := run_subsystems_events (c_exec_fallback c) (c_subsystems c) (o_opens o) (o_subs o) (o_hello_ok o) (HostKeyAccepted h)).
        rewrite Hs in Hx. exact (Hx Hi).
Qed.

(* ------------------------------------------------------------------ C15_reject *)
Lemma c15_reject : forall (c : ssh_cfg) (o : ssh_oracle),
  c_verify c = true -> unjustified c o ->
  none_of sensitive (fst (ssh_connect c o)) /\
  (snd (ssh_connect c o) = Exn (SSHUnknownHost HHost (o_server_key o)) \/ snd (ssh_connect c o) = Exn SSHError) /\
  (c_pin c <> PinBad -> o_kex_ok o = true -> snd (ssh_connect c o) = Exn (SSHUnknownHost HHost (o_server_key o))).
Proof.
  intros c o Hv Hu. assert (Hf := hostkey_phase_unjustified c o Hv Hu).
  destruct (ssh_connect_shape c o) as [Hp|Hp Hk|Hp Hk Hh|t2 Hp Hk Hh Ha|t2 t3 r Hp Hk Hh Ha Hs]; simpl;
    try (rewrite Hf in Hh; discriminate).
  - split; [apply none_of_nil|]. split; [now right | intros H; contradiction].
  - split; [apply none_of_cons; [exact start_not_sensitive | apply none_of_nil]|].
    split; [now right | intros _ H; rewrite H in Hk; discriminate].
  - split; [apply none_of_cons; [exact start_not_sensitive | apply hostkey_phase_not_sensitive]|].
    split; [now left | reflexivity].
Qed.

(* ------------------------------------------------------------------ C15_auth_fail *)
Lemma c15_auth_fail : forall (c : ssh_cfg) (o : ssh_oracle),
  all_refused (o_auths o) ->
  none_of session_event (fst (ssh_connect c o)) /\
  none_of is_auth_ok (fst (ssh_connect c o)) /\
  (snd (ssh_connect c o) = Exn Authentication \/
   (none_of is_attempt (fst (ssh_connect c o)) /\
    (snd (ssh_connect c o) = Exn (SSHUnknownHost HHost (o_server_key o)) \/ snd (ssh_connect c o) = Exn SSHError))) /\
  (c_pin c <> PinBad -> o_kex_ok o = true -> snd (hostkey_phase c o) = true ->
   snd (ssh_connect c o) = Exn Authentication).
Proof.
  intros c o Har.
  destruct (run_auth_refused (auth_plan c o) (o_loads o) (o_auths o) Har) as [Hr Hn].
  assert (Hhs : none_of session_event (fst (hostkey_phase c o))).
  { intros e Hi Hs. apply (hostkey_phase_not_sensitive c o e Hi). now apply session_event_sensitive. }
  assert (Hha : none_of is_attempt (fst (hostkey_phase c o))).
  { intros e Hi Hs. apply (hostkey_phase_not_sensitive c o e Hi). now apply is_attempt_sensitive. }
  assert (Hhk : none_of is_auth_ok (fst (hostkey_phase c o))).
  { intros e Hi Hs. apply hostkey_phase_events in Hi as [->|[h ->]]; exact Hs. }
  destruct (ssh_connect_shape c o) as [Hp|Hp Hk|Hp Hk Hh|t2 Hp Hk Hh Ha|t2 t3 r Hp Hk Hh Ha Hs]; simpl.
  - repeat split; try apply none_of_nil.
    + right. split; [apply none_of_nil | now right].
    + intros H; contradiction.
  - repeat split; try (apply none_of_cons; [simpl; auto | apply none_of_nil]).
    + right. split; [apply none_of_cons; [simpl; auto | apply none_of_nil] | now right].
    + intros _ H. rewrite H in Hk. discriminate.
  - repeat split; try (apply none_of_cons; [simpl; auto | assumption]).
    + right. split; [apply none_of_cons; [simpl; auto | assumption] | now left].
    + intros _ _ H. rewrite H in Hh. discriminate.
  - rewrite Ha in Hn. simpl in Hn.
    assert (Ht2 : none_of session_event t2).
    { assert (Hx := run_auth_no_session (auth_plan c o) (o_loads o) (o_auths o)). now rewrite Ha in Hx. }
    repeat split.
    + apply none_of_cons; [simpl; auto | now apply none_of_app].
    + apply none_of_cons; [simpl; auto | now apply none_of_app].
    + now left.
  - rewrite Ha in Hr. simpl in Hr. discriminate.
Qed.

(* ------------------------------------------------------------------ C15_session_after_auth *)
Lemma c15_session_after_auth : forall (c : ssh_cfg) (o : ssh_oracle),
  preceded_by session_event is_auth_ok (fst (ssh_connect c o)) /\
  (snd (ssh_connect c o) = Ok ->
   In SendHello (fst (ssh_connect c o)) /\ exists m, In (AuthAttempt m true) (fst (ssh_connect c o))).
Proof.
  intros c o.
  assert (Hhs : none_of session_event (fst (hostkey_phase c o))).
  { intros e Hi Hs. apply (hostkey_phase_not_sensitive c o e Hi). now apply session_event_sensitive. }
  destruct (ssh_connect_shape c o) as [Hp|Hp Hk|Hp Hk Hh|t2 Hp Hk Hh Ha|t2 t3 r Hp Hk Hh Ha Hs]; simpl.
  - split; [apply preceded_by_none, none_of_nil | discriminate].
  - split; [apply preceded_by_none, none_of_cons; [simpl; auto | apply none_of_nil] | discriminate].
  - split; [apply preceded_by_none, none_of_cons; [simpl; auto | assumption] | discriminate].
  - split; [|discriminate]. apply preceded_by_none, none_of_cons; [simpl; auto|].
    apply none_of_app; [assumption|].
    assert (Hx := run_auth_no_session (auth_plan c o) (o_loads o) (o_auths o)). now rewrite Ha in Hx.
  - assert (Ht2 : none_of session_event t2).
    { assert (Hx := run_auth_no_session (auth_plan c o) (o_loads o) (o_auths o)). now rewrite Ha in Hx. }
    destruct (run_auth_true (auth_plan c o) (o_loads o) (o_auths o)) as [q [Hq HQ]]; [now rewrite Ha|].
    rewrite Ha in Hq. simpl in Hq.
    split.
    + replace (StartClient :: fst (hostkey_phase c o) ++ t2 ++ t3)
        with ((StartClient :: fst (hostkey_phase c o) ++ t2) ++ t3)
        by (simpl; now rewrite <- app_assoc).
      apply preceded_by_app.
      * apply none_of_cons; [simpl; auto | now apply none_of_app].
      * exists q. split; [|exact HQ]. right. apply in_or_app. now right.
    + intros Hr. subst r. split.
      * right. apply in_or_app. right. apply in_or_app. right.
        assert (Hx := run_subsystems_ok (c_exec_fallback c) (c_subsystems c) (o_opens o) (o_subs o) (o_hello_ok o)).
        rewrite Hs in Hx. now apply Hx.
      * destruct q as [| | |m ok| | | | | | | |]; try contradiction. destruct ok; [|contradiction].
        exists m. right. apply in_or_app. right. apply in_or_app. now left.
Qed.

(* ------------------------------------------------------------------ C15_tls *)
Definition is_hello (e : event) : Prop := e = SendHello.

Definition tls_hs (c : tls_cfg) : event := Handshake true (t_check_hostname c) (t_server_hostname c).
Definition tls_setup (c : tls_cfg) (e : event) : Prop :=
  e = TlsLoadCert \/ e = TlsLoadCA \/ e = TlsConnect \/ e = tls_hs c.

Ltac solve_in :=
  let e := fresh "e" in let Hi := fresh "Hi" in
  intros e Hi; simpl in Hi; unfold tls_setup;
  repeat (destruct Hi as [<-|Hi]; [auto 6|]); contradiction.

(* connect either fails with TLSError after set-up steps only, or performed a successful
   handshake and then sent the hello *)
Lemma tls_shape c o : exists pre,
  (forall e, In e pre -> tls_setup c e) /\
  (tls_connect c o = (pre, Exn TLSErr) \/
   (to_handshake_ok o = true /\ In (tls_hs c) pre /\ exists r, tls_connect c o = (pre ++ [SendHello], r))).
Proof.
  unfold tls_connect. fold (tls_hs c).
  destruct (t_host_given c && t_certfile_given c && t_protocol_given c); simpl.
  2:{ exists []. split; [solve_in | now left]. }
  destruct (to_load_cert o); simpl.
  2,3: (exists [TlsLoadCert]; split; [solve_in | now left]).
  destruct (t_ca_given c); simpl.
  - destruct (to_load_ca o); simpl.
    2,3: (exists [TlsLoadCert; TlsLoadCA]; split; [solve_in | now left]).
    destruct (to_connect_ok o); simpl.
    2:{ exists [TlsLoadCert; TlsLoadCA; TlsConnect]. split; [solve_in | now left]. }
    destruct (to_handshake_ok o); simpl.
    2:{ exists [TlsLoadCert; TlsLoadCA; TlsConnect; tls_hs c]. split; [solve_in | now left]. }
    exists [TlsLoadCert; TlsLoadCA; TlsConnect; tls_hs c]. split; [solve_in|]. right.
    split; [reflexivity|]. split; [simpl; auto 6|]. eexists. reflexivity.
  - destruct (to_connect_ok o); simpl.
    2:{ exists [TlsLoadCert; TlsConnect]. split; [solve_in | now left]. }
    destruct (to_handshake_ok o); simpl.
    2:{ exists [TlsLoadCert; TlsConnect; tls_hs c]. split; [solve_in | now left]. }
    exists [TlsLoadCert; TlsConnect; tls_hs c]. split; [solve_in|]. right.
    split; [reflexivity|]. split; [simpl; auto 6|]. eexists. reflexivity.
Qed.

Lemma tls_setup_facts c e : tls_setup c e ->
  e <> SendHello /\ ~ sensitive e /\
  (forall a b n, e = Handshake a b n -> a = true /\ b = t_check_hostname c).
Proof.
  unfold tls_setup, tls_hs. intros [-> | [-> | [-> | ->]]]; repeat split; simpl; auto; try discriminate.
  all: inversion H; auto.
Qed.

Lemma c15_tls : forall (c : tls_cfg) (o : tls_oracle),
  preceded_by is_hello (fun e => e = Handshake true (t_check_hostname c) (t_server_hostname c))
              (fst (tls_connect c o)) /\
  (forall a b n, In (Handshake a b n) (fst (tls_connect c o)) -> a = true /\ b = t_check_hostname c) /\
  (In SendHello (fst (tls_connect c o)) -> to_handshake_ok o = true) /\
  (to_handshake_ok o = false -> snd (tls_connect c o) = Exn TLSErr /\ ~ In SendHello (fst (tls_connect c o))) /\
  (forall e, In e (fst (tls_connect c o)) -> ~ sensitive e \/ e = SendHello).
Proof.
  intros c o. destruct (tls_shape c o) as [pre [Hpre [E|[Hok [Hin [r E]]]]]]; rewrite E; simpl.
  - assert (Hnh : ~ In SendHello pre).
    { intros Hi. apply Hpre, tls_setup_facts in Hi. now destruct Hi. }
    split; [|split; [|split; [|split]]].
    + apply preceded_by_none. intros e Hi He. unfold is_hello in He. subst e. contradiction.
    + intros a b n H. apply Hpre, tls_setup_facts in H. destruct H as [_ [_ H]]. exact (H a b n eq_refl).
    + intros Hi. contradiction.
    + intros _. split; [reflexivity | exact Hnh].
    + intros e Hi. left. apply Hpre, tls_setup_facts in Hi. now destruct Hi as [_ [Hi _]].
  - split; [|split; [|split; [|split]]].
    + apply preceded_by_app.
      * intros e Hi He. unfold is_hello in He. apply Hpre, tls_setup_facts in Hi. now destruct Hi.
      * exists (tls_hs c). split; [exact Hin | reflexivity].
    + intros a b n H. apply in_app_or in H as [H|[H|[]]]; [|discriminate].
      apply Hpre, tls_setup_facts in H. destruct H as [_ [_ H]]. exact (H a b n eq_refl).
    + intros _. exact Hok.
    + intros H. rewrite Hok in H. discriminate.
    + intros e Hi. apply in_app_or in Hi as [Hi|[<-|[]]]; [left | now right].
      apply Hpre, tls_setup_facts in Hi. now destruct Hi as [_ [Hi _]].
Qed.

(* ------------------------------------------------------------------ C15_callback_args *)
(* the oracle with another caller's callback, everything else unchanged *)
Definition with_cb (o : ssh_oracle) (f : hsel -> key -> bool) : ssh_oracle :=
  {| o_kex_ok := o_kex_ok o; o_server_key := o_server_key o; o_cb := f; o_loads := o_loads o;
     o_agent_keys := o_agent_keys o; o_default_keys := o_default_keys o; o_auths := o_auths o;
     o_opens := o_opens o; o_subs := o_subs o; o_hello_ok := o_hello_ok o |}.

Lemma run_subsystems_result fb names : forall opens subs hk,
  snd (run_subsystems fb names opens subs hk) = Ok \/
  snd (run_subsystems fb names opens subs hk) = Exn SSHError \/
  snd (run_subsystems fb names opens subs hk) = Exn Other.
Proof.
  induction names as [|n rest IH]; intros opens subs hk; simpl; [auto|].
  destruct (hd_or false opens); [|simpl; auto].
  destruct (hd_or false subs).
  - destruct hk; simpl; auto.
  - destruct fb.
    + destruct hk; simpl; auto.
    + destruct (run_subsystems false rest (tl opens) (tl subs) hk) as [t r] eqn:E. simpl.
      specialize (IH (tl opens) (tl subs) hk). now rewrite E in IH.
Qed.

(* an event that is neither StartClient nor sensitive can only come from the host-key block *)
Lemma ssh_connect_phase_events c o e :
  In e (fst (ssh_connect c o)) -> ~ sensitive e -> e <> StartClient -> In e (fst (hostkey_phase c o)).
Proof.
  intros Hi Hns Hne.
  destruct (ssh_connect_shape c o) as [Hp|Hp Hk|Hp Hk Hh|t2 Hp Hk Hh Ha|t2 t3 r Hp Hk Hh Ha Hs]; simpl in Hi.
  - contradiction.
  - destruct Hi as [<-|[]]. now contradiction Hne.
  - destruct Hi as [<-|Hi]; [now contradiction Hne | exact Hi].
  - destruct Hi as [<-|Hi]; [now contradiction Hne|]. apply in_app_or in Hi as [Hi|Hi]; [exact Hi|].
    exfalso. apply Hns, is_attempt_sensitive.
    assert (Hx := run_auth_events (auth_plan c o) (o_loads o) (o_auths o) e). rewrite Ha in Hx. now apply Hx.
  - destruct Hi as [<-|Hi]; [now contradiction Hne|]. apply in_app_or in Hi as [Hi|Hi]; [exact Hi|].
    exfalso. apply Hns. apply in_app_or in Hi as [Hi|Hi].
    + apply is_attempt_sensitive.
      assert (Hx := run_auth_events (auth_plan c o) (o_loads o) (o_auths o) e). rewrite Ha in Hx. now apply Hx.
    + apply session_event_sensitive.
      assert (Hx := run_subsystems_events (c_exec_fallback c) (c_subsystems c) (o_opens o) (o_subs o) (o_hello_ok o) e).
      rewrite Hs in Hx. now apply Hx.
Qed.

(* the caller's callback is invoked only in the configuration in which it is in force, and on
   (dialled host, presented key) *)
Lemma hostkey_phase_asked c o s k :
  In (CallbackAsked s k) (fst (hostkey_phase c o)) ->
  s = HHost /\ k = o_server_key o /\ c_verify c = true /\ c_user_cb c = true /\ c_profile_cb c = false /\
  known_how c (o_server_key o) = None.
Proof.
  unfold hostkey_phase. destruct (c_verify c); [|intros []].
  destruct (known_how c (o_server_key o)) as [h|]; [simpl; intros [H|[]]; discriminate|].
  assert (G : In (CallbackAsked s k) (cb_events c o) ->
              s = HHost /\ k = o_server_key o /\ true = true /\ c_user_cb c = true /\ c_profile_cb c = false /\
              @None how = None).
  { unfold cb_events, cb_host. destruct (c_profile_cb c); [intros []|].
    destruct (c_user_cb c); [|intros []]. intros [H|[]]. inversion H. repeat split; reflexivity. }
  destruct (cb_verdict c o); simpl; [|exact G].
  intros Hi. apply in_app_or in Hi as [Hi|[H|[]]]; [now apply G | discriminate].
Qed.

(* acceptance on the authority of the caller's callback: it was asked, immediately before,
   about exactly (dialled host, presented key), and its answer to exactly those was yes *)
Lemma hostkey_phase_by_callback c o :
  In (HostKeyAccepted ByCallback) (fst (hostkey_phase c o)) -> c_profile_cb c = false ->
  c_user_cb c = true /\ o_cb o HHost (o_server_key o) = true /\
  fst (hostkey_phase c o) = [CallbackAsked HHost (o_server_key o); HostKeyAccepted ByCallback].
Proof.
  unfold hostkey_phase. destruct (c_verify c); [|intros []].
  destruct (known_how c (o_server_key o)) as [h|] eqn:E.
  - simpl. intros [H|[]]. inversion H; subst. exfalso. exact (known_how_not_cb c _ E).
  - intros Hi Hp. unfold cb_verdict, cb_events, cb_host in *. rewrite Hp in *.
    destruct (c_user_cb c).
    + destruct (o_cb o HHost (o_server_key o)) eqn:Ecb; simpl in *.
      * repeat split; reflexivity.
      * destruct Hi as [H|[]]. discriminate.
    + simpl in Hi. contradiction.
Qed.

(* refusal while the caller's callback is in force: it was asked about exactly (dialled host,
   presented key) and said no *)
Lemma hostkey_phase_refused_by_callback c o :
  c_verify c = true -> snd (hostkey_phase c o) = false -> c_profile_cb c = false -> c_user_cb c = true ->
  fst (hostkey_phase c o) = [CallbackAsked HHost (o_server_key o)] /\ o_cb o HHost (o_server_key o) = false.
Proof.
  unfold hostkey_phase. intros -> Hs Hp Hu.
  destruct (known_how c (o_server_key o)) as [h|]; [discriminate|].
  unfold cb_verdict, cb_events, cb_host in *. rewrite Hp, Hu in *.
  destruct (o_cb o HHost (o_server_key o)); simpl in *; [discriminate|]. split; reflexivity.
Qed.

Lemma unknown_host_result c o s k :
  snd (ssh_connect c o) = Exn (SSHUnknownHost s k) ->
  s = HHost /\ k = o_server_key o /\ c_pin c <> PinBad /\ o_kex_ok o = true /\
  snd (hostkey_phase c o) = false /\ fst (ssh_connect c o) = StartClient :: fst (hostkey_phase c o).
Proof.
  destruct (ssh_connect_shape c o) as [Hp|Hp Hk|Hp Hk Hh|t2 Hp Hk Hh Ha|t2 t3 r Hp Hk Hh Ha Hs]; simpl;
    try discriminate.
  - intros H. inversion H. repeat split; auto.
  - intros ->. exfalso.
    destruct (run_subsystems_result (c_exec_fallback c) (c_subsystems c) (o_opens o) (o_subs o) (o_hello_ok o)) as [H|[H|H]];
      rewrite Hs in H; discriminate.
Qed.

(* connect looks at the caller's callback at one point only *)
Lemma ssh_connect_cb_ext c o f :
  f HHost (o_server_key o) = o_cb o HHost (o_server_key o) -> ssh_connect c (with_cb o f) = ssh_connect c o.
Proof.
  intros Hf. unfold ssh_connect, hostkey_phase, cb_verdict, cb_events, cb_host, auth_plan, with_cb. simpl.
  rewrite Hf. reflexivity.
Qed.

Lemma c15_callback_args : forall (c : ssh_cfg) (o : ssh_oracle),
  (forall s k, In (CallbackAsked s k) (fst (ssh_connect c o)) ->
     s = HHost /\ k = o_server_key o /\ c_verify c = true /\ c_user_cb c = true /\ c_profile_cb c = false) /\
  (forall s k, snd (ssh_connect c o) = Exn (SSHUnknownHost s k) -> s = HHost /\ k = o_server_key o) /\
  (c_profile_cb c = false -> In (HostKeyAccepted ByCallback) (fst (ssh_connect c o)) ->
     c_user_cb c = true /\ o_cb o HHost (o_server_key o) = true /\
     exists post, fst (ssh_connect c o)
                  = StartClient :: CallbackAsked HHost (o_server_key o) :: HostKeyAccepted ByCallback :: post) /\
  (c_verify c = true -> c_profile_cb c = false -> c_user_cb c = true ->
   forall s k, snd (ssh_connect c o) = Exn (SSHUnknownHost s k) ->
     o_cb o HHost (o_server_key o) = false /\
     fst (ssh_connect c o) = [StartClient; CallbackAsked HHost (o_server_key o)]) /\
  (forall f, f HHost (o_server_key o) = o_cb o HHost (o_server_key o) ->
     ssh_connect c (with_cb o f) = ssh_connect c o).
Proof.
  intros c o. split; [|split; [|split; [|split]]].
  - intros s k Hi. apply ssh_connect_phase_events in Hi; [|simpl; auto|discriminate].
    apply hostkey_phase_asked in Hi. tauto.
  - intros s k H. apply unknown_host_result in H. tauto.
  - intros Hp Hi. assert (Hph := Hi). apply ssh_connect_phase_events in Hph; [|simpl; auto|discriminate].
    destruct (hostkey_phase_by_callback c o Hph Hp) as [Hu [Hcb Hfst]].
    split; [exact Hu|]. split; [exact Hcb|].
    destruct (ssh_connect_shape c o) as [Hpb|Hpb Hk|Hpb Hk Hh|t2 Hpb Hk Hh Ha|t2 t3 r Hpb Hk Hh Ha Hs]; simpl in *.
    + contradiction.
    + destruct Hi as [H|[]]. discriminate.
    + rewrite Hfst. now exists [].
    + rewrite Hfst. now exists t2.
    + rewrite Hfst. now exists (t2 ++ t3).
  - intros Hv Hp Hu s k H. apply unknown_host_result in H as [_ [_ [_ [_ [Hs Hfst]]]]].
    destruct (hostkey_phase_refused_by_callback c o Hv Hs Hp Hu) as [Hph Hcb].
    split; [exact Hcb|]. now rewrite Hfst, Hph.
  - intros f. apply ssh_connect_cb_ext.
Qed.

(* ------------------------------------------------------------------ C15_fresh_judgement (histories of sessions) *)
Lemma ssh_history_nth : forall (pre post : list (ssh_cfg * ssh_oracle)) (c : ssh_cfg) (o : ssh_oracle),
  nth_error (ssh_history (pre ++ (c, o) :: post)) (length pre) = Some (ssh_connect c o).
Proof.
  intros pre post c o. unfold ssh_history. rewrite map_app.
  rewrite nth_error_app2 by (rewrite map_length; apply le_n).
  rewrite map_length, PeanoNat.Nat.sub_diag. reflexivity.
Qed.

Lemma c15_fresh_judgement : forall (pre post : list (ssh_cfg * ssh_oracle)) (c : ssh_cfg) (o : ssh_oracle) (r : (trace * result)%type),
  nth_error (ssh_history (pre ++ (c, o) :: post)) (length pre) = Some r ->
  r = ssh_connect c o /\
  (c_verify c = true ->
     preceded_by sensitive is_accept (fst r) /\ (forall h, In (HostKeyAccepted h) (fst r) -> justified c o h)) /\
  (c_verify c = true -> unjustified c o ->
     none_of sensitive (fst r) /\
     (snd r = Exn (SSHUnknownHost HHost (o_server_key o)) \/ snd r = Exn SSHError) /\
     (c_pin c <> PinBad -> o_kex_ok o = true -> snd r = Exn (SSHUnknownHost HHost (o_server_key o)))).
Proof.
  intros pre post c o r H. rewrite ssh_history_nth in H. inversion H; subst r. clear H.
  split; [reflexivity|]. split.
  - intros Hv. exact (c15_verify_first c o Hv).
  - intros Hv Hu. exact (c15_reject c o Hv Hu).
Qed.
