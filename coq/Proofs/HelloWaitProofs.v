(* HelloWaitProofs.v — the deadline of the wait for the server hello as a function of the connect arguments. *)
From Coq Require Import Lia.
From NC Require Import Model.Base Model.HelloWait Spec.HelloWaitSpec.

Lemma extract_keeps_kw : forall kw mp, snd (extract_manager_params false kw mp) = kw.
Proof. intros kw mp. destruct mp as [m|]; destruct kw as [v|]; reflexivity. Qed.

(* a timeout the caller gave — positionally or as keyword, with or without manager_params, through any of the four
   entry points — is the deadline of the wait: neither unbounded, nor shorter, nor longer *)
Lemma c05_wait_requested : forall e a t,
  wf a -> requested a = Some t -> hello_wait e a = Bounded t.
Proof.
  intros e a t Hwf Hreq. unfold hello_wait, hello_wait_gen. rewrite extract_keeps_kw.
  unfold requested in Hreq. destruct a as [pos kw mp cfg]; cbn in *.
  destruct pos as [[|p]|].
  - discriminate.
  - inversion Hreq; subst. destruct e; reflexivity.
  - destruct kw as [[|k]|]; try discriminate. inversion Hreq; subst. destruct e; reflexivity.
Qed.

(* when the caller gave none the wait still has a deadline: the documented default *)
Lemma c05_wait_default : forall e a,
  wf a -> requested a = None -> hello_wait e a = Bounded (default_wait e a).
Proof.
  intros e a Hwf Hreq. unfold hello_wait, hello_wait_gen. rewrite extract_keeps_kw.
  unfold requested in Hreq. unfold default_wait. destruct a as [pos kw mp cfg]; cbn in *.
  destruct Hwf as [Hp|Hk]; cbn in *; subst.
  - destruct kw as [[|k]|]; try discriminate; destruct e; destruct cfg; reflexivity.
  - destruct pos as [[|p]|]; try discriminate; destruct e; destruct cfg; reflexivity.
Qed.

(* hence never Event.wait(None) *)
Lemma c05_wait_bounded : forall e a, wf a -> exists t, hello_wait e a = Bounded t.
Proof.
  intros e a Hwf. destruct (requested a) as [t|] eqn:Hreq.
  - exists t. apply c05_wait_requested; assumption.
  - exists (default_wait e a). apply c05_wait_default; assumption.
Qed.

(* manager_params (the Manager's RPC timeout) has no influence on the connect deadline ... *)
Lemma c05_wait_ignores_manager_params : forall e a m, hello_wait e (with_mp a m) = hello_wait e a.
Proof.
  intros e a m. unfold hello_wait, hello_wait_gen. rewrite !extract_keeps_kw. reflexivity.
Qed.

(* ... and the Manager gets manager_params['timeout'], else the connect keyword, else 30 s *)
Lemma c05_manager_timeout : forall a,
  manager_timeout a = match a_mp a with
                      | Some m => m
                      | None => match a_kw a with Some v => v | None => PNum default_manager_ms end
                      end.
Proof. intros [pos kw [m|] cfg]; destruct kw; reflexivity. Qed.

(* connect is connect_ssh *)
Lemma c05_wait_connect_is_ssh : forall a, hello_wait EConnect a = hello_wait EConnectSsh a.
Proof. reflexivity. Qed.

(* a helper that pops the keyword loses the caller's timeout on SSH: the wait falls back to the default
   (and, before the repair of the None case, is unbounded) *)
Lemma c05_wait_pop_loses : forall t,
  let a := {| a_pos := None; a_kw := Some (PNum t); a_mp := None; a_cfg := None |} in
  hello_wait_gen true true true EConnectSsh a = Bounded default_hello_ms /\
  hello_wait_gen true true false EConnectSsh a = Unbounded /\
  hello_wait EConnectSsh a = Bounded t.
Proof. intros t a. repeat split; reflexivity. Qed.
