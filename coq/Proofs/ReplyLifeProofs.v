(* ReplyLifeProofs.v — C10 over histories: which reply object an RPC ends up with, whatever happens
   between request() and the delivery (Model/ReplyLife.v, Spec/ReplyLifeSpec.v). *)
From NC Require Import Model.Base Model.XTree Model.XmlHelpers Model.NsStrip Model.ReplyView Model.ReplyLife.
From NC Require Import Spec.ReplySpec Spec.ReplyLifeSpec Proofs.ReplyProofs.

Lemma run_app : forall h1 h2 w, run_hist w (h1 ++ h2) = run_hist (run_hist w h1) h2.
Proof. intros h1 h2 w. unfold run_hist. apply fold_left_app. Qed.

Lemma run_cons : forall e h w, run_hist w (e :: h) = run_hist (step w e) h.
Proof. reflexivity. Qed.

Lemma upd_same : forall id o f, upd id o f id = Some o.
Proof. intros id o f. unfold upd. rewrite N.eqb_refl. reflexivity. Qed.

Lemma upd_other : forall id i o f, N.eqb id i = false -> upd i o f id = f id.
Proof. intros id i o f H. unfold upd. rewrite H. reflexivity. Qed.

Lemma none_of_cons : forall p e h, none_of p (e :: h) -> p e = false /\ none_of p h.
Proof. intros p e h H. split; [apply H; left; reflexivity|intros x Hx; apply H; right; exact Hx]. Qed.

Lemma none_of_app : forall p h1 h2, none_of p (h1 ++ h2) -> none_of p h1 /\ none_of p h2.
Proof. intros p h1 h2 H. split; intros x Hx; apply H; apply in_or_app; [left|right]; exact Hx. Qed.

(* the Manager's flag only moves by ESetMgrHuge *)
Lemma step_mgr_huge : forall w e, w_huge (step w e) = mgr_huge_after (w_huge w) [e].
Proof.
  intros w [b|b|id cls forced|id b|id raw]; cbn [step mgr_huge_after w_huge]; try reflexivity.
  - destruct (w_rpcs w id) as [o|]; reflexivity.
  - destruct (w_rpcs w id) as [o|]; [destruct (o_reg o)|]; reflexivity.
Qed.

Lemma run_mgr_huge : forall h w, w_huge (run_hist w h) = mgr_huge_after (w_huge w) h.
Proof.
  induction h as [|e h IH]; intro w; [reflexivity|].
  rewrite run_cons, IH, step_mgr_huge. destruct e; reflexivity.
Qed.

(* what the other events do to the object with this id *)
Lemma step_other : forall w e id,
  calls id e = false -> delivers id e = false -> sets id e = false ->
  w_rpcs (step w e) id = w_rpcs w id.
Proof.
  intros w [b|b|i cls forced|i b|i raw] id Hc Hd Hs; cbn [step w_rpcs calls delivers sets] in *; try reflexivity.
  - rewrite N.eqb_sym in Hc. apply upd_other; exact Hc.
  - destruct (w_rpcs w i) as [o|]; [|reflexivity]. cbn [w_rpcs]. rewrite N.eqb_sym in Hs. apply upd_other; exact Hs.
  - destruct (w_rpcs w i) as [o|]; [|reflexivity]. destruct (o_reg o); [|reflexivity].
    cbn [w_rpcs]. rewrite N.eqb_sym in Hd. apply upd_other; exact Hd.
Qed.

(* between the call and the delivery: registered, no reply yet, the flag follows the caller's own writes *)
Lemma run_pending : forall mid w id cls b a,
  w_rpcs w id = Some (mkRpc cls b a true None) ->
  none_of (calls id) mid -> none_of (delivers id) mid ->
  w_rpcs (run_hist w mid) id = Some (mkRpc cls (rpc_huge_after id b mid) a true None).
Proof.
  induction mid as [|e mid IH]; intros w id cls b a Hw Hc Hd; [exact Hw|].
  apply none_of_cons in Hc as [Hc1 Hc]. apply none_of_cons in Hd as [Hd1 Hd].
  rewrite run_cons.
  destruct (sets id e) eqn:Hs.
  - destruct e as [x|x|i c f|i x|i r]; try discriminate Hs. cbn [sets] in Hs.
    apply N.eqb_eq in Hs. subst i. cbn [rpc_huge_after]. rewrite N.eqb_refl.
    apply IH; [|exact Hc|exact Hd]. cbn [step]. rewrite Hw. cbn [w_rpcs]. rewrite upd_same. reflexivity.
  - assert (Hr : rpc_huge_after id b (e :: mid) = rpc_huge_after id b mid).
    { destruct e as [x|x|i c f|i x|i r]; try reflexivity. cbn [sets] in Hs. cbn [rpc_huge_after]. rewrite Hs. reflexivity. }
    rewrite Hr. apply IH; [|exact Hc|exact Hd]. rewrite step_other; assumption.
Qed.

Lemma step_deliver : forall w id cls b a raw,
  w_rpcs w id = Some (mkRpc cls b a true None) ->
  w_rpcs (step w (EDeliver id raw)) id = Some (mkRpc cls b a false (Some (mkReply cls raw b))).
Proof.
  intros w id cls b a raw Hw. cbn [step]. rewrite Hw. cbn [o_reg w_rpcs]. rewrite upd_same. reflexivity.
Qed.

(* after the delivery nothing reaches the reply object any more: a second message with the same
   id, the caller's writes to the RPC object, other calls and deliveries *)
Lemma run_answered : forall h w id o,
  w_rpcs w id = Some o -> o_reg o = false -> none_of (calls id) h ->
  exists o', w_rpcs (run_hist w h) id = Some o' /\ o_reg o' = false /\ o_reply o' = o_reply o /\ o_cls o' = o_cls o.
Proof.
  induction h as [|e h IH]; intros w id o Hw Hr Hc.
  - exists o. repeat split; assumption.
  - apply none_of_cons in Hc as [Hc1 Hc]. rewrite run_cons.
    destruct (delivers id e) eqn:Hd.
    { destruct e as [x|x|i c f|i x|i r]; try discriminate Hd. cbn [delivers] in Hd. apply N.eqb_eq in Hd. subst i.
      apply IH; [|exact Hr|exact Hc]. cbn [step]. rewrite Hw, Hr. exact Hw. }
    destruct (sets id e) eqn:Hs.
    { destruct e as [x|x|i c f|i x|i r]; try discriminate Hs. cbn [sets] in Hs. apply N.eqb_eq in Hs. subst i.
      destruct (IH (step w (ESetRpcHuge id x)) id (set_huge x o)) as (o' & H1 & H2 & H3 & H4); [|exact Hr|exact Hc|].
      - cbn [step]. rewrite Hw. cbn [w_rpcs]. apply upd_same.
      - exists o'. repeat split; assumption. }
    apply IH; [|exact Hr|exact Hc]. rewrite step_other; assumption.
Qed.

Lemma rpc_huge_after_none : forall id b h, none_of (sets id) h -> rpc_huge_after id b h = b.
Proof.
  intros id b h. revert b. induction h as [|e h IH]; intros b H; [reflexivity|].
  apply none_of_cons in H as [H1 H]. destruct e as [x|x|i c f|i x|i r]; cbn [rpc_huge_after]; try (apply IH; exact H).
  cbn [sets] in H1. rewrite H1. apply IH; exact H.
Qed.

(* the world right after the delivery of the reply of the call (id, cls, forced) *)
Lemma run_call_deliver : forall w pre id cls forced mid raw,
  none_of (calls id) mid -> none_of (delivers id) mid ->
  exists a, w_rpcs (run_hist w (pre ++ ECall id cls forced :: mid ++ [EDeliver id raw])) id =
    let f := rpc_huge_after id (call_flag (mgr_huge_after (w_huge w) pre) forced) mid in
    Some (mkRpc cls f a false (Some (mkReply cls raw f))).
Proof.
  intros w pre id cls forced mid raw Hc Hd.
  exists (w_async (run_hist w pre)).
  rewrite run_app, run_cons, run_app. cbn [run_hist fold_left]. cbv zeta.
  apply step_deliver. rewrite <- (run_mgr_huge pre w).
  apply run_pending; [|exact Hc|exact Hd].
  cbn [step w_rpcs]. apply upd_same.
Qed.

Lemma c10_life_reply : forall w pre id cls forced mid raw post,
  none_of (calls id) (mid ++ post) -> none_of (delivers id) mid ->
  reply_of id (run_hist w (pre ++ ECall id cls forced :: mid ++ EDeliver id raw :: post)) =
  Some (mkReply cls raw (rpc_huge_after id (call_flag (mgr_huge_after (w_huge w) pre) forced) mid)).
Proof.
  intros w pre id cls forced mid raw post Hc Hd.
  apply none_of_app in Hc as [Hc1 Hc2].
  destruct (run_call_deliver w pre id cls forced mid raw Hc1 Hd) as (a & H). cbv zeta in H.
  replace (pre ++ ECall id cls forced :: mid ++ EDeliver id raw :: post)
    with ((pre ++ ECall id cls forced :: mid ++ [EDeliver id raw]) ++ post)
    by (rewrite <- !app_assoc; cbn [app]; rewrite <- app_assoc; reflexivity).
  rewrite run_app.
  destruct (run_answered post _ id _ H eq_refl Hc2) as (o' & H1 & _ & H3 & _).
  unfold reply_of. rewrite H1, H3. reflexivity.
Qed.

Lemma c10_life_flag : forall w pre id cls forced mid raw post r,
  none_of (calls id) (mid ++ post) -> none_of (delivers id) mid -> none_of (sets id) mid ->
  reply_of id (run_hist w (pre ++ ECall id cls forced :: mid ++ EDeliver id raw :: post)) = Some r ->
  reply_xml r = raw /\ r_cls r = cls /\ r_huge r = call_flag (mgr_huge_after (w_huge w) pre) forced.
Proof.
  intros w pre id cls forced mid raw post r Hc Hd Hs H.
  rewrite c10_life_reply in H by assumption. rewrite rpc_huge_after_none in H by exact Hs.
  injection H as <-. repeat split.
Qed.

(* ---------------- the synchronous call is one such history ---------------- *)
Lemma request_post : forall P Q Q2 p cls mgr forced rk raw,
  request P Q Q2 p cls mgr forced rk raw =
  post P Q Q2 p rk (call_flag mgr forced) (deliver_reply cls raw (call_flag mgr forced)).
Proof. reflexivity. Qed.

Lemma c10_life_sync : forall P Q Q2 p rk w pre id cls forced mid raw,
  none_of (calls id) mid -> none_of (delivers id) mid -> none_of (sets id) mid ->
  finish P Q Q2 p rk id (run_hist w (pre ++ ECall id cls forced :: mid ++ [EDeliver id raw])) =
  Some (request P Q Q2 p cls (mgr_huge_after (w_huge w) pre) forced rk raw).
Proof.
  intros P Q Q2 p rk w pre id cls forced mid raw Hc Hd Hs.
  destruct (run_call_deliver w pre id cls forced mid raw Hc Hd) as (a & H). cbv zeta in H.
  rewrite rpc_huge_after_none in H by exact Hs.
  unfold finish. rewrite H. cbn [o_reply o_huge]. rewrite request_post. reflexivity.
Qed.

(* ---------------- the asynchronous caller ---------------- *)
Lemma c10_async_sites : forall P p r s fl, In (s, fl) (snd (async_read P p r)) -> fl = r_huge r.
Proof.
  intros P p r s fl H. unfold async_read in H.
  destruct (P (r_huge r) (r_raw r)) as [root|]; [destruct (hook p (r_cls r) root)|];
    cbn [snd] in H; destruct H as [H|[]]; congruence.
Qed.

Lemma c10_async_view : forall P p r r' root d,
  fst (async_read P p r) = OReply r' root d ->
  r' = r /\ P (r_huge r) (r_raw r) = Some root /\ d = hook p (r_cls r) root /\ d <> DAttrErr.
Proof.
  intros P p r r' root d H. unfold async_read in H.
  destruct (P (r_huge r) (r_raw r)) as [root0|]; [|discriminate].
  destruct (hook p (r_cls r) root0) eqn:E; cbn [fst] in H; try discriminate;
    injection H as <- <- <-; repeat split; congruence.
Qed.

Lemma c10_life_async : forall P p w pre id cls forced mid raw post,
  none_of (calls id) (mid ++ post) -> none_of (delivers id) mid -> none_of (sets id) mid ->
  let f := call_flag (mgr_huge_after (w_huge w) pre) forced in
  exists r, reply_of id (run_hist w (pre ++ ECall id cls forced :: mid ++ EDeliver id raw :: post)) = Some r /\
            reply_xml r = raw /\ r_cls r = cls /\
            (forall s fl, In (s, fl) (snd (async_read P p r)) -> fl = f) /\
            (f = true -> P true raw <> None -> fst (async_read P p r) <> OParseError).
Proof.
  intros P p w pre id cls forced mid raw post Hc Hd Hs f.
  exists (mkReply cls raw f). split.
  - rewrite c10_life_reply by assumption. rewrite rpc_huge_after_none by exact Hs. reflexivity.
  - repeat split.
    + intros s fl H. apply c10_async_sites in H. exact H.
    + intros Hf HP H. unfold async_read in H. cbn [r_huge r_raw r_cls] in H. rewrite Hf in H.
      destruct (P true raw) as [root|]; [|congruence].
      destruct (hook p cls root); discriminate.
Qed.

(* ---------------- repeats: the k-th answer equals the first ----------------
   Nothing in the world records how many replies were served: the profile's repair (hook: the
   Junos get-schema fix), the reply transform and the parsers are functions of (profile, class,
   text, flag) only.  Two calls - anywhere in one history (pre2 may extend the whole first
   call) or in two histories - of the same class answered with the same text under the same call
   flag give the caller the same result. *)
Lemma c10_life_repeat_sync : forall P Q Q2 p rk w cls forced raw pre1 id1 mid1 pre2 id2 mid2,
  none_of (calls id1) mid1 -> none_of (delivers id1) mid1 -> none_of (sets id1) mid1 ->
  none_of (calls id2) mid2 -> none_of (delivers id2) mid2 -> none_of (sets id2) mid2 ->
  call_flag (mgr_huge_after (w_huge w) pre1) forced = call_flag (mgr_huge_after (w_huge w) pre2) forced ->
  finish P Q Q2 p rk id1 (run_hist w (pre1 ++ ECall id1 cls forced :: mid1 ++ [EDeliver id1 raw])) =
  finish P Q Q2 p rk id2 (run_hist w (pre2 ++ ECall id2 cls forced :: mid2 ++ [EDeliver id2 raw])).
Proof.
  intros P Q Q2 p rk w cls forced raw pre1 id1 mid1 pre2 id2 mid2 Hc1 Hd1 Hs1 Hc2 Hd2 Hs2 Hf.
  rewrite !c10_life_sync by assumption. rewrite !request_post, Hf. reflexivity.
Qed.

Lemma c10_life_repeat_async : forall P p w cls forced raw pre1 id1 mid1 post1 pre2 id2 mid2 post2,
  none_of (calls id1) (mid1 ++ post1) -> none_of (delivers id1) mid1 -> none_of (sets id1) mid1 ->
  none_of (calls id2) (mid2 ++ post2) -> none_of (delivers id2) mid2 -> none_of (sets id2) mid2 ->
  call_flag (mgr_huge_after (w_huge w) pre1) forced = call_flag (mgr_huge_after (w_huge w) pre2) forced ->
  exists r, reply_of id1 (run_hist w (pre1 ++ ECall id1 cls forced :: mid1 ++ EDeliver id1 raw :: post1)) = Some r /\
            reply_of id2 (run_hist w (pre2 ++ ECall id2 cls forced :: mid2 ++ EDeliver id2 raw :: post2)) = Some r /\
            async_read P p r = async_read P p (mkReply cls raw (call_flag (mgr_huge_after (w_huge w) pre1) forced)).
Proof.
  intros P p w cls forced raw pre1 id1 mid1 post1 pre2 id2 mid2 post2 Hc1 Hd1 Hs1 Hc2 Hd2 Hs2 Hf.
  exists (mkReply cls raw (call_flag (mgr_huge_after (w_huge w) pre1) forced)).
  rewrite !c10_life_reply by assumption. rewrite !rpc_huge_after_none by assumption. rewrite Hf.
  repeat split.
Qed.
