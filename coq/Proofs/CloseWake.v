(* Proofs/CloseWake.v — C12 on every transport: close() returns whatever the worker is doing when
   it is called - in particular when the worker is ASLEEP INSIDE a transport read (state WBlocked
   of Model/Close.v).  That case rests on the oracle hypothesis (O6): a read sleeping on a handle
   is woken by the local shutdown/close of that handle and returns without data
   (CloseThms.c12_blocked_woken); with the handle open no worker step is enabled
   (CloseThms.c12_blocked_needs_wakeup), so the closing flag alone would never end it. *)
From Coq Require Import Lia.
From NC Require Import Model.Base Model.Close Spec.CloseSpec Proofs.CloseProofs Proofs.CloseThms.
From NC Require Import Proofs.CloseSsh.

Local Open Scope nat_scope.

(* in a locally closed session the worker has a step of its own that brings it nearer to its end
   (sfuel decreases): at a read it is the return without data - for a sleeping read by (O6) *)
Lemma progress_dec : forall s, not_alive (worker s) = false -> closing s = true -> socket_open s = false ->
  exists l s1, is_worker_label l = true /\ step s l = Some s1 /\ sfuel (worker s1) < sfuel (worker s).
Proof.
  intros s A C O. pose proof (close_prog_len (tr s)) as L.
  destruct (worker s) eqn:W; simpl in A; try discriminate.
  - (* WTop *) exists SelectBegin; eexists; split; [reflexivity|]. unfold step; rewrite W.
    split; [reflexivity|]. destruct (closed_locally s); simpl; lia.
  - (* WSelecting *) exists (Select false); eexists; split; [reflexivity|]. unfold step; rewrite W.
    split; [reflexivity|]. simpl; lia.
  - (* WReady *) exists ReadBegin; eexists; split; [reflexivity|]. unfold step; rewrite W.
    split; [reflexivity|]. simpl; lia.
  - (* WReading *) exists (Read RErr); eexists; split; [reflexivity|]. unfold step; rewrite W.
    split; [reflexivity|]. simpl; lia.
  - (* WBlocked: (O6) *) exists (Read RErr); eexists; split; [reflexivity|]. unfold step; rewrite W, O.
    split; [reflexivity|]. simpl; lia.
  - (* WDispatching *) exists CbRaise; eexists; split; [reflexivity|]. unfold step; rewrite W.
    split; [reflexivity|]. simpl; lia.
  - (* WAfterTimeout *) exists (ChkClosing true); eexists; split; [reflexivity|]. unfold step; rewrite W, C.
    split; [reflexivity|]. simpl; lia.
  - (* WAfterEof *) exists (ChkClosing true); eexists; split; [reflexivity|]. unfold step; rewrite W, C.
    split; [reflexivity|]. simpl; lia.
  - (* WBreak *) exists ErrBroadcast; eexists; split; [reflexivity|]. unfold step; rewrite W.
    split; [reflexivity|]. unfold note_cb; simpl. destruct (client_closed s); simpl; lia.
  - (* WRaised *) exists ErrBroadcast; eexists; split; [reflexivity|]. unfold step; rewrite W.
    split; [reflexivity|]. unfold note_cb; simpl. destruct (client_closed s); simpl; lia.
  - (* WErrDone *) destruct clean.
    + exists Exit; eexists; split; [reflexivity|]. unfold step; rewrite W. split; [reflexivity|]. simpl; lia.
    + exists WorkerCloseCall; eexists; split; [reflexivity|]. unfold step; rewrite W. split; [reflexivity|]. simpl; lia.
  - (* WClosing *) destruct rest as [|c rest].
    + exists (CloseRet Worker); destruct k; eexists; (split; [reflexivity|]); unfold step; rewrite W;
        (split; [reflexivity|]); unfold after_dispatch; simpl; try lia. destruct n; simpl; lia.
    + exists (CStep Worker c (match c with JoinW => false | _ => true end)).
      destruct c; eexists; (split; [reflexivity|]); unfold step; rewrite W; simpl;
        (split; [reflexivity|]); destruct k; simpl; lia.
Qed.

(* ... hence it reaches its end by its own steps alone, on every transport *)
Lemma worker_runs_out : forall n s, Inv s ->
  closing s = true -> socket_open s = false -> sfuel (worker s) <= n ->
  exists ls s', accepts s ls = Some s' /\ (forall l, In l ls -> is_worker_label l = true) /\
    not_alive (worker s') = true /\ cprog s' = cprog s /\ Inv s' /\ tr s' = tr s.
Proof.
  assert (Done : forall s, Inv s -> not_alive (worker s) = true ->
    exists ls s', accepts s ls = Some s' /\ (forall l, In l ls -> is_worker_label l = true) /\
      not_alive (worker s') = true /\ cprog s' = cprog s /\ Inv s' /\ tr s' = tr s).
  { intros s I A. exists [], s. simpl. split; [reflexivity|]. split; [intros ? []|]. split; [exact A|].
    split; [reflexivity|]. split; [exact I|reflexivity]. }
  induction n as [|n IH]; intros s I C O M.
  - destruct (not_alive (worker s)) eqn:A; [apply Done; assumption|].
    destruct (progress_dec s A C O) as (l & s1 & _ & _ & D). lia.
  - destruct (not_alive (worker s)) eqn:A; [apply Done; assumption|].
    destruct (progress_dec s A C O) as (l & s1 & W & E1 & D).
    destruct (closed_stable _ _ _ I E1 C O) as [C1 O1].
    destruct (IH s1 (inv_step _ _ _ I E1) C1 O1 ltac:(lia)) as (ls & s' & Ac & Wl & NA & Cp & I' & Tr').
    exists (l :: ls), s'. rewrite accepts_cons, E1.
    split; [exact Ac|]. split; [intros l0 [X|X]; [subst; exact W | apply Wl; exact X]|].
    split; [exact NA|].
    split; [rewrite Cp; eapply worker_label_cprog; eauto|].
    split; [exact I'|]. rewrite Tr'. eapply tr_step; eauto.
Qed.

(* where close() joins the worker it has already set the closing flag and closed the handle *)
Fixpoint tails (l : list cstep) : list (list cstep) :=
  match l with [] => [[]] | x :: l' => l :: tails l' end.

Lemma suffix_in_tails : forall rest prog, suffix_of rest prog -> In rest (tails prog).
Proof.
  intros rest prog [dn E]. subst. induction dn as [|d dn IH]; simpl.
  - destruct rest; simpl; auto.
  - right; exact IH.
Qed.

Lemma join_after_close_handle : forall t rest, suffix_of (JoinW :: rest) (close_prog t) ->
  ~ In SetClosing (JoinW :: rest) /\ ~ In CloseHandle (JoinW :: rest).
Proof.
  intros t rest S. apply suffix_in_tails in S.
  destruct t; simpl in S;
    repeat (destruct S as [S|S]; [try discriminate S; inversion S; subst; simpl; split; intuition discriminate|]);
    contradiction.
Qed.

Lemma close_completes : forall rest s, Inv s -> cprog s = Some rest ->
  exists ls s', accepts s ls = Some s' /\ In (CloseRet Client) ls /\ client_closed s' = true /\
    (forall l, In l ls -> is_worker_label l = true \/ l = CloseRet Client \/ exists c d, l = CStep Client c d).
Proof.
  induction rest as [|c rest IH]; intros s I Cp.
  - destruct (step s (CloseRet Client)) as [s1|] eqn:E.
    + exists [CloseRet Client], s1. rewrite accepts_cons, E. simpl. repeat split; auto.
      * eapply closeret_sets; eauto.
      * intros l [X|[]]; subst; auto.
    + unfold step in E. rewrite Cp in E. discriminate.
  - destruct (i_cprog _ I _ Cp) as (_ & Suf & Eff).
    assert (J : c = JoinW \/ c <> JoinW) by (destruct c; auto; right; discriminate).
    destruct J as [J|J].
    + subst c. destruct (join_after_close_handle _ _ Suf) as [N1 N2].
      destruct Eff as (E1 & E2 & _).
      pose proof (E1 N1) as C. destruct (E2 N2) as [O _].
      destruct (worker_runs_out (sfuel (worker s)) s I C O (le_n _)) as (lw & s1 & Ac & Wl & NA & Cp1 & I1 & Tr1).
      rewrite Cp in Cp1.
      set (d := match worker s1 with WExited => true | _ => false end).
      assert (E : step s1 (CStep Client JoinW d) = Some (w_cprog s1 (Some rest))).
      { unfold step. rewrite Cp1. simpl. unfold d. destruct (worker s1); simpl in *; try discriminate; reflexivity. }
      destruct (IH _ (inv_step _ _ _ I1 E) eq_refl) as (ls & s' & Ac' & Hin & CC & Lab).
      exists (lw ++ CStep Client JoinW d :: ls), s'. rewrite accepts_app, Ac, accepts_cons, E.
      repeat split; auto.
      * apply in_or_app; right; right; exact Hin.
      * intros l Hl. apply in_app_or in Hl. destruct Hl as [X|[X|X]]; [left; apply Wl; exact X | subst; right; right; eauto | apply Lab; exact X].
    + destruct (do_cstep s Client c true) as [s1|] eqn:D.
      * assert (E : step s (CStep Client c true) = Some (w_cprog s1 (Some rest))).
        { unfold step. rewrite Cp. replace (cstep_eqb c c) with true by (destruct c; reflexivity). rewrite D. reflexivity. }
        destruct (IH _ (inv_step _ _ _ I E) eq_refl) as (ls & s' & Ac' & Hin & CC & Lab).
        exists (CStep Client c true :: ls), s'. rewrite accepts_cons, E.
        split; [exact Ac'|]. split; [right; exact Hin|]. split; [exact CC|].
        intros l [X|X]; [subst; right; right; eauto | apply Lab; exact X].
      * destruct c; simpl in D; try discriminate. congruence.
Qed.

(* a client thread anywhere inside close(), on ANY transport and with the worker in ANY state
   (asleep in a read included: O6): steps of that thread and of the worker alone bring close()
   to its return, and then the session is released *)
Lemma c12_close_returns : forall t ls0 s rest, run_of t ls0 s -> cprog s = Some rest ->
  exists ls s', accepts s ls = Some s' /\ In (CloseRet Client) ls /\
    (forall l, In l ls -> is_worker_label l = true \/ l = CloseRet Client \/ exists c d, l = CStep Client c d) /\
    client_closed s' = true /\ not_alive (worker s') = true /\ connected s' = false /\ socket_open s' = false.
Proof.
  intros t ls0 s rest R Cp.
  destruct (close_completes rest s (run_inv _ _ _ R) Cp) as (ls & s' & Ac & Hin & CC & Lab).
  exists ls, s'. repeat split; auto.
  all: assert (I' : Inv s') by (eapply reachable_inv, accepts_reachable; [eapply run_reachable; exact R | exact Ac]);
       destruct (i_closed _ I' CC) as (A & B & _ & _ & E & _); assumption.
Qed.

(* the same from the call: a session that is up, nobody inside close() yet, the worker asleep inside a
   read on the open handle (no step of its own enabled): close() can be called and completes by the
   closer's and the worker's steps alone *)
Lemma c12_close_wakes_blocked_read : forall t ls0 s, run_of t ls0 s ->
  ph s = PUp -> cprog s = None -> worker s = WBlocked -> socket_open s = true ->
  (forall l, is_worker_label l = true -> step s l = None) /\
  exists ls s', accepts s (CloseCall :: ls) = Some s' /\ In (CloseRet Client) ls /\
    (forall l, In l ls -> is_worker_label l = true \/ l = CloseRet Client \/ exists c d, l = CStep Client c d) /\
    client_closed s' = true /\ worker s' = WExited /\ connected s' = false /\ socket_open s' = false.
Proof.
  intros t ls0 s R P Cp W O. split; [apply c12_blocked_needs_wakeup; assumption|].
  assert (E : step s CloseCall = Some (w_cprog s (Some (close_prog (tr s))))) by (unfold step; rewrite Cp, P; reflexivity).
  assert (R1 : run_of t (ls0 ++ [CloseCall]) (w_cprog s (Some (close_prog (tr s))))).
  { unfold run_of in *. rewrite accepts_app, R, accepts_cons, E. reflexivity. }
  destruct (c12_close_returns _ _ _ _ R1 eq_refl) as (ls & s' & Ac & Hin & Lab & CC & NA & Cn & So).
  exists ls, s'. rewrite accepts_cons, E. repeat split; auto.
  assert (NS : worker s' <> WNotStarted).
  { eapply started_flag; [exact Ac | left; simpl; rewrite W; discriminate]. }
  destruct (worker s'); simpl in NA; try discriminate; congruence.
Qed.
