From NC Require Import Model.Base Model.XTree Model.XmlHelpers Spec.XmlHelpersSpec Proofs.BaseFacts.

(* XmlReplaceProofs.v - C17: replace_namespace is the exact renaming on the stored view,
   and on the resolved view of clean trees; the collision case is refuted by a witness. *)

(* ---------- (a) helper facts ---------- *)
Lemma ns_eqb_eq a b : ns_eqb a b = true <-> a = b.
Proof.
  destruct a as [x|], b as [y|]; simpl.
  - rewrite beq_eq. split; [intros ->; reflexivity | intros [= ->]; reflexivity].
  - split; discriminate.
  - split; discriminate.
  - split; reflexivity.
Qed.

Lemma ns_eqb_refl a : ns_eqb a a = true.
Proof. apply ns_eqb_eq; reflexivity. Qed.

Lemma ns_eqb_neq a b : ns_eqb a b = false <-> a <> b.
Proof.
  split.
  - intros H E. apply ns_eqb_eq in E. congruence.
  - intros H. destruct (ns_eqb a b) eqn:E; [|reflexivity]. apply ns_eqb_eq in E. contradiction.
Qed.

Lemma name_eqb_eq a b : name_eqb a b = true <-> a = b.
Proof.
  destruct a as [a1 a2], b as [b1 b2]. unfold name_eqb; simpl.
  rewrite andb_true_iff, ns_eqb_eq, beq_eq.
  split; [intros [-> ->]; reflexivity | intros [= -> ->]; auto].
Qed.

Lemma name_eqb_refl a : name_eqb a a = true.
Proof. apply name_eqb_eq; reflexivity. Qed.

Lemma name_eqb_neq a b : name_eqb a b = false <-> a <> b.
Proof.
  split.
  - intros H E. apply name_eqb_eq in E. congruence.
  - intros H. destruct (name_eqb a b) eqn:E; [|reflexivity]. apply name_eqb_eq in E. contradiction.
Qed.

Lemma mem_name_In n l : mem_name n l = true <-> In n l.
Proof.
  induction l as [|m l IH]; simpl; [split; [discriminate|tauto]|].
  rewrite orb_true_iff, IH, name_eqb_eq. split; intros [H|H]; auto.
Qed.

Lemma mnode_ind' (P : mnode -> Prop)
  (HE : forall n pf ds a k, Forall P k -> P (ME n pf ds a k))
  (HT : forall s, P (MT s))
  (HC : forall s, P (MC s))
  (HP : forall x y, P (MP x y)) : forall t, P t.
Proof.
  exact (fix F (t : mnode) : P t :=
    match t with
    | ME n pf ds a k =>
        HE n pf ds a k
          ((fix G (l : list mnode) : Forall P l :=
              match l with
              | [] => Forall_nil P
              | c :: l' => Forall_cons c (F c) (G l')
              end) k)
    | MT s => HT s
    | MC s => HC s
    | MP x y => HP x y
    end).
Qed.

Lemma xnode_ind' (P : xnode -> Prop)
  (HE : forall n a k, Forall P k -> P (Elem n a k))
  (HT : forall s, P (Text s))
  (HC : forall s, P (Comment s))
  (HP : forall x y, P (PI x y)) : forall t, P t.
Proof.
  exact (fix F (t : xnode) : P t :=
    match t with
    | Elem n a k =>
        HE n a k
          ((fix G (l : list xnode) : Forall P l :=
              match l with
              | [] => Forall_nil P
              | c :: l' => Forall_cons c (F c) (G l')
              end) k)
    | Text s => HT s
    | Comment s => HC s
    | PI x y => HP x y
    end).
Qed.

(* ---------- attribute dictionary facts ---------- *)
Lemma keys_app a b : keys (a ++ b) = keys a ++ keys b.
Proof. unfold keys. apply map_app. Qed.

Lemma keys_cons x a : keys (x :: a) = fst x :: keys a.
Proof. reflexivity. Qed.

Lemma attr_get_app_fresh k v front rest :
  ~ In k (keys front) -> attr_get k (front ++ (k, v) :: rest) = Some v.
Proof.
  induction front as [|[k' v'] front IH]; simpl; intros Hn.
  - now rewrite name_eqb_refl.
  - destruct (name_eqb k k') eqn:E.
    + apply name_eqb_eq in E. exfalso. apply Hn. left. congruence.
    + apply IH. intros Hin. apply Hn. right. exact Hin.
Qed.

Lemma attr_del_app_fresh k v front rest :
  ~ In k (keys front) -> attr_del k (front ++ (k, v) :: rest) = front ++ rest.
Proof.
  induction front as [|[k' v'] front IH]; simpl; intros Hn.
  - now rewrite name_eqb_refl.
  - destruct (name_eqb k k') eqn:E.
    + apply name_eqb_eq in E. exfalso. apply Hn. left. congruence.
    + f_equal. apply IH. intros Hin. apply Hn. right. exact Hin.
Qed.

Lemma attr_set_fresh k v d : ~ In k (keys d) -> attr_set k v d = d ++ [(k, v)].
Proof.
  induction d as [|[k' v'] d IH]; simpl; intros Hn; [reflexivity|].
  destruct (name_eqb k k') eqn:E.
  - apply name_eqb_eq in E. exfalso. apply Hn. left. congruence.
  - f_equal. apply IH. intros Hin. apply Hn. right. exact Hin.
Qed.

Lemma NoDup_app_single {A} (l : list A) x : NoDup l -> ~ In x l -> NoDup (l ++ [x]).
Proof.
  induction l as [|y l IH]; simpl; intros Hnd Hn.
  - constructor; [intros []|constructor].
  - inversion Hnd as [|y' l' Hy Hl]; subst. constructor.
    + rewrite in_app_iff. simpl. intros [H|[H|[]]]; [contradiction|].
      apply Hn. left. symmetry; exact H.
    + apply IH; [exact Hl|]. intros H. apply Hn. right. exact H.
Qed.

(* a key of s is a key of the kept part of s, or lies in the old namespace *)
Lemma keys_kept_or_old o k s :
  In k (keys s) -> In k (keys (filter (fun x => negb (in_ns o x)) s)) \/ fst k = o.
Proof.
  induction s as [|x s IH]; simpl; [tauto|].
  intros [H|H].
  - destruct (in_ns o x) eqn:E; simpl.
    + right. subst k. unfold in_ns in E. apply ns_eqb_eq in E. exact E.
    + left. left. exact H.
  - destruct (IH H) as [H1|H1]; [|right; exact H1].
    left. destruct (in_ns o x); simpl; [exact H1|right; exact H1].
Qed.

(* ---------- (b) the renaming loop ---------- *)
Lemma rename_loop_inv o n : forall s front back,
  NoDup (keys (front ++ s ++ back)) ->
  (forall l, In (o, l) (keys s) ->
     ~ In (n, l) (keys front ++ keys (filter (fun x => negb (in_ns o x)) s) ++ keys back)) ->
  rename_loop o n (keys s) (front ++ s ++ back) =
  front ++ filter (fun x => negb (in_ns o x)) s ++ back ++ map (ren_attr n) (filter (in_ns o) s).
Proof.
  induction s as [|x s IH]; intros front back Hnd Hfr.
  - simpl. now rewrite app_nil_r.
  - destruct x as [[o' l] v].
    rewrite keys_cons. cbn [rename_loop fst snd filter] in Hfr |- *.
    change (in_ns o (o', l, v)) with (ns_eqb o' o) in Hfr |- *.
    destruct (ns_eqb o' o) eqn:E; cbn [negb] in Hfr |- *.
    + (* old namespace: popped, then appended last *)
      apply ns_eqb_eq in E. subst o'.
      assert (Hnd' := Hnd).
      rewrite keys_app in Hnd'. cbn [app] in Hnd'. rewrite keys_cons in Hnd'. cbn [fst] in Hnd'.
      assert (Hk : ~ In (o, l) (keys front ++ keys (s ++ back))) by (apply NoDup_remove_2 in Hnd'; exact Hnd').
      assert (Hrest : NoDup (keys front ++ keys (s ++ back))) by (apply NoDup_remove_1 in Hnd'; exact Hnd').
      assert (Hkf : ~ In (o, l) (keys front)) by (intros H; apply Hk; apply in_or_app; left; exact H).
      assert (Hks : ~ In (o, l) (keys s)).
      { intros H. apply Hk. apply in_or_app. right. rewrite keys_app. apply in_or_app. left. exact H. }
      cbn [app].
      rewrite attr_get_app_fresh by exact Hkf.
      rewrite attr_del_app_fresh by exact Hkf.
      assert (Hfresh : ~ In (n, l) (keys (front ++ s ++ back))).
      { rewrite !keys_app. intros H.
        apply in_app_or in H. destruct H as [H|H].
        - apply (Hfr l); [left; reflexivity|]. apply in_or_app. left. exact H.
        - apply in_app_or in H. destruct H as [H|H].
          + destruct (keys_kept_or_old o (n, l) s H) as [H1|H1].
            * apply (Hfr l); [left; reflexivity|]. apply in_or_app. right. apply in_or_app. left. exact H1.
            * simpl in H1. subst n. contradiction.
          + apply (Hfr l); [left; reflexivity|]. apply in_or_app. right. apply in_or_app. right. exact H. }
      rewrite (attr_set_fresh (n, l) v (front ++ s ++ back) Hfresh).
      rewrite <- !app_assoc.
      rewrite IH.
      * cbn [map ren_attr fst snd]. rewrite <- (app_assoc back). reflexivity.
      * rewrite !keys_app, !app_assoc.
        rewrite !keys_app, !app_assoc in Hfresh.
        rewrite !keys_app, !app_assoc in Hrest.
        apply NoDup_app_single; [exact Hrest|exact Hfresh].
      * intros l2 Hin Hbad.
        apply (Hfr l2); [right; exact Hin|].
        rewrite keys_app in Hbad.
        apply in_app_or in Hbad. destruct Hbad as [H|H]; [apply in_or_app; left; exact H|].
        apply in_app_or in H. destruct H as [H|H]; [apply in_or_app; right; apply in_or_app; left; exact H|].
        apply in_app_or in H. destruct H as [H|H]; [apply in_or_app; right; apply in_or_app; right; exact H|].
        simpl in H. destruct H as [H|[]]. injection H as H. subst l2. contradiction.
    + (* kept in place *)
      pose proof (IH (front ++ [((o', l), v)]) back) as IH'.
      rewrite <- !app_assoc in IH'. cbn [app] in IH'.
      apply IH'.
      * exact Hnd.
      * intros l2 Hin Hbad.
        apply (Hfr l2); [right; exact Hin|].
        rewrite keys_app in Hbad. cbn [keys map fst] in *.
        apply in_app_or in Hbad. destruct Hbad as [H|H].
        { apply in_app_or in H. destruct H as [H|H]; [apply in_or_app; left; exact H|].
          simpl in H. destruct H as [H|[]]. apply in_or_app. right. left. exact H. }
        apply in_or_app. right. right. exact H.
Qed.

Lemma rename_attrs_exact : forall o n a,
  NoDup (keys a) -> no_collision o n a -> rename_attrs o n a = xrename_attrs o n a.
Proof.
  intros o n a Hnd Hnc. unfold rename_attrs, xrename_attrs.
  generalize (rename_loop_inv o n a [] []). cbn [app]. rewrite !app_nil_r.
  intros H. apply H; [exact Hnd|].
  intros l Hin. apply Hnc. exact Hin.
Qed.

(* ---------- (c) replace_ns on the stored view ---------- *)
Lemma attrs_ok_all o n k :
  (fix all (l : list xnode) : Prop :=
     match l with [] => True | c :: l' => attrs_ok o n c /\ all l' end) k
  <-> Forall (attrs_ok o n) k.
Proof.
  induction k as [|c k IH].
  - split; [constructor|trivial].
  - split.
    + intros [H1 H2]. constructor; [exact H1|apply IH; exact H2].
    + intros H. inversion H as [|c' k' H1 H2]; subst. split; [exact H1|apply IH; exact H2].
Qed.

Lemma attrs_ok_Elem o n x a k :
  attrs_ok o n (Elem x a k) <->
  NoDup (keys a) /\ no_collision o n a /\ Forall (attrs_ok o n) k.
Proof.
  cbn [attrs_ok]. rewrite attrs_ok_all. reflexivity.
Qed.

Lemma c17_replace_ns_exact : forall o n t,
  attrs_ok o n (mview t) -> mview (replace_ns o n t) = xrename o n (mview t).
Proof.
  intros o n t. induction t as [x pf ds a k IHk|s|s|x y] using mnode_ind'; intros Hok;
    try reflexivity.
  cbn [mview replace_ns xrename] in *.
  apply attrs_ok_Elem in Hok. destruct Hok as (Hnd & Hnc & Hall).
  rewrite (rename_attrs_exact o n a Hnd Hnc). f_equal.
  rewrite !map_map. apply map_ext_in. intros c Hc.
  rewrite Forall_forall in IHk, Hall.
  apply IHk; [exact Hc|]. apply Hall. apply in_map. exact Hc.
Qed.

(* ---------- (d) replace_ns on the resolved view of clean trees ---------- *)
Lemma resolve_clean : forall t d, cleanb d t = true -> resolve d t = mview t.
Proof.
  intros t. induction t as [x pf ds a k IHk|s|s|x y] using mnode_ind'; intros d Hc;
    try reflexivity.
  destruct x as [u l]. cbn [resolve mview cleanb] in *.
  apply andb_true_iff in Hc. destruct Hc as [Hu Hk].
  f_equal.
  - destruct u as [u|]; [reflexivity|].
    destruct (eff_default d ds); [discriminate|reflexivity].
  - apply map_ext_in. intros c Hin.
    rewrite Forall_forall in IHk. rewrite forallb_forall in Hk.
    apply IHk; [exact Hin|]. apply Hk. exact Hin.
Qed.

Lemma cleanb_replace_ns : forall o v t d,
  cleanb d t = true -> cleanb d (replace_ns o (Some v) t) = true.
Proof.
  intros o v t. induction t as [x pf ds a k IHk|s|s|x y] using mnode_ind'; intros d Hc;
    try exact Hc.
  destruct x as [u l]. cbn [replace_ns]. unfold rn. cbn [fst snd].
  cbn [cleanb] in Hc. apply andb_true_iff in Hc. destruct Hc as [Hu Hk].
  assert (Hkids : forallb (cleanb (eff_default d ds)) (map (replace_ns o (Some v)) k) = true).
  { apply forallb_forall. intros c' Hin. apply in_map_iff in Hin. destruct Hin as (c & <- & Hin).
    rewrite Forall_forall in IHk. rewrite forallb_forall in Hk.
    apply IHk; [exact Hin|]. apply Hk. exact Hin. }
  destruct (ns_eqb u o); cbn [cleanb]; rewrite Hkids.
  - reflexivity.
  - rewrite Hu. reflexivity.
Qed.

Lemma c17_replace_ns_resolved : forall o v t d,
  cleanb d t = true -> attrs_ok o (Some v) (mview t) ->
  resolve d (replace_ns o (Some v) t) = xrename o (Some v) (resolve d t).
Proof.
  intros o v t d Hc Hok.
  rewrite (resolve_clean _ _ (cleanb_replace_ns o v t d Hc)).
  rewrite (resolve_clean _ _ Hc).
  apply c17_replace_ns_exact. exact Hok.
Qed.

(* ---------- (e) without the no-collision premise the exact renaming fails ---------- *)
Lemma c17_replace_ns_collision_refuted :
  exists o n t, NoDup (keys (root_attrs (mview t))) /\
                mview (replace_ns o n t) <> xrename o n (mview t).
Proof.
  exists (Some [117]), (Some [118]),
    (ME (None, [97]) false []
        [((Some [117], [120]), [49]); ((Some [118], [120]), [50])] []).
  split.
  - cbn [mview root_attrs keys map fst].
    constructor.
    + intros [H|[]]. discriminate H.
    + constructor; [intros []|constructor].
  - intros H. vm_compute in H. discriminate H.
Qed.
