(* Proofs/ConnectWindowProofs.v — invariants of Model/ConnectWindow.v: the NotificationHandler is registered before the
   session thread exists, so no notification is ever dispatched to nobody, however early the server sends it. *)
From NC Require Import Model.Base Model.ConnectWindow.

Definition cinv (s : cst) : Prop :=
  (c_w s <> CWOff -> c_lisn s = true) /\
  (c_w s <> CWOff -> c_m s <> CM0 /\ c_m s <> CM1 /\ c_m s <> CM2) /\
  (c_m s <> CM0 -> c_lisn s = true) /\
  c_lost s = [] /\
  c_taken s ++ c_nq s ++ cpend (c_w s) = c_disp s.

Lemma cinv_init : cinv cinit.
Proof.
  unfold cinv, cinit; cbn. split; [intros H; exfalso; apply H; reflexivity|].
  split; [intros H; exfalso; apply H; reflexivity|].
  split; [intros H; exfalso; apply H; reflexivity|]. split; reflexivity.
Qed.

Ltac inv_some := match goal with H : Some _ = Some _ |- _ => inversion H; subst; clear H end.

(* closes the five parts of [cinv] of the successor state from the parts for the state before *)
Ltac fin Hw Hm Hl :=
  unfold cinv; cbn;
  repeat match goal with
         | |- _ /\ _ => split
         | |- _ -> _ => intro
         end;
  try reflexivity; try assumption; try discriminate;
  try (apply Hl; first [assumption | discriminate]);
  try (apply Hw; first [assumption | discriminate]);
  try (apply Hm; first [assumption | discriminate]);
  try (exfalso; match goal with H : _ <> CWOff |- _ => destruct (Hm H) as (?A & ?B & ?C); congruence end);
  try (cbn in *; rewrite ?app_nil_r, <- ?app_assoc; cbn; reflexivity).

Lemma cinv_step : forall s l s', cinv s -> cstep s l = Some s' -> cinv s'.
Proof.
  intros s l s' (Hw & Hm & Hl & Hlost & Hq) Hs.
  destruct s as [m w lisn lish ev nq taken disp lost]; cbn in *.
  destruct l as [ | | | | n | n | | | | got n | ]; cbn in Hs.
  - (* CRegNotif *) destruct m; try discriminate; inv_some. fin Hw Hm Hl.
  - (* CRegHello *) destruct m; try discriminate; inv_some. fin Hw Hm Hl.
  - (* CStart *) destruct m; try discriminate; destruct w; try discriminate; inv_some. fin Hw Hm Hl.
  - (* CWDispHello *) destruct w; try discriminate; inv_some. fin Hw Hm Hl.
  - (* CWDispNotif *) destruct w; try discriminate.
    assert (Hn : lisn = true) by (apply Hw; discriminate). subst lisn. inv_some. fin Hw Hm Hl.
  - (* CNqPut *) destruct w as [ | | k]; try discriminate. destruct (N.eqb n k) eqn:E; try discriminate.
    apply N.eqb_eq in E; subst k. inv_some. fin Hw Hm Hl.
  - (* CWake *) destruct m; try discriminate. destruct ev; try discriminate. unfold set_m in Hs; cbn in Hs. inv_some.
    fin Hw Hm Hl.
  - (* CUnregHello *) destruct m; try discriminate; inv_some. fin Hw Hm Hl.
  - (* CRet *) destruct m; try discriminate. unfold set_m in Hs; cbn in Hs. inv_some. fin Hw Hm Hl.
  - (* CTake *) destruct got.
    + destruct nq as [|h t]; try discriminate. destruct (N.eqb n h) eqn:E; try discriminate.
      apply N.eqb_eq in E; subst h. inv_some. fin Hw Hm Hl.
    + destruct nq; try discriminate. inv_some. fin Hw Hm Hl.
  - (* CWDispOther *) destruct w; try discriminate; inv_some. fin Hw Hm Hl.
Qed.

Lemma cinv_reach : forall s, creach s -> cinv s.
Proof. intros s H; induction H; [apply cinv_init | eapply cinv_step; eauto]. Qed.

(* the listener is installed before the session thread can dispatch anything *)
Lemma c11_connect_listener_first : forall s, creach s -> c_w s <> CWOff -> c_lisn s = true.
Proof. intros s H; apply (cinv_reach s H). Qed.

(* no notification is dispatched to nobody, at any reachable state (whatever the server sends, however early) *)
Lemma c11_connect_nothing_lost : forall s, creach s -> c_lost s = [].
Proof. intros s H; apply (cinv_reach s H). Qed.

(* taken, then queued, then the one being enqueued = the notifications dispatched: each once, in order *)
Lemma c11_connect_queue_history : forall s, creach s -> c_taken s ++ c_nq s ++ cpend (c_w s) = c_disp s.
Proof. intros s H; apply (cinv_reach s H). Qed.

(* every dispatched notification is enqueued by the very next step of the worker: the worker cannot do anything else *)
Lemma c11_connect_dispatch_enqueues : forall s n s', creach s -> cstep s (CWDispNotif n) = Some s' ->
  c_w s' = CWPut n /\ cstep s' (CNqPut n) <> None /\
  (forall l s'', cstep s' l = Some s'' -> c_w s'' <> c_w s' -> l = CNqPut n /\ c_nq s'' = c_nq s' ++ [n]).
Proof.
  intros s n s' Hr Hs. pose proof (c11_connect_listener_first s Hr) as Hl.
  destruct s as [m w lisn lish ev nq taken disp lost]; cbn in *.
  destruct w; try discriminate. rewrite Hl in Hs by discriminate. inv_some. cbn.
  split; [reflexivity|]. split; [rewrite N.eqb_refl; discriminate|].
  intros l s'' Hs' Hne.
  destruct l as [ | | | | k | k | | | | got k | ]; cbn in Hs'; try discriminate;
    try (destruct m; try discriminate; inv_some; cbn in Hne; congruence).
  - destruct (N.eqb k n) eqn:E; try discriminate. apply N.eqb_eq in E; subst k. inv_some. cbn. split; reflexivity.
  - destruct m; try discriminate. destruct ev; try discriminate. unfold set_m in Hs'; cbn in Hs'. inv_some. cbn in Hne. congruence.
  - destruct got.
    + destruct nq as [|h t]; try discriminate. destruct (N.eqb k h); try discriminate. inv_some. cbn in Hne. congruence.
    + destruct nq; try discriminate. inv_some. cbn in Hne. congruence.
Qed.

(* when a take finds the queue empty while the worker is between two messages, every notification dispatched so far has
   been returned by take_notification (exactly once, in order) *)
Lemma c11_connect_complete : forall s s', creach s -> c_w s = CWIdle -> cstep s (CTake false 0) = Some s' ->
  c_taken s = c_disp s.
Proof.
  intros s s' Hr Hw Hs. pose proof (c11_connect_queue_history s Hr) as Hq.
  destruct s as [m w lisn lish ev nq taken disp lost]; cbn in *. subst w.
  destruct nq; try discriminate. cbn in Hq. rewrite app_nil_r in Hq. exact Hq.
Qed.

(* _post_connect can only return after the hello was dispatched to the registered hello handler *)
Lemma c11_connect_return_after_hello : forall s, creach s ->
  (c_m s = CM4 \/ c_m s = CM5 \/ c_m s = CMRet) -> c_ev s = true.
Proof.
  intros s H. induction H as [|s l s' Hr IH Hs].
  - cbn. intros [A|[A|A]]; discriminate.
  - destruct s as [m w lisn lish ev nq taken disp lost]; cbn in *.
    destruct l as [ | | | | n | n | | | | got n | ]; cbn in Hs.
    + destruct m; try discriminate; inv_some; cbn. intros [A|[A|A]]; discriminate.
    + destruct m; try discriminate; inv_some; cbn. intros [A|[A|A]]; discriminate.
    + destruct m; try discriminate; destruct w; try discriminate; inv_some; cbn. intros [A|[A|A]]; discriminate.
    + destruct w; try discriminate; inv_some; cbn. intros A. rewrite (IH A). reflexivity.
    + destruct w; try discriminate; destruct lisn; inv_some; cbn; exact IH.
    + destruct w as [ | |k]; try discriminate; destruct (N.eqb n k); try discriminate; inv_some; cbn; exact IH.
    + destruct m; try discriminate; destruct ev; try discriminate. unfold set_m in Hs; cbn in Hs; inv_some; cbn. reflexivity.
    + destruct m; try discriminate; inv_some; cbn. intros _. apply IH. left; reflexivity.
    + destruct m; try discriminate. unfold set_m in Hs; cbn in Hs; inv_some; cbn. intros _. apply IH. right; left; reflexivity.
    + destruct got.
      * destruct nq as [|h t]; try discriminate; destruct (N.eqb n h); try discriminate; inv_some; cbn; exact IH.
      * destruct nq; try discriminate; inv_some; cbn; exact IH.
    + destruct w; try discriminate; inv_some; cbn; exact IH.
Qed.
