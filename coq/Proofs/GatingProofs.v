(* GatingProofs.v — lemmas for C09.  A call is a program (list of checks); a program run on a
   connected session stops at its first failing check.  The programs of the modelled calls
   ask exactly for the documented capabilities (GatingSpec.needs). *)
From Coq Require Import String.
From NC Require Import Model.Base Model.Lit Model.Caps Model.Xml Model.Gating.
From NC Require Import Spec.CapsSpec Spec.GatingSpec Proofs.BaseFacts Proofs.CapsProofs.

(* ---------- membership on a connected session is total and is [advertised] ---------- *)
Definition present (d : caps) (k : bytes) : bool :=
  match contains_key d k with Ok true => true | _ => false end.

Lemma ck_total uris k : contains_key (caps_of uris) k = Ok (present (caps_of uris) k).
Proof.
  unfold present. pose proof (c08_total uris k) as T.
  unfold contains_key in *. destruct (getitem (caps_of uris) k) eqn:E; try reflexivity.
  exfalso. apply (proj1 (T n)). reflexivity.
Qed.

Lemma present_iff uris k : present (caps_of uris) k = true <-> advertised uris k.
Proof.
  unfold advertised. rewrite <- c08_contains_iff. rewrite ck_total.
  destruct (present (caps_of uris) k); split; intro H; try reflexivity; try discriminate; congruence.
Qed.

Lemma absent_iff uris k : present (caps_of uris) k = false <-> ~ advertised uris k.
Proof.
  rewrite <- present_iff. destruct (present (caps_of uris) k); split; intro H; try congruence;
    try (exfalso; apply H; reflexivity).
Qed.

(* ---------- programs ---------- *)
Definition is_fail (st : step) : bool := match st with SFail _ => true | _ => false end.
Definition is_wd (st : step) : bool := match st with SWithDefaults _ => true | _ => false end.
Definition nofail (p : list step) : bool := forallb (fun st => negb (is_fail st)) p.
Definition pure (p : list step) : bool := forallb (fun st => negb (is_wd st)) p.
Fixpoint asserts (p : list step) : list bytes :=
  match p with
  | [] => []
  | SAssert k :: p' => k :: asserts p'
  | _ :: p' => asserts p'
  end.

Lemma asserts_app p q : asserts (p ++ q) = asserts p ++ asserts q.
Proof. induction p as [|[k|e|n] p IH]; simpl; congruence. Qed.

Lemma nofail_app p q : nofail (p ++ q) = nofail p && nofail q.
Proof. apply forallb_app. Qed.
Lemma pure_app p q : pure (p ++ q) = pure p && pure q.
Proof. apply forallb_app. Qed.

Lemma count_send_app a b : count_send (a ++ b) = (count_send a + count_send b)%nat.
Proof. induction a as [|[k|k| |] a IH]; simpl; auto. Qed.

Lemma run_step_quiet s st : count_send (fst (run_step s st)) = 0%nat /\ ~ In EvRegister (fst (run_step s st)).
Proof.
  destruct st as [k|e|n]; destruct s; simpl; split; auto; intros [H|[]]; discriminate.
Qed.

Lemma run_steps_quiet s p : count_send (fst (run_steps s p)) = 0%nat /\ ~ In EvRegister (fst (run_steps s p)).
Proof.
  induction p as [|st p IH]; simpl; [split; auto|].
  pose proof (run_step_quiet s st) as [Q1 Q2].
  destruct (run_step s st) as [tr [e|]]; simpl in *; [split; auto|].
  destruct (run_steps s p) as [tr' r]; simpl in *. destruct IH as [I1 I2].
  rewrite count_send_app, Q1, I1. split; auto. intros H; apply in_app_or in H as [H|H]; auto.
Qed.

Lemma run_steps_app s p q :
  run_steps s (p ++ q) =
  match run_steps s p with
  | (tr, Some e) => (tr, Some e)
  | (tr, None) => let (tr', r) := run_steps s q in (tr ++ tr', r)
  end.
Proof.
  induction p as [|st p IH]; simpl.
  - destruct (run_steps s q); reflexivity.
  - destruct (run_step s st) as [tr [e|]]; [reflexivity|].
    rewrite IH. destruct (run_steps s p) as [tr1 [e|]]; [reflexivity|].
    destruct (run_steps s q) as [tr2 r]. now rewrite app_assoc.
Qed.

Lemma snd_run_app s p q :
  snd (run_steps s (p ++ q)) =
  match snd (run_steps s p) with Some e => Some e | None => snd (run_steps s q) end.
Proof.
  rewrite run_steps_app. destruct (run_steps s p) as [tr [e|]]; simpl; [reflexivity|].
  destruct (run_steps s q); reflexivity.
Qed.

(* a program with a failing step never completes *)
Lemma fail_stops s p : nofail p = false -> snd (run_steps s p) <> None.
Proof.
  induction p as [|st p IH]; simpl; [discriminate|].
  intros H. destruct (run_step s st) as [tr [e|]] eqn:E; simpl; [discriminate|].
  destruct st as [k|e|n]; simpl in *.
  - destruct (run_steps s p) as [tr' r]; simpl in *. now apply IH.
  - destruct s; discriminate.
  - destruct (run_steps s p) as [tr' r]; simpl in *. now apply IH.
Qed.

Section Connected.
  Variable uris : list bytes.
  Let d := caps_of uris.
  Let S := SCaps d.

  Lemma assert_run k : snd (assert_cap S k) = if present d k then None else Some MissingCapability.
  Proof. simpl. unfold d. rewrite ck_total. now destruct (present (caps_of uris) k). Qed.

  (* a program asserting an absent capability never completes *)
  Lemma missing_stops p k : In k (asserts p) -> present d k = false -> snd (run_steps S p) <> None.
  Proof.
    induction p as [|st p IH]; simpl; [tauto|].
    intros Hin Hk. destruct (run_step S st) as [tr [e|]] eqn:E; simpl; [discriminate|].
    assert (Hin' : In k (asserts p)).
    { destruct st as [k'|e|n]; simpl in Hin; auto. destruct Hin as [->|]; auto.
      exfalso. pose proof (assert_run k) as A. change (run_step S (SAssert k)) with (assert_cap S k) in E.
      rewrite E in A. simpl in A.
      rewrite Hk in A. discriminate. }
    destruct (run_steps S p) as [tr' r]; simpl in *. now apply IH.
  Qed.

  (* a program of asserts only (no local failure, no with-defaults step) *)
  Lemma pure_run p : pure p = true -> nofail p = true ->
    snd (run_steps S p) = if forallb (present d) (asserts p) then None else Some MissingCapability.
  Proof.
    induction p as [|st p IH]; simpl; [reflexivity|].
    intros Hp Hn. apply andb_prop in Hp as [Hp1 Hp]. apply andb_prop in Hn as [Hn1 Hn].
    destruct st as [k|e|n]; simpl in *; try discriminate.
    pose proof (assert_run k) as A. simpl in A.
    destruct (contains_key d k) as [[|]| |] eqn:C; simpl in A; unfold present at 1; rewrite C; simpl.
    - specialize (IH Hp Hn). destruct (run_steps S p) as [tr' r]; simpl in *. exact IH.
    - reflexivity.
    - unfold present in A. rewrite C in A. discriminate.
    - unfold present in A. rewrite C in A. discriminate.
  Qed.

  Lemma forallb_present l : forallb (present d) l = true <-> (forall k, In k l -> advertised uris k).
  Proof.
    rewrite forallb_forall. split; intros H k Hk; specialize (H k Hk); now apply present_iff.
  Qed.

  (* with-defaults on a session that advertises it *)
  Lemma wd_run norm :
    present d s_k_wd = true ->
    snd (with_defaults S norm) =
      match getitem d s_k_wd with
      | Ok c => match modes_of c with
                | None => Some WithDefaultsError
                | Some ms => if mem_bytes norm ms then (if xml_chars_ok norm then None else Some ValueError)
                             else Some WithDefaultsError
                end
      | _ => Some Internal
      end.
  Proof.
    intros Hp. simpl. unfold present, contains_key in Hp.
    destruct (getitem d s_k_wd); try discriminate. reflexivity.
  Qed.

  Lemma wd_accepts_iff norm :
    wd_accepts uris norm <->
    exists c ms, getitem d s_k_wd = Ok c /\ modes_of c = Some ms /\ mem_bytes norm ms = true.
  Proof.
    unfold wd_accepts. split; intros (c & ms & A & B & C); exists c, ms; repeat split; auto;
      now apply mem_bytes_In.
  Qed.

  (* ---------- the whole call as one program ---------- *)
  Definition prog (c : call) : list step := map SAssert (class_deps c) ++ steps_of c.
  Definition head (c : call) : list step := map SAssert (class_deps c) ++ body_steps c.

  Lemma prog_head c : prog c = head c ++ wd_steps (wd_of c).
  Proof. unfold prog, head, steps_of. now rewrite app_assoc. Qed.

  Lemma pure_asserts l : pure (map SAssert l) = true /\ nofail (map SAssert l) = true /\ asserts (map SAssert l) = l.
  Proof. induction l as [|k l (A & B & C)]; simpl; repeat split; auto. now rewrite C. Qed.

  Lemma construct_run deps :
    construct S deps =
      (if forallb (present d) deps
       then (fst (run_steps S (map SAssert deps)) ++ [EvRegister], None)
       else (fst (run_steps S (map SAssert deps)), Some MissingCapability)).
  Proof.
    unfold construct. destruct (pure_asserts deps) as (A & B & C).
    pose proof (pure_run _ A B) as R. rewrite C in R.
    destruct (run_steps S (map SAssert deps)) as [tr r]; simpl in *. subst r.
    now destruct (forallb (present d) deps).
  Qed.

  Lemma perform_outcome c :
    snd (perform S c) = match snd (run_steps S (prog c)) with Some e => Exn e | None => Sent end.
  Proof.
    unfold perform, prog. rewrite construct_run, snd_run_app.
    destruct (pure_asserts (class_deps c)) as (A & B & C).
    pose proof (pure_run _ A B) as R. rewrite C in R. rewrite R.
    destruct (forallb (present d) (class_deps c)); simpl; [|reflexivity].
    destruct (run_steps S (steps_of c)) as [tr [e|]]; reflexivity.
  Qed.
End Connected.

(* exactly one send when sent, none otherwise — for every session, connected or not *)
Lemma construct_quiet s deps : count_send (fst (construct s deps)) = 0%nat.
Proof.
  unfold construct. pose proof (run_steps_quiet s (map SAssert deps)) as [Q _].
  destruct (run_steps s (map SAssert deps)) as [tr [e|]]; simpl in *.
  - destruct e; simpl; auto; rewrite count_send_app, Q; reflexivity.
  - rewrite count_send_app, Q; reflexivity.
Qed.

Lemma c09_send_once : forall s c,
  match snd (perform s c) with
  | Sent => count_send (fst (perform s c)) = 1%nat
  | Exn _ => count_send (fst (perform s c)) = 0%nat
  end.
Proof.
  intros s c. unfold perform. pose proof (construct_quiet s (class_deps c)) as Q.
  destruct (construct s (class_deps c)) as [tr [e|]]; simpl in *; [exact Q|].
  pose proof (run_steps_quiet s (steps_of c)) as [R _].
  destruct (run_steps s (steps_of c)) as [tr' [e|]]; simpl in *.
  - now rewrite count_send_app, Q, R.
  - now rewrite !count_send_app, Q, R.
Qed.

(* ---------- the programs ask exactly for the documented capabilities ---------- *)
Lemma asserts_fail_opt o : asserts (fail_opt o) = [].
Proof. now destruct o. Qed.
Lemma asserts_ds dd : asserts (ds_steps dd) = url_need dd.
Proof.
  destruct dd as [loc lx|e]; simpl; [|reflexivity].
  rewrite asserts_app. destruct (contains loc s_css), lx; reflexivity.
Qed.
Lemma asserts_ods o : asserts (ods_steps o) = ourl_need o.
Proof. destruct o; simpl; [apply asserts_ds|reflexivity]. Qed.
Lemma asserts_src s : asserts (src_steps s) = src_need s.
Proof. destruct s; simpl; [apply asserts_ds|apply asserts_fail_opt]. Qed.
Lemma asserts_wd wd : asserts (wd_steps wd) = wd_need wd.
Proof. now destruct wd. Qed.

Lemma nofail_fail_opt o : nofail (fail_opt o) = none o.
Proof. now destruct o. Qed.
Lemma nofail_ds dd : nofail (ds_steps dd) = ds_ok dd.
Proof.
  destruct dd as [loc lx|e]; simpl; [|reflexivity].
  rewrite nofail_app. destruct (contains loc s_css), lx; reflexivity.
Qed.
Lemma nofail_ods o : nofail (ods_steps o) = ods_ok o.
Proof. destruct o; simpl; [apply nofail_ds|reflexivity]. Qed.
Lemma nofail_src s : nofail (src_steps s) = src_ok s.
Proof. destruct s; simpl; [apply nofail_ds|apply nofail_fail_opt]. Qed.
Lemma nofail_wd wd : nofail (wd_steps wd) = true.
Proof. now destruct wd. Qed.

Lemma pure_fail_opt o : pure (fail_opt o) = true.
Proof. now destruct o. Qed.
Lemma pure_ds dd : pure (ds_steps dd) = true.
Proof.
  destruct dd as [loc lx|e]; simpl; [|reflexivity].
  rewrite pure_app. destruct (contains loc s_css), lx; reflexivity.
Qed.
Lemma pure_ods o : pure (ods_steps o) = true.
Proof. destruct o; simpl; [apply pure_ds|reflexivity]. Qed.
Lemma pure_src s : pure (src_steps s) = true.
Proof. destruct s; simpl; [apply pure_ds|apply pure_fail_opt]. Qed.
Lemma pure_enum v al f : (forall x, pure (f x) = true) -> pure (enum_steps v al f) = true.
Proof. intros H. destruct v as [x|]; simpl; [|reflexivity]. destruct (mem_bytes x al); auto. Qed.

Lemma fmt_xml_not_url fmt : beq fmt s_f_xml = true -> beq fmt s_f_url = false.
Proof. intros H. apply beq_eq in H. subst. reflexivity. Qed.
Lemma fmt_text_not_url fmt : beq fmt s_f_text = true -> beq fmt s_f_url = false.
Proof. intros H. apply beq_eq in H. subst. reflexivity. Qed.

Lemma body_pure c : pure (body_steps c) = true.
Proof.
  destruct c; simpl; repeat rewrite pure_app;
    repeat rewrite pure_fail_opt; repeat rewrite pure_ds; repeat rewrite pure_ods; repeat rewrite pure_src;
    simpl; try reflexivity.
  - (* edit_config *)
    rewrite !pure_enum; simpl.
    + destruct (beq fmt s_f_xml); [apply pure_fail_opt|].
      destruct (beq fmt s_f_text); [apply pure_fail_opt|].
      destruct (beq fmt s_f_url); [|reflexivity]. destruct url_ok; simpl; [apply pure_fail_opt|reflexivity].
    + intros x. now destruct (beq x s_rollback_on_error).
    + intros x. simpl. now destruct (beq x s_test_only).
    + reflexivity.
  - unfold commit_checks. destruct (confirmed || has_pid v pid); simpl; rewrite ?pure_fail_opt; reflexivity.
Qed.

Lemma body_nofail c : nofail (body_steps c) = wellformed c.
Proof.
  destruct c; simpl; repeat rewrite nofail_app;
    repeat rewrite nofail_fail_opt; repeat rewrite nofail_ds; repeat rewrite nofail_ods; repeat rewrite nofail_src;
    simpl; try reflexivity.
  - (* edit_config *)
    f_equal.
    assert (E : forall v al f, (forall x, nofail (f x) = true) -> nofail (enum_steps v al f) = enum_ok v al).
    { intros v al f H. destruct v as [x|]; simpl; [|reflexivity]. destruct (mem_bytes x al); auto. }
    rewrite !E.
    + f_equal. f_equal. f_equal.
      destruct (beq fmt s_f_xml); [apply nofail_fail_opt|].
      destruct (beq fmt s_f_text); [apply nofail_fail_opt|].
      destruct (beq fmt s_f_url); [|reflexivity]. destruct url_ok; simpl; [apply nofail_fail_opt|reflexivity].
    + intros x. now destruct (beq x s_rollback_on_error).
    + intros x. simpl. now destruct (beq x s_test_only).
    + reflexivity.
  - unfold commit_checks. destruct (confirmed || has_pid v pid); simpl; rewrite ?andb_true_r; reflexivity.
Qed.

Lemma needs_exact c : wellformed c = true ->
  class_deps c ++ asserts (body_steps c) ++ wd_need (wd_of c) = needs c.
Proof.
  intros W. destruct c; simpl in *; repeat rewrite asserts_app;
    repeat rewrite asserts_fail_opt; repeat rewrite asserts_ds; repeat rewrite asserts_ods; repeat rewrite asserts_src;
    simpl; rewrite ?app_nil_r; try reflexivity.
  - (* edit_config *)
    apply andb_prop in W as [_ W]. apply andb_prop in W as [Wd W]. apply andb_prop in W as [Wt W].
    apply andb_prop in W as [We W].
    f_equal.
    assert (A1 : asserts (enum_steps dop DEFAULT_OPS (fun _ => [])) = []).
    { destruct dop as [x|]; simpl in *; [|reflexivity]. now rewrite Wd. }
    rewrite A1. simpl. f_equal.
    { destruct top as [x|]; simpl in *; [|reflexivity]. rewrite Wt. simpl. now destruct (beq x s_test_only). }
    f_equal.
    { destruct eop as [x|]; simpl in *; [|reflexivity]. rewrite We. now destruct (beq x s_rollback_on_error). }
    destruct (beq fmt s_f_xml) eqn:X; [rewrite (fmt_xml_not_url _ X); apply asserts_fail_opt|].
    destruct (beq fmt s_f_text) eqn:T; [rewrite (fmt_text_not_url _ T); apply asserts_fail_opt|].
    destruct (beq fmt s_f_url); [|reflexivity].
    apply andb_prop in W as [U _]. rewrite U. simpl. rewrite ?asserts_fail_opt. reflexivity.
  - (* commit *) unfold commit_checks. destruct (confirmed || has_pid v pid); simpl; rewrite ?asserts_fail_opt; reflexivity.
Qed.

(* ---------- every capability-dependent construct a request carries is among its documented needs ---------- *)
Lemma ds_wire_need dd w k : In w (ds_wire dd) -> In k (wire_needs w) -> In k (url_need dd).
Proof.
  destruct dd as [loc lx|e]; simpl; [|tauto]. destruct (contains loc s_css); simpl; [|tauto].
  intros [<-|[]] H. exact H.
Qed.
Lemma ods_wire_need o w k : In w (ods_wire o) -> In k (wire_needs w) -> In k (ourl_need o).
Proof. destruct o; simpl; [apply ds_wire_need|tauto]. Qed.
Lemma src_wire_need s w k : In w (src_wire s) -> In k (wire_needs w) -> In k (src_need s).
Proof. destruct s; simpl; [apply ds_wire_need|tauto]. Qed.
Lemma wd_wire_need (wd : option bytes) w k :
  In w (match wd with None => [] | Some _ => [WWithDefaults] end) -> In k (wire_needs w) -> In k (wd_need wd).
Proof. destruct wd; simpl; [|tauto]. intros [<-|[]] H. exact H. Qed.

Lemma commit_wire_confirmed v confirmed tmo per pid w :
  In w (commit_wire v confirmed tmo per pid) ->
  confirmed || has_pid v pid = true /\ wire_needs w = [s_k_confirmed].
Proof.
  unfold commit_wire. rewrite in_app_iff. intros [H|H].
  - destruct confirmed; [|destruct H]. split; [reflexivity|].
    destruct H as [<-|H]; [reflexivity|]. apply in_app_or in H as [H|H].
    + destruct tmo; [|destruct H]. destruct H as [<-|[]]. reflexivity.
    + destruct (has_per v per); [|destruct H]. destruct H as [<-|[]]. reflexivity.
  - destruct (has_pid v pid); [|destruct H]. destruct H as [<-|[]]. split; [apply orb_true_r|reflexivity].
Qed.

Lemma wire_in_needs c w k : In w (wire_of c) -> In k (wire_needs w) -> In k (needs c).
Proof.
  intros Hw Hk. destruct c; simpl in Hw |- *; rewrite ?in_app_iff in *.
  - (* get *) eapply wd_wire_need; eauto.
  - (* get_config *) destruct Hw as [Hw|Hw]; [left; eapply ds_wire_need; eauto|right; eapply wd_wire_need; eauto].
  - (* edit_config *)
    destruct Hw as [Hw|[Hw|[Hw|Hw]]].
    + left. eapply ds_wire_need; eauto.
    + right. left. destruct top as [t|]; [|destruct Hw]. destruct Hw as [<-|Hw]; [destruct Hk as [<-|[]]; left; reflexivity|].
      destruct (beq t s_test_only); [|destruct Hw]. destruct Hw as [<-|[]]. right. exact Hk.
    + right. right. left. destruct eop as [e|]; [|destruct Hw].
      destruct (beq e s_rollback_on_error); [|destruct Hw]. destruct Hw as [<-|[]]. exact Hk.
    + right. right. right. destruct (beq fmt s_f_url); [|destruct Hw]. destruct Hw as [<-|[]]. exact Hk.
  - eapply ds_wire_need; eauto.
  - destruct Hw as [Hw|Hw]; [left; eapply ds_wire_need; eauto|right; eapply src_wire_need; eauto].
  - (* validate *) destruct Hw as [<-|Hw]; [destruct Hk as [<-|[]]; left; reflexivity|right; eapply src_wire_need; eauto].
  - (* commit *) destruct Hw as [<-|Hw]; [destruct Hk as [<-|[]]; left; reflexivity|].
    apply commit_wire_confirmed in Hw as [E N]. rewrite N in Hk. rewrite E. right. exact Hk.
  - destruct Hw as [<-|[]]. exact Hk.
  - destruct Hw as [<-|[]]. exact Hk.
  - destruct Hw as [<-|[]]. exact Hk.
  - destruct Hw.
  - destruct Hw.
  - eapply ods_wire_need; eauto.
  - destruct Hw as [Hw|Hw]; [left|right]; eapply ods_wire_need; eauto.
  - destruct Hw.
Qed.

Section Statements.
  Variable uris : list bytes.
  Let d := caps_of uris.
  Let S := SCaps d.

  Lemma head_shape c : pure (head c) = true /\ nofail (head c) = wellformed c /\
                       asserts (head c) = class_deps c ++ asserts (body_steps c).
  Proof.
    unfold head. destruct (pure_asserts (class_deps c)) as (A & B & C).
    rewrite pure_app, nofail_app, asserts_app, A, B, C, body_pure, body_nofail. auto.
  Qed.

  Lemma prog_nofail c : nofail (prog c) = wellformed c.
  Proof.
    rewrite prog_head, nofail_app, nofail_wd, andb_true_r. apply head_shape.
  Qed.

  Lemma prog_asserts c : wellformed c = true -> asserts (prog c) = needs c.
  Proof.
    intros W. rewrite prog_head, asserts_app, asserts_wd.
    destruct (head_shape c) as (_ & _ & ->). rewrite <- app_assoc. now apply needs_exact.
  Qed.

  (* outcome of a well-formed call in terms of the documented needs *)
  Lemma wellformed_outcome c : wellformed c = true ->
    snd (run_steps S (prog c)) =
      if forallb (present d) (needs c)
      then match wd_of c with
           | None => None
           | Some norm => snd (with_defaults S norm)
           end
      else Some MissingCapability.
  Proof.
    intros W. rewrite prog_head, snd_run_app.
    destruct (head_shape c) as (P & N & A). rewrite W in N.
    fold S. unfold S, d. rewrite (pure_run uris _ P N). fold d.
    rewrite <- (needs_exact c W), app_assoc, <- A, forallb_app.
    destruct (forallb (present d) (asserts (head c))); simpl; [|reflexivity].
    destruct (wd_of c) as [norm|]; simpl; [|reflexivity].
    pose proof (assert_run uris s_k_wd) as AR. fold d in AR. simpl in AR.
    destruct (contains_key d s_k_wd) as [[|]| |] eqn:C; unfold present at 1; rewrite C; simpl.
    - destruct (getitem d s_k_wd) eqn:G; simpl; try (destruct (modes_of c0) as [ms|]); simpl;
        try (destruct (mem_bytes norm ms)); try (destruct (xml_chars_ok norm)); reflexivity.
    - reflexivity.
    - unfold present in AR. rewrite C in AR. discriminate.
    - unfold present in AR. rewrite C in AR. discriminate.
  Qed.

  Lemma c09_refused : forall c k,
    In k (needs c) -> ~ advertised uris k ->
    exists e, snd (perform S c) = Exn e
              /\ count_send (fst (perform S c)) = 0%nat
              /\ (wellformed c = true -> e = MissingCapability).
  Proof.
    intros c k Hin Hna. apply absent_iff in Hna. fold d in Hna.
    assert (Hex : exists e, snd (perform S c) = Exn e /\ (wellformed c = true -> e = MissingCapability)).
    { unfold S, d. rewrite perform_outcome. fold d. fold S.
      destruct (wellformed c) eqn:W.
      - rewrite (wellformed_outcome c W).
        assert (F : forallb (present d) (needs c) = false).
        { destruct (forallb (present d) (needs c)) eqn:F; [|reflexivity].
          rewrite forallb_forall in F. rewrite (F k Hin) in Hna. discriminate. }
        rewrite F. eauto.
      - pose proof (fail_stops S (prog c)) as FS. rewrite prog_nofail, W in FS.
        destruct (snd (run_steps S (prog c))) as [e|]; [|exfalso; now apply FS].
        exists e. split; [reflexivity|discriminate]. }
    destruct Hex as (e & He & Hc). exists e. repeat split; auto.
    pose proof (c09_send_once S c) as SO. now rewrite He in SO.
  Qed.

  Lemma c09_class_unregistered : forall c k,
    In k (class_deps c) -> ~ advertised uris k ->
    snd (perform S c) = Exn MissingCapability /\ ~ In EvRegister (fst (perform S c)).
  Proof.
    intros c k Hin Hna. apply absent_iff in Hna. fold d in Hna.
    unfold perform, S, d. rewrite construct_run. fold d. fold S.
    assert (F : forallb (present d) (class_deps c) = false).
    { destruct (forallb (present d) (class_deps c)) eqn:F; [|reflexivity].
      rewrite forallb_forall in F. rewrite (F k Hin) in Hna. discriminate. }
    rewrite F. simpl. split; [reflexivity|]. apply run_steps_quiet.
  Qed.

  Lemma c09_wd_refused : forall c norm,
    wellformed c = true -> (forall k, In k (needs c) -> advertised uris k) ->
    wd_of c = Some norm -> ~ wd_accepts uris norm ->
    snd (perform S c) = Exn WithDefaultsError /\ count_send (fst (perform S c)) = 0%nat.
  Proof.
    intros c norm W Hall Hwd Hna.
    assert (R : snd (perform S c) = Exn WithDefaultsError).
    { unfold S, d. rewrite perform_outcome. fold d. fold S. rewrite (wellformed_outcome c W).
      apply forallb_present in Hall. fold d in Hall. rewrite Hall, Hwd.
      assert (Pw : present d s_k_wd = true).
      { rewrite forallb_forall in Hall. apply Hall. destruct c; simpl in *; try discriminate; subst;
          rewrite ?in_app_iff; simpl; auto. }
      unfold S, d. rewrite (wd_run uris norm Pw). fold d.
      unfold present, contains_key in Pw.
      destruct (getitem d s_k_wd) as [cap| |] eqn:G; try discriminate.
      destruct (modes_of cap) as [ms|] eqn:M; [|reflexivity].
      destruct (mem_bytes norm ms) eqn:Mem; [|reflexivity].
      exfalso. apply Hna. apply wd_accepts_iff. exists cap, ms. fold d. auto. }
    split; [exact R|]. pose proof (c09_send_once S c) as SO. now rewrite R in SO.
  Qed.

  Lemma c09_allowed : forall c,
    wellformed c = true -> (forall k, In k (needs c) -> advertised uris k) ->
    (forall norm, wd_of c = Some norm -> wd_accepts uris norm /\ xml_chars_ok norm = true) ->
    snd (perform S c) = Sent /\ count_send (fst (perform S c)) = 1%nat.
  Proof.
    intros c W Hall Hwd.
    assert (R : snd (perform S c) = Sent).
    { unfold S, d. rewrite perform_outcome. fold d. fold S. rewrite (wellformed_outcome c W).
      apply forallb_present in Hall. fold d in Hall. rewrite Hall.
      destruct (wd_of c) as [norm|] eqn:Ew; [|reflexivity].
      destruct (Hwd norm eq_refl) as [Acc Ch].
      assert (Pw : present d s_k_wd = true).
      { rewrite forallb_forall in Hall. apply Hall. destruct c; simpl in *; try discriminate; subst;
          rewrite ?in_app_iff; simpl; auto. }
      unfold S, d. rewrite (wd_run uris norm Pw). fold d.
      apply wd_accepts_iff in Acc. destruct Acc as (cap & ms & G & M & Mem). fold d in G.
      now rewrite G, M, Mem, Ch. }
    split; [exact R|]. pose proof (c09_send_once S c) as SO. now rewrite R in SO.
  Qed.

  (* a request that went out: no argument was refused, and every documented need is advertised *)
  Lemma sent_needs c : snd (perform S c) = Sent ->
    wellformed c = true /\ forall k, In k (needs c) -> advertised uris k.
  Proof.
    intros H. unfold S, d in H. rewrite perform_outcome in H. fold d in H. fold S in H.
    destruct (snd (run_steps S (prog c))) as [e|] eqn:R; [discriminate|].
    assert (W : wellformed c = true).
    { destruct (wellformed c) eqn:W; [reflexivity|]. exfalso.
      apply (fail_stops S (prog c)); [now rewrite prog_nofail|exact R]. }
    split; [exact W|]. intros k Hk. rewrite <- (prog_asserts c W) in Hk.
    destruct (present d k) eqn:P; [now apply present_iff|].
    exfalso. exact (missing_stops uris (prog c) k Hk P R).
  Qed.

  (* ... so every capability-dependent construct it carries is backed by an advertised capability *)
  Lemma c09_wire_backed : forall c w k,
    snd (perform S c) = Sent -> In w (wire_of c) -> In k (wire_needs w) -> advertised uris k.
  Proof.
    intros c w k H Hw Hk. destruct (sent_needs c H) as [_ A]. apply A. eapply wire_in_needs; eauto.
  Qed.

  (* ... and the with-defaults mode it carries is one the server lists *)
  Lemma c09_sent_mode : forall c norm,
    snd (perform S c) = Sent -> wd_of c = Some norm -> wd_accepts uris norm.
  Proof.
    intros c norm H Hwd. destruct (sent_needs c H) as [W A].
    unfold S, d in H. rewrite perform_outcome in H. fold d in H. fold S in H.
    rewrite (wellformed_outcome c W) in H.
    apply forallb_present in A. fold d in A. rewrite A, Hwd in H.
    assert (Pw : present d s_k_wd = true).
    { rewrite forallb_forall in A. apply A. destruct c; simpl in *; try discriminate; subst;
        rewrite ?in_app_iff; simpl; auto. }
    unfold S, d in H. rewrite (wd_run uris norm Pw) in H. fold d in H.
    apply wd_accepts_iff. fold d.
    destruct (getitem d s_k_wd) as [cap| |] eqn:G; try discriminate.
    destruct (modes_of cap) as [ms|] eqn:M; [|discriminate].
    destruct (mem_bytes norm ms) eqn:Mem; [|discriminate].
    exists cap, ms. auto.
  Qed.

  (* the advertised modes in terms of C08's specification of lookup and parameters *)
  Lemma c09_wd_modes : forall w ns pstr more,
    ~ In s_k_wd uris -> first_shorthand s_k_wd uris w ->
    split_on QMARK w = ns :: pstr :: more ->
    exists cap, getitem d s_k_wd = Ok cap /\
                modes_of cap = spec_modes (valid_pairs (split_on AMP pstr)).
  Proof.
    intros w ns pstr more Hn Hf Hs. exists (from_uri w). split.
    - now apply c08_lookup_shorthand.
    - unfold modes_of, spec_modes.
      destruct (c08_params w ns pstr more s_basic_mode Hs) as [_ ->].
      destruct (c08_params w ns pstr more s_also_supported Hs) as [_ ->]. reflexivity.
  Qed.
End Statements.
