(* NsScopeProofs.v — the namespace bindings in scope at a caller's elements survive the way into the request
   (Model/NsScope.v), and exactly when they do not. *)
From NC Require Import Model.Base Model.NsScope.

Fixpoint dtree_ind' (P : dtree -> Prop)
  (H : forall d kids, Forall P kids -> P (DNode d kids)) (t : dtree) : P t :=
  match t with
  | DNode d kids =>
      H d kids ((fix go (l : list dtree) : Forall P l :=
                   match l with [] => Forall_nil P | x :: l' => Forall_cons x (dtree_ind' P H x) (go l') end) kids)
  end.

(* ---------- strip: a declaration is removed iff its namespace is already bound at the parent ---------- *)
Lemma strip_spec s d b : In b (strip s d) <-> In b d /\ uri_visible (snd b) s = false.
Proof.
  unfold strip. rewrite filter_In. split; intros [Hin Hv]; split; try exact Hin.
  - now destruct (uri_visible (snd b) s).
  - now rewrite Hv.
Qed.

Lemma strip_fresh s d : forallb (fun b => negb (uri_visible (snd b) s)) d = true -> strip s d = d.
Proof.
  unfold strip. induction d as [|b d IH]; cbn [forallb filter]; [reflexivity|].
  intros H. apply andb_true_iff in H. destruct H as [Hb Hd]. rewrite Hb. now rewrite IH.
Qed.

Lemma place_root s d kids : exists kids', place s (DNode d kids) = DNode (strip s d) kids' /\ length kids' = length kids.
Proof. cbn [place]. eexists. split; [reflexivity|]. now rewrite map_length. Qed.

(* ---------- a document that repeats no namespace already in scope is moved unchanged ---------- *)
Lemma place_fresh_id t : forall s, fresh s t = true -> place s t = t.
Proof.
  induction t as [d kids IH] using dtree_ind'. intros s H. cbn [fresh] in H. apply andb_true_iff in H.
  destruct H as [Hd Hk]. cbn [place]. rewrite (strip_fresh _ _ Hd). f_equal.
  induction kids as [|k kids IHk]; [reflexivity|]. cbn [map forallb] in *.
  apply andb_true_iff in Hk. destruct Hk as [Hk1 Hk2]. inversion IH as [|? ? P1 P2]; subst.
  rewrite (P1 _ Hk1). f_equal. now apply IHk.
Qed.

(* ---------- inner declarations win: the caller's own scope is a prefix of the scope on the wire ---------- *)
Lemma scope_at_outer p : forall t s, scope_at s t p = option_map (fun sc => sc ++ s) (scope_at [] t p).
Proof.
  induction p as [|i p IH]; intros [d kids] s; cbn [scope_at].
  - cbn [option_map]. now rewrite app_nil_r.
  - destruct (nth_error kids i) as [k|]; [|reflexivity].
    rewrite (IH k (d ++ s)), (IH k (d ++ [])).
    destruct (scope_at [] k p) as [sc|]; cbn [option_map]; [|reflexivity].
    now rewrite app_nil_r, app_assoc.
Qed.

Lemma lookup_app p a b u : lookup p a = Some u -> lookup p (a ++ b) = Some u.
Proof.
  induction a as [|[q v] a IH]; cbn [lookup app]; [discriminate|].
  destruct (beq q p); [trivial|exact IH].
Qed.

(* ---------- the statement of C07 about bindings ---------- *)
(* Every binding in scope at an element of the caller's document is in scope at that element of the request, whatever the
   envelope and the builder's elements declare around it ([s] arbitrary) - provided the document repeats no namespace that is
   already bound where it is put. *)
Lemma c07_ns_bindings_carried s t p sc :
  fresh s t = true -> scope_at [] t p = Some sc ->
  exists sc', scope_at s (place s t) p = Some sc' /\ forall pf u, lookup pf sc = Some u -> lookup pf sc' = Some u.
Proof.
  intros Hf Hs. rewrite (place_fresh_id _ _ Hf), scope_at_outer, Hs. cbn [option_map].
  eexists. split; [reflexivity|]. intros pf u. apply lookup_app.
Qed.

(* the XPath filter's prefix map is in scope at <filter> *)
Lemma c07_ns_xpath_nsmap_carried s nsmap :
  forallb (fun b => negb (uri_visible (snd b) s)) nsmap = true ->
  exists sc', scope_at s (place s (xpath_filter nsmap)) [] = Some sc'
              /\ forall pf u, lookup pf nsmap = Some u -> lookup pf sc' = Some u.
Proof.
  intros H. destruct (c07_ns_bindings_carried s (xpath_filter nsmap) [] nsmap) as [sc' [E L]].
  - unfold xpath_filter. cbn [fresh forallb]. now rewrite H.
  - unfold xpath_filter. cbn [scope_at]. now rewrite app_nil_r.
  - exists sc'. split; [exact E|exact L].
Qed.

(* Without the proviso: the root of the moved document keeps exactly the declarations whose namespace is not yet bound at
   its new parent - a dropped declaration always repeated a namespace in scope (the predicate of the open finding). *)
Lemma c07_ns_dropped_iff_redundant s d kids b :
  In b d ->
  (In b (match place s (DNode d kids) with DNode d' _ => d' end) <-> uri_visible (snd b) s = false).
Proof.
  intros Hin. cbn [place]. rewrite strip_spec. split; [now intros [_ H]|now split].
Qed.

(* place only removes declarations, element by element (shape and order of the document are untouched) *)
Lemma place_decls_subset t : forall s,
  Forall2 (fun a b => incl a b) (decls_preorder (place s t)) (decls_preorder t).
Proof.
  induction t as [d kids IH] using dtree_ind'. intros s. cbn [place decls_preorder]. constructor.
  - intros b Hb. apply strip_spec in Hb. exact (proj1 Hb).
  - generalize (strip s d ++ s). intros s'. induction kids as [|k kids IHk]; cbn [map flat_map]; [constructor|].
    inversion IH as [|? ? P1 P2]; subst. apply Forall2_app; [apply P1|now apply IHk].
Qed.
