(* Proofs/CloseProofs.v — invariants of the session life-cycle LTS (Model/Close.v) and the
   statements of C12 (Props/C12.v). *)
From Coq Require Import Lia.
From NC Require Import Model.Base Model.Close Spec.CloseSpec.

Definition suffix_of (rest prog : list cstep) : Prop := exists dn, prog = dn ++ rest.

(* what the statements of close() already executed have established *)
Definition effects (s : state) (rest : list cstep) : Prop :=
  (~ In SetClosing rest -> closing s = true) /\
  (~ In CloseHandle rest -> socket_open s = false /\ peer_saw_eof s = true) /\
  (~ In ClearConn rest -> connected s = false) /\
  (~ In JoinW rest -> not_alive (worker s) = true).

(* the worker is beyond the loop head of its current iteration *)
Definition post_top (w : wpc) : bool :=
  match w with
  | WSelecting | WReady | WReading false | WAfterTimeout | WAfterEof | WBreak | WRaised
  | WErrDone _ | WClosing _ RExit | WExited => true
  | _ => false
  end.

Record Inv (s : state) : Prop := {
  i_cprog : forall rest, cprog s = Some rest ->
      (ph s = PUp \/ ph s = PFailing) /\ suffix_of rest (close_prog (tr s)) /\ effects s rest;
  i_closed : client_closed s = true ->
      connected s = false /\ socket_open s = false /\ peer_saw_eof s = true /\ closing s = true /\
      not_alive (worker s) = true /\ (ph s = PUp \/ ph s = PFailed);
  i_fresh : ph s = PFresh ->
      socket_open s = false /\ connected s = false /\ closing s = false /\ worker s = WNotStarted /\
      cprog s = None /\ client_closed s = false;
  i_handle : ph s = PHandle ->
      connected s = false /\ closing s = false /\ worker s = WNotStarted /\ cprog s = None /\
      client_closed s = false;
  i_hello : ph s = PHello -> cprog s = None /\ client_closed s = false;
  i_failed : ph s = PFailed ->
      cprog s = None /\ connected s = false /\ socket_open s = false /\ not_alive (worker s) = true;
  i_cb : callbacks_after_close s = 0%N;
  i_sel : is_ssh (tr s) = false ->
          (sel_after_close s <= 1)%N /\
          (sel_after_close s = 1%N -> closed_locally s = true /\ post_top (worker s) = true);
  i_req : (past_broadcast (worker s) = true -> pending s = []) /\
          (forall r, In r (accepted_early s) -> In r (pending s) \/ In r (answered s) \/ In r (failed s));
  i_notup : ph s <> PUp -> pending s = [] /\ accepted_early s = [] /\ late s = [];
  i_cs : (cs s = CsClosed \/ cs s = CsReturned) -> client_closed s = true
}.

Lemma inv_init : forall t, Inv (init t).
Proof.
  intro t; constructor; simpl; try (intros; discriminate); try tauto; try (intuition (try congruence; try lia)).
Qed.

Ltac crunch :=
  repeat match goal with
  | H : match ?x with _ => _ end = Some _ |- _ => destruct x eqn:?; try discriminate
  | H : (if ?x then _ else _) = Some _ |- _ => destruct x eqn:?; try discriminate
  | H : Some _ = Some _ |- _ => inversion H; subst; clear H
  | H : None = Some _ |- _ => discriminate H
  end.

Lemma cstep_eqb_eq : forall a b, cstep_eqb a b = true -> a = b.
Proof. destruct a, b; simpl; congruence. Qed.

Lemma remove_N_keeps : forall r x l, In x l -> x <> r -> In x (remove_N r l).
Proof.
  induction l as [|y l IH]; simpl; intros Hin Hne; [tauto|].
  destruct (N.eqb r y) eqn:E.
  - apply N.eqb_eq in E; subst. destruct Hin; [congruence|assumption].
  - destruct Hin; [left; assumption| right; auto].
Qed.

(* a worker label is enabled only while the worker thread runs *)
Lemma worker_label_alive : forall s l s',
  step s l = Some s' -> is_worker_label l = true -> not_alive (worker s) = false.
Proof.
  intros s l s' H W; destruct l; simpl in W; try discriminate;
    try (destruct a; try discriminate); unfold step in H; destruct (worker s); simpl; try reflexivity;
    crunch; try discriminate.
Qed.

(* do_cstep changes flags monotonically *)
Lemma do_cstep_facts : forall s a c did s',
  do_cstep s a c did = Some s' ->
  tr s' = tr s /\ ph s' = ph s /\ worker s' = worker s /\ cprog s' = cprog s /\
  pending s' = pending s /\ failed s' = failed s /\ answered s' = answered s /\ late s' = late s /\
  accepted_early s' = accepted_early s /\ cs s' = cs s /\ client_closed s' = client_closed s /\
  callbacks_after_close s' = callbacks_after_close s /\ sel_after_close s' = sel_after_close s /\
  (closing s = true -> closing s' = true) /\
  (socket_open s = false -> socket_open s' = false) /\
  (peer_saw_eof s = true -> peer_saw_eof s' = true) /\
  (connected s = false -> connected s' = false) /\
  (c = SetClosing -> closing s' = true) /\
  (c = CloseHandle -> socket_open s' = false /\ peer_saw_eof s' = true) /\
  (c = ClearConn -> connected s' = false) /\
  (c = JoinW -> a = Client -> not_alive (worker s) = true).
Proof.
  intros s a c did s' H; destruct c; simpl in H; crunch; simpl;
    repeat split; try congruence; try reflexivity; try tauto; try discriminate;
    intros; try congruence; try (match goal with H : worker _ = _ |- _ => rewrite H; reflexivity end).
Qed.

Ltac isfield f :=
  lazymatch f with
  | closing => idtac | socket_open => idtac | connected => idtac | client_closed => idtac
  | peer_saw_eof => idtac | worker => idtac | ph => idtac | cprog => idtac | cs => idtac
  | pending => idtac | accepted_early => idtac | late => idtac
  | sel_after_close => idtac | callbacks_after_close => idtac | tr => idtac | chan => idtac
  end.
Ltac rwb :=
  repeat match goal with
  | H : ?f ?s = ?v |- _ => isfield f; is_var s; try rewrite H in *; clear H
  end.
Ltac spec_cprog :=
  try match goal with
  | Hc : cprog ?s = Some ?r |- _ =>
      match goal with I : forall rest : list cstep, @?P rest |- _ => first [pose proof (I r Hc) as Hcp | pose proof (I r eq_refl) as Hcp]; clear I end
  end.
Ltac inlast :=
  try match goal with
  | H0 : forall r, In r _ -> _, H : In ?r _ |- _ => destruct (H0 r H) as [?|[?|?]]; auto 8 with datatypes
  end.
Lemma effects_mono : forall s s' rest,
  (closing s = true -> closing s' = true) -> (socket_open s = false -> socket_open s' = false) ->
  (peer_saw_eof s = true -> peer_saw_eof s' = true) -> (connected s = false -> connected s' = false) ->
  (not_alive (worker s) = true -> not_alive (worker s') = true) -> effects s rest -> effects s' rest.
Proof.
  unfold effects; intros s s' rest A B C D E (F1 & F2 & F3 & F4).
  split; [|split; [|split]].
  - intro Hn; apply A, F1, Hn.
  - intro Hn; destruct (F2 Hn); split; [apply B | apply C]; assumption.
  - intro Hn; apply D, F3, Hn.
  - intro Hn; apply E, F4, Hn.
Qed.

Lemma cprog_keep : forall s s' p t,
  (forall rest, cprog s = Some rest ->
      (p = PUp \/ p = PFailing) /\ suffix_of rest (close_prog t) /\ effects s rest) ->
  cprog s' = cprog s -> tr s' = t -> ph s' = p ->
  (closing s = true -> closing s' = true) -> (socket_open s = false -> socket_open s' = false) ->
  (peer_saw_eof s = true -> peer_saw_eof s' = true) -> (connected s = false -> connected s' = false) ->
  (not_alive (worker s) = true -> not_alive (worker s') = true) ->
  forall rest, cprog s' = Some rest ->
      (ph s' = PUp \/ ph s' = PFailing) /\ suffix_of rest (close_prog (tr s')) /\ effects s' rest.
Proof.
  intros s s' p t I Hc Ht Hp A B C D E rest Hr. rewrite Hc in Hr. destruct (I rest Hr) as (P & S & F).
  rewrite Ht, Hp. split; [exact P|]. split; [exact S|]. eapply effects_mono; eauto.
Qed.

Ltac cprog_none :=
  simpl; intros ? ?; exfalso;
  repeat match goal with
  | I : ?p = ?q -> _, H : ?p = ?q |- _ => specialize (I H)
  end; intuition congruence.
Ltac cprog_same :=
  eapply cprog_keep; [eassumption | simpl; try reflexivity; intros; rwb; simpl in *; try congruence ..].
Ltac splitifs :=
  unfold note_cb, after_dispatch;
  repeat match goal with
  | |- context[if ?b then _ else _] => destruct b eqn:?
  | |- context[match ?n with O => _ | S _ => _ end] => destruct n
  end.
Lemma effects_full : forall s t, effects s (close_prog t).
Proof. unfold effects; intros s t; destruct t; (split; [|split; [|split]]); intro Hn; exfalso; apply Hn; simpl; auto 10. Qed.
Ltac boolh :=
  repeat match goal with
  | H : _ && _ = true |- _ => apply andb_true_iff in H; destruct H
  | H : _ || _ = true |- _ => apply orb_true_iff in H; destruct H
  | H : negb _ = true |- _ => apply negb_true_iff in H
  | H : negb _ = false |- _ => apply negb_false_iff in H
  | H : eqb _ _ = true |- _ => apply eqb_prop in H
  end.
Ltac indisp :=
  try match goal with
  | H0 : forall r, In r _ -> _, H : In ?r _ |- context[remove_N ?x _] =>
      destruct (H0 r H) as [?|[?|?]]; auto 8 with datatypes;
      destruct (N.eq_dec r x); [subst; auto 8 with datatypes | left; apply remove_N_keeps; assumption]
  end.
Ltac selsplit :=
  repeat match goal with
  | H : sel_after_close ?s = 1%N -> _ |- _ =>
      destruct (N.eq_dec (sel_after_close s) 1) as [?E|?E]; [specialize (H E) | clear H]
  end.
Ltac fin4 :=
  simpl; intros; simpl in *; unfold closed_locally in *; simpl in *; boolh; subst; intuition idtac; selsplit; boolh; subst;
  simpl in *; rwb; simpl in *;
  try congruence; try lia; intuition (try congruence; try lia); indisp; inlast.
Ltac go5 := crunch; splitifs; (constructor; [ first [ solve [cprog_same] | solve [cprog_none] ] | fin4 .. ]).
Lemma effects_nil : forall s, effects s [] ->
  closing s = true /\ socket_open s = false /\ peer_saw_eof s = true /\ connected s = false /\
  not_alive (worker s) = true.
Proof.
  unfold effects; simpl; intros s (A & B & C & D).
  destruct B as [B1 B2]; [tauto|]. repeat split; auto.
Qed.

Lemma effects_cons : forall s s' c did rest,
  do_cstep s Client c did = Some s' -> effects s (c :: rest) -> effects s' rest.
Proof.
  intros s s' c did rest Hd (E1 & E2 & E3 & E4).
  destruct (do_cstep_facts _ _ _ _ _ Hd) as
    (_ & _ & Hw & _ & _ & _ & _ & _ & _ & _ & _ & _ & _ & M1 & M2 & M3 & M4 & S1 & S2 & S3 & S4).
  unfold effects. rewrite Hw.
  split; [|split; [|split]]; intro Hn.
  - destruct c; try (apply S1; reflexivity); apply M1, E1; simpl; intros [X|X]; try discriminate; tauto.
  - destruct c; try (apply S2; reflexivity);
      (destruct E2 as [A B]; [simpl; intros [X|X]; try discriminate; tauto | split; [apply M2, A | apply M3, B]]).
  - destruct c; try (apply S3; reflexivity); apply M4, E3; simpl; intros [X|X]; try discriminate; tauto.
  - destruct c; try (apply S4; reflexivity); apply E4; simpl; intros [X|X]; try discriminate; tauto.
Qed.

Lemma suffix_cons : forall c rest prog, suffix_of (c :: rest) prog -> suffix_of rest prog.
Proof. intros c rest prog [dn E]. exists (dn ++ [c]). rewrite <- app_assoc. exact E. Qed.

Ltac mono_fin M1 M2 M3 M4 :=
  unfold closed_locally in *; simpl; intros; boolh; intuition (try congruence); boolh;
  repeat match goal with
  | H : closing ?x = true |- _ => apply M1 in H
  | H : socket_open ?x = false |- _ => apply M2 in H
  | H : peer_saw_eof ?x = true |- _ => apply M3 in H
  | H : connected ?x = false |- _ => apply M4 in H end;
  rwb; simpl in *; intuition (try congruence).

(* every step preserves the invariant bundle *)
Lemma inv_step : forall s l s', Inv s -> step s l = Some s' -> Inv s'.
Proof.
  intros s l s' I H. destruct I. destruct l; unfold step in H.
  - (* OpenHandle *) go5.
  - (* SockCleanup *) go5.
  - (* ConnectFail *) go5.
  - (* SetConn *) go5.
  - (* Start *) go5.
  - (* HelloOk *) go5.
  - (* Submit *) go5.
  - (* CloseCall *)
    crunch; (constructor; [ simpl; intros r0 Hr; inversion Hr; subst; split;
      [tauto | split; [exists []; reflexivity | apply effects_full]] | fin4 .. ]).
  - (* CStep *) destruct a.
    + crunch; subst; spec_cprog.
      match goal with H : cstep_eqb _ _ = true |- _ => apply cstep_eqb_eq in H; subst end.
      match goal with H : do_cstep _ _ _ _ = Some _ |- _ =>
        pose proof (do_cstep_facts _ _ _ _ _ H) as F; pose proof (fun rest => effects_cons _ _ _ _ rest H) as EC end.
      destruct F as (F1 & F2 & F3 & F4 & F5 & F6 & F7 & F8 & F9 & F10 & F11 & F12 & F13 & M1 & M2 & M3 & M4 & _).
      destruct Hcp as (Hp & Hs & He).
      constructor; simpl;
      [ intros r0 Hr; inversion Hr; subst; rewrite F1, F2; split; [exact Hp|]; split;
          [eapply suffix_cons; exact Hs| apply EC; exact He]
      | rewrite ?F1, ?F2, ?F3, ?F4, ?F5, ?F6, ?F7, ?F8, ?F9, ?F10, ?F11, ?F12, ?F13;
        clear EC He Hs F1 F2 F3 F4 F5 F6 F7 F8 F9 F10 F11 F12 F13; mono_fin M1 M2 M3 M4 .. ].
    + crunch; subst.
      match goal with H : cstep_eqb _ _ = true |- _ => apply cstep_eqb_eq in H; subst end.
      match goal with H : do_cstep _ _ _ _ = Some _ |- _ => pose proof (do_cstep_facts _ _ _ _ _ H) as F end.
      destruct F as (F1 & F2 & F3 & F4 & F5 & F6 & F7 & F8 & F9 & F10 & F11 & F12 & F13 & M1 & M2 & M3 & M4 & _).
      constructor;
      [ eapply (cprog_keep s); [eassumption | simpl; try assumption; try congruence ..]; rwb; simpl; congruence
      | simpl; rewrite ?F1, ?F2, ?F3, ?F4, ?F5, ?F6, ?F7, ?F8, ?F9, ?F10, ?F11, ?F12, ?F13;
        clear F1 F2 F3 F4 F5 F6 F7 F8 F9 F10 F11 F12 F13; mono_fin M1 M2 M3 M4 .. ].
  - (* CloseRet *) destruct a.
    + crunch; subst; spec_cprog.
      destruct Hcp as (Hp & _ & He); apply effects_nil in He; destruct He as (E1 & E2 & E3 & E4 & E5).
      simpl; destruct (ph s) eqn:Hph; simpl; destruct (cs s) eqn:Hcs; simpl in *;
        (constructor; [ solve [cprog_none] | fin4 .. ]).
    + go5.
  - (* CsBegin *) go5.
  - (* CsRet *) go5.
  - (* MgrExit *) go5.
  - (* Raise *) go5.
  - (* SelectBegin *) go5.
  - (* Select *) go5.
  - (* ReadBegin *) go5.
  - (* Read *) go5.
  - (* ChkClosing *) go5.
  - (* Dispatch *) go5.
  - (* CbRaise *) go5.
  - (* CbClose *) go5.
  - (* ErrBroadcast *) go5.
  - (* WorkerCloseCall *) go5.
  - (* Exit *) go5.
  - (* Arrive *) go5.
  - (* Block *) go5.
  - (* Unblock *) go5.
Qed.
