(* FirstCharProofs.v — the FIRST character of a message is a character like any other: decoding
   (bytes.decode('UTF-8'), [decode_strict]) is not the 'utf-8-sig' codec — it keeps a leading U+FEFF
   (byte order mark, octets EF BB BF) — and str.strip ([strip]) does not remove it (U+FEFF is not
   white space).  Hence a message whose text begins with U+FEFF is delivered with it under both framings. *)
From NC Require Import Model.Base Model.Utf8 Model.Framing10 Model.Framing11 Spec.RefFraming.
From NC Require Import Proofs.ListFacts Proofs.Utf8Facts Proofs.FramingProofs.

Definition bom : bytes := [239; 187; 191].          (* U+FEFF in UTF-8 *)

(* decoding is the identity on valid octets: the text has exactly the octets received, nothing is
   dropped in front (or anywhere) *)
Lemma decode_strict_id b t : decode_strict b = Some t -> t = b.
Proof. unfold decode_strict. destruct (utf8_valid b); congruence. Qed.

Lemma utf8_valid_bom m : utf8_valid (bom ++ m) = utf8_valid m.
Proof. reflexivity. Qed.

Lemma decode_keeps_bom m : utf8_valid m = true -> decode_strict (bom ++ m) = Some (bom ++ m).
Proof. intros H. unfold decode_strict. now rewrite utf8_valid_bom, H. Qed.

(* ... in particular the decoded text is not [m] (what the 'utf-8-sig' codec would give) *)
Lemma decode_bom_not_dropped m : decode_strict (bom ++ m) <> Some m.
Proof.
  intros H. apply decode_strict_id in H. apply (f_equal (@length N)) in H.
  rewrite app_length in H. cbn in H. lia.
Qed.

(* str.strip keeps a leading U+FEFF: not white space on the left ... *)
Lemma lstrip_bom m : lstrip (bom ++ m) = bom ++ m.
Proof. reflexivity. Qed.

(* ... and rstrip, scanning from the end, stops at it at the latest *)
Lemma rstrip_stops_at_bom : forall n l, (length l <= n)%nat ->
  exists k, lstrip_gen true (l ++ rev bom) = k ++ rev bom.
Proof.
  induction n as [|n IH]; intros l Hl.
  - destruct l; [|cbn in Hl; lia]. exists []. reflexivity.
  - destruct l as [|a l]; [exists []; reflexivity|].
    cbn in Hl. assert (Hl' : (length l <= n)%nat) by lia.
    change ((a :: l) ++ rev bom) with (a :: (l ++ rev bom)). cbn [lstrip_gen].
    destruct (is_ws1 a); [apply IH; exact Hl'|].
    destruct l as [|b l].
    + exists [a]. reflexivity.
    + change ((b :: l) ++ rev bom) with (b :: (l ++ rev bom)). cbn iota beta.
      cbn in Hl'. 
      destruct (mem_bytes [b; a] ws2); [apply IH; lia|].
      destruct l as [|c l].
      * exists [a; b]. reflexivity.
      * change ((c :: l) ++ rev bom) with (c :: (l ++ rev bom)). cbn iota beta. cbn in Hl'.
        destruct (mem_bytes [c; b; a] ws3); [apply IH; lia|].
        exists (a :: b :: c :: l). reflexivity.
Qed.

Lemma strip_keeps_bom m : exists k, strip (bom ++ m) = bom ++ k.
Proof.
  unfold strip. rewrite lstrip_bom. unfold rstrip. rewrite rev_app_distr.
  destruct (rstrip_stops_at_bom (length (rev m)) (rev m) (le_n _)) as [k Hk].
  rewrite Hk, rev_app_distr, rev_involutive. now exists (rev k).
Qed.

(* ---- both framings deliver a message that begins with U+FEFF with it, for every chunking and every
   cut of the stream into reads (also inside the three octets) ---- *)
Lemma c01_bom_first11 : forall (cs : list bytes) (m : bytes) (segs : list bytes),
  Forall (fun c => c <> []) cs -> concat cs = bom ++ m -> utf8_valid m = true ->
  concat segs = enc11 [cs] ->
  events feed11 init11 segs = [Deliver (bom ++ m)].
Proof.
  intros cs m segs Hc E Hv Es.
  rewrite (c01_framing_independent11 [cs] segs); [cbn [map]; now rewrite E| | |exact Es].
  - constructor; [exact Hc|constructor].
  - constructor; [|constructor]. now rewrite E, utf8_valid_bom.
Qed.

Lemma c01_bom_first10 : forall (m : bytes) (segs : list bytes),
  clean10 (bom ++ m) -> utf8_valid m = true -> concat segs = enc10 [bom ++ m] ->
  exists k, events feed10 init10 segs = [Deliver (bom ++ k)] /\ bom ++ k = strip (bom ++ m).
Proof.
  intros m segs Hc Hv Es. destruct (strip_keeps_bom m) as [k Hk]. exists k. split; [|now rewrite Hk].
  rewrite (c01_framing_independent10 [bom ++ m] segs); [cbn [map]; now rewrite Hk| | |exact Es].
  - constructor; [exact Hc|constructor].
  - constructor; [|constructor]. now rewrite utf8_valid_bom.
Qed.

(* the two framings agree on such a message: the 1.0 delivery is str.strip of the 1.1 delivery *)
Lemma c01_bom_both : forall (cs : list bytes) (m : bytes) (segs10 segs11 : list bytes),
  Forall (fun c => c <> []) cs -> concat cs = bom ++ m -> utf8_valid m = true -> clean10 (bom ++ m) ->
  concat segs10 = enc10 [bom ++ m] -> concat segs11 = enc11 [cs] ->
  events feed11 init11 segs11 = [Deliver (bom ++ m)] /\
  events feed10 init10 segs10 = [Deliver (strip (bom ++ m))] /\
  firstn 3 (strip (bom ++ m)) = bom.
Proof.
  intros cs m s10 s11 Hc E Hv Hcl E10 E11. split; [now apply (c01_bom_first11 cs)|].
  destruct (c01_bom_first10 m s10 Hcl Hv E10) as [k [Hev Hk]].
  rewrite <- Hk. split; [exact Hev|reflexivity].
Qed.
