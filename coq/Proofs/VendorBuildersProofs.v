(* VendorBuildersProofs.v — envelope, schema conformance, verbatim carriage and local rejection for the
   vendor request builders of Model/VendorBuilders.v against Spec/VendorSchema.v. *)
From Coq Require Import String ZArith.
From NC Require Import Model.Base Model.Lit Model.Xml Model.Gating Model.Builders Model.VendorBuilders.
From NC Require Import Spec.Rfc6241Schema Spec.VendorSchema Proofs.BaseFacts Proofs.BuildersProofs.

(* ---------- induction on trees ---------- *)
Fixpoint tree_ind' (P : tree -> Prop) (HT : forall s, P (Text s))
    (HE : forall q a cs, Forall P cs -> P (Elem q a cs)) (t : tree) : P t :=
  match t with
  | Text s => HT s
  | Elem q a cs =>
      HE q a cs ((fix go (l : list tree) : Forall P l :=
                    match l with [] => Forall_nil P | x :: l' => Forall_cons x (tree_ind' P HT HE x) (go l') end) cs)
  end.

(* ---------- the envelope ---------- *)
Lemma vwrap_eq m mid op : vwrap m mid op = Elem (b_ s_rpc) [(a_ s_message_id, mid)] [resolve m (d0 m) op].
Proof. destruct m; reflexivity. Qed.

Lemma resolve_elem m d t : (exists q a cs, t = Elem q a cs) -> exists q a cs, resolve m d t = Elem q a cs.
Proof. intros (q & a & cs & ->). cbn. eauto. Qed.

(* ---------- pieces ---------- *)
Definition tx (s : bytes) : list tree := match s with [] => [] | _ => [Text s] end.
Definition otx (o : option bytes) : list tree := match o with None => [] | Some s => tx s end.

Lemma tc_ok s cs : text_children s = POk cs -> cs = tx s.
Proof. apply text_children_ok. Qed.
Lemma otext_ok o cs : otext o = POk cs -> cs = otx o.
Proof. destruct o as [s|]; cbn; [apply tc_ok|now intros [= <-]]. Qed.
Lemma tleaf_ok q o t : tleaf q o = POk t -> t = Elem q [] (otx o).
Proof. unfold tleaf. intros H. inv H. apply otext_ok in E. subst. now injection H as <-. Qed.
Lemma leaf_ok' q s t : leaf q s = POk t -> t = Elem q [] (tx s).
Proof. apply leaf_ok. Qed.
Lemma oleaf_ok' q o l : oleaf q o = POk l -> l = match o with None => [] | Some s => [Elem q [] (tx s)] end.
Proof. intros H. apply oleaf_ok in H. destruct o; exact H. Qed.
Lemma ele_ok q a cs t : ele q a cs = POk t -> t = Elem q a cs.
Proof. unfold ele. destruct (attrs_ok a); [now intros [= <-]|discriminate]. Qed.
Lemma as_elem_ok x t : as_elem x = POk t -> x = EElem t /\ exists q a cs, t = Elem q a cs.
Proof. destruct x as [[q a cs|s]|s]; cbn; try discriminate. intros [= <-]. eauto 6. Qed.
Lemma as_text_ok x cs : as_text x = POk cs -> exists s, x = EStr s /\ cs = tx s.
Proof. destruct x as [t|s]; cbn; [discriminate|]. intros H. apply tc_ok in H. eauto. Qed.
Lemma as_doc_ok x t : as_doc x = POk t -> x = DocTree t /\ exists q a cs, t = Elem q a cs.
Proof. destruct x as [[q a cs|s]|e]; cbn; try discriminate. intros [= <-]. eauto 6. Qed.
Lemma leaves_ok q l ts : leaves q l = POk ts -> ts = map (fun s => Elem q [] (tx s)) l.
Proof.
  revert ts. induction l as [|s l IH]; cbn; intros ts H; [now injection H as <-|].
  inv H. apply leaf_ok' in E. specialize (IH _ eq_refl). subst. now injection H as <-.
Qed.
Lemma ds_node_ok' wha d t : ds_node wha d = POk t ->
  exists loc lx, d = DsStr loc lx /\
    t = Elem (b_ wha) [] [if contains loc s_css then Elem (b_ s_url) [] (tx loc) else Elem (b_ loc) [] []].
Proof. apply ds_node_ok. Qed.

Ltac pieces' :=
  repeat match goal with
  | H : text_children _ = POk _ |- _ => apply tc_ok in H
  | H : otext _ = POk _ |- _ => apply otext_ok in H
  | H : tleaf _ _ = POk _ |- _ => apply tleaf_ok in H
  | H : leaf _ _ = POk _ |- _ => apply leaf_ok' in H
  | H : oleaf _ _ = POk _ |- _ => apply oleaf_ok' in H
  | H : ele _ _ _ = POk _ |- _ => apply ele_ok in H
  | H : leaves _ _ = POk _ |- _ => apply leaves_ok in H
  | H : as_elem _ = POk _ |- _ => apply as_elem_ok in H as (-> & ? & ? & ? & ->)
  | H : as_text _ = POk _ |- _ => apply as_text_ok in H as (? & -> & ->)
  | H : as_doc _ = POk _ |- _ => apply as_doc_ok in H as (-> & ? & ? & ? & ->)
  | H : ds_node _ _ = POk _ |- _ => apply ds_node_ok' in H as (? & ? & -> & ->)
  end; subst.

(* the operation element is an element *)
Lemma vop_node_elem c op : vop_node c = P3 (POk op) -> exists q a cs, op = Elem q a cs.
Proof.
  destruct c; cbn [vop_node]; intros H;
    try (destruct config; try discriminate H);
    injection H as H; inv H; pieces'; try (injection H as <-); eauto.
Qed.

Lemma c07_vendor_envelope_under : forall m mid c t,
  vbuild_under m mid c = VBuilt t -> exists op, envelope mid t op.
Proof.
  intros m mid c t. unfold vbuild_under. destruct (vop_node c) as [[op|e]|] eqn:E; try discriminate.
  intros [= <-]. rewrite vwrap_eq. eexists. split; [reflexivity|].
  apply resolve_elem. eapply vop_node_elem; eassumption.
Qed.

Lemma c07_vendor_envelope : forall mid c t, vbuild mid c = VBuilt t -> exists op, envelope mid t op.
Proof. intros mid c t. apply c07_vendor_envelope_under. Qed.

(* ---------- schema conformance ---------- *)
Lemma matches_SEl q a cs sq an tx slots :
  matches (Elem q a cs) (SEl sq an tx slots)
  = qname_eqb sq q && attrs_are an a && (tx || negb (holds_text cs)) && match_kids (fun c s => matches c s) cs slots.
Proof. reflexivity. Qed.

Lemma match_kids_many alts cs :
  (forall c, In c cs -> is_elem c = true -> existsb (fun s => matches c s) alts = true) ->
  match_kids (fun c s => matches c s) cs [many alts] = true.
Proof.
  unfold many. induction cs as [|c cs IH]; intros H; [reflexivity|].
  destruct c as [q a k|s].
  - change (match_kids (fun c s => matches c s) (Elem q a k :: cs) [(true, alts)])
      with (if existsb (fun s => matches (Elem q a k) s) alts
            then match_kids (fun c s => matches c s) cs [(true, alts)] else false).
    rewrite (H (Elem q a k)); [|left; reflexivity|reflexivity]. apply IH. intros c Hc. apply H. now right.
  - change (match_kids (fun c s => matches c s) (Text s :: cs) [(true, alts)])
      with (match_kids (fun c s => matches c s) cs [(true, alts)]).
    apply IH. intros c Hc. apply H. now right.
Qed.

Lemma is_elem_resolve m d t : is_elem (resolve m d t) = is_elem t.
Proof. destruct t; reflexivity. Qed.
Lemma holds_text_resolve m d cs : holds_text (map (resolve m d) cs) = holds_text cs.
Proof. unfold holds_text. induction cs as [|c cs IH]; cbn; [reflexivity|]. now rewrite is_elem_resolve, IH. Qed.
Lemma holds_text_elems cs : forallb is_elem cs = true -> holds_text cs = false.
Proof.
  unfold holds_text. induction cs as [|c cs IH]; cbn; [reflexivity|]. intros H. apply andb_prop in H as [H1 H2].
  now rewrite H1, IH.
Qed.
Lemma filter_elems cs : forallb is_elem cs = true -> filter is_elem cs = cs.
Proof.
  induction cs as [|c cs IH]; cbn; [reflexivity|]. intros H. apply andb_prop in H as [H1 H2]. now rewrite H1, IH.
Qed.
Lemma forallb_is_elem_resolve m d cs : forallb is_elem (map (resolve m d) cs) = forallb is_elem cs.
Proof. induction cs as [|c cs IH]; cbn; [reflexivity|]. now rewrite is_elem_resolve, IH. Qed.

Lemma any_elem c : is_elem c = true -> matches c SAny = true.
Proof. destruct c; [reflexivity|discriminate]. Qed.

(* every string that is destructed by a stuck [tx] *)
Ltac split_tx :=
  repeat match goal with
  | |- context [tx ?s] => is_var s; destruct s
  | |- context [otx ?o] => is_var o; destruct o
  end.

Ltac fin := split_tx; vm_compute; reflexivity.

Lemma leaves_kids m d q q' l :
  (forall s, resolve m d (Elem q [] (tx s)) = Elem q' [] (tx s)) ->
  map (resolve m d) (map (fun s => Elem q [] (tx s)) l) = map (fun s => Elem q' [] (tx s)) l.
Proof. intros H. induction l as [|s l IH]; [reflexivity|]. cbn [map]. now rewrite H, IH. Qed.

Lemma resolve_leaf_base d' s l : resolve DefaultNs d' (Elem (b_ l) [] (tx s)) = Elem (qn d' l) [] (tx s).
Proof. destruct s; reflexivity. Qed.
Lemma resolve_leaf_nxos d' s l : resolve DefaultNs d' (Elem (x_ l) [] (tx s)) = Elem (x_ l) [] (tx s).
Proof. destruct s; reflexivity. Qed.

Lemma leaves_all_elem q l : forallb is_elem (map (fun s => Elem q [] (tx s)) l) = true.
Proof. induction l; [reflexivity|exact IHl]. Qed.



Ltac step :=
  match goal with
  | H : POk _ = POk _ |- _ => injection H as ?; subst
  | H : PErr _ = POk _ |- _ => discriminate H
  | H : pbind ?x _ = POk _ |- _ => destruct x eqn:?; cbn [pbind] in H; [|discriminate H]
  | H : (if ?b then _ else _) = POk _ |- _ => destruct b eqn:?
  | H : match ?x with _ => _ end = POk _ |- _ => destruct x eqn:?
  end.
Ltac norm := repeat (first [step | progress pieces']).

Ltac split_more :=
  repeat match goal with
  | |- context [match ?o with Some _ => _ | None => _ end] => is_var o; destruct o
  | |- context [tx ?s] => destruct s; cbn [tx]
  | |- context [otx ?o] => is_var o; destruct o; cbn [otx]
  | |- context [flag ?b _] => is_var b; destruct b; cbn [flag]
  | |- context [if contains ?l s_css then _ else _] => destruct (contains l s_css)
  end.
Ltac fin2 := split_more; vm_compute; reflexivity.

(* junos load_configuration: exactly one of the four independent `if`s fires *)
Definition jload_kid (f action : bytes) (config : jcfg) (kid : tree) : Prop :=
  (f = s_xml /\ beq action s_set = false /\
     exists q a cs, config = JOne (EElem (Elem q a cs)) /\ kid = Elem (b_ s_configuration) [] [Elem q a cs])
  \/ (f = s_json /\ beq action s_set = false /\ kid = Elem (b_ s_configuration_json) [] (tx (jcfg_text config)))
  \/ (f = s_text /\ beq action s_set = false /\ kid = Elem (b_ s_configuration_text) [] (tx (jcfg_text config)))
  \/ (f = s_text /\ beq action s_set = true /\ kid = Elem (b_ s_configuration_set) [] (tx (jcfg_text config))).

Lemma jload_shape format action config op :
  vop_node (VJLoadConfiguration format action config) = P3 (POk op) ->
  exists kid, op = Elem (b_ s_load_configuration)
                        [(a_ s_action, action); (a_ s_format, junos_load_format format action)] [kid]
              /\ jload_kid (junos_load_format format action) action config kid.
Proof.
  unfold junos_load_format, jload_kid. cbn [vop_node]. intros H.
  assert (Ctext : forall s, match config with JList l => EStr (join_with 10 l) | JOne x => x | JNone => EStr [] end = EStr s
                            -> jcfg_text config = s).
  { destruct config as [|[t|s0]|l]; intros s; cbn; congruence. }
  assert (Celem : forall t, match config with JList l => EStr (join_with 10 l) | JOne x => x | JNone => EStr [] end = EElem t
                            -> config = JOne (EElem t)).
  { destruct config as [|[t0|s0]|l]; intros t; cbn; congruence. }
  revert Ctext Celem.
  assert (N : config <> JNone) by (intros ->; discriminate H).
  assert (H' : exists cfg, cfg = match config with JList l => EStr (join_with 10 l) | JOne x => x | JNone => EStr [] end /\
     P3 (let is_set := beq action s_set in
         let format := if is_set then s_text else format in
         if negb (mem_bytes format JUNOS_LOAD_FORMATS) then PErr OperationError else
         let ats := [(a_ s_action, action); (a_ s_format, format)] in
         let* _ := ele (b_ s_load_configuration) ats [] in
         let* k1 := (if beq format s_xml then let* t := as_elem cfg in POk [Elem (b_ s_configuration) [] [t]] else POk []) in
         let* k2 := (if beq format s_json then let* cs := as_text cfg in POk [Elem (b_ s_configuration_json) [] cs] else POk []) in
         let* k3 := (if beq format s_text && negb is_set then let* cs := as_text cfg in POk [Elem (b_ s_configuration_text) [] cs] else POk []) in
         let* k4 := (if is_set && beq format s_text then let* cs := as_text cfg in POk [Elem (b_ s_configuration_set) [] cs] else POk []) in
         POk (Elem (b_ s_load_configuration) ats (k1 ++ k2 ++ k3 ++ k4))) = P3 (POk op)).
  { eexists; split; [reflexivity|]. destruct config; [congruence|exact H|exact H]. }
  clear H N. destruct H' as (cfg & <- & H). intros Ctext Celem.
  injection H as H. destruct (beq action s_set) eqn:A; cbv beta iota zeta in H.
  - cbn in H. norm. eexists; split; [reflexivity|]. right; right; right.
    rewrite (Ctext _ eq_refl). repeat split; reflexivity.
  - destruct (beq format s_xml) eqn:X; [apply beq_eq in X; subst format|
      destruct (beq format s_text) eqn:T; [apply beq_eq in T; subst format|
        destruct (beq format s_json) eqn:J; [apply beq_eq in J; subst format|cbn in H; discriminate H]]];
    cbn in H; norm; (eexists; split; [reflexivity|]).
    + left. repeat split; try reflexivity. eexists _, _, _. split; [apply Celem; reflexivity|reflexivity].
    + right; right; left. rewrite (Ctext _ eq_refl). repeat split; reflexivity.
    + right; left. rewrite (Ctext _ eq_refl). repeat split; reflexivity.
Qed.

Lemma qname_eqb_eq a b : qname_eqb a b = true -> a = b.
Proof.
  unfold qname_eqb. intros H. apply andb_prop in H as [H1 H2]. apply beq_eq in H1. apply beq_eq in H2.
  destruct a, b; cbn in *; now subst.
Qed.
Lemma qname_eqb_refl a : qname_eqb a a = true.
Proof. unfold qname_eqb. now rewrite !beq_refl. Qed.

Lemma match_kids_one c alts rest :
  is_elem c = true -> existsb (fun s => matches c s) alts = true ->
  match_kids (fun c s => matches c s) [c] (one alts :: rest) = true.
Proof.
  destruct c as [q a k|s]; [|discriminate]. intros _ H.
  change (match_kids (fun c s => matches c s) [Elem q a k] (one alts :: rest))
    with (if existsb (fun s => matches (Elem q a k) s) alts then true
          else (fix skip (sl : list (bool * list shape)) : bool :=
                  match sl with
                  | [] => false
                  | (rep, alts) :: sl' =>
                      if existsb (fun s => matches (Elem q a k) s) alts
                      then match_kids (fun c s => matches c s) [] (if rep then sl else sl') else skip sl'
                  end) rest).
  now rewrite H.
Qed.
Lemma match_kids_cons c cs alts rest :
  is_elem c = true -> existsb (fun s => matches c s) alts = true ->
  match_kids (fun c s => matches c s) cs rest = true ->
  match_kids (fun c s => matches c s) (c :: cs) (one alts :: rest) = true.
Proof.
  destruct c as [q a k|s]; [|discriminate]. intros _ H R.
  change (match_kids (fun c s => matches c s) (Elem q a k :: cs) (one alts :: rest))
    with (if existsb (fun s => matches (Elem q a k) s) alts then match_kids (fun c s => matches c s) cs rest
          else (fix skip (sl : list (bool * list shape)) : bool :=
                  match sl with
                  | [] => false
                  | (rep, alts) :: sl' =>
                      if existsb (fun s => matches (Elem q a k) s) alts
                      then match_kids (fun c s => matches c s) cs (if rep then sl else sl') else skip sl'
                  end) rest).
  now rewrite H.
Qed.

(* a block of text leaves under a repeatable position *)
Lemma leaves_block m d bq q alts (l : list bytes) :
  (forall s, existsb (fun sh => matches (resolve m d (Elem q [] (tx s))) sh) alts = true) ->
  matches (Elem bq [] (map (resolve m d) (map (fun s => Elem q [] (tx s)) l))) (SEl bq [] false [many alts]) = true.
Proof.
  intros H. rewrite matches_SEl, qname_eqb_refl, holds_text_resolve, holds_text_elems by apply leaves_all_elem.
  cbn [andb orb negb attrs_are map list_beq]. apply match_kids_many.
  intros c Hc _. apply in_map_iff in Hc as (c0 & <- & Hc0). apply in_map_iff in Hc0 as (s & <- & _). apply H.
Qed.

(* util.build_filter under a default-namespace envelope *)
Lemma ofilter_shape f l :
  filt_ok f = true -> ofilter f = POk l ->
  l = [] \/ exists q a cs, l = [Elem q a cs] /\
     existsb (fun s => matches (resolve DefaultNs NS_BASE (Elem q a cs)) s) filter_shapes = true.
Proof.
  destruct f as [f|]; cbn [ofilter]; intros R H; [|left; now injection H as <-].
  right. destruct (build_filter f) as [t|e0] eqn:B; cbn [pbind] in H; [|discriminate H]. injection H as <-.
  destruct f as [t0|sel|ts|t0|e]; cbn [build_filter] in B; cbn [filt_ok] in R.
  - injection B as <-. destruct t0 as [q a cs|s]; [|discriminate R]. eexists _, _, _. split; [reflexivity|]. vm_compute. reflexivity.
  - destruct (xml_chars_ok sel); [|discriminate B]. injection B as <-.
    eexists _, _, _. split; [reflexivity|]. vm_compute. reflexivity.
  - injection B as <-. eexists _, _, _. split; [reflexivity|]. apply existsb_exists. eexists. split; [left; reflexivity|].
    change (resolve DefaultNs NS_BASE (Elem (b_ s_filter) [(a_ s_type, s_subtree)] ts))
      with (Elem (b_ s_filter) [(a_ s_type, s_subtree)] (map (resolve DefaultNs NS_BASE) ts)).
    rewrite matches_SEl, qname_eqb_refl, holds_text_resolve, holds_text_elems by exact R.
    cbn [andb orb negb]. change (attrs_are [s_type] [(a_ s_type, s_subtree)]) with (qname_eqb (a_ s_type) (a_ s_type) && true).
    rewrite qname_eqb_refl. cbn [andb]. apply match_kids_many. intros c Hc _.
    apply in_map_iff in Hc as (c0 & <- & Hc0). cbn [existsb]. rewrite any_elem; [reflexivity|].
    rewrite is_elem_resolve. rewrite forallb_forall in R. now apply R.
  - apply andb_prop in R as [R1 R2].
    destruct (root_in t0 [a_ s_filter; b_ s_filter; n_ s_filter]); [|discriminate B]. injection B as <-.
    destruct t0 as [q a cs|s]; [|discriminate R1].
    eexists _, _, _. split; [reflexivity|]. apply existsb_exists. exists (SNamed (b_ s_filter)).
    split; [right; right; left; reflexivity|]. cbn [parsed_root] in R2. cbn [resolve matches].
    destruct (find_xmlns a); [discriminate R2|].
    cbn [root_in root_of existsb] in R1. rewrite orb_false_r in R1. apply orb_prop in R1 as [R1|R1];
      apply qname_eqb_eq in R1; subst q; reflexivity.
  - discriminate B.
Qed.

Lemma c07_vendor_conforms_op : forall c op,
  vcallers_ok c = true -> vop_node c = P3 (POk op) ->
  matches (resolve (vmode (vcall_prof c)) (d0 (vmode (vcall_prof c))) op) (vschema c) = true.
Proof.
  intros c op R H.
  destruct c; cbn [vcall_prof vmode d0 vschema];
    try (apply jload_shape in H as (kid & -> & [(F & A & q & a & cs & -> & ->)|[(F & A & ->)|[(F & A & ->)|(F & A & ->)]]]); fin2);
    cbn [vop_node] in H; injection H as H; cbn [vcallers_ok] in R; norm.
  all: try (solve [fin2]).
  - (* alu get_configuration, cli items *)
    change (resolve DefaultNs NS_BASE
              (Elem (b_ s_get_config) []
                 [Elem (b_ s_source) [] [Elem (b_ s_running) [] []];
                  Elem (b_ s_filter) [] [Elem (b_ s_config_cli_block) [] (map (fun s => Elem (b_ (if detail then s_cli_info_detail else s_cli_info)) [] (tx s)) l)]]))
      with (Elem (b_ s_get_config) []
              [Elem (b_ s_source) [] [Elem (b_ s_running) [] []];
               Elem (b_ s_filter) []
                 [Elem (b_ s_config_cli_block) []
                    (map (resolve DefaultNs NS_BASE) (map (fun s => Elem (b_ (if detail then s_cli_info_detail else s_cli_info)) [] (tx s)) l))]]).
    rewrite matches_SEl. change (qname_eqb (b_ s_get_config) (b_ s_get_config) && attrs_are [] [] && (false || negb (holds_text [Elem (b_ s_source) [] [Elem (b_ s_running) [] []]; Elem (b_ s_filter) [] [Elem (b_ s_config_cli_block) [] (map (resolve DefaultNs NS_BASE) (map (fun s => Elem (b_ (if detail then s_cli_info_detail else s_cli_info)) [] (tx s)) l))]])))
      with true. cbn [andb].
    apply match_kids_cons; [reflexivity|vm_compute; reflexivity|].
    apply match_kids_one; [reflexivity|]. apply existsb_exists. eexists. split; [right; left; reflexivity|].
    rewrite matches_SEl. change (qname_eqb (b_ s_filter) (b_ s_filter) && attrs_are [] []) with true. cbn [andb holds_text existsb is_elem negb orb].
    apply match_kids_one; [reflexivity|]. cbn [existsb]. rewrite leaves_block; [reflexivity|].
    intros s. destruct detail, s; vm_compute; reflexivity.
  - (* h3c get_bulk *)
    destruct (ofilter_shape _ _ R Heqp) as [->|(q & a & cs & -> & F)]; [vm_compute; reflexivity|].
    change (resolve DefaultNs NS_BASE (Elem (b_ s_get_bulk) [] [Elem q a cs]))
      with (Elem (b_ s_get_bulk) [] [resolve DefaultNs NS_BASE (Elem q a cs)]).
    rewrite matches_SEl. change (qname_eqb (b_ s_get_bulk) (b_ s_get_bulk) && attrs_are [] []) with true.
    cbn [andb holds_text existsb is_elem negb orb resolve]. apply match_kids_one; [reflexivity|exact F].
  - (* h3c get_bulk_config *)
    destruct (ofilter_shape _ _ R Heqp0) as [->|(q & a & cs & -> & F)]; [fin2|].
    match goal with |- matches (resolve _ _ (Elem _ _ (?src :: _))) _ = _ =>
      change (resolve DefaultNs NS_BASE (Elem (b_ s_get_bulk_config) [] [src; Elem q a cs]))
        with (Elem (b_ s_get_bulk_config) [] [resolve DefaultNs NS_BASE src; resolve DefaultNs NS_BASE (Elem q a cs)]) end.
    rewrite matches_SEl. change (qname_eqb (b_ s_get_bulk_config) (b_ s_get_bulk_config) && attrs_are [] []) with true.
    cbn [andb holds_text existsb is_elem negb orb resolve]. apply match_kids_cons; [reflexivity| |].
    + destruct (contains x s_css); split_more; vm_compute; reflexivity.
    + apply match_kids_one; [reflexivity|exact F].
  - (* nexus exec_command *)
    change (resolve DefaultNs NS_BASE (Elem (qn NS_NXOS s_exec_command) [] (map (fun s => Elem (qn NS_NXOS s_cmd) [] (tx s)) cmds)))
      with (Elem (x_ s_exec_command) [] (map (resolve DefaultNs NS_BASE) (map (fun s => Elem (x_ s_cmd) [] (tx s)) cmds))).
    apply leaves_block. intros s. destruct s; vm_compute; reflexivity.
Qed.

Lemma vbuild_op mid c t op :
  vbuild mid c = VBuilt t -> envelope mid t op ->
  exists op0, vop_node c = P3 (POk op0) /\ op = resolve (vmode (vcall_prof c)) (d0 (vmode (vcall_prof c))) op0.
Proof.
  unfold vbuild, vbuild_under. destruct (vop_node c) as [[op0|e]|]; try discriminate.
  intros [= <-] [E _]. rewrite vwrap_eq in E. injection E as <-. eauto.
Qed.

Lemma c07_vendor_conforms : forall mid c t,
  vcallers_ok c = true -> vbuild mid c = VBuilt t -> exists op, envelope mid t op /\ vconforms c op.
Proof.
  intros mid c t R H. destruct (c07_vendor_envelope _ _ _ H) as (op & E). exists op. split; [exact E|].
  destruct (vbuild_op _ _ _ _ H E) as (op0 & N & ->). now apply c07_vendor_conforms_op.
Qed.

(* ---------- caller strings are carried verbatim ---------- *)
Lemma cat_texts_spec cs : cat_texts cs = flat_map (fun c => match c with Text s => s | Elem _ _ _ => [] end) cs.
Proof.
  induction cs as [|c cs IH]; [reflexivity|]. destruct c as [q a k|s]; [exact IH|].
  cbn [flat_map]. rewrite <- IH. destruct cs; [cbn; now rewrite app_nil_r|reflexivity].
Qed.

Ltac contra :=
  match goal with
  | H : _ = true |- _ => vm_compute in H; discriminate H
  | H : _ = false |- _ => vm_compute in H; discriminate H
  end.
Ltac hold1 := first [vm_compute; reflexivity | exfalso; contra].

Ltac hold2 :=
  repeat (progress (cbn -[beq z_to_dec ceil_minutes join_with cmds_text]; rewrite ?beq_refl));
  first [vm_compute; reflexivity | exfalso; contra].

Lemma text_of_tx q a s : text_of (Elem q a (tx s)) = s.
Proof. destruct s; reflexivity. Qed.

Lemma at_path_step q p qn' a cs :
  at_path (q :: p) (Elem qn' a cs)
  = flat_map (fun c => match c with Elem q' _ _ => if qname_eqb q q' then at_path p c else [] | Text _ => [] end) cs.
Proof. reflexivity. Qed.

(* the texts of a run of leaves named q are the caller's strings, in order; no leaf has another name *)
Definition pick (q : qname) (c : tree) : list tree :=
  match c with Elem q' _ _ => if qname_eqb q q' then [c] else [] | Text _ => [] end.
Lemma at_path_one q opq a cs : at_path [q] (Elem opq a cs) = flat_map (pick q) cs.
Proof. reflexivity. Qed.
Lemma leaves_texts q opq a l :
  map text_of (at_path [q] (Elem opq a (map (fun s => Elem q [] (tx s)) l))) = l.
Proof.
  rewrite at_path_one. induction l as [|s l IH]; [reflexivity|].
  cbn [map flat_map pick]. rewrite qname_eqb_refl. cbn [app map]. now rewrite text_of_tx, IH.
Qed.
Lemma leaves_none q q' opq a l :
  qname_eqb q' q = false ->
  at_path [q'] (Elem opq a (map (fun s => Elem q [] (tx s)) l)) = [].
Proof.
  intros N. rewrite at_path_one. induction l as [|s l IH]; [reflexivity|].
  cbn [map flat_map pick]. now rewrite N, IH.
Qed.

Lemma at_path_single q p opq a qa ca :
  at_path (q :: p) (Elem opq a [Elem q qa ca]) = at_path p (Elem q qa ca).
Proof. rewrite at_path_step. cbn [flat_map]. now rewrite qname_eqb_refl, app_nil_r. Qed.
Lemma at_path_skip q p opq a q' qa ca cs :
  qname_eqb q q' = false ->
  at_path (q :: p) (Elem opq a (Elem q' qa ca :: cs)) = at_path (q :: p) (Elem opq a cs).
Proof. intros N. rewrite !at_path_step. cbn [flat_map]. now rewrite N. Qed.

Lemma c07_vendor_carries_strings_op : forall c op,
  vcallers_ok c = true -> vop_node c = P3 (POk op) ->
  Forall (holds (resolve (vmode (vcall_prof c)) (d0 (vmode (vcall_prof c))) op)) (carried_strings c).
Proof.
  intros c op R H.
  destruct c; cbn [vcall_prof vmode d0 carried_strings];
    try (apply jload_shape in H as (kid & -> & [(F & A & q & a & cs & -> & ->)|[(F & A & ->)|[(F & A & ->)|(F & A & ->)]]]);
         rewrite ?F, ?A);
    try (cbn [vop_node] in H; injection H as H; cbn [vcallers_ok] in R;
         try (destruct filter as [[t0|sel|ts|t0|e]|]; cbn [ofilter build_filter pbind] in H); norm).
  all: try (solve [repeat constructor]).
  all: try (solve [repeat constructor; split_more; hold1]).
  all: try (solve [cbn [ds_obs filt_obs app]; try (destruct a); destruct (contains _ s_css); repeat constructor; split_more; hold1]).
  - (* alu get_configuration, cli items *)
    change (resolve DefaultNs NS_BASE
              (Elem (b_ s_get_config) []
                 [Elem (b_ s_source) [] [Elem (b_ s_running) [] []];
                  Elem (b_ s_filter) [] [Elem (b_ s_config_cli_block) [] (map (fun s => Elem (b_ (if detail then s_cli_info_detail else s_cli_info)) [] (tx s)) l)]]))
      with (Elem (b_ s_get_config) []
              [Elem (b_ s_source) [] [Elem (b_ s_running) [] []];
               Elem (b_ s_filter) []
                 [Elem (b_ s_config_cli_block) []
                    (map (resolve DefaultNs NS_BASE) (map (fun s => Elem (b_ (if detail then s_cli_info_detail else s_cli_info)) [] (tx s)) l))]]).
    rewrite (leaves_kids DefaultNs NS_BASE _ (b_ (if detail then s_cli_info_detail else s_cli_info))) by (intros s; apply resolve_leaf_base).
    constructor; [vm_compute; reflexivity|]. constructor; [|constructor; [|constructor]]; cbn [holds].
    + rewrite at_path_skip by reflexivity. rewrite at_path_single.
      rewrite at_path_single. apply leaves_texts.
    + rewrite at_path_skip by reflexivity. rewrite at_path_single.
      rewrite at_path_single. rewrite leaves_none; [reflexivity|]. destruct detail; reflexivity.
  - (* alu get_configuration, content neither xml nor cli *)
    destruct a; repeat constructor; hold1.
  - (* h3c get_bulk_config, raw filter *)
    apply andb_prop in R as [R1 R2]. destruct t1 as [q a cs|s]; [|discriminate R1]. cbn [parsed_root] in R2.
    destruct (find_xmlns a) eqn:X; [discriminate R2|].
    cbn [root_in root_of existsb] in R1. rewrite orb_false_r in R1.
    cbn [ds_obs filt_obs app]. cbn [resolve map]. rewrite X.
    apply orb_prop in R1 as [R1|R1]; apply qname_eqb_eq in R1; subst q;
      destruct (contains x s_css); repeat constructor; split_more; hold1.
  - (* nexus exec_command *)
    change (resolve DefaultNs NS_BASE (Elem (qn NS_NXOS s_exec_command) [] (map (fun s => Elem (qn NS_NXOS s_cmd) [] (tx s)) cmds)))
      with (Elem (x_ s_exec_command) [] (map (resolve DefaultNs NS_BASE) (map (fun s => Elem (x_ s_cmd) [] (tx s)) cmds))).
    rewrite (leaves_kids DefaultNs NS_BASE _ (x_ s_cmd)) by (intros s; apply resolve_leaf_nxos).
    constructor; [|constructor]. apply leaves_texts.
Qed.

(* ---------- caller fragments are carried as the reader must see them ---------- *)
Lemma c07_vendor_carries_fragments_op : forall c op,
  vcallers_ok c = true -> vop_node c = P3 (POk op) ->
  Forall (fholds (vmode (vcall_prof c)) (resolve (vmode (vcall_prof c)) (d0 (vmode (vcall_prof c))) op)) (carried_fragments c).
Proof.
  intros c op R H.
  destruct c; cbn [vcall_prof vmode d0 carried_fragments]; try (solve [constructor]);
    try (apply jload_shape in H as (kid & -> & [(F & A & q & a & cs & -> & ->)|[(F & A & ->)|[(F & A & ->)|(F & A & ->)]]]);
         rewrite ?F);
    try (cbn [vop_node] in H; injection H as H; cbn [vcallers_ok] in R;
         try (destruct filter as [[t0|sel|ts|t0|e]|]; cbn [ofilter build_filter pbind filt_fobs] in * ); norm).
  all: try (solve [repeat constructor]).
  all: try (solve [repeat constructor; split_more; hold1]).
  all: try (solve [destruct config as [|[t|s]|l]; vm_compute; constructor]).
  all: try (solve [destruct a as [[t|e]|l]; constructor]).
  all: try (solve [destruct e; constructor]).
  all: try (solve [destruct t0 as [q a cs|s]; [|discriminate R]; repeat constructor; split_more; hold1]).
  - (* h3c get_bulk, list filter *)
    constructor; [|constructor]. cbn [fholds].
    change (resolve DefaultNs NS_BASE (Elem (b_ s_get_bulk) [] [Elem (b_ s_filter) [(a_ s_type, s_subtree)] ts]))
      with (Elem (b_ s_get_bulk) [] [Elem (b_ s_filter) [(a_ s_type, s_subtree)] (map (resolve DefaultNs NS_BASE) ts)]).
    rewrite at_path_single. cbn [at_path map kids_of]. rewrite filter_elems; [reflexivity|].
    now rewrite forallb_is_elem_resolve.
  - (* h3c get_bulk_config, list filter *)
    constructor; [|constructor]. cbn [fholds].
    match goal with |- context [Elem (b_ s_source) [] [?k]] =>
      change (resolve DefaultNs NS_BASE (Elem (b_ s_get_bulk_config) [] [Elem (b_ s_source) [] [k]; Elem (b_ s_filter) [(a_ s_type, s_subtree)] ts]))
        with (Elem (b_ s_get_bulk_config) [] [Elem (b_ s_source) [] [resolve DefaultNs NS_BASE k];
                                                Elem (b_ s_filter) [(a_ s_type, s_subtree)] (map (resolve DefaultNs NS_BASE) ts)]) end.
    rewrite at_path_skip by reflexivity. rewrite at_path_single. cbn [at_path map kids_of]. rewrite filter_elems; [reflexivity|].
    now rewrite forallb_is_elem_resolve.
Qed.

Lemma c07_vendor_carries_strings : forall mid c t op,
  vcallers_ok c = true -> vbuild mid c = VBuilt t -> envelope mid t op -> Forall (holds op) (carried_strings c).
Proof.
  intros mid c t op R H E. destruct (vbuild_op _ _ _ _ H E) as (op0 & N & ->). now apply c07_vendor_carries_strings_op.
Qed.
Lemma c07_vendor_carries_fragments : forall mid c t op,
  vcallers_ok c = true -> vbuild mid c = VBuilt t -> envelope mid t op ->
  Forall (fholds (vmode (vcall_prof c)) op) (carried_fragments c).
Proof.
  intros mid c t op R H E. destruct (vbuild_op _ _ _ _ H E) as (op0 & N & ->). now apply c07_vendor_carries_fragments_op.
Qed.

(* ---------- when is a fragment read back literally ---------- *)
Lemma drop_xmlns_id a : find_xmlns a = None -> drop_xmlns a = a.
Proof.
  induction a as [|[k v] a IH]; [reflexivity|]. cbn [find_xmlns drop_xmlns filter fst].
  destruct (qname_eqb k (a_ s_xmlns)); [discriminate|]. intros H. cbn [negb]. f_equal. now apply IH.
Qed.
Lemma map_id_Forall (f : tree -> tree) cs : Forall (fun c => f c = c) cs -> map f cs = cs.
Proof. induction 1; cbn; congruence. Qed.

Lemma resolve_prefixed_id t : no_xmlns t = true -> resolve Prefixed [] t = t.
Proof.
  induction t as [s|q a cs IH] using tree_ind'; [reflexivity|]. cbn [no_xmlns resolve].
  destruct (find_xmlns a) eqn:X; [discriminate|]. intros N. rewrite drop_xmlns_id by exact X.
  assert (Q : (if unprefixed Prefixed (q_ns q) then qn [] (q_local q) else q) = q).
  { destruct q as [ns l]. destruct ns; reflexivity. }
  rewrite Q. f_equal. apply map_id_Forall. rewrite forallb_forall in N. rewrite Forall_forall in *.
  intros c Hc. apply IH; [exact Hc|]. now apply N.
Qed.
Lemma resolve_qualified_id m d t : no_xmlns t = true -> qualified t = true -> resolve m d t = t.
Proof.
  revert d. induction t as [s|q a cs IH] using tree_ind'; intros d; [reflexivity|]. cbn [no_xmlns qualified resolve].
  destruct (find_xmlns a) eqn:X; [discriminate|]. intros N Qf. rewrite drop_xmlns_id by exact X.
  apply andb_prop in Qf as [Qf Q3]. apply andb_prop in Qf as [Q1 Q2].
  assert (Q : unprefixed m (q_ns q) = false).
  { destruct q as [ns l]. cbn in *. destruct ns; [discriminate Q1|]. destruct m; [reflexivity|].
    cbn [unprefixed]. now destruct (beq (n :: ns) NS_BASE). }
  rewrite Q. f_equal. apply map_id_Forall. rewrite forallb_forall in N, Q3. rewrite Forall_forall in *.
  intros c Hc. apply IH; [exact Hc|now apply N|now apply Q3].
Qed.

(* ---------- local rejection ---------- *)
Lemma c07_vendor_enum_reject : forall mid c,
  venum_violation c = true -> vbuild mid c = VRefused OperationError.
Proof.
  intros mid c V. destruct c; try discriminate V. unfold venum_violation in V.
  unfold vbuild, vbuild_under, vop_node. unfold junos_load_format in V.
  destruct config; [discriminate V| |]; cbv beta iota zeta; cbv beta iota zeta in V;
    (destruct (beq action s_set); cbv beta iota in *; [vm_compute in V; discriminate V|]);
    (destruct (mem_bytes format JUNOS_LOAD_FORMATS); [discriminate V|reflexivity]).
Qed.

Lemma c07_vendor_excl_reject : forall mid c,
  vexcl_violation c = true -> exists e, vbuild mid c = VRefused e.
Proof.
  intros mid c V. destruct c; try discriminate V; cbn [vexcl_violation] in V; unfold vbuild, vbuild_under; cbn [vop_node].
  - destruct confirmed; [|discriminate V]. destruct at_time; [|discriminate V]. cbn. eauto.
  - rewrite V. destruct (nonempty comment && nonblank); [|cbn; eauto].
    destruct (otext comment); cbn; eauto.
Qed.

(* ---------- the yang_action helper (sros global operations) ---------- *)
Lemma c07_vendor_yang_action : forall mid command t,
  (vbuild_under DefaultNs mid (VSMdCliRawCommand command) = VBuilt t ->
     exists a cs, t = Elem (b_ s_rpc) [(a_ s_message_id, mid)] [Elem (qn NS_YANG s_action) a cs])
  /\ (vbuild_under Prefixed mid (VSMdCliRawCommand command) = VBuilt t ->
     exists a cs, t = Elem (b_ s_rpc) [(a_ s_message_id, mid)] [Elem (b_ s_action) a cs]).
Proof.
  intros mid command t. unfold vbuild_under. cbn [vop_node].
  split; intros H; destruct (tleaf (b_ s_md_cli_input_line) command); cbn [pbind] in H; try discriminate H;
    injection H as <-; rewrite vwrap_eq; eexists _, _; reflexivity.
Qed.
