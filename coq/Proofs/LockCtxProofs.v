(* LockCtxProofs.v — lemmas for property C13 (Model/LockCtx.v against Spec/LockCtxSpec.v). *)
From NC Require Import Model.Base Model.RpcErrors Model.LockCtx Spec.LockCtxSpec Proofs.BaseFacts.

Lemma request_shape orc c mode ctx k t hist :
  request orc c mode ctx k t hist =
  ([mkEv k t ctx (is_raise (decide mode (orc hist k t) c))],
   if is_raise (decide mode (orc hist k t) c) then Exc (RpcExn k t (decide mode (orc hist k t) c)) else Normal).
Proof. reflexivity. Qed.

Lemma is_raise_false o : is_raise o = false <-> o = Return.
Proof. destruct o; cbn; split; congruence. Qed.

(* ---------- the shape of one context ---------- *)
Lemma c13_bracket orc c mode t body hist :
  decide MODE_ERRORS (orc hist K_LOCK t) c = Return ->
  let lk := mkEv K_LOCK t true false in
  let tb := fst (exec orc c mode body (hist ++ [lk])) in
  exists u, fst (exec orc c mode (Locked t body) hist) = [lk] ++ tb ++ [mkEv K_UNLOCK t true u].
Proof.
  intros H lk tb. cbn [exec]. rewrite request_shape, H. cbn [is_raise].
  subst tb lk. destruct (exec orc c mode body (hist ++ [mkEv K_LOCK t true false])) as [t2 r2] eqn:E.
  rewrite request_shape. cbn [fst].
  eexists. reflexivity.
Qed.

Lemma c13_lock_refused orc c mode t body hist :
  lock_refused orc c t hist ->
  exec orc c mode (Locked t body) hist =
  ([mkEv K_LOCK t true true], Exc (RpcExn K_LOCK t (decide MODE_ERRORS (orc hist K_LOCK t) c))).
Proof.
  unfold lock_refused. intros H. cbn [exec]. rewrite request_shape.
  destruct (is_raise (decide MODE_ERRORS (orc hist K_LOCK t) c)) eqn:E; [reflexivity|].
  apply is_raise_false in E. contradiction.
Qed.

Lemma c13_propagates orc c mode t body hist x :
  decide MODE_ERRORS (orc hist K_LOCK t) c = Return ->
  snd (exec orc c mode body (hist ++ [mkEv K_LOCK t true false])) = Exc x ->
  snd (exec orc c mode (Locked t body) hist) = Exc x.
Proof.
  intros H Hb. cbn [exec]. rewrite request_shape, H. cbn [is_raise].
  destruct (exec orc c mode body (hist ++ [mkEv K_LOCK t true false])) as [t2 r2].
  cbn [snd] in Hb. subst r2. rewrite request_shape. reflexivity.
Qed.

Lemma c13_normal_body orc c mode t body hist :
  decide MODE_ERRORS (orc hist K_LOCK t) c = Return ->
  let lk := mkEv K_LOCK t true false in
  snd (exec orc c mode body (hist ++ [lk])) = Normal ->
  snd (exec orc c mode (Locked t body) hist) =
  snd (request orc c MODE_ERRORS true K_UNLOCK t (hist ++ [lk] ++ fst (exec orc c mode body (hist ++ [lk])))).
Proof.
  intros H lk Hb. subst lk. cbn [exec]. rewrite request_shape, H. cbn [is_raise].
  destruct (exec orc c mode body (hist ++ [mkEv K_LOCK t true false])) as [t2 r2].
  cbn [snd fst] in *. subst r2. rewrite !request_shape. reflexivity.
Qed.

(* a reply without an rpc-error of severity 'error' - no rpc-error at all, or warnings of ANY shape (fields missing,
   empty, padded, unknown severities) - never makes a request raise under RaiseMode.ERRORS: such a lock is granted *)
Lemma decide_errors_no_error errs c :
  existsb sev_is_error errs = false -> decide MODE_ERRORS errs c = Return.
Proof.
  intros H. unfold decide. destruct errs as [|first rest]; [reflexivity|].
  destruct (exempt c (e_message first)); [reflexivity|].
  rewrite H. reflexivity.
Qed.

Lemma c13_warning_only_lock_granted orc c mode t body hist :
  existsb sev_is_error (orc hist K_LOCK t) = false ->
  let lk := mkEv K_LOCK t true false in
  let tb := fst (exec orc c mode body (hist ++ [lk])) in
  exists u, fst (exec orc c mode (Locked t body) hist) = [lk] ++ tb ++ [mkEv K_UNLOCK t true u].
Proof. intros H. apply c13_bracket. now apply decide_errors_no_error. Qed.

(* ---------- the stack discipline of all contexts of a program ---------- *)
Lemma ctx_run_app a : forall b s,
  ctx_run (a ++ b) s = match ctx_run a s with Some s' => ctx_run b s' | None => None end.
Proof.
  induction a as [|e a IH]; intros b s; cbn [app ctx_run]; [reflexivity|].
  destruct (ev_ctx e); [|apply IH].
  destruct (N.eqb (ev_kind e) K_LOCK); [apply IH|].
  destruct s as [|x st]; [reflexivity|]. destruct (beq x (ev_target e)); [apply IH|reflexivity].
Qed.

Lemma c13_lifo orc c mode p : forall hist stack,
  ctx_run (fst (exec orc c mode p hist)) stack = Some stack.
Proof.
  induction p as [| e | k t | p IHp q IHq | t body IH | p IHp | k t]; intros hist stack; cbn [exec].
  - reflexivity.
  - reflexivity.
  - rewrite request_shape. reflexivity.
  - specialize (IHp hist stack). destruct (exec orc c mode p hist) as [t1 r1]. cbn [fst] in IHp.
    destruct r1 as [|x]; [|exact IHp].
    specialize (IHq (hist ++ t1) stack). destruct (exec orc c mode q (hist ++ t1)) as [t2 r2]. cbn [fst] in *.
    now rewrite ctx_run_app, IHp.
  - rewrite request_shape.
    destruct (is_raise (decide MODE_ERRORS (orc hist K_LOCK t) c)) eqn:E; [reflexivity|].
    specialize (IH (hist ++ [mkEv K_LOCK t true false]) (t :: stack)).
    destruct (exec orc c mode body (hist ++ [mkEv K_LOCK t true false])) as [t2 r2]. cbn [fst] in IH.
    rewrite request_shape. cbn [fst app ctx_run ev_ctx ev_kind ev_raised ev_target].
    change (N.eqb K_LOCK K_LOCK) with true. cbn iota.
    rewrite ctx_run_app, IH. cbn [ctx_run ev_ctx ev_kind ev_target].
    change (N.eqb K_UNLOCK K_LOCK) with false. cbn iota. now rewrite beq_refl.
  - specialize (IHp hist stack). destruct (exec orc c mode p hist) as [t1 r1]. exact IHp.
  - reflexivity.
Qed.

(* exactly one context unlock per accepted context lock, over a whole program *)
Lemma c13_counts orc c mode p : forall hist,
  accepted_ctx_locks (fst (exec orc c mode p hist)) = ctx_unlocks (fst (exec orc c mode p hist)).
Proof.
  unfold accepted_ctx_locks, ctx_unlocks.
  induction p as [| e | k t | p IHp q IHq | t body IH | p IHp | k t]; intros hist; cbn [exec].
  - reflexivity.
  - reflexivity.
  - rewrite request_shape. reflexivity.
  - specialize (IHp hist). destruct (exec orc c mode p hist) as [t1 r1]. cbn [fst] in IHp.
    destruct r1 as [|x]; [|exact IHp].
    specialize (IHq (hist ++ t1)). destruct (exec orc c mode q (hist ++ t1)) as [t2 r2]. cbn [fst] in *.
    rewrite !filter_app, !app_length. lia.
  - rewrite request_shape.
    destruct (is_raise (decide MODE_ERRORS (orc hist K_LOCK t) c)) eqn:E; [reflexivity|].
    specialize (IH (hist ++ [mkEv K_LOCK t true false])).
    destruct (exec orc c mode body (hist ++ [mkEv K_LOCK t true false])) as [t2 r2]. cbn [fst] in IH.
    rewrite request_shape. cbn [fst].
    rewrite !filter_app, !app_length. cbn. lia.
  - specialize (IHp hist). destruct (exec orc c mode p hist) as [t1 r1]. exact IHp.
  - reflexivity.
Qed.

(* the result of a program is never an exception that a context's unlock produced while the body was raising:
   stated positively — a context ends with the unlock's RPCError only if its body ended normally *)
Lemma c13_unlock_error_only_after_normal_body orc c mode t body hist o :
  snd (exec orc c mode (Locked t body) hist) = Exc (RpcExn K_UNLOCK t o) ->
  decide MODE_ERRORS (orc hist K_LOCK t) c = Return ->
  snd (exec orc c mode body (hist ++ [mkEv K_LOCK t true false])) = Normal \/
  snd (exec orc c mode body (hist ++ [mkEv K_LOCK t true false])) = Exc (RpcExn K_UNLOCK t o).
Proof.
  intros H Hl. destruct (snd (exec orc c mode body (hist ++ [mkEv K_LOCK t true false]))) as [|x] eqn:E.
  - now left.
  - right. rewrite (c13_propagates orc c mode t body hist x Hl E) in H. exact H.
Qed.

(* ---------- one LockContext object entered several times (Model/LockCtx.v [Reuse]) ---------- *)
Lemma exec_seq orc c mode p q hist :
  exec orc c mode (Seq p q) hist =
  let (t1, r1) := exec orc c mode p hist in
  match r1 with
  | Normal => let (t2, r2) := exec orc c mode q (hist ++ t1) in (t1 ++ t2, r2)
  | Exc x => (t1, Exc x)
  end.
Proof. reflexivity. Qed.

Lemma exec_try orc c mode p hist :
  exec orc c mode (Try p) hist = let (t1, _) := exec orc c mode p hist in (t1, Normal).
Proof. reflexivity. Qed.

(* a retry loop: the first entry of the object is refused (and caught), the second is granted: the refused entry
   leaves the lock request only, the granted one is bracketed like a fresh context - lock, exactly the body, ONE unlock *)
Lemma c13_reuse_refused_then_granted orc c mode t b1 b2 caught2 hist :
  lock_refused orc c t hist ->
  let lr := mkEv K_LOCK t true true in
  let lk := mkEv K_LOCK t true false in
  decide MODE_ERRORS (orc (hist ++ [lr]) K_LOCK t) c = Return ->
  let tb := fst (exec orc c mode b2 ((hist ++ [lr]) ++ [lk])) in
  exists u, fst (exec orc c mode (Reuse t [(true, b1); (caught2, b2)]) hist) = [lr] ++ ([lk] ++ tb ++ [mkEv K_UNLOCK t true u]).
Proof.
  intros Href lr lk Hgr tb.
  destruct (c13_bracket orc c mode t b2 (hist ++ [lr]) Hgr) as [u Hu]. cbn zeta in Hu. fold lk lr tb in Hu.
  exists u. unfold Reuse, locked. cbn [reuse_entries]. unfold enter_once, With. cbn [lc_target fst snd].
  rewrite exec_seq, exec_try, (c13_lock_refused orc c mode t b1 hist Href). fold lr.
  rewrite exec_seq. destruct caught2.
  - rewrite exec_try. destruct (exec orc c mode (Locked t b2) (hist ++ [lr])) as [t2 r2]. cbn [fst] in Hu. subst t2.
    cbn [exec fst]. now rewrite app_nil_r.
  - destruct (exec orc c mode (Locked t b2) (hist ++ [lr])) as [t2 r2]. cbn [fst] in Hu. subst t2.
    destruct r2; [cbn [exec fst]; now rewrite app_nil_r | reflexivity].
Qed.

(* the same object granted twice in a row (first entry's exceptions caught): two complete brackets *)
Lemma c13_reuse_granted_twice orc c mode t b1 b2 caught2 hist :
  let lk := mkEv K_LOCK t true false in
  decide MODE_ERRORS (orc hist K_LOCK t) c = Return ->
  let tb1 := fst (exec orc c mode b1 (hist ++ [lk])) in
  forall u1, fst (exec orc c mode (Locked t b1) hist) = [lk] ++ tb1 ++ [mkEv K_UNLOCK t true u1] ->
  let h2 := hist ++ ([lk] ++ tb1 ++ [mkEv K_UNLOCK t true u1]) in
  decide MODE_ERRORS (orc h2 K_LOCK t) c = Return ->
  let tb2 := fst (exec orc c mode b2 (h2 ++ [lk])) in
  exists u2, fst (exec orc c mode (Reuse t [(true, b1); (caught2, b2)]) hist) =
             ([lk] ++ tb1 ++ [mkEv K_UNLOCK t true u1]) ++ ([lk] ++ tb2 ++ [mkEv K_UNLOCK t true u2]).
Proof.
  intros lk H1 tb1 u1 Hu1 h2 H2 tb2.
  destruct (c13_bracket orc c mode t b2 h2 H2) as [u2 Hu2]. cbn zeta in Hu2. fold lk tb2 in Hu2.
  exists u2. unfold Reuse, locked. cbn [reuse_entries]. unfold enter_once, With. cbn [lc_target fst snd].
  rewrite exec_seq, exec_try.
  destruct (exec orc c mode (Locked t b1) hist) as [t1 r1]. cbn [fst] in Hu1. subst t1. fold h2.
  rewrite exec_seq. destruct caught2.
  - rewrite exec_try. destruct (exec orc c mode (Locked t b2) h2) as [t2 r2]. cbn [fst] in Hu2. subst t2.
    cbn [exec fst]. now rewrite app_nil_r.
  - destruct (exec orc c mode (Locked t b2) h2) as [t2 r2]. cbn [fst] in Hu2. subst t2.
    destruct r2; [cbn [exec fst]; now rewrite app_nil_r | reflexivity].
Qed.

(* any number of entries, any answers: as many context unlocks as granted entries, LIFO discipline kept *)
Lemma c13_reuse_counts orc c mode t es hist :
  accepted_ctx_locks (fst (exec orc c mode (Reuse t es) hist)) = ctx_unlocks (fst (exec orc c mode (Reuse t es) hist)).
Proof. apply c13_counts. Qed.
