(* SessionSoftProofs.v — invariants and C14 statements for the extended session LTS (Model/SessionSoft.v).
   The base development (Proofs/SessionLTSProofs.v) is used as it is: group A (InvA) holds of the base component of
   every extended state.  Group B of the base development ties every stored error to THE one fatal broadcast
   (b_err, b_bc), which is exactly what a non-fatal broadcast breaks; the part of group B that does not mention the
   broadcast is restated here as InvS (same statements, same step proofs) with the "no request is ever lost" clause
   generalised by the snapshot a non-fatal broadcast is working on. *)
From Coq Require Import Lia.
From NC Require Import Model.Base Model.SessionLTS Model.SessionSoft Proofs.SessionLTSProofs.

(* ---------- group S: group B without the fatal-broadcast clauses; `extra` = snapshot of a non-fatal broadcast ---------- *)
Record InvS (extra : list nat) (s : st) : Prop := {
  s_own : forall rid r i, rq s rid = Some r -> r_reply r = Some i -> i = r_id r;
  s_wdel : forall id, pc s = WDel id -> exists rid r, rq s rid = Some r /\ r_id r = id /\ r_reply r <> None;
  s_dlog : NoDup (deliver_log s);
  s_dlog2 : forall rid, In rid (deliver_log s) ->
            exists r, rq s rid = Some r /\ r_reply r <> None /\
                      (tget (r_id r) (table s) = None \/ pc s = WDel (r_id r));
  s_pend : forall rid r, rq s rid = Some r -> r_reply r = None -> r_error r = None -> ~ In rid extra ->
           tget (r_id r) (table s) = Some rid \/ In rid (pc_rids (pc s));
  s_late : after_clear (pc s) = true -> forall id rid, tget id (table s) = Some rid -> ~ In rid (wrote s);
  s_ev : forall rid r, rq s rid = Some r -> (r_ev r = true <-> (r_reply r <> None \/ r_error r <> None));
  s_done : forall rid r i, rq s rid = Some r -> r_st r = CDone (OReply i) -> r_reply r = Some i;
  s_lst : lst s = false -> reqs s = [];
  s_skip : skipok s = true -> errphase (pc s) = true /\ wrote s = []
}.

Lemma InvB_InvS s : InvB s -> InvS [] s.
Proof.
  intros HB. constructor.
  - apply (b_own _ HB).
  - apply (b_wdel _ HB).
  - apply (b_dlog _ HB).
  - apply (b_dlog2 _ HB).
  - intros rid r Hr Hrep Herr _. apply (b_pend _ HB _ _ Hr Hrep Herr).
  - apply (b_late _ HB).
  - apply (b_ev _ HB).
  - apply (b_done _ HB).
  - apply (b_lst _ HB).
  - apply (b_skip _ HB).
Qed.

Lemma s_own_step extra s l s' : InvA s -> InvS extra s -> step s l = Some s' ->
  forall rid r i, rq s' rid = Some r -> r_reply r = Some i -> i = r_id r.
Proof.
  intros HA HB H rid r' i Hr Hrep.
  destruct (rq_step _ _ _ _ _ H Hr) as [Hu|[(r & c & Hu & -> & _)|[(r & id & Hu & -> & Hpc)|[(r & e & rest & Hu & -> & _)|(_ & id & _ & ->)]]]].
  - eapply (s_own _ _ HB); eauto.
  - simpl in *. eapply (s_own _ _ HB); eauto.
  - simpl in *. injection Hrep as <-. symmetry. eapply deliver_id; eauto.
  - simpl in *. eapply (s_own _ _ HB); eauto.
  - discriminate.
Qed.

Lemma s_done_step extra s l s' : InvA s -> InvS extra s -> step s l = Some s' ->
  forall rid r i, rq s' rid = Some r -> r_st r = CDone (OReply i) -> r_reply r = Some i.
Proof.
  intros HA HB H rid r' i Hr Hst.
  destruct (rq_step _ _ _ _ _ H Hr) as [Hu|[(r & c & Hu & -> & Hc)|[(r & id & Hu & -> & Hpc)|[(r & e & rest & Hu & -> & _)|(_ & id & _ & ->)]]]].
  - eapply (s_done _ _ HB); eauto.
  - simpl in *. auto.
  - simpl in *. pose proof (s_done _ _ HB _ _ _ Hu Hst) as Hd.
    pose proof (s_own _ _ HB _ _ _ Hu Hd) as ->. f_equal. symmetry. eapply deliver_id; eauto.
  - simpl in *. eapply (s_done _ _ HB); eauto.
  - discriminate.
Qed.

Lemma s_ev_step extra s l s' : InvA s -> InvS extra s -> step s l = Some s' ->
  forall rid r, rq s' rid = Some r -> (r_ev r = true <-> (r_reply r <> None \/ r_error r <> None)).
Proof.
  intros HA HB H rid r' Hr.
  destruct (rq_step _ _ _ _ _ H Hr) as [Hu|[(r & c & Hu & -> & Hc)|[(r & id & Hu & -> & Hpc)|[(r & e & rest & Hu & -> & _)|(_ & id & _ & ->)]]]].
  - eapply (s_ev _ _ HB); eauto.
  - simpl. eapply (s_ev _ _ HB); eauto.
  - simpl. split; [intros _; left; discriminate|reflexivity].
  - simpl. split; [intros _; right; discriminate|reflexivity].
  - simpl. split; [discriminate|intros [Hx|Hx]; congruence].
Qed.

Lemma s_wdel_step extra s l s' : InvA s -> InvS extra s -> step s l = Some s' ->
  forall id, pc s' = WDel id -> exists rid r, rq s' rid = Some r /\ r_id r = id /\ r_reply r <> None.
Proof.
  intros HA HB H id Hpc'.
  assert (Hkeep : pc s = WDel id -> exists rid r, rq s' rid = Some r /\ r_id r = id /\ r_reply r <> None).
  { intros Hpc. destruct (s_wdel _ _ HB _ Hpc) as (rid1 & r1 & Hr1 & Hid1 & Hrep1).
    destruct (rq_pres _ _ _ _ _ H Hr1) as (r' & Hr' & Hid' & Hrep' & _).
    exists rid1, r'; repeat split; [exact Hr'|congruence|auto]. }
  destruct l; inv_step H; simpl in Hpc'; try discriminate; try (apply Hkeep; assumption).
  all: try (destruct (qualify s); simpl in Hpc'; try discriminate; try (apply Hkeep; assumption)).
  all: try (exfalso; congruence).
  all: try (apply is_idle_true in E; exfalso; congruence).
  (* LEvSetReply *)
  all: apply Nat.eqb_eq in E0; subst; injection Hpc' as <-;
  pose proof (a_pcdel _ HA _ _ E) as Hg; destruct (a_tab _ HA _ _ Hg) as (r1 & Hr1 & Hid1);
  unfold rq in *; simpl; exists rid0, (set_reply id0 r1); rewrite nth_upd_same, Hr1; simpl;
  repeat split; [assumption|discriminate].
Qed.

Lemma s_dlog2_step extra s l s' : InvA s -> InvS extra s -> step s l = Some s' ->
  forall rid, In rid (deliver_log s') ->
  exists r, rq s' rid = Some r /\ r_reply r <> None /\
            (tget (r_id r) (table s') = None \/ pc s' = WDel (r_id r)).
Proof.
  intros HA HB H rid Hin.
  (* old entries: the request persists with its id and reply *)
  assert (Hold : In rid (deliver_log s) ->
                 exists r r', rq s rid = Some r /\ rq s' rid = Some r' /\ r_id r' = r_id r /\ r_reply r' <> None /\
                              (tget (r_id r) (table s) = None \/ pc s = WDel (r_id r))).
  { intros Hi. destruct (s_dlog2 _ _ HB _ Hi) as (r & Hr & Hrep & Hd).
    destruct (rq_pres _ _ _ _ _ H Hr) as (r' & Hr' & Hid' & Hrep' & _). exists r, r'. repeat split; auto. }
  destruct l; inv_step H; simpl in Hin |- *.
  all: try (destruct (qualify s); simpl in Hin |- * ).
  (* labels that change neither table nor pc nor the log *)
  all: try solve [destruct (Hold Hin) as (xr & xr' & Hr & Hr' & Hid & Hrep & Hd); exists xr'; rewrite Hid; auto].
  (* labels that change pc (from a state that is not WDel) but not the table *)
  all: try solve [destruct (Hold Hin) as (xr & xr' & Hr & Hr' & Hid & Hrep & [Hd|Hd]);
                  [exists xr'; rewrite Hid; auto | exfalso; try (apply is_idle_true in E); congruence]].
  (* LReg: the new id is fresh *)
  all: try solve [apply reg_guard in E as (-> & Hn & Hl);
                  destruct (Hold Hin) as (xr & xr' & Hr & Hr' & Hid & Hrep & [Hd|Hd]);
                  [exists xr'; rewrite Hid; repeat split; auto; left; rewrite tget_tset_other; [assumption|];
                   intros ->; apply Hn; eapply In_ids; eauto
                  | rewrite Hd in Hl; discriminate Hl]].
  (* LTDel *)
  all: try solve [apply N.eqb_eq in E0; subst;
                  destruct (Hold Hin) as (xr & xr' & Hr & Hr' & Hid & Hrep & [Hd|Hd]);
                  exists xr'; rewrite Hid; repeat split; auto; left;
                  [apply tget_tdel_None; assumption
                  | injection Hd as <-; apply tget_tdel_same; apply (a_keys _ HA)]].
  (* LTClear *)
  all: try solve [destruct (Hold Hin) as (xr & xr' & Hr & Hr' & Hid & Hrep & Hd); exists xr'; repeat split; auto].
  all: try solve [apply reg_guard in E as (-> & Hn & Hl);
    destruct (Hold Hin) as (xr & xr' & Hr & Hr' & Hid & Hrep & [Hd|Hd]);
    [ exists xr'; rewrite Hid; repeat split; auto; left; rewrite tget_tset_other; [assumption|];
      intros Heq; apply Hn; rewrite <- Heq; eapply In_ids; eauto
    | rewrite Hd in Hl; discriminate Hl ]].
  (* LEvSetReply *)
  all: apply Nat.eqb_eq in E0; subst; apply in_app_iff in Hin as [Hin|[<-|[]]];
    [ destruct (Hold Hin) as (xr & xr' & Hr & Hr' & Hid & Hrep & [Hd|Hd]);
      [exists xr'; rewrite Hid; auto | exfalso; congruence]
    | pose proof (a_pcdel _ HA _ _ E) as Hg; destruct (a_tab _ HA _ _ Hg) as (r1 & Hr1 & Hid1);
      unfold rq in *; simpl; exists (set_reply id r1); rewrite nth_upd_same, Hr1; simpl;
      repeat split; [discriminate|right; congruence] ].
Qed.

Lemma s_dlog_step extra s l s' : InvA s -> InvS extra s -> step s l = Some s' -> NoDup (deliver_log s').
Proof.
  intros HA HB H. pose proof (s_dlog _ _ HB) as Hnd.
  destruct l; inv_step H; simpl; try assumption.
  all: try (destruct (qualify s); simpl; assumption).
  all: apply Nat.eqb_eq in E0; subst; apply NoDup_app_one_nat; [assumption|]; intros Hin;
    destruct (s_dlog2 _ _ HB _ Hin) as (r & Hr & Hrep & [Hd|Hd]); [|congruence];
    pose proof (a_pcdel _ HA _ _ E) as Hg; destruct (a_tab _ HA _ _ Hg) as (r1 & Hr1 & Hid1);
    congruence.
Qed.

Lemma s_pend_step extra s l s' : InvA s -> InvS extra s -> step s l = Some s' ->
  forall rid r, rq s' rid = Some r -> r_reply r = None -> r_error r = None -> ~ In rid extra ->
  tget (r_id r) (table s') = Some rid \/ In rid (pc_rids (pc s')).
Proof.
  intros HA HB H rid r' Hr' Hrep Herr Hnx.
  assert (Hsrc : (exists r, rq s rid = Some r /\ r_id r = r_id r' /\ r_reply r = None /\ r_error r = None) \/
                 (rq s rid = None /\ l = LReg rid (r_id r'))).
  { destruct (rq_step _ _ _ _ _ H Hr') as [Hu|[(r & c & Hu & -> & _)|[(r & id & Hu & -> & Hpc)|[(r & e & rest & Hu & -> & _)|(Hn & id & -> & ->)]]]];
      simpl in *; try discriminate; eauto 8. }
  destruct Hsrc as [(r & Hr & Hid & Hrep0 & Herr0)|[Hnone ->]].
  - rewrite <- Hid. pose proof (s_pend _ _ HB _ _ Hr Hrep0 Herr0 Hnx) as D.
    destruct l; inv_step H; simpl.
    all: try (destruct (qualify s); simpl).
    all: try exact D.
    all: try solve [destruct D as [D|D]; [left; exact D|rewrite ?E in D; simpl in D; try (apply is_idle_true in E; rewrite E in D; simpl in D); contradiction]].
    all: try solve [apply reg_guard in E as (-> & Hn & Hl); destruct D as [D|D];
                    [left; rewrite tget_tset_other; [exact D|intros Heq; apply Hn; rewrite <- Heq; eapply In_ids; eauto]
                    |right; exact D]].
    all: try solve [apply N.eqb_eq in E0; subst; destruct D as [D|D]; [|simpl in D; contradiction]; left;
                    match goal with Hw : pc _ = WDel ?i |- _ =>
                    destruct (N.eq_dec (r_id r) i) as [Heq|Hne];
                    [exfalso; destruct (s_wdel _ _ HB _ Hw) as (rid2 & r2 & Hr2 & Hid2 & Hrep2);
                     assert (rid2 = rid) by (eapply ids_inj; [apply (a_ids _ HA)|exact Hr2|exact Hr|congruence]);
                     subst; unfold rq in *; congruence
                    |rewrite tget_tdel_other; assumption] end].
    (* LTClear: the snapshot is the table *)
    all: try solve [right; destruct D as [D|D]; [|exact D];
                    match goal with Hw : pc _ = WErrClear ?e ?rids |- _ =>
                      rewrite (a_clear _ HA _ _ Hw); eapply tget_In_snd; eauto end].
    (* LEvSetErr: the head of the list is the request being failed, which is not ours *)
    all: try solve [apply Nat.eqb_eq in E1; subst; destruct D as [D|[D|D]]; [left; exact D| |right; exact D];
                    exfalso; subst; unfold rq in *; simpl in Hr'; rewrite nth_upd_same, Hr in Hr'; simpl in Hr';
                    injection Hr' as <-; discriminate Herr].

  - inv_step H. simpl. left. apply tget_tset_same.
Qed.

Lemma s_late_step extra s l s' : InvA s -> InvS extra s -> step s l = Some s' ->
  after_clear (pc s') = true -> forall id rid, tget id (table s') = Some rid -> ~ In rid (wrote s').
Proof.
  intros HA HB H Hac id rid Hg. pose proof (s_late _ _ HB) as IH.
  destruct l; inv_step H; simpl in Hac, Hg |- *; try discriminate.
  all: try (destruct (qualify s); simpl in Hac, Hg |- *; try discriminate).
  all: try solve [eapply IH; eauto].
  all: try solve [rewrite ?E in IH; simpl in IH; eapply IH; eauto].
  all: try solve [apply is_idle_true in E; rewrite E in Hac; discriminate].
  all: try solve [rewrite E in Hac; discriminate].
  all: try solve [match goal with Hs : skipok _ = true |- _ => rewrite (proj2 (s_skip _ _ HB Hs)); intros [] end].
  all: try solve [match goal with Hs : skipok _ && closing _ = true |- _ =>
                    apply andb_true_iff in Hs as [Hs _]; rewrite (proj2 (s_skip _ _ HB Hs)); intros [] end].
  all: apply reg_guard in E as (-> & Hn & Hl); destruct (N.eq_dec id id0) as [->|Hne];
    [ rewrite tget_tset_same in Hg; injection Hg as <-; intros Hin; apply (a_wrote _ HA) in Hin; lia
    | rewrite tget_tset_other in Hg by assumption; eapply IH; eauto ].
Qed.

Lemma s_skip_step extra s l s' : InvA s -> InvS extra s -> step s l = Some s' ->
  (lst s' = false -> reqs s' = []) /\ (skipok s' = true -> errphase (pc s') = true /\ wrote s' = []).
Proof.
  intros HA HB H. pose proof (s_lst _ _ HB) as Hl. pose proof (s_skip _ _ HB) as Hs.
  pose proof (errphase_step _ _ _ H) as He.
  destruct l; inv_step H; simpl in *.
  all: try (destruct (qualify s); simpl in * ).
  all: try solve [split; [exact Hl | intros Hx; destruct (Hs Hx) as [H1 H2]; split; [apply He; exact H1|exact H2]]].
  all: try solve [split; [intros Hx; rewrite (Hl Hx); destruct rid; reflexivity
                         | intros Hx; destruct (Hs Hx) as [H1 H2]; split; [apply He; exact H1|exact H2]]].
  all: try solve [split; [discriminate | intros Hx; destruct (Hs Hx) as [H1 H2]; split; [apply He; exact H1|exact H2]]].
  (* LDeq: the worker is idle, so skipok is false *)
  all: try solve [split; [exact Hl | intros Hx; destruct (Hs Hx) as [H1 _]; discriminate H1]].
  (* transitions inside the error phase *)
  all: try solve [split; [exact Hl | intros Hx; destruct (Hs Hx) as [_ H2]; split; [reflexivity|exact H2]]].
  (* LErrBcast: skipok := no listener; then no request was ever registered, so nothing was written *)
  all: try solve [split; [exact Hl | intros Hx; apply negb_true_iff in Hx; split; [reflexivity|];
                  destruct (wrote s) as [|w ws] eqn:Ew; [reflexivity|]; exfalso;
                  assert (Hw : In w (wrote s)) by (rewrite Ew; simpl; auto);
                  apply (a_wrote _ HA) in Hw; rewrite (Hl Hx) in Hw; simpl in Hw; lia]].
  all: try solve [split; [exact Hl | intros _; split; [reflexivity|apply Hs; reflexivity]]].

Qed.

Lemma InvS_step extra s l s' : InvA s -> InvS extra s -> step s l = Some s' -> InvS extra s'.
Proof.
  intros HA HB H. constructor.
  - eapply s_own_step; eauto.
  - eapply s_wdel_step; eauto.
  - eapply s_dlog_step; eauto.
  - eapply s_dlog2_step; eauto.
  - eapply s_pend_step; eauto.
  - eapply s_late_step; eauto.
  - eapply s_ev_step; eauto.
  - eapply s_done_step; eauto.
  - apply (proj1 (s_skip_step _ _ _ _ HA HB H)).
  - apply (proj2 (s_skip_step _ _ _ _ HA HB H)).
Qed.

Lemma InvS_weaken e1 e2 s : InvS e1 s -> (forall r, In r e1 -> In r e2) -> InvS e2 s.
Proof.
  intros HB Hsub. constructor.
  - apply (s_own _ _ HB).
  - apply (s_wdel _ _ HB).
  - apply (s_dlog _ _ HB).
  - apply (s_dlog2 _ _ HB).
  - intros rid r Hr Hrep Herr Hn. apply (s_pend _ _ HB _ _ Hr Hrep Herr). intros Hi. apply Hn, Hsub, Hi.
  - apply (s_late _ _ HB).
  - apply (s_ev _ _ HB).
  - apply (s_done _ _ HB).
  - apply (s_lst _ _ HB).
  - apply (s_skip _ _ HB).
Qed.

(* ---------- the two state changes of a non-fatal broadcast, on an idle worker ---------- *)
Lemma InvA_clear s : InvA s -> pc s = WIdle -> InvA (with_table s []).
Proof.
  intros [Hids Hkeys Htab Hwr Hoq Hconn Hstop Hnot Hclr Hdel] Hpc.
  constructor; simpl; auto.
  - constructor.
  - intros id rid Hx. discriminate Hx.
  - intros e rids Hx. congruence.
  - intros rid id Hx. congruence.
Qed.

Lemma InvS_clear s : InvS (map snd (table s)) s -> pc s = WIdle -> InvS (map snd (table s)) (with_table s []).
Proof.
  intros HB Hpc. constructor; simpl.
  - apply (s_own _ _ HB).
  - intros id Hx. congruence.
  - apply (s_dlog _ _ HB).
  - intros rid Hin. destruct (s_dlog2 _ _ HB _ Hin) as (r & Hr & Hrep & _). exists r. auto.
  - intros rid r Hr Hrep Herr Hn. exfalso.
    destruct (s_pend _ _ HB _ _ Hr Hrep Herr Hn) as [Hg|Hi].
    + apply Hn. eapply tget_In_snd; eauto.
    + rewrite Hpc in Hi. exact Hi.
  - rewrite Hpc. simpl. discriminate.
  - apply (s_ev _ _ HB).
  - apply (s_done _ _ HB).
  - apply (s_lst _ _ HB).
  - intros Hx. destruct (s_skip _ _ HB Hx) as [He _]. rewrite Hpc in He. discriminate He.
Qed.

Lemma rq_set_error s rid e rid' r' :
  rq (with_reqs s (upd (reqs s) rid (set_error e))) rid' = Some r' ->
  (rid' <> rid /\ rq s rid' = Some r') \/ (rid' = rid /\ exists r, rq s rid = Some r /\ r' = set_error e r).
Proof.
  unfold rq; simpl. intros H. rewrite nth_upd in H.
  destruct (Nat.eqb_spec rid rid') as [->|Hne].
  - right. split; [reflexivity|]. destruct (nth_error (reqs s) rid') as [r|]; simpl in H; [|discriminate].
    injection H as <-. eauto.
  - left. split; [congruence|exact H].
Qed.

Lemma InvA_fail s rid e : InvA s -> pc s = WIdle -> InvA (with_reqs s (upd (reqs s) rid (set_error e))).
Proof.
  intros [Hids Hkeys Htab Hwr Hoq Hconn Hstop Hnot Hclr Hdel] Hpc.
  constructor; simpl; auto.
  - rewrite map_id_upd by (intros; reflexivity). assumption.
  - intros id xrid Hg. destruct (Htab _ _ Hg) as (xr & Hxr & Hxid).
    destruct (rq_upd_ex s rid (set_error e) xrid xr (fun _ => eq_refl) Hxr) as (r' & Hr' & Hid').
    exists r'. split; [exact Hr'|congruence].
  - rewrite length_upd. assumption.
  - rewrite length_upd. assumption.
Qed.

Lemma InvS_fail s rid rest e :
  InvS (rid :: rest) s -> pc s = WIdle -> InvS rest (with_reqs s (upd (reqs s) rid (set_error e))).
Proof.
  intros HB Hpc. constructor; simpl.
  - intros xrid r' i Hr Hrep. destruct (rq_set_error _ _ _ _ _ Hr) as [[_ Hu]|[_ (r & Hu & ->)]]; simpl in *; eapply (s_own _ _ HB); eauto.
  - intros id Hx. congruence.
  - apply (s_dlog _ _ HB).
  - intros xrid Hin. destruct (s_dlog2 _ _ HB _ Hin) as (r & Hr & Hrep & Hd).
    destruct (Nat.eq_dec xrid rid) as [->|Hne].
    + exists (set_error e r). unfold rq in *; simpl. rewrite nth_upd_same, Hr. simpl. auto.
    + exists r. unfold rq in *; simpl. rewrite nth_upd_other by congruence. auto.
  - intros xrid r' Hr Hrep Herr Hn.
    destruct (rq_set_error _ _ _ _ _ Hr) as [[Hne Hu]|[_ (r & Hu & ->)]]; simpl in *; [|discriminate].
    apply (s_pend _ _ HB _ _ Hu Hrep Herr). intros [Hx|Hx]; [congruence|contradiction].
  - rewrite Hpc. simpl. discriminate.
  - intros xrid r' Hr. destruct (rq_set_error _ _ _ _ _ Hr) as [[_ Hu]|[_ (r & Hu & ->)]]; simpl.
    + eapply (s_ev _ _ HB); eauto.
    + split; [intros _; right; discriminate|reflexivity].
  - intros xrid r' i Hr Hst. destruct (rq_set_error _ _ _ _ _ Hr) as [[_ Hu]|[_ (r & Hu & ->)]]; simpl in *; eapply (s_done _ _ HB); eauto.
  - intros Hx. rewrite (s_lst _ _ HB Hx). destruct rid; reflexivity.
  - intros Hx. destruct (s_skip _ _ HB Hx) as [He _]. rewrite Hpc in He. discriminate He.
Qed.

(* ---------- client labels touch neither the worker's position nor (except a registration) the pending table ---------- *)
Lemma client_pc s l s' : is_client l = true -> step s l = Some s' -> pc s' = pc s.
Proof.
  intros Hc H. destruct l; simpl in Hc; try discriminate Hc; inv_step H; simpl; try reflexivity.
  all: simpl in Hc; discriminate Hc.
Qed.

Lemma client_table s l s' : is_client l = true -> is_reg l = false -> step s l = Some s' -> table s' = table s.
Proof.
  intros Hc Hr H. destruct l; simpl in Hc, Hr; try discriminate Hc; try discriminate Hr; inv_step H; simpl; try reflexivity.
  all: try (simpl in Hc; discriminate Hc).
Qed.

Lemma sp_rids_after e rids : sp_rids (after_rids e rids) = rids.
Proof. destruct rids; reflexivity. Qed.

(* ---------- the invariant of the extended system ---------- *)
Record XInv (x : xst) : Prop := {
  x_a : InvA (base x);
  x_s : InvS (sp_rids (sp x)) (base x);
  x_idle : sp x <> SNone -> pc (base x) = WIdle;
  x_clear : forall e rids, sp x = SClear e rids -> rids = map snd (table (base x))
}.

Lemma XInv_init q : XInv (xinit q).
Proof.
  constructor; simpl.
  - apply InvA_init.
  - apply InvB_InvS, InvB_init.
  - intros H; congruence.
  - intros e rids H; discriminate H.
Qed.

Lemma XInv_base x s' l : XInv x -> sp x = SNone -> step (base x) l = Some s' -> XInv (with_base x s').
Proof.
  intros [HA HS Hi Hc] Hsp H. constructor; simpl.
  - eapply InvA_step; eauto.
  - eapply InvS_step; eauto.
  - intros Hx; congruence.
  - intros e rids Hx; congruence.
Qed.

Lemma XInv_client x s' l :
  XInv x -> is_client l = true -> (is_reg l && sp_tlock (sp x)) = false ->
  step (base x) l = Some s' -> XInv (with_base x s').
Proof.
  intros [HA HS Hi Hc] Hcl Hrg H. constructor; simpl.
  - eapply InvA_step; eauto.
  - eapply InvS_step; eauto.
  - intros Hx. rewrite (client_pc _ _ _ Hcl H). auto.
  - intros e rids Hx. rewrite Hx in Hrg. simpl in Hrg. rewrite andb_true_r in Hrg.
    rewrite (client_table _ _ _ Hcl Hrg H). eauto.
Qed.

Lemma XInv_step x l x' : XInv x -> xstep x l = Some x' -> XInv x'.
Proof.
  intros HX H. pose proof HX as [HA HS Hi Hc]. unfold xstep in H.
  destruct (sp x) as [|e|e|e rids|e rids] eqn:Esp.
  - (* outside a non-fatal broadcast *)
    destruct l as [l0|e|n].
    + unfold lift in H. destruct (step (base x) l0) as [s'|] eqn:Es; [|discriminate]. injection H as <-.
      eapply XInv_base; eauto.
    + destruct (is_idle (pc (base x))) eqn:Eid; [|discriminate]. injection H as <-.
      apply is_idle_true in Eid. constructor; simpl.
      * exact HA.
      * exact HS.
      * intros _. exact Eid.
      * intros e0 rids Hx; discriminate Hx.
    + unfold lift in H. destruct (step (base x) (LRaise 3)) as [s'|] eqn:Es; [|discriminate]. injection H as <-.
      eapply XInv_base; eauto.
  - (* SPre *)
    assert (Hpc : pc (base x) = WIdle) by (apply Hi; congruence).
    destruct l as [l0|e0|n]; try discriminate.
    destruct (is_client l0) eqn:Ecl.
    + rewrite andb_false_r in H. unfold lift in H. destruct (step (base x) l0) as [s'|] eqn:Es; [|discriminate]. injection H as <-.
      eapply XInv_client; eauto. rewrite Esp. simpl. apply andb_false_r.
    + destruct l0; try discriminate. destruct (N.eqb e e0); [|discriminate]. injection H as <-.
      constructor; simpl.
      * exact HA.
      * destruct (lst (base x)); exact HS.
      * intros _. exact Hpc.
      * intros e1 rids Hx. destruct (lst (base x)); discriminate Hx.
  - (* SSnap *)
    assert (Hpc : pc (base x) = WIdle) by (apply Hi; congruence).
    destruct l as [l0|e0|n]; try discriminate.
    destruct (is_client l0) eqn:Ecl.
    + rewrite andb_false_r in H. unfold lift in H. destruct (step (base x) l0) as [s'|] eqn:Es; [|discriminate]. injection H as <-.
      eapply XInv_client; eauto. rewrite Esp. simpl. apply andb_false_r.
    + destruct l0; try discriminate. destruct (listN_eqb ids (map fst (table (base x)))); [|discriminate]. injection H as <-.
      constructor; simpl.
      * exact HA.
      * eapply InvS_weaken; [exact HS|]. intros r [].
      * intros _. exact Hpc.
      * intros e1 rids Hx. injection Hx as _ <-. reflexivity.
  - (* SClear *)
    assert (Hpc : pc (base x) = WIdle) by (apply Hi; congruence).
    pose proof (Hc _ _ eq_refl) as Hr. subst rids.
    destruct l as [l0|e0|n]; try discriminate.
    destruct (is_client l0) eqn:Ecl.
    + destruct (is_reg l0) eqn:Erg; simpl in H; [discriminate|].
      unfold lift in H. destruct (step (base x) l0) as [s'|] eqn:Es; [|discriminate]. injection H as <-.
      eapply XInv_client; eauto. rewrite Erg. reflexivity.
    + destruct l0; try discriminate. injection H as <-.
      constructor; simpl.
      * apply InvA_clear; assumption.
      * rewrite sp_rids_after. simpl in HS. apply InvS_clear; assumption.
      * intros _. exact Hpc.
      * intros e1 rids Hx. destruct (map snd (table (base x))); discriminate Hx.
  - (* SDeliver *)
    assert (Hpc : pc (base x) = WIdle) by (apply Hi; congruence).
    destruct l as [l0|e0|n]; try discriminate.
    destruct (is_client l0) eqn:Ecl.
    + rewrite andb_false_r in H. unfold lift in H. destruct (step (base x) l0) as [s'|] eqn:Es; [|discriminate]. injection H as <-.
      eapply XInv_client; eauto. rewrite Esp. simpl. apply andb_false_r.
    + destruct rids as [|r rest]; [destruct l0; discriminate|].
      destruct l0; try discriminate. destruct (Nat.eqb_spec rid r) as [->|]; [|discriminate]. injection H as <-.
      constructor; simpl.
      * apply InvA_fail; assumption.
      * rewrite sp_rids_after. simpl in HS. apply InvS_fail; assumption.
      * intros _. exact Hpc.
      * intros e1 rids Hx. destruct rest; discriminate Hx.
Qed.

(* ---------- reachability ---------- *)
Definition xreach (x : xst) : Prop := exists q ls, xrun (xinit q) ls = Some x.

Lemma xrun_inv (P : xst -> Prop) :
  (forall x l x', P x -> xstep x l = Some x' -> P x') ->
  forall ls x x', P x -> xrun x ls = Some x' -> P x'.
Proof.
  intros Hstep ls; induction ls as [|l ls IH]; intros x x' HP H; simpl in H.
  - injection H as <-. exact HP.
  - destruct (xstep x l) as [x1|] eqn:E; [|discriminate]. eapply IH; [|exact H]. eapply Hstep; eauto.
Qed.

Lemma xreach_XInv x : xreach x -> XInv x.
Proof. intros (q & ls & H). eapply (xrun_inv XInv XInv_step); [apply XInv_init|exact H]. Qed.

(* the extension is conservative: outside a non-fatal broadcast a base label is the base step, and every run of
   the base system is a run of the extended one *)
Definition inj (s : st) : xst := {| base := s; sp := SNone; softs := [] |}.

Lemma xstep_base x l : sp x = SNone -> xstep x (XB l) = lift x (step (base x) l).
Proof. intros H. unfold xstep. rewrite H. reflexivity. Qed.

Lemma xrun_embed ls : forall s s', run s ls = Some s' -> xrun (inj s) (map XB ls) = Some (inj s').
Proof.
  induction ls as [|l ls IH]; intros s s' H; simpl in *.
  - injection H as <-. reflexivity.
  - destruct (step s l) as [s1|] eqn:E; [|discriminate].
    rewrite xstep_base by reflexivity. simpl. rewrite E. simpl. apply (IH s1 s' H).
Qed.

Lemma reach_xreach s : reach s -> xreach (inj s).
Proof. intros (q & ls & H). exists q, (map XB ls). apply (xrun_embed ls (init q) s H). Qed.

(* ================= statements exported to Props/C14_session.v ================= *)

(* the reply a request holds carries the request's own id, also after any number of hostile messages *)
Lemma c14x_own_reply x rid r i : xreach x -> rq (base x) rid = Some r -> r_reply r = Some i -> i = r_id r.
Proof. intros Hr. apply (s_own _ _ (x_s _ (xreach_XInv _ Hr))). Qed.

Lemma c14x_outcome_own x rid r i : xreach x -> rq (base x) rid = Some r -> r_st r = CDone (OReply i) -> i = r_id r.
Proof.
  intros Hr Hq Hst. pose proof (x_s _ (xreach_XInv _ Hr)) as HS.
  eapply (s_own _ _ HS); eauto. eapply (s_done _ _ HS); eauto.
Qed.

Lemma c14x_at_most_once x : xreach x -> NoDup (deliver_log (base x)).
Proof. intros Hr. apply (s_dlog _ _ (x_s _ (xreach_XInv _ Hr))). Qed.

(* no request is ever lost: one that has neither a reply nor an error is in the pending table, or in the snapshot a
   (fatal or non-fatal) broadcast is still failing *)
Lemma c14x_nothing_lost x rid r :
  xreach x -> rq (base x) rid = Some r -> r_reply r = None -> r_error r = None ->
  tget (r_id r) (table (base x)) = Some rid \/ In rid (pc_rids (pc (base x))) \/ In rid (sp_rids (sp x)).
Proof.
  intros Hr Hq Hrep Herr. pose proof (x_s _ (xreach_XInv _ Hr)) as HS.
  destruct (in_dec Nat.eq_dec rid (sp_rids (sp x))) as [Hi|Hn]; [auto|].
  destruct (s_pend _ _ HS _ _ Hq Hrep Herr Hn); auto.
Qed.

(* whenever the worker has stopped: disconnected, not inside a non-fatal broadcast, and every request that was written
   and got no reply has been failed *)
Lemma c14x_worker_stop x : xreach x -> pc (base x) = WExited ->
  connected (base x) = false /\ sp x = SNone /\
  (forall rid r, rq (base x) rid = Some r -> In rid (wrote (base x)) -> r_reply r = None -> r_error r <> None /\ r_ev r = true).
Proof.
  intros Hr Hpc. pose proof (xreach_XInv _ Hr) as [HA HS Hi Hc].
  assert (Hsp : sp x = SNone).
  { destruct (sp x) eqn:E; [reflexivity| | | |]; exfalso; (assert (Hx : pc (base x) = WIdle) by (apply Hi; congruence)); congruence. }
  split; [apply (a_stop _ HA); auto|]. split; [exact Hsp|].
  intros rid r Hq Hw Hrep. rewrite Hsp in HS. simpl in HS.
  assert (He : r_error r <> None).
  { intros Herr. destruct (s_pend _ _ HS _ _ Hq Hrep Herr (fun f => f)) as [Hg|Hin].
    - eapply (s_late _ _ HS); eauto. rewrite Hpc. reflexivity.
    - rewrite Hpc in Hin. contradiction. }
  split; [exact He|]. apply (s_ev _ _ HS _ _ Hq). right. exact He.
Qed.

Lemma c14x_soft_idle x : xreach x -> sp x <> SNone -> pc (base x) = WIdle.
Proof. intros Hr. apply (x_idle _ (xreach_XInv _ Hr)). Qed.

Lemma c14x_soft_snapshot x e rids id rid :
  xreach x -> sp x = SClear e rids -> tget id (table (base x)) = Some rid -> In rid rids.
Proof.
  intros Hr Hsp Hg. rewrite (x_clear _ (xreach_XInv _ Hr) _ _ Hsp). eapply tget_In_snd; eauto.
Qed.

Lemma c14x_reachable x : xreach x ->
  (forall rid r i, rq (base x) rid = Some r -> r_reply r = Some i -> i = r_id r) /\
  NoDup (deliver_log (base x)) /\
  (forall rid r, rq (base x) rid = Some r -> r_reply r = None -> r_error r = None ->
     tget (r_id r) (table (base x)) = Some rid \/ In rid (pc_rids (pc (base x))) \/ In rid (sp_rids (sp x))) /\
  (sp x <> SNone -> pc (base x) = WIdle) /\
  (forall e rids id rid, sp x = SClear e rids -> tget id (table (base x)) = Some rid -> In rid rids) /\
  (pc (base x) = WExited ->
     connected (base x) = false /\ sp x = SNone /\
     (forall rid r, rq (base x) rid = Some r -> In rid (wrote (base x)) -> r_reply r = None -> r_error r <> None /\ r_ev r = true)).
Proof.
  intros Hr. repeat split.
  - intros rid r i. apply c14x_own_reply; exact Hr.
  - apply c14x_at_most_once; exact Hr.
  - intros rid r. apply c14x_nothing_lost; exact Hr.
  - apply c14x_soft_idle; exact Hr.
  - intros e rids id rid. apply c14x_soft_snapshot; exact Hr.
  - apply (c14x_worker_stop _ Hr H).
  - apply (c14x_worker_stop _ Hr H).
  - apply (proj2 (proj2 (c14x_worker_stop _ Hr H)) _ _ H0 H1 H2).
  - apply (proj2 (proj2 (c14x_worker_stop _ Hr H)) _ _ H0 H1 H2).
Qed.

(* the steps of the worker that belong to a hostile (non-XML) message: its receipt, and the non-fatal broadcast *)
Definition hostile_step (x : xst) (l : xlabel) : bool :=
  match l with
  | XRecvErr _ => true
  | XB l0 => match sp x with SNone => false | _ => negb (is_client l0) end
  | XRecvBadNotif _ => false
  end.

(* ... deliver nothing, queue nothing, close nothing: the session keeps running; all they can do to a request is
   store an error and set its event *)
Lemma c14x_hostile_frame x l x' :
  xstep x l = Some x' -> hostile_step x l = true ->
  connected (base x') = connected (base x) /\ closing (base x') = closing (base x) /\ pc (base x') = pc (base x) /\
  outq (base x') = outq (base x) /\ nq (base x') = nq (base x) /\ wrote (base x') = wrote (base x) /\
  deliver_log (base x') = deliver_log (base x) /\ recv_notifs (base x') = recv_notifs (base x) /\
  taken (base x') = taken (base x) /\
  (forall rid r', rq (base x') rid = Some r' ->
     exists r, rq (base x) rid = Some r /\ r_id r' = r_id r /\ r_reply r' = r_reply r /\ r_st r' = r_st r).
Proof.
  intros H Hh. unfold xstep in H. unfold hostile_step in Hh.
  destruct l as [l0|e0|n]; [| |discriminate].
  - destruct (sp x) as [|e|e|e rids|e rids] eqn:Esp; [discriminate| | | |];
      apply negb_true_iff in Hh; rewrite Hh in H.
    + destruct l0; try discriminate. destruct (N.eqb e e0); [|discriminate]. injection H as <-. simpl. repeat split; eauto.
    + destruct l0; try discriminate. destruct (listN_eqb _ _); [|discriminate]. injection H as <-. simpl. repeat split; eauto.
    + destruct l0; try discriminate. injection H as <-. simpl. repeat split; eauto.
    + destruct rids as [|r rest]; [destruct l0; discriminate|]. destruct l0; try discriminate.
      destruct (Nat.eqb rid r); [|discriminate]. injection H as <-. simpl. repeat split; auto.
      intros xrid r' Hq. destruct (rq_set_error _ _ _ _ _ Hq) as [[_ Hu]|[-> (r0 & Hu & ->)]]; eauto.
  - destruct (sp x); try discriminate. destruct (is_idle (pc (base x))); [|discriminate]. injection H as <-.
    simpl. repeat split; eauto.
Qed.

Lemma c14x_soft_returns x l x' :
  xreach x -> xstep x l = Some x' -> hostile_step x l = true -> sp x' = SNone ->
  pc (base x') = WIdle /\ connected (base x') = connected (base x).
Proof.
  intros Hr H Hh Hsp. destruct (c14x_hostile_frame _ _ _ H Hh) as (Hc & _ & Hp & _).
  split; [|exact Hc]. rewrite Hp. unfold hostile_step in Hh. destruct l as [l0|e|n]; [| |discriminate].
  - apply c14x_soft_idle; [exact Hr|]. destruct (sp x); [discriminate|congruence..].
  - unfold xstep in H. destruct (sp x); try discriminate. destruct (is_idle (pc (base x))) eqn:E; [|discriminate].
    apply is_idle_true; exact E.
Qed.

(* each entry of the snapshot of a non-fatal broadcast gets the error *)
Lemma c14x_soft_fail x rid x' :
  xstep x (XB (LEvSetErr rid)) = Some x' -> sp x <> SNone ->
  exists e rest, sp x = SDeliver e (rid :: rest) /\ sp x' = after_rids e rest /\
                 rq (base x') rid = option_map (set_error e) (rq (base x) rid) /\
                 (forall rid', rid' <> rid -> rq (base x') rid' = rq (base x) rid').
Proof.
  intros H Hsp. unfold xstep in H. destruct (sp x) as [|e|e|e rids|e rids] eqn:Esp; [congruence| | | |]; simpl in H; try discriminate.
  destruct rids as [|r rest]; [discriminate|]. destruct (Nat.eqb_spec rid r) as [->|]; [|discriminate]. injection H as <-.
  exists e, rest. simpl. repeat split; auto.
  - unfold rq; simpl. apply nth_upd_same.
  - intros rid' Hne. unfold rq; simpl. apply nth_upd_other. congruence.
Qed.

(* a request registered after (or during) a non-fatal broadcast is recorded like any other ... *)
Lemma c14x_register x rid id x' :
  xstep x (XB (LReg rid id)) = Some x' ->
  tget id (table (base x')) = Some rid /\
  rq (base x') rid = Some {| r_id := id; r_st := CReg; r_reply := None; r_error := None; r_ev := false |} /\
  sp x' = sp x.
Proof.
  intros H.
  assert (Hb : exists s', step (base x) (LReg rid id) = Some s' /\ x' = with_base x s').
  { unfold xstep in H. destruct (sp x); cbn [is_client is_reg sp_tlock andb] in H; try discriminate H;
      unfold lift in H; (destruct (step (base x) (LReg rid id)) as [s'|]; [|discriminate]); injection H as <-; eauto. }
  destruct Hb as (s' & Hs & ->). simpl. inv_step Hs. simpl.
  apply reg_guard in E as (-> & Hn & _). repeat split.
  - apply tget_tset_same.
  - unfold rq; simpl. rewrite nth_error_app2 by lia. rewrite Nat.sub_diag. reflexivity.
Qed.

(* ... and the valid reply the server sends for a recorded request reaches it: with the worker in its loop the four
   steps of a delivery are enabled and store the reply (and set the event) of exactly that request *)
Lemma c14x_later_served x id rid :
  xreach x -> sp x = SNone -> pc (base x) = WIdle -> tget id (table (base x)) = Some rid ->
  exists x' r', xrun x [XB (LRecv 0 id); XB (LTGet id true); XB (LEvSetReply rid); XB (LTDel id)] = Some x' /\
    rq (base x') rid = Some r' /\ r_reply r' = Some id /\ r_ev r' = true /\ r_id r' = id /\
    pc (base x') = WIdle /\ sp x' = SNone /\ connected (base x') = connected (base x).
Proof.
  intros Hr Hsp Hpc Hg. pose proof (xreach_XInv _ Hr) as [HA HS Hi Hc].
  destruct (a_tab _ HA _ _ Hg) as (r & Hq & Hid).
  assert (Hl : lst (base x) = true).
  { destruct (lst (base x)) eqn:E; [reflexivity|]. exfalso. rewrite Hsp in HS. pose proof (s_lst _ _ HS E) as Hn.
    unfold rq in Hq. rewrite Hn in Hq. destruct rid; discriminate Hq. }
  destruct x as [s p sf]. simpl in *. subst p.
  exists {| base := with_pc (with_table (with_dlog (with_reqs (with_rlog s (rlog s ++ [id])) (upd (reqs s) rid (set_reply id))) (deliver_log s ++ [rid])) (tdel id (table s))) WIdle;
            sp := SNone; softs := sf |}, (set_reply id r).
  split.
  - unfold xrun, xstep, lift, step; simpl. rewrite Hpc. simpl. rewrite Hl. simpl. rewrite N.eqb_refl. simpl. rewrite Hg.
    simpl. rewrite Nat.eqb_refl. simpl. rewrite N.eqb_refl. reflexivity.
  - simpl. unfold rq in *; simpl. rewrite nth_upd_same, Hq. simpl. repeat split; auto.
Qed.

(* a <notification> whose body is not well-formed is never queued: the worker leaves its loop with an exception
   (class 3), from where it can only broadcast the error, close and exit (c14_raise_only, c14x_worker_stop) *)
Lemma c14x_bad_notif x n x' :
  xstep x (XRecvBadNotif n) = Some x' ->
  sp x = SNone /\ sp x' = SNone /\ pc (base x') = WRaise 3 /\ nq (base x') = nq (base x) /\
  recv_notifs (base x') = recv_notifs (base x) /\ taken (base x') = taken (base x) /\ reqs (base x') = reqs (base x).
Proof.
  intros H. unfold xstep in H. destruct (sp x) eqn:Esp; try discriminate.
  unfold lift in H. destruct (step (base x) (LRaise 3)) as [s'|] eqn:Es; [|discriminate]. injection H as <-.
  inv_step Es. simpl. repeat split; auto.
Qed.
