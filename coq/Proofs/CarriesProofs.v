(* CarriesProofs.v — the carries theorem of the 19 standard operations (Spec/CarriesBase.v):
   op_node p c = POk op  ->  op = the template of (erase c) filled with (values c), every hole once. *)
From Coq Require Import String List Arith Lia.
From NC Require Import Model.Base Model.Lit Model.Xml Model.Gating Model.Builders Spec.Rfc6241Schema Spec.Template Spec.CarriesBase.
From NC Require Import Proofs.BaseFacts Proofs.BuildersProofs Proofs.TemplateProofs.
Import ListNotations.

Lemma apply_id t : apply_x XId t = t.
Proof. now destruct t. Qed.

(* ---------------- pieces ---------------- *)
Lemma real_oleaf q o l : oleaf q o = POk l -> realizes (oleafT q (e_ostr o)) (v_ostr o) l.
Proof.
  intros H. apply oleaf_ok in H. destruct o as [s|]; subst; simpl; [apply realizes_leaf|apply realizes_none].
Qed.

Lemma real_enum q o al l : enum_node q o al = POk l -> realizes (oleafT q (e_ostr o)) (v_ostr o) l.
Proof.
  intros H. apply enum_node_ok in H. destruct o as [s|]; [destruct H as [_ ->]|subst]; simpl;
    [apply realizes_leaf|apply realizes_none].
Qed.

Lemma real_wd o l : wd_node o = POk l -> realizes (wdT (e_ostr o)) (v_ostr o) l.
Proof.
  intros H. apply wd_node_ok in H. destruct o as [s|]; [destruct H as [_ ->]|subst]; simpl;
    [apply realizes_leaf|apply realizes_none].
Qed.

Lemma css_is_url : contains s_css s_css = true.
Proof. reflexivity. Qed.
Lemma nil_not_url : contains [] s_css = false.
Proof. reflexivity. Qed.

Lemma real_ds wha d t : ds_node wha d = POk t -> realizes (dsT wha (e_ds d)) (v_ds d) [t].
Proof.
  intros H. apply ds_node_ok in H as (loc & lx & -> & ->). unfold dsT, e_ds, v_ds, ds_is_url.
  destruct (contains loc s_css).
  - rewrite css_is_url. apply (realizes_el0 (b_ wha) [] (leafT (b_ s_url)) [VStr loc]); [reflexivity|apply realizes_leaf].
  - rewrite nil_not_url. apply (realizes_el0 (b_ wha) [] (namedT NS_BASE noneT) [VStr loc]); [reflexivity|].
    apply (realizes_named NS_BASE loc noneT [] []). apply realizes_none.
Qed.

Lemma real_ods wha o l : ods_node wha o = POk l -> realizes (odsT wha (e_ods o)) (v_ods o) l.
Proof.
  destruct o as [d|]; simpl; intros H; [|injection H as <-; apply realizes_none].
  inv H. injection H as <-. now apply real_ds.
Qed.

(* util.build_filter, under the name fq (its own: x = XId and fq = {base}filter) *)
Lemma real_filter_gen fq x f q0 a cs :
  build_filter f = POk (Elem q0 a cs) -> (match f with FRaw _ => True | _ => q0 = b_ s_filter end) ->
  realizes (filtT fq x (Some (e_filt f))) (v_filt (Some f))
           [match f with FRaw t => apply_x x t | _ => Elem fq a cs end].
Proof.
  destruct f as [t0|sel|ts|t0|e]; simpl; intros H Q.
  - injection H as _ <- <-.
    apply (realizes_el0 fq [(a_ s_type, Some s_subtree)] (fragT XId) [VTree t0] [t0]); [reflexivity|].
    rewrite <- (apply_id t0) at 2. apply realizes_frag.
  - destruct (xml_chars_ok sel); [|discriminate]. injection H as _ <- <-.
    apply (realizes_el fq [(a_ s_type, Some s_xpath); (a_ s_select, None)] [sel] noneT [] []); [reflexivity|apply realizes_none].
  - injection H as _ <- <-.
    apply (realizes_el0 fq [(a_ s_type, Some s_subtree)] fragsT [VTrees ts] ts); [reflexivity|apply realizes_frags].
  - apply realizes_frag.
  - discriminate.
Qed.

Lemma build_filter_name f q0 a cs :
  build_filter f = POk (Elem q0 a cs) -> match f with FRaw _ => True | _ => q0 = b_ s_filter end.
Proof.
  destruct f as [t0|sel|ts|t0|e]; simpl; intros H; try exact I; try discriminate H.
  - now injection H as <- _ _.
  - destruct (xml_chars_ok sel); [now injection H as <- _ _|discriminate].
  - now injection H as <- _ _.
Qed.

Lemma real_filter f t : build_filter f = POk t ->
  realizes (filtT (b_ s_filter) XId (Some (e_filt f))) (v_filt (Some f)) [t].
Proof.
  intros H. destruct (build_filter_elem f t H) as (q0 & a & cs & ->).
  pose proof (real_filter_gen (b_ s_filter) XId f q0 a cs H (build_filter_name f q0 a cs H)) as R.
  pose proof (build_filter_name f q0 a cs H) as Q.
  destruct f as [t0|sel|ts|t0|e]; try (subst q0; exact R).
  - simpl in H. destruct (root_in t0 _); [|discriminate]. injection H as ->. rewrite apply_id in R. exact R.
Qed.

Lemma real_ofilter f l : ofilter f = POk l -> realizes (filtT (b_ s_filter) XId (e_ofilt f)) (v_filt f) l.
Proof.
  destruct f as [f|]; simpl; intros H; [|injection H as <-; apply realizes_none].
  inv H. injection H as <-. now apply real_filter.
Qed.

(* the RFC 5277 subscription filter: the same element under the name {notification}filter *)
Lemma real_filter_sub f q0 a cs : build_filter f = POk (Elem q0 a cs) ->
  realizes (filtT (n_ s_filter) (XRename (n_ s_filter)) (Some (e_filt f))) (v_filt (Some f)) [Elem (n_ s_filter) a cs].
Proof.
  intros H.
  pose proof (real_filter_gen (n_ s_filter) (XRename (n_ s_filter)) f q0 a cs H (build_filter_name f q0 a cs H)) as R.
  destruct f as [t0|sel|ts|t0|e]; try exact R.
  simpl in H. destruct (root_in t0 _); [|discriminate]. injection H as ->. exact R.
Qed.

Lemma config_node_ok t t' : config_node t = POk t' -> t' = t.
Proof. unfold config_node. destruct (root_in t _); [now intros [= <-]|discriminate]. Qed.

Lemma iosxe_apply p t : apply_x (if p_iosxe p then XIosxe else XId) t = iosxe_patch p t.
Proof. unfold iosxe_patch. destruct (p_iosxe p); [now destruct t|apply apply_id]. Qed.

Lemma real_cfg p c l : cfg_children p c = POk l -> realizes (cfgT p (e_cfg c)) (v_cfg c) l.
Proof.
  destruct c as [t|s|s ok| |e]; simpl; intros H.
  - inv H. apply config_node_ok in E. subst. injection H as <-. rewrite <- iosxe_apply. apply realizes_frag.
  - inv H. apply leaf_ok in E. subst. injection H as <-.
    apply (realizes_el0 (b_ s_config_text) [] (leafT (b_ s_configuration_text)) [VStr s]); [reflexivity|apply realizes_leaf].
  - destruct ok; [|discriminate]. inv H. apply leaf_ok in E. subst. injection H as <-. apply realizes_leaf.
  - injection H as <-. apply realizes_none.
  - discriminate.
Qed.

Ltac seq_ ta := refine (realizes_seq _ _ _ _ ta _ _ _).
Ltac top S := apply realizes_the_tpl; [apply S|].

(* ---------------- the operations ---------------- *)
Lemma carries_base : forall p c op, op_node p c = POk op -> carried p c op.
Proof.
  intros p c op H. unfold carried, template.
  destruct c as [f wd|src f wd|tgt dop top_ eop cfg|tgt src|tgt|tgt lx|tgt lx|src|confirmed timeout persist pid|pid| | |sid
                 |f st b e|ident v fo|cmd src f|cmd tgt src f cfg| | ]; simpl in H.
  - (* get *) inv H. injection H as <-. top single_el.
    apply (realizes_el0 (b_ s_get) []); [reflexivity|]. simpl.
    apply realizes_seq; [now apply real_ofilter|now apply real_wd].
  - (* get-config *) inv H. injection H as <-. top single_el.
    apply (realizes_el0 (b_ s_get_config) []); [reflexivity|]. simpl.
    seq_ [t]; [now apply real_ds|]. apply realizes_seq; [now apply real_ofilter|now apply real_wd].
  - (* edit-config *) rewrite edit_config_node_eq in H. unfold edit_config_patched in H. inv H. injection H as <-. top single_el.
    apply (realizes_el0 (b_ s_edit_config) []); [reflexivity|]. simpl.
    seq_ [t]; [now apply real_ds|]. apply realizes_seq; [eapply real_enum; eassumption|].
    apply realizes_seq; [eapply real_enum; eassumption|]. apply realizes_seq; [eapply real_enum; eassumption|].
    now apply real_cfg.
  - (* copy-config *) inv H. injection H as <-. top single_el.
    apply (realizes_el0 (b_ s_copy_config) []); [reflexivity|]. simpl.
    seq_ [t]; [now apply real_ds|].
    destruct src as [d|x|e]; simpl.
    + now apply real_ds.
    + destruct (root_in x _); [|discriminate]. injection E0 as <-. rewrite <- (apply_id x) at 2. apply realizes_frag.
    + discriminate.
  - (* delete-config *) inv H. injection H as <-. top single_el.
    apply (realizes_el0 (b_ s_delete_config) []); [reflexivity|]. simpl. now apply real_ds.
  - (* lock *) destruct lx; [|discriminate]. injection H as <-. top single_el.
    apply (realizes_el0 (b_ s_lock) []); [reflexivity|]. apply (realizes_el0 (b_ s_target) []); [reflexivity|].
    apply (realizes_named NS_BASE tgt noneT [] []). apply realizes_none.
  - (* unlock *) destruct lx; [|discriminate]. injection H as <-. top single_el.
    apply (realizes_el0 (b_ s_unlock) []); [reflexivity|]. apply (realizes_el0 (b_ s_target) []); [reflexivity|].
    apply (realizes_named NS_BASE tgt noneT [] []). apply realizes_none.
  - (* validate *) inv H. injection H as <-. top single_el.
    apply (realizes_el0 (b_ s_validate) []); [reflexivity|]. simpl.
    destruct src as [d|x|e]; simpl.
    + now apply real_ds.
    + inv E. apply config_node_ok in E0. subst. injection E as <-.
      apply (realizes_el0 (b_ s_source) [] (fragT XId) [VTree x] [x]); [reflexivity|].
      rewrite <- (apply_id x) at 2. apply realizes_frag.
    + discriminate.
  - (* commit *)
    destruct (nonempty persist && nonempty pid) eqn:B; [discriminate|]. inv H. injection H as <-. top single_el.
    apply (realizes_el0 (b_ s_commit) []); [reflexivity|]. simpl.
    apply realizes_seq.
    + destruct confirmed; simpl.
      * inv E. injection E as <-.
        refine (realizes_seq _ _ [] _ [Elem (b_ s_confirmed) [] []] _ _ _); [apply realizes_flag|].
        apply realizes_seq; now apply real_oleaf.
      * injection E as <-. apply realizes_none.
    + destruct pid as [[|x s]|]; simpl in *.
      * injection E0 as <-. apply realizes_none.
      * apply (oleaf_ok (b_ s_persist_id) (Some (x :: s))) in E0. subst. apply realizes_leaf.
      * injection E0 as <-. apply realizes_none.
  - (* cancel-commit *) inv H. injection H as <-. top single_el.
    apply (realizes_el0 (b_ s_cancel_commit) []); [reflexivity|]. now apply real_oleaf.
  - injection H as <-. top single_el. apply realizes_flag.
  - injection H as <-. top single_el. apply realizes_flag.
  - (* kill-session *) inv H. apply leaf_ok in E. subst. injection H as <-. top single_el.
    apply (realizes_el0 (b_ s_kill_session) []); [reflexivity|]. apply realizes_leaf.
  - (* create-subscription *) inv H. injection H as <-. top single_el.
    apply (realizes_el0 (n_ s_create_subscription) []); [reflexivity|]. simpl.
    apply realizes_seq; [now apply real_oleaf|].
    apply realizes_seq.
    + destruct f as [x|]; simpl in *; [|injection E0 as <-; apply realizes_none].
      inv E0. injection E0 as <-. now apply (real_filter_sub x q).
    + apply realizes_seq; [now apply real_oleaf|].
      destruct e as [se|]; simpl in *; [|injection E2 as <-; apply realizes_none].
      destruct b as [sb|]; [|discriminate]. now apply (real_oleaf (n_ s_stopTime) (Some se)).
  - (* get-schema *) inv H. apply leaf_ok in E. subst. injection H as <-. top single_el.
    apply (realizes_el0 (m_ s_get_schema) []); [reflexivity|]. simpl.
    refine (realizes_seq _ _ [VStr ident] _ [Elem (m_ s_identifier) [] (text_nodes ident)] _ _ _); [apply realizes_leaf|].
    apply realizes_seq; now apply real_oleaf.
  - (* dispatch *) inv H.
    assert (R : realizes (odsT s_source (e_ods src) +++ filtT (b_ s_filter) XId (e_ofilt f)) (v_ods src ++ v_filt f) (l ++ l0)).
    { apply realizes_seq; [now apply real_ods|now apply real_ofilter]. }
    destruct cmd as [n [|]|[q a cs|s]]; simpl in *; try discriminate; injection H as <-.
    + top single_named. now apply (realizes_named NS_BASE n).
    + top single_own. now apply realizes_own.
  - (* rpc *) inv H.
    assert (R : realizes (odsT s_target (e_ods tgt) +++ odsT s_source (e_ods src) +++ filtT (b_ s_filter) XId (e_ofilt f)
                          +++ match (match cfg with Some x => Some (e_cfg x) | None => None end) with
                              | Some (CfgXml _) => fragT XId | _ => noneT end)
                         (v_ods tgt ++ v_ods src ++ v_filt f ++ match cfg with Some x => v_cfg x | None => [] end)
                         (l ++ l0 ++ l1 ++ l2)).
    { apply realizes_seq; [now apply real_ods|]. apply realizes_seq; [now apply real_ods|].
      apply realizes_seq; [now apply real_ofilter|].
      destruct cfg as [[x|s|s ok| |e]|]; simpl in *; try discriminate.
      - inv E3. apply config_node_ok in E4. subst. injection E3 as <-. rewrite <- (apply_id x) at 2. apply realizes_frag.
      - injection E3 as <-. apply realizes_none. }
    destruct cmd as [n [|]|[q a cs|s]]; simpl in *; try discriminate; injection H as <-.
    + top single_named. now apply (realizes_named NS_BASE n).
    + top single_own. now apply realizes_own.
  - injection H as <-. top single_el. apply realizes_flag.
  - injection H as <-. top single_el. apply realizes_flag.
Qed.

(* lifted to build: the request is the envelope around that element *)
Lemma c07_carries : forall p mid c t, build p mid c = Built t ->
  exists op, t = wrap p mid op /\ carried p c op.
Proof.
  intros p mid c t H. unfold build in H. destruct (op_node p c) as [op|e] eqn:E; [|discriminate].
  injection H as <-. exists op. split; [reflexivity|]. now apply carries_base.
Qed.

(* two calls that differ only in caller data are instances of one and the same template *)
Lemma c07_carries_same_template : forall p mid c c' t t',
  erase c = erase c' -> build p mid c = Built t -> build p mid c' = Built t' ->
  exists T op op', t = wrap p mid op /\ t' = wrap p mid op'
    /\ fill (values c) T = [op] /\ fill (values c') T = [op']
    /\ holes T = seq 0 (length (values c)) /\ length (values c') = length (values c).
Proof.
  intros p mid c c' t t' Er H H'.
  destruct (c07_carries p mid c t H) as (op & -> & F & Hs).
  destruct (c07_carries p mid c' t' H') as (op' & -> & F' & Hs').
  exists (template p (erase c)), op, op'. rewrite <- Er in *. repeat split; auto.
  rewrite Hs in Hs'. apply (f_equal (@length nat)) in Hs'. now rewrite !seq_length in Hs'.
Qed.

(* the reader's rule R3 (adopt) renames un-namespaced elements only: texts, attribute values and local names survive *)
Fixpoint tree_ind2 (P : tree -> Prop) (HT : forall s, P (Text s))
    (HE : forall q a cs, Forall P cs -> P (Elem q a cs)) (t : tree) : P t :=
  match t with
  | Text s => HT s
  | Elem q a cs => HE q a cs ((fix go (l : list tree) : Forall P l :=
                    match l with [] => Forall_nil P | x :: l' => Forall_cons x (tree_ind2 P HT HE x) (go l') end) cs)
  end.

Lemma adopt_texts_locals t : texts (adopt t) = texts t /\ locals (adopt t) = locals t.
Proof.
  induction t as [s|q a cs IH] using tree_ind2; [split; reflexivity|].
  simpl. assert (A : flat_map texts (map adopt cs) = flat_map texts cs /\ flat_map locals (map adopt cs) = flat_map locals cs).
  { induction IH as [|x l [Hx1 Hx2] _ [IH1 IH2]]; simpl; [split; reflexivity|]. now rewrite Hx1, Hx2, IH1, IH2. }
  destruct A as [-> ->]. split; [reflexivity|]. now destruct (q_ns q).
Qed.
