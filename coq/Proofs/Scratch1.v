From NC Require Import Model.Base Model.XTree Model.XmlHelpers Spec.XmlHelpersSpec Proofs.BaseFacts Proofs.XmlReplaceProofs.
Print Assumptions rename_attrs_exact.
Print Assumptions c17_replace_ns_exact.
Print Assumptions resolve_clean.
Print Assumptions c17_replace_ns_resolved.
Print Assumptions c17_replace_ns_collision_refuted.
Print Assumptions mem_name_In.
Print Assumptions mnode_ind'.
