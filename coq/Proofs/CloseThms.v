(* Proofs/CloseThms.v — the statements of C12 derived from the invariant bundle
   (Proofs/CloseProofs.v: Inv, inv_init, inv_step). *)
From Coq Require Import Lia.
From NC Require Import Model.Base Model.Close Spec.CloseSpec Proofs.CloseProofs.

Lemma reachable_inv : forall t s, reachable t s -> Inv s.
Proof. induction 1; [apply inv_init | eapply inv_step; eauto]. Qed.

Lemma accepts_reachable : forall t ls s0 s, reachable t s0 -> accepts s0 ls = Some s -> reachable t s.
Proof.
  induction ls as [|l ls IH]; simpl; intros s0 s R H.
  - inversion H; subst; exact R.
  - destruct (step s0 l) eqn:E; [|discriminate]. eapply IH; [eapply reach_step; eauto | exact H].
Qed.

Lemma run_reachable : forall t ls s, run_of t ls s -> reachable t s.
Proof. intros; eapply accepts_reachable; [apply reach_init | eassumption]. Qed.

Lemma run_inv : forall t ls s, run_of t ls s -> Inv s.
Proof. intros; eapply reachable_inv, run_reachable; eassumption. Qed.

Lemma accepts_app : forall l1 l2 s,
  accepts s (l1 ++ l2) = match accepts s l1 with Some s1 => accepts s1 l2 | None => None end.
Proof. induction l1 as [|l l1 IH]; simpl; intros; [reflexivity|]. destruct (step s l); auto. Qed.

Lemma accepts_cons : forall s l ls,
  accepts s (l :: ls) = match step s l with Some s' => accepts s' ls | None => None end.
Proof. reflexivity. Qed.

(* ---------- the ghost flag is exactly "CloseRet Client occurred" ---------- *)
Lemma do_cstep_cc : forall s a c d s', do_cstep s a c d = Some s' -> client_closed s' = client_closed s.
Proof. intros s a c d s' H; destruct (do_cstep_facts _ _ _ _ _ H) as (_&_&_&_&_&_&_&_&_&_&F&_); exact F. Qed.

Lemma client_closed_mono : forall s l s',
  step s l = Some s' -> client_closed s = true -> client_closed s' = true.
Proof.
  intros s l s' H C; destruct l; unfold step in H; crunch; unfold note_cb; simpl; rewrite ?C; simpl;
    repeat match goal with |- context[if ?b then _ else _] => destruct b eqn:? end; simpl; auto;
    try (match goal with H : do_cstep _ _ _ _ = Some _ |- _ => apply do_cstep_cc in H; simpl; congruence end).
  all: try (destruct (ph s); simpl; destruct (cs s); simpl; reflexivity).
Qed.

Lemma closeret_sets : forall s s', step s (CloseRet Client) = Some s' -> client_closed s' = true.
Proof.
  intros s s' H; unfold step in H; crunch; simpl; destruct (ph s); simpl; destruct (cs s); reflexivity.
Qed.

Lemma closed_flag : forall ls s s',
  accepts s ls = Some s' -> (client_closed s = true \/ In (CloseRet Client) ls) -> client_closed s' = true.
Proof.
  induction ls as [|l ls IH]; simpl; intros s s' H C.
  - inversion H; subst; destruct C as [C|[]]; exact C.
  - destruct (step s l) eqn:E; [|discriminate]. eapply IH; [exact H|].
    destruct C as [C|[C|C]].
    + left; eapply client_closed_mono; eauto.
    + subst l; left; eapply closeret_sets; eauto.
    + right; exact C.
Qed.

Lemma run_closed_flag : forall t ls s, run_of t ls s -> closed_returned ls -> client_closed s = true.
Proof. intros t ls s R C; eapply closed_flag; [exact R | right; exact C]. Qed.

(* ---------- C12 statements ---------- *)
Lemma c12_released : forall t ls s, run_of t ls s -> closed_returned ls ->
  released s /\ closing s = true /\ peer_saw_eof s = true.
Proof.
  intros t ls s R C. pose proof (run_inv _ _ _ R) as I. pose proof (run_closed_flag _ _ _ R C) as F.
  destruct (i_closed _ I F) as (A & B & P & D & E & _). unfold released; auto.
Qed.

Lemma c12_disconnected : forall t ls s, run_of t ls s -> closed_returned ls -> connected s = false.
Proof. intros t ls s R C; destruct (c12_released _ _ _ R C) as ((A & _) & _); exact A. Qed.

Lemma c12_peer_sees_close : forall t ls s, run_of t ls s -> closed_returned ls ->
  socket_open s = false /\ peer_saw_eof s = true.
Proof. intros t ls s R C; destruct (c12_released _ _ _ R C) as ((_ & A & _) & _ & B); auto. Qed.

(* once started the worker is never "not started" again *)
Lemma started_mono : forall s l s', step s l = Some s' -> worker s <> WNotStarted -> worker s' <> WNotStarted.
Proof.
  intros s l s' H C; destruct l; unfold step in H; crunch; unfold note_cb, after_dispatch; simpl;
    repeat match goal with
    | |- context[if ?b then _ else _] => destruct b
    | |- context[match ?n with O => _ | S _ => _ end] => destruct n end; simpl; try congruence;
    try (match goal with H : do_cstep _ _ _ _ = Some _ |- _ =>
           destruct (do_cstep_facts _ _ _ _ _ H) as (_&_&F&_); simpl; congruence end).
  all: try (destruct (ph s); simpl; destruct (cs s); simpl; congruence).
Qed.

Lemma started_flag : forall ls s s',
  accepts s ls = Some s' -> (worker s <> WNotStarted \/ In Start ls) -> worker s' <> WNotStarted.
Proof.
  induction ls as [|l ls IH]; simpl; intros s s' H C.
  - inversion H; subst; destruct C as [C|[]]; exact C.
  - destruct (step s l) eqn:E; [|discriminate]. eapply IH; [exact H|].
    destruct C as [C|[C|C]].
    + left; eapply started_mono; eauto.
    + subst l; left. unfold step in E; crunch; simpl; congruence.
    + right; exact C.
Qed.

Lemma c12_worker_exited : forall t ls s, run_of t ls s -> closed_returned ls ->
  not_alive (worker s) = true /\ (In Start ls -> worker s = WExited).
Proof.
  intros t ls s R C. destruct (c12_released _ _ _ R C) as ((_ & _ & A) & _). split; [exact A|].
  intro S. assert (W : worker s <> WNotStarted) by (eapply started_flag; [exact R | right; exact S]).
  destruct (worker s); simpl in A; try discriminate; congruence.
Qed.

(* no worker step at all (hence no listener invocation) after a client close() returned *)
Lemma no_worker_after : forall t ls2 s1 s,
  reachable t s1 -> client_closed s1 = true -> accepts s1 ls2 = Some s ->
  forall l, In l ls2 -> is_worker_label l = false.
Proof.
  induction ls2 as [|l ls2 IH]; simpl; intros s1 s R C H l0 Hin; [contradiction|].
  destruct (step s1 l) eqn:E; [|discriminate].
  destruct Hin as [Hin|Hin].
  - subst l0. destruct (is_worker_label l) eqn:W; [|reflexivity].
    pose proof (worker_label_alive _ _ _ E W) as A.
    destruct (i_closed _ (reachable_inv _ _ R) C) as (_ & _ & _ & _ & NA & _). congruence.
  - eapply IH; [eapply reach_step; eauto | eapply client_closed_mono; eauto | exact H | exact Hin].
Qed.

Lemma c12_no_late_callback : forall t ls1 ls2 s,
  run_of t (ls1 ++ CloseRet Client :: ls2) s ->
  (forall l, In l ls2 -> is_worker_label l = false /\ is_callback_label l = false) /\
  callbacks_after_close s = 0%N.
Proof.
  intros t ls1 ls2 s R. split; [|exact (i_cb _ (run_inv _ _ _ R))].
  unfold run_of in R. rewrite accepts_app in R.
  destruct (accepts (init t) ls1) as [s0|] eqn:E0; [|discriminate].
  rewrite accepts_cons in R. destruct (step s0 (CloseRet Client)) as [s1|] eqn:E1; [|discriminate].
  assert (R1 : reachable t s1) by (eapply reach_step; [eapply accepts_reachable; [apply reach_init | exact E0] | exact E1]).
  intros l Hin. pose proof (no_worker_after _ _ _ _ R1 (closeret_sets _ _ E1) R l Hin) as W.
  split; [exact W|]. destruct l; simpl in *; try reflexivity; discriminate.
Qed.

Lemma c12_refused_after : forall t ls s rid, run_of t ls s -> closed_returned ls ->
  step s (Submit rid true) = None /\ (ph s = PUp -> step s (Submit rid false) = Some s).
Proof.
  intros t ls s rid R C. pose proof (c12_disconnected _ _ _ R C) as D.
  unfold step; rewrite D; destruct (ph s); simpl; split; try reflexivity; try discriminate; intros; try reflexivity; congruence.
Qed.

Lemma c12_pending_failed : forall t ls s, run_of t ls s -> past_broadcast (worker s) = true -> settled s.
Proof.
  intros t ls s R P. destruct (i_req _ (run_inv _ _ _ R)) as [A B]. specialize (A P).
  split; [exact A|]. intros r Hr. destruct (B r Hr) as [X|X]; [rewrite A in X; contradiction | exact X].
Qed.

Lemma c12_failed_connect : forall t ls s, run_of t ls s -> ph s = PFailed ->
  released s /\ pending s = [] /\ late s = [].
Proof.
  intros t ls s R P. pose proof (run_inv _ _ _ R) as I.
  destruct (i_failed _ I P) as (_ & A & B & C).
  destruct (i_notup _ I) as (D & _ & E); [congruence|]. unfold released; auto.
Qed.

(* close_session()/Manager.__exit__ returned (normally or with an exception) => a close() returned *)
Lemma cs_returned_mono : forall s l s', step s l = Some s' -> cs s = CsReturned -> cs s' = CsReturned.
Proof.
  intros s l s' H C; destruct l; unfold step in H; crunch; unfold note_cb, after_dispatch; simpl;
    repeat match goal with
    | |- context[if ?b then _ else _] => destruct b
    | |- context[match ?n with O => _ | S _ => _ end] => destruct n end; simpl; try congruence;
    try (match goal with H : do_cstep _ _ _ _ = Some _ |- _ =>
           destruct (do_cstep_facts _ _ _ _ _ H) as (_&_&_&_&_&_&_&_&_&F&_); simpl; congruence end).
  all: try (destruct (ph s); simpl; rewrite ?C; simpl; congruence).
Qed.

Lemma cs_flag : forall ls s s',
  accepts s ls = Some s' -> (cs s = CsReturned \/ In CsRet ls) -> cs s' = CsReturned.
Proof.
  induction ls as [|l ls IH]; simpl; intros s s' H C.
  - inversion H; subst; destruct C as [C|[]]; exact C.
  - destruct (step s l) eqn:E; [|discriminate]. eapply IH; [exact H|].
    destruct C as [C|[C|C]].
    + left; eapply cs_returned_mono; eauto.
    + subst l; left. unfold step in E; crunch; reflexivity.
    + right; exact C.
Qed.

Lemma c12_close_session : forall t ls s, run_of t ls s -> In CsRet ls ->
  released s /\ peer_saw_eof s = true /\ callbacks_after_close s = 0%N.
Proof.
  intros t ls s R C. pose proof (run_inv _ _ _ R) as I.
  assert (F : cs s = CsReturned) by (eapply cs_flag; [exact R | right; exact C]).
  pose proof (i_cs _ I (or_intror F)) as CC.
  destruct (i_closed _ I CC) as (A & B & P & D & E & _). unfold released; repeat split; auto. exact (i_cb _ I).
Qed.

(* ---------- bounded worker exit ---------- *)
Lemma tr_step : forall s l s', step s l = Some s' -> tr s' = tr s.
Proof.
  intros s l s' H; destruct l; unfold step in H; crunch; unfold note_cb, after_dispatch; simpl;
    repeat match goal with
    | |- context[if ?b then _ else _] => destruct b
    | |- context[match ?n with O => _ | S _ => _ end] => destruct n end; simpl; try reflexivity;
    try (match goal with H : do_cstep _ _ _ _ = Some _ |- _ =>
           destruct (do_cstep_facts _ _ _ _ _ H) as (F&_); simpl; congruence end).
  all: try (destruct (ph s); simpl; destruct (cs s); simpl; reflexivity).
Qed.

Lemma tr_accepts : forall ls s s', accepts s ls = Some s' -> tr s' = tr s.
Proof.
  induction ls as [|l ls IH]; simpl; intros s s' H; [inversion H; reflexivity|].
  destruct (step s l) eqn:E; [|discriminate]. rewrite (IH _ _ H). eapply tr_step; eauto.
Qed.

Lemma c12_worker_one_iteration : forall t ls s, run_of t ls s -> is_ssh t = false -> (sel_after_close s <= 1)%N.
Proof.
  intros t ls s R T. refine (proj1 (i_sel _ (run_inv _ _ _ R) _)).
  rewrite (tr_accepts _ _ _ R). exact T.
Qed.

Lemma closed_stable : forall s l s', Inv s -> step s l = Some s' ->
  closing s = true -> socket_open s = false -> closing s' = true /\ socket_open s' = false.
Proof.
  intros s l s' I H C O.
  destruct l; unfold step in H; crunch; unfold note_cb, after_dispatch; simpl;
    repeat match goal with
    | |- context[if ?b then _ else _] => destruct b
    | |- context[match ?n with O => _ | S _ => _ end] => destruct n end; simpl; auto;
    try (match goal with H : do_cstep _ _ _ _ = Some _ |- _ =>
           destruct (do_cstep_facts _ _ _ _ _ H) as (_&_&_&_&_&_&_&_&_&_&_&_&_&M1&M2&_); simpl; auto end).
  - (* OpenHandle *) destruct (i_fresh _ I Heqp) as (_ & _ & X & _); congruence.
  - (* SetConn *) destruct (i_handle _ I Heqp) as (_ & X & _); congruence.
  - destruct (ph s); simpl; destruct (cs s); simpl; auto.
Qed.

Local Open Scope nat_scope.

Lemma close_prog_len : forall t, length (close_prog t) <= 6.
Proof. destruct t; simpl; lia. Qed.

Lemma wfuel_step : forall s l s', step s l = Some s' -> closing s = true -> socket_open s = false ->
  worker s <> WNotStarted -> is_ssh (tr s) = false ->
  (is_plain_worker_label l = true -> wfuel (worker s') + 1 <= wfuel (worker s)) /\
  (is_dispatch_label l = true -> wfuel (worker s') <= wfuel (worker s) + 9) /\
  (is_worker_label l = false -> worker s' = worker s).
Proof.
  intros s l s' H C O NS T. pose proof (close_prog_len (tr s)) as L.
  destruct l; unfold step in H; unfold is_plain_worker_label; simpl;
    (repeat split; intro W; try discriminate W);
    crunch; unfold note_cb, after_dispatch; simpl;
    repeat match goal with
    | |- context[if ?b then _ else _] => destruct b
    | |- context[match ?n with O => _ | S _ => _ end] => destruct n end; simpl; try lia; try reflexivity;
    try congruence;
    try (match goal with H : do_cstep _ _ _ _ = Some _ |- _ =>
           destruct (do_cstep_facts _ _ _ _ _ H) as (_&_&F&_); simpl; try rewrite F; try lia; try congruence end).
  all: try (destruct (ph s); simpl; destruct (cs s); simpl; reflexivity).
  all: try (destruct k; simpl; lia).
  all: try (rewrite C in *; simpl in *; discriminate).
  all: try (rewrite T in *; simpl in *; discriminate).
Qed.

Lemma c12_worker_bound_from : forall ls s s', Inv s ->
  closing s = true -> socket_open s = false -> worker s <> WNotStarted -> is_ssh (tr s) = false ->
  accepts s ls = Some s' ->
  count is_plain_worker_label ls + wfuel (worker s') <= wfuel (worker s) + 9 * count is_dispatch_label ls.
Proof.
  induction ls as [|l ls IH]; simpl; intros s s' I C O NS T H.
  - inversion H; subst; lia.
  - destruct (step s l) as [s1|] eqn:E; [|discriminate].
    destruct (closed_stable _ _ _ I E C O) as [C1 O1].
    pose proof (started_mono _ _ _ E NS) as NS1.
    assert (T1 : is_ssh (tr s1) = false) by (rewrite (tr_step _ _ _ E); exact T).
    specialize (IH s1 s' (inv_step _ _ _ I E) C1 O1 NS1 T1 H).
    destruct (wfuel_step _ _ _ E C O NS T) as (P & D & K).
    unfold is_plain_worker_label in *.
    destruct (is_worker_label l) eqn:W; destruct (is_dispatch_label l) eqn:Dl; simpl in *.
    + specialize (D eq_refl). lia.
    + specialize (P eq_refl). lia.
    + rewrite (K eq_refl) in IH. lia.
    + rewrite (K eq_refl) in IH. lia.
Qed.

Lemma c12_worker_exits_bound : forall t ls0 s ls s', run_of t ls0 s ->
  is_ssh t = false -> closing s = true -> socket_open s = false -> worker s <> WNotStarted ->
  accepts s ls = Some s' ->
  count is_plain_worker_label ls <= wfuel (worker s) + 9 * count is_dispatch_label ls.
Proof.
  intros t ls0 s ls s' R T C O NS H.
  assert (T' : is_ssh (tr s) = false) by (rewrite (tr_accepts _ _ _ R); exact T).
  pose proof (c12_worker_bound_from ls s s' (run_inv _ _ _ R) C O NS T' H). lia.
Qed.

(* the worker is never stuck, with ONE exception: asleep inside a transport read on a handle
   that is still open (O6) - there it waits for the environment or for the local shutdown/close *)
Lemma c12_worker_progress : forall s, not_alive (worker s) = false ->
  (worker s = WBlocked /\ socket_open s = true) \/
  exists l, is_worker_label l = true /\ step s l <> None.
Proof.
  intros s A. destruct (worker s) eqn:W; simpl in A; try discriminate.
  - right; exists SelectBegin; unfold step; rewrite W; split; [reflexivity|discriminate].
  - right; exists (Select true); unfold step; rewrite W; split; [reflexivity|discriminate].
  - right; exists ReadBegin; unfold step; rewrite W; split; [reflexivity|discriminate].
  - right; exists (Read RErr); unfold step; rewrite W; split; [reflexivity|discriminate].
  - destruct (socket_open s) eqn:O; [left; split; reflexivity|].
    right; exists (Read RErr); unfold step; rewrite W, O; split; [reflexivity|discriminate].
  - right; exists CbRaise; unfold step; rewrite W; split; [reflexivity|discriminate].
  - right; exists (ChkClosing (closing s)); unfold step; rewrite W, Bool.eqb_reflx; simpl; split; [reflexivity|discriminate].
  - right; exists (ChkClosing (closing s)); unfold step; rewrite W, Bool.eqb_reflx; simpl; split; [reflexivity|discriminate].
  - right; exists ErrBroadcast; unfold step; rewrite W; split; [reflexivity|discriminate].
  - right; exists ErrBroadcast; unfold step; rewrite W; split; [reflexivity|discriminate].
  - right; destruct clean.
    + exists Exit; unfold step; rewrite W; split; [reflexivity|discriminate].
    + exists WorkerCloseCall; unfold step; rewrite W; split; [reflexivity|discriminate].
  - right; destruct rest as [|c rest].
    + exists (CloseRet Worker); unfold step; rewrite W; destruct k; split; try reflexivity; discriminate.
    + exists (CStep Worker c (match c with JoinW => false | _ => true end)).
      split; [reflexivity|]. unfold step; rewrite W.
      destruct c; simpl; discriminate.
Qed.

(* once the handle is closed locally the worker is never stuck (O6: a sleeping read is woken) *)
Lemma c12_worker_progress_closed : forall s, not_alive (worker s) = false -> socket_open s = false ->
  exists l, is_worker_label l = true /\ step s l <> None.
Proof.
  intros s A O. destruct (c12_worker_progress s A) as [[_ X]|X]; [congruence | exact X].
Qed.

(* asleep inside a read on an open handle: NO step of the worker is enabled - neither the closing flag
   nor anything else the library does short of shutting the handle down ends that read *)
Lemma c12_blocked_needs_wakeup : forall s, worker s = WBlocked -> socket_open s = true ->
  forall l, is_worker_label l = true -> step s l = None.
Proof.
  intros s W O l L. destruct l; simpl in L; try discriminate; try (destruct a; try discriminate);
    unfold step; rewrite W; try reflexivity.
  all: try (rewrite O; reflexivity).
  all: destruct (negb (eqb b (closing s))); reflexivity.
Qed.

(* (O6) ... and once the handle is closed locally that read returns, without data *)
Lemma c12_blocked_woken : forall s, worker s = WBlocked -> socket_open s = false ->
  step s (Read RErr) = Some (w_worker s WRaised) /\
  (is_ssh (tr s) = false -> step s (Read REof) = Some (w_worker s WAfterEof)) /\
  (forall n, step s (Read (RData n)) = None) /\
  step s Block = None /\ step s Unblock = None.
Proof.
  intros s W O. unfold step; rewrite W, O. repeat split; try reflexivity.
  intro T; rewrite T; reflexivity.
Qed.
