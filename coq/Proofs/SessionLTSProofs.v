(* SessionLTSProofs.v — invariants of the session LTS, by induction over all accepted label sequences. *)
From Coq Require Import Lia.
From NC Require Import Model.Base Model.SessionLTS.

Definition rq (s : st) (rid : nat) : option req := nth_error (reqs s) rid.

(* ---------- list helpers ---------- *)
Lemma nth_upd_same l i f : nth_error (upd l i f) i = option_map f (nth_error l i).
Proof. revert i; induction l as [|r l IH]; intros [|i]; simpl; auto. Qed.

Lemma nth_upd_other l i j f : i <> j -> nth_error (upd l i f) j = nth_error l j.
Proof.
  revert i j; induction l as [|r l IH]; intros [|i] [|j] H; simpl; auto; try congruence.
Qed.

Lemma length_upd l i f : length (upd l i f) = length l.
Proof. revert i; induction l as [|r l IH]; intros [|i]; simpl; auto. Qed.

Lemma map_id_upd l i f : (forall r, r_id (f r) = r_id r) -> map r_id (upd l i f) = map r_id l.
Proof.
  intros Hf. revert i; induction l as [|r l IH]; intros [|i]; simpl; auto; f_equal; auto.
Qed.

Lemma nth_upd l i j f :
  nth_error (upd l i f) j = if Nat.eqb i j then option_map f (nth_error l j) else nth_error l j.
Proof.
  destruct (Nat.eqb_spec i j) as [->|H]; [apply nth_upd_same|now apply nth_upd_other].
Qed.

Lemma memN_In x l : memN x l = true <-> In x l.
Proof.
  induction l as [|y l IH]; simpl; [split; [discriminate|tauto]|].
  rewrite orb_true_iff, IH, N.eqb_eq. split; intros [H|H]; auto.
Qed.

Lemma listN_eqb_eq a b : listN_eqb a b = true -> a = b.
Proof.
  revert b; induction a as [|x a IH]; intros [|y b]; simpl; try discriminate; auto.
  intros H. apply andb_true_iff in H as [H1 H2]. apply N.eqb_eq in H1. f_equal; auto.
Qed.

(* ---------- table helpers ---------- *)
Lemma tget_tset_same id v t : tget id (tset id v t) = Some v.
Proof.
  induction t as [|[k w] t IH]; simpl; [now rewrite N.eqb_refl|].
  destruct (N.eqb id k) eqn:E; simpl; rewrite E; auto.
Qed.

Lemma tget_tset_other id k v t : k <> id -> tget k (tset id v t) = tget k t.
Proof.
  intros Hn. induction t as [|[k' w] t IH]; simpl.
  - destruct (N.eqb_spec k id); congruence.
  - destruct (N.eqb id k') eqn:E; simpl.
    + apply N.eqb_eq in E; subst k'. destruct (N.eqb_spec k id); congruence.
    + destruct (N.eqb k k'); auto.
Qed.

Lemma tget_None id t : tget id t = None <-> ~ In id (map fst t).
Proof.
  induction t as [|[k w] t IH]; simpl; [tauto|].
  destruct (N.eqb_spec id k) as [->|Hn].
  - split; [discriminate|]. intros H; exfalso; apply H; auto.
  - rewrite IH. split; [intros H [H1|H1]; [congruence|auto]|tauto].
Qed.

Lemma tget_Some_In id t v : tget id t = Some v -> In (id, v) t.
Proof.
  induction t as [|[k w] t IH]; simpl; [discriminate|].
  destruct (N.eqb_spec id k) as [->|Hn]; [intros [= ->]; auto|auto].
Qed.

Lemma tget_In_snd id t v : tget id t = Some v -> In v (map snd t).
Proof. intros H. apply tget_Some_In in H. apply (in_map snd) in H. exact H. Qed.

Lemma keys_tset id v t :
  map fst (tset id v t) = if memN id (map fst t) then map fst t else map fst t ++ [id].
Proof.
  induction t as [|[k w] t IH]; simpl; [reflexivity|].
  destruct (N.eqb id k) eqn:E; simpl; [reflexivity|].
  rewrite IH. destruct (memN id (map fst t)); reflexivity.
Qed.

Lemma NoDup_keys_tset id v t : NoDup (map fst t) -> NoDup (map fst (tset id v t)).
Proof.
  intros H. rewrite keys_tset. destruct (memN id (map fst t)) eqn:E; [exact H|].
  assert (Hn : ~ In id (map fst t)) by (intros Hin; apply memN_In in Hin; congruence).
  clear E. induction (map fst t) as [|a l IH]; simpl; [constructor; [tauto|constructor]|].
  inversion H; subst. constructor.
  - rewrite in_app_iff. simpl. intros [H1|[H1|[]]]; [contradiction|]. subst. apply Hn. simpl; auto.
  - apply IH; auto. intros Hin. apply Hn. simpl; auto.
Qed.

Lemma tget_tdel_other id k t : k <> id -> tget k (tdel id t) = tget k t.
Proof.
  intros Hn. induction t as [|[k' w] t IH]; simpl; [reflexivity|].
  destruct (N.eqb_spec id k') as [->|Hn2]; simpl.
  - destruct (N.eqb_spec k k'); congruence.
  - destruct (N.eqb k k'); auto.
Qed.

Lemma keys_tdel_incl id t x : In x (map fst (tdel id t)) -> In x (map fst t).
Proof.
  induction t as [|[k w] t IH]; simpl; [tauto|].
  destruct (N.eqb id k); simpl; [auto|]. intros [H|H]; auto.
Qed.

Lemma NoDup_keys_tdel id t : NoDup (map fst t) -> NoDup (map fst (tdel id t)).
Proof.
  induction t as [|[k w] t IH]; simpl; intros H; [constructor|].
  inversion H; subst. destruct (N.eqb id k); simpl; [assumption|].
  constructor; [|auto]. intros Hin. apply keys_tdel_incl in Hin. contradiction.
Qed.

Lemma tget_tdel_same id t : NoDup (map fst t) -> tget id (tdel id t) = None.
Proof.
  induction t as [|[k w] t IH]; simpl; intros H; [reflexivity|].
  inversion H; subst. destruct (N.eqb_spec id k) as [->|Hn]; simpl.
  - apply tget_None. assumption.
  - destruct (N.eqb_spec id k); [congruence|]. auto.
Qed.

Lemma tget_tdel_None id k t : tget k t = None -> tget k (tdel id t) = None.
Proof.
  rewrite !tget_None. intros H Hin. apply H. eapply keys_tdel_incl; eauto.
Qed.

(* unique ids: two requests with one id are the same request *)
Lemma ids_inj (l : list req) i j ri rj :
  NoDup (map r_id l) -> nth_error l i = Some ri -> nth_error l j = Some rj -> r_id ri = r_id rj -> i = j.
Proof.
  intros Hnd Hi Hj He.
  assert (Hi' : nth_error (map r_id l) i = Some (r_id ri)) by (rewrite nth_error_map, Hi; reflexivity).
  assert (Hj' : nth_error (map r_id l) j = Some (r_id ri)) by (rewrite nth_error_map, Hj, He; reflexivity).
  eapply (proj1 (NoDup_nth_error (map r_id l)) Hnd).
  - apply nth_error_Some. congruence.
  - congruence.
Qed.

Lemma nth_app_new {A} (l : list A) x i r :
  nth_error (l ++ [x]) i = Some r -> (nth_error l i = Some r /\ (i < length l)%nat) \/ (i = length l /\ r = x).
Proof.
  intros H. destruct (Nat.lt_ge_cases i (length l)) as [Hl|Hl].
  - rewrite nth_error_app1 in H by assumption. auto.
  - rewrite nth_error_app2 in H by assumption.
    destruct (i - length l)%nat as [|k] eqn:E; simpl in H.
    + injection H as <-. right. split; [lia|reflexivity].
    + destruct k; discriminate.
Qed.

(* ---------- inversion of one step ---------- *)
Ltac inv_step H :=
  unfold step in H;
  repeat match type of H with
  | context [match ?x with _ => _ end] =>
      let E := fresh "E" in destruct x eqn:E; try discriminate H
  end;
  try (injection H as <-).

Lemma set_st_id c r : r_id (set_st c r) = r_id r.  Proof. reflexivity. Qed.
Lemma set_reply_id i r : r_id (set_reply i r) = r_id r.  Proof. reflexivity. Qed.
Lemma set_error_id e r : r_id (set_error e r) = r_id r.  Proof. reflexivity. Qed.

(* ---------- group A: structural invariants ---------- *)
Definition pend_notif (p : wpc) : list N := match p with WNotif n => [n] | _ => [] end.

Record InvA (s : st) : Prop := {
  a_ids : NoDup (map r_id (reqs s));
  a_keys : NoDup (map fst (table s));
  a_tab : forall id rid, tget id (table s) = Some rid -> exists r, rq s rid = Some r /\ r_id r = id;
  a_wrote : forall rid, In rid (wrote s) -> (rid < length (reqs s))%nat;
  a_outq : forall rid, In rid (outq s) -> (rid < length (reqs s))%nat;
  a_conn : closing s = true -> connected s = false;
  a_stop : pc s = WClosed \/ pc s = WExited -> connected s = false;
  a_notif : taken s ++ nq s ++ pend_notif (pc s) = recv_notifs s;
  a_clear : forall e rids, pc s = WErrClear e rids -> rids = map snd (table s);
  a_pcdel : forall rid id, pc s = WDeliver rid id -> tget id (table s) = Some rid
}.

Lemma InvA_init q : InvA (init q).
Proof.
  constructor; simpl; try (intros; discriminate); try (intros; contradiction); try constructor;
    try (intros [H|H]; discriminate); try reflexivity.
Qed.

Lemma tget_tdel_Some id k v t : NoDup (map fst t) -> tget k (tdel id t) = Some v -> tget k t = Some v /\ k <> id.
Proof.
  intros Hnd H. destruct (N.eq_dec k id) as [->|Hn].
  - rewrite tget_tdel_same in H by assumption. discriminate.
  - rewrite tget_tdel_other in H by assumption. auto.
Qed.

Lemma NoDup_app_one (l : list N) x : NoDup l -> ~ In x l -> NoDup (l ++ [x]).
Proof.
  intros Hnd Hn. induction l as [|a l IH]; simpl; [constructor; [tauto|constructor]|].
  inversion Hnd; subst. constructor.
  - rewrite in_app_iff. simpl. intros [H|[H|[]]]; [contradiction|]. subst. apply Hn. simpl; auto.
  - apply IH; auto. intros H. apply Hn. simpl; auto.
Qed.

(* requests keep their ids under the three record updates *)
Lemma rq_upd_id s rid f rid' r' :
  (forall r, r_id (f r) = r_id r) ->
  nth_error (upd (reqs s) rid f) rid' = Some r' ->
  exists r, nth_error (reqs s) rid' = Some r /\ r_id r = r_id r'.
Proof.
  intros Hf H. rewrite nth_upd in H. destruct (Nat.eqb rid rid').
  - destruct (nth_error (reqs s) rid') as [r|]; simpl in H; [|discriminate].
    injection H as <-. exists r. split; [reflexivity|]. symmetry. apply Hf.
  - eauto.
Qed.

Lemma rq_upd_ex s rid f rid' r :
  (forall r, r_id (f r) = r_id r) ->
  nth_error (reqs s) rid' = Some r ->
  exists r', nth_error (upd (reqs s) rid f) rid' = Some r' /\ r_id r' = r_id r.
Proof.
  intros Hf H. rewrite nth_upd. destruct (Nat.eqb rid rid').
  - rewrite H. simpl. eauto.
  - eauto.
Qed.

Ltac triv := simpl in *; try solve [assumption | congruence | tauto | (intros; discriminate) | (intros; congruence)].

Lemma reg_guard s rid id :
  (rid =? length (reqs s))%nat && negb (memN id (map r_id (reqs s))) && negb (holds_tlock (pc s)) = true ->
  rid = length (reqs s) /\ ~ In id (map r_id (reqs s)) /\ holds_tlock (pc s) = false.
Proof.
  intros H. apply andb_true_iff in H as [H H3]. apply andb_true_iff in H as [H1 H2].
  apply Nat.eqb_eq in H1. apply negb_true_iff in H2. apply negb_true_iff in H3.
  repeat split; auto. intros Hin. apply memN_In in Hin. congruence.
Qed.

Lemma a_ids_step s l s' : InvA s -> step s l = Some s' -> NoDup (map r_id (reqs s')).
Proof.
  intros [Hids Hkeys Htab Hwr Hoq Hconn Hstop Hnot Hclr Hdel] H.
  destruct l; inv_step H; triv.
  all: try (rewrite map_id_upd by (intros; reflexivity); assumption).
  all: try (destruct (qualify s); triv).
  all: apply reg_guard in E as (-> & Hn & _); rewrite map_app; simpl; apply NoDup_app_one; assumption.
Qed.

Lemma a_keys_step s l s' : InvA s -> step s l = Some s' -> NoDup (map fst (table s')).
Proof.
  intros [Hids Hkeys Htab Hwr Hoq Hconn Hstop Hnot Hclr Hdel] H.
  destruct l; inv_step H; triv.
  all: try (destruct (qualify s); triv).
  all: try (apply NoDup_keys_tset; assumption).
  all: try (apply NoDup_keys_tdel; assumption).
  all: try constructor.
Qed.


Lemma a_tab_step s l s' : InvA s -> step s l = Some s' ->
  forall id rid, tget id (table s') = Some rid -> exists r, rq s' rid = Some r /\ r_id r = id.
Proof.
  intros [Hids Hkeys Htab Hwr Hoq Hconn Hstop Hnot Hclr Hdel] H.
  unfold rq in *.
  destruct l; inv_step H; triv.
  all: try (destruct (qualify s); triv).
  all: try (intros xid xrid Hg; destruct (Htab _ _ Hg) as (xr & Hxr & Hxid);
            match goal with |- exists _, nth_error (upd _ ?rid ?f) _ = _ /\ _ =>
              destruct (rq_upd_ex s rid f xrid xr (fun _ => eq_refl) Hxr) as (r' & Hr' & Hid') end;
            exists r'; split; [exact Hr'|congruence]).
  all: try (apply reg_guard in E as (-> & Hn & _); intros xid xrid Hg;
    destruct (N.eq_dec xid id) as [->|Hne];
    [ rewrite tget_tset_same in Hg; injection Hg as <-;
      rewrite nth_error_app2 by lia; rewrite Nat.sub_diag; simpl; eauto
    | rewrite tget_tset_other in Hg by assumption;
      destruct (Htab _ _ Hg) as (xr & Hxr & Hxid); exists xr; split; [|assumption];
      rewrite nth_error_app1; [assumption|]; apply nth_error_Some; congruence ]).
  all: try (intros xid xrid Hg; apply tget_tdel_Some in Hg as [Hg _]; [|assumption]; eauto).
  all: try (intros xid xrid Hg; eauto).
Qed.

Lemma a_wrote_step s l s' : InvA s -> step s l = Some s' ->
  (forall rid, In rid (wrote s') -> (rid < length (reqs s'))%nat) /\
  (forall rid, In rid (outq s') -> (rid < length (reqs s'))%nat).
Proof.
  intros [Hids Hkeys Htab Hwr Hoq Hconn Hstop Hnot Hclr Hdel] H.
  destruct l; inv_step H; simpl; try rewrite length_upd; try (split; assumption).
  all: try (destruct (qualify s); simpl; split; assumption).
  all: try (rewrite app_length; simpl; split; intros xr Hr; [apply Hwr in Hr|apply Hoq in Hr]; lia).
  - (* LPut *) split; [assumption|]. intros xr Hr. apply in_app_iff in Hr as [Hr|[<-|[]]]; [auto|].
    apply nth_error_Some. congruence.
  - (* LDeq *) apply Nat.eqb_eq in E1; subst. split.
    + intros xr Hr. apply in_app_iff in Hr as [Hr|[<-|[]]]; [auto|]. apply Hoq. simpl; auto.
    + intros xr Hr. apply Hoq. simpl; auto.
Qed.

Lemma a_flags_step s l s' : InvA s -> step s l = Some s' ->
  (closing s' = true -> connected s' = false) /\
  (pc s' = WClosed \/ pc s' = WExited -> connected s' = false).
Proof.
  intros [Hids Hkeys Htab Hwr Hoq Hconn Hstop Hnot Hclr Hdel] H.
  destruct l; inv_step H; simpl; try (split; [assumption|]).
  all: try (destruct (qualify s); simpl).
  all: try (split; [assumption|]).
  all: try solve [intros [Hx|Hx]; discriminate Hx].
  all: try solve [split; intros; reflexivity].
  all: try solve [intros Hx; apply Hstop; rewrite ?E, ?E0, ?E1 in *; exact Hx].
  all: try solve [intros _; apply Hconn; assumption].
  all: try solve [intros _; apply Hstop; left; reflexivity].
  all: try solve [intros Hx; apply Hstop; exact Hx].
  all: try solve [split; intros _; first [apply Hconn; reflexivity | apply Hstop; auto]].
  all: try solve [intros _; apply andb_true_iff in E0 as [_ E0]; apply Hconn; exact E0].
Qed.

Lemma is_idle_true p : is_idle p = true -> p = WIdle.
Proof. destruct p; simpl; congruence. Qed.

Lemma a_notif_step s l s' : InvA s -> step s l = Some s' ->
  taken s' ++ nq s' ++ pend_notif (pc s') = recv_notifs s'.
Proof.
  intros [Hids Hkeys Htab Hwr Hoq Hconn Hstop Hnot Hclr Hdel] H.
  destruct l; inv_step H; simpl in *; try assumption.
  all: try (apply is_idle_true in E; rewrite E in Hnot; simpl in Hnot).
  all: try (destruct (qualify s); simpl; rewrite ?E in *; simpl in *; assumption).
  all: try (rewrite ?app_nil_r in *; assumption).
  - (* LRecv notification *) rewrite <- Hnot, !app_nil_r, app_assoc. reflexivity.
  - (* LNqPut *) apply N.eqb_eq in E0; subst. rewrite <- Hnot, app_nil_r. reflexivity.
  - (* LTake *) apply N.eqb_eq in E1; subst. rewrite <- Hnot, <- app_assoc. reflexivity.
Qed.

Lemma a_pcs_step s l s' : InvA s -> step s l = Some s' ->
  (forall e rids, pc s' = WErrClear e rids -> rids = map snd (table s')) /\
  (forall rid id, pc s' = WDeliver rid id -> tget id (table s') = Some rid).
Proof.
  intros [Hids Hkeys Htab Hwr Hoq Hconn Hstop Hnot Hclr Hdel] H.
  destruct l; inv_step H; simpl in *.
  all: try (destruct (qualify s); simpl).
  all: try (split; assumption).
  all: try solve [split; intros; discriminate].
  all: try solve [split; intros ? ? Hx; rewrite ?E, ?E0 in *; first [discriminate Hx | eauto]].
  all: try solve [split; intros ? ? Hx; [injection Hx as <- <-; reflexivity | discriminate Hx]].
  all: try (apply reg_guard in E as (-> & Hn & Hl); split; intros ? ? Hx; rewrite Hx in Hl; discriminate Hl).
  all: try solve [split; intros ? ? Hx; [discriminate Hx | injection Hx as <- <-; assumption]].

Qed.

Lemma InvA_step s l s' : InvA s -> step s l = Some s' -> InvA s'.
Proof.
  intros HI H.
  destruct (a_wrote_step _ _ _ HI H) as [Hw Ho].
  destruct (a_flags_step _ _ _ HI H) as [Hc Hs].
  destruct (a_pcs_step _ _ _ HI H) as [Hcl Hd].
  constructor; auto.
  - eapply a_ids_step; eauto.
  - eapply a_keys_step; eauto.
  - eapply a_tab_step; eauto.
  - eapply a_notif_step; eauto.
Qed.

(* reachable states: all label sequences accepted from the initial state *)
Definition reach (s : st) : Prop := exists q ls, run (init q) ls = Some s.

Lemma run_app s ls1 ls2 :
  run s (ls1 ++ ls2) = match run s ls1 with Some s1 => run s1 ls2 | None => None end.
Proof.
  revert s; induction ls1 as [|l ls1 IH]; intros s; simpl; [reflexivity|].
  destruct (step s l); [apply IH|reflexivity].
Qed.

Lemma run_inv (P : st -> Prop) :
  (forall s l s', P s -> step s l = Some s' -> P s') ->
  forall ls s s', P s -> run s ls = Some s' -> P s'.
Proof.
  intros Hstep ls; induction ls as [|l ls IH]; intros s s' HP H; simpl in H.
  - injection H as <-. exact HP.
  - destruct (step s l) as [s1|] eqn:E; [|discriminate]. eapply IH; [|exact H]. eapply Hstep; eauto.
Qed.

Lemma reach_InvA s : reach s -> InvA s.
Proof. intros (q & ls & H). eapply (run_inv InvA InvA_step); [apply InvA_init|exact H]. Qed.

(* ---------- group B: delivery, failure and notification invariants ---------- *)
Definition pc_rids (p : wpc) : list nat :=
  match p with WErrClear _ r | WErrDeliver _ r => r | _ => [] end.
Definition after_clear (p : wpc) : bool :=
  match p with WErrDeliver _ _ | WClosed | WExited => true | _ => false end.
Definition errphase (p : wpc) : bool :=
  match p with WErrSnap _ | WErrClear _ _ | WErrDeliver _ _ | WClosed | WExited => true | _ => false end.

Definition pcode (p : wpc) : option exc :=
  match p with WErrSnap e | WErrClear e _ | WErrDeliver e _ => Some e | _ => None end.

Record InvB (s : st) : Prop := {
  b_own : forall rid r i, rq s rid = Some r -> r_reply r = Some i -> i = r_id r;
  b_wdel : forall id, pc s = WDel id -> exists rid r, rq s rid = Some r /\ r_id r = id /\ r_reply r <> None;
  b_dlog : NoDup (deliver_log s);
  b_dlog2 : forall rid, In rid (deliver_log s) ->
            exists r, rq s rid = Some r /\ r_reply r <> None /\
                      (tget (r_id r) (table s) = None \/ pc s = WDel (r_id r));
  b_pend : forall rid r, rq s rid = Some r -> r_reply r = None -> r_error r = None ->
           tget (r_id r) (table s) = Some rid \/ In rid (pc_rids (pc s));
  b_late : after_clear (pc s) = true -> forall id rid, tget id (table s) = Some rid -> ~ In rid (wrote s);
  b_ev : forall rid r, rq s rid = Some r -> (r_ev r = true <-> (r_reply r <> None \/ r_error r <> None));
  b_done : forall rid r i, rq s rid = Some r -> r_st r = CDone (OReply i) -> r_reply r = Some i;
  b_err : forall rid r e, rq s rid = Some r -> r_error r = Some e -> bcast s = Some e;
  b_pce : forall e, pcode (pc s) = Some e -> bcast s = Some e;
  b_bc : bcast s <> None -> errphase (pc s) = true;
  b_eof : eof_seen s = true ->
          (errphase (pc s) = true \/ pc s = WRaise 1) /\ (forall e, bcast s = Some e -> e = 1);
  b_lst : lst s = false -> reqs s = [];
  b_skip : skipok s = true -> errphase (pc s) = true /\ wrote s = []
}.

(* what a request looks like after one step: either untouched, or one of the four updates *)
Lemma rq_step s l s' rid r' :
  step s l = Some s' -> rq s' rid = Some r' ->
  (rq s rid = Some r') \/
  (exists r c, rq s rid = Some r /\ r' = set_st c r /\
     (forall i, c = CDone (OReply i) -> r_reply r = Some i)) \/
  (exists r id, rq s rid = Some r /\ r' = set_reply id r /\ pc s = WDeliver rid id) \/
  (exists r e rest, rq s rid = Some r /\ r' = set_error e r /\ pc s = WErrDeliver e (rid :: rest)) \/
  (rq s rid = None /\ exists id, l = LReg rid id /\ r' = {| r_id := id; r_st := CReg; r_reply := None; r_error := None; r_ev := false |}).
Proof.
  intros H Hr. unfold rq in *.
  destruct l; inv_step H; simpl in *; auto.
  all: try (destruct (qualify s); simpl in *; auto).
  all: try (rewrite nth_upd in Hr;
            match type of Hr with context [Nat.eqb ?a ?b] => destruct (Nat.eqb_spec a b) as [->|Hne] end;
            [|auto];
            match type of Hr with context [option_map _ (nth_error ?ll ?k)] => destruct (nth_error ll k) as [r0|] eqn:Er0 end;
            simpl in Hr; [injection Hr as <-|discriminate Hr]).
  all: try (apply reg_guard in E as (-> & Hn & _); apply nth_app_new in Hr as [[Hr _]|[-> ->]];
            [auto|right; right; right; right; split; [apply nth_error_None; lia|eauto]]).
  all: try solve [right; left; do 2 eexists; split; [reflexivity|split; [reflexivity|intros i Hc; discriminate Hc]]].
  all: try solve [right; left; do 2 eexists; split; [reflexivity|split; [reflexivity|
         intros i Hc; injection Hc as Hc; injection E as ->; unfold wait_outcome in Hc;
         destruct flag; [destruct (r_error r); [discriminate|destruct (r_reply r); congruence]|discriminate]]]].
  all: try solve [right; right; left; do 2 eexists; split; [reflexivity|split; [reflexivity|
         match goal with Hq : (_ =? _)%nat = true |- _ => apply Nat.eqb_eq in Hq; subst end; assumption]]].
  all: try solve [right; right; right; left; do 3 eexists; split; [reflexivity|split; [reflexivity|
         match goal with Hq : (_ =? _)%nat = true |- _ => apply Nat.eqb_eq in Hq; subst end; reflexivity]]].
  all: try solve [apply Nat.eqb_eq in E0; subst; right; right; left; do 2 eexists; split; [reflexivity|split; reflexivity]].
  all: try solve [apply Nat.eqb_eq in E1; subst; right; right; right; left; do 3 eexists; split; [reflexivity|split; reflexivity]].
Qed.

Lemma deliver_id s rid id r :
  InvA s -> pc s = WDeliver rid id -> rq s rid = Some r -> r_id r = id.
Proof.
  intros HA Hpc Hr. apply (a_pcdel _ HA) in Hpc. apply (a_tab _ HA) in Hpc as (r2 & Hr2 & Hid).
  congruence.
Qed.

Lemma b_own_step s l s' : InvA s -> InvB s -> step s l = Some s' ->
  forall rid r i, rq s' rid = Some r -> r_reply r = Some i -> i = r_id r.
Proof.
  intros HA HB H rid r' i Hr Hrep.
  destruct (rq_step _ _ _ _ _ H Hr) as [Hu|[(r & c & Hu & -> & _)|[(r & id & Hu & -> & Hpc)|[(r & e & rest & Hu & -> & _)|(_ & id & _ & ->)]]]].
  - eapply (b_own _ HB); eauto.
  - simpl in *. eapply (b_own _ HB); eauto.
  - simpl in *. injection Hrep as <-. symmetry. eapply deliver_id; eauto.
  - simpl in *. eapply (b_own _ HB); eauto.
  - discriminate.
Qed.

Lemma b_done_step s l s' : InvA s -> InvB s -> step s l = Some s' ->
  forall rid r i, rq s' rid = Some r -> r_st r = CDone (OReply i) -> r_reply r = Some i.
Proof.
  intros HA HB H rid r' i Hr Hst.
  destruct (rq_step _ _ _ _ _ H Hr) as [Hu|[(r & c & Hu & -> & Hc)|[(r & id & Hu & -> & Hpc)|[(r & e & rest & Hu & -> & _)|(_ & id & _ & ->)]]]].
  - eapply (b_done _ HB); eauto.
  - simpl in *. auto.
  - simpl in *. pose proof (b_done _ HB _ _ _ Hu Hst) as Hd.
    pose proof (b_own _ HB _ _ _ Hu Hd) as ->. f_equal. symmetry. eapply deliver_id; eauto.
  - simpl in *. eapply (b_done _ HB); eauto.
  - discriminate.
Qed.

Lemma b_ev_step s l s' : InvA s -> InvB s -> step s l = Some s' ->
  forall rid r, rq s' rid = Some r -> (r_ev r = true <-> (r_reply r <> None \/ r_error r <> None)).
Proof.
  intros HA HB H rid r' Hr.
  destruct (rq_step _ _ _ _ _ H Hr) as [Hu|[(r & c & Hu & -> & Hc)|[(r & id & Hu & -> & Hpc)|[(r & e & rest & Hu & -> & _)|(_ & id & _ & ->)]]]].
  - eapply (b_ev _ HB); eauto.
  - simpl. eapply (b_ev _ HB); eauto.
  - simpl. split; [intros _; left; discriminate|reflexivity].
  - simpl. split; [intros _; right; discriminate|reflexivity].
  - simpl. split; [discriminate|intros [Hx|Hx]; congruence].
Qed.

Lemma errphase_step s l s' : step s l = Some s' -> errphase (pc s) = true -> errphase (pc s') = true.
Proof.
  intros H He. destruct l; inv_step H; simpl in *; try assumption; try congruence.
  all: try (destruct (qualify s); simpl; congruence).
  all: try (rewrite ?E in He; simpl in He; congruence).
  all: try (apply is_idle_true in E; rewrite E in He; simpl in He; congruence).
Qed.

Lemma bcast_step s l s' : step s l = Some s' ->
  (bcast s' = bcast s /\ eof_seen s' = eof_seen s /\ forall e, l <> LErrBcast e /\ l <> LReadEof) \/
  (exists e, l = LErrBcast e /\ bcast s' = Some e /\ eof_seen s' = eof_seen s /\ pc s' = WErrSnap e /\
             ((exists e', pc s = WRaise e' /\ e = bcast_code (closing s) e') \/ (pc s = WIdle /\ e = 1))) \/
  (l = LReadEof /\ bcast s' = bcast s /\ eof_seen s' = true /\ pc s = WIdle /\ pc s' = WRaise 1).
Proof.
  intros H. destruct l; inv_step H; simpl in *.
  all: try (destruct (qualify s); simpl).
  all: try solve [left; repeat split; intros; discriminate].
  all: try solve [right; right; apply is_idle_true in E; auto].
  all: try solve [right; left; apply N.eqb_eq in E0; subst; eexists; repeat split; eauto].
  all: try solve [right; left; apply andb_true_iff in E0 as [_ E0]; apply N.eqb_eq in E0; subst; eexists; repeat split; auto].
Qed.

Lemma pcode_pres s l s' e :
  step s l = Some s' -> (forall e0, l <> LErrBcast e0) -> pcode (pc s') = Some e -> pcode (pc s) = Some e.
Proof.
  intros H Hl Hp. destruct l; inv_step H; simpl in *; try assumption; try discriminate.
  all: try (destruct (qualify s); simpl in *; try assumption; try discriminate).
  all: try (exfalso; eapply Hl; reflexivity).
  all: try (rewrite ?E in Hp; simpl in Hp; congruence).
  all: try (apply is_idle_true in E; rewrite E in Hp; simpl in Hp; congruence).
Qed.

Lemma raise_pres s l s' e :
  step s l = Some s' -> (forall e0, l <> LErrBcast e0) -> pc s = WRaise e -> pc s' = WRaise e.
Proof.
  intros H Hl Hp. destruct l; inv_step H; simpl in *; try assumption; try congruence.
  all: try (destruct (qualify s); simpl in *; try assumption; try congruence).
  all: try (apply is_idle_true in E; congruence).
  all: try (exfalso; eapply Hl; reflexivity).
Qed.

Lemma b_bcast_step s l s' : InvA s -> InvB s -> step s l = Some s' ->
  (forall rid r e, rq s' rid = Some r -> r_error r = Some e -> bcast s' = Some e) /\
  (forall e, pcode (pc s') = Some e -> bcast s' = Some e) /\
  (bcast s' <> None -> errphase (pc s') = true) /\
  (eof_seen s' = true ->
     (errphase (pc s') = true \/ pc s' = WRaise 1) /\ (forall e, bcast s' = Some e -> e = 1)).
Proof.
  intros HA HB H.
  destruct (bcast_step _ _ _ H) as [(Hb & Hf & Hl)|[(e0 & -> & Hb & Hf & Hp' & Hp)|(-> & Hb & Hf & Hp & Hp')]].
  - (* bcast unchanged, not a broadcast, not EOF *)
    assert (Hl1 : forall e1, l <> LErrBcast e1) by (intros e1; apply (Hl e1)).
    repeat split.
    + intros rid r' e Hr He. rewrite Hb.
      destruct (rq_step _ _ _ _ _ H Hr) as [Hu|[(r & c & Hu & -> & _)|[(r & id & Hu & -> & Hpc)|[(r & e1 & rest & Hu & -> & Hpc)|(_ & id & _ & ->)]]]];
        simpl in He; try (eapply (b_err _ HB); eauto; fail); try discriminate.
      injection He as ->. apply (b_pce _ HB). rewrite Hpc. reflexivity.
    + intros e He. rewrite Hb. apply (b_pce _ HB). eapply pcode_pres; eauto.
    + intros Hn. rewrite Hb in Hn. eapply errphase_step; eauto. apply (b_bc _ HB). exact Hn.
    + rewrite Hf in H0. destruct (proj1 (b_eof _ HB H0)) as [He|He].
      * left. eapply errphase_step; eauto.
      * right. eapply raise_pres; eauto.
    + intros e He. rewrite Hf in H0. rewrite Hb in He. apply (proj2 (b_eof _ HB H0)). exact He.
  - (* the broadcast itself *)
    assert (Hnone : bcast s = None).
    { destruct (bcast s) eqn:Eb; [|reflexivity]. exfalso.
      assert (Hx : errphase (pc s) = true) by (apply (b_bc _ HB); congruence).
      destruct Hp as [(e' & Hp & _)|[Hp _]]; rewrite Hp in Hx; discriminate. }
    repeat split.
    + intros rid r' e Hr He. exfalso.
      destruct (rq_step _ _ _ _ _ H Hr) as [Hu|[(r & c & Hu & -> & _)|[(r & id & Hu & -> & Hpc)|[(r & e1 & rest & Hu & -> & Hpc)|(_ & id & Hx & _)]]]];
        simpl in He; try (pose proof (b_err _ HB _ _ _ Hu He); congruence); try discriminate.
      destruct Hp as [(e' & Hp & _)|[Hp _]]; congruence.
    + intros e He. rewrite Hp' in He. simpl in He. congruence.
    + intros _. rewrite Hp'. reflexivity.
    + left. rewrite Hp'. reflexivity.
    + intros e He. rewrite Hb in He. injection He as <-. rewrite Hf in H0.
      destruct (proj1 (b_eof _ HB H0)) as [Hx|Hx].
      * destruct Hp as [(e' & Hp & _)|[Hp _]]; rewrite Hp in Hx; discriminate.
      * destruct Hp as [(e' & Hp & He')|[Hp He1]]; [|assumption].
        assert (e' = 1) by congruence. subst e'. rewrite He'. unfold bcast_code, is_transport. simpl.
        destruct (closing s); reflexivity.
  - (* end of file read *)
    assert (Hnone : bcast s = None).
    { destruct (bcast s) eqn:Eb; [|reflexivity]. exfalso.
      assert (Hx : errphase (pc s) = true) by (apply (b_bc _ HB); congruence).
      rewrite Hp in Hx. discriminate. }
    repeat split.
    + intros rid r' e Hr He. exfalso.
      destruct (rq_step _ _ _ _ _ H Hr) as [Hu|[(r & c & Hu & -> & _)|[(r & id & Hu & -> & Hpc)|[(r & e1 & rest & Hu & -> & Hpc)|(_ & id & Hx & _)]]]];
        simpl in He; try (pose proof (b_err _ HB _ _ _ Hu He); congruence); try discriminate; congruence.
    + intros e He. rewrite Hp' in He. discriminate.
    + intros Hn. congruence.
    + right. exact Hp'.
    + intros e He. congruence.
Qed.

(* requests persist; their id is constant; a stored reply / error stays stored *)
Lemma rq_pres s l s' rid r :
  step s l = Some s' -> rq s rid = Some r ->
  exists r', rq s' rid = Some r' /\ r_id r' = r_id r /\
             (r_reply r <> None -> r_reply r' <> None) /\ (r_error r <> None -> r_error r' <> None) /\
             (r' = r \/ exists f, r' = f r /\ (f = set_st (r_st r') \/ (exists i, f = set_reply i) \/ (exists e, f = set_error e))).
Proof.
  intros H Hr. unfold rq in *.
  destruct l; inv_step H; simpl in *.
  all: try (destruct (qualify s); simpl in * ).
  all: try solve [exists r; repeat split; auto].
  all: try (rewrite nth_upd;
            match goal with |- context [Nat.eqb ?a ?b] => destruct (Nat.eqb_spec a b) as [->|Hne] end;
            [rewrite Hr; simpl; eexists; split; [reflexivity|]; simpl; repeat split; auto; try discriminate
            |exists r; repeat split; auto]).
  all: try solve [right; eexists; split; [reflexivity|]; simpl; eauto].
  all: try (exists r; split; [rewrite nth_error_app1; [assumption|apply nth_error_Some; congruence]|repeat split; auto]).
Qed.

Lemma b_wdel_step s l s' : InvA s -> InvB s -> step s l = Some s' ->
  forall id, pc s' = WDel id -> exists rid r, rq s' rid = Some r /\ r_id r = id /\ r_reply r <> None.
Proof.
  intros HA HB H id Hpc'.
  assert (Hkeep : pc s = WDel id -> exists rid r, rq s' rid = Some r /\ r_id r = id /\ r_reply r <> None).
  { intros Hpc. destruct (b_wdel _ HB _ Hpc) as (rid1 & r1 & Hr1 & Hid1 & Hrep1).
    destruct (rq_pres _ _ _ _ _ H Hr1) as (r' & Hr' & Hid' & Hrep' & _).
    exists rid1, r'; repeat split; [exact Hr'|congruence|auto]. }
  destruct l; inv_step H; simpl in Hpc'; try discriminate; try (apply Hkeep; assumption).
  all: try (destruct (qualify s); simpl in Hpc'; try discriminate; try (apply Hkeep; assumption)).
  all: try (exfalso; congruence).
  all: try (apply is_idle_true in E; exfalso; congruence).
  (* LEvSetReply *)
  all: apply Nat.eqb_eq in E0; subst; injection Hpc' as <-;
  pose proof (a_pcdel _ HA _ _ E) as Hg; destruct (a_tab _ HA _ _ Hg) as (r1 & Hr1 & Hid1);
  unfold rq in *; simpl; exists rid0, (set_reply id0 r1); rewrite nth_upd_same, Hr1; simpl;
  repeat split; [assumption|discriminate].
Qed.

Lemma In_ids s rid r : rq s rid = Some r -> In (r_id r) (map r_id (reqs s)).
Proof. intros H. apply in_map. eapply nth_error_In; eauto. Qed.

Lemma b_dlog2_step s l s' : InvA s -> InvB s -> step s l = Some s' ->
  forall rid, In rid (deliver_log s') ->
  exists r, rq s' rid = Some r /\ r_reply r <> None /\
            (tget (r_id r) (table s') = None \/ pc s' = WDel (r_id r)).
Proof.
  intros HA HB H rid Hin.
  (* old entries: the request persists with its id and reply *)
  assert (Hold : In rid (deliver_log s) ->
                 exists r r', rq s rid = Some r /\ rq s' rid = Some r' /\ r_id r' = r_id r /\ r_reply r' <> None /\
                              (tget (r_id r) (table s) = None \/ pc s = WDel (r_id r))).
  { intros Hi. destruct (b_dlog2 _ HB _ Hi) as (r & Hr & Hrep & Hd).
    destruct (rq_pres _ _ _ _ _ H Hr) as (r' & Hr' & Hid' & Hrep' & _). exists r, r'. repeat split; auto. }
  destruct l; inv_step H; simpl in Hin |- *.
  all: try (destruct (qualify s); simpl in Hin |- * ).
  (* labels that change neither table nor pc nor the log *)
  all: try solve [destruct (Hold Hin) as (xr & xr' & Hr & Hr' & Hid & Hrep & Hd); exists xr'; rewrite Hid; auto].
  (* labels that change pc (from a state that is not WDel) but not the table *)
  all: try solve [destruct (Hold Hin) as (xr & xr' & Hr & Hr' & Hid & Hrep & [Hd|Hd]);
                  [exists xr'; rewrite Hid; auto | exfalso; try (apply is_idle_true in E); congruence]].
  (* LReg: the new id is fresh *)
  all: try solve [apply reg_guard in E as (-> & Hn & Hl);
                  destruct (Hold Hin) as (xr & xr' & Hr & Hr' & Hid & Hrep & [Hd|Hd]);
                  [exists xr'; rewrite Hid; repeat split; auto; left; rewrite tget_tset_other; [assumption|];
                   intros ->; apply Hn; eapply In_ids; eauto
                  | rewrite Hd in Hl; discriminate Hl]].
  (* LTDel *)
  all: try solve [apply N.eqb_eq in E0; subst;
                  destruct (Hold Hin) as (xr & xr' & Hr & Hr' & Hid & Hrep & [Hd|Hd]);
                  exists xr'; rewrite Hid; repeat split; auto; left;
                  [apply tget_tdel_None; assumption
                  | injection Hd as <-; apply tget_tdel_same; apply (a_keys _ HA)]].
  (* LTClear *)
  all: try solve [destruct (Hold Hin) as (xr & xr' & Hr & Hr' & Hid & Hrep & Hd); exists xr'; repeat split; auto].
  all: try solve [apply reg_guard in E as (-> & Hn & Hl);
    destruct (Hold Hin) as (xr & xr' & Hr & Hr' & Hid & Hrep & [Hd|Hd]);
    [ exists xr'; rewrite Hid; repeat split; auto; left; rewrite tget_tset_other; [assumption|];
      intros Heq; apply Hn; rewrite <- Heq; eapply In_ids; eauto
    | rewrite Hd in Hl; discriminate Hl ]].
  (* LEvSetReply *)
  all: apply Nat.eqb_eq in E0; subst; apply in_app_iff in Hin as [Hin|[<-|[]]];
    [ destruct (Hold Hin) as (xr & xr' & Hr & Hr' & Hid & Hrep & [Hd|Hd]);
      [exists xr'; rewrite Hid; auto | exfalso; congruence]
    | pose proof (a_pcdel _ HA _ _ E) as Hg; destruct (a_tab _ HA _ _ Hg) as (r1 & Hr1 & Hid1);
      unfold rq in *; simpl; exists (set_reply id r1); rewrite nth_upd_same, Hr1; simpl;
      repeat split; [discriminate|right; congruence] ].
Qed.

Lemma NoDup_app_one_nat (l : list nat) x : NoDup l -> ~ In x l -> NoDup (l ++ [x]).
Proof.
  intros Hnd Hn. induction l as [|a l IH]; simpl; [constructor; [tauto|constructor]|].
  inversion Hnd; subst. constructor.
  - rewrite in_app_iff. simpl. intros [H|[H|[]]]; [contradiction|]. subst. apply Hn. simpl; auto.
  - apply IH; auto. intros H. apply Hn. simpl; auto.
Qed.

Lemma b_dlog_step s l s' : InvA s -> InvB s -> step s l = Some s' -> NoDup (deliver_log s').
Proof.
  intros HA HB H. pose proof (b_dlog _ HB) as Hnd.
  destruct l; inv_step H; simpl; try assumption.
  all: try (destruct (qualify s); simpl; assumption).
  all: apply Nat.eqb_eq in E0; subst; apply NoDup_app_one_nat; [assumption|]; intros Hin;
    destruct (b_dlog2 _ HB _ Hin) as (r & Hr & Hrep & [Hd|Hd]); [|congruence];
    pose proof (a_pcdel _ HA _ _ E) as Hg; destruct (a_tab _ HA _ _ Hg) as (r1 & Hr1 & Hid1);
    congruence.
Qed.

Lemma b_pend_step s l s' : InvA s -> InvB s -> step s l = Some s' ->
  forall rid r, rq s' rid = Some r -> r_reply r = None -> r_error r = None ->
  tget (r_id r) (table s') = Some rid \/ In rid (pc_rids (pc s')).
Proof.
  intros HA HB H rid r' Hr' Hrep Herr.
  assert (Hsrc : (exists r, rq s rid = Some r /\ r_id r = r_id r' /\ r_reply r = None /\ r_error r = None) \/
                 (rq s rid = None /\ l = LReg rid (r_id r'))).
  { destruct (rq_step _ _ _ _ _ H Hr') as [Hu|[(r & c & Hu & -> & _)|[(r & id & Hu & -> & Hpc)|[(r & e & rest & Hu & -> & _)|(Hn & id & -> & ->)]]]];
      simpl in *; try discriminate; eauto 8. }
  destruct Hsrc as [(r & Hr & Hid & Hrep0 & Herr0)|[Hnone ->]].
  - rewrite <- Hid. pose proof (b_pend _ HB _ _ Hr Hrep0 Herr0) as D.
    destruct l; inv_step H; simpl.
    all: try (destruct (qualify s); simpl).
    all: try exact D.
    all: try solve [destruct D as [D|D]; [left; exact D|rewrite ?E in D; simpl in D; try (apply is_idle_true in E; rewrite E in D; simpl in D); contradiction]].
    all: try solve [apply reg_guard in E as (-> & Hn & Hl); destruct D as [D|D];
                    [left; rewrite tget_tset_other; [exact D|intros Heq; apply Hn; rewrite <- Heq; eapply In_ids; eauto]
                    |right; exact D]].
    all: try solve [apply N.eqb_eq in E0; subst; destruct D as [D|D]; [|simpl in D; contradiction]; left;
                    match goal with Hw : pc _ = WDel ?i |- _ =>
                    destruct (N.eq_dec (r_id r) i) as [Heq|Hne];
                    [exfalso; destruct (b_wdel _ HB _ Hw) as (rid2 & r2 & Hr2 & Hid2 & Hrep2);
                     assert (rid2 = rid) by (eapply ids_inj; [apply (a_ids _ HA)|exact Hr2|exact Hr|congruence]);
                     subst; unfold rq in *; congruence
                    |rewrite tget_tdel_other; assumption] end].
    (* LTClear: the snapshot is the table *)
    all: try solve [right; destruct D as [D|D]; [|exact D];
                    match goal with Hw : pc _ = WErrClear ?e ?rids |- _ =>
                      rewrite (a_clear _ HA _ _ Hw); eapply tget_In_snd; eauto end].
    (* LEvSetErr: the head of the list is the request being failed, which is not ours *)
    all: try solve [apply Nat.eqb_eq in E1; subst; destruct D as [D|[D|D]]; [left; exact D| |right; exact D];
                    exfalso; subst; unfold rq in *; simpl in Hr'; rewrite nth_upd_same, Hr in Hr'; simpl in Hr';
                    injection Hr' as <-; discriminate Herr].

  - inv_step H. simpl. left. apply tget_tset_same.
Qed.

Lemma b_late_step s l s' : InvA s -> InvB s -> step s l = Some s' ->
  after_clear (pc s') = true -> forall id rid, tget id (table s') = Some rid -> ~ In rid (wrote s').
Proof.
  intros HA HB H Hac id rid Hg. pose proof (b_late _ HB) as IH.
  destruct l; inv_step H; simpl in Hac, Hg |- *; try discriminate.
  all: try (destruct (qualify s); simpl in Hac, Hg |- *; try discriminate).
  all: try solve [eapply IH; eauto].
  all: try solve [rewrite ?E in IH; simpl in IH; eapply IH; eauto].
  all: try solve [apply is_idle_true in E; rewrite E in Hac; discriminate].
  all: try solve [rewrite E in Hac; discriminate].
  all: try solve [match goal with Hs : skipok _ = true |- _ => rewrite (proj2 (b_skip _ HB Hs)); intros [] end].
  all: try solve [match goal with Hs : skipok _ && closing _ = true |- _ =>
                    apply andb_true_iff in Hs as [Hs _]; rewrite (proj2 (b_skip _ HB Hs)); intros [] end].
  all: apply reg_guard in E as (-> & Hn & Hl); destruct (N.eq_dec id id0) as [->|Hne];
    [ rewrite tget_tset_same in Hg; injection Hg as <-; intros Hin; apply (a_wrote _ HA) in Hin; lia
    | rewrite tget_tset_other in Hg by assumption; eapply IH; eauto ].
Qed.

Lemma b_skip_step s l s' : InvA s -> InvB s -> step s l = Some s' ->
  (lst s' = false -> reqs s' = []) /\ (skipok s' = true -> errphase (pc s') = true /\ wrote s' = []).
Proof.
  intros HA HB H. pose proof (b_lst _ HB) as Hl. pose proof (b_skip _ HB) as Hs.
  pose proof (errphase_step _ _ _ H) as He.
  destruct l; inv_step H; simpl in *.
  all: try (destruct (qualify s); simpl in * ).
  all: try solve [split; [exact Hl | intros Hx; destruct (Hs Hx) as [H1 H2]; split; [apply He; exact H1|exact H2]]].
  all: try solve [split; [intros Hx; rewrite (Hl Hx); destruct rid; reflexivity
                         | intros Hx; destruct (Hs Hx) as [H1 H2]; split; [apply He; exact H1|exact H2]]].
  all: try solve [split; [discriminate | intros Hx; destruct (Hs Hx) as [H1 H2]; split; [apply He; exact H1|exact H2]]].
  (* LDeq: the worker is idle, so skipok is false *)
  all: try solve [split; [exact Hl | intros Hx; destruct (Hs Hx) as [H1 _]; discriminate H1]].
  (* transitions inside the error phase *)
  all: try solve [split; [exact Hl | intros Hx; destruct (Hs Hx) as [_ H2]; split; [reflexivity|exact H2]]].
  (* LErrBcast: skipok := no listener; then no request was ever registered, so nothing was written *)
  all: try solve [split; [exact Hl | intros Hx; apply negb_true_iff in Hx; split; [reflexivity|];
                  destruct (wrote s) as [|w ws] eqn:Ew; [reflexivity|]; exfalso;
                  assert (Hw : In w (wrote s)) by (rewrite Ew; simpl; auto);
                  apply (a_wrote _ HA) in Hw; rewrite (Hl Hx) in Hw; simpl in Hw; lia]].
  all: try solve [split; [exact Hl | intros _; split; [reflexivity|apply Hs; reflexivity]]].

Qed.

Lemma InvB_init q : InvB (init q).
Proof.
  constructor; simpl; unfold rq; simpl.
  all: try solve [intros [|rid] r; simpl; intros; discriminate].
  all: try solve [intros [|rid] r i; simpl; intros; discriminate].
  all: try solve [intros; discriminate].
  all: try solve [constructor].
  all: try solve [intros; contradiction].
  all: try solve [intros Hx; congruence].

Qed.

Lemma InvB_step s l s' : InvA s -> InvB s -> step s l = Some s' -> InvB s'.
Proof.
  intros HA HB H.
  destruct (b_bcast_step _ _ _ HA HB H) as (H1 & H2 & H3 & H4).
  constructor; auto.
  - eapply b_own_step; eauto.
  - eapply b_wdel_step; eauto.
  - eapply b_dlog_step; eauto.
  - eapply b_dlog2_step; eauto.
  - eapply b_pend_step; eauto.
  - eapply b_late_step; eauto.
  - eapply b_ev_step; eauto.
  - eapply b_done_step; eauto.
  - apply (proj1 (b_skip_step _ _ _ HA HB H)).
  - apply (proj2 (b_skip_step _ _ _ HA HB H)).
Qed.

Definition Inv (s : st) : Prop := InvA s /\ InvB s.

Lemma reach_Inv s : reach s -> Inv s.
Proof.
  intros (q & ls & H).
  eapply (run_inv Inv); [|split; [apply InvA_init|apply InvB_init]|exact H].
  intros s0 l s1 [HA HB] Hs. split; [eapply InvA_step|eapply InvB_step]; eauto.
Qed.

(* ================= statements exported to Props/C03.v, C04.v, C11.v ================= *)

(* C03: a stored reply, and the reply a completed call returned, carry the request's own id *)
Lemma c03_own_reply s rid r i : reach s -> rq s rid = Some r -> r_reply r = Some i -> i = r_id r.
Proof. intros Hr. apply (b_own _ (proj2 (reach_Inv _ Hr))). Qed.

Lemma c03_outcome_own s rid r i : reach s -> rq s rid = Some r -> r_st r = CDone (OReply i) -> i = r_id r.
Proof.
  intros Hr Hq Hst. destruct (reach_Inv _ Hr) as [HA HB].
  eapply (b_own _ HB); eauto. eapply (b_done _ HB); eauto.
Qed.

Lemma c03_unique_ids s : reach s -> NoDup (map r_id (reqs s)).
Proof. intros Hr. apply (a_ids _ (proj1 (reach_Inv _ Hr))). Qed.

Lemma c03_at_most_once s : reach s -> NoDup (deliver_log s).
Proof. intros Hr. apply (b_dlog _ (proj2 (reach_Inv _ Hr))). Qed.

(* delivering a reply (late or not) touches nothing but that request's record, the log and the pc *)
Lemma c03_deliver_frame s rid s' :
  step s (LEvSetReply rid) = Some s' ->
  connected s' = connected s /\ closing s' = closing s /\ table s' = table s /\ nq s' = nq s /\ outq s' = outq s /\
  (forall rid', rid' <> rid -> rq s' rid' = rq s rid').
Proof.
  intros H. inv_step H; simpl; repeat split; auto.
  all: intros rid' Hne; unfold rq; simpl; apply nth_upd_other; apply Nat.eqb_eq in E0; congruence.
Qed.

Lemma c03_delete_frame s id s' :
  step s (LTDel id) = Some s' ->
  connected s' = connected s /\ reqs s' = reqs s /\ nq s' = nq s /\ pc s' = WIdle /\
  (forall k, k <> id -> tget k (table s') = tget k (table s)).
Proof.
  intros H. inv_step H; simpl; repeat split; auto.
  intros k Hk. apply N.eqb_eq in E0. subst. now apply tget_tdel_other.
Qed.

(* a reply is only ever delivered to the request registered under its message-id *)
Lemma c03_deliver_by_id s rid s' :
  reach s -> step s (LEvSetReply rid) = Some s' ->
  exists id r, pc s = WDeliver rid id /\ tget id (table s) = Some rid /\ rq s rid = Some r /\ r_id r = id /\
               rq s' rid = Some (set_reply id r).
Proof.
  intros Hr H. destruct (reach_Inv _ Hr) as [HA HB]. pose proof H as H0.
  inv_step H. apply Nat.eqb_eq in E0; subst.
  pose proof (a_pcdel _ HA _ _ E) as Hg. destruct (a_tab _ HA _ _ Hg) as (r1 & Hr1 & Hid1).
  exists id, r1. repeat split; auto. unfold rq in *; simpl. rewrite nth_upd_same, Hr1. reflexivity.
Qed.

(* messages that are not replies are ignored by the reply listener when the profile checks the tag *)
Lemma c03_nonreply_ignored s kind arg s' :
  qualify s = true -> (kind = 3 \/ kind = 4) -> step s (LRecv kind arg) = Some s' -> s' = s.
Proof.
  intros Hq [-> | ->] H; inv_step H; simpl in *; try discriminate; try reflexivity; congruence.
Qed.

(* C04 / C14 (session clause): once the worker has closed or exited, every request that was written
   to the transport and got no reply has been failed (error stored, event set) *)
Lemma c04_all_failed s rid r :
  reach s -> pc s = WClosed \/ pc s = WExited ->
  rq s rid = Some r -> In rid (wrote s) -> r_reply r = None ->
  r_error r <> None /\ r_ev r = true.
Proof.
  intros Hr Hpc Hq Hw Hrep. destruct (reach_Inv _ Hr) as [HA HB].
  assert (He : r_error r <> None).
  { intros Herr. destruct (b_pend _ HB _ _ Hq Hrep Herr) as [Hg|Hin].
    - eapply (b_late _ HB); eauto. destruct Hpc as [-> | ->]; reflexivity.
    - destruct Hpc as [Hp|Hp]; rewrite Hp in Hin; contradiction. }
  split; [exact He|]. apply (b_ev _ HB _ _ Hq). right. exact He.
Qed.

(* the same holds as soon as the error broadcast has finished, before close() *)
Lemma c04_all_failed_after_broadcast s rid r e :
  reach s -> pc s = WErrDeliver e [] ->
  rq s rid = Some r -> In rid (wrote s) -> r_reply r = None -> r_error r <> None /\ r_ev r = true.
Proof.
  intros Hr Hpc Hq Hw Hrep. destruct (reach_Inv _ Hr) as [HA HB].
  assert (He : r_error r <> None).
  { intros Herr. destruct (b_pend _ HB _ _ Hq Hrep Herr) as [Hg|Hin].
    - eapply (b_late _ HB); eauto. rewrite Hpc. reflexivity.
    - rewrite Hpc in Hin. contradiction. }
  split; [exact He|]. apply (b_ev _ HB _ _ Hq). right. exact He.
Qed.

(* the stored error is the one that was broadcast; after the peer closed it is SessionCloseError (1) *)
Lemma c04_error_is_broadcast s rid r e :
  reach s -> rq s rid = Some r -> r_error r = Some e ->
  bcast s = Some e /\ (eof_seen s = true -> e = 1).
Proof.
  intros Hr Hq He. destruct (reach_Inv _ Hr) as [HA HB].
  pose proof (b_err _ HB _ _ _ Hq He) as Hb. split; [exact Hb|].
  intros Hf. apply (proj2 (b_eof _ HB Hf)). exact Hb.
Qed.

Lemma c04_disconnected s : reach s -> pc s = WClosed \/ pc s = WExited -> connected s = false.
Proof. intros Hr. apply (a_stop _ (proj1 (reach_Inv _ Hr))). Qed.

Lemma c04_refused_after s rid b s' r' :
  connected s = false -> step s (LChk rid b) = Some s' -> rq s' rid = Some r' ->
  b = false /\ r_st r' = CDone (OExc 5).
Proof.
  intros Hc H Hq. unfold rq in Hq.
  inv_step H; simpl in Hq; apply andb_true_iff in E0 as [_ E0]; rewrite Hc in E0; simpl in E0; try discriminate.
  rewrite nth_upd_same, E in Hq. simpl in Hq. injection Hq as <-. auto.
Qed.

(* a synchronous call has exactly one blocking point, the bounded wait; whatever its result, the call ends *)
Lemma c04_wait_ends s rid flag s' r' :
  step s (LWaitRes rid flag) = Some s' -> rq s' rid = Some r' ->
  exists o, r_st r' = CDone o /\ (flag = false -> o = OExc 4).
Proof.
  intros H Hq. inv_step H. unfold rq in Hq. simpl in Hq. rewrite nth_upd_same, E in Hq. simpl in Hq.
  injection Hq as <-. simpl. eexists; split; [reflexivity|]. intros ->. reflexivity.
Qed.

(* a completed call never reports a reply when an error was stored: the error wins *)
Lemma c04_error_wins s rid s' r r' :
  rq s rid = Some r -> r_error r <> None -> step s (LWaitRes rid true) = Some s' -> rq s' rid = Some r' ->
  exists e, r_st r' = CDone (OExc e).
Proof.
  intros Hq He H Hq'. unfold rq in *. inv_step H. simpl in Hq'. rewrite nth_upd_same, E in Hq'. simpl in Hq'.
  injection Hq' as <-. simpl. unfold wait_outcome.
  match goal with |- context [r_error ?x] => assert (Hx : x = r) by congruence; rewrite Hx end.
  destruct (r_error r); [eauto|congruence].
Qed.

(* C11 *)
Lemma c11_queue_history s : reach s -> taken s ++ nq s ++ pend_notif (pc s) = recv_notifs s.
Proof. intros Hr. apply (a_notif _ (proj1 (reach_Inv _ Hr))). Qed.

Lemma c11_not_a_reply s n s' :
  step s (LRecv 2 n) = Some s' ->
  reqs s' = reqs s /\ table s' = table s /\ connected s' = connected s /\ deliver_log s' = deliver_log s /\
  pc s' = WNotif n.
Proof. intros H. inv_step H; simpl in *; try discriminate. repeat split; reflexivity. Qed.

Lemma c11_enqueue_only s n l s' :
  pc s = WNotif n -> step s l = Some s' ->
  (l = LNqPut n /\ pc s' = WIdle /\ nq s' = nq s ++ [n] /\ reqs s' = reqs s /\ table s' = table s /\ connected s' = connected s)
  \/ pc s' = WNotif n.
Proof.
  intros Hp H. destruct l; inv_step H; simpl in *; try congruence; auto.
  all: try (destruct (qualify s); simpl; auto).
  all: try solve [apply is_idle_true in E; congruence].
  all: try solve [left; apply N.eqb_eq in E0; subst; injection Hp as <-; repeat split; reflexivity].
Qed.

Lemma c11_take_fifo s got n s' :
  step s (LTake got n) = Some s' ->
  (got = true /\ exists t, nq s = n :: t /\ nq s' = t /\ taken s' = taken s ++ [n]) \/
  (got = false /\ nq s = [] /\ s' = s).
Proof.
  intros H. inv_step H; simpl.
  - right. auto.
  - left. apply N.eqb_eq in E1. subst. split; [reflexivity|]. eexists; repeat split; reflexivity.
Qed.

(* ---------- C14, session clause ---------- *)
Lemma c14_worker_stop s : reach s -> pc s = WExited ->
  connected s = false /\
  (forall rid r, rq s rid = Some r -> In rid (wrote s) -> r_reply r = None -> r_error r <> None /\ r_ev r = true).
Proof.
  intros Hr Hp. split; [apply c04_disconnected; auto|].
  intros rid r Hq Hw Hrep. eapply c04_all_failed; eauto.
Qed.

(* a reply whose id is unknown, or that has no id, is never a delivery: the listener raises (OperationError) *)
Lemma c14_unknown_id s id s' :
  step s (LTGet id false) = Some s' ->
  tget id (table s) = None /\ pc s' = WRaise 2 /\ reqs s' = reqs s /\ deliver_log s' = deliver_log s.
Proof. intros H. inv_step H; simpl; repeat split; auto. Qed.

Lemma c14_missing_id s arg s' :
  lst s = true -> step s (LRecv 1 arg) = Some s' ->
  pc s' = WRaise 2 /\ reqs s' = reqs s /\ deliver_log s' = deliver_log s.
Proof.
  intros Hl H. unfold step in H. destruct (is_idle (pc s)); [|discriminate]. simpl in H. rewrite Hl in H. simpl in H.
  injection H as <-. repeat split; reflexivity.
Qed.

(* a payload that is not XML is dropped: nothing changes *)
Lemma c14_nonxml_dropped s arg s' : step s (LRecv 5 arg) = Some s' -> s' = s.
Proof. intros H. inv_step H; simpl in *; try discriminate; reflexivity. Qed.

(* once an exception propagates (framing error, undecodable octets, unknown id, read error) the worker can only
   broadcast it: it delivers nothing, dequeues nothing and does not return to the idle loop *)
Lemma c14_raise_only s e l s' :
  pc s = WRaise e -> step s l = Some s' ->
  pc s' = WRaise e \/ (l = LErrBcast (bcast_code (closing s) e) /\ pc s' = WErrSnap (bcast_code (closing s) e)).
Proof.
  intros Hp H. destruct l; inv_step H; simpl in *; try congruence; auto.
  all: try (destruct (qualify s); simpl; auto).
  all: try solve [apply is_idle_true in E; congruence].
  all: try solve [right; apply N.eqb_eq in E0; injection Hp as <-; subst; auto].
Qed.

(* a framing break reaches every pending request: from the raise to the end of the broadcast there is no blocking
   label, and at the end every written, unanswered request is failed (this is c04_all_failed_after_broadcast) *)

(* ---------- group C: a stored reply is one the worker actually received ---------- *)
Record InvC (s : st) : Prop := {
  c_src : forall rid r i, rq s rid = Some r -> r_reply r = Some i -> In i (rlog s);
  c_look : forall i, pc s = WLookup i -> In i (rlog s);
  c_deliv : forall rid i, pc s = WDeliver rid i -> In i (rlog s)
}.

Lemma rlog_mono s l s' : step s l = Some s' -> forall i, In i (rlog s) -> In i (rlog s').
Proof.
  intros H i Hi. destruct l; inv_step H; simpl; auto.
  all: try (destruct (qualify s); simpl; auto).
  all: try (apply in_or_app; auto).
Qed.

Lemma InvC_init q : InvC (init q).
Proof.
  constructor; simpl; unfold rq; simpl; try (intros; discriminate).
  intros [|rid] r i; simpl; discriminate.
Qed.

Lemma InvC_step s l s' : InvC s -> step s l = Some s' -> InvC s'.
Proof.
  intros [Hs Hl Hd] H. pose proof (rlog_mono _ _ _ H) as Hm. constructor.
  - intros rid r' i Hr Hrep.
    destruct (rq_step _ _ _ _ _ H Hr) as [Hu|[(r & c & Hu & -> & _)|[(r & id & Hu & -> & Hpc)|[(r & e & rest & Hu & -> & _)|(_ & id & _ & ->)]]]];
      simpl in Hrep; try discriminate; eauto.
    injection Hrep as <-. eauto.
  - intros i Hp. destruct l; inv_step H; simpl in Hp |- *; try discriminate; try (apply Hm; simpl; eauto; fail); eauto.
    all: try (destruct (qualify s); simpl in Hp |- *; try discriminate; eauto).
    all: try solve [injection Hp as <-; apply in_or_app; right; simpl; auto].
    all: try solve [apply is_idle_true in E; congruence].
    all: try solve [exfalso; congruence].
  - intros rid i Hp. destruct l; inv_step H; simpl in Hp |- *; try discriminate; eauto.
    all: try (destruct (qualify s); simpl in Hp |- *; try discriminate; eauto).
    all: try solve [apply is_idle_true in E; congruence].
    all: try solve [exfalso; congruence].
    all: try solve [injection Hp as <- <-; apply N.eqb_eq in E0; subst; eapply Hl; eauto].
    all: try solve [apply in_or_app; left; eauto].
Qed.

Lemma reach_InvC s : reach s -> InvC s.
Proof. intros (q & ls & H). eapply (run_inv InvC InvC_step); [apply InvC_init|exact H]. Qed.

(* C03: replies are never invented: what a request holds was looked up for an inbound message with that id *)
Lemma c03_reply_was_received s rid r i : reach s -> rq s rid = Some r -> r_reply r = Some i -> In i (rlog s).
Proof. intros Hr. apply (c_src _ (reach_InvC _ Hr)). Qed.
