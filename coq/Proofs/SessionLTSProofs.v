(* SessionLTSProofs.v — invariants of the session LTS, by induction over all accepted label sequences. *)
From Coq Require Import Lia.
From NC Require Import Model.Base Model.SessionLTS.

Definition rq (s : st) (rid : nat) : option req := nth_error (reqs s) rid.

(* ---------- list helpers ---------- *)
Lemma nth_upd_same l i f : nth_error (upd l i f) i = option_map f (nth_error l i).
Proof. revert i; induction l as [|r l IH]; intros [|i]; simpl; auto. Qed.

Lemma nth_upd_other l i j f : i <> j -> nth_error (upd l i f) j = nth_error l j.
Proof.
  revert i j; induction l as [|r l IH]; intros [|i] [|j] H; simpl; auto; try congruence.
Qed.

Lemma length_upd l i f : length (upd l i f) = length l.
Proof. revert i; induction l as [|r l IH]; intros [|i]; simpl; auto. Qed.

Lemma map_id_upd l i f : (forall r, r_id (f r) = r_id r) -> map r_id (upd l i f) = map r_id l.
Proof.
  intros Hf. revert i; induction l as [|r l IH]; intros [|i]; simpl; auto; f_equal; auto.
Qed.

Lemma nth_upd l i j f :
  nth_error (upd l i f) j = if Nat.eqb i j then option_map f (nth_error l j) else nth_error l j.
Proof.
  destruct (Nat.eqb_spec i j) as [->|H]; [apply nth_upd_same|now apply nth_upd_other].
Qed.

Lemma memN_In x l : memN x l = true <-> In x l.
Proof.
  induction l as [|y l IH]; simpl; [split; [discriminate|tauto]|].
  rewrite orb_true_iff, IH, N.eqb_eq. split; intros [H|H]; auto.
Qed.

Lemma listN_eqb_eq a b : listN_eqb a b = true -> a = b.
Proof.
  revert b; induction a as [|x a IH]; intros [|y b]; simpl; try discriminate; auto.
  intros H. apply andb_true_iff in H as [H1 H2]. apply N.eqb_eq in H1. f_equal; auto.
Qed.

(* ---------- table helpers ---------- *)
Lemma tget_tset_same id v t : tget id (tset id v t) = Some v.
Proof.
  induction t as [|[k w] t IH]; simpl; [now rewrite N.eqb_refl|].
  destruct (N.eqb id k) eqn:E; simpl; rewrite E; auto.
Qed.

Lemma tget_tset_other id k v t : k <> id -> tget k (tset id v t) = tget k t.
Proof.
  intros Hn. induction t as [|[k' w] t IH]; simpl.
  - destruct (N.eqb_spec k id); congruence.
  - destruct (N.eqb id k') eqn:E; simpl.
    + apply N.eqb_eq in E; subst k'. destruct (N.eqb_spec k id); congruence.
    + destruct (N.eqb k k'); auto.
Qed.

Lemma tget_None id t : tget id t = None <-> ~ In id (map fst t).
Proof.
  induction t as [|[k w] t IH]; simpl; [tauto|].
  destruct (N.eqb_spec id k) as [->|Hn].
  - split; [discriminate|]. intros H; exfalso; apply H; auto.
  - rewrite IH. split; [intros H [H1|H1]; [congruence|auto]|tauto].
Qed.

Lemma tget_Some_In id t v : tget id t = Some v -> In (id, v) t.
Proof.
  induction t as [|[k w] t IH]; simpl; [discriminate|].
  destruct (N.eqb_spec id k) as [->|Hn]; [intros [= ->]; auto|auto].
Qed.

Lemma tget_In_snd id t v : tget id t = Some v -> In v (map snd t).
Proof. intros H. apply tget_Some_In in H. apply (in_map snd) in H. exact H. Qed.

Lemma keys_tset id v t :
  map fst (tset id v t) = if memN id (map fst t) then map fst t else map fst t ++ [id].
Proof.
  induction t as [|[k w] t IH]; simpl; [reflexivity|].
  destruct (N.eqb id k) eqn:E; simpl; [reflexivity|].
  rewrite IH. destruct (memN id (map fst t)); reflexivity.
Qed.

Lemma NoDup_keys_tset id v t : NoDup (map fst t) -> NoDup (map fst (tset id v t)).
Proof.
  intros H. rewrite keys_tset. destruct (memN id (map fst t)) eqn:E; [exact H|].
  assert (Hn : ~ In id (map fst t)) by (intros Hin; apply memN_In in Hin; congruence).
  clear E. induction (map fst t) as [|a l IH]; simpl; [constructor; [tauto|constructor]|].
  inversion H; subst. constructor.
  - rewrite in_app_iff. simpl. intros [H1|[H1|[]]]; [contradiction|]. subst. apply Hn. simpl; auto.
  - apply IH; auto. intros Hin. apply Hn. simpl; auto.
Qed.

Lemma tget_tdel_other id k t : k <> id -> tget k (tdel id t) = tget k t.
Proof.
  intros Hn. induction t as [|[k' w] t IH]; simpl; [reflexivity|].
  destruct (N.eqb_spec id k') as [->|Hn2]; simpl.
  - destruct (N.eqb_spec k k'); congruence.
  - destruct (N.eqb k k'); auto.
Qed.

Lemma keys_tdel_incl id t x : In x (map fst (tdel id t)) -> In x (map fst t).
Proof.
  induction t as [|[k w] t IH]; simpl; [tauto|].
  destruct (N.eqb id k); simpl; [auto|]. intros [H|H]; auto.
Qed.

Lemma NoDup_keys_tdel id t : NoDup (map fst t) -> NoDup (map fst (tdel id t)).
Proof.
  induction t as [|[k w] t IH]; simpl; intros H; [constructor|].
  inversion H; subst. destruct (N.eqb id k); simpl; [assumption|].
  constructor; [|auto]. intros Hin. apply keys_tdel_incl in Hin. contradiction.
Qed.

Lemma tget_tdel_same id t : NoDup (map fst t) -> tget id (tdel id t) = None.
Proof.
  induction t as [|[k w] t IH]; simpl; intros H; [reflexivity|].
  inversion H; subst. destruct (N.eqb_spec id k) as [->|Hn]; simpl.
  - apply tget_None. assumption.
  - destruct (N.eqb_spec id k); [congruence|]. auto.
Qed.

Lemma tget_tdel_None id k t : tget k t = None -> tget k (tdel id t) = None.
Proof.
  rewrite !tget_None. intros H Hin. apply H. eapply keys_tdel_incl; eauto.
Qed.

(* unique ids: two requests with one id are the same request *)
Lemma ids_inj (l : list req) i j ri rj :
  NoDup (map r_id l) -> nth_error l i = Some ri -> nth_error l j = Some rj -> r_id ri = r_id rj -> i = j.
Proof.
  intros Hnd Hi Hj He.
  assert (Hi' : nth_error (map r_id l) i = Some (r_id ri)) by (rewrite nth_error_map, Hi; reflexivity).
  assert (Hj' : nth_error (map r_id l) j = Some (r_id ri)) by (rewrite nth_error_map, Hj, He; reflexivity).
  eapply (proj1 (NoDup_nth_error (map r_id l)) Hnd).
  - apply nth_error_Some. congruence.
  - congruence.
Qed.

Lemma nth_app_new {A} (l : list A) x i r :
  nth_error (l ++ [x]) i = Some r -> (nth_error l i = Some r /\ (i < length l)%nat) \/ (i = length l /\ r = x).
Proof.
  intros H. destruct (Nat.lt_ge_cases i (length l)) as [Hl|Hl].
  - rewrite nth_error_app1 in H by assumption. auto.
  - rewrite nth_error_app2 in H by assumption.
    destruct (i - length l)%nat as [|k] eqn:E; simpl in H.
    + injection H as <-. right. split; [lia|reflexivity].
    + destruct k; discriminate.
Qed.

(* ---------- inversion of one step ---------- *)
Ltac inv_step H :=
  unfold step in H;
  repeat match type of H with
  | context [match ?x with _ => _ end] =>
      let E := fresh "E" in destruct x eqn:E; try discriminate H
  end;
  try (injection H as <-).

Lemma set_st_id c r : r_id (set_st c r) = r_id r.  Proof. reflexivity. Qed.
Lemma set_reply_id i r : r_id (set_reply i r) = r_id r.  Proof. reflexivity. Qed.
Lemma set_error_id e r : r_id (set_error e r) = r_id r.  Proof. reflexivity. Qed.

(* ---------- group A: structural invariants ---------- *)
Definition pend_notif (p : wpc) : list N := match p with WNotif n => [n] | _ => [] end.

Record InvA (s : st) : Prop := {
  a_ids : NoDup (map r_id (reqs s));
  a_keys : NoDup (map fst (table s));
  a_tab : forall id rid, tget id (table s) = Some rid -> exists r, rq s rid = Some r /\ r_id r = id;
  a_wrote : forall rid, In rid (wrote s) -> (rid < length (reqs s))%nat;
  a_outq : forall rid, In rid (outq s) -> (rid < length (reqs s))%nat;
  a_conn : closing s = true -> connected s = false;
  a_stop : pc s = WClosed \/ pc s = WExited -> connected s = false;
  a_notif : taken s ++ nq s ++ pend_notif (pc s) = recv_notifs s;
  a_clear : forall e rids, pc s = WErrClear e rids -> rids = map snd (table s);
  a_pcdel : forall rid id, pc s = WDeliver rid id -> tget id (table s) = Some rid
}.

Lemma InvA_init q : InvA (init q).
Proof.
  constructor; simpl; try (intros; discriminate); try (intros; contradiction); try constructor;
    try (intros [H|H]; discriminate); try reflexivity.
Qed.

Lemma tget_tdel_Some id k v t : NoDup (map fst t) -> tget k (tdel id t) = Some v -> tget k t = Some v /\ k <> id.
Proof.
  intros Hnd H. destruct (N.eq_dec k id) as [->|Hn].
  - rewrite tget_tdel_same in H by assumption. discriminate.
  - rewrite tget_tdel_other in H by assumption. auto.
Qed.

Lemma NoDup_app_one (l : list N) x : NoDup l -> ~ In x l -> NoDup (l ++ [x]).
Proof.
  intros Hnd Hn. induction l as [|a l IH]; simpl; [constructor; [tauto|constructor]|].
  inversion Hnd; subst. constructor.
  - rewrite in_app_iff. simpl. intros [H|[H|[]]]; [contradiction|]. subst. apply Hn. simpl; auto.
  - apply IH; auto. intros H. apply Hn. simpl; auto.
Qed.

(* requests keep their ids under the three record updates *)
Lemma rq_upd_id s rid f rid' r' :
  (forall r, r_id (f r) = r_id r) ->
  nth_error (upd (reqs s) rid f) rid' = Some r' ->
  exists r, nth_error (reqs s) rid' = Some r /\ r_id r = r_id r'.
Proof.
  intros Hf H. rewrite nth_upd in H. destruct (Nat.eqb rid rid').
  - destruct (nth_error (reqs s) rid') as [r|]; simpl in H; [|discriminate].
    injection H as <-. exists r. split; [reflexivity|]. symmetry. apply Hf.
  - eauto.
Qed.

Lemma rq_upd_ex s rid f rid' r :
  (forall r, r_id (f r) = r_id r) ->
  nth_error (reqs s) rid' = Some r ->
  exists r', nth_error (upd (reqs s) rid f) rid' = Some r' /\ r_id r' = r_id r.
Proof.
  intros Hf H. rewrite nth_upd. destruct (Nat.eqb rid rid').
  - rewrite H. simpl. eauto.
  - eauto.
Qed.

Ltac triv := simpl in *; try solve [assumption | congruence | tauto | (intros; discriminate) | (intros; congruence)].

Lemma reg_guard s rid id :
  (rid =? length (reqs s))%nat && negb (memN id (map r_id (reqs s))) && negb (holds_tlock (pc s)) = true ->
  rid = length (reqs s) /\ ~ In id (map r_id (reqs s)) /\ holds_tlock (pc s) = false.
Proof.
  intros H. apply andb_true_iff in H as [H H3]. apply andb_true_iff in H as [H1 H2].
  apply Nat.eqb_eq in H1. apply negb_true_iff in H2. apply negb_true_iff in H3.
  repeat split; auto. intros Hin. apply memN_In in Hin. congruence.
Qed.

Lemma a_ids_step s l s' : InvA s -> step s l = Some s' -> NoDup (map r_id (reqs s')).
Proof.
  intros [Hids Hkeys Htab Hwr Hoq Hconn Hstop Hnot Hclr Hdel] H.
  destruct l; inv_step H; triv.
  all: try (rewrite map_id_upd by (intros; reflexivity); assumption).
  all: try (destruct (qualify s); triv).
  all: apply reg_guard in E as (-> & Hn & _); rewrite map_app; simpl; apply NoDup_app_one; assumption.
Qed.

Lemma a_keys_step s l s' : InvA s -> step s l = Some s' -> NoDup (map fst (table s')).
Proof.
  intros [Hids Hkeys Htab Hwr Hoq Hconn Hstop Hnot Hclr Hdel] H.
  destruct l; inv_step H; triv.
  all: try (destruct (qualify s); triv).
  all: try (apply NoDup_keys_tset; assumption).
  all: try (apply NoDup_keys_tdel; assumption).
  all: try constructor.
Qed.


Lemma a_tab_step s l s' : InvA s -> step s l = Some s' ->
  forall id rid, tget id (table s') = Some rid -> exists r, rq s' rid = Some r /\ r_id r = id.
Proof.
  intros [Hids Hkeys Htab Hwr Hoq Hconn Hstop Hnot Hclr Hdel] H.
  unfold rq in *.
  destruct l; inv_step H; triv.
  all: try (destruct (qualify s); triv).
  all: try (intros xid xrid Hg; destruct (Htab _ _ Hg) as (xr & Hxr & Hxid);
            match goal with |- exists _, nth_error (upd _ ?rid ?f) _ = _ /\ _ =>
              destruct (rq_upd_ex s rid f xrid xr (fun _ => eq_refl) Hxr) as (r' & Hr' & Hid') end;
            exists r'; split; [exact Hr'|congruence]).
  all: try (apply reg_guard in E as (-> & Hn & _); intros xid xrid Hg;
    destruct (N.eq_dec xid id) as [->|Hne];
    [ rewrite tget_tset_same in Hg; injection Hg as <-;
      rewrite nth_error_app2 by lia; rewrite Nat.sub_diag; simpl; eauto
    | rewrite tget_tset_other in Hg by assumption;
      destruct (Htab _ _ Hg) as (xr & Hxr & Hxid); exists xr; split; [|assumption];
      rewrite nth_error_app1; [assumption|]; apply nth_error_Some; congruence ]).
  all: try (intros xid xrid Hg; apply tget_tdel_Some in Hg as [Hg _]; [|assumption]; eauto).
  all: try (intros xid xrid Hg; eauto).
Qed.

Lemma a_wrote_step s l s' : InvA s -> step s l = Some s' ->
  (forall rid, In rid (wrote s') -> (rid < length (reqs s'))%nat) /\
  (forall rid, In rid (outq s') -> (rid < length (reqs s'))%nat).
Proof.
  intros [Hids Hkeys Htab Hwr Hoq Hconn Hstop Hnot Hclr Hdel] H.
  destruct l; inv_step H; simpl; try rewrite length_upd; try (split; assumption).
  all: try (destruct (qualify s); simpl; split; assumption).
  all: try (rewrite app_length; simpl; split; intros xr Hr; [apply Hwr in Hr|apply Hoq in Hr]; lia).
  - (* LPut *) split; [assumption|]. intros xr Hr. apply in_app_iff in Hr as [Hr|[<-|[]]]; [auto|].
    apply nth_error_Some. congruence.
  - (* LDeq *) apply Nat.eqb_eq in E1; subst. split.
    + intros xr Hr. apply in_app_iff in Hr as [Hr|[<-|[]]]; [auto|]. apply Hoq. simpl; auto.
    + intros xr Hr. apply Hoq. simpl; auto.
Qed.

Lemma a_flags_step s l s' : InvA s -> step s l = Some s' ->
  (closing s' = true -> connected s' = false) /\
  (pc s' = WClosed \/ pc s' = WExited -> connected s' = false).
Proof.
  intros [Hids Hkeys Htab Hwr Hoq Hconn Hstop Hnot Hclr Hdel] H.
  destruct l; inv_step H; simpl; try (split; [assumption|]).
  all: try (destruct (qualify s); simpl).
  all: try (split; [assumption|]).
  all: try solve [intros [Hx|Hx]; discriminate Hx].
  all: try solve [split; intros; reflexivity].
  all: try solve [intros Hx; apply Hstop; rewrite ?E, ?E0, ?E1 in *; exact Hx].
  all: try solve [intros _; apply Hconn; assumption].
  all: try solve [intros _; apply Hstop; left; reflexivity].
  all: try solve [intros Hx; apply Hstop; exact Hx].
  all: try solve [split; intros _; first [apply Hconn; reflexivity | apply Hstop; auto]].
Qed.

Lemma is_idle_true p : is_idle p = true -> p = WIdle.
Proof. destruct p; simpl; congruence. Qed.

Lemma a_notif_step s l s' : InvA s -> step s l = Some s' ->
  taken s' ++ nq s' ++ pend_notif (pc s') = recv_notifs s'.
Proof.
  intros [Hids Hkeys Htab Hwr Hoq Hconn Hstop Hnot Hclr Hdel] H.
  destruct l; inv_step H; simpl in *; try assumption.
  all: try (apply is_idle_true in E; rewrite E in Hnot; simpl in Hnot).
  all: try (destruct (qualify s); simpl; rewrite ?E in *; simpl in *; assumption).
  all: try (rewrite ?app_nil_r in *; assumption).
  - (* LRecv notification *) rewrite <- Hnot, !app_nil_r, app_assoc. reflexivity.
  - (* LNqPut *) apply N.eqb_eq in E0; subst. rewrite <- Hnot, app_nil_r. reflexivity.
  - (* LTake *) apply N.eqb_eq in E1; subst. rewrite <- Hnot, <- app_assoc. reflexivity.
Qed.

Lemma a_pcs_step s l s' : InvA s -> step s l = Some s' ->
  (forall e rids, pc s' = WErrClear e rids -> rids = map snd (table s')) /\
  (forall rid id, pc s' = WDeliver rid id -> tget id (table s') = Some rid).
Proof.
  intros [Hids Hkeys Htab Hwr Hoq Hconn Hstop Hnot Hclr Hdel] H.
  destruct l; inv_step H; simpl in *.
  all: try (destruct (qualify s); simpl).
  all: try (split; assumption).
  all: try solve [split; intros; discriminate].
  all: try solve [split; intros ? ? Hx; rewrite ?E, ?E0 in *; first [discriminate Hx | eauto]].
  all: try solve [split; intros ? ? Hx; [injection Hx as <- <-; reflexivity | discriminate Hx]].
  all: try (apply reg_guard in E as (-> & Hn & Hl); split; intros ? ? Hx; rewrite Hx in Hl; discriminate Hl).
  all: try solve [split; intros ? ? Hx; [discriminate Hx | injection Hx as <- <-; assumption]].

Qed.

Lemma InvA_step s l s' : InvA s -> step s l = Some s' -> InvA s'.
Proof.
  intros HI H.
  destruct (a_wrote_step _ _ _ HI H) as [Hw Ho].
  destruct (a_flags_step _ _ _ HI H) as [Hc Hs].
  destruct (a_pcs_step _ _ _ HI H) as [Hcl Hd].
  constructor; auto.
  - eapply a_ids_step; eauto.
  - eapply a_keys_step; eauto.
  - eapply a_tab_step; eauto.
  - eapply a_notif_step; eauto.
Qed.

(* reachable states: all label sequences accepted from the initial state *)
Definition reach (s : st) : Prop := exists q ls, run (init q) ls = Some s.

Lemma run_app s ls1 ls2 :
  run s (ls1 ++ ls2) = match run s ls1 with Some s1 => run s1 ls2 | None => None end.
Proof.
  revert s; induction ls1 as [|l ls1 IH]; intros s; simpl; [reflexivity|].
  destruct (step s l); [apply IH|reflexivity].
Qed.

Lemma run_inv (P : st -> Prop) :
  (forall s l s', P s -> step s l = Some s' -> P s') ->
  forall ls s s', P s -> run s ls = Some s' -> P s'.
Proof.
  intros Hstep ls; induction ls as [|l ls IH]; intros s s' HP H; simpl in H.
  - injection H as <-. exact HP.
  - destruct (step s l) as [s1|] eqn:E; [|discriminate]. eapply IH; [|exact H]. eapply Hstep; eauto.
Qed.

Lemma reach_InvA s : reach s -> InvA s.
Proof. intros (q & ls & H). eapply (run_inv InvA InvA_step); [apply InvA_init|exact H]. Qed.

(* ---------- group B: delivery, failure and notification invariants ---------- *)
Definition pc_rids (p : wpc) : list nat :=
  match p with WErrClear _ r | WErrDeliver _ r => r | _ => [] end.
Definition after_clear (p : wpc) : bool :=
  match p with WErrDeliver _ _ | WClosed | WExited => true | _ => false end.
Definition errphase (p : wpc) : bool :=
  match p with WErrSnap _ | WErrClear _ _ | WErrDeliver _ _ | WClosed | WExited => true | _ => false end.

Definition pcode (p : wpc) : option exc :=
  match p with WErrSnap e | WErrClear e _ | WErrDeliver e _ => Some e | _ => None end.

Record InvB (s : st) : Prop := {
  b_own : forall rid r i, rq s rid = Some r -> r_reply r = Some i -> i = r_id r;
  b_wdel : forall id, pc s = WDel id -> exists rid r, rq s rid = Some r /\ r_id r = id /\ r_reply r <> None;
  b_dlog : NoDup (deliver_log s);
  b_dlog2 : forall rid, In rid (deliver_log s) ->
            exists r, rq s rid = Some r /\ r_reply r <> None /\
                      (tget (r_id r) (table s) = None \/ pc s = WDel (r_id r));
  b_pend : forall rid r, rq s rid = Some r -> r_reply r = None -> r_error r = None ->
           tget (r_id r) (table s) = Some rid \/ In rid (pc_rids (pc s));
  b_late : after_clear (pc s) = true -> forall id rid, tget id (table s) = Some rid -> ~ In rid (wrote s);
  b_ev : forall rid r, rq s rid = Some r -> (r_ev r = true <-> (r_reply r <> None \/ r_error r <> None));
  b_done : forall rid r i, rq s rid = Some r -> r_st r = CDone (OReply i) -> r_reply r = Some i;
  b_err : forall rid r e, rq s rid = Some r -> r_error r = Some e -> bcast s = Some e;
  b_pce : forall e, pcode (pc s) = Some e -> bcast s = Some e;
  b_bc : bcast s <> None -> errphase (pc s) = true;
  b_eof : eof_seen s = true ->
          (errphase (pc s) = true \/ pc s = WRaise 1) /\ (forall e, bcast s = Some e -> e = 1)
}.

(* what a request looks like after one step: either untouched, or one of the four updates *)
Lemma rq_step s l s' rid r' :
  step s l = Some s' -> rq s' rid = Some r' ->
  (rq s rid = Some r') \/
  (exists r c, rq s rid = Some r /\ r' = set_st c r /\
     (forall i, c = CDone (OReply i) -> r_reply r = Some i)) \/
  (exists r id, rq s rid = Some r /\ r' = set_reply id r /\ pc s = WDeliver rid id) \/
  (exists r e rest, rq s rid = Some r /\ r' = set_error e r /\ pc s = WErrDeliver e (rid :: rest)) \/
  (rq s rid = None /\ exists id, l = LReg rid id /\ r' = {| r_id := id; r_st := CReg; r_reply := None; r_error := None; r_ev := false |}).
Proof.
  intros H Hr. unfold rq in *.
  destruct l; inv_step H; simpl in *; auto.
  all: try (destruct (qualify s); simpl in *; auto).
  all: try (rewrite nth_upd in Hr;
            match type of Hr with context [Nat.eqb ?a ?b] => destruct (Nat.eqb_spec a b) as [->|Hne] end;
            [|auto];
            match type of Hr with context [option_map _ (nth_error ?ll ?k)] => destruct (nth_error ll k) as [r0|] eqn:Er0 end;
            simpl in Hr; [injection Hr as <-|discriminate Hr]).
  all: try (apply reg_guard in E as (-> & Hn & _); apply nth_app_new in Hr as [[Hr _]|[-> ->]];
            [auto|right; right; right; right; split; [apply nth_error_None; lia|eauto]]).
  all: try solve [right; left; do 2 eexists; split; [reflexivity|split; [reflexivity|intros i Hc; discriminate Hc]]].
  all: try solve [right; left; do 2 eexists; split; [reflexivity|split; [reflexivity|
         intros i Hc; injection Hc as Hc; injection E as ->; unfold wait_outcome in Hc;
         destruct flag; [destruct (r_error r); [discriminate|destruct (r_reply r); congruence]|discriminate]]]].
  all: try solve [right; right; left; do 2 eexists; split; [reflexivity|split; [reflexivity|
         match goal with Hq : (_ =? _)%nat = true |- _ => apply Nat.eqb_eq in Hq; subst end; assumption]]].
  all: try solve [right; right; right; left; do 3 eexists; split; [reflexivity|split; [reflexivity|
         match goal with Hq : (_ =? _)%nat = true |- _ => apply Nat.eqb_eq in Hq; subst end; reflexivity]]].
  all: try solve [apply Nat.eqb_eq in E0; subst; right; right; left; do 2 eexists; split; [reflexivity|split; reflexivity]].
  all: try solve [apply Nat.eqb_eq in E1; subst; right; right; right; left; do 3 eexists; split; [reflexivity|split; reflexivity]].
Qed.

Lemma deliver_id s rid id r :
  InvA s -> pc s = WDeliver rid id -> rq s rid = Some r -> r_id r = id.
Proof.
  intros HA Hpc Hr. apply (a_pcdel _ HA) in Hpc. apply (a_tab _ HA) in Hpc as (r2 & Hr2 & Hid).
  congruence.
Qed.

Lemma b_own_step s l s' : InvA s -> InvB s -> step s l = Some s' ->
  forall rid r i, rq s' rid = Some r -> r_reply r = Some i -> i = r_id r.
Proof.
  intros HA HB H rid r' i Hr Hrep.
  destruct (rq_step _ _ _ _ _ H Hr) as [Hu|[(r & c & Hu & -> & _)|[(r & id & Hu & -> & Hpc)|[(r & e & rest & Hu & -> & _)|(_ & id & _ & ->)]]]].
  - eapply (b_own _ HB); eauto.
  - simpl in *. eapply (b_own _ HB); eauto.
  - simpl in *. injection Hrep as <-. symmetry. eapply deliver_id; eauto.
  - simpl in *. eapply (b_own _ HB); eauto.
  - discriminate.
Qed.

Lemma b_done_step s l s' : InvA s -> InvB s -> step s l = Some s' ->
  forall rid r i, rq s' rid = Some r -> r_st r = CDone (OReply i) -> r_reply r = Some i.
Proof.
  intros HA HB H rid r' i Hr Hst.
  destruct (rq_step _ _ _ _ _ H Hr) as [Hu|[(r & c & Hu & -> & Hc)|[(r & id & Hu & -> & Hpc)|[(r & e & rest & Hu & -> & _)|(_ & id & _ & ->)]]]].
  - eapply (b_done _ HB); eauto.
  - simpl in *. auto.
  - simpl in *. pose proof (b_done _ HB _ _ _ Hu Hst) as Hd.
    pose proof (b_own _ HB _ _ _ Hu Hd) as ->. f_equal. symmetry. eapply deliver_id; eauto.
  - simpl in *. eapply (b_done _ HB); eauto.
  - discriminate.
Qed.

Lemma b_ev_step s l s' : InvA s -> InvB s -> step s l = Some s' ->
  forall rid r, rq s' rid = Some r -> (r_ev r = true <-> (r_reply r <> None \/ r_error r <> None)).
Proof.
  intros HA HB H rid r' Hr.
  destruct (rq_step _ _ _ _ _ H Hr) as [Hu|[(r & c & Hu & -> & Hc)|[(r & id & Hu & -> & Hpc)|[(r & e & rest & Hu & -> & _)|(_ & id & _ & ->)]]]].
  - eapply (b_ev _ HB); eauto.
  - simpl. eapply (b_ev _ HB); eauto.
  - simpl. split; [intros _; left; discriminate|reflexivity].
  - simpl. split; [intros _; right; discriminate|reflexivity].
  - simpl. split; [discriminate|intros [Hx|Hx]; congruence].
Qed.

Lemma errphase_step s l s' : step s l = Some s' -> errphase (pc s) = true -> errphase (pc s') = true.
Proof.
  intros H He. destruct l; inv_step H; simpl in *; try assumption; try congruence.
  all: try (destruct (qualify s); simpl; congruence).
  all: try (rewrite ?E in He; simpl in He; congruence).
  all: try (apply is_idle_true in E; rewrite E in He; simpl in He; congruence).
Qed.

Lemma bcast_step s l s' : step s l = Some s' ->
  (bcast s' = bcast s /\ eof_seen s' = eof_seen s /\ forall e, l <> LErrBcast e /\ l <> LReadEof) \/
  (exists e, l = LErrBcast e /\ bcast s' = Some e /\ eof_seen s' = eof_seen s /\ pc s' = WErrSnap e /\
             (pc s = WRaise e \/ (pc s = WIdle /\ e = 1))) \/
  (l = LReadEof /\ bcast s' = bcast s /\ eof_seen s' = true /\ pc s = WIdle /\ pc s' = WRaise 1).
Proof.
  intros H. destruct l; inv_step H; simpl in *.
  all: try (destruct (qualify s); simpl).
  all: try solve [left; repeat split; intros; discriminate].
  all: try solve [right; right; apply is_idle_true in E; auto].
  all: try solve [right; left; apply N.eqb_eq in E0; subst; eexists; repeat split; auto].
  all: try solve [right; left; apply andb_true_iff in E0 as [_ E0]; apply N.eqb_eq in E0; subst; eexists; repeat split; auto].
Qed.

Lemma pcode_pres s l s' e :
  step s l = Some s' -> (forall e0, l <> LErrBcast e0) -> pcode (pc s') = Some e -> pcode (pc s) = Some e.
Proof.
  intros H Hl Hp. destruct l; inv_step H; simpl in *; try assumption; try discriminate.
  all: try (destruct (qualify s); simpl in *; try assumption; try discriminate).
  all: try (exfalso; eapply Hl; reflexivity).
  all: try (rewrite ?E in Hp; simpl in Hp; congruence).
  all: try (apply is_idle_true in E; rewrite E in Hp; simpl in Hp; congruence).
Qed.

Lemma raise_pres s l s' e :
  step s l = Some s' -> (forall e0, l <> LErrBcast e0) -> pc s = WRaise e -> pc s' = WRaise e.
Proof.
  intros H Hl Hp. destruct l; inv_step H; simpl in *; try assumption; try congruence.
  all: try (destruct (qualify s); simpl in *; try assumption; try congruence).
  all: try (apply is_idle_true in E; congruence).
  all: try (exfalso; eapply Hl; reflexivity).
Qed.

Lemma b_bcast_step s l s' : InvA s -> InvB s -> step s l = Some s' ->
  (forall rid r e, rq s' rid = Some r -> r_error r = Some e -> bcast s' = Some e) /\
  (forall e, pcode (pc s') = Some e -> bcast s' = Some e) /\
  (bcast s' <> None -> errphase (pc s') = true) /\
  (eof_seen s' = true ->
     (errphase (pc s') = true \/ pc s' = WRaise 1) /\ (forall e, bcast s' = Some e -> e = 1)).
Proof.
  intros HA HB H.
  destruct (bcast_step _ _ _ H) as [(Hb & Hf & Hl)|[(e0 & -> & Hb & Hf & Hp' & Hp)|(-> & Hb & Hf & Hp & Hp')]].
  - (* bcast unchanged, not a broadcast, not EOF *)
    assert (Hl1 : forall e1, l <> LErrBcast e1) by (intros e1; apply (Hl e1)).
    repeat split.
    + intros rid r' e Hr He. rewrite Hb.
      destruct (rq_step _ _ _ _ _ H Hr) as [Hu|[(r & c & Hu & -> & _)|[(r & id & Hu & -> & Hpc)|[(r & e1 & rest & Hu & -> & Hpc)|(_ & id & _ & ->)]]]];
        simpl in He; try (eapply (b_err _ HB); eauto; fail); try discriminate.
      injection He as ->. apply (b_pce _ HB). rewrite Hpc. reflexivity.
    + intros e He. rewrite Hb. apply (b_pce _ HB). eapply pcode_pres; eauto.
    + intros Hn. rewrite Hb in Hn. eapply errphase_step; eauto. apply (b_bc _ HB). exact Hn.
    + rewrite Hf in H0. destruct (proj1 (b_eof _ HB H0)) as [He|He].
      * left. eapply errphase_step; eauto.
      * right. eapply raise_pres; eauto.
    + intros e He. rewrite Hf in H0. rewrite Hb in He. apply (proj2 (b_eof _ HB H0)). exact He.
  - (* the broadcast itself *)
    assert (Hnone : bcast s = None).
    { destruct (bcast s) eqn:Eb; [|reflexivity]. exfalso.
      assert (Hx : errphase (pc s) = true) by (apply (b_bc _ HB); congruence).
      destruct Hp as [Hp|[Hp _]]; rewrite Hp in Hx; discriminate. }
    repeat split.
    + intros rid r' e Hr He. exfalso.
      destruct (rq_step _ _ _ _ _ H Hr) as [Hu|[(r & c & Hu & -> & _)|[(r & id & Hu & -> & Hpc)|[(r & e1 & rest & Hu & -> & Hpc)|(_ & id & Hx & _)]]]];
        simpl in He; try (pose proof (b_err _ HB _ _ _ Hu He); congruence); try discriminate.
      destruct Hp as [Hp|[Hp _]]; congruence.
    + intros e He. rewrite Hp' in He. simpl in He. congruence.
    + intros _. rewrite Hp'. reflexivity.
    + left. rewrite Hp'. reflexivity.
    + intros e He. rewrite Hb in He. injection He as <-. rewrite Hf in H0.
      destruct (proj1 (b_eof _ HB H0)) as [Hx|Hx].
      * destruct Hp as [Hp|[Hp _]]; rewrite Hp in Hx; discriminate.
      * destruct Hp as [Hp|[Hp He1]]; [congruence|assumption].
  - (* end of file read *)
    assert (Hnone : bcast s = None).
    { destruct (bcast s) eqn:Eb; [|reflexivity]. exfalso.
      assert (Hx : errphase (pc s) = true) by (apply (b_bc _ HB); congruence).
      rewrite Hp in Hx. discriminate. }
    repeat split.
    + intros rid r' e Hr He. exfalso.
      destruct (rq_step _ _ _ _ _ H Hr) as [Hu|[(r & c & Hu & -> & _)|[(r & id & Hu & -> & Hpc)|[(r & e1 & rest & Hu & -> & Hpc)|(_ & id & Hx & _)]]]];
        simpl in He; try (pose proof (b_err _ HB _ _ _ Hu He); congruence); try discriminate; congruence.
    + intros e He. rewrite Hp' in He. discriminate.
    + intros Hn. congruence.
    + right. exact Hp'.
    + intros e He. congruence.
Qed.

(* requests persist; their id is constant; a stored reply / error stays stored *)
Lemma rq_pres s l s' rid r :
  step s l = Some s' -> rq s rid = Some r ->
  exists r', rq s' rid = Some r' /\ r_id r' = r_id r /\
             (r_reply r <> None -> r_reply r' <> None) /\ (r_error r <> None -> r_error r' <> None) /\
             (r' = r \/ exists f, r' = f r /\ (f = set_st (r_st r') \/ (exists i, f = set_reply i) \/ (exists e, f = set_error e))).
Proof.
  intros H Hr. unfold rq in *.
  destruct l; inv_step H; simpl in *.
  all: try (destruct (qualify s); simpl in * ).
  all: try solve [exists r; repeat split; auto].
  all: try (rewrite nth_upd;
            match goal with |- context [Nat.eqb ?a ?b] => destruct (Nat.eqb_spec a b) as [->|Hne] end;
            [rewrite Hr; simpl; eexists; split; [reflexivity|]; simpl; repeat split; auto; try discriminate
            |exists r; repeat split; auto]).
  all: try solve [right; eexists; split; [reflexivity|]; simpl; eauto].
  all: try (exists r; split; [rewrite nth_error_app1; [assumption|apply nth_error_Some; congruence]|repeat split; auto]).
  Show.
Qed.

Lemma b_wdel_step s l s' : InvA s -> InvB s -> step s l = Some s' ->
  forall id, pc s' = WDel id -> exists rid r, rq s' rid = Some r /\ r_id r = id /\ r_reply r <> None.
Proof.
  intros HA HB H id Hpc'.
  assert (Hkeep : pc s = WDel id -> exists rid r, rq s' rid = Some r /\ r_id r = id /\ r_reply r <> None).
  { intros Hpc. destruct (b_wdel _ HB _ Hpc) as (rid1 & r1 & Hr1 & Hid1 & Hrep1).
    destruct (rq_pres _ _ _ _ _ H Hr1) as (r' & Hr' & Hid' & Hrep' & _).
    exists rid1, r'; repeat split; [exact Hr'|congruence|auto]. }
  destruct l; inv_step H; simpl in Hpc'; try discriminate; try (apply Hkeep; assumption).
  all: try (destruct (qualify s); simpl in Hpc'; try discriminate; try (apply Hkeep; assumption)).
  all: try (exfalso; congruence).
  all: try (apply is_idle_true in E; exfalso; congruence).
  (* LEvSetReply *)
  all: apply Nat.eqb_eq in E0; subst; injection Hpc' as <-;
  pose proof (a_pcdel _ HA _ _ E) as Hg; destruct (a_tab _ HA _ _ Hg) as (r1 & Hr1 & Hid1);
  unfold rq in *; simpl; exists rid0, (set_reply id0 r1); rewrite nth_upd_same, Hr1; simpl;
  repeat split; [assumption|discriminate].
Qed.
