(* CarriesVendorProofs.v — the carries theorem of the 30 vendor operation classes (Spec/CarriesVendor.v):
   vop_node c = P3 (POk op)  ->  op = the template of (verase c) filled with (vvalues c), every hole once. *)
From Coq Require Import String List Arith Lia ZArith Bool.
From NC Require Import Model.Base Model.Lit Model.Xml Model.Gating Model.Builders Model.VendorBuilders.
From NC Require Import Spec.Rfc6241Schema Spec.Template Spec.CarriesBase Spec.CarriesVendor.
From NC Require Import Proofs.BaseFacts Proofs.BuildersProofs Proofs.TemplateProofs Proofs.CarriesProofs.
Import ListNotations.

(* ---------------- pieces ---------------- *)
Lemma real_otext o cs : otext o = POk cs -> realizes (otextT (e_ostr o)) (v_ostr o) cs.
Proof.
  destruct o as [s|]; simpl; intros H.
  - apply text_children_ok in H. subst. apply realizes_text.
  - injection H as <-. apply realizes_none.
Qed.

Lemma real_tleaf q o t : tleaf q o = POk t -> realizes (tleafT q (e_ostr o)) (v_ostr o) [t].
Proof.
  unfold tleaf. intros H. inv H. injection H as <-.
  apply (realizes_el0 q []); [reflexivity|now apply real_otext].
Qed.

Lemma as_elem_ok x t : as_elem x = POk t -> x = EElem t.
Proof. destruct x as [[q a cs|s]|s]; simpl; intros H; try discriminate. now injection H as <-. Qed.

Lemma as_text_ok x cs : as_text x = POk cs -> exists s, x = EStr s /\ cs = text_nodes s.
Proof.
  destruct x as [t|s]; simpl; intros H; [discriminate|]. apply text_children_ok in H. eauto.
Qed.

Lemma as_doc_ok x t : as_doc x = POk t -> x = DocTree t.
Proof. destruct x as [[q a cs|s]|e]; simpl; intros H; try discriminate. now injection H as <-. Qed.

Lemma real_doc x t : as_doc x = POk t -> realizes (docT (e_doc x)) (v_doc x) [t].
Proof. intros H. apply as_doc_ok in H. subst. simpl. rewrite <- (apply_id t) at 2. apply realizes_frag. Qed.

Lemma real_elem x t : as_elem x = POk t -> realizes (fragT XId) (v_elarg x) [t].
Proof. intros H. apply as_elem_ok in H. subst. simpl. rewrite <- (apply_id t) at 2. apply realizes_frag. Qed.

Lemma real_astext x cs : as_text x = POk cs -> realizes textT (v_elarg x) cs.
Proof. intros H. apply as_text_ok in H as (s & -> & ->). apply realizes_text. Qed.

Lemma leaves_ok q l : forall ts, leaves q l = POk ts -> ts = map (fun s => Elem q [] (text_nodes s)) l.
Proof.
  induction l as [|s l IH]; simpl; intros ts H; [now injection H as <-|].
  inv H. apply leaf_ok in E. subst. injection H as <-. f_equal. now apply IH.
Qed.

Lemma dec_digits_cons k : forall n x acc, exists y l, dec_digits k n (x :: acc) = y :: l.
Proof.
  induction k as [|k IH]; intros n x acc; simpl; [eauto|].
  destruct (n <? 10)%N; [eauto|apply IH].
Qed.
Lemma z_to_dec_text z : text_nodes (z_to_dec z) = [Text (z_to_dec z)].
Proof.
  assert (N : forall n, exists y l, n_to_dec n = y :: l).
  { intros n. unfold n_to_dec. simpl. destruct (n <? 10)%N; [eauto|apply dec_digits_cons]. }
  destruct z as [|p|p]; simpl; try reflexivity.
  destruct (N (Npos p)) as (y & l & ->). reflexivity.
Qed.

Lemma real_flagb (b : bool) q : realizes (whenT b (flagT q)) [] (flag b q).
Proof. destruct b; simpl; [apply realizes_flag|apply realizes_none]. Qed.

Ltac pieces :=
  repeat match goal with E : ele _ _ _ = POk _ |- _ => clear E end;
  repeat match goal with E : pbind _ _ = POk _ |- _ => inv E; injection E as <- end.
Ltac seq_ ta := refine (realizes_seq _ _ _ _ ta _ _ _).
Ltac top S := apply realizes_the_tpl; [apply S|].
Ltac el0 q a := apply (realizes_el0 q a); [reflexivity|].

(* ---------------- the classes ---------------- *)
Lemma carries_vendor : forall c op, vop_node c = P3 (POk op) -> vcarried c op.
Proof.
  intros c op H. unfold vcarried, vtemplate.
  destruct c as [command format|format filter|format action config|rollback format|rpc| | |confirmed timeout comment sync at_time check
                 |rollback|command|confirmed timeout persist pid comment nonblank|command|content filter detail
                 |format dop target config|f|src f|x|x|file|file|file|cmds|cmds|x|file|file|x|x| |cmds].
  - (* junos command *) simpl in H. injection H as H. inv H. injection H as <-. top single_el.
    destruct (xml_chars_ok format && true) in E; [|discriminate].
    apply (realizes_el (b_ s_command) [(a_ s_format, None)] [format]); [reflexivity|now apply real_otext].
  - (* junos get_configuration *) simpl in H. injection H as H. inv H. injection H as <-. top single_el.
    apply (realizes_el (b_ s_get_configuration) [(a_ s_format, None)] [format]); [reflexivity|].
    destruct filter as [x|]; simpl in *.
    + inv E0. injection E0 as <-. pose proof (as_elem_ok _ _ E1) as ->. simpl. now apply (real_elem (EElem t0)).
    + injection E0 as <-. apply realizes_none.
  - (* junos load_configuration *)
    unfold vop_node in H. destruct config as [|x|l]; [discriminate| |]; injection H as H.
    all: unfold verase, vvalues, vtemplateT, e_enum; cbn [mem_bytes]; rewrite orb_false_r.
    all: destruct (beq action s_set) eqn:A;
      [apply beq_eq in A; subst action
      |destruct (beq format s_xml) eqn:Fx; [apply beq_eq in Fx; subst format|
       destruct (beq format s_json) eqn:Fj; [apply beq_eq in Fj; subst format|
       destruct (beq format s_text) eqn:Ft; [apply beq_eq in Ft; subst format|]]]];
      simpl in H; try discriminate H; inv H; injection H as <-; pieces; top single_el; simpl; rewrite ?A; simpl.
    (* JOne x: set / xml / json / text *)
    + apply (realizes_el (b_ s_load_configuration) [(a_ s_action, None); (a_ s_format, Some s_text)] [s_set]); [reflexivity|].
      el0 (b_ s_configuration_set) (@nil (qname * option bytes)). now apply real_astext.
    + apply (realizes_el (b_ s_load_configuration) [(a_ s_action, None); (a_ s_format, None)] [action; s_xml] _ (v_elarg x)); [reflexivity|].
      el0 (b_ s_configuration) (@nil (qname * option bytes)). now apply real_elem.
    + apply (realizes_el (b_ s_load_configuration) [(a_ s_action, None); (a_ s_format, None)] [action; s_json] _ (v_elarg x)); [reflexivity|].
      el0 (b_ s_configuration_json) (@nil (qname * option bytes)). now apply real_astext.
    + apply (realizes_el (b_ s_load_configuration) [(a_ s_action, None); (a_ s_format, None)] [action; s_text] _ (v_elarg x)); [reflexivity|].
      el0 (b_ s_configuration_text) (@nil (qname * option bytes)). now apply real_astext.
    (* JList l *)
    + apply (realizes_el (b_ s_load_configuration) [(a_ s_action, None); (a_ s_format, Some s_text)] [s_set]); [reflexivity|].
      el0 (b_ s_configuration_set) (@nil (qname * option bytes)). now apply (real_astext (EStr (join_with 10 l))).
    + apply (realizes_el (b_ s_load_configuration) [(a_ s_action, None); (a_ s_format, None)] [action; s_json] _ [VStr (join_with 10 l)]); [reflexivity|].
      el0 (b_ s_configuration_json) (@nil (qname * option bytes)). now apply (real_astext (EStr (join_with 10 l))).
    + apply (realizes_el (b_ s_load_configuration) [(a_ s_action, None); (a_ s_format, None)] [action; s_text] _ [VStr (join_with 10 l)]); [reflexivity|].
      el0 (b_ s_configuration_text) (@nil (qname * option bytes)). now apply (real_astext (EStr (join_with 10 l))).
  - (* junos compare_configuration *) simpl in H. injection H as H. unfold ele in H. inv H. injection H as <-. top single_el.
    apply (realizes_el (b_ s_get_configuration) [(a_ s_compare, Some s_rollback); (a_ s_format, None); (a_ s_rollback, None)]
             [format; rollback] noneT [] []); [reflexivity|apply realizes_none].
  - (* junos rpc *) simpl in H. injection H as H. pose proof (as_doc_ok _ _ H) as ->. simpl. split; reflexivity.
  - simpl in H. injection H as <-. top single_el. apply realizes_flag.
  - simpl in H. injection H as <-. top single_el. apply realizes_flag.
  - (* junos commit *) simpl in H. injection H as H.
    destruct (confirmed && match at_time with Some _ => true | None => false end) eqn:B; [discriminate|].
    inv H. injection H as <-. top single_el. el0 (a_ s_commit_configuration) (@nil (qname * option bytes)). simpl.
    apply realizes_seq.
    + destruct confirmed; simpl in *.
      * inv E. injection E as <-.
        refine (realizes_seq _ _ [] _ [Elem (a_ s_confirmed) [] []] _ _ _); [apply realizes_flag|].
        destruct timeout as [|z|]; simpl in *; try discriminate.
        -- injection E1 as <-. apply realizes_none.
        -- injection E1 as <-. rewrite <- z_to_dec_text. apply realizes_leaf.
      * destruct at_time as [s|]; simpl in *.
        -- inv E. apply leaf_ok in E1. subst. injection E as <-. apply realizes_leaf.
        -- injection E as <-. apply realizes_none.
    + rewrite <- (app_nil_r (v_ostr comment)). apply realizes_seq; [now apply real_oleaf|].
      refine (realizes_seq _ _ [] [] _ _ _ _); apply real_flagb.
  - (* junos rollback *) simpl in H. injection H as H. unfold ele in H. inv H. injection H as <-. top single_el.
    apply (realizes_el (b_ s_load_configuration) [(a_ s_rollback, None)] [rollback] noneT [] []); [reflexivity|apply realizes_none].
  - (* sros md_cli_raw_command *) simpl in H. injection H as H. inv H. injection H as <-. top single_el.
    el0 (b_ s_action) [(a_ s_xmlns, Some NS_YANG)]. el0 (b_ s_global_operations) [(a_ s_xmlns, Some NS_SROS_OPS)].
    el0 (b_ s_md_cli_raw_command) (@nil (qname * option bytes)). now apply real_tleaf.
  - (* sros commit *) simpl in H. injection H as H. inv H. injection H as <-. top single_el.
    el0 (b_ s_commit) (@nil (qname * option bytes)). simpl.
    assert (NE : forall o, nonempty (e_ne o) = nonempty o) by (intros [[|? ?]|]; reflexivity).
    rewrite !NE. apply realizes_seq; [|apply realizes_seq].
    + destruct (nonempty comment && nonblank) eqn:NB; simpl.
      * inv E. injection E as <-. destruct comment as [s|]; [|discriminate NB]. simpl in *.
        apply text_children_ok in E2. subst.
        apply (realizes_el0 (b_ s_comment) [(a_ s_xmlns, Some NS_SROS_AUG)] textT [VStr s]); [reflexivity|apply realizes_text].
      * injection E as <-. apply realizes_none.
    + destruct confirmed; simpl.
      * inv E0. injection E0 as <-.
        refine (realizes_seq _ _ [] _ [Elem (b_ s_confirmed) [] []] _ _ _); [apply realizes_flag|].
        apply realizes_seq; now apply real_oleaf.
      * injection E0 as <-. apply realizes_none.
    + destruct pid as [[|y s]|]; simpl in *.
      * injection E1 as <-. apply realizes_none.
      * apply (oleaf_ok (b_ s_persist_id) (Some (y :: s))) in E1. subst. apply realizes_leaf.
      * injection E1 as <-. apply realizes_none.
  - (* alu show_cli *) simpl in H. injection H as H. inv H. injection H as <-. top single_el.
    el0 (b_ s_get) (@nil (qname * option bytes)). el0 (b_ s_filter) (@nil (qname * option bytes)).
    el0 (b_ s_oper_cli_block) (@nil (qname * option bytes)). now apply real_tleaf.
  - (* alu get_configuration *) simpl in H. injection H as H. inv H. injection H as <-. top single_el.
    el0 (b_ s_get_config) (@nil (qname * option bytes)). simpl.
    refine (realizes_seq _ _ [] _ [Elem (b_ s_source) [] [Elem (b_ s_running) [] []]] _ _ _).
    { el0 (b_ s_source) (@nil (qname * option bytes)). apply realizes_flag. }
    destruct filter as [fl|]; [|injection E as <-; apply realizes_none].
    unfold e_enum, ALU_SELECTORS. cbn [mem_bytes]. rewrite orb_false_r.
    destruct (beq content s_xml) eqn:Cx.
    { simpl. rewrite Cx. destruct fl as [x|its]; [|discriminate]. inv E. injection E as <-. simpl.
      el0 (b_ s_filter) [(a_ s_type, Some s_subtree)]. now apply real_doc. }
    destruct (beq content s_cli) eqn:Cc.
    { simpl. rewrite Cx, Cc. inv E. injection E as <-.
      el0 (b_ s_filter) (@nil (qname * option bytes)). el0 (b_ s_config_cli_block) (@nil (qname * option bytes)).
      destruct fl as [[[q a cs|s]|e]|its]; simpl in *; try discriminate.
      - destruct (has_elem_child cs); [discriminate|]. injection E0 as <-. apply realizes_none.
      - apply leaves_ok in E0. subst. apply realizes_leaves. }
    simpl. injection E as <-. replace (beq [] s_xml) with false by reflexivity. replace (beq [] s_cli) with false by reflexivity.
    apply realizes_none.
  - (* alu load_configuration *) simpl in H. injection H as H. inv H. injection H as <-. top single_el.
    el0 (b_ s_edit_config) (@nil (qname * option bytes)). simpl.
    destruct config as [x|]; [|injection E as <-; simpl; now apply real_oleaf].
    unfold e_enum, ALU_SELECTORS. cbn [mem_bytes]. rewrite orb_false_r.
    destruct (beq format s_xml) eqn:Fx.
    { simpl. rewrite Fx. inv E. injection E as <-. simpl.
      seq_ [t]; [now apply real_ds|]. apply realizes_seq; [now apply real_oleaf|].
      el0 (b_ s_config) (@nil (qname * option bytes)). now apply real_elem. }
    destruct (beq format s_cli) eqn:Fc.
    { simpl. rewrite Fx, Fc. inv E. injection E as <-. simpl.
      seq_ [t]; [now apply real_ds|]. apply realizes_seq; [now apply real_oleaf|].
      el0 (b_ s_config) (@nil (qname * option bytes)). el0 (b_ s_config_cli_block) (@nil (qname * option bytes)). now apply real_astext. }
    simpl. injection E as <-. simpl. replace (beq [] s_xml) with false by reflexivity. replace (beq [] s_cli) with false by reflexivity.
    rewrite <- (app_nil_r (v_ostr dop)). apply realizes_seq; [now apply real_oleaf|apply realizes_flag].
  - (* h3c get_bulk *) simpl in H. injection H as H. inv H. injection H as <-. top single_el.
    el0 (b_ s_get_bulk) (@nil (qname * option bytes)). now apply real_ofilter.
  - (* h3c get_bulk_config *) simpl in H. injection H as H. inv H. injection H as <-. top single_el.
    el0 (b_ s_get_bulk_config) (@nil (qname * option bytes)). simpl. seq_ [t]; [now apply real_ds|now apply real_ofilter].
  - (* h3c cli *) simpl in H. injection H as H. inv H. injection H as <-. top single_el. el0 (b_ s_CLI) (@nil (qname * option bytes)). now apply real_doc.
  - (* h3c action *) simpl in H. injection H as H. inv H. injection H as <-. top single_el. el0 (b_ s_action) (@nil (qname * option bytes)). now apply real_doc.
  - simpl in H. injection H as H. inv H. injection H as <-. top single_el. el0 (b_ s_save) (@nil (qname * option bytes)). now apply real_tleaf.
  - simpl in H. injection H as H. inv H. injection H as <-. top single_el. el0 (b_ s_load) (@nil (qname * option bytes)). now apply real_tleaf.
  - simpl in H. injection H as H. inv H. injection H as <-. top single_el. el0 (b_ s_rollback) (@nil (qname * option bytes)). now apply real_tleaf.
  - (* hpcomware cli_display *) simpl in H. injection H as H. inv H. apply leaf_ok in E. subst. injection H as <-. top single_el.
    el0 (b_ s_CLI) (@nil (qname * option bytes)). apply realizes_leaf.
  - simpl in H. injection H as H. inv H. apply leaf_ok in E. subst. injection H as <-. top single_el.
    el0 (b_ s_CLI) (@nil (qname * option bytes)). apply realizes_leaf.
  - simpl in H. injection H as H. inv H. injection H as <-. top single_el. el0 (b_ s_action) (@nil (qname * option bytes)). now apply real_doc.
  - simpl in H. injection H as H. inv H. injection H as <-. top single_el. el0 (b_ s_save) (@nil (qname * option bytes)). now apply real_tleaf.
  - simpl in H. injection H as H. inv H. injection H as <-. top single_el. el0 (b_ s_rollback) (@nil (qname * option bytes)). now apply real_tleaf.
  - (* huawei *) simpl in H. injection H as H. inv H. injection H as <-. top single_el. el0 (b_ s_execute_cli) [(a_ s_xmlns, Some NS_HW)]. now apply real_doc.
  - simpl in H. injection H as H. inv H. injection H as <-. top single_el. el0 (b_ s_execute_action) [(a_ s_xmlns, Some NS_HW)]. now apply real_doc.
  - simpl in H. injection H as <-. top single_el. apply realizes_flag.
  - (* nexus *) simpl in H. injection H as H. inv H. apply leaves_ok in E. subst. injection H as <-. top single_el.
    el0 (qn NS_NXOS s_exec_command) (@nil (qname * option bytes)). apply realizes_leaves.
Qed.

Lemma c07_vendor_carries : forall mid c t, vbuild mid c = VBuilt t ->
  exists op, t = vwrap (vmode (vcall_prof c)) mid op /\ vcarried c op.
Proof.
  intros mid c t H. unfold vbuild, vbuild_under in H. destruct (vop_node c) as [[op|e]|] eqn:E; try discriminate.
  injection H as <-. exists op. split; [reflexivity|]. now apply carries_vendor.
Qed.

Lemma c07_vendor_carries_same_template : forall mid c c' t t',
  verase c = verase c' -> vbuild mid c = VBuilt t -> vbuild mid c' = VBuilt t' ->
  exists T op op', t = vwrap (vmode (vcall_prof c)) mid op /\ t' = vwrap (vmode (vcall_prof c')) mid op'
    /\ fill (vvalues c) T = [op] /\ fill (vvalues c') T = [op']
    /\ holes T = seq 0 (length (vvalues c)) /\ length (vvalues c') = length (vvalues c).
Proof.
  intros mid c c' t t' Er H H'.
  destruct (c07_vendor_carries mid c t H) as (op & -> & F & Hs).
  destruct (c07_vendor_carries mid c' t' H') as (op' & -> & F' & Hs').
  exists (vtemplate (verase c)), op, op'. rewrite <- Er in *. repeat split; auto.
  rewrite Hs in Hs'. apply (f_equal (@length nat)) in Hs'. now rewrite !seq_length in Hs'.
Qed.
