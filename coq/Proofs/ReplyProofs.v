(* ReplyProofs.v — C10: raw identity, data extraction, namespace stripping, flag plumbing. *)
From NC Require Import Model.Base Model.XTree Model.XmlHelpers Model.NsStrip Model.ReplyView Spec.ReplySpec Proofs.BaseFacts Proofs.XmlHelpersProofs.

Lemma xnode_ind' (P : xnode -> Prop) :
  (forall n a k, Forall P k -> P (Elem n a k)) -> (forall s, P (Text s)) ->
  (forall s, P (Comment s)) -> (forall x y, P (PI x y)) -> forall t, P t.
Proof.
  intros HE HT HC HP. fix IH 1. intros [n a k|s|s|x y]; [|apply HT|apply HC|apply HP].
  apply HE. induction k as [|c k IHk]; constructor; [apply IH|exact IHk].
Qed.

(* ---------------- raw ---------------- *)
Lemma c10_raw_deliver : forall cls raw huge, reply_xml (deliver_reply cls raw huge) = raw.
Proof. reflexivity. Qed.

Ltac break_request H :=
  unfold request in H;
  repeat match type of H with
         | context [match ?x with _ => _ end] => destruct x eqn:?; cbn [fst snd] in H
         end.

Lemma c10_raw : forall P Q Q2 p cls mgr forced rk raw r,
  (exists root d, fst (request P Q Q2 p cls mgr forced rk raw) = OReply r root d) \/
  (exists doc, fst (request P Q Q2 p cls mgr forced rk raw) = OElem r doc) ->
  reply_xml r = raw /\ r_huge r = call_flag mgr forced.
Proof.
  intros P Q Q2 p cls mgr forced rk raw r [(root & d & H)|(doc & H)];
    break_request H; try discriminate; injection H as <-; intros; split; reflexivity.
Qed.

(* ---------------- data ---------------- *)
Lemma find_first {A} (p : A -> bool) l d :
  find p l = Some d <->
  exists pre post, l = pre ++ d :: post /\ p d = true /\ forall x, In x pre -> p x = false.
Proof.
  induction l as [|x l IH]; simpl.
  - split; [discriminate|]. intros (pre & post & E & _). destruct pre; discriminate.
  - destruct (p x) eqn:Px.
    + split.
      * intros [= ->]. exists [], l. repeat split; auto. intros y [].
      * intros (pre & post & E & Pd & Hpre). destruct pre as [|y pre]; simpl in E.
        -- injection E as -> _. reflexivity.
        -- injection E as -> _. rewrite (Hpre y) in Px; [discriminate|simpl; auto].
    + rewrite IH. split.
      * intros (pre & post & -> & Pd & Hpre). exists (x :: pre), post. repeat split; auto.
        intros y [<-|Hy]; auto.
      * intros (pre & post & E & Pd & Hpre). destruct pre as [|y pre]; simpl in E.
        -- injection E as -> _. congruence.
        -- injection E as _ ->. exists pre, post. repeat split; auto. intros z Hz. apply Hpre. simpl; auto.
Qed.

Lemma find_none {A} (p : A -> bool) l : find p l = None <-> forall x, In x l -> p x = false.
Proof.
  induction l as [|x l IH]; simpl; [split; [intros _ y []|reflexivity]|].
  destruct (p x) eqn:Px.
  - split; [discriminate|]. intros H. rewrite (H x) in Px; [discriminate|auto].
  - rewrite IH. split; [intros H y [<-|Hy]; auto|intros H y Hy; apply H; auto].
Qed.

Lemma c10_data : forall root d,
  data_of ClsGet root = DEle d <->
  has_errors root = false /\ first_named n_data (children root) d.
Proof.
  intros root d. unfold data_of, first_named, find_child.
  destruct (has_errors root).
  - split; [discriminate|intros [H _]; discriminate].
  - destruct (find (is_named n_data) (children root)) as [d'|] eqn:F.
    + split.
      * intros [= <-]. split; [reflexivity|]. now apply find_first.
      * intros [_ H]. apply find_first in H. congruence.
    + split; [discriminate|]. intros [_ H]. apply find_first in H. congruence.
Qed.

Lemma c10_data_none : forall root,
  data_of ClsGet root = DNone <-> has_errors root = true \/ no_child n_data (children root).
Proof.
  intros root. unfold data_of, no_child, find_child. destruct (has_errors root).
  - split; auto.
  - destruct (find (is_named n_data) (children root)) as [d'|] eqn:F.
    + split; [discriminate|]. intros [H|H]; [discriminate|]. apply find_none in H. congruence.
    + split; [|reflexivity]. intros _. right. now apply find_none.
Qed.

Lemma c10_schema_data : forall root s,
  data_of ClsSchema root = DText s <->
  has_errors root = false /\ exists d, first_named n_sdata (children root) d /\ s = lead_text d.
Proof.
  intros root s. unfold data_of, first_named, find_child. destruct (has_errors root).
  - split; [discriminate|intros [H _]; discriminate].
  - destruct (find (is_named n_sdata) (children root)) as [d'|] eqn:F.
    + split.
      * intros [= <-]. split; [reflexivity|]. exists d'. split; [now apply find_first|reflexivity].
      * intros [_ (d & H & ->)]. apply find_first in H. congruence.
    + split; [discriminate|]. intros [_ (d & H & _)]. apply find_first in H. congruence.
Qed.

(* the error rule used above, spelled out *)
Lemma c10_errors_rule : forall root,
  has_errors root = true <-> (no_child n_ok (children root) /\ has_desc n_err root = true).
Proof.
  intros root. unfold has_errors, no_child, find_child.
  destruct (find (is_named n_ok) (children root)) eqn:F.
  - split; [discriminate|]. intros [H _]. apply find_none in H. congruence.
  - split; [intros H; split; [now apply find_none|exact H]|tauto].
Qed.

(* ---------------- namespace stripping ---------------- *)
Lemma drop_blank_elem n a k :
  drop_blank (Elem n a k) = Elem n a (map drop_blank (filter (fun c => negb (is_blank_text c)) k)).
Proof.
  cbn [drop_blank]. f_equal. induction k as [|c k IH]; [reflexivity|].
  cbn [filter]. destruct (is_blank_text c); cbn [negb map]; [exact IH|now rewrite IH].
Qed.

Lemma locals_distinct_elem n a k :
  locals_distinct (Elem n a k) <-> NoDup (map (fun x => snd (fst x)) a) /\ Forall locals_distinct k.
Proof.
  cbn [locals_distinct]. split; intros [H1 H2]; split; auto.
  - induction k as [|c k IH]; constructor; [apply H2|apply IH, H2].
  - induction H2 as [|c k Hc Hk IH]; [exact I|split; auto].
Qed.

Lemma attr_set_absent k v d : ~ In k (keys d) -> attr_set k v d = d ++ [(k, v)].
Proof.
  induction d as [|[k' v'] d IH]; intros H; [reflexivity|].
  simpl in *. destruct (name_eqb k k') eqn:E.
  - apply name_eqb_eq in E. subst. exfalso. auto.
  - rewrite IH; auto.
Qed.

Lemma strip_fold a : forall acc,
  NoDup (keys acc ++ map (fun x => local_name (fst x)) a) ->
  fold_left (fun acc x => attr_set (local_name (fst x)) (snd x) acc) a acc = acc ++ map local_attr a.
Proof.
  induction a as [|x a IH]; intros acc H; simpl; [now rewrite app_nil_r|].
  simpl in H. rewrite attr_set_absent.
  - rewrite IH.
    + rewrite <- app_assoc. reflexivity.
    + unfold keys in *. rewrite map_app. simpl. rewrite <- app_assoc. simpl. exact H.
  - apply NoDup_remove_2 in H. intros Hin. apply H. apply in_or_app. auto.
Qed.

Lemma strip_attrs_distinct a :
  NoDup (map (fun x => snd (fst x)) a) -> strip_attrs a = map local_attr a.
Proof.
  intros H. unfold strip_attrs. rewrite strip_fold; [reflexivity|]. simpl.
  clear -H. induction a as [|x a IH]; simpl; [constructor|].
  inversion H as [|? ? Hn Hd]; subst. constructor; [|auto].
  intros Hin. apply Hn. apply in_map_iff in Hin as (y & E & Hy). apply in_map_iff.
  exists y. split; [|exact Hy]. unfold local_name in E. simpl. now inversion E.
Qed.

Lemma local_attr_idem a : map local_attr (map local_attr a) = map local_attr a.
Proof. rewrite map_map. apply map_ext. intros [[u l] v]. reflexivity. Qed.

Lemma map_ext_Forall {A B} (f g : A -> B) l : Forall (fun x => f x = g x) l -> map f l = map g l.
Proof. induction 1; simpl; congruence. Qed.

Lemma erase_xslt : forall t, locals_distinct t -> erase_ns (junos_xslt t) = erase_ns t.
Proof.
  induction t as [n a k IH|s|s|x y] using xnode_ind'; intros H; try reflexivity.
  apply locals_distinct_elem in H as [Ha Hk].
  cbn [junos_xslt erase_ns]. rewrite (strip_attrs_distinct a Ha), local_attr_idem.
  f_equal. rewrite map_map. apply map_ext_Forall.
  rewrite Forall_forall in *. intros c Hc. apply IH; auto.
Qed.

Lemma erase_alu : forall t, erase_ns (alu t) = erase_ns t.
Proof.
  induction t as [n a k IH|s|s|x y] using xnode_ind'; try reflexivity.
  cbn [alu erase_ns]. f_equal. rewrite map_map. apply map_ext_Forall. exact IH.
Qed.

Lemma blank_erase c : is_blank_text (erase_ns c) = is_blank_text c.
Proof. destruct c; reflexivity. Qed.
Lemma blank_xslt c : is_blank_text (junos_xslt c) = is_blank_text c.
Proof. destruct c; reflexivity. Qed.
Lemma blank_drop c : is_blank_text (drop_blank c) = is_blank_text c.
Proof. destruct c; reflexivity. Qed.

Lemma filter_map_comm {A} (p : A -> bool) (f : A -> A) l :
  (forall x, p (f x) = p x) -> filter p (map f l) = map f (filter p l).
Proof.
  intros H. induction l as [|x l IH]; simpl; [reflexivity|]. rewrite H.
  destruct (p x); simpl; now rewrite IH.
Qed.

Lemma Forall_filter {A} (P : A -> Prop) p l : Forall P l -> Forall P (filter p l).
Proof. induction 1; simpl; [constructor|]. destruct (p x); auto. Qed.

Lemma drop_erase : forall t, drop_blank (erase_ns t) = erase_ns (drop_blank t).
Proof.
  induction t as [n a k IH|s|s|x y] using xnode_ind'; try reflexivity.
  cbn [erase_ns]. rewrite !drop_blank_elem. cbn [erase_ns]. f_equal.
  rewrite filter_map_comm by (intros c; now rewrite blank_erase).
  rewrite !map_map. apply map_ext_Forall. now apply Forall_filter.
Qed.

Lemma drop_xslt : forall t, drop_blank (junos_xslt t) = junos_xslt (drop_blank t).
Proof.
  induction t as [n a k IH|s|s|x y] using xnode_ind'; try reflexivity.
  cbn [junos_xslt]. rewrite !drop_blank_elem. cbn [junos_xslt]. f_equal.
  rewrite filter_map_comm by (intros c; now rewrite blank_xslt).
  rewrite !map_map. apply map_ext_Forall. now apply Forall_filter.
Qed.

Lemma filter_idem_map {A} (p : A -> bool) (f : A -> A) l :
  (forall x, p (f x) = p x) -> filter p (map f (filter p l)) = map f (filter p l).
Proof.
  intros H. rewrite filter_map_comm by exact H. f_equal.
  induction l as [|x l IH]; simpl; [reflexivity|]. destruct (p x) eqn:E; simpl; [rewrite E|]; now rewrite ?IH.
Qed.

Lemma drop_idem : forall t, drop_blank (drop_blank t) = drop_blank t.
Proof.
  induction t as [n a k IH|s|s|x y] using xnode_ind'; try reflexivity.
  rewrite !drop_blank_elem. f_equal.
  rewrite filter_idem_map by (intros c; now rewrite blank_drop).
  rewrite map_map. apply map_ext_Forall. now apply Forall_filter.
Qed.

Lemma distinct_drop : forall t, locals_distinct t -> locals_distinct (drop_blank t).
Proof.
  induction t as [n a k IH|s|s|x y] using xnode_ind'; intros H; try exact H.
  rewrite drop_blank_elem. apply locals_distinct_elem in H as [Ha Hk].
  apply locals_distinct_elem. split; [exact Ha|].
  apply Forall_forall. intros c Hc. apply in_map_iff in Hc as (c0 & <- & Hc0).
  apply filter_In in Hc0 as [Hc0 _]. rewrite Forall_forall in IH, Hk. auto.
Qed.

Lemma c10_strip_shape : forall t, locals_distinct t -> erase_ns (strip t) = drop_blank (erase_ns t).
Proof.
  intros t H. unfold strip.
  rewrite <- drop_erase, erase_xslt by now apply distinct_drop.
  now rewrite <- drop_erase, drop_idem.
Qed.

(* with the two parsers as oracles: equal up to white-space-only text *)
Lemma c10_strip_shape_oracle : forall rb1 rb2 t,
  blank_only_removed rb1 -> blank_only_removed rb2 -> locals_distinct (rb1 t) ->
  drop_blank (erase_ns (strip_with rb1 rb2 t)) = drop_blank (erase_ns t).
Proof.
  intros rb1 rb2 t H1 H2 Hd. unfold strip_with.
  rewrite drop_erase, H2, <- drop_erase, erase_xslt by exact Hd.
  now rewrite drop_erase, H1, <- drop_erase.
Qed.

Lemma c10_strip_collision_refuted :
  exists t, ~ locals_distinct t /\ erase_ns (strip t) <> drop_blank (erase_ns t).
Proof.
  exists (Elem (None, [97]) [((Some [117], [120]), [49]); ((Some [118], [120]), [50])] []).
  split.
  - intros [H _]. simpl in H. inversion H as [|? ? Hn _]; subst. apply Hn. simpl; auto.
  - vm_compute. discriminate.
Qed.

Lemma c10_alu_shape : forall t, erase_ns (alu t) = erase_ns t /\ root_attrs (alu t) = root_attrs t.
Proof. intros t. split; [apply erase_alu|destruct t; reflexivity]. Qed.

Lemma c10_sros_id : forall t, sros t = t.
Proof. reflexivity. Qed.

(* ---------------- huge_tree plumbing ---------------- *)
Lemma c10_huge_plumbing : forall P Q Q2 p cls mgr forced rk raw s fl,
  In (s, fl) (snd (request P Q Q2 p cls mgr forced rk raw)) -> fl = call_flag mgr forced.
Proof.
  intros P Q Q2 p cls mgr forced rk raw s fl H.
  break_request H; simpl in H; intuition congruence.
Qed.

Lemma c10_huge_success : forall P Q Q2 p cls mgr forced rk raw,
  call_flag mgr forced = true ->
  P true raw <> None -> Q true raw <> None -> (forall x, Q2 true x <> None) ->
  fst (request P Q Q2 p cls mgr forced rk raw) <> OParseError.
Proof.
  intros P Q Q2 p cls mgr forced rk raw Hf HP HQ HQ2 H.
  unfold request in H. cbn [deliver_reply r_huge] in H. rewrite Hf in H.
  destruct (P true raw) as [root|]; [|congruence].
  destruct (hook p cls root); destruct rk; destruct p; cbn [fst] in H; try discriminate;
    destruct (Q true raw) as [t1|]; try congruence;
    destruct (Q2 true (junos_xslt t1)) eqn:E; try discriminate; eapply HQ2; eauto.
Qed.
