(* EscapeProofs.v — round trip and no-injection for Model/Escape.v, for ALL octet strings. *)
From NC Require Import Model.Base Model.Lit Model.Escape.

Ltac eqb_cases c :=
  repeat match goal with
  | |- context[N.eqb c ?k] => let E := fresh "E" in destruct (N.eqb c k) eqn:E;
        [apply N.eqb_eq in E; subst c|]
  end.

Lemma unesc_text_byte c rest : unesc 0 (esc_text_byte c ++ rest) = c :: unesc 0 rest.
Proof.
  unfold esc_text_byte. eqb_cases c; try reflexivity.
  cbn [app unesc]. cbn [match_ref refs prefixb r_lt r_gt r_amp r_quot r_cr r_lf r_tab].
  rewrite (N.eqb_sym 38 c), E0. cbn. reflexivity.
Qed.

Lemma unesc_attr_byte c rest : unesc 0 (esc_attr_byte c ++ rest) = c :: unesc 0 rest.
Proof.
  unfold esc_attr_byte. eqb_cases c; try reflexivity.
  cbn [app unesc]. cbn [match_ref refs prefixb r_lt r_gt r_amp r_quot r_cr r_lf r_tab].
  rewrite (N.eqb_sym 38 c), E0. cbn. reflexivity.
Qed.

Lemma c07_escape_roundtrip_text : forall s, unescape (escape_text s) = s.
Proof.
  unfold unescape. induction s as [|c s IH]; [reflexivity|].
  cbn [escape_text]. rewrite unesc_text_byte, IH. reflexivity.
Qed.

Lemma c07_escape_roundtrip_attr : forall s, unescape (escape_attr s) = s.
Proof.
  unfold unescape. induction s as [|c s IH]; [reflexivity|].
  cbn [escape_attr]. rewrite unesc_attr_byte, IH. reflexivity.
Qed.

Lemma wf_text_byte c rest : wf_escaped (esc_text_byte c ++ rest) = wf_escaped rest.
Proof.
  unfold esc_text_byte. eqb_cases c; try reflexivity.
  cbn [app wf_escaped]. rewrite E, E0. reflexivity.
Qed.

Lemma wf_attr_byte c rest : wf_escaped (esc_attr_byte c ++ rest) = wf_escaped rest.
Proof.
  unfold esc_attr_byte. eqb_cases c; try reflexivity.
  cbn [app wf_escaped]. rewrite E, E0. reflexivity.
Qed.

Lemma nq_attr_byte c rest : no_quote (esc_attr_byte c ++ rest) = no_quote rest.
Proof.
  unfold esc_attr_byte. eqb_cases c; try reflexivity.
  cbn [app no_quote]. rewrite E3. reflexivity.
Qed.

Lemma c07_no_injection_text : forall s, wf_escaped (escape_text s) = true.
Proof. induction s as [|c s IH]; [reflexivity|]. cbn [escape_text]. now rewrite wf_text_byte. Qed.

Lemma c07_no_injection_attr : forall s,
  wf_escaped (escape_attr s) = true /\ no_quote (escape_attr s) = true.
Proof.
  induction s as [|c s [IH1 IH2]]; [split; reflexivity|]. cbn [escape_attr].
  now rewrite wf_attr_byte, nq_attr_byte.
Qed.

(* what wf_escaped means, spelled out: no '<' anywhere, and wherever an '&' stands, one of the
   produced references starts there *)
Lemma wf_escaped_spec s : wf_escaped s = true ->
  forall a b c, s = a ++ c :: b ->
    c <> 60 /\ (c = 38 -> exists r v, In (r, v) refs /\ prefixb r (c :: b) = true).
Proof.
  induction s as [|x s IH]; intros W a b c E.
  - destruct a; discriminate.
  - cbn [wf_escaped] in W. apply andb_prop in W as [W W3]. apply andb_prop in W as [W1 W2].
    destruct a as [|y a]; cbn in E; inversion E; subst.
    + split.
      * intros ->. discriminate.
      * intros ->. cbn [N.eqb Pos.eqb] in W2.
        assert (M : forall rs, match match_ref rs (38 :: b) with Some _ => true | None => false end = true ->
                    exists r v, In (r, v) rs /\ prefixb r (38 :: b) = true).
        { induction rs as [|[r v] rs IHr]; cbn [match_ref]; [discriminate|].
          destruct (prefixb r (38 :: b)) eqn:P.
          - intros _. exists r, v. split; [left; reflexivity|exact P].
          - intros H. destruct (IHr H) as (r' & v' & I & P'). exists r', v'. split; [right; exact I|exact P']. }
        apply M. exact W2.
    + eapply IH; eauto.
Qed.
