(* NegotiateProofs.v — lemmas behind Props/C05.v *)
From Coq Require Import Lia String.
From NC Require Import Model.Base Model.Lit Model.Caps Model.Writer Model.Negotiate.
From NC Require Import Spec.CapsSpec Proofs.BaseFacts Proofs.CapsProofs.

(* ------------------------------------------------------------ choose_base *)
Definition has11 (l : list bytes) : Prop := contains_key (caps_of l) k11 = Ok true.

Lemma contains_key_bool uris key : exists b, contains_key (caps_of uris) key = Ok b.
Proof.
  destruct (contains_key (caps_of uris) key) as [b| |e] eqn:E.
  - eauto.
  - unfold contains_key in E. destruct (getitem (caps_of uris) key); discriminate.
  - exfalso. destruct (c08_total uris key e) as [_ H]. auto.
Qed.

Lemma c05_choose_total server client : exists b, choose_base server client = Ok b.
Proof.
  unfold choose_base.
  destruct (contains_key_bool server k11) as [[|] ->]; [|eauto].
  destruct (contains_key_bool client k11) as [[|] ->]; eauto.
Qed.

Lemma c05_choose_iff server client :
  choose_base server client = Ok B11 <-> has11 server /\ has11 client.
Proof.
  unfold choose_base, has11.
  destruct (contains_key_bool server k11) as [[|] ->];
  destruct (contains_key_bool client k11) as [[|] ->]; split; try intros [? ?]; try discriminate; auto.
Qed.

Lemma c05_has11_spec l :
  has11 l <-> (In k11 l \/ exists u, In u l /\ shorthand (ns_part u) k11).
Proof. unfold has11. apply c08_contains_iff. Qed.

(* ------------------------------------------------------------ parse_hello / build *)
Lemma all_some_map_Some l : all_some (map Some l) = Some l.
Proof. induction l as [|x l IH]; cbn; [reflexivity|]. rewrite IH. reflexivity. Qed.

Lemma is_tag_qtag q a b : is_tag a (Node (qtag q b) None []) = beq b a -> True.
Proof. trivial. Qed.

Lemma beq_app_l p a b : beq (p ++ a) (p ++ b) = beq a b.
Proof. induction p as [|x p IH]; cbn; [reflexivity|]. rewrite N.eqb_refl. exact IH. Qed.

Lemma cap_filter q uris tx ch :
  cap_texts (Node tx ch (map (fun u => Node (qtag q t_capability) (Some u) []) uris)) = map Some uris.
Proof.
  unfold cap_texts. cbn [children_of].
  induction uris as [|u uris IH]; cbn [map filter]; [reflexivity|].
  assert (E : is_tag t_capability (Node (qtag q t_capability) (Some u) []) = true)
    by (destruct q; vm_compute; reflexivity).
  rewrite E. cbn [map text_of]. rewrite IH. reflexivity.
Qed.

Lemma c05_reports : forall qual sid_text uris,
  parse_hello (server_hello qual sid_text uris) = Ok (SidText (Some sid_text), map fst (caps_of uris)).
Proof.
  intros q sd uris. unfold parse_hello, server_hello. cbn [children_of parse_loop].
  assert (E1 : is_tag t_session_id (Node (qtag q t_capabilities) None
                 (map (fun u => Node (qtag q t_capability) (Some u) []) uris)) = false)
    by (destruct q; vm_compute; reflexivity).
  assert (E2 : is_tag t_capabilities (Node (qtag q t_capabilities) None
                 (map (fun u => Node (qtag q t_capability) (Some u) []) uris)) = true)
    by (destruct q; vm_compute; reflexivity).
  assert (E3 : is_tag t_session_id (Node (qtag q t_session_id) (Some sd) []) = true)
    by (destruct q; vm_compute; reflexivity).
  rewrite E1, E2, E3. cbn [text_of app]. rewrite cap_filter, all_some_map_Some. reflexivity.
Qed.

(* the client hello lists exactly the keys of the client Capabilities object *)
Lemma c05_build_lists client :
  parse_hello (build client) = Ok (SidDefault, map fst (caps_of (map fst (caps_of client)))).
Proof.
  unfold parse_hello, build. cbn [children_of parse_loop].
  assert (E1 : forall ch, is_tag t_session_id (Node (qualify t_capabilities) None ch) = false) by (intros; vm_compute; reflexivity).
  assert (E2 : forall ch, is_tag t_capabilities (Node (qualify t_capabilities) None ch) = true) by (intros; vm_compute; reflexivity).
  rewrite E1, E2. cbn [app].
  change (qualify t_capability) with (qtag true t_capability).
  rewrite cap_filter, all_some_map_Some. reflexivity.
Qed.

(* ------------------------------------------------------------ client capability lists *)
Definition k_base : bytes := Eval compute in lit ":base"%string.


Lemma sh_b10 : shorthand (ns_part uri_b10) k_base.
Proof.
  eapply sh_base with (p := prefix_a) (v := lit "1.0"%string) (rest := []).
  - left; reflexivity.
  - vm_compute. reflexivity.
Qed.
Lemma sh_b10x : shorthand (ns_part uri_b10x) k_base.
Proof.
  eapply sh_base with (p := prefix_b) (v := lit "1.0"%string) (rest := []).
  - right; reflexivity.
  - vm_compute. reflexivity.
Qed.

Lemma c05_client_caps_base : forall p extra,
  contains_key (caps_of (profile_caps p extra)) k_base = Ok true.
Proof.
  intros p extra. apply c08_contains_iff. right.
  destruct p as [| | | | |priv]; unfold profile_caps.
  - exists uri_b10. split; [|exact sh_b10]. apply in_or_app. left. left. reflexivity.
  - exists uri_b10. split; [|exact sh_b10]. left. reflexivity.
  - exists uri_b10. split; [|exact sh_b10]. apply in_or_app. left. apply in_or_app. left. left. reflexivity.
  - exists uri_b10. split; [|exact sh_b10]. left. reflexivity.
  - exists uri_b10x. split; [|exact sh_b10x]. unfold base_caps. cbn [app]. left. reflexivity.
  - exists uri_b10. split; [|exact sh_b10]. apply in_or_app. left. apply in_or_app. left. left. reflexivity.
Qed.

(* ------------------------------------------------------------ the transition system *)
Ltac inv_step H :=
  unfold step in H;
  repeat match type of H with
         | context [match ?x with _ => _ end] => destruct x eqn:?
         end; try discriminate; inversion H; subst; clear H.

Lemma step_main_mono f c s l s1 r :
  s_main s = MReturned r -> step f c s l = Some s1 -> s_main s1 = MReturned r.
Proof. intros Hm H. inv_step H; cbn in *; congruence. Qed.

Lemma main_action_returned c s : exists r, s_main (main_action c s) = MReturned r.
Proof.
  unfold main_action, finish. destruct (s_error s); [eexists; reflexivity|].
  destruct (s_caps s); [|eexists; reflexivity].
  destruct (choose_base l c); eexists; reflexivity.
Qed.

Lemma run_main_mono f c : forall ls s s1 r,
  s_main s = MReturned r -> run_labels f c s ls = Some s1 -> s_main s1 = MReturned r.
Proof.
  induction ls as [|l ls IH]; intros s s1 r Hm H; cbn in H.
  - inversion H; subst; assumption.
  - destruct (step f c s l) as [s2|] eqn:E; [|discriminate].
    eapply IH; [|exact H]. eapply step_main_mono; eauto.
Qed.

Lemma run_app f c : forall l1 l2 s s2, run_labels f c s (l1 ++ l2) = Some s2 ->
  exists s1, run_labels f c s l1 = Some s1 /\ run_labels f c s1 l2 = Some s2.
Proof.
  induction l1 as [|l l1 IH]; intros l2 s s2 H; cbn in *.
  - eauto.
  - destruct (step f c s l) as [s1|]; [|discriminate]. apply IH. exact H.
Qed.

(* invariant of the repaired system *)
Record Inv (client : list bytes) (s : st) : Prop := {
  i_first : (s_pending s = true /\ s_wire s = [] /\ exists q1, s_q s = 0 :: q1)
            \/ (s_pending s = false /\ exists rest, s_wire s = (B10, 0) :: rest);
  i_before : s_main s <> MReturned None -> s_base s = B10 /\ (length (s_wire s) + length (s_q s) = 1)%nat;
  i_after : s_main s = MReturned None ->
            exists sv, s_caps s = Some sv /\ choose_base sv client = Ok (s_base s) /\ s_listener s = false /\ s_error s = None;
  i_later : forall i fm, nth_error (s_wire s) (S i) = Some fm -> fst fm = s_base s /\ s_main s = MReturned None;
  i_event : s_event s = false -> s_error s = None /\ s_caps s = None;
  i_okev : s_event s = true -> s_error s = None -> s_caps s <> None;
  i_lis : s_listener s = false -> exists r, s_main s = MReturned r
}.

Lemma inv_init c : Inv c init.
Proof.
  constructor; cbn.
  - left. repeat split; eauto.
  - intros _. split; reflexivity.
  - discriminate.
  - intros [|i] fm H; discriminate.
  - auto.
  - discriminate.
  - discriminate.
Qed.

Lemma nth_error_snoc {A} (l : list A) x i y :
  nth_error (l ++ [x]) i = Some y -> nth_error l i = Some y \/ (i = length l /\ y = x).
Proof.
  intros H. destruct (Nat.lt_ge_cases i (length l)) as [Hlt|Hge].
  - left. rewrite nth_error_app1 in H by assumption. exact H.
  - right. rewrite nth_error_app2 in H by assumption.
    destruct (i - length l)%nat eqn:E; cbn in H.
    + inversion H. split; [lia|reflexivity].
    + destruct n; discriminate.
Qed.

Lemma main_dec (m : mainst) : m = MReturned None \/ m <> MReturned None.
Proof. destruct m as [|[e|]]; [right|right|left]; congruence. Qed.

Lemma inv_top c s r s1 : Inv c s -> step true c s (LTop r) = Some s1 -> Inv c s1.
Proof.
  intros I H. cbn [step] in H. destruct (negb (s_alive s)); [discriminate|].
  destruct (s_q s) as [|m q1] eqn:Q; [inversion H; subst; exact I|].
  destruct r; [|inversion H; subst; exact I]. inversion H; subst; clear H.
  destruct I as [I1 I2 I3 I4 I5 I6 I7].
  constructor; cbn [s_base s_q s_pending s_wire s_listener s_event s_error s_sid s_caps s_alive s_main] in *; auto.
  - right. split; [reflexivity|]. destruct I1 as [(P & W & q2 & Q2)|(P & rest & W)].
    + rewrite P, W in *. rewrite Q in Q2. inversion Q2; subst. cbn. eauto.
    + rewrite W. cbn. eauto.
  - intros Hm. destruct (I2 Hm) as [B L]. split; [exact B|]. rewrite Q in L.
    rewrite app_length. cbn in *. lia.
  - intros i fm Hn. apply nth_error_snoc in Hn. destruct Hn as [Hn|[Hi ->]]; [eauto|].
    cbn [fst]. destruct I1 as [(P & W & _)|(P & _)].
    + rewrite W in Hi. discriminate.
    + rewrite P. cbn [andb]. split; [reflexivity|].
      destruct (main_dec (s_main s)) as [E|E]; [exact E|].
      destruct (I2 E) as [_ L]. rewrite Q in L. cbn in L. lia.
Qed.

Lemma inv_recv c s h s1 : Inv c s -> step true c s (LRecv h) = Some s1 -> Inv c s1.
Proof.
  intros I H. inv_step H; try exact I; destruct I as [I1 I2 I3 I4 I5 I6 I7];
  constructor; cbn [s_base s_q s_pending s_wire s_listener s_event s_error s_sid s_caps s_alive s_main] in *; auto;
  try (intros Hm; destruct (I3 Hm) as (sv & _ & _ & L & _); rewrite L in *; discriminate);
  try discriminate; try congruence.
Qed.

Lemma inv_die c s s1 : Inv c s -> step true c s LDie = Some s1 -> Inv c s1.
Proof.
  intros I H. inv_step H; destruct I as [I1 I2 I3 I4 I5 I6 I7];
  constructor; cbn [s_base s_q s_pending s_wire s_listener s_event s_error s_sid s_caps s_alive s_main] in *; auto;
  try (intros Hm; destruct (I3 Hm) as (sv & _ & _ & L & _); rewrite L in *; discriminate);
  try discriminate; try congruence;
  try (intros Hm; destruct (I3 Hm) as (sv & A & B & L & E); exists sv; auto).
Qed.

Lemma inv_main_action c s : Inv c s -> s_main s = MWaiting -> s_event s = true -> Inv c (main_action c s).
Proof.
  intros I Hw He. destruct I as [I1 I2 I3 I4 I5 I6 I7].
  assert (Hn : s_main s <> MReturned None) by congruence.
  destruct (I2 Hn) as [B L].
  assert (I4' : forall i fm, nth_error (s_wire s) (S i) = Some fm -> False).
  { intros i fm Hx. destruct (I4 i fm Hx) as [_ X]. congruence. }
  unfold main_action.
  destruct (s_error s) as [e|] eqn:Ee;
    [|destruct (s_caps s) as [sv|] eqn:Ec; [destruct (choose_base sv c) as [b| |x] eqn:Ech|]];
  unfold finish; constructor;
  cbn [s_base s_q s_pending s_wire s_listener s_event s_error s_sid s_caps s_alive s_main] in *; auto;
  try discriminate; try congruence;
  try (intros i fm Hx; exfalso; exact (I4' i fm Hx));
  try (intros X Y; exact (I6 X Y)); try (intros X Y; congruence);
  try (intros _; eexists; reflexivity).
  - intros _. exists sv. auto.
  - intros X Y. exfalso. exact (I6 He eq_refl eq_refl).
Qed.

Lemma inv_step c s l s1 : Inv c s -> step true c s l = Some s1 -> Inv c s1.
Proof.
  intros I H. destruct l as [r|h| | | |m].
  - eapply inv_top; eauto.
  - eapply inv_recv; eauto.
  - eapply inv_die; eauto.
  - cbn [step] in H. destruct (s_main s) eqn:Em; [|discriminate].
    destruct (s_event s) eqn:Ee.
    + inversion H; subst. apply inv_main_action; assumption.
    + inversion H; subst; clear H. destruct I as [I1 I2 I3 I4 I5 I6 I7].
      assert (Hn : s_main s <> MReturned None) by congruence.
      constructor; cbn [s_base s_q s_pending s_wire s_listener s_event s_error s_sid s_caps s_alive s_main] in *; auto;
      try discriminate; try (intros _; eexists; reflexivity).
      intros i fm Hx. destruct (I4 i fm Hx) as [_ X]. congruence.
  - cbn [step] in H. destruct (s_main s) eqn:Em; [|discriminate].
    destruct (s_event s) eqn:Ee; [|discriminate].
    inversion H; subst. apply inv_main_action; assumption.
  - inv_step H. destruct I as [I1 I2 I3 I4 I5 I6 I7].
    constructor; cbn [s_base s_q s_pending s_wire s_listener s_event s_error s_sid s_caps s_alive s_main] in *; auto.
    + destruct I1 as [(P & W & q1 & Q)|R]; [|right; exact R].
      left. repeat split; auto. rewrite Q. cbn. eauto.
    + intros Hm. congruence.
    + intros i fm Hx. destruct (I4 i fm Hx). auto.
    + intros _. eexists; reflexivity.
Qed.

Lemma inv_run c : forall ls s s1, Inv c s -> run_labels true c s ls = Some s1 -> Inv c s1.
Proof.
  induction ls as [|l ls IH]; intros s s1 I H; cbn in H.
  - inversion H; subst; exact I.
  - destruct (step true c s l) as [s2|] eqn:E; [|discriminate].
    eapply IH; [|exact H]. eapply inv_step; eauto.
Qed.

(* ------------------------------------------------------------ final statements *)
Lemma c05_first_frame : forall client labels s,
  run_labels true client init labels = Some s ->
  s_wire s = [] \/ exists rest, s_wire s = (B10, 0) :: rest.
Proof.
  intros c ls s H. pose proof (inv_run c ls init s (inv_init c) H) as I.
  destruct (i_first _ _ I) as [(_ & W & _)|(_ & R)]; auto.
Qed.

Lemma c05_iff : forall client labels s,
  run_labels true client init labels = Some s ->
  forall i f m, nth_error (s_wire s) (S i) = Some (f, m) ->
  s_main s = MReturned None /\
  exists sv, s_caps s = Some sv /\ (f = B11 <-> has11 sv /\ has11 client).
Proof.
  intros c ls s H i f m Hn. pose proof (inv_run c ls init s (inv_init c) H) as I.
  destruct (i_later _ _ I i (f, m) Hn) as [Hf Hm]. cbn in Hf. split; [exact Hm|].
  destruct (i_after _ _ I Hm) as (sv & Hc & Hch & _). exists sv. split; [exact Hc|].
  rewrite <- c05_choose_iff. rewrite Hch, Hf. split; congruence.
Qed.

(* bounded: once the deadline label has occurred _post_connect is no longer waiting *)
Lemma timeout_returns f c : forall ls s0 s,
  run_labels f c s0 ls = Some s -> In LTimeout ls -> exists r, s_main s = MReturned r.
Proof.
  induction ls as [|l ls IH]; intros s0 s H Hin; [destruct Hin|].
  cbn in H. destruct (step f c s0 l) as [s1|] eqn:E; [|discriminate].
  destruct Hin as [->|Hin]; [|eapply IH; eauto].
  assert (exists r, s_main s1 = MReturned r) as [r Hr].
  { cbn [step] in E. destruct (s_main s0); [|discriminate].
    destruct (s_event s0); inversion E; subst.
    - apply main_action_returned.
    - eexists; reflexivity. }
  exists r. eapply run_main_mono; eauto.
Qed.

Definition good (l : label) : Prop :=
  exists t sd uris, l = LRecv (HTree t) /\ parse_hello t = Ok (sd, uris).

Lemma main_action_caps c s : s_caps (main_action c s) = s_caps s /\ s_error (main_action c s) = s_error s.
Proof.
  unfold main_action, finish. destruct (s_error s); [split; reflexivity|].
  destruct (s_caps s); [|split; reflexivity]. destruct (choose_base l c); split; reflexivity.
Qed.

Lemma step_caps f c s l s1 : step f c s l = Some s1 -> ~ good l -> s_caps s1 = s_caps s.
Proof.
  intros H Hg. destruct l as [r|h| | | |m]; cbn [step] in H.
  - destruct (negb (s_alive s)); [discriminate|]. destruct (s_q s); [inversion H; reflexivity|].
    destruct r; inversion H; reflexivity.
  - destruct (negb (s_alive s)); [discriminate|]. destruct (negb (s_listener s)); [inversion H; reflexivity|].
    destruct h as [t|]; [|inversion H; reflexivity].
    destruct (parse_hello t) as [[sd uris]| |e] eqn:P; try (inversion H; reflexivity).
    exfalso. apply Hg. exists t, sd, uris. auto.
  - destruct (negb (s_alive s)); [discriminate|]. destruct (s_listener s); inversion H; reflexivity.
  - destruct (s_main s); [|discriminate]. destruct (s_event s); inversion H; subst; [apply main_action_caps|reflexivity].
  - destruct (s_main s); [|discriminate]. destruct (s_event s); inversion H; subst. apply main_action_caps.
  - destruct (s_main s) as [|[e|]]; try discriminate. destruct (s_alive s); inversion H; reflexivity.
Qed.

Lemma run_caps f c : forall ls s s1, run_labels f c s ls = Some s1 ->
  (forall l, In l ls -> ~ good l) -> s_caps s1 = s_caps s.
Proof.
  induction ls as [|l ls IH]; intros s s1 H Hg; cbn in H.
  - inversion H; reflexivity.
  - destruct (step f c s l) as [s2|] eqn:E; [|discriminate].
    rewrite (IH _ _ H) by (intros; apply Hg; right; assumption).
    eapply step_caps; eauto. apply Hg. left. reflexivity.
Qed.

(* connect never succeeds without a well-formed server hello *)
Lemma c05_needs_hello : forall client labels s,
  run_labels true client init labels = Some s ->
  (forall l, In l labels -> ~ good l) -> s_main s <> MReturned None.
Proof.
  intros c ls s H Hg Hm. pose proof (inv_run c ls init s (inv_init c) H) as I.
  destruct (i_after _ _ I Hm) as (sv & Hc & _).
  rewrite (run_caps _ _ _ _ _ H Hg) in Hc. discriminate.
Qed.

Lemma step_error_persist f c s l s1 e :
  s_error s = Some e -> step f c s l = Some s1 -> exists e1, s_error s1 = Some e1.
Proof.
  intros He H. destruct l as [r|h| | | |m]; cbn [step] in H.
  - destruct (negb (s_alive s)); [discriminate|]. destruct (s_q s); [inversion H; subst; eauto|].
    destruct r; inversion H; subst; cbn; eauto.
  - destruct (negb (s_alive s)); [discriminate|]. destruct (negb (s_listener s)); [inversion H; subst; eauto|].
    destruct h as [t|]; [|inversion H; subst; eauto].
    destruct (parse_hello t) as [[sd uris]| |x]; inversion H; subst; cbn; eauto.
  - destruct (negb (s_alive s)); [discriminate|]. destruct (s_listener s); inversion H; subst; cbn; eauto.
  - destruct (s_main s); [|discriminate]. destruct (s_event s); inversion H; subst; cbn; eauto.
    destruct (main_action_caps c s) as [_ E]. rewrite E. eauto.
  - destruct (s_main s); [|discriminate]. destruct (s_event s); inversion H; subst.
    destruct (main_action_caps c s) as [_ E]. rewrite E. eauto.
  - destruct (s_main s) as [|[x|]]; try discriminate. destruct (s_alive s); inversion H; subst; cbn; eauto.
Qed.

Lemma run_error_persist f c : forall ls s s1 e,
  s_error s = Some e -> run_labels f c s ls = Some s1 -> exists e1, s_error s1 = Some e1.
Proof.
  induction ls as [|l ls IH]; intros s s1 e He H; cbn in H.
  - inversion H; subst; eauto.
  - destruct (step f c s l) as [s2|] eqn:E; [|discriminate].
    destruct (step_error_persist _ _ _ _ _ _ He E) as [e2 He2]. eapply IH; eauto.
Qed.

(* the worker dies before a well-formed hello was processed: connect fails *)
Lemma c05_die_first : forall client pre post s,
  run_labels true client init (pre ++ LDie :: post) = Some s ->
  (forall l, In l pre -> ~ good l) -> s_main s <> MReturned None.
Proof.
  intros c pre post s H Hg Hm.
  destruct (run_app _ _ _ _ _ _ H) as (s1 & H1 & H2).
  pose proof (inv_run c pre init s1 (inv_init c) H1) as I1.
  pose proof (inv_run c _ init s (inv_init c) H) as I.
  assert (Hc : s_caps s1 = None) by (rewrite (run_caps _ _ _ _ _ H1 Hg); reflexivity).
  assert (Hn1 : s_main s1 <> MReturned None).
  { intros X. destruct (i_after _ _ I1 X) as (sv & Y & _). congruence. }
  cbn [run_labels] in H2. destruct (step true c s1 LDie) as [s2|] eqn:E; [|discriminate].
  cbn [step] in E. destruct (negb (s_alive s1)); [discriminate|].
  destruct (s_listener s1) eqn:L.
  - inversion E; subst; clear E.
    pose proof (fun He => run_error_persist true c post _ s ESessionClose He H2) as X.
    destruct (X eq_refl) as [e1 He1].
    destruct (i_after _ _ I Hm) as (sv & _ & _ & _ & X2). congruence.
  - inversion E; subst; clear E.
    destruct (i_lis _ _ I1 L) as [r Hr].
    assert (s_main s = MReturned r) by (eapply run_main_mono; [|exact H2]; exact Hr).
    congruence.
Qed.

Lemma c05_no_hang : forall client labels s,
  run_labels true client init labels = Some s ->
  (In LTimeout labels -> exists r, s_main s = MReturned r) /\
  ((forall l, In l labels -> ~ good l) -> s_main s <> MReturned None) /\
  (forall pre post, labels = pre ++ LDie :: post -> (forall l, In l pre -> ~ good l) -> s_main s <> MReturned None).
Proof.
  intros c ls s H. split; [|split].
  - intros Hin. eapply timeout_returns; eauto.
  - intros Hg. eapply c05_needs_hello; eauto.
  - intros pre post -> Hg. eapply c05_die_first; eauto.
Qed.
