(* RpcErrorsProofs.v — lemmas for property C06 (Model/RpcErrors.v against Spec/RpcErrorsSpec.v). *)
From Coq Require Import Btauto.
From NC Require Import Model.Base Model.Lit Model.RpcErrors Spec.RpcErrorsSpec Proofs.BaseFacts.

(* ---------- string predicates as decompositions ---------- *)
Lemma prefixb_iff p l : prefixb p l = true <-> exists b, l = p ++ b.
Proof.
  revert l; induction p as [|x p IH]; intros l; simpl.
  - split; [intros _; now exists l | reflexivity].
  - destruct l as [|y l].
    + split; [discriminate | intros [b Hb]; discriminate].
    + rewrite andb_true_iff, N.eqb_eq, IH. split.
      * intros [-> [b ->]]. now exists b.
      * intros [b Hb]. injection Hb as -> ->. split; [reflexivity | now exists b].
Qed.

Lemma startswith_iff s p : startswith s p = true <-> exists b, s = p ++ b.
Proof. apply prefixb_iff. Qed.

Lemma endswith_iff s p : endswith s p = true <-> exists a, s = a ++ p.
Proof.
  unfold endswith. rewrite prefixb_iff. split.
  - intros [b Hb]. exists (rev b).
    rewrite <- (rev_involutive s), Hb, rev_app_distr, rev_involutive. reflexivity.
  - intros [a ->]. exists (rev a). apply rev_app_distr.
Qed.

Lemma contains_iff s p : contains s p = true <-> exists a b, s = a ++ p ++ b.
Proof.
  induction s as [|x s IH].
  - simpl. rewrite orb_false_r, prefixb_iff. split.
    + intros [b Hb]. exists [], b. exact Hb.
    + intros [a [b Hb]]. destruct a; [now exists b|discriminate].
  - cbn [contains]. rewrite orb_true_iff, IH, prefixb_iff. split.
    + intros [[b Hb] | [a [b Hb]]].
      * exists [], b. exact Hb.
      * exists (x :: a), b. rewrite Hb. reflexivity.
    + intros [a [b Hb]]. destruct a as [|y a].
      * left. now exists b.
      * right. injection Hb as -> Hb. now exists a, b.
Qed.

Lemma contains_nil s : contains s [] = true.
Proof. destruct s; reflexivity. Qed.

Lemma endswith_nil s : endswith s [] = true.
Proof. apply endswith_iff. exists s. now rewrite app_nil_r. Qed.

(* ---------- the executable pattern semantics is the declarative one ---------- *)
Lemma matchesb_iff p t : matchesb p t = true <-> matches p t.
Proof.
  unfold matchesb, matches.
  destruct (strip_lead (lower p)) as [lead r]. destruct (strip_trail r) as [trail core].
  destruct lead, trail.
  - rewrite contains_iff. split.
    + intros [a [b H]]. exists a, b. repeat split; auto; discriminate.
    + intros [a [b [H _]]]. now exists a, b.
  - rewrite endswith_iff. split.
    + intros [a H]. exists a, []. rewrite app_nil_r. repeat split; auto; discriminate.
    + intros [a [b [H [_ Hb]]]]. rewrite (Hb eq_refl), app_nil_r in H. now exists a.
  - rewrite startswith_iff. split.
    + intros [b H]. exists [], b. repeat split; auto; discriminate.
    + intros [a [b [H [Ha _]]]]. rewrite (Ha eq_refl) in H. now exists b.
  - rewrite beq_eq. split.
    + intros ->. exists [], []. rewrite app_nil_r. auto.
    + intros [a [b [H [Ha Hb]]]]. rewrite (Ha eq_refl), (Hb eq_refl), app_nil_r in H. exact H.
Qed.

(* ---------- classification into four lists = per-pattern test ---------- *)
(* what the constructor + is_rpc_error_exempt do for ONE pattern *)
Definition cls_test (p t : bytes) : bool :=
  let e := lower p in
  if startswith e [STAR] then
    if endswith e [STAR] then contains t (removelast (tl e)) else endswith t (tl e)
  else if endswith e [STAR] then startswith t (removelast e) else beq t e.

Definition exempt_t (c : pclass) (t : bytes) : bool :=
  existsb (fun ex => beq t ex) (p_exact c)
  || existsb (fun ex => endswith t ex) (p_sfx c)
  || existsb (fun ex => startswith t ex) (p_pfx c)
  || existsb (fun ex => contains t ex) (p_infix c).

Lemma exempt_t_step c p t : exempt_t (classify1 c p) t = exempt_t c t || cls_test p t.
Proof.
  unfold classify1, cls_test, exempt_t.
  destruct (startswith (lower p) [STAR]); destruct (endswith (lower p) [STAR]); cbn [p_exact p_sfx p_pfx p_infix];
    rewrite existsb_app; cbn [existsb]; rewrite orb_false_r; btauto.
Qed.

Lemma exempt_t_fold pats : forall c t,
  exempt_t (fold_left classify1 pats c) t = exempt_t c t || existsb (fun p => cls_test p t) pats.
Proof.
  induction pats as [|p pats IH]; intros c t; cbn [fold_left existsb].
  - now rewrite orb_false_r.
  - rewrite IH, exempt_t_step, orb_assoc. reflexivity.
Qed.

Lemma rev_head_removelast (e r : bytes) c : rev e = c :: r -> removelast e = rev r /\ e = rev r ++ [c].
Proof.
  intros H. assert (E : e = rev r ++ [c]).
  { rewrite <- (rev_involutive e), H. reflexivity. }
  split; [|exact E]. rewrite E. apply removelast_last.
Qed.

Lemma endswith_star e : endswith e [STAR] = match rev e with c :: _ => N.eqb c STAR | [] => false end.
Proof.
  unfold endswith. cbn [rev app]. destruct (rev e) as [|c r]; cbn [prefixb]; [reflexivity|].
  rewrite N.eqb_sym. now rewrite andb_true_r.
Qed.

Lemma cls_test_matchesb p t : cls_test p t = matchesb p t.
Proof.
  unfold cls_test, matchesb. set (e := lower p). clearbody e.
  unfold startswith. destruct e as [|c r].
  - (* empty pattern *) reflexivity.
  - cbn [prefixb strip_lead]. rewrite andb_true_r, N.eqb_sym.
    destruct (N.eqb c STAR) eqn:Ec.
    + (* leading star *)
      cbn [tl]. rewrite endswith_star. unfold strip_trail.
      destruct r as [|d r'].
      * (* the pattern "*" *) cbn. rewrite Ec. apply contains_nil.
      * assert (Hr : rev (c :: d :: r') = rev (d :: r') ++ [c]) by reflexivity.
        rewrite Hr. destruct (rev (d :: r')) as [|z w] eqn:Erev.
        { apply (f_equal (@length N)) in Erev. rewrite rev_length in Erev. discriminate. }
        cbn [app]. destruct (N.eqb z STAR) eqn:Ez.
        -- destruct (rev_head_removelast (d :: r') w z Erev) as [-> _]. reflexivity.
        -- reflexivity.
    + (* no leading star *)
      rewrite endswith_star. unfold strip_trail.
      destruct (rev (c :: r)) as [|z w] eqn:Erev.
      { apply (f_equal (@length N)) in Erev. rewrite rev_length in Erev. discriminate. }
      destruct (N.eqb z STAR) eqn:Ez.
      * destruct (rev_head_removelast (c :: r) w z Erev) as [-> _]. reflexivity.
      * reflexivity.
Qed.

Lemma exempt_is_exempt_t c m : exempt c m = exempt_t c (error_text m).
Proof. reflexivity. Qed.

Lemma c06_match_bool pats m :
  exempt (classify pats) m = existsb (fun p => matchesb p (normalised m)) pats.
Proof.
  rewrite exempt_is_exempt_t. unfold classify. rewrite exempt_t_fold. cbn.
  unfold normalised. induction pats as [|p pats IH]; cbn [existsb]; [reflexivity|]. now rewrite IH, cls_test_matchesb.
Qed.

(* ---------- C06_match_spec ---------- *)
Lemma c06_match_spec pats m :
  Forall modelled_text pats -> modelled_text (match m with Some t => t | None => [] end) ->
  (exempt (classify pats) m = true <-> is_exempt pats m).
Proof.
  intros _ _. rewrite c06_match_bool, existsb_exists. unfold is_exempt.
  split; intros [p [Hin H]]; exists p; (split; [exact Hin|]); apply matchesb_iff; exact H.
Qed.

(* profile or user: the handler's pattern list is the union (fix F7) *)
Lemma c06_profile_or_user profile user m :
  exempt (classify (handler_patterns profile user)) m = true <->
  exists p, (In p profile \/ In p (match user with Some u => u | None => [] end)) /\ matches p (normalised m).
Proof.
  rewrite c06_match_bool, existsb_exists. unfold handler_patterns.
  split.
  - intros [p [Hin H]]. exists p. rewrite in_app_iff in Hin. split; [exact Hin|]. now apply matchesb_iff.
  - intros [p [Hin H]]. exists p. rewrite in_app_iff. split; [exact Hin|]. now apply matchesb_iff.
Qed.

(* degenerate patterns *)
Lemma matches_star t : matches [STAR] t.
Proof. apply matchesb_iff. unfold matchesb. cbn. reflexivity. Qed.
Lemma matches_starstar t : matches [STAR; STAR] t.
Proof. apply matchesb_iff. unfold matchesb. cbn. apply contains_nil. Qed.
Lemma matches_empty t : matches [] t <-> t = [].
Proof. rewrite <- matchesb_iff. unfold matchesb. cbn. apply beq_eq. Qed.

(* ---------- the raise decision ---------- *)
Lemma sev_is_error_spec e : sev_is_error e = has_severity_error e.
Proof. reflexivity. Qed.

Lemma c06_decide_spec mode errors pats :
  Forall modelled_text pats ->
  raises (decide mode errors (classify pats)) = should_raise mode errors pats.
Proof.
  intros _. unfold decide, should_raise. destruct errors as [|first rest]; [reflexivity|].
  rewrite c06_match_bool.
  destruct (existsb (fun p => matchesb p (normalised (e_message first))) pats); cbn [negb].
  - now rewrite andb_false_r.
  - rewrite andb_true_r.
    change (existsb sev_is_error (first :: rest)) with (existsb has_severity_error (first :: rest)).
    destruct (N.eqb mode MODE_ALL || (N.eqb mode MODE_ERRORS && existsb has_severity_error (first :: rest)));
      [destruct rest|]; reflexivity.
Qed.

Lemma c06_never_under_NONE errors c : decide MODE_NONE errors c = Return.
Proof. unfold decide. destruct errors as [|f r]; [reflexivity|]. destruct (exempt c (e_message f)); reflexivity. Qed.

(* any value that is neither ALL nor ERRORS behaves like NONE *)
Lemma c06_only_two_modes_raise mode errors c :
  mode <> MODE_ALL -> mode <> MODE_ERRORS -> decide mode errors c = Return.
Proof.
  intros H2 H1. unfold decide. destruct errors as [|f r]; [reflexivity|].
  destruct (exempt c (e_message f)); [reflexivity|].
  apply N.eqb_neq in H2, H1. rewrite H2, H1. reflexivity.
Qed.

Lemma c06_no_error_no_raise mode c : decide mode [] c = Return.
Proof. reflexivity. Qed.

(* what is raised: the single error itself, or an aggregate carrying every error of the reply in order *)
Lemma c06_aggregate_all mode errors c :
  raises (decide mode errors c) = true ->
  match errors with
  | [] => False
  | [e] => decide mode errors c = RaiseSingle e
  | _ => decide mode errors c = RaiseAggregate errors
  end.
Proof.
  unfold decide. destruct errors as [|f r]; [discriminate|].
  destruct (exempt c (e_message f)); [discriminate|].
  destruct (N.eqb mode MODE_ALL || (N.eqb mode MODE_ERRORS && existsb sev_is_error (f :: r))); [|discriminate].
  destruct r; reflexivity.
Qed.

Lemma c06_aggregate_carries mode errors c es :
  decide mode errors c = RaiseAggregate es -> es = errors /\ (2 <= length errors)%nat.
Proof.
  unfold decide. destruct errors as [|f r]; [discriminate|].
  destruct (exempt c (e_message f)); [discriminate|].
  destruct (N.eqb mode MODE_ALL || (N.eqb mode MODE_ERRORS && existsb sev_is_error (f :: r))); [|discriminate].
  destruct r; [discriminate|]. intros [= <-]. split; [reflexivity|cbn; lia].
Qed.

Lemma agg_sev_error e : beq (agg_sev e) s_error = true <-> e_severity e = Some s_error.
Proof.
  unfold agg_sev. destruct (e_severity e) as [[|c s]|]; cbn [truthy].
  - split; [discriminate|]. intros H. discriminate H.
  - rewrite beq_eq. split; [intros H; now rewrite H|intros H; now inversion H].
  - split; [discriminate|discriminate].
Qed.

Lemma c06_aggregate_severity es :
  (agg_severity es = s_error <-> exists e, In e es /\ e_severity e = Some s_error) /\
  (agg_severity es = s_error \/ agg_severity es = s_warning).
Proof.
  unfold agg_severity. destruct (existsb (fun e => beq (agg_sev e) s_error) es) eqn:E.
  - split; [|now left]. split; [intros _|reflexivity].
    apply existsb_exists in E as [e [Hin He]]. exists e. split; [exact Hin|]. now apply agg_sev_error.
  - split; [|now right]. split; [discriminate|].
    intros [e [Hin He]]. apply agg_sev_error in He.
    assert (X : existsb (fun e => beq (agg_sev e) s_error) es = true) by (apply existsb_exists; eauto).
    congruence.
Qed.

(* ---------- reply parsing mirrors the tree ---------- *)
Fixpoint node_ind' (P : node -> Prop)
  (H : forall t a x s ks, Forall P ks -> P (Elem t a x s ks)) (n : node) : P n :=
  match n with
  | Elem t a x s ks =>
      H t a x s ks ((fix go (l : list node) : Forall P l :=
                       match l with [] => Forall_nil P | k :: l' => Forall_cons k (node_ind' P H k) (go l') end) ks)
  end.

Lemma filter_subtree n : filter (named q_rpc_error) (subtree n) = errs_in n.
Proof.
  induction n as [t a x s ks IH] using node_ind'.
  cbn [subtree errs_in filter]. unfold named at 1. cbn [tag_of].
  assert (E : filter (named q_rpc_error) (flat_map subtree ks) = flat_map errs_in ks).
  { induction IH as [|k ks Hk _ IHks]; [reflexivity|]. cbn [flat_map]. now rewrite filter_app, Hk, IHks. }
  rewrite E. destruct (beq t q_rpc_error); reflexivity.
Qed.

Lemma filter_descendants root : filter (named q_rpc_error) (descendants root) = reply_rpc_errors root.
Proof.
  unfold descendants, reply_rpc_errors. induction (kids_of root) as [|k ks IH]; [reflexivity|].
  cbn [flat_map]. now rewrite filter_app, filter_subtree, IH.
Qed.

Lemma find_none_filter {A} (f : A -> bool) l : find f l = None -> filter f l = [].
Proof. induction l as [|x l IH]; cbn; [reflexivity|]. destruct (f x); [discriminate|exact IH]. Qed.

Lemma find_some_filter {A} (f : A -> bool) l x : find f l = Some x -> filter f l <> [] /\ f x = true.
Proof.
  induction l as [|y l IH]; cbn; [discriminate|]. destruct (f y) eqn:E.
  - intros [= <-]. split; [discriminate|exact E].
  - exact IH.
Qed.

Lemma find_child_ok root : find_child q_ok root = None <-> has_ok_child root = false.
Proof.
  unfold find_child, has_ok_child. induction (kids_of root) as [|k ks IH]; cbn; [tauto|].
  destruct (named q_ok k); cbn; [split; discriminate|exact IH].
Qed.

(* field extraction: the fold of setattr is "last child of that name wins" *)
Definition last_in (t : bytes) (ks : list node) : option node :=
  match rev (filter (named t) ks) with c :: _ => Some c | [] => None end.
Definition ftext (t : bytes) (ks : list node) : option bytes :=
  match last_in t ks with Some c => text_of c | None => None end.
Definition mirror_k (ks : list node) : rpc_error :=
  mkErr (ftext q_error_type ks) (ftext q_error_tag ks) (ftext q_error_app_tag ks) (ftext q_error_severity ks)
        (match last_in q_error_info ks with Some c => Some (ser_of c) | None => None end)
        (ftext q_error_path ks) (ftext q_error_message ks).

Lemma last_in_snoc t ks c :
  last_in t (ks ++ [c]) = if named t c then Some c else last_in t ks.
Proof.
  unfold last_in. rewrite filter_app. cbn [filter]. destruct (named t c).
  - now rewrite rev_app_distr.
  - now rewrite app_nil_r.
Qed.

Lemma mirror_is_mirror_k raw : mirror raw = mirror_k (kids_of raw).
Proof. reflexivity. Qed.

Lemma mk_error_fold ks : fold_left set_field ks err_empty = mirror_k ks.
Proof.
  induction ks as [|c ks IH] using rev_ind; [reflexivity|].
  rewrite fold_left_app. cbn [fold_left]. rewrite IH. clear IH.
  unfold mirror_k, ftext. rewrite !last_in_snoc. unfold set_field, named.
  destruct (beq (tag_of c) q_error_type) eqn:E1.
  { apply beq_eq in E1. rewrite E1. reflexivity. }
  destruct (beq (tag_of c) q_error_tag) eqn:E2.
  { apply beq_eq in E2. rewrite E2. reflexivity. }
  destruct (beq (tag_of c) q_error_app_tag) eqn:E3.
  { apply beq_eq in E3. rewrite E3. reflexivity. }
  destruct (beq (tag_of c) q_error_severity) eqn:E4.
  { apply beq_eq in E4. rewrite E4. reflexivity. }
  destruct (beq (tag_of c) q_error_info) eqn:E5.
  { apply beq_eq in E5. rewrite E5. reflexivity. }
  destruct (beq (tag_of c) q_error_path) eqn:E6.
  { apply beq_eq in E6. rewrite E6. reflexivity. }
  destruct (beq (tag_of c) q_error_message) eqn:E7.
  { reflexivity. }
  reflexivity.
Qed.

Lemma mk_error_mirror raw : mk_error raw = mirror raw.
Proof. unfold mk_error. rewrite mk_error_fold. reflexivity. Qed.

(* the error list for any root without an <ok/> child *)
Lemma parse_errors_any_root root :
  has_ok_child root = false ->
  parse_errors root = match reply_rpc_errors root with
                      | [] => []
                      | _ => map mirror (errs_in root)
                      end.
Proof.
  intros Hok. unfold parse_errors. apply find_child_ok in Hok. rewrite Hok.
  destruct (find (named q_rpc_error) (descendants root)) as [error|] eqn:F.
  - apply find_some_filter in F as [Hne Hnamed]. rewrite filter_descendants in Hne.
    unfold named in Hnamed. apply beq_eq in Hnamed. rewrite Hnamed, filter_subtree.
    destruct (reply_rpc_errors root); [congruence|].
    apply map_ext. intros a. apply mk_error_mirror.
  - apply find_none_filter in F. rewrite filter_descendants in F. now rewrite F.
Qed.

Lemma errs_in_root root : tag_of root <> q_rpc_error -> errs_in root = reply_rpc_errors root.
Proof.
  destruct root as [t a x s ks]. cbn [tag_of]. intros H. apply beq_neq in H.
  cbn [errs_in]. rewrite H. reflexivity.
Qed.

Lemma c06_errors_mirror root :
  has_ok_child root = false -> tag_of root <> q_rpc_error ->
  parse_errors root = map mirror (reply_rpc_errors root).
Proof.
  intros Hok Ht. rewrite (parse_errors_any_root root Hok), (errs_in_root root Ht).
  destruct (reply_rpc_errors root); reflexivity.
Qed.

Lemma c06_ok_iff root :
  has_ok_child root = false -> tag_of root <> q_rpc_error ->
  (reply_ok root = true <-> reply_rpc_errors root = []) /\
  reply_error root = hd_error (map mirror (reply_rpc_errors root)).
Proof.
  intros Hok Ht. unfold reply_ok, reply_error. rewrite (c06_errors_mirror root Hok Ht).
  split; [|reflexivity].
  destruct (reply_rpc_errors root); cbn; split; try reflexivity; discriminate.
Qed.

(* as coded (finding F6): an <ok/> child hides every rpc-error *)
Lemma c06_ok_child_masks root :
  has_ok_child root = true -> parse_errors root = [] /\ reply_ok root = true.
Proof.
  intros H. unfold reply_ok, parse_errors.
  destruct (find_child q_ok root) eqn:F; [split; reflexivity|].
  apply find_child_ok in F. congruence.
Qed.

(* ---------- [lower] is ASCII case folding ---------- *)
Definition ci_eq (c d : N) : Prop :=
  c = d \/ (65 <= c <= 90 /\ d = c + 32) \/ (65 <= d <= 90 /\ c = d + 32).

Lemma lower_byte_ci c d : lower_byte c = lower_byte d <-> ci_eq c d.
Proof.
  unfold lower_byte, ci_eq.
  destruct (65 <=? c) eqn:C1; destruct (c <=? 90) eqn:C2; destruct (65 <=? d) eqn:D1; destruct (d <=? 90) eqn:D2;
    cbn [andb];
    repeat match goal with
           | H : (_ <=? _) = true |- _ => apply N.leb_le in H
           | H : (_ <=? _) = false |- _ => apply N.leb_gt in H
           end; lia.
Qed.

Lemma lower_ci a : forall b, lower a = lower b <-> Forall2 ci_eq a b.
Proof.
  induction a as [|c a IH]; intros [|d b]; cbn.
  - split; [constructor|reflexivity].
  - split; [discriminate|intros H; inversion H].
  - split; [discriminate|intros H; inversion H].
  - split.
    + intros H. injection H as H1 H2. constructor; [now apply lower_byte_ci|now apply IH].
    + intros H. inversion H as [|? ? ? ? H1 H2]; subst. f_equal; [now apply lower_byte_ci|now apply IH].
Qed.
