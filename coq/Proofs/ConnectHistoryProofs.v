(* ConnectHistoryProofs.v — lemmas about Model/ConnectHistory.v (property C06, histories of connects). *)
From NC Require Import Model.Base Model.Lit Model.RpcErrors Model.ConnectHistory.
From NC Require Import Spec.RpcErrorsSpec Spec.ConnectHistorySpec Proofs.BaseFacts Proofs.RpcErrorsProofs.

(* one connect hands the caller's objects on as they were *)
Lemma c06_connect_frame profiles p st : fst (connect_step profiles p st) = p.
Proof.
  unfold connect_step.
  destruct (N.eqb (s_route st) 0).
  - destruct (make_device_handler _ _ _); [|reflexivity].
    destruct (ep_mode _); [destruct (dict_get k_raise_mode _)|]; reflexivity.
  - destruct (extract_errors_params _ _) as [ig mode].
    destruct (make_device_handler _ _ _); [|reflexivity].
    destruct (s_fail st); reflexivity.
Qed.

Lemma run_history_cons profiles p st rest :
  run_history profiles p (st :: rest) =
  (fst (run_history profiles (fst (connect_step profiles p st)) rest),
   snd (connect_step profiles p st) :: snd (run_history profiles (fst (connect_step profiles p st)) rest)).
Proof.
  simpl. destruct (connect_step profiles p st) as [p1 c]. simpl.
  destruct (run_history profiles p1 rest) as [p2 cs]. reflexivity.
Qed.

Lemma c06_history_frame profiles p steps : fst (run_history profiles p steps) = p.
Proof.
  induction steps as [|st rest IH]; [reflexivity|].
  rewrite run_history_cons. cbn [fst]. rewrite c06_connect_frame. exact IH.
Qed.

(* the k-th result of a history is the result of that connect alone on the untouched objects *)
Lemma c06_history_independent profiles p steps :
  snd (run_history profiles p steps) = map (fun st => snd (connect_step profiles p st)) steps.
Proof.
  induction steps as [|st rest IH]; [reflexivity|].
  rewrite run_history_cons. cbn [snd map]. rewrite c06_connect_frame, IH. reflexivity.
Qed.

Lemma mdh_asked profiles dp ig pats :
  make_device_handler profiles dp ig = Some pats ->
  exists ex, asked_profile profiles dp = Some ex /\ pats = handler_patterns ex ig.
Proof.
  unfold make_device_handler, asked_profile. intros H.
  destruct dp as [d|]; cbn [dict_get] in *.
  - destruct (dict_get k_handler d) as [[n|s|l|id ex|  |r]|] eqn:Eh;
      try (destruct (dict_get k_name d) as [[n'|s'|l'|id' ex'| |r']|];
           match type of H with
           | match dict_get ?k profiles with _ => _ end = _ =>
               destruct (dict_get k profiles) as [ex0|] eqn:Ep; [|discriminate];
               injection H as <-; exists ex0; split; [reflexivity|reflexivity]
           end).
    injection H as <-. exists ex. split; reflexivity.
  - destruct (dict_get k_default profiles) as [ex0|] eqn:Ep; [|discriminate].
    injection H as <-. exists ex0. split; reflexivity.
Qed.

Lemma k_raise_mode_ne_timeout : k_raise_mode <> k_timeout.
Proof. vm_compute. discriminate. Qed.

(* one connect: the manager has exactly what the caller's objects ask for *)
Lemma c06_connect_asked profiles p st m :
  by_hand_ok p st ->
  snd (connect_step profiles p st) = Connected m ->
  exists ex, asked_profile profiles (arg p (s_dp st)) = Some ex /\
             m_pats m = ex ++ asked_user (arg p (s_ep st)) /\
             m_mode m = asked_mode (arg p (s_ep st)).
Proof.
  unfold connect_step, by_hand_ok. intros Hok H.
  destruct (N.eqb (s_route st) 0) eqn:Er.
  - apply N.eqb_eq in Er. specialize (Hok Er).
    destruct (make_device_handler _ _ _) as [pats|] eqn:Em; [|discriminate].
    apply mdh_asked in Em. destruct Em as [ex [Ha ->]]. exists ex. split; [exact Ha|].
    unfold asked_user, asked_mode, handler_patterns.
    destruct (arg p (s_ep st)) as [ep|]; cbn [or_empty] in *.
    + destruct (ep_mode ep) as [mo|] eqn:Emo.
      * rewrite Hok in H. cbn [snd] in H. injection H as <-. cbn [m_pats m_mode manager_of].
        rewrite dict_get_set_same. split; reflexivity.
      * cbn [snd] in H. injection H as <-. cbn [m_pats m_mode manager_of]. rewrite Hok. split; reflexivity.
    + cbn in H. injection H as <-. cbn [m_pats m_mode manager_of]. rewrite Hok. split; [|reflexivity].
      reflexivity.
  - unfold extract_errors_params in H.
    destruct (make_device_handler _ _ _) as [pats|] eqn:Em; [|discriminate].
    apply mdh_asked in Em. destruct Em as [ex [Ha ->]]. exists ex. split; [exact Ha|].
    destruct (s_fail st); [discriminate|]. cbn [snd] in H. injection H as <-.
    cbn [m_pats m_mode manager_of]. rewrite dict_get_set_same.
    unfold asked_user, asked_mode, handler_patterns.
    destruct (arg p (s_ep st)) as [ep|]; cbn [or_empty]; split; reflexivity.
Qed.

(* ... hence a synchronous call on it decides as the connect-style composition of RpcErrors.v, and as the sentence *)
Lemma c06_connect_decision profiles p st m root :
  by_hand_ok p st ->
  snd (connect_step profiles p st) = Connected m ->
  exists ex, asked_profile profiles (arg p (s_dp st)) = Some ex /\
    mgr_outcome m root =
      call_outcome ex (Some (asked_user (arg p (s_ep st)))) (Some (asked_mode (arg p (s_ep st)))) root /\
    (Forall modelled_text (ex ++ asked_user (arg p (s_ep st))) ->
     raises (mgr_outcome m root) =
       should_raise (asked_mode (arg p (s_ep st))) (parse_errors root) (ex ++ asked_user (arg p (s_ep st)))).
Proof.
  intros Hok H. destruct (c06_connect_asked _ _ _ _ Hok H) as [ex [Ha [Hp Hm]]].
  exists ex. split; [exact Ha|]. unfold mgr_outcome. rewrite Hp, Hm. split.
  - reflexivity.
  - intros Hd. apply c06_decide_spec. exact Hd.
Qed.

Lemma nth_error_map_some {A B} (f : A -> B) l k b :
  nth_error (map f l) k = Some b -> exists a, nth_error l k = Some a /\ b = f a.
Proof.
  revert k; induction l as [|x l IH]; intros [|k] H; simpl in *; try discriminate.
  - injection H as <-. now exists x.
  - now apply IH.
Qed.

(* the k-th manager of ANY history over shared objects decides by its own connect's parameters alone *)
Lemma c06_history_decision profiles p steps k st m root :
  nth_error steps k = Some st ->
  by_hand_ok p st ->
  nth_error (snd (run_history profiles p steps)) k = Some (Connected m) ->
  exists ex, asked_profile profiles (arg p (s_dp st)) = Some ex /\
    mgr_outcome m root =
      call_outcome ex (Some (asked_user (arg p (s_ep st)))) (Some (asked_mode (arg p (s_ep st)))) root /\
    (Forall modelled_text (ex ++ asked_user (arg p (s_ep st))) ->
     raises (mgr_outcome m root) =
       should_raise (asked_mode (arg p (s_ep st))) (parse_errors root) (ex ++ asked_user (arg p (s_ep st)))).
Proof.
  intros Hs Hok Hk. rewrite c06_history_independent in Hk.
  apply nth_error_map_some in Hk. destruct Hk as [st' [Hs' Hc]].
  rewrite Hs in Hs'. injection Hs' as <-. symmetry in Hc.
  exact (c06_connect_decision _ _ _ _ root Hok Hc).
Qed.

(* two connects of a history that pass the same objects by the same route give managers that decide alike *)
Lemma c06_history_same_params profiles p steps j k sj sk :
  nth_error steps j = Some sj -> nth_error steps k = Some sk ->
  s_route sj = s_route sk -> s_dp sj = s_dp sk -> s_mp sj = s_mp sk -> s_ep sj = s_ep sk ->
  s_timeout sj = s_timeout sk -> s_fail sj = s_fail sk ->
  nth_error (snd (run_history profiles p steps)) j = nth_error (snd (run_history profiles p steps)) k.
Proof.
  intros Hj Hk Hr Hd Hm He Ht Hf. rewrite c06_history_independent.
  rewrite (map_nth_error _ _ _ Hj), (map_nth_error _ _ _ Hk). f_equal.
  unfold connect_step. rewrite Hr, Hd, Hm, He, Ht, Hf. reflexivity.
Qed.
