(* FramingProofs.v — lifting of the read-by-read simulations to whole segmentations, encoder
   round trips, and the C01/C14 statements. *)
From NC Require Import Model.Base Model.Utf8 Model.Framing10 Model.Framing11 Spec.RefFraming.
From NC Require Import Proofs.ListFacts Proofs.Utf8Facts Proofs.Framing10Proofs Proofs.Framing11Proofs.

(* ---------- generic lifting ---------- *)
Lemma sim_all {S T} (feed : S -> bytes -> S * list pevent) (ref : T -> bytes -> T * list pevent)
  (R : S -> T -> Prop) :
  (forall st rs seg st' evs, R st rs -> feed st seg = (st', evs) -> exists rs', ref rs seg = (rs', evs) /\ R st' rs') ->
  forall segs st rs, R st rs ->
  snd (feed_all feed st segs) = snd (feed_all ref rs segs) /\
  R (fst (feed_all feed st segs)) (fst (feed_all ref rs segs)).
Proof.
  intros Hstep. induction segs as [|seg segs IH]; intros st rs HR; [cbn; auto|].
  cbn [feed_all]. destruct (feed st seg) as [st1 e] eqn:F.
  destruct (Hstep _ _ _ _ _ HR F) as [rs1 [Hr HR1]]. rewrite Hr.
  destruct (IH _ _ HR1) as [IH1 IH2].
  destruct (feed_all feed st1 segs) as [st2 es]. destruct (feed_all ref rs1 segs) as [rs2 es'].
  cbn in *. split; [now rewrite IH1 | exact IH2].
Qed.

(* the reference automata do not see the segmentation *)
Lemma ref_all_concat {S} (step : S -> byte -> S * list pevent) : forall segs s,
  run_bytes step s (concat segs) =
  (fst (feed_all (run_bytes step) s segs), concat (snd (feed_all (run_bytes step) s segs))).
Proof.
  induction segs as [|seg segs IH]; intros s; [reflexivity|].
  cbn [concat feed_all]. rewrite run_bytes_app.
  destruct (run_bytes step s seg) as [s1 e1]. rewrite IH.
  destruct (feed_all (run_bytes step) s1 segs) as [s2 es]. reflexivity.
Qed.

Definition R10 (st : pst10) (rs : r10) : Prop := R st rs /\ Inv st.

Lemma c01_sim10 : forall segs : list bytes,
  snd (feed_all feed10 init10 segs) = snd (feed_all ref10 rinit10 segs).
Proof.
  intros segs. apply (sim_all feed10 ref10 R10).
  - intros st rs seg st' evs [HR HI] F. destruct (feed_sim10 _ _ _ _ _ HR HI F) as [rs' [H1 [H2 H3]]].
    exists rs'. split; [exact H1|split; assumption].
  - exact R_init10.
Qed.

Lemma sim11_full : forall segs : list bytes,
  snd (feed_all feed11 init11 segs) = snd (feed_all ref11 rinit11 segs) /\
  R11 (fst (feed_all feed11 init11 segs)) (fst (feed_all ref11 rinit11 segs)).
Proof. intros segs. apply (sim_all feed11 ref11 R11); [exact feed_sim11 | exact R_init11]. Qed.

Lemma c01_sim11 : forall segs : list bytes,
  snd (feed_all feed11 init11 segs) = snd (feed_all ref11 rinit11 segs).
Proof. intros segs. apply sim11_full. Qed.

(* all events of a run, in order *)
Definition events {S} (feed : S -> bytes -> S * list pevent) (st : S) (segs : list bytes) : list pevent :=
  concat (snd (feed_all feed st segs)).

Lemma c01_seg_indep10 : forall segs, events feed10 init10 segs = snd (ref10 rinit10 (concat segs)).
Proof. intros. unfold events, ref10. rewrite c01_sim10, ref_all_concat. reflexivity. Qed.

Lemma c01_seg_indep11 : forall segs, events feed11 init11 segs = snd (ref11 rinit11 (concat segs)).
Proof. intros. unfold events, ref11. rewrite c01_sim11, ref_all_concat. reflexivity. Qed.

(* ---------- round trip, 1.0 ---------- *)
(* the terminator is the first delimiter: none occurs in m followed by five octets of it *)
Definition clean10 (m : bytes) : Prop := ~ occurs delim10 (m ++ removelast delim10).

Lemma clean10_find m rest : clean10 m -> find_sub delim10 (m ++ delim10 ++ rest) = Some (m, rest).
Proof.
  intros Hc. assert (F : find_sub delim10 (m ++ delim10) = Some (m, [])).
  { destruct (find_sub delim10 (m ++ delim10)) as [[p q]|] eqn:F.
    - destruct (find_some _ _ _ _ F) as [E Hmin].
      assert (Lp : (length p <= length m)%nat) by (apply (Hmin m []); now rewrite app_nil_r).
      destruct q as [|q0 q'].
      + rewrite app_nil_r in E. apply app_inv_tail in E. now subst.
      + exfalso. apply Hc. destruct (@exists_last _ (q0 :: q')) as [q1 [y Eq]]; [discriminate|].
        rewrite Eq in E. change delim10 with (removelast delim10 ++ [62]) in E at 1.
        rewrite !app_assoc in E. apply app_inj_tail in E as [E _].
        exists p, q1. rewrite E. now rewrite <- !app_assoc.
    - exfalso. apply find_none in F. apply F. exists m, []. now rewrite app_nil_r. }
  rewrite app_assoc. apply (find_app _ _ rest) in F. exact F.
Qed.

Lemma c01_roundtrip10 : forall msgs : list bytes,
  Forall clean10 msgs -> Forall (fun m => utf8_valid m = true) msgs ->
  ref10 rinit10 (enc10 msgs) = (rinit10, map (fun m => Deliver (strip m)) msgs).
Proof.
  induction msgs as [|m msgs IH]; intros Hc Hv; [reflexivity|].
  inversion Hc as [|? ? Hc1 Hc2]; inversion Hv as [|? ? Hv1 Hv2]; subst.
  unfold enc10. cbn [map concat]. fold (enc10 msgs). rewrite <- app_assoc.
  change rinit10 with (live []) at 1.
  rewrite (ref_some _ [] m (enc10 msgs)).
  - unfold frame_out, decode_strict. rewrite Hv1. rewrite IH by assumption. reflexivity.
  - intros [p [q X]]. destruct p; discriminate.
  - cbn [app]. now apply clean10_find.
Qed.

(* ---------- decimal numerals ---------- *)
Lemma to_dec_f_val : forall f n acc, n < 2 ^ N.of_nat f ->
  fold_left digit_step (to_dec_f f n acc) 0 = fold_left digit_step acc n.
Proof.
  induction f as [|f IH]; intros n acc Hn.
  - cbn in Hn. assert (n = 0) by lia. subst. reflexivity.
  - cbn [to_dec_f]. pose proof (N.div_mod n 10 ltac:(lia)) as E.
    pose proof (N.mod_lt n 10 ltac:(lia)) as Hm.
    destruct (N.eqb_spec (n / 10) 0) as [Z|NZ].
    + cbn [fold_left]. f_equal. unfold digit_step. clear Hn IH.
      set (r := n mod 10) in *. set (q := n / 10) in *. clearbody r q. lia.
    + rewrite IH.
      * cbn [fold_left]. f_equal. unfold digit_step. clear Hn IH.
        set (r := n mod 10) in *. set (q := n / 10) in *. clearbody r q. lia.
      * rewrite Nat2N.inj_succ, N.pow_succ_r' in Hn.
        assert (n / 10 <= n / 2) by (apply N.div_le_compat_l; lia).
        assert (n / 2 < 2 ^ N.of_nat f) by (apply N.div_lt_upper_bound; lia). lia.
Qed.

Lemma to_dec_f_digits : forall f n acc, forallb is_digit acc = true -> forallb is_digit (to_dec_f f n acc) = true.
Proof.
  induction f as [|f IH]; intros n acc H; [exact H|]. cbn [to_dec_f].
  pose proof (N.mod_lt n 10 ltac:(lia)) as Hm.
  assert (D : is_digit (48 + n mod 10) = true).
  { unfold is_digit, in_rng. set (r := n mod 10) in *. clearbody r.
    apply andb_true_iff. split; apply N.leb_le; lia. }
  destruct (n / 10 =? 0); [|apply IH]; cbn [forallb]; now rewrite D, H.
Qed.

Lemma to_dec_f_nonempty : forall f n acc, acc <> [] -> to_dec_f f n acc <> [].
Proof.
  induction f as [|f IH]; intros n acc H; [exact H|]. cbn [to_dec_f].
  destruct (n / 10 =? 0); [discriminate|]. apply IH. discriminate.
Qed.

Lemma to_dec_spec n : to_dec n <> [] /\ forallb is_digit (to_dec n) = true /\ digits_val (to_dec n) = n.
Proof.
  unfold to_dec. split; [|split].
  - cbn [to_dec_f]. destruct (n / 10 =? 0); [discriminate|]. apply to_dec_f_nonempty. discriminate.
  - now apply to_dec_f_digits.
  - unfold digits_val. rewrite to_dec_f_val; [reflexivity|].
    rewrite Nat2N.inj_succ, N2Nat.id, N.pow_succ_r'. pose proof (N.size_gt n). lia.
Qed.

(* ---------- round trip, 1.1: every chunking ---------- *)
Lemma ref11_chunk m c rest : c <> [] ->
  ref11 (rl m H0) (enc_chunk c ++ rest) = ref11 (rl (m ++ c) H0) rest.
Proof.
  intros Hc. unfold enc_chunk. destruct (to_dec_spec (N.of_nat (length c))) as [D1 [D2 D3]].
  rewrite <- !app_assoc. cbn [app]. rewrite ref11_header by assumption. rewrite D3.
  assert (L : 1 <= N.of_nat (length c)) by (destruct c; [congruence|cbn [length]; lia]).
  destruct (N.eqb_spec (N.of_nat (length c)) 0) as [Z|_]; [lia|].
  apply ref11_body_full; [reflexivity|exact L].
Qed.

Lemma ref11_chunks : forall cs m rest, Forall (fun c => c <> []) cs ->
  ref11 (rl m H0) (concat (map enc_chunk cs) ++ rest) = ref11 (rl (m ++ concat cs) H0) rest.
Proof.
  induction cs as [|c cs IH]; intros m rest H.
  - cbn. now rewrite app_nil_r.
  - inversion H as [|? ? H1 H2]; subst. cbn [map concat]. rewrite <- app_assoc.
    rewrite ref11_chunk by exact H1. rewrite IH by exact H2. now rewrite <- app_assoc.
Qed.

Lemma ref11_msg cs rest : Forall (fun c => c <> []) cs ->
  ref11 rinit11 (enc_msg11 cs ++ rest) =
  match decode_strict (concat cs) with
  | Some t => let '(s, e) := ref11 rinit11 rest in (s, Deliver t :: e)
  | None => (rl (concat cs) Dead, [Raise K_UNICODE])
  end.
Proof.
  intros H. unfold enc_msg11. rewrite <- app_assoc. change rinit11 with (rl [] H0) at 1.
  rewrite ref11_chunks by exact H. cbn [app]. apply ref11_end.
Qed.

Lemma c01_roundtrip11 : forall css : list (list bytes),
  Forall (Forall (fun c => c <> [])) css -> Forall (fun cs => utf8_valid (concat cs) = true) css ->
  ref11 rinit11 (enc11 css) = (rinit11, map (fun cs => Deliver (concat cs)) css).
Proof.
  induction css as [|cs css IH]; intros Hc Hv; [reflexivity|].
  inversion Hc as [|? ? Hc1 Hc2]; inversion Hv as [|? ? Hv1 Hv2]; subst.
  unfold enc11. cbn [map concat]. fold (enc11 css). rewrite ref11_msg by exact Hc1.
  unfold decode_strict. rewrite Hv1. rewrite IH by assumption. reflexivity.
Qed.

(* ---------- headline: framing independent of segmentation and chunking ---------- *)
Lemma c01_framing_independent10 : forall (msgs segs : list bytes),
  Forall clean10 msgs -> Forall (fun m => utf8_valid m = true) msgs ->
  concat segs = enc10 msgs ->
  events feed10 init10 segs = map (fun m => Deliver (strip m)) msgs.
Proof. intros msgs segs Hc Hv E. rewrite c01_seg_indep10, E, c01_roundtrip10 by assumption. reflexivity. Qed.

Lemma c01_framing_independent11 : forall (css : list (list bytes)) (segs : list bytes),
  Forall (Forall (fun c => c <> [])) css -> Forall (fun cs => utf8_valid (concat cs) = true) css ->
  concat segs = enc11 css ->
  events feed11 init11 segs = map (fun cs => Deliver (concat cs)) css.
Proof. intros css segs Hc Hv E. rewrite c01_seg_indep11, E, c01_roundtrip11 by assumption. reflexivity. Qed.

(* ---------- round trips with an arbitrary continuation of the stream ---------- *)
Lemma roundtrip10_k : forall (msgs : list bytes) (rest : bytes),
  Forall clean10 msgs -> Forall (fun m => utf8_valid m = true) msgs ->
  ref10 rinit10 (enc10 msgs ++ rest) =
  (fst (ref10 rinit10 rest), map (fun m => Deliver (strip m)) msgs ++ snd (ref10 rinit10 rest)).
Proof.
  induction msgs as [|m msgs IH]; intros rest Hc Hv; [cbn; now destruct (ref10 rinit10 rest)|].
  inversion Hc as [|? ? Hc1 Hc2]; inversion Hv as [|? ? Hv1 Hv2]; subst.
  unfold enc10. cbn [map concat]. fold (enc10 msgs). rewrite <- !app_assoc.
  change rinit10 with (live []) at 1.
  rewrite (ref_some _ [] m (enc10 msgs ++ rest)).
  - unfold frame_out, decode_strict. rewrite Hv1. rewrite IH by assumption. reflexivity.
  - intros [p [q X]]. destruct p; discriminate.
  - cbn [app]. now apply clean10_find.
Qed.

Lemma roundtrip11_k : forall (css : list (list bytes)) (rest : bytes),
  Forall (Forall (fun c => c <> [])) css -> Forall (fun cs => utf8_valid (concat cs) = true) css ->
  ref11 rinit11 (enc11 css ++ rest) =
  (fst (ref11 rinit11 rest), map (fun cs => Deliver (concat cs)) css ++ snd (ref11 rinit11 rest)).
Proof.
  induction css as [|cs css IH]; intros rest Hc Hv; [cbn; now destruct (ref11 rinit11 rest)|].
  inversion Hc as [|? ? Hc1 Hc2]; inversion Hv as [|? ? Hv1 Hv2]; subst.
  unfold enc11. cbn [map concat]. fold (enc11 css). rewrite <- app_assoc. rewrite ref11_msg by exact Hc1.
  unfold decode_strict. rewrite Hv1. rewrite IH by assumption. reflexivity.
Qed.

(* ---------- C14 ---------- *)
Lemma c14_only_framed10 : forall segs : list bytes,
  deliveries (events feed10 init10 segs) = deliveries (snd (ref10 rinit10 (concat segs))).
Proof. intros. now rewrite c01_seg_indep10. Qed.

Lemma c14_only_framed11 : forall segs : list bytes,
  deliveries (events feed11 init11 segs) = deliveries (snd (ref11 rinit11 (concat segs))).
Proof. intros. now rewrite c01_seg_indep11. Qed.

(* the reference automaton dies only with a Raise *)
Lemma ref11_step_dies s x : dead_r11 s = false -> dead_r11 (fst (ref11_step s x)) = true ->
  raised (snd (ref11_step s x)) = true.
Proof.
  destruct s as [h m]. unfold ref11_step, dead_r11. cbn [hs msg11].
  destruct h; try discriminate; intros _;
    repeat match goal with
           | |- context [if ?c then _ else _] => destruct c
           | |- context [match decode_strict ?a with _ => _ end] => destruct (decode_strict a)
           end; cbn; try reflexivity; try discriminate.
Qed.

Lemma ref11_dies : forall l s, dead_r11 s = false -> dead_r11 (fst (ref11 s l)) = true ->
  raised (snd (ref11 s l)) = true.
Proof.
  induction l as [|x l IH]; intros s Ha Hd; [cbn in Hd; congruence|].
  rewrite ref11_cons in *. pose proof (ref11_step_dies s x Ha) as Hs.
  destruct (ref11_step s x) as [s1 e1]. cbn [fst snd] in Hs.
  specialize (IH s1). destruct (ref11 s1 l) as [s2 e2]. cbn [fst snd] in *.
  unfold raised in *. rewrite existsb_app. destruct (dead_r11 s1) eqn:D1.
  - rewrite Hs by reflexivity. reflexivity.
  - rewrite IH by auto. apply orb_true_r.
Qed.

Lemma c14_no_stall11 : forall segs : list bytes,
  dead_r11 (fst (ref11 rinit11 (concat segs))) = true ->
  dead11 (fst (feed_all feed11 init11 segs)) = true /\ raised (events feed11 init11 segs) = true.
Proof.
  intros segs Hd. split.
  - destruct (sim11_full segs) as [_ HR]. unfold ref11 in Hd. rewrite ref_all_concat in Hd. cbn [fst] in Hd.
    fold ref11 in Hd. unfold R11 in HR. destruct (dead11 (fst (feed_all feed11 init11 segs))); [reflexivity|].
    destruct HR as [HR _]. congruence.
  - rewrite c01_seg_indep11. apply ref11_dies; [reflexivity|exact Hd].
Qed.

(* once dead, the model stays dead and silent (Session.run has left its loop) *)
Lemma dead11_absorbing st seg : dead11 st = true -> feed11 st seg = (st, []).
Proof. intros H. unfold feed11. now rewrite H. Qed.
Lemma dead10_absorbing st seg : dead10 st = true -> feed10 st seg = (st, []).
Proof. intros H. unfold feed10. now rewrite H. Qed.

(* every delivered message is the decoding of valid UTF-8 *)
Lemma run_bytes_Forall {S} (step : S -> byte -> S * list pevent) (P : pevent -> Prop) :
  (forall s x, Forall P (snd (step s x))) -> forall l s, Forall P (snd (run_bytes step s l)).
Proof.
  intros Hs. induction l as [|x l IH]; intros s; [constructor|].
  cbn [run_bytes]. pose proof (Hs s x) as H1. destruct (step s x) as [s1 e1].
  pose proof (IH s1) as H2. destruct (run_bytes step s1 l) as [s2 e2]. cbn [snd] in *.
  apply Forall_app. auto.
Qed.

Definition decoded11 (e : pevent) : Prop := match e with Deliver m => utf8_valid m = true | Raise _ => True end.
Definition decoded10 (e : pevent) : Prop :=
  match e with Deliver m => exists t, utf8_valid t = true /\ m = strip t | Raise _ => True end.

Lemma c14_undecodable11 : forall (segs : list bytes) (m : bytes),
  In (Deliver m) (events feed11 init11 segs) -> utf8_valid m = true.
Proof.
  intros segs m Hin. rewrite c01_seg_indep11 in Hin.
  assert (F : Forall decoded11 (snd (ref11 rinit11 (concat segs)))).
  { apply run_bytes_Forall. intros [h msg] x. unfold ref11_step. cbn [hs msg11].
    destruct h; repeat match goal with
           | |- context [if ?c then _ else _] => destruct c
           | |- context [match decode_strict ?a with _ => _ end] => destruct (decode_strict a) eqn:?
           end; cbn [snd]; repeat constructor.
    unfold decode_strict in *. destruct (utf8_valid msg) eqn:V; [|discriminate]. congruence. }
  rewrite Forall_forall in F. exact (F _ Hin).
Qed.

Lemma c14_undecodable10 : forall (segs : list bytes) (m : bytes),
  In (Deliver m) (events feed10 init10 segs) -> exists t, utf8_valid t = true /\ m = strip t.
Proof.
  intros segs m Hin. rewrite c01_seg_indep10 in Hin.
  assert (F : Forall decoded10 (snd (ref10 rinit10 (concat segs)))).
  { apply run_bytes_Forall. intros [a d] x. unfold ref10_step. cbn [rdead10 acc10].
    destruct d; [constructor|]. destruct (find_sub delim10 _) as [[m0 r0]|]; [|constructor].
    destruct (decode_strict m0) as [t|] eqn:D; cbn [snd]; repeat constructor.
    unfold decode_strict in D. destruct (utf8_valid m0) eqn:V; [|discriminate]. injection D as <-.
    cbn. eauto. }
  rewrite Forall_forall in F. exact (F _ Hin).
Qed.

(* a correctly framed message whose octets are not valid UTF-8 ends the session: after the
   messages before it, a Raise and nothing else — whatever follows, however it is cut *)
Lemma c14_undecodable_frame11 : forall (css : list (list bytes)) (cs : list bytes) (rest : bytes) (segs : list bytes),
  Forall (Forall (fun c => c <> [])) css -> Forall (fun cs => utf8_valid (concat cs) = true) css ->
  Forall (fun c => c <> []) cs -> utf8_valid (concat cs) = false ->
  concat segs = enc11 css ++ enc_msg11 cs ++ rest ->
  events feed11 init11 segs = map (fun cs => Deliver (concat cs)) css ++ [Raise K_UNICODE].
Proof.
  intros css cs rest segs Hc Hv Hc1 Hbad E.
  rewrite c01_seg_indep11, E, roundtrip11_k by assumption. cbn [snd].
  rewrite ref11_msg by exact Hc1. unfold decode_strict. rewrite Hbad. reflexivity.
Qed.

Lemma c14_undecodable_frame10 : forall (msgs : list bytes) (m rest : bytes) (segs : list bytes),
  Forall clean10 msgs -> Forall (fun m => utf8_valid m = true) msgs ->
  clean10 m -> utf8_valid m = false ->
  concat segs = enc10 msgs ++ m ++ delim10 ++ rest ->
  events feed10 init10 segs = map (fun m => Deliver (strip m)) msgs ++ [Raise K_UNICODE].
Proof.
  intros msgs m rest segs Hc Hv Hc1 Hbad E.
  rewrite c01_seg_indep10, E, roundtrip10_k by assumption. cbn [snd].
  change rinit10 with (live []). rewrite (ref_some _ [] m rest).
  - unfold frame_out, decode_strict. rewrite Hbad. reflexivity.
  - intros [p [q X]]. destruct p; discriminate.
  - cbn [app]. now apply clean10_find.
Qed.

(* a natural sufficient condition for [clean10]: the message does not contain "]]>" at all (true
   of every well-formed XML document without CDATA sections / comments ending in it) *)
Definition t3 : bytes := [93; 93; 62].
Lemma clean10_sufficient : forall m : bytes, ~ occurs t3 m -> clean10 m.
Proof.
  intros m. unfold clean10. change (removelast delim10) with [93; 93; 62; 93; 93].
  induction m as [|a m IH]; intros Hn O; apply contains_occurs in O.
  - vm_compute in O. discriminate.
  - change ((a :: m) ++ [93; 93; 62; 93; 93]) with (a :: m ++ [93; 93; 62; 93; 93]) in O.
    cbn [contains] in O. apply orb_true_iff in O as [O|O].
    + destruct m as [|b [|c m']].
      * unfold delim10 in O. cbn [app prefixb] in O. change (62 =? 93) with false in O.
        rewrite !andb_false_r in O. discriminate.
      * unfold delim10 in O. cbn [app prefixb] in O. change (62 =? 93) with false in O.
        rewrite !andb_false_r in O. discriminate.
      * unfold delim10 in O. cbn [app prefixb] in O.
        destruct (N.eqb_spec 93 a) as [<-|]; [|discriminate].
        destruct (N.eqb_spec 93 b) as [<-|]; [|discriminate].
        destruct (N.eqb_spec 62 c) as [<-|]; [|discriminate].
        apply Hn. exists [], m'. reflexivity.
    + apply IH.
      * intros O'. apply Hn. apply (occurs_app_r _ _ [a]) in O'. exact O'.
      * apply contains_occurs. exact O.
Qed.
