(* Proofs/CloseCallersProofs.v — C12 for every kind of caller of close() and for two sessions in
   one process (Model/CloseCallers.v): a close() called by the thread of ANOTHER session (one of
   that session's listeners closes this one) is, for the session that is closed, a close() called
   by a client thread - every C12 statement holds for it. *)
From Coq Require Import Lia.
From NC Require Import Model.Base Model.Close Model.CloseCallers Spec.CloseSpec.
From NC Require Import Proofs.CloseProofs Proofs.CloseThms Proofs.CloseSsh Proofs.CloseWake.

(* ---------------- 1. kinds of caller ---------------- *)
Lemma actor_of_not_own : forall c, is_own c = false -> actor_of c = Client.
Proof. intros c H; unfold actor_of; rewrite H; reflexivity. Qed.

Lemma actor_of_own : forall c, is_own c = true -> actor_of c = Worker.
Proof. intros c H; unfold actor_of; rewrite H; reflexivity. Qed.

(* every caller other than the session's own thread - the thread of another session included -
   executes close() exactly as a client thread does *)
Lemma c12_caller_as_client : forall c, is_own c = false ->
  forall s st did,
    step s (CStep (actor_of c) st did) = step s (CStep Client st did) /\
    step s (CloseRet (actor_of c)) = step s (CloseRet Client).
Proof. intros c H s st did; rewrite (actor_of_not_own _ H); split; reflexivity. Qed.

(* the wait for the session thread is skipped by the session's own thread ONLY: whoever else
   passes the join statement of close() - performed or found unnecessary - leaves a worker that
   has ended (or was never started) behind; the own thread never performs it *)
Lemma c12_close_waits_unless_own : forall c s did s',
  do_cstep s (actor_of c) JoinW did = Some s' ->
  (is_own c = false -> not_alive (worker s) = true /\ s' = s) /\
  (is_own c = true -> did = false /\ s' = s).
Proof.
  intros c s did s' H; split; intro O.
  - rewrite (actor_of_not_own _ O) in H. simpl in H.
    destruct did.
    + destruct (worker s) eqn:W; try discriminate. inversion H; subst. split; reflexivity.
    + destruct (not_alive (worker s)) eqn:N; [|discriminate]. inversion H; subst. split; reflexivity.
  - rewrite (actor_of_own _ O) in H. simpl in H. destruct did; [discriminate|]. inversion H; auto.
Qed.

(* the property for the closed session, whoever (but its own thread) called close() *)
Lemma c12_caller_released : forall c t ls s, is_own c = false ->
  run_of t ls s -> In (CloseRet (actor_of c)) ls ->
  released s /\ peer_saw_eof s = true /\ callbacks_after_close s = 0%N /\ (In Start ls -> worker s = WExited) /\
  (forall rid, step s (Submit rid true) = None).
Proof.
  intros c t ls s O R Hin. rewrite (actor_of_not_own _ O) in Hin.
  destruct (c12_released _ _ _ R Hin) as (Rel & _ & P).
  split; [exact Rel|]. split; [exact P|]. split; [exact (i_cb _ (run_inv _ _ _ R))|].
  split; [exact (proj2 (c12_worker_exited _ _ _ R Hin))|].
  intro rid. exact (proj1 (c12_refused_after _ _ _ rid R Hin)).
Qed.

(* ---------------- 2. two sessions ---------------- *)
Lemma sess_set_same : forall y x s, sess (set_sess y x s) x = s.
Proof. destruct x; reflexivity. Qed.
Lemma sess_set_other : forall y x s, sess (set_sess y x s) (other x) = sess y (other x).
Proof. destruct x; reflexivity. Qed.
Lemma sess_set_busy : forall y x b z, sess (set_busy y x b) z = sess y z.
Proof. destruct x, z; reflexivity. Qed.
Lemma busy_set_sess : forall y x s z, busy (set_sess y x s) z = busy y z.
Proof. destruct x, z; reflexivity. Qed.
Lemma busy_set_same : forall y x b, busy (set_busy y x b) x = b.
Proof. destruct x; reflexivity. Qed.
Lemma busy_set_other : forall y x b, busy (set_busy y x b) (other x) = busy y (other x).
Proof. destruct x; reflexivity. Qed.
Lemma set_sess_twice : forall y x s s', set_sess (set_sess y x s) x s' = set_sess y x s'.
Proof. destruct x; reflexivity. Qed.
Lemma other_other : forall x, other (other x) = x.
Proof. destruct x; reflexivity. Qed.
Lemma side_eqb_refl : forall x, side_eqb x x = true.
Proof. destruct x; reflexivity. Qed.
Lemma side_eqb_other : forall x, side_eqb x (other x) = false /\ side_eqb (other x) x = false.
Proof. destruct x; split; reflexivity. Qed.

(* what a step of the pair is for each of the two sessions: a step (or nothing) of Model/Close.v,
   the statements of the foreign close() being those of a CLIENT thread *)
Lemma step2_seen : forall y l y' x, step2 y l = Some y' ->
  accepts (sess y x) (seen_by x l) = Some (sess y' x).
Proof.
  intros y l y' x H. destruct l as [z l|z|z c d|z]; unfold step2 in H; unfold actor_of in H; simpl is_own in H; cbv iota in H.
  - destruct (is_worker_label l && busy y z); [discriminate|].
    destruct (is_client_close_label l && busy y (other z)); [discriminate|].
    destruct (step (sess y z) l) as [s|] eqn:E; [|discriminate]. inversion H; subst; clear H.
    destruct x, z; simpl in *; rewrite ?E; reflexivity.
  - destruct (at_listeners (worker (sess y (other z))) && negb (busy y (other z))); [|discriminate].
    destruct (step (sess y z) CloseCall) as [s|] eqn:E; [|discriminate]. inversion H; subst; clear H.
    destruct x, z; simpl in *; rewrite ?E; reflexivity.
  - destruct (busy y (other z)); [|discriminate].
    destruct (step (sess y z) (CStep Client c d)) as [s|] eqn:E; [|discriminate]. inversion H; subst; clear H.
    destruct x, z; simpl in *; rewrite ?E; reflexivity.
  - destruct (busy y (other z)); [|discriminate].
    destruct (step (sess y z) (CloseRet Client)) as [s|] eqn:E; [|discriminate]. inversion H; subst; clear H.
    destruct x, z; simpl in *; rewrite ?E; reflexivity.
Qed.

Lemma project_app : forall x l1 l2, project x (l1 ++ l2) = project x l1 ++ project x l2.
Proof. induction l1 as [|l l1 IH]; simpl; intros; [reflexivity|]. rewrite IH, app_assoc; reflexivity. Qed.

Lemma c12_two_sessions_project : forall ls y y' x,
  accepts2 y ls = Some y' -> accepts (sess y x) (project x ls) = Some (sess y' x).
Proof.
  induction ls as [|l ls IH]; simpl; intros y y' x H.
  - inversion H; reflexivity.
  - destruct (step2 y l) as [y1|] eqn:E; [|discriminate].
    rewrite accepts_app, (step2_seen _ _ _ x E). apply IH; exact H.
Qed.

Definition tr_of (ta tb : transport) (x : side) : transport := match x with SA => ta | SB => tb end.

Lemma run2_run : forall ta tb ls y x,
  accepts2 (init2 ta tb) ls = Some y -> run_of (tr_of ta tb x) (project x ls) (sess y x).
Proof.
  intros ta tb ls y x H. unfold run_of.
  replace (init (tr_of ta tb x)) with (sess (init2 ta tb) x) by (destruct x; reflexivity).
  apply c12_two_sessions_project; exact H.
Qed.

Lemma in_project : forall x l ls, In l ls -> forall b, In b (seen_by x l) -> In b (project x ls).
Proof.
  induction ls as [|l0 ls IH]; simpl; intros Hin b Hb; [contradiction|].
  apply in_or_app. destruct Hin as [E|Hin]; [subst; left; exact Hb | right; apply IH; assumption].
Qed.

(* a close() of session x called by a listener of the other session has returned: x is released *)
Lemma c12_foreign_close_released : forall ta tb ls y x,
  accepts2 (init2 ta tb) ls = Some y -> In (FRet x) ls ->
  released (sess y x) /\ peer_saw_eof (sess y x) = true /\ callbacks_after_close (sess y x) = 0%N /\
  (In Start (project x ls) -> worker (sess y x) = WExited) /\
  (forall rid, step (sess y x) (Submit rid true) = None).
Proof.
  intros ta tb ls y x H Hin.
  apply (c12_caller_released OtherSession (tr_of ta tb x) (project x ls)); [reflexivity | apply run2_run; exact H |].
  eapply in_project; [exact Hin|]. simpl. rewrite side_eqb_refl. left; reflexivity.
Qed.

(* ... and from then on the thread of x makes no step: none of x's listeners is invoked *)
Lemma c12_foreign_no_late_listener : forall ta tb l1 l2 y x,
  accepts2 (init2 ta tb) (l1 ++ FRet x :: l2) = Some y ->
  forall l, In (Own x l) l2 -> is_worker_label l = false /\ is_callback_label l = false.
Proof.
  intros ta tb l1 l2 y x H l Hin.
  pose proof (run2_run _ _ _ _ x H) as R. rewrite project_app in R. simpl in R. rewrite side_eqb_refl in R. simpl in R.
  destruct (c12_no_late_callback _ _ _ _ R) as [N _]. apply N.
  eapply in_project; [exact Hin|]. simpl. rewrite side_eqb_refl. left; reflexivity.
Qed.

(* ---------------- the foreign close() returns ---------------- *)
(* labels other than those of a client close() leave the close() in progress where it is *)
Lemma cprog_kept : forall s l s', step s l = Some s' -> is_client_close_label l = false -> cprog s' = cprog s.
Proof.
  intros s l s' H N.
  destruct (is_worker_label l) eqn:W; [eapply worker_label_cprog; eauto|].
  destruct l; simpl in N, W; try discriminate; try (destruct a; discriminate);
    unfold step in H; crunch; simpl; try reflexivity.
Qed.

(* while the thread of (other x) is inside x.close(), that close() is in progress on x *)
Definition foreign_inv (y : sys) : Prop :=
  forall x, busy y (other x) = true -> exists rest, cprog (sess y x) = Some rest.

Lemma foreign_inv_init : forall ta tb, foreign_inv (init2 ta tb).
Proof. intros ta tb x H; destruct x; discriminate. Qed.

Lemma foreign_inv_step : forall y l y', foreign_inv y -> step2 y l = Some y' -> foreign_inv y'.
Proof.
  intros y l y' I H x B. destruct l as [z l|z|z c d|z]; unfold step2 in H; unfold actor_of in H; simpl is_own in H; cbv iota in H.
  - destruct (is_worker_label l && busy y z); [discriminate|].
    destruct (is_client_close_label l && busy y (other z)) eqn:G; [discriminate|].
    destruct (step (sess y z) l) as [s|] eqn:E; [|discriminate]. inversion H; subst; clear H.
    rewrite busy_set_sess in B. destruct (I x B) as [rest Cp].
    destruct x, z; simpl in *; try (exists rest; exact Cp).
    + rewrite B, Bool.andb_true_r in G. rewrite (cprog_kept _ _ _ E G). exists rest; exact Cp.
    + rewrite B, Bool.andb_true_r in G. rewrite (cprog_kept _ _ _ E G). exists rest; exact Cp.
  - destruct (at_listeners (worker (sess y (other z))) && negb (busy y (other z))); [|discriminate].
    destruct (step (sess y z) CloseCall) as [s|] eqn:E; [|discriminate]. inversion H; subst; clear H.
    assert (Cs : exists rest, cprog s = Some rest).
    { unfold step in E. crunch; simpl; eauto. }
    destruct x, z; simpl in *; try exact Cs; apply (I SA) || apply (I SB); exact B.
  - destruct (busy y (other z)) eqn:Bz; [|discriminate].
    destruct (step (sess y z) (CStep Client c d)) as [s|] eqn:E; [|discriminate]. inversion H; subst; clear H.
    assert (Cs : exists rest, cprog s = Some rest).
    { unfold step in E. crunch; simpl; eauto. }
    rewrite busy_set_sess in B.
    destruct x, z; simpl in *; try exact Cs; apply (I SA) || apply (I SB); exact B.
  - destruct (busy y (other z)) eqn:Bz; [|discriminate].
    destruct (step (sess y z) (CloseRet Client)) as [s|] eqn:E; [|discriminate]. inversion H; subst; clear H.
    destruct x, z; simpl in *; try discriminate; apply (I SA) || apply (I SB); exact B.
Qed.

Lemma foreign_inv_run : forall ls y y', foreign_inv y -> accepts2 y ls = Some y' -> foreign_inv y'.
Proof.
  induction ls as [|l ls IH]; simpl; intros y y' I H; [inversion H; subst; exact I|].
  destruct (step2 y l) as [y1|] eqn:E; [|discriminate]. eapply IH; [eapply foreign_inv_step; eauto | exact H].
Qed.

Lemma lift_worker : forall x l, is_worker_label l = true -> lift_foreign x l = Own x l /\ is_client_close_label l = false.
Proof. intros x l W; destruct l; simpl in W; try discriminate; try (destruct a; try discriminate); split; reflexivity. Qed.

(* steps of x's worker and statements of the close() in progress on x, taken in Model/Close.v, are
   steps of the pair while the closing thread is the other session's and x's own thread is free *)
Lemma lift_run : forall x l1 y s1,
  busy y x = false -> busy y (other x) = true ->
  (forall l, In l l1 -> is_worker_label l = true \/ exists c d, l = CStep Client c d) ->
  accepts (sess y x) l1 = Some s1 ->
  accepts2 y (map (lift_foreign x) l1) = Some (set_sess y x s1).
Proof.
  induction l1 as [|l l1 IH]; simpl; intros y s1 B1 B2 Lab H.
  - inversion H; subst. destruct x, y; reflexivity.
  - destruct (step (sess y x) l) as [s|] eqn:E; [|discriminate].
    assert (E2 : step2 y (lift_foreign x l) = Some (set_sess y x s)).
    { destruct (Lab l (or_introl eq_refl)) as [W|(c & d & L)].
      - destruct (lift_worker x l W) as [L N]. rewrite L. unfold step2. rewrite B1, N, Bool.andb_false_r. simpl. rewrite E. reflexivity.
      - subst l. unfold lift_foreign, step2. rewrite B2. unfold actor_of; simpl is_own; cbv iota. rewrite E. reflexivity. }
    rewrite E2. rewrite <- (set_sess_twice y x s s1). apply IH.
    + rewrite busy_set_sess; exact B1.
    + rewrite busy_set_sess; exact B2.
    + intros l0 Hl; apply Lab; right; exact Hl.
    + rewrite sess_set_same; exact H.
Qed.

Lemma accepts2_snoc : forall m y0 y1 l y2,
  accepts2 y0 m = Some y1 -> step2 y1 l = Some y2 -> accepts2 y0 (m ++ [l]) = Some y2.
Proof.
  induction m as [|a m IH]; intros y0 y1 l y2 A S; cbn [accepts2 app] in *.
  - inversion A; subst. rewrite S. reflexivity.
  - destruct (step2 y0 a); [eapply IH; eauto | discriminate].
Qed.

(* cut a continuation at the first return of the client close() *)
Lemma first_closeret : forall ls, In (CloseRet Client) ls ->
  exists l1 l2, ls = l1 ++ CloseRet Client :: l2 /\ ~ In (CloseRet Client) l1.
Proof.
  induction ls as [|l ls IH]; simpl; intros H; [contradiction|].
  assert (D : l = CloseRet Client \/ l <> CloseRet Client).
  { destruct l; try (right; discriminate). destruct a; [left; reflexivity | right; discriminate]. }
  destruct D as [D|D].
  - exists [], ls. subst; split; [reflexivity | intros []].
  - destruct H as [H|H]; [congruence|]. destruct (IH H) as (l1 & l2 & E & N).
    exists (l :: l1), l2. subst; split; [reflexivity|]. intros [X|X]; [congruence | exact (N X)].
Qed.

(* A listener of the other session is inside x.close() (its thread is the closer), and x's own
   thread is not itself inside a close() of the other session: the steps of the closer and of x's
   worker ALONE bring that close() to its return - and then x is released, its worker ended. *)
Lemma c12_foreign_close_returns : forall ta tb ls0 y x,
  accepts2 (init2 ta tb) ls0 = Some y ->
  busy y (other x) = true -> busy y x = false ->
  exists ls y', accepts2 y ls = Some y' /\ In (FRet x) ls /\
    (forall l, In l ls -> l = FRet x \/ (exists c d, l = FStmt x c d) \/ exists wl, l = Own x wl /\ is_worker_label wl = true) /\
    busy y' (other x) = false /\ sess y' (other x) = sess y (other x) /\
    released (sess y' x) /\ client_closed (sess y' x) = true /\ peer_saw_eof (sess y' x) = true.
Proof.
  intros ta tb ls0 y x H B2 B1.
  pose proof (foreign_inv_run _ _ _ (foreign_inv_init ta tb) H) as FI.
  destruct (FI x B2) as [rest Cp].
  pose proof (run2_run _ _ _ _ x H) as R.
  destruct (c12_close_returns _ _ _ _ R Cp) as (ls & s' & Ac & Hin & Lab & _).
  destruct (first_closeret _ Hin) as (l1 & l2 & E & N). subst ls.
  rewrite accepts_app in Ac. destruct (accepts (sess y x) l1) as [s1|] eqn:A1; [|discriminate].
  rewrite accepts_cons in Ac. destruct (step s1 (CloseRet Client)) as [s2|] eqn:E2; [|discriminate].
  assert (Lab1 : forall l, In l l1 -> is_worker_label l = true \/ exists c d, l = CStep Client c d).
  { intros l Hl. destruct (Lab l (in_or_app _ _ _ (or_introl Hl))) as [W|[X|X]]; [left; exact W | subst; contradiction | right; exact X]. }
  pose proof (lift_run x l1 y s1 B1 B2 Lab1 A1) as L1.
  set (y1 := set_sess y x s1) in *.
  assert (S2 : step2 y1 (FRet x) = Some (set_busy (set_sess y1 x s2) (other x) false)).
  { unfold step2, y1. rewrite busy_set_sess, B2, sess_set_same. unfold actor_of; simpl is_own; cbv iota. rewrite E2. reflexivity. }
  exists (map (lift_foreign x) l1 ++ [FRet x]), (set_busy (set_sess y1 x s2) (other x) false).
  assert (R2 : run_of (tr_of ta tb x) (project x ls0 ++ l1 ++ [CloseRet Client]) s2).
  { unfold run_of in *. rewrite accepts_app, R, accepts_app, A1, accepts_cons, E2. reflexivity. }
  assert (C2 : closed_returned (project x ls0 ++ l1 ++ [CloseRet Client])).
  { unfold closed_returned. apply in_or_app; right; apply in_or_app; right; left; reflexivity. }
  destruct (c12_released _ _ _ R2 C2) as (Rel & _ & P).
  split.
  { eapply accepts2_snoc; [exact L1 | exact S2]. }
  split; [apply in_or_app; right; left; reflexivity|].
  split.
  { intros l Hl. apply in_app_or in Hl. destruct Hl as [Hl|[Hl|[]]]; [|left; symmetry; exact Hl].
    apply in_map_iff in Hl. destruct Hl as (b & Eb & Hb). subst l.
    destruct (Lab1 b Hb) as [W|(c & d & X)].
    - right; right. exists b. destruct (lift_worker x b W) as [L _]. rewrite L. split; [reflexivity | exact W].
    - subst b. right; left. exists c, d. reflexivity. }
  split; [apply busy_set_same|].
  split; [rewrite sess_set_busy, sess_set_other; unfold y1; rewrite sess_set_other; reflexivity|].
  rewrite sess_set_busy, sess_set_same.
  split; [exact Rel|]. split; [exact (run_closed_flag _ _ _ R2 C2) | exact P].
Qed.
