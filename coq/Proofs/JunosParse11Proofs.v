(* JunosParse11Proofs.v — proofs about Model/JunosParse11.v (the base:1.1 branch of the Junos streaming-filter driver):
   the session side of a run over reads is the delivery of C01's framing events (run11_events); hence it depends on
   the concatenation of the reads only (c18_base11_reads_independent), and for a well-formed chunked stream every
   message goes through the filter exactly once, in order, whatever its chunking (c18_base11_chunking); a message
   the filter machine reads to its end is dispatched as the same octets as under base:1.0 (c18_base11_as_base10). *)
From NC Require Import Model.Base Model.Utf8 Model.Framing10 Model.Framing11 Spec.RefFraming.
From NC Require Import Model.JunosParse Model.JunosParse11.
From NC Require Import Proofs.ListFacts Proofs.FramingProofs.

Section P11.
  Variables W X : Type.
  Variable xnew : W -> X.
  Variable xstep : W -> X -> N -> xres X.
  Variable xrooted : X -> bool.
  Variable dispatch : W -> bool -> bytes -> dres W.

  Notation event11 := (event11 W X xnew xstep xrooted dispatch).
  Notation deliver11 := (deliver11 W X xnew xstep xrooted dispatch).
  Notation dispatch11 := (dispatch11 W X xnew xstep xrooted dispatch).
  Notation parse11 := (parse11 W X xnew xstep xrooted dispatch).
  Notation run11 := (run11 W X xnew xstep xrooted dispatch).

  Lemma deliver11_dead : forall evs (d : dst W) k, ddead d = Some k -> deliver11 d evs = d.
  Proof.
    induction evs as [|e evs IH]; intros d k Hd; [reflexivity|].
    cbn [JunosParse11.deliver11 fold_left]. unfold JunosParse11.event11 at 2. rewrite Hd. exact (IH d k Hd).
  Qed.

  Lemma deliver11_app (d : dst W) a b : deliver11 d (a ++ b) = deliver11 (deliver11 d a) b.
  Proof. unfold JunosParse11.deliver11. apply fold_left_app. Qed.

  Lemma run11_dead : forall reads (d : dst W) p k, ddead d = Some k -> run11 (d, p) reads = (d, p).
  Proof.
    induction reads as [|r reads IH]; intros d p k Hd; [reflexivity|].
    cbn [JunosParse11.run11 fold_left]. unfold JunosParse11.parse11 at 2. cbn [fst snd]. rewrite Hd. exact (IH d p k Hd).
  Qed.

  Lemma events_cons {S} (feed : S -> bytes -> S * list pevent) st seg segs :
    events feed st (seg :: segs) = snd (feed st seg) ++ events feed (fst (feed st seg)) segs.
  Proof.
    unfold events. cbn [feed_all]. destruct (feed st seg) as [st1 e]. cbn [fst snd].
    destruct (feed_all feed st1 segs) as [st2 es]. reflexivity.
  Qed.

  (* the session side of a run = the framing events of the reads (C01's model), delivered in order *)
  Lemma run11_events : forall reads (d : dst W) p,
    fst (run11 (d, p) reads) = deliver11 d (events feed11 p reads).
  Proof.
    induction reads as [|r reads IH]; intros d p; [reflexivity|].
    destruct (ddead d) as [k|] eqn:Hd.
    - rewrite (run11_dead _ d p k Hd). cbn [fst]. symmetry. exact (deliver11_dead _ d k Hd).
    - rewrite events_cons. cbn [JunosParse11.run11 fold_left]. unfold JunosParse11.parse11 at 2. cbn [fst snd]. rewrite Hd.
      destruct (feed11 p r) as [p1 e]. cbn [fst snd]. rewrite deliver11_app. apply IH.
  Qed.

  Lemma c18_base11_reads_independent : forall w reads1 reads2,
    concat reads1 = concat reads2 ->
    fst (run11 (init11s W w) reads1) = fst (run11 (init11s W w) reads2).
  Proof.
    intros w r1 r2 H. unfold init11s. rewrite !run11_events, !c01_seg_indep11, H. reflexivity.
  Qed.

  Lemma c18_base11_chunking : forall w (css : list (list bytes)) (reads : list bytes),
    Forall (Forall (fun c => c <> [])) css -> Forall (fun cs => utf8_valid (concat cs) = true) css ->
    concat reads = enc11 css ->
    fst (run11 (init11s W w) reads) = deliver11 (start11 W w) (map (fun cs => Deliver (concat cs)) css).
  Proof.
    intros w css reads Hc Hv E. unfold init11s.
    rewrite run11_events, (c01_framing_independent11 css reads Hc Hv E). reflexivity.
  Qed.

  (* one message the filter machine reads to its end: the same octets are dispatched, to the same effect, as when
     the message arrives in end-of-message framing (JunosParse.parse from the initial state) *)
  Lemma c18_base11_as_base10 : forall w t x o,
    find_sub delim10 (t ++ delim10) = Some (t, []) -> blstrip t = t ->
    feed W X xstep xrooted w (xnew w) t = FOk x o ->
    let s10 := JunosParse.parse W X xnew xstep xrooted dispatch (JunosParse.init W X xnew w) (t ++ delim10) in
    let d11 := dispatch11 (start11 W w) t in
    wd s10 = dw d11 /\ outs s10 = douts d11 /\
    match stat s10 with Dead e => Some e | Run _ => None | _ => Some 0 end = ddead d11.
  Proof.
    intros w t x o Hf Hs Hfeed. cbv zeta.
    unfold JunosParse.parse, JunosParse.init, JunosParse11.dispatch11, start11, fin11.
    cbn [go stat wd outs fed dw douts dfed ddead app]. rewrite Hf. cbv beta iota.
    match goal with |- context [if ?c then t else blstrip t] => destruct c end; rewrite ?Hs, Hfeed; cbv beta iota; cbn [app];
    (destruct (dispatch w true o) as [w' r|]; cbn [wd outs stat dw douts ddead]; [|repeat split];
     unfold cont; cbn [bblank forallb]; unfold fresh; cbn [wd outs stat]; repeat split).
  Qed.
End P11.
