(* CallHistoryProofs.v — a call's outcome is that of the same call issued first on a fresh session of the same server. *)
From Coq Require Import List NArith.
Import ListNotations.
From NC Require Import Model.Base Model.Lit Model.Caps Model.Xml Model.Gating Model.CallHistory.
From NC Require Import Spec.CapsSpec Spec.GatingSpec Proofs.GatingProofs.

Lemma history_spec s cs : history s cs = (map (perform s) cs, s).
Proof.
  revert s. induction cs as [|c cs IH]; intro s; [reflexivity|].
  cbn [history map]. unfold session_after. rewrite IH. reflexivity.
Qed.

(* the i-th call of a history did what the same call does as the first call on the session the <hello> made;
   the session at the end is that session *)
Lemma c07_history_independent : forall (s : sess) (cs : list call),
  snd (history s cs) = s
  /\ forall i c, nth_error cs i = Some c -> nth_error (fst (history s cs)) i = Some (perform s c).
Proof.
  intros s cs. rewrite history_spec. split; [reflexivity|].
  intros i c H. cbn [fst]. rewrite nth_error_map, H. reflexivity.
Qed.

(* whatever calls came before (valid or refused, with-defaults or not): a well-formed call whose capabilities the server
   advertises, with a with-defaults mode among basic-mode + also-supported of THIS server, is sent, exactly once *)
Lemma c07_history_accepts : forall (uris : list bytes) (before : list call) (c : call),
  wellformed c = true -> (forall k, In k (needs c) -> advertised uris k) ->
  (forall norm, wd_of c = Some norm -> wd_accepts uris norm /\ xml_chars_ok norm = true) ->
  exists tr, nth_error (fst (history (SCaps (caps_of uris)) (before ++ [c]))) (length before) = Some (tr, Sent)
             /\ count_send tr = 1%nat.
Proof.
  intros uris before c W A D.
  destruct (c09_allowed uris c W A D) as [Hs Hc].
  exists (fst (perform (SCaps (caps_of uris)) c)). split; [|exact Hc].
  destruct (c07_history_independent (SCaps (caps_of uris)) (before ++ [c])) as [_ Hn].
  rewrite (Hn (length before) c).
  - rewrite <- Hs. destruct (perform (SCaps (caps_of uris)) c); reflexivity.
  - rewrite nth_error_app2 by apply le_n. rewrite PeanoNat.Nat.sub_diag. reflexivity.
Qed.
