(* CapsProofs.v — lemmas behind Props/C08.v *)
From NC Require Import Model.Base Model.Lit Model.Caps Spec.CapsSpec Proofs.BaseFacts.

(* ---------- _abbreviate never crashes ---------- *)

Definition abbrev_clean (p s : list bytes) : res (option (list bytes)) :=
  if negb (list_beq beq (firstn (length p) s) p) then Ok None else
  match skipn (length p) s with
  | a :: b :: r =>
      if beq a s_capability then
        match r with
        | c :: _ => Ok (Some [COLON :: b; COLON :: b ++ COLON :: c])
        | [] => if beq a s_base then Ok (Some [COLON :: s_base; COLON :: s_base ++ COLON :: b])
                else Ok None
        end
      else if beq a s_base then Ok (Some [COLON :: s_base; COLON :: s_base ++ COLON :: b])
      else Ok None
  | _ => Ok None
  end.

Lemma abbrev_with_clean p s : abbrev_with p s = abbrev_clean p s.
Proof.
  unfold abbrev_with, abbrev_clean, index.
  destruct (negb _); [reflexivity|].
  destruct (skipn (length p) s) as [|a [|b [|c r]]]; simpl; try reflexivity;
    destruct (beq a s_capability); try reflexivity; destruct (beq a s_base); reflexivity.
Qed.

Lemma abbrev_clean_total p s : exists o, abbrev_clean p s = Ok o.
Proof.
  unfold abbrev_clean. destruct (negb _); [eauto|].
  destruct (skipn (length p) s) as [|a [|b r]]; eauto.
  destruct (beq a s_capability); [destruct r; [destruct (beq a s_base)|]; eauto|].
  destruct (beq a s_base); eauto.
Qed.

Lemma abbreviate_total uri : exists l, abbreviate uri = Ok l.
Proof.
  unfold abbreviate. rewrite !abbrev_with_clean.
  destruct (abbrev_clean_total prefix_a (split_on COLON uri)) as [[l|] ->]; [eauto|].
  destruct (abbrev_clean_total prefix_b (split_on COLON uri)) as [[l|] ->]; eauto.
Qed.

(* ---------- _abbreviate yields exactly the shorthands of the specification ---------- *)

Lemma capability_ne_base : beq s_capability s_base = false.  Proof. reflexivity. Qed.

(* what abbrev_clean returns when the segments do start with the prefix *)
Lemma abbrev_clean_match p rest :
  abbrev_clean p (p ++ rest) =
  match rest with
  | a :: b :: r =>
      if beq a s_capability then
        match r with
        | c :: _ => Ok (Some [COLON :: b; COLON :: b ++ COLON :: c])
        | [] => Ok None
        end
      else if beq a s_base then Ok (Some [COLON :: s_base; COLON :: s_base ++ COLON :: b])
      else Ok None
  | _ => Ok None
  end.
Proof.
  unfold abbrev_clean.
  rewrite firstn_app, Nat.sub_diag, firstn_all, app_nil_r.
  replace (list_beq beq p p) with true by (symmetry; apply list_beq_eq; reflexivity).
  simpl negb. cbv iota.
  rewrite skipn_app, Nat.sub_diag, (skipn_all p). simpl.
  destruct rest as [|a [|b [|c r]]]; try reflexivity.
  destruct (beq a s_capability) eqn:E; [|reflexivity].
  apply beq_eq in E; subst a. now rewrite capability_ne_base.
Qed.

Lemma abbrev_clean_nomatch p s :
  firstn (length p) s <> p -> abbrev_clean p s = Ok None.
Proof.
  intros H. unfold abbrev_clean.
  destruct (list_beq beq (firstn (length p) s) p) eqn:E; [|reflexivity].
  apply list_beq_eq in E. contradiction.
Qed.

Lemma starts_split (p s : list bytes) : firstn (length p) s = p -> s = p ++ skipn (length p) s.
Proof. intros H. rewrite <- H at 1. symmetry. apply firstn_skipn. Qed.

Lemma prefix_a_not_b rest : firstn (length prefix_b) (prefix_a ++ rest) <> prefix_b.
Proof.
  simpl. destruct rest as [|r1 [|r2 rest]]; simpl; try discriminate.
Qed.

Lemma prefix_b_not_a rest : firstn (length prefix_a) (prefix_b ++ rest) <> prefix_a.
Proof. simpl. discriminate. Qed.

(* the list _abbreviate returns, as a function of the segment list, by cases on the prefix *)
Definition short_of_rest (rest : list bytes) : list bytes :=
  match rest with
  | a :: b :: r =>
      if beq a s_capability then
        match r with c :: _ => [COLON :: b; COLON :: b ++ COLON :: c] | [] => [] end
      else if beq a s_base then [COLON :: s_base; COLON :: s_base ++ COLON :: b]
      else []
  | _ => []
  end.

Lemma short_of_rest_clean p rest :
  abbrev_clean p (p ++ rest) = Ok (match short_of_rest rest with [] => None | l => Some l end).
Proof.
  rewrite abbrev_clean_match. unfold short_of_rest.
  destruct rest as [|a [|b [|c r]]]; try reflexivity;
  destruct (beq a s_capability); try reflexivity; destruct (beq a s_base); reflexivity.
Qed.

Lemma abbreviate_prefix_a uri rest :
  split_on COLON uri = prefix_a ++ rest -> abbreviate uri = Ok (short_of_rest rest).
Proof.
  intros H. unfold abbreviate. rewrite !abbrev_with_clean, H, short_of_rest_clean.
  destruct (short_of_rest rest) eqn:E; [|reflexivity].
  rewrite abbrev_clean_nomatch by apply prefix_a_not_b. reflexivity.
Qed.

Lemma abbreviate_prefix_b uri rest :
  split_on COLON uri = prefix_b ++ rest -> abbreviate uri = Ok (short_of_rest rest).
Proof.
  intros H. unfold abbreviate. rewrite !abbrev_with_clean, H.
  rewrite abbrev_clean_nomatch by apply prefix_b_not_a.
  rewrite short_of_rest_clean. destruct (short_of_rest rest); reflexivity.
Qed.

Lemma abbreviate_no_prefix uri :
  firstn (length prefix_a) (split_on COLON uri) <> prefix_a ->
  firstn (length prefix_b) (split_on COLON uri) <> prefix_b ->
  abbreviate uri = Ok [].
Proof.
  intros Ha Hb. unfold abbreviate. rewrite !abbrev_with_clean.
  rewrite (abbrev_clean_nomatch _ _ Ha), (abbrev_clean_nomatch _ _ Hb). reflexivity.
Qed.

Lemma app_prefix_inj (p : list bytes) r1 r2 : p ++ r1 = p ++ r2 -> r1 = r2.
Proof. apply app_inv_head. Qed.

Lemma prefix_a_b_disjoint r1 r2 : prefix_a ++ r1 <> prefix_b ++ r2.
Proof. simpl. intros H. discriminate H. Qed.

Lemma short_of_rest_sound rest key :
  In key (short_of_rest rest) ->
  (exists name version r, rest = s_capability :: name :: version :: r /\
      (key = COLON :: name \/ key = COLON :: name ++ COLON :: version)) \/
  (exists v r, rest = s_base :: v :: r /\
      (key = COLON :: s_base \/ key = COLON :: s_base ++ COLON :: v)).
Proof.
  unfold short_of_rest. destruct rest as [|a [|b r]]; simpl; try tauto.
  destruct (beq a s_capability) eqn:E.
  - apply beq_eq in E; subst a. destruct r as [|c r]; simpl; [tauto|].
    intros [H|[H|[]]]; left; exists b, c, r; split; auto.
  - destruct (beq a s_base) eqn:E2; simpl; [|tauto].
    apply beq_eq in E2; subst a.
    intros [H|[H|[]]]; right; exists b, r; split; auto.
Qed.

Theorem abbreviate_spec ns l key :
  abbreviate ns = Ok l -> (mem_bytes key l = true <-> shorthand ns key).
Proof.
  intros Hl. rewrite mem_bytes_In. split.
  - intros Hin.
    destruct (list_beq beq (firstn (length prefix_a) (split_on COLON ns)) prefix_a) eqn:Ea.
    + apply list_beq_eq in Ea. apply starts_split in Ea.
      remember (skipn (length prefix_a) (split_on COLON ns)) as rest0 eqn:Erest; clear Erest.
      rewrite (abbreviate_prefix_a _ _ Ea) in Hl. injection Hl as <-.
      apply short_of_rest_sound in Hin as [(name & version & r & Hr & [->| ->])|(v & r & Hr & [->| ->])];
        rewrite Hr in Ea.
      * eapply sh_cap_name; [left; reflexivity|exact Ea].
      * eapply sh_cap_full; [left; reflexivity|exact Ea].
      * eapply sh_base; [left; reflexivity|exact Ea].
      * eapply sh_base_full; [left; reflexivity|exact Ea].
    + destruct (list_beq beq (firstn (length prefix_b) (split_on COLON ns)) prefix_b) eqn:Eb.
      * apply list_beq_eq in Eb. apply starts_split in Eb.
        remember (skipn (length prefix_b) (split_on COLON ns)) as rest0 eqn:Erest; clear Erest.
        rewrite (abbreviate_prefix_b _ _ Eb) in Hl. injection Hl as <-.
        apply short_of_rest_sound in Hin as [(name & version & r & Hr & [->| ->])|(v & r & Hr & [->| ->])];
          rewrite Hr in Eb.
        -- eapply sh_cap_name; [right; reflexivity|exact Eb].
        -- eapply sh_cap_full; [right; reflexivity|exact Eb].
        -- eapply sh_base; [right; reflexivity|exact Eb].
        -- eapply sh_base_full; [right; reflexivity|exact Eb].
      * rewrite abbreviate_no_prefix in Hl.
        -- injection Hl as <-. destruct Hin.
        -- intros H. apply list_beq_eq in H. congruence.
        -- intros H. apply list_beq_eq in H. congruence.
  - intros Hs.
    assert (Hgen : forall p rest, ietf_prefix p -> split_on COLON ns = p ++ rest ->
                                  l = short_of_rest rest).
    { intros p rest [->| ->] Hsp.
      - rewrite (abbreviate_prefix_a _ _ Hsp) in Hl. congruence.
      - rewrite (abbreviate_prefix_b _ _ Hsp) in Hl. congruence. }
    destruct Hs as [p name version rest Hp Hsp|p name version rest Hp Hsp|p v rest Hp Hsp|p v rest Hp Hsp];
      rewrite (Hgen _ _ Hp Hsp); simpl; auto.
Qed.

(* ---------- lookup ---------- *)

Definition is_short (key u : bytes) : bool :=
  match abbreviate (ns_part u) with Ok l => mem_bytes key l | _ => false end.

Lemma is_short_spec key u : is_short key u = true <-> shorthand (ns_part u) key.
Proof.
  unfold is_short. destruct (abbreviate_total (ns_part u)) as [l Hl]. rewrite Hl.
  apply abbreviate_spec. exact Hl.
Qed.

Lemma ns_uri_from_uri u : ns_uri (from_uri u) = ns_part u.
Proof.
  unfold from_uri, ns_part. destruct (split_on QMARK u) as [|a [|b r]]; reflexivity.
Qed.

Definition mk (ks : list bytes) : caps := map (fun u => (u, from_uri u)) ks.
Definition addk (ks : list bytes) (u : bytes) : list bytes :=
  if mem_bytes u ks then ks else ks ++ [u].

Lemma caps_add_mk ks u : caps_add (mk ks) u = mk (addk ks u).
Proof.
  unfold caps_add, addk. induction ks as [|k ks IH]; simpl; [reflexivity|].
  rewrite (beq_sym u k).
  destruct (beq k u) eqn:E; simpl.
  - apply beq_eq in E; subst. reflexivity.
  - rewrite IH. destruct (mem_bytes u ks); reflexivity.
Qed.

Lemma caps_of_mk uris ks : fold_left caps_add uris (mk ks) = mk (fold_left addk uris ks).
Proof.
  revert ks; induction uris as [|u uris IH]; intros ks; simpl; [reflexivity|].
  rewrite caps_add_mk. apply IH.
Qed.

Lemma scan_mk key ks :
  scan_abbrev key (mk ks) =
  match find (is_short key) ks with Some u => Ok (from_uri u) | None => KeyError end.
Proof.
  induction ks as [|k ks IH]; simpl; [reflexivity|].
  unfold is_short at 1. rewrite ns_uri_from_uri.
  destruct (abbreviate_total (ns_part k)) as [l ->].
  destruct (mem_bytes key l); [reflexivity|exact IH].
Qed.

Lemma dict_get_mk key ks :
  dict_get key (mk ks) = if mem_bytes key ks then Some (from_uri key) else None.
Proof.
  induction ks as [|k ks IH]; simpl; [reflexivity|].
  destruct (beq key k) eqn:E; simpl; [apply beq_eq in E; subst; reflexivity|exact IH].
Qed.

Lemma find_app_one {A} (P : A -> bool) l x :
  find P (l ++ [x]) = match find P l with Some y => Some y | None => if P x then Some x else None end.
Proof. induction l as [|a l IH]; simpl; [reflexivity|]. destruct (P a); auto. Qed.

Lemma find_none_mem P (ks : list bytes) u :
  find P ks = None -> mem_bytes u ks = true -> P u = false.
Proof. intros H Hm. apply mem_bytes_In in Hm. eapply find_none; eauto. Qed.

Lemma find_fold_addk P uris ks :
  find P (fold_left addk uris ks) =
  match find P ks with Some x => Some x | None => find P uris end.
Proof.
  revert ks; induction uris as [|u uris IH]; intros ks; simpl.
  - destruct (find P ks); reflexivity.
  - rewrite IH. unfold addk. destruct (mem_bytes u ks) eqn:Em.
    + destruct (find P ks) eqn:Ef; [reflexivity|].
      now rewrite (find_none_mem _ _ _ Ef Em).
    + rewrite find_app_one. destruct (find P ks); [reflexivity|]. destruct (P u); reflexivity.
Qed.

Lemma mem_fold_addk x uris ks :
  mem_bytes x (fold_left addk uris ks) = mem_bytes x ks || mem_bytes x uris.
Proof.
  revert ks; induction uris as [|u uris IH]; intros ks; simpl; [now rewrite orb_false_r|].
  rewrite IH. unfold addk. destruct (mem_bytes u ks) eqn:Em.
  - destruct (mem_bytes x ks) eqn:Ex; simpl; [reflexivity|].
    destruct (beq x u) eqn:E; [|reflexivity]. apply beq_eq in E; subst. congruence.
  - assert (H : mem_bytes x (ks ++ [u]) = mem_bytes x ks || beq x u).
    { clear. induction ks as [|k ks IH]; simpl; [now rewrite orb_false_r|].
      rewrite IH. now rewrite orb_assoc. }
    rewrite H. now rewrite orb_assoc.
Qed.

Theorem getitem_spec uris key :
  getitem (caps_of uris) key =
  if mem_bytes key uris then Ok (from_uri key)
  else match find (is_short key) uris with Some u => Ok (from_uri u) | None => KeyError end.
Proof.
  unfold getitem, caps_of. change (@nil (bytes * capability)) with (mk []).
  rewrite caps_of_mk, dict_get_mk, mem_fold_addk. simpl.
  destruct (mem_bytes key uris); [reflexivity|].
  rewrite scan_mk, find_fold_addk. reflexivity.
Qed.

Lemma find_first_shorthand key uris w :
  find (is_short key) uris = Some w <-> first_shorthand key uris w.
Proof.
  induction uris as [|u uris IH]; simpl.
  - split; [discriminate|inversion 1].
  - destruct (is_short key u) eqn:E.
    + split.
      * intros [= <-]. constructor. now apply is_short_spec.
      * inversion 1; subst; [reflexivity|]. apply is_short_spec in E. contradiction.
    + assert (Hn : ~ shorthand (ns_part u) key).
      { intros H. apply is_short_spec in H. congruence. }
      rewrite IH. split.
      * intros H. now apply fs_later.
      * inversion 1; subst; [contradiction|assumption].
Qed.

Lemma find_no_shorthand key uris :
  find (is_short key) uris = None <-> (forall u, In u uris -> ~ shorthand (ns_part u) key).
Proof.
  split.
  - intros H u Hin Hs. apply is_short_spec in Hs.
    pose proof (find_none _ _ H _ Hin). congruence.
  - intros H. destruct (find (is_short key) uris) eqn:E; [|reflexivity].
    apply find_some in E as [Hin Hs]. apply is_short_spec in Hs. exfalso. eapply H; eauto.
Qed.

(* ---------- parameters ---------- *)

Lemma valid_pairs_cons p ps :
  valid_pairs (p :: ps) =
  match param_of p with Some kv => kv :: valid_pairs ps | None => valid_pairs ps end.
Proof.
  unfold param_of; simpl. destruct (split_on EQ p) as [|a [|b [|c r]]]; reflexivity.
Qed.

Lemma params_fold_get k ps d :
  dict_get k (params_fold ps d) =
  match last_wins k (valid_pairs ps) with Some v => Some v | None => dict_get k d end.
Proof.
  revert d; induction ps as [|p ps IH]; intros d; [reflexivity|].
  rewrite valid_pairs_cons. cbn [params_fold].
  destruct (param_of p) as [[k' v']|]; [|apply IH].
  rewrite IH. cbn [last_wins].
  destruct (last_wins k (valid_pairs ps)); [reflexivity|].
  destruct (beq k k') eqn:E.
  - apply beq_eq in E; subst. apply dict_get_set_same.
  - apply beq_neq in E. now apply dict_get_set_other.
Qed.

Theorem params_spec uri ns pstr more k :
  split_on QMARK uri = ns :: pstr :: more ->
  ns_uri (from_uri uri) = ns /\
  dict_get k (parameters (from_uri uri)) = last_wins k (valid_pairs (split_on AMP pstr)).
Proof.
  intros H. unfold from_uri. rewrite H. simpl. split; [reflexivity|].
  rewrite params_fold_get. destruct (last_wins _ _); reflexivity.
Qed.

Theorem params_none uri :
  split_on QMARK uri = [uri] -> from_uri uri = {| ns_uri := uri; parameters := [] |}.
Proof. intros H. unfold from_uri. now rewrite H. Qed.

(* ---------- statements exported to Props/C08.v ---------- *)

(* Lookup never ends in anything but a capability or the documented KeyError, whatever
   URIs were advertised (the model makes every list index an explicit crash point). *)
Lemma c08_total : forall (uris : list bytes) (key : bytes) (e : N),
  getitem (caps_of uris) key <> Crash e /\ contains_key (caps_of uris) key <> Crash e.
Proof.
  intros uris key e. unfold contains_key. rewrite getitem_spec.
  destruct (mem_bytes key uris); [split; discriminate|].
  destruct (find (is_short key) uris); split; discriminate.
Qed.

(* An advertised full URI is found, and yields the capability parsed from that URI. *)
Lemma c08_lookup_full : forall uris key,
  In key uris -> getitem (caps_of uris) key = Ok (from_uri key).
Proof.
  intros uris key Hin. rewrite getitem_spec.
  apply mem_bytes_In in Hin. now rewrite Hin.
Qed.

(* A key that was not advertised verbatim is found iff it is a shorthand (per CapsSpec) of an
   advertised IETF capability/base URI, and then yields the first such URI's capability. *)
Lemma c08_lookup_shorthand : forall uris key w,
  ~ In key uris -> first_shorthand key uris w ->
  getitem (caps_of uris) key = Ok (from_uri w).
Proof.
  intros uris key w Hn Hf. rewrite getitem_spec.
  destruct (mem_bytes key uris) eqn:E; [apply mem_bytes_In in E; contradiction|].
  apply find_first_shorthand in Hf. now rewrite Hf.
Qed.

(* ... and fails with KeyError otherwise. *)
Lemma c08_lookup_absent : forall uris key,
  ~ In key uris -> (forall u, In u uris -> ~ shorthand (ns_part u) key) ->
  getitem (caps_of uris) key = KeyError /\ contains_key (caps_of uris) key = Ok false.
Proof.
  intros uris key Hn Hno. unfold contains_key. rewrite getitem_spec.
  destruct (mem_bytes key uris) eqn:E; [apply mem_bytes_In in E; contradiction|].
  apply find_no_shorthand in Hno. rewrite Hno. split; reflexivity.
Qed.

(* membership agrees with lookup *)
Lemma c08_contains_iff : forall uris key,
  contains_key (caps_of uris) key = Ok true <->
  (In key uris \/ exists u, In u uris /\ shorthand (ns_part u) key).
Proof.
  intros uris key. unfold contains_key. rewrite getitem_spec.
  destruct (mem_bytes key uris) eqn:E.
  - apply mem_bytes_In in E. split; auto.
  - assert (Hn : ~ In key uris) by (intros H; apply mem_bytes_In in H; congruence).
    destruct (find (is_short key) uris) eqn:Ef.
    + apply find_some in Ef as [Hin Hs]. apply is_short_spec in Hs. split; eauto.
    + split; [discriminate|]. intros [H|(u & Hin & Hs)]; [contradiction|]. exfalso.
      apply (proj1 (find_no_shorthand key uris) Ef u Hin Hs).
Qed.

(* The shorthand list the code derives is exactly the specification's relation. *)
Lemma c08_shorthand_exact : forall ns l key,
  abbreviate ns = Ok l -> (In key l <-> shorthand ns key).
Proof.
  intros ns l key H. rewrite <- mem_bytes_In. now apply abbreviate_spec.
Qed.

(* Query parameters: the exposed map is the last-wins map of the well-formed k=v pairs. *)
Lemma c08_params : forall uri ns pstr more k,
  split_on QMARK uri = ns :: pstr :: more ->
  ns_uri (from_uri uri) = ns /\
  dict_get k (parameters (from_uri uri)) = last_wins k (valid_pairs (split_on AMP pstr)).
Proof. exact params_spec. Qed.


(* ---------- histories of add / remove ---------- *)
Definition keys_op (ks : list bytes) (o : cop) : list bytes :=
  match o with OAdd u => addk ks u | ORemove u => filter (fun k => negb (beq u k)) ks end.

Lemma caps_remove_mk ks u : caps_remove (mk ks) u = mk (filter (fun k => negb (beq u k)) ks).
Proof.
  unfold caps_remove. induction ks as [|k ks IH]; simpl; [reflexivity|].
  destruct (beq u k); simpl; [exact IH|now rewrite IH].
Qed.

Lemma apply_op_mk ks o : apply_op (mk ks) o = mk (keys_op ks o).
Proof. destruct o; simpl; [apply caps_add_mk|apply caps_remove_mk]. Qed.

Lemma fold_apply_mk ops ks : fold_left apply_op ops (mk ks) = mk (fold_left keys_op ops ks).
Proof.
  revert ks; induction ops as [|o ops IH]; intros ks; simpl; [reflexivity|].
  rewrite apply_op_mk. apply IH.
Qed.

Lemma mem_filter_ne u x ks :
  mem_bytes x (filter (fun k => negb (beq u k)) ks) = mem_bytes x ks && negb (beq u x).
Proof.
  induction ks as [|k ks IH]; simpl; [reflexivity|].
  destruct (beq u k) eqn:E; simpl.
  - rewrite IH. apply beq_eq in E; subst k. destruct (beq x u) eqn:Ex.
    + apply beq_eq in Ex; subst. rewrite beq_refl. simpl. now rewrite andb_false_r.
    + reflexivity.
  - rewrite IH. destruct (beq x k) eqn:Ex; simpl; [|reflexivity].
    apply beq_eq in Ex; subst. now rewrite E.
Qed.

Lemma nodup_keys_op ks o : NoDup ks -> NoDup (keys_op ks o).
Proof.
  intros H. destruct o; simpl.
  - unfold addk. destruct (mem_bytes u ks) eqn:E; [exact H|].
    assert (Hn : ~ In u ks) by (intros Hin; apply mem_bytes_In in Hin; congruence).
    clear E. induction ks as [|a l IH]; simpl; [constructor; [tauto|constructor]|].
    inversion H; subst. constructor.
    + rewrite in_app_iff. simpl. intros [H1|[H1|[]]]; [contradiction|]. subst. apply Hn. simpl; auto.
    + apply IH; auto. intros Hin. apply Hn. simpl; auto.
  - now apply NoDup_filter.
Qed.

Lemma addk_nodup_id ks : NoDup ks -> fold_left addk ks [] = ks.
Proof.
  intros H. assert (G : forall acc, (forall x, In x ks -> ~ In x acc) -> NoDup ks -> fold_left addk ks acc = acc ++ ks).
  { clear H. induction ks as [|k ks IH]; intros acc Hd Hn; simpl; [now rewrite app_nil_r|].
    inversion Hn; subst. unfold addk at 2.
    destruct (mem_bytes k acc) eqn:E; [apply mem_bytes_In in E; exfalso; eapply Hd; [left; reflexivity|exact E]|].
    rewrite IH; [now rewrite <- app_assoc| |assumption].
    intros x Hx Hin. apply in_app_iff in Hin as [Hin|[<-|[]]]; [eapply Hd; [right; exact Hx|exact Hin]|contradiction]. }
  rewrite G; auto.
Qed.

(* the state after any history of add/remove is the state built from the list of URIs still present *)
Theorem caps_history uris ops :
  exists ks, NoDup ks /\ caps_after uris ops = caps_of ks /\
             (forall x, mem_bytes x ks = mem_bytes x (fold_left keys_op ops (fold_left addk uris []))).
Proof.
  unfold caps_after, caps_of at 1. change (@nil (bytes * capability)) with (mk []).
  rewrite caps_of_mk, fold_apply_mk.
  set (ks := fold_left keys_op ops (fold_left addk uris [])).
  assert (Hnd : NoDup ks).
  { unfold ks. assert (H0 : NoDup (fold_left addk uris [])).
    { assert (G : forall acc, NoDup acc -> NoDup (fold_left addk uris acc)).
      { induction uris as [|u us IH]; intros acc Ha; simpl; [exact Ha|]. apply IH. apply (nodup_keys_op acc (OAdd u) Ha). }
      apply G. constructor. }
    revert H0. generalize (fold_left addk uris []). induction ops as [|o ops IH]; intros l Hl; simpl; [exact Hl|].
    apply IH. now apply nodup_keys_op. }
  exists ks. split; [exact Hnd|]. split; [|reflexivity].
  unfold caps_of. change (@nil (bytes * capability)) with (mk []). rewrite caps_of_mk.
  now rewrite addk_nodup_id.
Qed.

Lemma c08_history uris ops : exists ks, NoDup ks /\ caps_after uris ops = caps_of ks /\
  (forall x, mem_bytes x ks = mem_bytes x (fold_left keys_op ops (fold_left addk uris []))).
Proof. exact (caps_history uris ops). Qed.

(* what is still present after a removal: everything else, and not the removed URI *)
Lemma c08_remove_present ks u x :
  mem_bytes x (keys_op ks (ORemove u)) = mem_bytes x ks && negb (beq u x).
Proof. apply mem_filter_ne. Qed.
