(* SessionHistProofs.v — a session object's history before its successful connect does not matter (C04). *)
From NC Require Import Model.Base Model.SessionLTS Model.SessionHist Proofs.SessionLTSProofs.

Lemma connect_ok_const o : connect_ok o = connect_ok obj0.
Proof. reflexivity. Qed.

(* whatever was done to the object before, the session thread starts in the initial state of the LTS *)
Lemma hist_fresh_start k q h : session_start k q h = init q.
Proof. reflexivity. Qed.

Lemma hist_reach k q h ls s : run (session_start k q h) ls = Some s -> reach s.
Proof. intros H. exists q, ls. rewrite <- (hist_fresh_start k q h). exact H. Qed.

(* C04 for a re-used object: every state the session reaches after any history satisfies the loss clauses *)
Lemma c04_hist_loss k q h ls s :
  run (session_start k q h) ls = Some s -> pc s = WClosed \/ pc s = WExited ->
  connected s = false /\
  (forall rid r, rq s rid = Some r -> In rid (wrote s) -> r_reply r = None -> r_error r <> None /\ r_ev r = true).
Proof.
  intros H Hp. pose proof (hist_reach _ _ _ _ _ H) as Hr. split.
  - apply c04_disconnected; assumption.
  - intros rid r Hq Hw Hrep. eapply c04_all_failed; eauto.
Qed.

(* the closing flag a history leaves behind: set exactly when the last flag-writing step was a close *)
Lemma close_sets_closing k o : o_closing (do_close k o) = true.
Proof. destruct k; reflexivity. Qed.

(* a connect() that does not clear the flag starts the session thread in a state that is NOT the initial one as
   soon as the history ends with a close that took place *)
Lemma stale_start_differs k q h :
  o_closing (hist_run k h) = true -> closing (session_start_stale k q h) = true /\ connected (session_start_stale k q h) = true.
Proof. intros H. unfold session_start_stale, start_of, connect_ok_stale; simpl. rewrite H. split; reflexivity. Qed.

(* ... and from such a state the worker leaves at the first idle tick / at the peer's end-of-file through the
   "closed locally" branch, which does not close: stopped and still reporting connected *)
Lemma stale_start_breaks s0 :
  closing s0 = true -> connected s0 = true -> pc s0 = WIdle -> lst s0 = false -> table s0 = [] ->
  exists s, run s0 [LErrBcast 1; LExit] = Some s /\ pc s = WExited /\ connected s = true.
Proof.
  intros Hc Hco Hp Hl Ht. unfold run, step. rewrite Hp, Hc. simpl.
  rewrite Hl. simpl. rewrite Hc. simpl. eexists. split; [reflexivity|]. simpl. split; [reflexivity|exact Hco].
Qed.
