(* SessionEndProofs.v — the error broadcast reaches every listener of the snapshot whatever the others do; a request on the
   object of an ended session is refused (C04).  Model: Model/SessionEnd.v. *)
From Coq Require Import Lia.
From NC Require Import Model.Base Model.SessionLTS Model.SessionEnd Proofs.SessionLTSProofs.

(* ---------------------------------------------------------------------------------------------------------------------
   Part 1: the broadcast
   --------------------------------------------------------------------------------------------------------------------- *)
Lemma visited_fold snap : forall b, visited (fold_left visit snap b) = visited b ++ map l_id snap.
Proof.
  induction snap as [|l snap IH]; intros b; simpl.
  - rewrite app_nil_r. reflexivity.
  - rewrite IH. simpl. rewrite <- app_assoc. reflexivity.
Qed.

Lemma caught_fold snap : forall b, caught (fold_left visit snap b) = caught b ++ map l_id (filter l_raises snap).
Proof.
  induction snap as [|l snap IH]; intros b; simpl.
  - rewrite app_nil_r. reflexivity.
  - rewrite IH. simpl. destruct (l_raises l); simpl.
    + rewrite <- app_assoc. reflexivity.
    + reflexivity.
Qed.

(* every listener of the snapshot is visited, once, in snapshot order - whatever the errbacks raise or do to the set *)
Lemma bcast_visits_snapshot snap live0 : visited (dispatch_error snap live0) = map l_id snap.
Proof. unfold dispatch_error. rewrite visited_fold. reflexivity. Qed.

Lemma bcast_caught snap live0 : caught (dispatch_error snap live0) = map l_id (filter l_raises snap).
Proof. unfold dispatch_error. rewrite caught_fold. reflexivity. Qed.

Lemma bcast_reaches snap live0 l : In l snap -> In (l_id l) (visited (dispatch_error snap live0)).
Proof. intros H. rewrite bcast_visits_snapshot. apply in_map. exact H. Qed.

Lemma bcast_once snap live0 : NoDup (map l_id snap) -> NoDup (visited (dispatch_error snap live0)).
Proof. rewrite bcast_visits_snapshot. trivial. Qed.

(* one try around the loop: the visit ends with the first listener whose errback raises *)
Fixpoint upto_raise (snap : list lsn) : list lsn :=
  match snap with
  | [] => []
  | l :: rest => if l_raises l then [l] else l :: upto_raise rest
  end.

Lemma outer_visits snap : forall b, visited (dispatch_outer snap b) = visited b ++ map l_id (upto_raise snap).
Proof.
  induction snap as [|l snap IH]; intros b; simpl.
  - rewrite app_nil_r. reflexivity.
  - destruct (l_raises l); simpl.
    + reflexivity.
    + rewrite IH. simpl. rewrite <- app_assoc. reflexivity.
Qed.

Lemma outer_misses a r rest live0 :
  l_raises a = true -> l_id r <> l_id a -> ~ In (l_id r) (visited (dispatch_error_outer (a :: r :: rest) live0)).
Proof.
  intros Ha Hne. unfold dispatch_error_outer. rewrite outer_visits. simpl. rewrite Ha. simpl.
  intros [H | []]. apply Hne. symmetry. exact H.
Qed.

(* --- the reply listener's part, on the LTS --- *)
Lemma reach_run s ls s' : reach s -> run s ls = Some s' -> reach s'.
Proof. intros (q & l0 & H0) H. exists q, (l0 ++ ls). rewrite run_app, H0. exact H. Qed.

Lemma run_evseterr rids : forall s e, pc s = WErrDeliver e rids ->
  exists s', run s (map LEvSetErr rids) = Some s' /\ pc s' = WErrDeliver e [] /\ table s' = table s.
Proof.
  induction rids as [|r rids IH]; intros s e Hp; simpl.
  - exists s. repeat split; assumption.
  - unfold step. rewrite Hp. rewrite Nat.eqb_refl.
    destruct (IH (with_pc (with_reqs s (upd (reqs s) r (set_error e))) (WErrDeliver e rids)) e eq_refl) as (s' & Hr & Hp' & Ht).
    exists s'. repeat split; assumption.
Qed.

Lemma listN_eqb_refl l : listN_eqb l l = true.
Proof. induction l as [|x l IH]; simpl; [reflexivity|]. rewrite N.eqb_refl, IH. reflexivity. Qed.

Lemma errback_accepted s e : pc s = WErrSnap e ->
  exists s', run s (errback_labels s) = Some s' /\ pc s' = WErrDeliver e [] /\ table s' = [].
Proof.
  intros Hp. unfold errback_labels. cbn [run]. unfold step at 1. rewrite Hp, listN_eqb_refl.
  cbn [run]. unfold step at 1. cbn [pc with_pc].
  destruct (run_evseterr (map snd (table s)) (with_pc (with_table (with_pc s (WErrClear e (map snd (table s)))) []) (WErrDeliver e (map snd (table s)))) e eq_refl)
    as (s' & Hr & Hp' & Ht).
  exists s'. split; [exact Hr|]. split; [exact Hp'|]. rewrite Ht. reflexivity.
Qed.

Lemma bcast_labels_one snap s : n_reply snap = 1%nat -> bcast_labels snap s = errback_labels s.
Proof.
  unfold n_reply, bcast_labels. induction snap as [|l snap IH]; simpl; [discriminate|].
  destruct (is_reply l) eqn:E; simpl; intros H.
  - assert (Hz : filter is_reply snap = []) by (destruct (filter is_reply snap); [reflexivity|discriminate]).
    assert (Hn : flat_map (fun l0 => if is_reply l0 then errback_labels s else []) snap = []).
    { clear -Hz. induction snap as [|x snap IH]; simpl; [reflexivity|].
      simpl in Hz. destruct (is_reply x); [discriminate|]. simpl. apply IH. exact Hz. }
    rewrite Hn, app_nil_r. reflexivity.
  - apply IH. exact H.
Qed.

Lemma bcast_labels_none snap s : n_reply snap = 0%nat -> bcast_labels snap s = [].
Proof.
  unfold n_reply, bcast_labels. induction snap as [|l snap IH]; simpl; [reflexivity|].
  destruct (is_reply l); simpl; [discriminate|]. exact IH.
Qed.

(* The whole broadcast, whatever stands in the listener set besides the one reply listener, in whatever order, whatever the
   other errbacks do: the worker's effects are accepted by the LTS, lead to the state in which every written, unanswered
   request holds its error with the event set, and the worker's close() comes next. *)
Lemma c04_bcast_any_listeners s e snap :
  reach s -> pc s = WErrSnap e -> n_reply snap = 1%nat ->
  exists s', run s (bcast_labels snap s) = Some s' /\ reach s' /\ pc s' = WErrDeliver e [] /\
             (forall rid r, rq s' rid = Some r -> In rid (wrote s') -> r_reply r = None -> r_error r <> None /\ r_ev r = true) /\
             step s' (LClose 0) <> None.
Proof.
  intros Hr Hp H1. rewrite (bcast_labels_one _ _ H1).
  destruct (errback_accepted s e Hp) as (s' & Hrun & Hp' & Ht).
  exists s'. split; [exact Hrun|]. pose proof (reach_run _ _ _ Hr Hrun) as Hr'. split; [exact Hr'|]. split; [exact Hp'|]. split.
  - intros rid r Hq Hw Hrep. eapply c04_all_failed_after_broadcast; eauto.
  - unfold step. cbn [N.eqb]. rewrite Hp'. discriminate.
Qed.

(* no reply listener in the set (no request was ever made): the broadcast has no effect on the LTS *)
Lemma c04_bcast_no_reply_listener s snap : n_reply snap = 0%nat -> run s (bcast_labels snap s) = Some s.
Proof. intros H. rewrite (bcast_labels_none _ _ H). reflexivity. Qed.

(* ---------------------------------------------------------------------------------------------------------------------
   Part 2: later requests
   --------------------------------------------------------------------------------------------------------------------- *)
Lemma check_caps_known needs cs : check_caps needs (Some cs) = None \/ check_caps needs (Some cs) = Some RMissing.
Proof.
  induction needs as [|c needs IH]; simpl; [left; reflexivity|].
  destruct (memN c cs); [exact IH|right; reflexivity].
Qed.

Lemma closed_caps o : e_caps (closed o) = e_caps o.
Proof. reflexivity. Qed.

Lemma closes_caps n o : e_caps (closes n o) = e_caps o.
Proof. induction n as [|n IH]; simpl; [reflexivity|exact IH]. Qed.

Lemma closes_connected n o : e_connected (closes (S n) o) = false.
Proof. reflexivity. Qed.

(* every call that is a request on the live session is refused with the transport error once the session has ended
   (closed by the session thread after the loss, and possibly again by the application) *)
Lemma later_refused caps sid needs n :
  request needs (connected_to caps sid) = RSent -> request needs (closes (S n) (connected_to caps sid)) = RRefused.
Proof.
  unfold request. rewrite closes_caps. cbn [e_caps connected_to].
  destruct (check_caps_known needs caps) as [H | H]; rewrite H; [|discriminate].
  intros _. reflexivity.
Qed.

Lemma later_same_check caps sid needs n :
  request needs (closes n (connected_to caps sid)) = RMissing <-> request needs (connected_to caps sid) = RMissing.
Proof.
  unfold request. rewrite closes_caps. cbn [e_caps connected_to].
  destruct (check_caps_known needs caps) as [H | H]; rewrite H.
  - destruct n; simpl; split; discriminate.
  - split; trivial.
Qed.

Lemma later_never_crashes caps sid needs n : request needs (closes n (connected_to caps sid)) <> RCrash.
Proof.
  unfold request. rewrite closes_caps. cbn [e_caps connected_to].
  destruct (check_caps_known needs caps) as [H | H]; rewrite H; [|discriminate].
  destruct (e_connected (closes n (connected_to caps sid))); discriminate.
Qed.

(* a close() that forgets what was negotiated: every operation that checks a capability ends with a foreign exception *)
Lemma later_reset_crashes caps sid c needs : request (c :: needs) (closed_reset (connected_to caps sid)) = RCrash.
Proof. reflexivity. Qed.

(* ---------------------------------------------------------------------------------------------------------------------
   Part 3: the closing operations
   --------------------------------------------------------------------------------------------------------------------- *)
(* what holds of the object from the session thread's close() on, under the two faithful styles *)
Definition ended_inv (sty : cstyle) (caps : list N) (t : tobj) : Prop :=
  e_connected (t_obj t) = false /\ e_caps (t_obj t) = Some caps /\ (sty = CKeep -> t_handle t = true).

Lemma lost_inv sty caps sid : sty <> CDrop -> ended_inv sty caps (lost_t sty caps sid).
Proof. intros Hs. destruct sty; [| |congruence]; repeat split; try reflexivity. discriminate. Qed.

Lemma close_op_inv sty caps t : sty <> CDrop -> ended_inv sty caps t ->
  fst (close_op sty t) = CQuiet /\ ended_inv sty caps (snd (close_op sty t)).
Proof.
  intros Hs (Hc & Hk & Hh). destruct sty; [| |congruence].
  - unfold close_op. rewrite (Hh eq_refl). cbn. repeat split; trivial.
  - cbn. repeat split; trivial. discriminate.
Qed.

Lemma request_ended caps o needs : e_connected o = false -> e_caps o = Some caps ->
  request needs o = match request needs {| e_connected := true; e_caps := Some caps; e_sid := e_sid o |} with RSent => RRefused | r => r end.
Proof.
  intros Hc Hk. unfold request. rewrite Hk, Hc. cbn [e_caps e_connected].
  destruct (check_caps_known needs caps) as [H | H]; rewrite H; reflexivity.
Qed.

Lemma request_sid needs c k s1 s2 :
  request needs {| e_connected := c; e_caps := k; e_sid := s1 |} = request needs {| e_connected := c; e_caps := k; e_sid := s2 |}.
Proof. reflexivity. Qed.

Lemma close_session_inv sty caps t : sty <> CDrop -> ended_inv sty caps t ->
  fst (close_session sty t) = RRefused /\ ended_inv sty caps (snd (close_session sty t)).
Proof.
  intros Hs Hi. destruct (close_op_inv sty caps t Hs Hi) as (Hq & Hi').
  unfold close_session. destruct (close_op sty t) as [c t'] eqn:E. cbn [fst snd] in *. subst c.
  split; [|exact Hi']. destruct Hi as (Hc & Hk & _). unfold request. rewrite Hk, Hc. reflexivity.
Qed.

Lemma do_cop_inv sty caps sid op t : sty <> CDrop -> ended_inv sty caps t ->
  fst (do_cop sty op t) = expect caps sid op /\ ended_inv sty caps (snd (do_cop sty op t)).
Proof.
  intros Hs Hi. destruct op as [| |b|needs]; cbn [do_cop expect].
  - destruct (close_op_inv sty caps t Hs Hi) as (Hq & Hi'). destruct (close_op sty t) as [c t']. cbn [fst snd] in *. subst c. split; trivial.
  - destruct (close_session_inv sty caps t Hs Hi) as (Hq & Hi'). destruct (close_session sty t) as [r t']. cbn [fst snd] in *. subst r. split; trivial.
  - destruct (close_session_inv sty caps t Hs Hi) as (Hq & Hi'). unfold with_exit.
    destruct (close_session sty t) as [r t']. cbn [fst snd] in *. subst r. split; trivial.
  - cbn [fst snd]. split; [|exact Hi]. destruct Hi as (Hc & Hk & _).
    rewrite (request_ended caps (t_obj t) needs Hc Hk). unfold connected_to.
    rewrite (request_sid needs true (Some caps) (e_sid (t_obj t)) (Some sid)).
    destruct (request needs {| e_connected := true; e_caps := Some caps; e_sid := Some sid |}); reflexivity.
Qed.

Lemma run_cops_inv sty caps sid ops : sty <> CDrop -> forall t, ended_inv sty caps t ->
  fst (run_cops sty ops t) = map (expect caps sid) ops /\ ended_inv sty caps (snd (run_cops sty ops t)).
Proof.
  intros Hs. induction ops as [|op ops IH]; intros t Hi; cbn [run_cops map]; [split; trivial|].
  destruct (do_cop_inv sty caps sid op t Hs Hi) as (Hc & Hi1).
  destruct (do_cop sty op t) as [c t1]. cbn [fst snd] in *.
  destruct (IH t1 Hi1) as (Hcs & Hi2). destruct (run_cops sty ops t1) as [cs t2]. cbn [fst snd] in *.
  subst. split; trivial.
Qed.

(* every sequence of closing operations and requests on the lost session: each ends as the property asks, the object stays
   disconnected *)
Lemma c04_closing_refused sty caps sid ops : sty <> CDrop ->
  fst (run_cops sty ops (lost_t sty caps sid)) = map (expect caps sid) ops /\
  e_connected (t_obj (snd (run_cops sty ops (lost_t sty caps sid)))) = false.
Proof.
  intros Hs. destruct (run_cops_inv sty caps sid ops Hs _ (lost_inv sty caps sid Hs)) as (H & Hc & _). split; trivial.
Qed.

(* never a foreign exception, never the body's own exception in place of the refusal *)
Lemma expect_codes caps sid op : expect caps sid op = 0 \/ expect caps sid op = 1 \/ expect caps sid op = 2.
Proof.
  destruct op as [| |b|needs]; cbn [expect]; auto.
  unfold request, connected_to. cbn [e_caps e_connected].
  destruct (check_caps_known needs caps) as [H | H]; rewrite H; cbn; auto.
Qed.

(* a close() that uses the handle unguarded and drops it: the first closing operation after the loss ends with a foreign
   exception - also close_session() and the end of the with-block, whose refusal / whose body's exception it replaces *)
Lemma closing_drop_crashes caps sid op rest : (forall needs, op <> OReq needs) ->
  exists cs, fst (run_cops CDrop (op :: rest) (lost_t CDrop caps sid)) = 3 :: cs.
Proof.
  intros Hop. destruct op as [| |b|needs]; [| | |exfalso; eapply Hop; reflexivity]; cbn [run_cops].
  - cbn. destruct (run_cops CDrop rest _) as [cs t2]. eexists; reflexivity.
  - cbn. destruct (run_cops CDrop rest _) as [cs t2]. eexists; reflexivity.
  - cbn. destruct (run_cops CDrop rest _) as [cs t2]. eexists; reflexivity.
Qed.
