(* Utf8Facts.v — the facts about UTF-8 validity and str.strip the framing proofs depend on. *)
From NC Require Import Model.Base Model.Utf8.

Lemma is_bws_lt b : is_bws b = true -> (b <? 128) = true /\ is_ws1 b = true.
Proof.
  unfold is_bws. cbn [existsb]. rewrite !orb_true_iff, !N.eqb_eq.
  intros H. repeat (destruct H as [->|H]; [split; reflexivity|]). discriminate.
Qed.

(* ASCII white space in front neither repairs nor breaks validity *)
Lemma utf8_valid_blank_prefix ws m : bblank ws = true -> utf8_valid (ws ++ m) = utf8_valid m.
Proof.
  induction ws as [|w ws IH]; intros H; [reflexivity|].
  cbn [bblank forallb] in H. apply andb_true_iff in H as [Hw H].
  apply is_bws_lt in Hw as [Hw _].
  change ((w :: ws) ++ m) with (w :: ws ++ m). cbn [utf8_valid]. rewrite Hw. auto.
Qed.

Lemma lstrip_blank_prefix ws m : bblank ws = true -> lstrip (ws ++ m) = lstrip m.
Proof.
  induction ws as [|w ws IH]; intros H; [reflexivity|].
  cbn [bblank forallb] in H. apply andb_true_iff in H as [Hw H].
  apply is_bws_lt in Hw as [_ Hw].
  change ((w :: ws) ++ m) with (w :: ws ++ m). unfold lstrip in *. cbn [lstrip_gen]. rewrite Hw. auto.
Qed.

Lemma strip_blank_prefix ws m : bblank ws = true -> strip (ws ++ m) = strip m.
Proof. intros H. unfold strip. now rewrite lstrip_blank_prefix. Qed.

(* what msg.decode('UTF-8').strip() yields is insensitive to ASCII white space in front *)
Definition decode_strip (m : bytes) : option bytes :=
  match decode_strict m with Some t => Some (strip t) | None => None end.

Lemma decode_strip_blank_prefix ws m : bblank ws = true -> decode_strip (ws ++ m) = decode_strip m.
Proof.
  intros H. unfold decode_strip, decode_strict. rewrite utf8_valid_blank_prefix by exact H.
  destruct (utf8_valid m); [|reflexivity]. now rewrite strip_blank_prefix.
Qed.

Lemma bblank_app a b : bblank (a ++ b) = bblank a && bblank b.
Proof. apply forallb_app. Qed.
