From Coq Require Import Lia.
From NC Require Import Model.Base Model.XTree Model.XmlHelpers Model.XmlHistory Model.XmlReparse Spec.XmlReparseSpec Proofs.BaseFacts.
From NC Require Import Proofs.XmlSessionProofs.

(* XmlReparseProofs.v - C17: a process that parses texts (the same text more than once) and edits what it got back.
   A parse hands out the parser's reading of the text and touches no tree handed out earlier; a helper / an edit
   changes the tree it was given and no other: so every tree is its own text's reading followed by the calls that
   were given THAT tree - in particular a later parse of a text is the parser's reading of that text whatever became
   of the tree an earlier parse of the same text returned. *)

Section WithOracles.
Variable parser : bool -> bytes -> option mnode.
Variable ser : mnode -> bytes -> bytes.

Notation rstep := (rstep parser ser).
Notation rrun := (rrun parser ser).
Notation rtrace := (rtrace parser ser).
Notation estep := (estep parser ser).
Notation rown := (rown parser).

(* ---------- one call and the other trees ---------- *)
Lemma c17_reparse_step_frame : forall ts op ts' j,
  rstep ts op = Some ts' -> rop_tree op <> Some j -> (j < length ts)%nat ->
  nth_error ts' j = nth_error ts j.
Proof.
  intros ts op ts' j H Hn Hj.
  destruct op as [h s|k o|k t1|h s]; cbn [XmlReparse.rstep] in H; cbn [rop_tree] in Hn.
  - injection H as <-. destruct (parser h s) as [t|]; [|reflexivity].
    rewrite nth_error_snoc. destruct (Nat.eqb_spec (length ts) j); [lia|reflexivity].
  - destruct (update_nth_spec _ _ _ _ _ H) as (x & y & _ & _ & _ & H4 & _). apply H4. congruence.
  - destruct (update_nth_spec _ _ _ _ _ H) as (x & y & _ & _ & _ & H4 & _). apply H4. congruence.
  - injection H as <-. reflexivity.
Qed.

(* a parse hands out the parser's reading of the text as a NEW last tree and keeps every earlier one as it was *)
Lemma c17_reparse_parse_step : forall ts h s ts',
  rstep ts (RParse h s) = Some ts' ->
  match parser h s with
  | Some t => ts' = ts ++ [t] /\ nth_error ts' (length ts) = Some t
  | None => ts' = ts
  end.
Proof.
  intros ts h s ts' H. cbn [XmlReparse.rstep] in H. injection H as <-.
  destruct (parser h s) as [t|]; [|reflexivity]. split; [reflexivity|].
  rewrite nth_error_snoc, Nat.eqb_refl. reflexivity.
Qed.

Lemma rrun_app : forall ops1 ops2 ts,
  rrun ts (ops1 ++ ops2) = match rrun ts ops1 with Some ts1 => rrun ts1 ops2 | None => None end.
Proof.
  induction ops1 as [|op r IH]; intros ops2 ts; cbn [app XmlReparse.rrun]; [reflexivity|].
  destruct (rstep ts op); [apply IH|reflexivity].
Qed.

(* whatever the process did before - parsed this very text, edited the result in place, serialised, parsed other
   texts - the tree a parse hands out is the parser's reading of the text *)
Lemma c17_reparse_fresh : forall ops ts h s ts' t,
  rrun ts (ops ++ [RParse h s]) = Some ts' -> parser h s = Some t ->
  exists ts1, rrun ts ops = Some ts1 /\ ts' = ts1 ++ [t] /\ nth_error ts' (length ts1) = Some t.
Proof.
  intros ops ts h s ts' t H P. rewrite rrun_app in H.
  destruct (rrun ts ops) as [ts1|] eqn:E; [|discriminate]. exists ts1. split; [reflexivity|].
  cbn [XmlReparse.rrun] in H. destruct (rstep ts1 (RParse h s)) as [ts2|] eqn:S1; [|discriminate]. injection H as <-.
  pose proof (c17_reparse_parse_step _ _ _ _ S1) as Q. rewrite P in Q. exact Q.
Qed.

Lemma rstep_length : forall ts op ts',
  rstep ts op = Some ts' ->
  length ts' = match op with RParse h s => match parser h s with Some _ => S (length ts) | None => length ts end | _ => length ts end.
Proof.
  intros ts op ts' H. destruct op as [h s|k o|k t1|h s]; cbn [XmlReparse.rstep] in H.
  - injection H as <-. destruct (parser h s); [|reflexivity]. rewrite app_length. cbn [length]. lia.
  - destruct (update_nth_spec _ _ _ _ _ H) as (x & y & _ & _ & _ & _ & H5). exact H5.
  - destruct (update_nth_spec _ _ _ _ _ H) as (x & y & _ & _ & _ & _ & H5). exact H5.
  - injection H as <-. reflexivity.
Qed.

(* ---------- every tree is its own text's reading and the calls that were given that tree ---------- *)
Lemma c17_reparse_independent : forall ops ts ts' j,
  rrun ts ops = Some ts' ->
  nth_error ts' j = fold_left estep (rown j (length ts) ops) (nth_error ts j).
Proof.
  induction ops as [|op r IH]; intros ts ts' j H; cbn [XmlReparse.rrun] in H.
  - injection H as <-. reflexivity.
  - destruct (rstep ts op) as [ts1|] eqn:E; [|discriminate].
    rewrite (IH _ _ j H). clear IH H.
    destruct op as [h s|k o|k t1|h s]; cbn [XmlReparse.rstep] in E; cbn [XmlReparseSpec.rown]; [| | |injection E as <-; reflexivity].
    + injection E as <-. destruct (parser h s) as [t|] eqn:P; [|reflexivity].
      rewrite app_length, fold_left_app. cbn [length].
      replace (length ts + 1)%nat with (S (length ts)) by lia. f_equal.
      rewrite nth_error_snoc.
      destruct (Nat.eqb (length ts) j); cbn [only_when fold_left]; [|reflexivity].
      destruct (nth_error ts j); cbn [XmlReparseSpec.estep]; symmetry; exact P.
    + destruct (update_nth_spec _ _ _ _ _ E) as (x & y & H1 & H2 & H3 & H4 & H5).
      rewrite H5, fold_left_app. f_equal.
      destruct (Nat.eqb_spec k j) as [->|Ne]; cbn [only_when fold_left].
      * rewrite H1, H3. cbn [XmlReparseSpec.estep]. symmetry. exact H2.
      * apply H4. congruence.
    + destruct (update_nth_spec _ _ _ _ _ E) as (x & y & H1 & H2 & H3 & H4 & H5).
      rewrite H5, fold_left_app. f_equal.
      destruct (Nat.eqb_spec k j) as [->|Ne]; cbn [only_when fold_left].
      * rewrite H1, H3. cbn [XmlReparseSpec.estep]. symmetry. exact H2.
      * apply H4. congruence.
Qed.

(* a process that starts with no tree: tree j is its life run alone *)
Lemma c17_reparse_alone : forall ops ts' j,
  rrun [] ops = Some ts' -> nth_error ts' j = fold_left estep (rown j 0 ops) None.
Proof.
  intros ops ts' j H. rewrite (c17_reparse_independent _ _ _ j H). cbn [length]. destruct j; reflexivity.
Qed.

Lemma edits_length : forall edits ts ts1,
  Forall (fun op => rop_tree op = Some 0%nat) edits -> rrun ts edits = Some ts1 -> length ts1 = length ts.
Proof.
  induction edits as [|op r IH]; intros ts ts1 F H; cbn [XmlReparse.rrun] in H.
  - injection H as <-. reflexivity.
  - inversion F as [|? ? Hop Fr]; subst.
    destruct (rstep ts op) as [ts2|] eqn:E; [|discriminate].
    rewrite (IH _ _ Fr H). rewrite (rstep_length _ _ _ E).
    destruct op; [discriminate Hop|reflexivity|reflexivity|reflexivity].
Qed.

(* parse s, do anything to the tree handed out (helpers, the caller's own edits), parse s again: the second tree
   is what the parser reads from s, and the first is what the edits made of it *)
Lemma c17_reparse_same_text : forall h s t edits ts',
  parser h s = Some t ->
  Forall (fun op => rop_tree op = Some 0%nat) edits ->
  rrun [] (RParse h s :: edits ++ [RParse h s]) = Some ts' ->
  exists t0, ts' = [t0; t] /\
             Some t0 = fold_left estep (rown 0 1 edits) (Some t).
Proof.
  intros h s t edits ts' P F H.
  cbn [XmlReparse.rrun XmlReparse.rstep] in H. rewrite P in H. cbn [app] in H.
  destruct (c17_reparse_fresh _ _ _ _ _ _ H P) as (ts1 & R1 & -> & _).
  pose proof (edits_length _ _ _ F R1) as L. cbn [length] in L.
  pose proof (c17_reparse_independent _ _ _ 0%nat R1) as I0. cbn [length nth_error] in I0.
  destruct ts1 as [|t0 [|x r]]; try discriminate L.
  exists t0. split; [reflexivity|]. exact I0.
Qed.
(* ---------- a call that raises leaves nothing behind ---------- *)
Notation rraises := (rraises parser).

Lemma c17_reparse_raise_step : forall ts op, rraises op = true -> rstep ts op = Some ts.
Proof.
  intros ts op H. destruct op as [h s|k o|k t1|h s]; cbn [XmlReparse.rraises] in H; cbn [XmlReparse.rstep]; try discriminate H; [|reflexivity].
  destruct (parser h s); [discriminate H|reflexivity].
Qed.

(* the calls that raise can be struck out of a history: the process ends with the very same trees *)
Lemma c17_reparse_raise_erase : forall ops ts,
  rrun ts ops = rrun ts (filter (fun op => negb (rraises op)) ops).
Proof.
  induction ops as [|op r IH]; intros ts; cbn [filter XmlReparse.rrun]; [reflexivity|].
  destruct (rraises op) eqn:R; cbn [negb].
  - rewrite (c17_reparse_raise_step ts op R). apply IH.
  - cbn [XmlReparse.rrun]. destruct (rstep ts op); [apply IH|reflexivity].
Qed.

(* ... so after any number of calls that raised - for whatever reason, through whichever parser variant, on texts of
   any length - the next parse hands out what it hands out in a process that has parsed nothing yet *)
Lemma c17_reparse_after_raises : forall bad h s,
  Forall (fun op => rraises op = true) bad ->
  rrun [] (bad ++ [RParse h s]) = rrun [] [RParse h s].
Proof.
  intros bad h s F. rewrite rrun_app.
  assert (E : rrun [] bad = Some []).
  { clear h s. induction F as [|op r Hop Fr IH]; cbn [XmlReparse.rrun]; [reflexivity|].
    rewrite (c17_reparse_raise_step [] op Hop). exact IH. }
  rewrite E. reflexivity.
Qed.

(* and in the middle of any history: what the later calls make of the trees does not depend on the calls that raised *)
Lemma c17_reparse_raises_between : forall ops1 bad ops2 ts,
  Forall (fun op => rraises op = true) bad ->
  rrun ts (ops1 ++ bad ++ ops2) = rrun ts (ops1 ++ ops2).
Proof.
  intros ops1 bad ops2 ts F. rewrite !rrun_app.
  destruct (rrun ts ops1) as [ts1|]; [|reflexivity].
  rewrite rrun_app.
  assert (E : rrun ts1 bad = Some ts1).
  { induction F as [|op r Hop Fr IH]; cbn [XmlReparse.rrun]; [reflexivity|].
    rewrite (c17_reparse_raise_step ts1 op Hop). exact IH. }
  rewrite E. reflexivity.
Qed.

(* the trees-after-every-call trace the runner reports is the run *)
Lemma c17_reparse_trace : forall ops ts ts',
  rrun ts ops = Some ts' -> last (rtrace ts ops) ts = ts' /\ length (rtrace ts ops) = length ops.
Proof.
  induction ops as [|op r IH]; intros ts ts' H; cbn [XmlReparse.rrun XmlReparse.rtrace] in *.
  - injection H as <-. split; reflexivity.
  - destruct (rstep ts op) as [ts1|] eqn:E; [|discriminate].
    destruct (IH _ _ H) as [H1 H2]. split.
    + rewrite last_cons_default. exact H1.
    + cbn [length]. rewrite H2. reflexivity.
Qed.
End WithOracles.
