(* WriterProofs.v — lemmas behind Props/C02.v *)
From Coq Require Import Lia ZifyBool.
From NC Require Import Model.Base Model.Lit Model.Writer Spec.WireSpec Proofs.BaseFacts.

(* ------------------------------------------------------------------ decimal *)
Lemma dec_aux_S f n acc : dec_aux (S f) n acc =
  if n <? 10 then (48 + n) :: acc else dec_aux f (n / 10) ((48 + n mod 10) :: acc).
Proof. reflexivity. Qed.

Lemma dec_aux_app f : forall n acc, dec_aux f n acc = dec_aux f n [] ++ acc.
Proof.
  induction f as [|f IH]; intros n acc; cbn [dec_aux].
  - reflexivity.
  - destruct (n <? 10) eqn:E.
    + reflexivity.
    + rewrite IH. rewrite (IH _ [_]). rewrite <- app_assoc. reflexivity.
Qed.

Definition all_digits (l : bytes) : Prop := Forall (fun c => is_digit c = true) l.

Lemma digits_value_app l c : digits_value (l ++ [c]) = 10 * digits_value l + (c - 48).
Proof. unfold digits_value. rewrite fold_left_app. reflexivity. Qed.

Lemma is_digit_small n : n < 10 -> is_digit (48 + n) = true.
Proof. intros H. unfold is_digit. lia. Qed.
Lemma is_digit_range d : is_digit d = true -> 48 <= d <= 57.
Proof. unfold is_digit. lia. Qed.

Lemma dec_spec f : forall n, n < 2 ^ N.of_nat f ->
  let l := dec_aux (S f) n [] in
  all_digits l /\ l <> [] /\ (1 <= n -> hd 0 l <> 48) /\ digits_value l = n.
Proof.
  induction f as [|f IH]; intros n Hn; cbn zeta.
  - cbn [dec_aux]. assert (n = 0) by (cbn in Hn; lia). subst n. cbn.
    split; [|split; [|split]]; try discriminate; try lia; try reflexivity. repeat constructor.
  - rewrite dec_aux_S. destruct (n <? 10) eqn:E.
    + split; [|split; [|split]].
      * constructor; [|constructor]. apply is_digit_small. lia.
      * discriminate.
      * intros H1. cbn [hd]. lia.
      * unfold digits_value. cbn [fold_left]. lia.
    + assert (Hd : n / 10 < 2 ^ N.of_nat f).
      { assert (H2 : 2 ^ N.of_nat (S f) = 2 * 2 ^ N.of_nat f).
        { rewrite Nat2N.inj_succ. apply N.pow_succ_r'. }
        rewrite H2 in Hn. apply N.div_lt_upper_bound; lia. }
      specialize (IH (n / 10) Hd). cbn zeta in IH.
      destruct IH as (A & B & C & D).
      rewrite dec_aux_app.
      set (l := dec_aux (S f) (n / 10) []) in *.
      assert (Hmod : n mod 10 < 10) by (apply N.mod_lt; lia).
      split; [|split; [|split]].
      * apply Forall_app. split; [exact A|]. constructor; [|constructor]. apply is_digit_small. lia.
      * destruct l; discriminate.
      * intros _. destruct l as [|x l']; [congruence|]. cbn. cbn in C. apply C.
        assert (10 <= n) by lia. apply N.div_le_lower_bound; lia.
      * rewrite digits_value_app, D.
        pose proof (N.div_mod n 10 ltac:(lia)) as Hdm.
        clear - Hdm Hmod. generalize dependent (n / 10). generalize dependent (n mod 10). intros; lia.
Qed.

Lemma decimal_spec n :
  all_digits (decimal n) /\ decimal n <> [] /\ (1 <= n -> hd 0 (decimal n) <> 48)
  /\ digits_value (decimal n) = n.
Proof.
  unfold decimal. apply dec_spec. rewrite N2Nat.id. apply N.size_gt.
Qed.

(* ------------------------------------------------------------------ strict 1.1 decoder on frames *)
Lemma span_digits_stop ds c r :
  all_digits ds -> is_digit c = false -> span_digits (ds ++ c :: r) = (ds, c :: r).
Proof.
  induction 1 as [|d ds Hd _ IH]; intros Hc; cbn [app span_digits].
  - rewrite Hc. reflexivity.
  - rewrite Hd, (IH Hc). reflexivity.
Qed.

Lemma read_size_decimal n r :
  1 <= n -> n <= CHUNK_MAX -> read_size (decimal n ++ cLF :: r) = Some (n, r).
Proof.
  intros H1 H2. destruct (decimal_spec n) as (A & B & C & D).
  unfold read_size. rewrite span_digits_stop by (auto; reflexivity).
  destruct (decimal n) as [|d ds] eqn:E; [congruence|].
  specialize (C H1). cbn in C.
  assert (d =? 48 = false) by lia. rewrite H. rewrite N.eqb_refl. cbn [negb orb].
  rewrite D. assert (n <=? CHUNK_MAX = true) by lia. rewrite H0. reflexivity.
Qed.

Lemma take_exact (m r : bytes) : take (N.of_nat (length m)) (m ++ r) = Some (m, r).
Proof.
  unfold take. rewrite app_length, Nat2N.id.
  assert (N.of_nat (length m) <=? N.of_nat (length m + length r) = true) by lia.
  rewrite H. rewrite firstn_app, skipn_app, Nat.sub_diag, firstn_all, skipn_all. cbn.
  rewrite app_nil_r. reflexivity.
Qed.

Definition sendable11 (m : bytes) : Prop := m <> [] /\ N.of_nat (length m) <= CHUNK_MAX.

Lemma chunked_frame f m rest :
  sendable11 m ->
  chunked_message (S (S f)) (frame B11 m ++ rest) [] false = Some (m, rest).
Proof.
  intros [Hne Hmax].
  set (n := N.of_nat (length m)).
  assert (H1 : 1 <= n) by (destruct m; [congruence|cbn in *; lia]).
  destruct (decimal_spec n) as (A & B & _ & _).
  assert (Hfr : frame B11 m ++ rest = 10 :: 35 :: decimal n ++ cLF :: m ++ END_DELIM ++ rest).
  { unfold frame, start_delim. fold n. cbn [app]. rewrite <- !app_assoc. reflexivity. }
  rewrite Hfr.
  assert (Hsw : startswith (10 :: 35 :: decimal n ++ cLF :: m ++ END_DELIM ++ rest) END_OF_CHUNKS = false).
  { destruct (decimal n) as [|d ds] eqn:E; [congruence|].
    assert (Hd : is_digit d = true) by (inversion A; assumption).
    apply is_digit_range in Hd. unfold startswith, END_OF_CHUNKS, cLF, cHASH. cbn [prefixb app].
    assert (X : (35 =? d) = false) by lia. rewrite X, !N.eqb_refl. reflexivity. }
  cbn [chunked_message]. rewrite Hsw.
  change (startswith (10 :: 35 :: decimal n ++ cLF :: m ++ END_DELIM ++ rest) CHUNK_START) with true.
  cbn [skipn].
  rewrite read_size_decimal by assumption.
  unfold n at 1. rewrite take_exact.
  change (startswith (END_DELIM ++ rest) END_OF_CHUNKS) with true.
  cbn [app]. reflexivity.
Qed.

Lemma frame_nonempty b m : frame b m <> [].
Proof.
  destruct b; unfold frame.
  - destruct m; discriminate.
  - unfold start_delim. discriminate.
Qed.

Lemma frame11_length_ge2 m rest : exists k, length (frame B11 m ++ rest) = S (S k).
Proof. unfold frame, start_delim. cbn. eexists; reflexivity. Qed.

Lemma decode11_frames msgs : forall f, (length msgs <= f)%nat -> Forall sendable11 msgs ->
  decode11_fuel f (concat (map (frame B11) msgs)) = Some msgs.
Proof.
  induction msgs as [|m msgs IH]; intros f Hf Hall.
  - destruct f; reflexivity.
  - inversion Hall as [|? ? Hm Hrest]; subst.
    cbn [map concat].
    destruct (frame11_length_ge2 m (concat (map (frame B11) msgs))) as [k Hk].
    destruct (frame B11 m ++ concat (map (frame B11) msgs)) as [|x s] eqn:E; [discriminate|].
    destruct f as [|f]; [cbn in Hf; lia|].
    cbn [decode11_fuel]. rewrite Hk, <- E.
    rewrite chunked_frame by assumption.
    rewrite IH by (auto; cbn in Hf; lia). reflexivity.
Qed.

Lemma length_concat_frames b msgs : (length msgs <= length (concat (map (frame b) msgs)))%nat.
Proof.
  induction msgs as [|m msgs IH]; cbn; [lia|].
  rewrite app_length. pose proof (frame_nonempty b m). destruct (frame b m); [congruence|cbn; lia].
Qed.

Lemma c02_decode11 : forall msgs, Forall sendable11 msgs ->
  decode11 (concat (map (frame B11) msgs)) = Some msgs.
Proof. intros msgs H. apply decode11_frames; [apply length_concat_frames|exact H]. Qed.

(* an empty message under 1.1 puts "\n#0\n\n##\n" on the wire: chunk-size 0 is not RFC 6242 *)
Lemma chunked_empty f rest : chunked_message f (frame B11 [] ++ rest) [] false = None.
Proof. destruct f; reflexivity. Qed.

Lemma decode11_empty_fuel before : forall f rest, Forall sendable11 before ->
  decode11_fuel f (concat (map (frame B11) before) ++ frame B11 [] ++ rest) = None.
Proof.
  induction before as [|m before IH]; intros f rest Hall.
  - cbn [map concat app]. destruct f; [reflexivity|].
    change (frame B11 [] ++ rest) with (10 :: (35 :: 48 :: 10 :: 10 :: 35 :: 35 :: 10 :: rest)).
    cbn [decode11_fuel].
    change (10 :: (35 :: 48 :: 10 :: 10 :: 35 :: 35 :: 10 :: rest)) with (frame B11 [] ++ rest).
    rewrite chunked_empty. reflexivity.
  - inversion Hall as [|? ? Hm Hrest]; subst.
    cbn [map concat]. rewrite <- app_assoc.
    destruct (frame11_length_ge2 m (concat (map (frame B11) before) ++ frame B11 [] ++ rest)) as [k Hk].
    destruct (frame B11 m ++ concat (map (frame B11) before) ++ frame B11 [] ++ rest) as [|x s] eqn:E; [discriminate|].
    destruct f as [|f]; [reflexivity|].
    cbn [decode11_fuel]. rewrite Hk, <- E.
    rewrite chunked_frame by assumption.
    rewrite IH by assumption. reflexivity.
Qed.

Lemma c02_empty11_refuted : forall before after, Forall sendable11 before ->
  decode11 (concat (map (frame B11) (before ++ [] :: after))) = None.
Proof.
  intros before after H. unfold decode11.
  rewrite map_app, concat_app. cbn [map concat].
  apply decode11_empty_fuel. exact H.
Qed.

(* ------------------------------------------------------------------ strict 1.0 decoder on frames *)
Lemma prefixb_app_long d : forall s r, (length d <= length s)%nat -> prefixb d (s ++ r) = prefixb d s.
Proof.
  induction d as [|x d IH]; intros s r H; [reflexivity|].
  destruct s as [|y s]; [cbn in H; lia|]. cbn. rewrite IH by (cbn in H; lia). reflexivity.
Qed.

Lemma find_sub_eq d s : find_sub d s =
  if prefixb d s then Some ([], skipn (length d) s)
  else match s with
       | [] => None
       | x :: s' => match find_sub d s' with Some (a, b) => Some (x :: a, b) | None => None end
       end.
Proof. destruct s; reflexivity. Qed.

Lemma prefixb_self d r : prefixb d (d ++ r) = true.
Proof. induction d as [|z l IHl]; cbn; [reflexivity|]. rewrite N.eqb_refl, IHl. reflexivity. Qed.

Lemma find_sub_extend d : forall m rest,
  find_sub d (m ++ d) = Some (m, []) -> find_sub d (m ++ d ++ rest) = Some (m, rest).
Proof.
  induction m as [|x m IH]; intros rest H.
  - cbn [app]. rewrite find_sub_eq, prefixb_self.
    rewrite skipn_app, skipn_all, Nat.sub_diag. reflexivity.
  - rewrite find_sub_eq in H. rewrite find_sub_eq.
    replace ((x :: m) ++ d ++ rest) with (((x :: m) ++ d) ++ rest) by (rewrite <- app_assoc; reflexivity).
    rewrite prefixb_app_long by (rewrite app_length; lia).
    destruct (prefixb d ((x :: m) ++ d)) eqn:P; [discriminate|].
    cbn [app] in *. rewrite <- app_assoc.
    destruct (find_sub d (m ++ d)) as [[a b]|] eqn:F; [|discriminate].
    inversion H; subst. rewrite (IH rest) by reflexivity. reflexivity.
Qed.

Lemma decode10_frames msgs : forall f, (length msgs <= f)%nat -> Forall eom_safe msgs ->
  decode10_fuel f (concat (map (frame B10) msgs)) = Some msgs.
Proof.
  induction msgs as [|m msgs IH]; intros f Hf Hall.
  - destruct f; reflexivity.
  - inversion Hall as [|? ? Hm Hrest]; subst.
    cbn [map concat]. unfold frame at 1.
    destruct ((m ++ MSG_DELIM) ++ concat (map (frame B10) msgs)) as [|x s] eqn:E.
    { destruct m; discriminate. }
    destruct f as [|f]; [cbn in Hf; lia|].
    cbn [decode10_fuel]. rewrite <- E, <- app_assoc.
    change MSG_DELIM with EOM.
    rewrite (find_sub_extend EOM m _ Hm).
    rewrite IH by (auto; cbn in Hf; lia). reflexivity.
Qed.

Lemma c02_decode10 : forall msgs, Forall eom_safe msgs ->
  decode10 (concat (map (frame B10) msgs)) = Some msgs.
Proof. intros msgs H. apply decode10_frames; [apply length_concat_frames|exact H]. Qed.

(* ------------------------------------------------------------------ the write loop *)
Definition unsent_of_err (e : werr) : bytes :=
  match e with SessionClose u => u | TransportExc u => u | CompareExc u => u end.
Definition unsent (r : wres) : bytes :=
  match r with WDone => [] | WErr e => unsent_of_err e | WStarved u => u end.

Definition accepting (a : answer) : Prop := exists n, a = Accept n /\ 1 <= n.
Definition rejecting (a : answer) : Prop := a = Accept 0 \/ a = Neg \/ a = Raise \/ a = NoCount.

Lemma accepting_or_rejecting a : accepting a \/ rejecting a.
Proof.
  destruct a as [n| | |]; unfold accepting, rejecting; auto.
  destruct (N.eq_dec n 0); [subst; auto|]. left. exists n. split; [reflexivity|lia].
Qed.
Lemma accepting_not_rejecting a : accepting a -> ~ rejecting a.
Proof. intros (n & -> & H) [X|[X|[X|X]]]; try discriminate. inversion X; lia. Qed.

(* what the loop's outcome says about the answers it consumed *)
Definition outcome_ok (data : bytes) (used : list answer) (r : wres) : Prop :=
  match r with
  | WDone => Forall accepting used
  | WStarved u => Forall accepting used /\ u <> []
  | WErr e => exists used' a, used = used' ++ [a] /\ Forall accepting used' /\ rejecting a
                /\ unsent_of_err e <> []
                /\ (e = SessionClose (unsent_of_err e) <-> a <> Raise /\ a <> NoCount)
                /\ (e = CompareExc (unsent_of_err e) <-> a = NoCount)
  end.

Lemma write_loop_spec : forall answers data w r rest,
  write_loop data answers = (w, r, rest) ->
  exists used, answers = used ++ rest /\ data = w ++ unsent r /\ outcome_ok data used r
               /\ (forall u, r = WStarved u -> rest = []).
Proof.
  induction answers as [|a answers IH]; intros data w r rest H.
  - destruct data as [|x data]; cbn in H; inversion H; subst; exists []; cbn.
    + repeat split; auto; discriminate.
    + repeat split; auto; discriminate.
  - destruct data as [|x data].
    { cbn in H. inversion H; subst. exists []. cbn. repeat split; auto; discriminate. }
    cbn [write_loop] in H.
    destruct a as [n| | |].
    + destruct (n =? 0) eqn:En.
      * inversion H; subst. exists [Accept n]. cbn.
        repeat split; auto; try discriminate.
        exists [], (Accept n). repeat split; auto; try discriminate.
        left. f_equal. lia.
      * destruct (write_loop (skipn (N.to_nat n) (x :: data)) answers) as [[w' r'] rest'] eqn:W.
        inversion H; subst. destruct (IH _ _ _ _ W) as (used & Hu & Hd & Ho & Hs).
        exists (Accept n :: used). split; [cbn; congruence|]. split.
        { rewrite <- app_assoc, <- Hd, firstn_skipn. reflexivity. }
        assert (Ha : accepting (Accept n)) by (exists n; split; [reflexivity|lia]).
        split; [|exact Hs].
        destruct r; cbn in *.
        -- constructor; assumption.
        -- destruct Ho as (used' & a & E1 & E2 & E3 & E4 & E5 & E6).
           exists (Accept n :: used'), a. subst used.
           split; [reflexivity|]. split; [constructor; assumption|]. split; [exact E3|]. split; [exact E4|]. split; [exact E5|exact E6].
        -- destruct Ho; split; auto.
    + inversion H; subst. exists [Neg]. cbn. repeat split; auto; try discriminate.
      exists [], Neg. unfold rejecting. repeat split; auto; discriminate.
    + inversion H; subst. exists [Raise]. cbn. repeat split; auto; try discriminate.
      exists [], Raise. unfold rejecting. repeat split; auto; try discriminate. intros [X _]; congruence.
    + inversion H; subst. exists [NoCount]. cbn. repeat split; auto; try discriminate.
      exists [], NoCount. unfold rejecting. repeat split; auto; try discriminate. intros [_ X]; congruence.
Qed.

Lemma write_loop_enough : forall answers data,
  Forall accepting answers -> (length data <= length answers)%nat ->
  exists rest, write_loop data answers = (data, WDone, rest).
Proof.
  induction answers as [|a answers IH]; intros data Hall Hlen.
  - destruct data; [eexists; reflexivity|cbn in Hlen; lia].
  - destruct data as [|x data]; [eexists; reflexivity|].
    inversion Hall as [|? ? Ha Hrest]; subst. destruct Ha as (n & -> & Hn).
    cbn [write_loop]. assert (E : n =? 0 = false) by lia. rewrite E.
    destruct (IH (skipn (N.to_nat n) (x :: data)) Hrest) as [rest Hw].
    { rewrite skipn_length. cbn [length] in *. lia. }
    rewrite Hw. exists rest. rewrite firstn_skipn. reflexivity.
Qed.

Lemma c02_short_writes : forall data answers w r rest,
  write_loop data answers = (w, r, rest) ->
  exists used, answers = used ++ rest /\ data = w ++ unsent r /\
    (r = WDone <-> Forall accepting used /\ unsent r = []) /\
    (forall e, r = WErr e -> exists used' a, used = used' ++ [a] /\ Forall accepting used' /\ rejecting a
                              /\ unsent r <> [] /\ (e = SessionClose (unsent r) <-> a <> Raise /\ a <> NoCount)
                              /\ (e = CompareExc (unsent r) <-> a = NoCount)) /\
    (forall u, r = WStarved u -> Forall accepting used /\ rest = [] /\ u <> []).
Proof.
  intros data answers w r rest H.
  destruct (write_loop_spec _ _ _ _ _ H) as (used & Hu & Hd & Ho & Hs).
  exists used. split; [exact Hu|]. split; [exact Hd|]. split; [|split].
  - split.
    + intros ->. cbn in *. auto.
    + intros [Hall Hn]. destruct r as [|e|u]; [reflexivity| |].
      * cbn in Ho. destruct Ho as (used' & a & E1 & _ & E3 & _). subst used.
        apply Forall_app in Hall. destruct Hall as [_ Hl]. inversion Hl; subst.
        exfalso. eapply accepting_not_rejecting; eauto.
      * cbn in Ho, Hn. destruct Ho. congruence.
  - intros e ->. cbn in Ho. exact Ho.
  - intros u ->. cbn in Ho. destruct Ho. repeat split; auto. eapply Hs; reflexivity.
Qed.

(* ------------------------------------------------------------------ the worker *)
Definition wire_shape (b : base) (q : list bytes) (w : bytes) (st : wstat) : Prop :=
  match st with
  | Drained => w = concat (map (frame b) q)
  | Waiting q' => q' <> [] /\ exists done, q = done ++ q' /\ w = concat (map (frame b) done)
  | InFlight u q' => exists done m p, q = done ++ m :: q' /\
        w = concat (map (frame b) done) ++ p /\ frame b m = p ++ u /\ u <> []
  | Failed e q' => exists done m p, q = done ++ m :: q' /\
        w = concat (map (frame b) done) ++ p /\ frame b m = p ++ unsent_of_err e /\ unsent_of_err e <> []
  end.

Lemma shape_cons b m q w st : wire_shape b q w st -> wire_shape b (m :: q) (frame b m ++ w) st.
Proof.
  destruct st as [|q'|u q'|e q']; cbn.
  - intros ->. reflexivity.
  - intros (Hne & done & -> & ->). split; [exact Hne|]. exists (m :: done). split; reflexivity.
  - intros (done & m' & p & -> & -> & Hf & Hu). exists (m :: done), m', p.
    repeat split; auto. cbn. rewrite app_assoc. reflexivity.
  - intros (done & m' & p & -> & -> & Hf & Hu). exists (m :: done), m', p.
    repeat split; auto. cbn. rewrite app_assoc. reflexivity.
Qed.

Lemma worker_spec b : forall readys q answers w st,
  worker b q readys answers = (w, st) -> wire_shape b q w st.
Proof.
  induction readys as [|r readys IH]; intros q answers w st H.
  - destruct q as [|m q']; cbn in H; inversion H; subst; cbn.
    + reflexivity.
    + split; [discriminate|]. exists []. split; reflexivity.
  - destruct q as [|m q'].
    { cbn in H. inversion H; subst. reflexivity. }
    cbn [worker] in H. destruct r.
    + destruct (write_loop (frame b m) answers) as [[w1 r1] a1] eqn:W.
      destruct (write_loop_spec _ _ _ _ _ W) as (used & Hu & Hd & Ho & Hs).
      destruct r1 as [|e|u].
      * destruct (worker b q' readys a1) as [w' st'] eqn:W2.
        inversion H; subst. cbn in Hd. rewrite app_nil_r in Hd. subst w1.
        apply shape_cons. eapply IH; eauto.
      * inversion H; subst. cbn in Ho. destruct Ho as (_ & _ & _ & _ & _ & Hne & _).
        exists [], m, w. repeat split; auto.
      * inversion H; subst. cbn in Ho. destruct Ho as [_ Hne].
        exists [], m, w. repeat split; auto.
    + eapply IH; eauto.
Qed.

Lemma shape_prefix b q w st : wire_shape b q w st ->
  prefix_of w (concat (map (frame b) q)) /\
  exists done partial rest, q = done ++ rest /\ w = concat (map (frame b) done) ++ partial /\
    (partial = [] \/ exists m rest', rest = m :: rest' /\ strict_prefix_of partial (frame b m)).
Proof.
  destruct st as [|q'|u q'|e q']; cbn.
  - intros ->. split; [exists []; rewrite app_nil_r; reflexivity|].
    exists q, [], []. rewrite !app_nil_r. auto.
  - intros (_ & done & -> & ->). split.
    + exists (concat (map (frame b) q')). rewrite map_app, concat_app. reflexivity.
    + exists done, [], q'. rewrite app_nil_r. auto.
  - intros (done & m & p & -> & -> & Hf & Hu). split.
    + exists (u ++ concat (map (frame b) q')). rewrite map_app, concat_app. cbn. rewrite Hf, <- !app_assoc. reflexivity.
    + exists done, p, (m :: q'). repeat split; auto. right. exists m, q'. split; [reflexivity|].
      exists u. auto.
  - intros (done & m & p & -> & -> & Hf & Hu). split.
    + exists (unsent_of_err e ++ concat (map (frame b) q')). rewrite map_app, concat_app. cbn. rewrite Hf, <- !app_assoc. reflexivity.
    + exists done, p, (m :: q'). repeat split; auto. right. exists m, q'. split; [reflexivity|].
      exists (unsent_of_err e). auto.
Qed.

Lemma c02_wire_prefix : forall b q readys answers w st,
  worker b q readys answers = (w, st) ->
  prefix_of w (concat (map (frame b) q)) /\
  exists done partial rest, q = done ++ rest /\ w = concat (map (frame b) done) ++ partial /\
    (partial = [] \/ exists m rest', rest = m :: rest' /\ strict_prefix_of partial (frame b m)).
Proof. intros. eapply shape_prefix, worker_spec; eauto. Qed.

Lemma c02_drained : forall b q readys answers w,
  worker b q readys answers = (w, Drained) -> w = concat (map (frame b) q).
Proof. intros b q readys answers w H. apply worker_spec in H. exact H. Qed.

Lemma c02_failure : forall b q readys answers w e q',
  worker b q readys answers = (w, Failed e q') ->
  exists done m partial, q = done ++ m :: q' /\
    w = concat (map (frame b) done) ++ partial /\
    frame b m = partial ++ unsent_of_err e /\ unsent_of_err e <> [].
Proof. intros b q readys answers w e q' H. apply worker_spec in H. exact H. Qed.

Lemma c02_no_spurious_failure b : forall readys q answers w st,
  Forall accepting answers -> worker b q readys answers = (w, st) -> forall e q', st <> Failed e q'.
Proof.
  induction readys as [|r readys IH]; intros q answers w st Hall H e0 q0.
  - destruct q; cbn in H; inversion H; discriminate.
  - destruct q as [|m q']; [cbn in H; inversion H; discriminate|].
    cbn [worker] in H. destruct r; [|exact (IH _ _ _ _ Hall H e0 q0)].
    destruct (write_loop (frame b m) answers) as [[w1 r1] a1] eqn:W.
    destruct (write_loop_spec _ _ _ _ _ W) as (used & Hu & Hd & Ho & Hs).
    subst answers. apply Forall_app in Hall. destruct Hall as [Hused Hrest].
    destruct r1 as [|e|u].
    + destruct (worker b q' readys a1) as [w' st'] eqn:W2. inversion H; subst.
      exact (IH _ _ _ _ Hrest W2 e0 q0).
    + cbn in Ho. destruct Ho as (used' & a & E1 & _ & E3 & _). subst used.
      apply Forall_app in Hused. destruct Hused as [_ Hl]. inversion Hl; subst.
      exfalso. eapply accepting_not_rejecting; eauto.
    + inversion H; discriminate.
Qed.

(* ------------------------------------------------------------------ concurrent submitters *)
Lemma c02_submission_order : forall progs out,
  interleaving progs out -> forall t, of_thread t out = progs t.
Proof.
  induction 1 as [progs Hall|progs t m rest out Hp Hil IH]; intros t'.
  - rewrite Hall. reflexivity.
  - unfold of_thread in *. cbn [filter fst].
    specialize (IH t'). unfold upd in IH.
    destruct (Nat.eqb t t') eqn:E.
    + apply Nat.eqb_eq in E. subst t'. rewrite Nat.eqb_refl in IH. cbn [map snd]. rewrite IH, Hp. reflexivity.
    + rewrite Nat.eqb_sym in E. rewrite E in IH. exact IH.
Qed.

Lemma interleaving_complete : forall progs out,
  interleaving progs out -> forall t m, In (t, m) out -> In m (progs t).
Proof.
  intros progs out H t m Hin. rewrite <- (c02_submission_order _ _ H t).
  unfold of_thread. apply in_map_iff. exists (t, m). split; [reflexivity|].
  apply filter_In. split; [exact Hin|]. cbn. apply Nat.eqb_refl.
Qed.
